(* The non-validating ("fast") skippers of native/scanning.h used by Get / lazy ast loading / the stream decoder:
   skip_one_fast_1, skip_container_fast, skip_string_fast, skip_number_fast, at the level of their scalar
   specification (the per-block bit tricks - escaped mask, in-quote prefix xor, popcount of braces - compute the
   same thing block-wise; skip_number_fast is kept in its 16-byte blocked form because its result depends on it). *)
From Coq Require Import List NArith Bool Arith Lia.
From SV.Json Require Import Chars StrScan Fsm.
Import ListNotations.
Open Scope N_scope.

(* skip_container_fast(src, p, lc, rc): scan from after the opening bracket; a quote preceded by an odd run of
   backslashes is escaped (the escape mask is applied to quotes only, inside or outside strings), unescaped
   quotes toggle the in-string state, brackets of the given kind outside strings are counted; returns the suffix
   after the bracket that closes the initial one, None = -ERR_EOF *)
Fixpoint container_fast (lc rc : N) (s : list N) (depth : nat) (inq esc : bool) : option (list N) :=
  match s with
  | [] => None
  | c :: r =>
      if c =? 92 then container_fast lc rc r depth inq (negb esc)
      else if c =? 34 then container_fast lc rc r depth (if esc then inq else negb inq) false
      else if inq then container_fast lc rc r depth inq false
      else if c =? lc then container_fast lc rc r (S depth) inq false
      else if c =? rc then match depth with O => Some r | S d => container_fast lc rc r d inq false end
      else container_fast lc rc r depth inq false
  end.

Definition skip_container_fast (lc rc : N) (rest : list N) : option (list N) := container_fast lc rc rest 0 false false.

(* skip_string_fast: first unescaped quote (32-byte rounds + carry + scalar tail; no uninitialised variable here) *)
Definition skip_string_fast (rest : list N) : option (list N) := scan_scalar rest.

Definition is_struct (c : N) : bool := (c =? 125) || (c =? 93) || (c =? 44).

Fixpoint find_struct (blk : list N) : option (list N * list N) :=    (* blk = a ++ c :: b, c the first structural *)
  match blk with
  | [] => None
  | c :: r => if is_struct c then Some ([], c :: r)
              else match find_struct r with Some (a, b) => Some (c :: a, b) | None => None end
  end.

Fixpoint span_ws (s : list N) : list N * list N :=
  match s with
  | c :: r => if isspace c then let (a, b) := span_ws r in (c :: a, b) else ([], s)
  | [] => ([], [])
  end.

(* scalar tail of skip_number_fast: stop at a structural byte or a blank *)
Fixpoint number_fast_tail (s : list N) : list N :=
  match s with
  | [] => []
  | c :: r => if is_struct c || isspace c then s else number_fast_tail r
  end.

(* 16-byte rounds: stop at the first structural byte, then backward_space_chars over what was consumed
   (rpre = consumed bytes, most recent first, including the first byte of the number) *)
Fixpoint number_fast_rounds (fuel : nat) (rpre : list N) (s : list N) : list N :=
  match fuel with
  | O => number_fast_tail s
  | S f =>
      match split_at 16 s with
      | None => number_fast_tail s
      | Some (blk, rest) =>
          match find_struct blk with
          | Some (a, b) => let (sp, _) := span_ws (rev a ++ rpre) in rev sp ++ b ++ rest
          | None => number_fast_rounds f (rev blk ++ rpre) rest
          end
      end
  end.

Definition skip_number_fast (fuel : nat) (ch : N) (rest : list N) : list N := number_fast_rounds fuel [ch] rest.

(* skip_one_fast_1: c = advance_ns(src, p); switch (c) ...   (v = the suffix starting at the value, for the result) *)
Definition fast_dispatch (ch : N) (rest v : list N) : res (list N * list N) :=
  if ch =? 91 then match skip_container_fast 91 93 rest with Some r => Ok (v, r) | None => Err ERR_EOF end
  else if ch =? 123 then match skip_container_fast 123 125 rest with Some r => Ok (v, r) | None => Err ERR_EOF end
  else if ch =? 34 then match skip_string_fast rest with Some r => Ok (v, r) | None => Err ERR_EOF end
  else if (ch =? 45) || is_digit ch then Ok (v, skip_number_fast (length rest) ch rest)
  else if (ch =? 116) || (ch =? 110) then
    (if shorter rest [0; 0; 0] then Err ERR_EOF else Ok (v, skipn 3 rest))
  else if ch =? 102 then
    (if shorter rest [0; 0; 0; 0] then Err ERR_EOF else Ok (v, skipn 4 rest))
  else if ch =? 0 then Err ERR_EOF
  else Err ERR_INVAL.

Definition skip_one_fast_1 (s : list N) : res (list N * list N) :=
  let (ch, rest) := advance_ns s in fast_dispatch ch rest (drop_ws s).
