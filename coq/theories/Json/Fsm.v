(* The validating state machine of native/scanning.h (fsm_exec_1 with flags = 0, i.e. validate_one / skip_one as
   called by sonic.Valid, decoder.Skip, ast.NewRaw, Searcher.GetByPath, RawMessage / Unmarshaler capture) and the
   Go wrappers that add the trailing-space rule.

   Conventions: positions are represented by suffixes of the input (`p` = length s - length suffix); `slen` is
   src->len of the whole buffer (advance_dword needs it: its guard is computed in size_t and wraps for short inputs). *)
From Coq Require Import List NArith Bool Arith Lia.
From SV.Json Require Import Chars StrScan NumScan.
Import ListNotations.
Open Scope N_scope.

Definition MAX_RECURSE : nat := 64 * 64.      (* native/types.h, internal/native/types/types.go *)

Inductive vt := FSM_VAL | FSM_ARR | FSM_OBJ | FSM_KEY | FSM_ELEM | FSM_ARR_0 | FSM_OBJ_0.

Inductive err := ERR_EOF | ERR_INVAL | ERR_RECURSE_MAX.

(* Undef: the shipped code reads past the input, the verdict depends on the bytes that follow it in memory *)
Inductive res (A : Type) := Ok (a : A) | Err (e : err) | Undef.
Arguments Ok {A} a. Arguments Err {A} e. Arguments Undef {A}.

(* advance_ns at the level of its specification: skip isspace bytes, return the next byte (0 at the end of the
   input) and the suffix after it *)
Definition advance_ns (s : list N) : N * list N :=
  match drop_ws s with
  | [] => (0, [])
  | c :: r => (c, r)
  end.

Fixpoint strip_prefix (lit s : list N) : option (list N) :=
  match lit with
  | [] => Some s
  | a :: lit' => match s with
                 | b :: s' => if a =? b then strip_prefix lit' s' else None
                 | [] => None
                 end
  end.

(* shorter s l = (length s <? length l), without walking the whole of s *)
Fixpoint shorter (s lit : list N) : bool :=
  match lit with
  | [] => false
  | _ :: lit' => match s with [] => true | _ :: s' => shorter s' lit' end
  end.

(* advance_dword(src, p, dec, ret, val): `rest` is the suffix after the first letter; `lit` the bytes still
   to be matched ("ull" / "rue" with dec = 1, "alse" with dec = 0).
     if ( p > src->len + dec - 4 )      -- size_t arithmetic: wraps when src->len + dec < 4, the guard is then
                                          false and the 4-byte load reads past the input                       *)
Definition advance_dword (slen : nat) (dec : nat) (lit rest : list N) : res (list N) :=
  if Nat.ltb (dec + slen) 4 then Undef
  else if shorter rest lit then Err ERR_EOF
  else match strip_prefix lit rest with
       | Some r => Ok r
       | None => Err ERR_INVAL
       end.

Definition lit_ull  : list N := [117; 108; 108].
Definition lit_rue  : list N := [114; 117; 101].
Definition lit_alse : list N := [97; 108; 115; 101].

(* skip_string_1 -> advance_string(flags = 0) -> advance_string_default; `rest` = suffix after the opening quote *)
Definition skip_string_1 (fuel : nat) (rest : list N) : res (list N) :=
  match advance_string_default fuel rest with
  | Some r => Ok r
  | None => Err ERR_EOF
  end.

(* skip_positive_1: `s` = suffix starting AT the first digit *)
Definition skip_positive_1 (s : list N) : res (list N) :=
  match do_skip_number s with
  | Some r => Ok r
  | None => Err ERR_INVAL
  end.

(* skip_negative_1: `rest` = suffix after '-' *)
Definition skip_negative_1 (rest : list N) : res (list N) :=
  match rest with
  | [] => Err ERR_INVAL                                    (* nb <= 0 *)
  | c :: _ =>
      if negb (is_digit c) then Err ERR_INVAL
      else match do_skip_number rest with
           | Some r => Ok r
           | None => Err ERR_INVAL
           end
  end.

(* fsm_push: the stack is a list, top first; self->sp = length *)
Definition fsm_push (st : list vt) (t : vt) : res (list vt) :=
  if Nat.leb MAX_RECURSE (length st) then Err ERR_RECURSE_MAX else Ok (t :: st).

Definition bind {A B} (r : res A) (f : A -> res B) : res B :=
  match r with Ok a => f a | Err e => Err e | Undef => Undef end.

(* The loop is written once, generic in the string scanner `scan` (skip_string_1 with flags = 0 -> advance_string_default,
   with MASK_VALIDATE_STRING -> advance_string_validate); fsm_value / fsm_step / fsm_exec_1 below are its instances for flags = 0. *)
Section Generic.
Variable scan : nat -> list N -> res (list N).

(* /* simple values */ switch (ch)  -- st is the stack after the frame handling *)
Definition fsm_value_g (fuel slen : nat) (st : list vt) (ch : N) (rest : list N) : res (list vt * list N) :=
  if is_digit ch then bind (skip_positive_1 (ch :: rest)) (fun r => Ok (st, r))
  else if ch =? 45 then bind (skip_negative_1 rest) (fun r => Ok (st, r))
  else if ch =? 110 then bind (advance_dword slen 1 lit_ull rest) (fun r => Ok (st, r))
  else if ch =? 116 then bind (advance_dword slen 1 lit_rue rest) (fun r => Ok (st, r))
  else if ch =? 102 then bind (advance_dword slen 0 lit_alse rest) (fun r => Ok (st, r))
  else if ch =? 91 then bind (fsm_push st FSM_ARR_0) (fun st' => Ok (st', rest))
  else if ch =? 123 then bind (fsm_push st FSM_OBJ_0) (fun st' => Ok (st', rest))
  else if ch =? 34 then bind (scan fuel rest) (fun r => Ok (st, r))
  else if ch =? 0 then Err ERR_EOF
  else Err ERR_INVAL.

(* one iteration of `while (self->sp)`: top frame t, frames below st *)
Definition fsm_step_g (fuel slen : nat) (t : vt) (st : list vt) (s : list N) : res (list vt * list N) :=
  let (ch, rest) := advance_ns s in
  if ch =? 0 then Err ERR_EOF
  else
    match t with
    | FSM_VAL => fsm_value_g fuel slen st ch rest                                   (* default: FSM_DROP *)
    | FSM_ARR =>
        if ch =? 93 then Ok (st, rest)
        else if ch =? 44 then bind (fsm_push (FSM_ARR :: st) FSM_VAL) (fun st' => Ok (st', rest))
        else Err ERR_INVAL
    | FSM_OBJ =>
        if ch =? 125 then Ok (st, rest)
        else if ch =? 44 then bind (fsm_push (FSM_OBJ :: st) FSM_KEY) (fun st' => Ok (st', rest))
        else Err ERR_INVAL
    | FSM_KEY =>
        if negb (ch =? 34) then Err ERR_INVAL
        else bind (scan fuel rest) (fun r => Ok (FSM_ELEM :: st, r))
    | FSM_ELEM =>
        if negb (ch =? 58) then Err ERR_INVAL
        else Ok (FSM_VAL :: st, rest)
    | FSM_ARR_0 =>
        if ch =? 93 then Ok (st, rest)
        else fsm_value_g fuel slen (FSM_ARR :: st) ch rest
    | FSM_OBJ_0 =>
        if ch =? 125 then Ok (st, rest)
        else if ch =? 34 then
          bind (scan fuel rest) (fun r =>
          bind (fsm_push (FSM_OBJ :: st) FSM_ELEM) (fun st' => Ok (st', r)))
        else Err ERR_INVAL
    end.

(* fsm_exec_1: every iteration consumes at least one byte, so fuel = length s + 1 is enough (fsm_fuel_enough).
   Result: the suffix after the value.  None = fuel exhausted (never happens with enough fuel). *)
Fixpoint fsm_exec_g (fuel : nat) (slen : nat) (st : list vt) (s : list N) : option (res (list N)) :=
  match st with
  | [] => Some (Ok s)
  | t :: st' =>
      match fuel with
      | O => None
      | S f =>
          match fsm_step_g fuel slen t st' s with
          | Ok (st2, s2) => fsm_exec_g f slen st2 s2
          | Err e => Some (Err e)
          | Undef => Some Undef
          end
      end
  end.

End Generic.

Definition fsm_value := fsm_value_g skip_string_1.
Definition fsm_step := fsm_step_g skip_string_1.
Definition fsm_exec_1 := fsm_exec_g skip_string_1.

(* skip_string_1 with flags & MASK_VALIDATE_STRING: advance_string -> advance_string_validate *)
Definition skip_string_v (fuel : nat) (rest : list N) : res (list N) :=
  match advance_string_validate fuel rest with
  | SOk r => Ok r
  | SEof => Err ERR_EOF
  | SInval => Err ERR_INVAL
  end.

Definition fsm_exec_v := fsm_exec_g skip_string_v.

(* unfold one iteration of the loop *)
Ltac exec_unfold := unfold fsm_exec_1; cbn [fsm_exec_g]; fold fsm_step; fold fsm_exec_1.
Ltac exec_unfold_in H := unfold fsm_exec_1 in H; cbn [fsm_exec_g] in H; fold fsm_step in H; fold fsm_exec_1 in H.

(* validate_one / skip_one_1 (flags = 0): fsm_init(m, FSM_VAL); fsm_exec_1.
   Result Ok (v, rest): v = suffix starting at the first non-blank byte (return value `vi`), rest = suffix at *p. *)
Definition skip_one_at (slen : nat) (s : list N) : res (list N * list N) :=
  match fsm_exec_1 (S (length s)) slen [FSM_VAL] s with
  | Some (Ok rest) => Ok (drop_ws s, rest)
  | Some (Err e) => Err e
  | Some Undef => Undef
  | None => Err ERR_INVAL      (* unreachable: fsm_fuel_enough *)
  end.

Definition validate_one (s : list N) : res (list N * list N) := skip_one_at (length s) s.

(* validate_one / skip_one with flags = MASK_VALIDATE_STRING (what a ValidateString decoder passes when it skips
   or captures a value) *)
Definition skip_one_vs (s : list N) : res (list N * list N) :=
  match fsm_exec_v (S (length s)) (length s) [FSM_VAL] s with
  | Some (Ok rest) => Ok (drop_ws s, rest)
  | Some (Err e) => Err e
  | Some Undef => Undef
  | None => Err ERR_INVAL
  end.
Definition skip_one (s : list N) : res (list N * list N) := skip_one_at (length s) s.

(* types.SPACE_MASK & (1 << c) != 0 *)
Definition space_mask (c : N) : bool := (c =? 32) || (c =? 9) || (c =? 13) || (c =? 10).

(* internal/encoder/alg/spec.go: Valid *)
Definition Valid_post (data : list N) (ret : res (list N * list N)) : res bool :=
  match data with
  | [] => Ok false                                   (* if n == 0 { return false, -1 } *)
  | _ => match ret with
         | Ok (_, rest) => Ok (forallb space_mask rest)   (* /* check for trailing spaces */ *)
         | Err _ => Ok false
         | Undef => Undef
         end
  end.

Definition Valid (data : list N) : res bool := Valid_post data (validate_one data).

(* internal/decoder/api/decoder.go: CheckTrailings on the suffix at self.i *)
Definition CheckTrailings (rest : list N) : bool :=
  match drop_ws rest with [] => true | _ => false end.
