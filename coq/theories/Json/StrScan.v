(* String-terminator search of native/scanning.h.

   scan_scalar            the scalar specification: first unescaped double quote (a backslash escapes exactly the next byte)
   block_scan             specification of ONE vector round (what the movemask + m0_mask bit trick computes for a
                          block, given the backslash carry `cr` of the previous block): position of the first
                          unescaped quote in the block, else the outgoing carry
   advance_string_default the blocked routine as it is written: 64-byte rounds, one 32-byte round, carry fix-up,
                          scalar tail.  FAITHFUL to the pre-assembled code: when the scalar tail loop is not
                          entered (no bytes left) the C code tests an uninitialised `ch`; both the avx2 and the
                          sse blob then return success at the end of the input (confirmed by the correspondence run).

   All functions work on the suffix that starts right after the opening quote and return the suffix after the
   closing quote (None = -ERR_EOF). *)
From Coq Require Import List NArith Bool Arith Lia.
From SV.Json Require Import Chars.
Import ListNotations.
Open Scope N_scope.

Fixpoint scan_scalar (s : list N) : option (list N) :=
  match s with
  | [] => None
  | c :: r =>
      if c =? 34 then Some r
      else if c =? 92 then match r with [] => None | _ :: r' => scan_scalar r' end
      else scan_scalar r
  end.

(* scalar scan entered with a pending escape (the previous byte was an unpaired backslash) *)
Definition scan_carry (cr : bool) (s : list N) : option (list N) :=
  if cr then match s with [] => None | _ :: r => scan_scalar r end else scan_scalar s.

(* ---- one vector round --------------------------------------------------------------------------- *)

Inductive block_res :=
| BQuote (after : list N)      (* first unescaped quote found; `after` = bytes of the block after it *)
| BNone (cr : bool).           (* no unescaped quote in the block; cr = the block ends in an unpaired backslash *)

Fixpoint block_scan0 (blk : list N) : block_res :=
  match blk with
  | [] => BNone false
  | c :: r =>
      if c =? 34 then BQuote r
      else if c =? 92 then match r with [] => BNone true | _ :: r' => block_scan0 r' end
      else block_scan0 r
  end.

Definition block_scan (cr : bool) (blk : list N) : block_res :=
  if cr then match blk with [] => BNone true | _ :: r => block_scan0 r end else block_scan0 blk.

(* split_at n s = Some (first n bytes, rest) when s has at least n bytes  (the `nb >= 64` / `nb >= 32` tests) *)
Fixpoint split_at (n : nat) (s : list N) : option (list N * list N) :=
  match n with
  | O => Some ([], s)
  | S n' => match s with
            | [] => None
            | c :: r => match split_at n' r with Some (a, b) => Some (c :: a, b) | None => None end
            end
  end.

(* /* 64-byte SIMD loop */ while (likely(nb >= 64)) { ... }   -- fuel: any value >= length s / 64 *)
Fixpoint rounds64 (fuel : nat) (cr : bool) (s : list N) : option (list N) + (bool * list N) :=
  match fuel with
  | O => inr (cr, s)
  | S f =>
      match split_at 64 s with
      | None => inr (cr, s)
      | Some (blk, rest) =>
          match block_scan cr blk with
          | BQuote after => inl (Some (after ++ rest))
          | BNone cr' => rounds64 f cr' rest
          end
      end
  end.

(* /* handle the remaining bytes with scalar code */ ... /* check for quotes */ if (ch == QUOTE)
   `ch` is uninitialised when the loop body never runs; the shipped code then returns sp - ss (success). *)
Definition string_tail (s : list N) : option (list N) :=
  match s with
  | [] => Some []          (* uninitialised-`ch` path of the pre-assembled code *)
  | _ => scan_scalar s
  end.

(* `fuel` bounds the number of 64-byte rounds: any value >= length s / 64 gives the same result
   (advance_string_default_fuel); the FSM passes its own fuel, which is >= length s. *)
Definition advance_string_default (fuel : nat) (s : list N) : option (list N) :=
  match s with
  | [] => None                                   (* if (unlikely(src->len == p)) return -ERR_EOF; *)
  | _ =>
      match rounds64 fuel false s with
      | inl r => r
      | inr (cr, s1) =>
          (* /* 32-byte SIMD round */ if (likely(nb >= 32)) *)
          let after32 :=
            match split_at 32 s1 with
            | None => inr (cr, s1)
            | Some (blk, rest) =>
                match block_scan cr blk with
                | BQuote after => inl (Some (after ++ rest))
                | BNone cr' => inr (cr', rest)
                end
            end in
          match after32 with
          | inl r => r
          | inr (cr2, s2) =>
              (* /* check for carry */ *)
              if cr2 then match s2 with [] => None | _ :: s3 => string_tail s3 end
              else string_tail s2
          end
      end
  end.

(* the routine the source text *intends* (initialised `ch`): used to state what differs *)
Definition string_tail_fixed (s : list N) : option (list N) := scan_scalar s.

(* ---- the input class on which the shipped routine is wrong ---------------------------------------- *)

(* state of the scalar scan at the end of the input: no terminator found, and whether an escape is pending *)
Fixpoint open_end (s : list N) : option bool :=   (* Some pending  = unterminated;  None = terminated *)
  match s with
  | [] => Some false
  | c :: r =>
      if c =? 34 then None
      else if c =? 92 then match r with [] => Some true | _ :: r' => open_end r' end
      else open_end r
  end.

(* ---- advance_string_validate (flags & MASK_VALIDATE_STRING, i.e. ConfigStd / ValidateString) ----------------
   Same rounds; every vector round also rejects control characters (< 0x20) that occur before the closing quote,
   but does NOT look at escape sequences; only the scalar tail validates them (advance_escape_validate: one of
   the eight single-character escapes, or `u` + 4 hex digits - the surrogate-pair shortcut consumes the same
   bytes the next iteration would). There is no uninitialised variable here: the tail ends in `return -ERR_EOF`. *)

Inductive sres := SOk (r : list N) | SEof | SInval.

Definition is_cchar (c : N) : bool := c <? 32.

Inductive vblock_res := VQuote (after : list N) | VCtl | VNone (cr : bool).

Definition block_scan_v (cr : bool) (blk : list N) : vblock_res :=
  match block_scan cr blk with
  | BQuote after =>
      (* qp = index of the quote, np = index of the first control character:  if (np < qp) -ERR_INVAL *)
      if existsb is_cchar (firstn (length blk - S (length after)) blk) then VCtl else VQuote after
  | BNone cr' => if existsb is_cchar blk then VCtl else VNone cr'
  end.

Fixpoint rounds64_v (fuel : nat) (cr : bool) (s : list N) : sres + (bool * list N) :=
  match fuel with
  | O => inr (cr, s)
  | S f =>
      match split_at 64 s with
      | None => inr (cr, s)
      | Some (blk, rest) =>
          match block_scan_v cr blk with
          | VQuote after => inl (SOk (after ++ rest))
          | VCtl => inl SInval
          | VNone cr' => rounds64_v f cr' rest
          end
      end
  end.

(* /* handle the remaining bytes with scalar code */ + advance_escape_validate *)
Fixpoint string_tail_v (s : list N) : sres :=
  match s with
  | [] => SEof
  | c :: r =>
      if c =? 34 then SOk r
      else if c =? 92 then
        match r with
        | [] => SEof                                               (* if (nb == 1) return -ERR_EOF *)
        | e :: r2 =>
            if simple_escape e then string_tail_v r2
            else if e =? 117 then
              match r2 with
              | h1 :: h2 :: h3 :: h4 :: r6 =>
                  if is_hex h1 && is_hex h2 && is_hex h3 && is_hex h4 then string_tail_v r6 else SInval
              | _ => SEof                                          (* if (nb < 5) return -ERR_EOF *)
              end
            else SInval
        end
      else if is_cchar c then SInval
      else string_tail_v r
  end.

Definition carry_tail_v (cr : bool) (s : list N) : sres :=
  if cr then match s with [] => SEof | _ :: s' => string_tail_v s' end else string_tail_v s.

Definition advance_string_validate (fuel : nat) (s : list N) : sres :=
  match s with
  | [] => SEof
  | _ =>
      match rounds64_v fuel false s with
      | inl r => r
      | inr (cr, s1) =>
          match split_at 32 s1 with
          | None => carry_tail_v cr s1
          | Some (blk, rest) =>
              match block_scan_v cr blk with
              | VQuote after => SOk (after ++ rest)
              | VCtl => SInval
              | VNone cr' => carry_tail_v cr' rest
              end
          end
      end
  end.
