(* Completeness of the validating FSM: every value of the structural grammar whose stack need fits the budget is
   accepted with exactly its span. *)
From Coq Require Import List NArith Bool Arith Lia.
From SV.Json Require Import Chars StrScan NumScan Fsm Grammar StrScanProofs FsmProofs Lang FsmSound.
Import ListNotations.
Open Scope N_scope.

(* evaluate boolean tests on constant bytes *)
Ltac ev :=
  repeat match goal with
  | |- context [N.eqb ?a ?b] => is_ground a; is_ground b;
      let v := eval vm_compute in (N.eqb a b) in change (N.eqb a b) with v
  | |- context [is_digit ?a] => is_ground a;
      let v := eval vm_compute in (is_digit a) in change (is_digit a) with v
  | |- context [isspace ?a] => is_ground a;
      let v := eval vm_compute in (isspace a) in change (isspace a) with v
  end; cbn [negb]; cbv iota.

Lemma advance_ns_app : forall w c r, all_ws w -> isspace c = false -> advance_ns (w ++ c :: r) = (c, r).
Proof.
  intros w c r Hw Hc. unfold advance_ns. rewrite drop_ws_app by auto. rewrite drop_ws_nonspace by auto. reflexivity.
Qed.

Lemma sbody_scan : forall b r, sbody b -> scan_scalar (b ++ 34 :: r) = Some r /\ open_end (b ++ 34 :: r) = None.
Proof.
  induction 1; cbn [app].
  - scan_case. auto.
  - scan_case. auto.
  - scan_case. auto.
Qed.

Lemma skip_string_complete : forall fuel b r, sbody b -> Nat.le (length (b ++ 34 :: r)) fuel ->
  skip_string_1 fuel (b ++ 34 :: r) = Ok r.
Proof.
  intros fuel b r Hb Hl. unfold skip_string_1.
  destruct (sbody_scan b r Hb) as [H1 H2].
  rewrite advance_string_default_spec; auto; [|destruct b; discriminate].
  rewrite bug_class_terminated by auto. rewrite H1. reflexivity.
Qed.

Lemma strip_prefix_app : forall lit r, strip_prefix lit (lit ++ r) = Some r.
Proof. induction lit; intros r; cbn [strip_prefix app]; [reflexivity|]. rewrite N.eqb_refl. auto. Qed.

Lemma shorter_app : forall lit r, shorter (lit ++ r) lit = false.
Proof. induction lit; intros r; cbn [app]; [destruct r; reflexivity|cbn [shorter]; auto]. Qed.

Lemma advance_dword_complete : forall slen dec lit r, (4 <= dec + slen)%nat ->
  advance_dword slen dec lit (lit ++ r) = Ok r.
Proof.
  intros slen dec lit r H. unfold advance_dword.
  destruct (Nat.ltb_spec (dec + slen) 4); [lia|]. rewrite shorter_app, strip_prefix_app. reflexivity.
Qed.

Lemma digit_facts : forall c, is_digit c = true ->
  isspace c = false /\ (c =? 0) = false /\ (c =? 93) = false /\ (c =? 125) = false /\ (c =? 45) = false.
Proof.
  intros c H. unfold is_digit in H. rewrite andb_true_iff in H. repeat rewrite N.leb_le in H.
  unfold isspace. repeat split; repeat rewrite orb_false_iff; repeat split; apply N.eqb_neq; lia.
Qed.

Lemma sunsigned_head : forall n, sunsigned n -> exists c n', n = c :: n' /\ is_digit c = true.
Proof.
  intros n [i [f [e [-> [Hi _]]]]]. destruct Hi as [->|[c [d [-> [Hc _]]]]].
  - exists 48, (f ++ e). auto.
  - exists c, (d ++ f ++ e). auto.
Qed.

Section WithNumberScanner.
Hypothesis num_sound : forall s r, do_skip_number s = Some r -> is_digit (hd0 s) = true ->
  exists n, s = n ++ r /\ sunsigned n.
Hypothesis num_complete : forall n r, sunsigned n -> numclass (hd0 r) = false -> do_skip_number (n ++ r) = Some r.

(* ---- one value ------------------------------------------------------------------------------------- *)

Lemma value_complete : forall fuel slen st0 b v s1 r,
  sval b v -> (b + length st0 <= MAX_RECURSE)%nat ->
  (snumber v -> numclass (hd0 s1) = false) ->
  lang true st0 s1 r ->
  (length (v ++ s1) <= fuel)%nat -> (length (v ++ s1) <= slen)%nat ->
  exists c rest st' s', v ++ s1 = c :: rest /\ isspace c = false /\ (c =? 0) = false /\ (c =? 93) = false /\
    fsm_value fuel slen st0 c rest = Ok (st', s') /\ lang true st' s' r /\
    ((length st0 <= MAX_RECURSE)%nat -> (length st' <= MAX_RECURSE)%nat).
Proof.
  intros fuel slen st0 b v s1 r Hv Hb Hfol L Hf Hs.
  inversion Hv; subst.
  - (* null *)
    exists 110, (lit_ull ++ s1), st0, s1. cbn [lit_null app] in *. unfold fsm_value, fsm_value_g. ev.
    rewrite advance_dword_complete by (cbn [length] in Hs; lia). cbn [bind]. repeat split; auto.
  - exists 116, (lit_rue ++ s1), st0, s1. cbn [lit_true app] in *. unfold fsm_value, fsm_value_g. ev.
    rewrite advance_dword_complete by (cbn [length] in Hs; lia). cbn [bind]. repeat split; auto.
  - exists 102, (lit_alse ++ s1), st0, s1. cbn [lit_false app] in *. unfold fsm_value, fsm_value_g. ev.
    rewrite advance_dword_complete by (cbn [length] in Hs; lia). cbn [bind]. repeat split; auto.
  - (* number *)
    assert (Hnf := Hfol H).
    destruct H as [Hu|[m [-> Hu]]].
    + destruct (sunsigned_head _ Hu) as [c [n' [-> Hc]]].
      destruct (digit_facts c Hc) as (F1 & F2 & F3 & F4 & F5).
      exists c, (n' ++ s1), st0, s1. unfold fsm_value, fsm_value_g. rewrite Hc.
      unfold skip_positive_1. change (c :: n' ++ s1) with ((c :: n') ++ s1).
      rewrite num_complete by auto. cbn [bind]. repeat split; auto.
    + destruct (sunsigned_head _ Hu) as [c [n' [-> Hc]]].
      exists 45, ((c :: n') ++ s1), st0, s1. unfold fsm_value, fsm_value_g. ev.
      unfold skip_negative_1. cbn [app]. rewrite Hc. cbn [negb].
      change (c :: n' ++ s1) with ((c :: n') ++ s1).
      rewrite num_complete by auto. cbn [bind]. repeat split; auto.
  - (* string *)
    exists 34, (b0 ++ 34 :: s1), st0, s1. unfold fsm_value, fsm_value_g. ev.
    rewrite skip_string_complete; auto.
    + cbn [bind]. repeat split; auto. cbn [app]. rewrite <- app_assoc. reflexivity.
    + cbn [app length] in Hf. rewrite <- app_assoc in Hf. cbn [app] in Hf. lia.
  - (* [] *)
    exists 91, (w ++ 93 :: s1), (FSM_ARR_0 :: st0), (w ++ 93 :: s1). unfold fsm_value, fsm_value_g. ev.
    rewrite fsm_push_ok by lia. cbn [bind]. repeat split; auto.
    + cbn [app]. rewrite <- app_assoc. reflexivity.
    + cbn [lang]. exists (w ++ [93]), s1. rewrite <- app_assoc. split; [reflexivity|]. split; [|auto].
      cbn [frame]. left. eauto.
    + cbn [length]. lia.
  - (* [v ...] *)
    exists 91, (w ++ v0 ++ t ++ s1), (FSM_ARR_0 :: st0), (w ++ v0 ++ t ++ s1). unfold fsm_value, fsm_value_g. ev.
    rewrite fsm_push_ok by lia. cbn [bind]. repeat split; auto.
    + cbn [app]. rewrite <- !app_assoc. reflexivity.
    + cbn [lang]. exists (w ++ v0 ++ t), s1. rewrite <- !app_assoc. split; [reflexivity|]. split; [|auto].
      cbn [frame]. right. exists w, v0, t. repeat split; auto.
      * eapply sval_mono; eauto. lia.
      * eapply (proj1 (proj2 sval_mono_all)); eauto. lia.
    + cbn [length]. lia.
  - (* {} *)
    exists 123, (w ++ 125 :: s1), (FSM_OBJ_0 :: st0), (w ++ 125 :: s1). unfold fsm_value, fsm_value_g. ev.
    rewrite fsm_push_ok by lia. cbn [bind]. repeat split; auto.
    + cbn [app]. rewrite <- app_assoc. reflexivity.
    + cbn [lang]. exists (w ++ [125]), s1. rewrite <- app_assoc. split; [reflexivity|]. split; [|auto].
      cbn [frame]. left. eauto.
    + cbn [length]. lia.
  - (* {"k":v ...} *)
    exists 123, (w ++ 34 :: b0 ++ 34 :: w1 ++ 58 :: w2 ++ v0 ++ t ++ s1), (FSM_OBJ_0 :: st0),
           (w ++ 34 :: b0 ++ 34 :: w1 ++ 58 :: w2 ++ v0 ++ t ++ s1). unfold fsm_value, fsm_value_g. ev.
    rewrite fsm_push_ok by lia. cbn [bind]. repeat split; auto.
    + cbn [app]. repeat (rewrite <- !app_assoc; cbn [app]). reflexivity.
    + cbn [lang]. exists (w ++ 34 :: b0 ++ 34 :: w1 ++ 58 :: w2 ++ v0 ++ t), s1.
      split; [repeat (rewrite <- !app_assoc; cbn [app]); reflexivity|]. split; [|auto].
      cbn [frame]. right. exists w, b0, w1, w2, v0, t. repeat split; auto.
      * lia.
      * eapply sval_mono; eauto. lia.
      * eapply (proj2 (proj2 sval_mono_all)); eauto. lia.
    + cbn [length]. lia.
Qed.

(* ---- one iteration ------------------------------------------------------------------------------------ *)

Lemma step_complete : forall fuel slen t st s r,
  lang true (t :: st) s r -> (length (t :: st) <= MAX_RECURSE)%nat ->
  (length s <= fuel)%nat -> (length s <= slen)%nat ->
  exists st' s', fsm_step fuel slen t st s = Ok (st', s') /\ lang true st' s' r /\ (length st' <= MAX_RECURSE)%nat.
Proof.
  intros fuel slen t st s r L Hst Hf Hs. cbn [lang] in L. destruct L as (x & s1 & -> & Fr & L).
  cbn [length] in Hst.
  remember (MAX_RECURSE - length st)%nat as b eqn:Hb.
  (* the VAL-like dispatch through fsm_value *)
  assert (VAL : forall st0 w v s2, all_ws w -> sval (MAX_RECURSE - length st0) v ->
            (snumber v -> numclass (hd0 s2) = false) -> lang true st0 s2 r ->
            (length st0 <= MAX_RECURSE)%nat ->
            (length (w ++ v ++ s2) <= fuel)%nat -> (length (w ++ v ++ s2) <= slen)%nat ->
            exists c rest st' s', advance_ns (w ++ v ++ s2) = (c, rest) /\ (c =? 0) = false /\ (c =? 93) = false /\
              fsm_value fuel slen st0 c rest = Ok (st', s') /\ lang true st' s' r /\ (length st' <= MAX_RECURSE)%nat).
  { intros st0 w v s2 Hw Hv Hfo L0 Hl0 Hf0 Hs0. rewrite app_length in Hf0, Hs0.
    destruct (value_complete fuel slen st0 _ v s2 r Hv ltac:(lia) Hfo L0 ltac:(lia) ltac:(lia))
      as (c & rest & st' & s' & E & F1 & F2 & F3 & FV & L' & HL).
    exists c, rest, st', s'. rewrite E. rewrite advance_ns_app by auto. repeat split; auto. }
  destruct t; cbn [frame] in Fr.
  - (* VAL *)
    destruct Fr as (w & v & -> & Hw & Hv & Hfo).
    rewrite <- app_assoc in *.
    destruct (VAL st w v s1 Hw ltac:(subst b; auto) (Hfo eq_refl) L ltac:(lia) Hf Hs)
      as (c & rest & st' & s' & EA & F2 & F3 & FV & L' & HL).
    exists st', s'. unfold fsm_step, fsm_step_g; fold fsm_value. rewrite EA, F2. auto.
  - (* ARR *)
    inversion Fr; subst.
    + exists st, s1. unfold fsm_step, fsm_step_g; fold fsm_value. rewrite <- app_assoc. cbn [app]. rewrite advance_ns_app by auto. ev.
      repeat split; auto. lia.
    + exists (FSM_VAL :: FSM_ARR :: st), (w' ++ v ++ t ++ s1). unfold fsm_step, fsm_step_g; fold fsm_value.
      repeat (rewrite <- !app_assoc; cbn [app]). rewrite advance_ns_app by auto. ev.
      rewrite fsm_push_ok by (cbn [length]; lia). cbn [bind]. split; [reflexivity|]. split; [|cbn [length]; lia].
      cbn [lang]. exists (w' ++ v), (t ++ s1). rewrite <- app_assoc. split; [reflexivity|]. split.
      * cbn [frame length]. exists w', v. repeat split; auto.
        -- replace (MAX_RECURSE - S (length st))%nat with (S h) by lia. auto.
        -- intros _ _. eapply atail_hd; eauto.
      * exists t, s1. split; [reflexivity|]. split; [|auto]. cbn [frame]. rewrite <- H. auto.
  - (* OBJ *)
    inversion Fr; subst.
    + exists st, s1. unfold fsm_step, fsm_step_g; fold fsm_value. rewrite <- app_assoc. cbn [app]. rewrite advance_ns_app by auto. ev.
      repeat split; auto. lia.
    + exists (FSM_KEY :: FSM_OBJ :: st), (w0 ++ 34 :: b0 ++ 34 :: w1 ++ 58 :: w2 ++ v ++ t ++ s1). unfold fsm_step, fsm_step_g; fold fsm_value.
      repeat (rewrite <- !app_assoc; cbn [app]). rewrite advance_ns_app by auto. ev.
      rewrite fsm_push_ok by (cbn [length]; lia). cbn [bind]. split; [reflexivity|]. split; [|cbn [length]; lia].
      cbn [lang]. exists (w0 ++ 34 :: b0 ++ 34 :: w1 ++ 58 :: w2 ++ v), (t ++ s1).
      split; [repeat (rewrite <- !app_assoc; cbn [app]); reflexivity|]. split.
      * cbn [frame length]. exists w0, b0, w1, (w2 ++ v). repeat split; auto.
        exists w2, v. repeat split; auto.
        -- replace (MAX_RECURSE - S (length st))%nat with (S h) by lia. auto.
        -- intros _ _. eapply otail_hd; eauto.
      * exists t, s1. split; [reflexivity|]. split; [|auto]. cbn [frame]. rewrite <- H. auto.
  - (* KEY *)
    destruct Fr as (w & bd & w1 & y & -> & Hw & Hbd & Hw1 & Fv).
    exists (FSM_ELEM :: st), (w1 ++ 58 :: y ++ s1). unfold fsm_step, fsm_step_g; fold fsm_value.
    repeat (rewrite <- !app_assoc; cbn [app]). rewrite advance_ns_app by auto. ev.
    rewrite skip_string_complete; auto.
    + cbn [bind]. split; [reflexivity|]. split; [|cbn [length]; lia].
      cbn [lang]. exists (w1 ++ 58 :: y), s1. split; [rewrite <- app_assoc; reflexivity|]. split; [|auto].
      cbn [frame]. exists w1, y. rewrite <- Hb. auto.
    + repeat (rewrite <- !app_assoc in Hf; cbn [app] in Hf). rewrite app_length in Hf. cbn [length] in Hf. lia.
  - (* ELEM *)
    destruct Fr as (w & y & -> & Hw & Fv).
    exists (FSM_VAL :: st), (y ++ s1). unfold fsm_step, fsm_step_g; fold fsm_value.
    repeat (rewrite <- !app_assoc; cbn [app]). rewrite advance_ns_app by auto. ev.
    split; [reflexivity|]. split; [|cbn [length]; lia].
    cbn [lang]. exists y, s1. split; [reflexivity|]. split; [|auto]. cbn [frame]. rewrite <- Hb. auto.
  - (* ARR_0 *)
    destruct Fr as [(w & -> & Hw)|(w & v & t0 & -> & Hw & Hv & Ht)].
    + exists st, s1. unfold fsm_step, fsm_step_g; fold fsm_value. rewrite <- app_assoc. cbn [app]. rewrite advance_ns_app by auto. ev.
      repeat split; auto. lia.
    + assert (Hb1 : (1 <= b)%nat). { inversion Ht; subst; lia. }
      rewrite <- !app_assoc in *.
      assert (LA : lang true (FSM_ARR :: st) (t0 ++ s1) r).
      { cbn [lang]. exists t0, s1. split; [reflexivity|]. split; [|auto]. cbn [frame]. rewrite <- Hb. auto. }
      destruct (VAL (FSM_ARR :: st) w v (t0 ++ s1) Hw) as (c & rest & st' & s' & EA & F2 & F3 & FV & L' & HL); auto.
      * cbn [length]. replace (MAX_RECURSE - S (length st))%nat with (b - 1)%nat by lia. auto.
      * intros _. eapply atail_hd; eauto.
      * exists st', s'. unfold fsm_step, fsm_step_g; fold fsm_value. rewrite EA, F2, F3. auto.
  - (* OBJ_0 *)
    destruct Fr as [(w & -> & Hw)|(w & bd & w1 & w2 & v & t0 & -> & H2b & Hw & Hbd & Hw1 & Hw2 & Hv & Ht)].
    + exists st, s1. unfold fsm_step, fsm_step_g; fold fsm_value. rewrite <- app_assoc. cbn [app]. rewrite advance_ns_app by auto. ev.
      repeat split; auto. lia.
    + exists (FSM_ELEM :: FSM_OBJ :: st), (w1 ++ 58 :: w2 ++ v ++ t0 ++ s1). unfold fsm_step, fsm_step_g; fold fsm_value.
      repeat (rewrite <- !app_assoc; cbn [app]). rewrite advance_ns_app by auto. ev.
      rewrite skip_string_complete; auto.
      * cbn [bind]. rewrite fsm_push_ok by (cbn [length]; lia). cbn [bind].
        split; [reflexivity|]. split; [|cbn [length]; lia].
        cbn [lang]. exists (w1 ++ 58 :: w2 ++ v), (t0 ++ s1).
        split; [repeat (rewrite <- !app_assoc; cbn [app]); reflexivity|]. split.
        -- cbn [frame length]. exists w1, (w2 ++ v). repeat split; auto. exists w2, v. repeat split; auto.
           ++ replace (MAX_RECURSE - S (length st))%nat with (b - 1)%nat by lia. auto.
           ++ intros _ _. eapply otail_hd; eauto.
        -- exists t0, s1. split; [reflexivity|]. split; [|auto]. cbn [frame]. rewrite <- Hb. auto.
      * repeat (rewrite <- !app_assoc in Hf; cbn [app] in Hf). rewrite app_length in Hf. cbn [length] in Hf. lia.
Qed.

(* ---- the loop ------------------------------------------------------------------------------------------ *)

Theorem fsm_exec_complete : forall fuel slen st s r,
  lang true st s r -> (length st <= MAX_RECURSE)%nat -> (length s < fuel)%nat -> (length s <= slen)%nat ->
  fsm_exec_1 fuel slen st s = Some (Ok r).
Proof.
  induction fuel as [|f IH]; intros slen st s r L Hst Hf Hs; [lia|].
  destruct st as [|t st]; exec_unfold.
  - cbn [lang] in L. subst. reflexivity.
  - destruct (step_complete (S f) slen t st s r L Hst ltac:(lia) Hs) as (st' & s' & ES & L' & Hst').
    rewrite ES.
    pose proof (step_shorter num_sound _ _ _ _ _ _ _ ES ltac:(lia)) as Hsh.
    apply IH; auto; lia.
Qed.

(* validate_one / skip_one: every structural value needing at most MAX_RECURSE frames, after blanks, followed by
   anything that does not continue a number, is accepted with exactly its span *)
Theorem fsm_complete : forall fuel slen w v r,
  all_ws w -> sval MAX_RECURSE v -> (snumber v -> numclass (hd0 r) = false) ->
  (length (w ++ v ++ r) < fuel)%nat -> (length (w ++ v ++ r) <= slen)%nat ->
  fsm_exec_1 fuel slen [FSM_VAL] (w ++ v ++ r) = Some (Ok r).
Proof.
  intros fuel slen w v r Hw Hv Hfo Hf Hs. apply fsm_exec_complete; auto.
  - cbn [lang length]. exists (w ++ v), r. rewrite <- app_assoc. split; [reflexivity|]. split; [|reflexivity].
    cbn [frame]. exists w, v. rewrite Nat.sub_0_r. repeat split; auto. intros _. auto.
  - cbn [length]. unfold MAX_RECURSE. lia.
Qed.

End WithNumberScanner.
