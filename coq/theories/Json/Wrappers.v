(* validate_one / skip_one and the Go wrappers (alg.Valid, Decoder.CheckTrailings): fuel sufficiency, soundness,
   completeness, the accept set of Valid, and the refutation witness of full soundness. *)
From Coq Require Import List NArith Bool Arith Lia.
From SV.Json Require Import Chars StrScan NumScan Fsm Grammar StrScanProofs NumScanProofs FsmProofs Lang FsmSound FsmComplete.
Import ListNotations.
Open Scope N_scope.

(* ---- the sections of FsmSound / FsmComplete instantiated with the proved number-scanner specification ----- *)

Definition fsm_exec_sound' := fsm_exec_sound num_sound.
Definition fsm_sound_partial' := fsm_sound_partial num_sound.
Definition fsm_sound_sharp' := fsm_sound_sharp num_sound.
Definition fsm_complete' := fsm_complete num_sound num_complete.
Definition step_shorter' := step_shorter num_sound.

(* ---- fuel --------------------------------------------------------------------------------------------- *)

Lemma advance_ns_length : forall s ch rest, advance_ns s = (ch, rest) -> (length rest <= length s)%nat.
Proof.
  intros s ch rest H. unfold advance_ns in H. pose proof (drop_ws_length s) as L.
  destruct (drop_ws s) as [|c r]; inversion H; subst; cbn [length] in *; lia.
Qed.

Lemma skip_string_fuel : forall f1 f2 rest, (length rest <= f1)%nat -> (length rest <= f2)%nat ->
  skip_string_1 f1 rest = skip_string_1 f2 rest.
Proof. intros. unfold skip_string_1. rewrite (advance_string_default_fuel f1 f2); auto. Qed.

Lemma fsm_value_fuel : forall f1 f2 slen st ch rest, (length rest <= f1)%nat -> (length rest <= f2)%nat ->
  fsm_value f1 slen st ch rest = fsm_value f2 slen st ch rest.
Proof. intros. unfold fsm_value, fsm_value_g. rewrite (skip_string_fuel f1 f2); auto. Qed.

Lemma fsm_step_fuel : forall f1 f2 slen t st s, (length s <= f1)%nat -> (length s <= f2)%nat ->
  fsm_step f1 slen t st s = fsm_step f2 slen t st s.
Proof.
  intros f1 f2 slen t st s H1 H2. unfold fsm_step, fsm_step_g; fold fsm_value.
  destruct (advance_ns s) as [ch rest] eqn:E. apply advance_ns_length in E.
  rewrite (skip_string_fuel f1 f2), (fsm_value_fuel f1 f2 slen st), (fsm_value_fuel f1 f2 slen (FSM_ARR :: st)) by lia.
  reflexivity.
Qed.

(* fsm_fuel_enough: with more fuel than input bytes the loop never runs out of fuel, and the result does not
   depend on the amount of fuel *)
Theorem fsm_fuel_enough : forall f1 f2 slen st s, (length s < f1)%nat -> (length s < f2)%nat ->
  fsm_exec_1 f1 slen st s <> None /\ fsm_exec_1 f1 slen st s = fsm_exec_1 f2 slen st s.
Proof.
  induction f1 as [|f1 IH]; intros f2 slen st s H1 H2; [lia|].
  destruct f2 as [|f2]; [lia|].
  destruct st as [|t st]; exec_unfold; [split; [discriminate|reflexivity]|].
  rewrite (fsm_step_fuel (S f1) (S f2)) by lia.
  destruct (fsm_step (S f2) slen t st s) as [[st2 s2]|e|] eqn:ES; try (split; [discriminate|reflexivity]).
  pose proof (step_shorter' _ _ _ _ _ _ _ ES ltac:(lia)) as Hsh.
  apply IH; lia.
Qed.

(* ---- first byte of a value ------------------------------------------------------------------------------ *)

Lemma sval_first : forall h v, sval h v ->
  exists c v', v = c :: v' /\ isspace c = false /\ (c = 34 -> exists b, sbody b /\ v' = b ++ [34]).
Proof.
  intros h v H. inversion H; subst.
  1-3: eexists _, _; split; [reflexivity|]; split; [reflexivity|]; intros; discriminate.
  - destruct H0 as [Hu|[m [-> Hu]]].
    + destruct (sunsigned_head _ Hu) as [c [n' [-> Hc]]]. destruct (digit_facts c Hc) as (F1 & _).
      exists c, n'. split; [reflexivity|]. split; [auto|]. intros ->. discriminate.
    + exists 45, m. split; [reflexivity|]. split; [reflexivity|]. intros; discriminate.
  - exists 34, (b ++ [34]). split; [reflexivity|]. split; [reflexivity|]. intros _. eauto.
  - eexists _, _; split; [reflexivity|]; split; [reflexivity|]; intros; discriminate.
  - eexists _, _; split; [reflexivity|]; split; [reflexivity|]; intros; discriminate.
  - eexists _, _; split; [reflexivity|]; split; [reflexivity|]; intros; discriminate.
  - eexists _, _; split; [reflexivity|]; split; [reflexivity|]; intros; discriminate.
Qed.

Lemma drop_ws_value : forall w v r h, all_ws w -> sval h v -> drop_ws (w ++ v ++ r) = v ++ r.
Proof.
  intros w v r h Hw Hv. rewrite drop_ws_app by auto.
  destruct (sval_first _ _ Hv) as (c & v' & -> & Hc & _). cbn [app]. apply drop_ws_nonspace; auto.
Qed.

Lemma space_mask_isspace : forall c, space_mask c = isspace c.
Proof. intros c. unfold space_mask, isspace. destruct (c =? 32), (c =? 9), (c =? 13), (c =? 10); reflexivity. Qed.

Lemma forallb_space_mask : forall w, forallb space_mask w = true <-> all_ws w.
Proof.
  intros w. unfold all_ws. induction w as [|c w IH]; cbn [forallb]; [tauto|].
  rewrite space_mask_isspace, !andb_true_iff, IH. tauto.
Qed.

Lemma ws_follow : forall w, all_ws w -> numclass (hd0 w) = false.
Proof.
  intros [|c w] H; [reflexivity|]. apply all_ws_cons in H. cbn [hd0]. apply ws_not_numclass. tauto.
Qed.

(* ---- validate_one / skip_one ------------------------------------------------------------------------------ *)

(* soundness: an accepted span is a structural value within the frame budget, preceded by blanks - unless the
   input ends in an unterminated string of the defect class, and then the whole input has been consumed *)
Theorem skip_one_sound_partial : forall s v r, skip_one s = Ok (v, r) ->
  (exists w val, s = w ++ val ++ r /\ v = val ++ r /\ all_ws w /\ sval MAX_RECURSE val) \/ (r = [] /\ bugged s).
Proof.
  intros s v r H. unfold skip_one, skip_one_at in H.
  destruct (fsm_exec_1 (S (length s)) (length s) [FSM_VAL] s) as [[r0|e|]|] eqn:E; try discriminate.
  inversion H; subst. clear H.
  destruct (fsm_sound_partial' _ _ _ _ E ltac:(lia)) as [(w & val & -> & Hw & Hv)|B]; [left|right; auto].
  exists w, val. rewrite (drop_ws_value w val r _ Hw Hv). auto.
Qed.

(* the same with the exact shape of the exception: a bare top-level string, blank* quote body, with body in the
   defect class, consumed to the end of the input *)
Definition bare_bug_string (s : list N) : Prop :=
  exists w body, s = w ++ 34 :: body /\ all_ws w /\ bug_class body = true.

Theorem skip_one_sound_sharp : forall s v r, skip_one s = Ok (v, r) ->
  (exists w val, s = w ++ val ++ r /\ v = val ++ r /\ all_ws w /\ sval MAX_RECURSE val) \/ (r = [] /\ bare_bug_string s).
Proof.
  intros s v r H. unfold skip_one, skip_one_at in H.
  destruct (fsm_exec_1 (S (length s)) (length s) [FSM_VAL] s) as [[r0|e|]|] eqn:E; try discriminate.
  inversion H; subst. clear H.
  destruct (fsm_sound_sharp' _ _ _ _ E ltac:(lia)) as [(w & val & -> & Hw & Hv)|B]; [left|right; auto].
  exists w, val. rewrite (drop_ws_value w val r _ Hw Hv). auto.
Qed.

(* completeness: blanks, a structural value needing at most MAX_RECURSE frames, then anything that does not
   continue a number: accepted with exactly the span of the value *)
Theorem skip_one_complete : forall w v r,
  all_ws w -> sval MAX_RECURSE v -> (snumber v -> numclass (hd0 r) = false) ->
  skip_one (w ++ v ++ r) = Ok (v ++ r, r).
Proof.
  intros w v r Hw Hv Hf. unfold skip_one, skip_one_at.
  rewrite (fsm_complete' (S (length (w ++ v ++ r))) (length (w ++ v ++ r)) w v r Hw Hv Hf); [|lia|lia].
  rewrite (drop_ws_value w v r _ Hw Hv). reflexivity.
Qed.

(* every strict RFC 8259 value of nesting depth < MAX_RECURSE is accepted with exactly its span *)
Corollary skip_one_complete_strict : forall d w v r,
  all_ws w -> strict d v -> (d < MAX_RECURSE)%nat -> (snumber v -> numclass (hd0 r) = false) ->
  skip_one (w ++ v ++ r) = Ok (v ++ r, r).
Proof.
  intros d w v r Hw Hv Hd Hf. apply skip_one_complete; auto.
  eapply sval_mono; [apply strict_sub_sval; eauto|lia].
Qed.

(* ---- alg.Valid --------------------------------------------------------------------------------------------- *)

Definition structurally_valid (s : list N) : Prop :=
  exists w v w2, s = w ++ v ++ w2 /\ all_ws w /\ all_ws w2 /\ sval MAX_RECURSE v.

Theorem valid_complete : forall s, structurally_valid s -> Valid s = Ok true.
Proof.
  intros s (w & v & w2 & -> & Hw & Hw2 & Hv). unfold Valid, Valid_post, validate_one.
  pose proof (skip_one_complete w v w2 Hw Hv (fun _ => ws_follow w2 Hw2)) as HS. unfold skip_one in HS.
  rewrite HS. destruct (sval_first _ _ Hv) as (c & v' & -> & _).
  destruct (w ++ (c :: v') ++ w2) eqn:E; [destruct w; discriminate|].
  f_equal. apply forallb_space_mask; auto.
Qed.

Theorem valid_sound_partial : forall s, Valid s = Ok true -> structurally_valid s \/ bugged s.
Proof.
  intros s H. unfold Valid, Valid_post in H. destruct s as [|c0 s0] eqn:Es; [discriminate|]. rewrite <- Es in *.
  destruct (validate_one s) as [[v r]|e|] eqn:E; try discriminate.
  inversion H as [H1]. apply forallb_space_mask in H1.
  destruct (skip_one_sound_partial s v r E) as [(w & val & Hs & _ & Hw & Hv)|[_ B]]; [left|right; auto].
  exists w, val, r. auto.
Qed.

(* valid_iff, with the exact guard: outside the defect class of the string scanner, Valid accepts exactly
   blank* value blank* with a value of the structural grammar needing at most MAX_RECURSE frames *)
Theorem valid_iff_partial : forall s, ~ bugged s -> (Valid s = Ok true <-> structurally_valid s).
Proof.
  intros s NB. split.
  - intros H. destruct (valid_sound_partial s H); tauto.
  - apply valid_complete.
Qed.

Theorem valid_sound_sharp : forall s, Valid s = Ok true -> structurally_valid s \/ bare_bug_string s.
Proof.
  intros s H. unfold Valid, Valid_post in H. destruct s as [|c0 s0] eqn:Es; [discriminate|]. rewrite <- Es in *.
  destruct (validate_one s) as [[v r]|e|] eqn:E; try discriminate.
  inversion H as [H1]. apply forallb_space_mask in H1.
  destruct (skip_one_sound_sharp s v r E) as [(w & val & Hs & _ & Hw & Hv)|[_ B]]; [left|right; auto].
  exists w, val, r. auto.
Qed.

(* a bare unterminated string of the defect class is indeed accepted: the guard of valid_iff_sharp is exact *)
Theorem valid_on_bare_bug_string : forall s, bare_bug_string s -> Valid s = Ok true.
Proof.
  intros s (w & body & -> & Hw & B). unfold Valid, Valid_post, validate_one, skip_one_at.
  destruct (bug_class_unterminated body B) as (_ & L32 & _).
  assert (Hb : body <> []) by (destruct body; [cbn in L32; lia|discriminate]).
  assert (E : fsm_exec_1 (S (length (w ++ 34 :: body))) (length (w ++ 34 :: body)) [FSM_VAL] (w ++ 34 :: body) = Some (Ok [])).
  { exec_unfold. unfold fsm_step, fsm_step_g; fold fsm_value. rewrite advance_ns_app by auto. ev. unfold fsm_value, fsm_value_g. ev.
    unfold skip_string_1. rewrite advance_string_default_spec; auto.
    - rewrite B. cbn [bind]. destruct (length (w ++ 34 :: body)); reflexivity.
    - rewrite app_length. cbn [length]. lia. }
  rewrite E. destruct (w ++ 34 :: body) eqn:Es; [destruct w; discriminate|]. reflexivity.
Qed.

Theorem valid_iff_sharp : forall s, Valid s = Ok true <-> structurally_valid s \/ bare_bug_string s.
Proof.
  intros s. split; [apply valid_sound_sharp|]. intros [H|H]; [apply valid_complete|apply valid_on_bare_bug_string]; auto.
Qed.

(* Decoder.CheckTrailings after a capture by skip_one (json.RawMessage, Unmarshaler, ast.Node) *)
Theorem check_trailings_spec : forall rest, CheckTrailings rest = true <-> all_ws rest.
Proof.
  intros rest. unfold CheckTrailings. split.
  - intros H. destruct (drop_ws_split rest) as [w [Hw Hs]]. destruct (drop_ws rest); [|discriminate].
    rewrite app_nil_r in Hs. subst. auto.
  - intros H. rewrite <- (app_nil_r rest). rewrite drop_ws_app by auto. reflexivity.
Qed.

(* ---- full soundness is false of the faithful model: the witness ------------------------------------------- *)

Definition witness32 : list N := 34 :: repeat 97 32.

Lemma witness32_not_valid : ~ exists w v w2 h, witness32 = w ++ v ++ w2 /\ all_ws w /\ all_ws w2 /\ sval h v.
Proof.
  intros (w & v & w2 & h & E & Hw & Hw2 & Hv).
  destruct (sval_first _ _ Hv) as (c & v' & -> & Hc & Hq).
  destruct w as [|a w].
  - cbn [app] in E. unfold witness32 in E. inversion E as [[E1 E2]]. symmetry in E1.
    destruct (Hq E1) as (b & Hb & ->).
    destruct (sbody_scan b w2 Hb) as [S1 _]. rewrite <- app_assoc in E2. cbn [app] in E2. rewrite <- E2 in S1.
    vm_compute in S1. discriminate.
  - cbn [app] in E. unfold witness32 in E. inversion E; subst. apply all_ws_cons in Hw. destruct Hw as [Ha _].
    vm_compute in Ha. discriminate.
Qed.

Theorem fsm_sound_refuted : exists s, Valid s = Ok true /\
  ~ (exists w v w2 h, s = w ++ v ++ w2 /\ all_ws w /\ all_ws w2 /\ sval h v).
Proof. exists witness32. split; [vm_compute; reflexivity|apply witness32_not_valid]. Qed.
