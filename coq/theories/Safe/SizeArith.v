(* C07 / C06: buffer size arithmetic translated from the Go source (Gen/PureFns.v): rt.GuardSlice2 and the
   stream decoder's realloc never call make with len > cap, never shrink, and always leave room. *)
From Coq Require Import ZArith Lia Bool.
From SV.Safe Require Import GoInt ErrBounds.
From SV.Gen Require Import PureFns.
Open Scope Z_scope.

Lemma shiftr1 : forall c, 0 <= c -> 0 <= Z.shiftr c 1 <= c.
Proof.
  intros c H. rewrite Z.shiftr_div_pow2 by lia. change (2 ^ 1) with 2.
  split; [apply Z.div_pos; lia|]. apply Z.div_le_upper_bound; lia.
Qed.

(* GuardSlice2(buf, n): afterwards cap - len >= n, len unchanged, cap never smaller, and the make() inside has
   0 <= len <= cap *)
Theorem guardslice2_room : forall l c n,
  0 <= l <= c -> c <= 2 ^ 61 -> 0 <= n <= 2 ^ 61 ->
  let '(l', c') := rt_GuardSlice2 l c n in
  l' = l /\ c <= c' /\ n <= c' - l' /\ 0 <= l' <= c'.
Proof.
  intros l c n Hl Hc Hn. unfold rt_GuardSlice2.
  pose proof (shiftr1 c ltac:(lia)).
  rewrite (wrapS_id (c - l)) by (unfold int_ok; lia).
  rewrite (wrapS_id (Z.shiftr c 1 + n)) by (unfold int_ok; lia).
  rewrite (wrapS_id (Z.shiftr c 1 + n + l)) by (unfold int_ok; lia).
  split_ifs; bool_to_prop; lia.
Qed.

Example guardslice2_room_example : rt_GuardSlice2 10 12 5 = (10, 32) /\ rt_GuardSlice2 100 128 64 = (100, 228).
Proof. vm_compute. split; reflexivity. Qed.

(* stream realloc with the shipped shift (1) : a non-empty buffer keeps its length, is never shrunk, the make()
   has len <= cap, and afterwards there is room to read at least one byte (Read is never given an empty slice:
   the refill loop makes progress) *)
Theorem realloc_room : forall pl pc l c,
  0 <= l <= c -> 0 < c <= 2 ^ 61 ->
  let '(_, l', c') := stream_realloc g_api_minLeftBufferShift_init pl pc l c in
  l' = l /\ c <= c' /\ l' < c'.
Proof.
  intros pl pc l c Hl Hc. unfold stream_realloc, g_api_minLeftBufferShift_init.
  pose proof (shiftr1 c ltac:(lia)). pose proof (shiftr1 l ltac:(lia)).
  rewrite (wrapU_id l) by (unfold uint_ok; lia).
  rewrite (wrapU_id c) by (unfold uint_ok; lia).
  rewrite (wrapU_id (c - l)) by (unfold uint_ok; lia).
  rewrite (wrapU_id (l + Z.shiftr l 1)) by (unfold uint_ok; lia).
  rewrite (wrapU_id (c * 2)) by (unfold uint_ok; lia).
  assert (2 * Z.shiftr c 1 <= c).
  { rewrite Z.shiftr_div_pow2 by lia. change (2 ^ 1) with 2. apply Z.mul_div_le. lia. }
  split_ifs; bool_to_prop; lia.
Qed.

(* an empty buffer (cap 0) is replaced by the pooled one, whatever it is *)
Theorem realloc_empty : forall s pl pc l, stream_realloc s pl pc l 0 = (true, pl, pc).
Proof. intros. unfold stream_realloc. rewrite (wrapU_id 0) by (unfold uint_ok; lia). reflexivity. Qed.

Example realloc_room_example :
  stream_realloc 1 0 4096 4000 4096 = (true, 4000, 6000) /\ stream_realloc 1 0 4096 10 4096 = (false, 10, 4096).
Proof. vm_compute. split; reflexivity. Qed.

(* CanSizeResue(cap) with the shipped limit *)
Theorem can_size_reuse_spec : forall cap,
  rt_CanSizeResue g_option_LimitBufferSize_init cap = (cap <=? 1048576).
Proof. intro cap. unfold rt_CanSizeResue, g_option_LimitBufferSize_init. rewrite wrapS_id by (unfold int_ok; lia). reflexivity. Qed.
