(* Go's 64-bit integer arithmetic over Z: results of + - * << are wrapped into the range of the type. *)
From Coq Require Import ZArith Lia Bool.
Open Scope Z_scope.

Definition wrapS (z : Z) : Z := (z + 2 ^ 63) mod 2 ^ 64 - 2 ^ 63.
Definition wrapU (z : Z) : Z := z mod 2 ^ 64.

Definition int_ok (z : Z) : Prop := - 2 ^ 63 <= z < 2 ^ 63.
Definition uint_ok (z : Z) : Prop := 0 <= z < 2 ^ 64.

Definition min_int : Z := - 2 ^ 63.
Definition max_int : Z := 2 ^ 63 - 1.

Lemma wrapS_id : forall z, int_ok z -> wrapS z = z.
Proof.
  unfold wrapS, int_ok. intros z H.
  rewrite Z.mod_small by lia. lia.
Qed.

Lemma wrapU_id : forall z, uint_ok z -> wrapU z = z.
Proof. unfold wrapU, uint_ok. intros. apply Z.mod_small. lia. Qed.

Lemma wrapS_ok : forall z, int_ok (wrapS z).
Proof.
  unfold wrapS, int_ok. intro z.
  pose proof (Z.mod_pos_bound (z + 2 ^ 63) (2 ^ 64) ltac:(lia)). lia.
Qed.

Lemma wrapU_ok : forall z, uint_ok (wrapU z).
Proof. unfold wrapU, uint_ok. intro z. apply Z.mod_pos_bound. lia. Qed.

(* reinterpreting an unsigned word as signed (Go: int(u)) *)
Lemma wrapS_of_uint : forall u, uint_ok u ->
  wrapS u = if u <? 2 ^ 63 then u else u - 2 ^ 64.
Proof.
  unfold wrapS, uint_ok. intros u H.
  destruct (u <? 2 ^ 63) eqn:E.
  - apply Z.ltb_lt in E. rewrite Z.mod_small by lia. lia.
  - apply Z.ltb_ge in E.
    replace (u + 2 ^ 63) with ((u - 2 ^ 63) + 1 * 2 ^ 64) by lia.
    rewrite Z.mod_add by lia. rewrite Z.mod_small by lia. lia.
Qed.

(* reinterpreting a signed word as unsigned (Go: uint(i)) *)
Lemma wrapU_of_int : forall i, int_ok i ->
  wrapU i = if i <? 0 then i + 2 ^ 64 else i.
Proof.
  unfold wrapU, int_ok. intros i H.
  destruct (i <? 0) eqn:E.
  - apply Z.ltb_lt in E.
    replace i with ((i + 2 ^ 64) + (-1) * 2 ^ 64) at 1 by lia.
    rewrite Z.mod_add by lia. apply Z.mod_small. lia.
  - apply Z.ltb_ge in E. apply Z.mod_small. lia.
Qed.

Ltac unwrapS :=
  repeat match goal with
  | |- context [wrapS ?z] => rewrite (wrapS_id z) by (unfold int_ok in *; lia)
  | H : context [wrapS ?z] |- _ => rewrite (wrapS_id z) in H by (unfold int_ok in *; lia)
  end.

Ltac unwrapU :=
  repeat match goal with
  | |- context [wrapU ?z] => rewrite (wrapU_id z) by (unfold uint_ok in *; lia)
  | H : context [wrapU ?z] |- _ => rewrite (wrapU_id z) in H by (unfold uint_ok in *; lia)
  end.
