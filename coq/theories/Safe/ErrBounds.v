(* C07: the excerpt arithmetic of the two SyntaxError.description() implementations cannot make
   Src[p:q] or strings.Repeat panic, and the message length is bounded by a constant.
   All statements are about Gen/PureFns.v, which tools/tx regenerates from
   /repo/internal/decoder/errors/errors.go and /repo/ast/error.go on every run. *)
From Coq Require Import ZArith Lia Bool.
From SV.Safe Require Import GoInt.
From SV.Gen Require Import PureFns.
Open Scope Z_scope.

(* what `Src[p:q]`, `strings.Repeat(".", x)`, `strings.Repeat(".", y)` need in order not to panic; the two
   dotted runs are bounded by constants *)
Definition excerpt_safe (size : Z) (r : Z * Z * Z * Z) : Prop :=
  let '(p, q, x, y) := r in
  0 <= p /\ p <= q /\ q <= size /\ 0 <= x <= 48 /\ 0 <= y <= 31.

(* ... and the excerpt itself is at most 32 bytes *)
Definition excerpt_ok (size : Z) (r : Z * Z * Z * Z) : Prop :=
  let '(p, q, x, y) := r in excerpt_safe size r /\ q - p <= 32.

(* bytes contributed to Description() by the excerpt line and the caret line *)
Definition excerpt_len (r : Z * Z * Z * Z) : Z :=
  let '(p, q, x, y) := r in (q - p) + x + 1 + y.

Definition reorder (r : Z * Z * Z * Z) : Z * Z * Z * Z :=
  let '(lbound, lwidth, rbound, rwidth) := r in (lbound, rbound, lwidth, rwidth).

Ltac split_ifs :=
  repeat match goal with
  | |- context [if ?c then _ else _] => let E := fresh "E" in destruct c eqn:E
  | H : context [if ?c then _ else _] |- _ => let E := fresh "E" in destruct c eqn:E
  end.

Ltac bool_to_prop :=
  repeat match goal with
  | H : orb _ _ = true |- _ => apply orb_true_iff in H; destruct H
  | H : orb _ _ = false |- _ => apply orb_false_iff in H; destruct H
  | H : andb _ _ = true |- _ => apply andb_true_iff in H; destruct H
  | H : andb _ _ = false |- _ => apply andb_false_iff in H; destruct H
  | H : Z.ltb _ _ = true |- _ => apply Z.ltb_lt in H
  | H : Z.ltb _ _ = false |- _ => apply Z.ltb_ge in H
  | H : Z.leb _ _ = true |- _ => apply Z.leb_le in H
  | H : Z.leb _ _ = false |- _ => apply Z.leb_gt in H
  | H : Z.eqb _ _ = true |- _ => apply Z.eqb_eq in H
  | H : Z.eqb _ _ = false |- _ => apply Z.eqb_neq in H
  end.

(* ---------------------------------------------------------------- internal/decoder/errors *)

(* unfolds the generated text: every wrapS whose argument is provably in range disappears, every `if` is split *)
Ltac crunch :=
  repeat first
    [ match goal with |- context [wrapS ?z] => rewrite (wrapS_id z) by (unfold int_ok; lia) end
    | match goal with |- context [if ?c then _ else _] => let E := fresh "E" in destruct c eqn:E; bool_to_prop end ].

(* for ALL positions (negative, beyond the end, anything an int can hold): no slice / Repeat can panic *)
Theorem calcBounds_safe : forall size pos,
  0 <= size <= max_int - 16 -> int_ok pos ->
  excerpt_safe size (reorder (errors_calcBounds size pos)).
Proof.
  intros size pos Hs Hp. unfold max_int, int_ok in *.
  unfold errors_calcBounds, errors_clamp_zero, reorder, excerpt_safe.
  crunch; lia.
Qed.

(* a position inside the input gives an excerpt of at most 32 bytes ... *)
Theorem calcBounds_inside_bounded : forall size pos,
  0 <= size <= max_int - 16 -> 0 <= pos < size ->
  excerpt_ok size (reorder (errors_calcBounds size pos)).
Proof.
  intros size pos Hs Hp. unfold max_int in *.
  unfold errors_calcBounds, errors_clamp_zero, reorder, excerpt_ok, excerpt_safe.
  crunch; lia.
Qed.

(* the caret is under the offending byte: lbound + lwidth = pos, and the two dotted runs plus the caret
   are exactly as wide as the excerpt *)
Theorem calcBounds_caret : forall size pos,
  0 <= size <= max_int - 16 -> 0 <= pos < size ->
  let '(lbound, lwidth, rbound, rwidth) := errors_calcBounds size pos in
  lbound + lwidth = pos /\ lwidth + 1 + rwidth = rbound - lbound /\ lbound <= pos < rbound.
Proof.
  intros size pos Hs Hp. unfold max_int in *.
  unfold errors_calcBounds, errors_clamp_zero.
  crunch; lia.
Qed.

(* what description() passes on: never more than max(65, len(src) + 1) bytes of excerpt + caret line *)
Theorem errors_description_safe : forall size pos,
  0 <= size <= max_int - 16 -> int_ok pos ->
  excerpt_safe size (errors_description size pos) /\
  excerpt_len (errors_description size pos) <= (if (0 <=? pos) && (pos <? size) then 65 else Z.max 65 (size + 1)).
Proof.
  intros size pos Hs Hp. unfold max_int, int_ok in *.
  unfold errors_description, errors_calcBounds, errors_clamp_zero, excerpt_safe, excerpt_len.
  crunch; bool_to_prop; cbv beta iota zeta; try lia.
Qed.

Example calcBounds_safe_nonvacuous :
  (0 <= 100 <= max_int - 16) /\ int_ok (-5) /\ errors_calcBounds 100 97 = (68, 29, 100, 2)
  /\ errors_calcBounds 3 1 = (0, 1, 3, 1).
Proof. unfold max_int, int_ok. repeat split; try lia; vm_compute; reflexivity. Qed.

(* ---------------------------------------------------------------- ast/error.go *)

Definition ast_description_nowrap (size pos : Z) : Z * Z * Z * Z :=
  if size =? 0 then (0, 0, 0, 0) else
  let p := pos - 16 in
  let q := pos + 16 in
  let '(p, q, i) := if p <? 0 then (0, q - p, 16 + p) else (p, q, 16) in
  let '(p, q, i) :=
    if size <? q then
      let n := q - size in
      if n <? p then (p - n, size, i + n) else (p, size, i)
    else (p, q, i) in
  (p, q, ast_clamp_zero i, ast_clamp_zero (q - p - i - 1)).

(* no wrap-around can happen for positions within 2^62 of the input (far more than the precondition below) *)
Lemma ast_description_eq_nowrap : forall size pos,
  0 <= size <= 2 ^ 61 -> - 2 ^ 62 <= pos <= 2 ^ 62 ->
  ast_description size pos = ast_description_nowrap size pos.
Proof.
  intros size pos Hs Hp.
  unfold ast_description, ast_description_nowrap.
  rewrite (wrapS_id (pos - 16)) by (unfold int_ok; lia).
  rewrite (wrapS_id (pos + 16)) by (unfold int_ok; lia).
  destruct (size =? 0) eqn:E0; [reflexivity|].
  destruct (pos - 16 <? 0) eqn:E1; bool_to_prop.
  - rewrite (wrapS_id (pos + 16 - (pos - 16))) by (unfold int_ok; lia).
    rewrite (wrapS_id (16 + (pos - 16))) by (unfold int_ok; lia).
    replace (pos + 16 - (pos - 16)) with 32 by lia.
    destruct (size <? 32) eqn:E2; bool_to_prop.
    + rewrite (wrapS_id (32 - size)) by (unfold int_ok; lia).
      destruct (32 - size <? 0) eqn:E3; bool_to_prop; [lia|].
      unfold ast_clamp_zero. unwrapS. reflexivity.
    + unfold ast_clamp_zero. unwrapS. reflexivity.
  - destruct (size <? pos + 16) eqn:E2; bool_to_prop.
    + rewrite (wrapS_id (pos + 16 - size)) by (unfold int_ok; lia).
      destruct (pos + 16 - size <? pos - 16) eqn:E3; bool_to_prop.
      * unfold ast_clamp_zero. unwrapS. reflexivity.
      * unfold ast_clamp_zero. unwrapS. reflexivity.
    + unfold ast_clamp_zero. unwrapS. reflexivity.
Qed.

(* ast.SyntaxError has no guard on Pos: it is safe exactly because the parser only reports positions
   0 <= Pos <= len(Src) + 16 (T observes Pos <= len(Src) + 4: native advance_ns steps over the end on EOF) *)
Theorem ast_description_safe : forall size pos,
  0 <= size <= 2 ^ 61 -> 0 <= pos <= size + 16 ->
  excerpt_ok size (ast_description size pos) /\ excerpt_len (ast_description size pos) <= 112.
Proof.
  intros size pos Hs Hp.
  rewrite ast_description_eq_nowrap by lia.
  unfold ast_description_nowrap, excerpt_ok, excerpt_safe, excerpt_len, ast_clamp_zero.
  split_ifs; bool_to_prop; lia.
Qed.

(* the precondition is needed, both ways *)
Theorem ast_description_pos_beyond_end_refuted :
  exists size pos, 0 < size /\ size + 16 < pos /\
    let '(p, q, _, _) := ast_description size pos in q < p.   (* Src[p:q] panics *)
Proof. exists 10, 100. vm_compute. repeat split; reflexivity. Qed.

Theorem ast_description_negative_pos_unbounded :
  forall K, 0 <= K <= 2 ^ 60 -> exists pos, pos < 0 /\
    let '(_, _, _, y) := ast_description 10 pos in y > K.  (* strings.Repeat(".", y) grows without bound *)
Proof.
  intros K HK. exists (- K - 1). split; [lia|].
  rewrite ast_description_eq_nowrap by lia.
  unfold ast_description_nowrap, ast_clamp_zero.
  split_ifs; bool_to_prop; lia.
Qed.

Theorem ast_description_large_pos_unbounded :
  forall K, 0 <= K <= 2 ^ 60 -> exists pos, pos > 100 /\
    let '(_, _, x, _) := ast_description 100 pos in x > K.  (* strings.Repeat(".", x) grows without bound *)
Proof.
  intros K HK. exists (K + 200). split; [lia|].
  rewrite ast_description_eq_nowrap by lia.
  unfold ast_description_nowrap, ast_clamp_zero.
  split_ifs; bool_to_prop; lia.
Qed.

(* both implementations agree wherever ast's precondition holds and the position is strictly inside *)
Theorem ast_errors_description_agree : forall size pos,
  0 <= size <= 2 ^ 61 -> 0 <= pos < size ->
  ast_description size pos = errors_description size pos.
Proof.
  intros size pos Hs Hp.
  rewrite ast_description_eq_nowrap by lia.
  unfold errors_description, errors_calcBounds, ast_description_nowrap, ast_clamp_zero, errors_clamp_zero.
  crunch; bool_to_prop; try lia; cbv beta iota zeta; repeat f_equal; lia.
Qed.

Example ast_description_safe_nonvacuous :
  ast_description 100 100 = (68, 100, 32, 0) /\ ast_description 5 0 = (0, 5, 0, 4).
Proof. vm_compute. split; reflexivity. Qed.

(* ---------------------------------------------------------------- types.ParsingError.Message *)

(* Message() indexes _ParsingErrors[self] when int(self) < len(_ParsingErrors).  self is a uint: the test is done on
   the *signed* reinterpretation, the index on the unsigned value. *)
Definition table_len : Z := 11.

Theorem parsing_error_message_total : forall code,
  0 <= code < 2 ^ 63 ->
  types_Message_inbounds code = true -> 0 <= code < table_len.
Proof.
  intros code H. unfold types_Message_inbounds, table_len.
  rewrite wrapS_id by (unfold int_ok; lia).
  destruct (code <? 11) eqn:E; bool_to_prop; [lia|discriminate].
Qed.

(* ... and for a code with the top bit set the index is out of range: the guard is only right for codes < 2^63.
   No sonic code path builds such a code (they are -r for a native return value -1 >= r >= -34); T checks this. *)
Theorem parsing_error_message_top_bit_refuted :
  exists code, uint_ok code /\ types_Message_inbounds code = true /\ ~ (code < table_len).
Proof.
  exists (2 ^ 63). unfold uint_ok, table_len. split; [lia|]. split; [vm_compute; reflexivity|lia].
Qed.

Example parsing_error_message_nonvacuous :
  types_Message_inbounds 7 = true /\ types_Message_inbounds 11 = false /\ types_Message_inbounds 34 = false.
Proof. vm_compute. repeat split; reflexivity. Qed.
