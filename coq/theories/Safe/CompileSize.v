(* C07: the compile-time blow-up of nested container types.
   jitdec compileSliceBody / compileArray / compileMap and the encoder's compileSliceArray / compileArray / compileMapBody emit
   the element program TWICE (first element, and the loop for the following ones), so the program of an (n+1)-fold nested
   container is two copies of the n-fold one plus a constant:  len (n+1) = 2 * len n + k.
   T measures len for n = 1..9 on the real compilers (verifx.DecoderProgram / EncDumpProgram) and checks this recurrence
   exactly; for the decoder's slices it is also b-c01's closed form (Dec/Code.v: clen (TSlice e) = 22 + 2 * clen e, program =
   lspace :: code, i.e. k = 21).  The theorem: the length is exponential in the nesting depth. *)
From Coq Require Import Arith Lia.

Fixpoint plen (l1 k n : nat) : nat :=      (* length at nesting depth n+1, given the length l1 at depth 1 *)
  match n with
  | O => l1
  | S m => 2 * plen l1 k m + k
  end.

Theorem plen_closed : forall l1 k n, plen l1 k n + k = 2 ^ n * (l1 + k).
Proof.
  intros l1 k. induction n as [|n IH]; cbn [plen Nat.pow]; [lia|].
  assert (2 * plen l1 k n + k + k = 2 * (plen l1 k n + k)) by lia. rewrite H, IH. lia.
Qed.

Theorem plen_exponential : forall l1 k n, 2 ^ n * l1 <= plen l1 k n.
Proof.
  intros l1 k n. pose proof (plen_closed l1 k n) as H.
  assert (2 ^ n * (l1 + k) = 2 ^ n * l1 + 2 ^ n * k) by lia.
  assert (1 <= 2 ^ n) by (clear; induction n; cbn; lia).
  assert (k <= 2 ^ n * k) by nia. lia.
Qed.

(* the measured constants of the pinned tree (depth 1 length, k): decoder slice (27, 21), array[2] (29, 23), map[string] (35, 29);
   encoder slice (16, 12), array[2] (11, 7), map[string] (26, 22) *)
Example measured_points :
  plen 27 21 3 = 363 /\ plen 29 23 3 = 393 /\ plen 35 29 3 = 483 /\
  plen 16 12 3 = 212 /\ plen 11 7 3 = 137 /\ plen 26 22 3 = 362.
Proof. vm_compute. repeat split; reflexivity. Qed.

(* by plen_closed, 16 nested slices need 2^15 * 48 - 21 = 1572843 decoder instructions before the assembler even starts *)
