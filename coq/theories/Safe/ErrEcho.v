(* C07: after notes/C07-fixes/fix-eof-echo.diff - the excerpt is bounded by a constant for EVERY position.
   Install as coq/theories/Safe/ErrEcho.v and replace the theorem C07_description_const_bound_refuted in Props/C07.v by
     Theorem C07_calcBounds_bounded_all : forall size pos, 0 <= size <= max_int - 16 -> int_ok pos ->
       excerpt_ok32 size (errors_calcBounds size pos).
     Proof. exact calcBounds_bounded_all. Qed.
   Then set KF-C07-eof-error-echoes-source to "fixed" and drop it from `must` in checks/C07.py. *)
From Coq Require Import ZArith Lia Bool.
From SV.Safe Require Import GoInt ErrBounds.
From SV.Gen Require Import PureFns.
Open Scope Z_scope.

Definition excerpt_ok32 (size : Z) (r : Z * Z * Z * Z) : Prop :=
  let '(lb, lw, rb, rw) := r in
  0 <= lb /\ lb <= rb /\ rb <= size /\ rb - lb <= 32 /\ 0 <= lw <= 31 /\ 0 <= rw <= 31 /\ lw + 1 + rw <= 32.

Theorem calcBounds_bounded_all : forall size pos,
  0 <= size <= max_int - 16 -> int_ok pos ->
  excerpt_ok32 size (errors_calcBounds size pos).
Proof.
  intros size pos Hs Hp. unfold max_int, int_ok in *.
  unfold errors_calcBounds, errors_clamp_zero, excerpt_ok32.
  crunch; lia.
Qed.
