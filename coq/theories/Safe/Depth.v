(* C07: the recursive-descent traversals written in Go are depth-limited (fix 62dcdd9: `if self.depth >= types.MAX_RECURSE
   return ERR_RECURSE_EXCEED_MAX`; before it they had no limit and '[' x 1e7 overflowed the stack).
   Model of ast/visitor.go traverser.decodeValue / decodeArray / decodeObject (the same shape as
   ast/parser.go Parser.Parse / decodeArray / decodeObject with noLazy), with an explicit counter of active
   decodeArray/decodeObject frames ( = Go recursion depth = traverser.depth) and its maximum.  The limit is a parameter
   (Props/C07.v instantiates it with Gen/Consts.go_types_MAX_RECURSE).
   Scalars are the ones T generates for the tie: blank, escape-free strings, digit runs, true/false/null. *)
From Coq Require Import NArith List Lia Arith Bool.
Import ListNotations.
Open Scope N_scope.

Definition byte := N.
Definition c_lbrack : byte := 91.   (* [ *)
Definition c_rbrack : byte := 93.   (* ] *)
Definition c_lbrace : byte := 123.  (* { *)
Definition c_rbrace : byte := 125.  (* } *)
Definition c_comma : byte := 44.
Definition c_colon : byte := 58.
Definition c_quote : byte := 34.
Definition c_bslash : byte := 92.

Definition is_space (c : byte) : bool := (c =? 32) || (c =? 9) || (c =? 10) || (c =? 13).
Definition is_digit (c : byte) : bool := (48 <=? c) && (c <=? 57).

(* Parser.lspace *)
Fixpoint lspace (s : list byte) : list byte :=
  match s with
  | c :: r => if is_space c then lspace r else s
  | [] => []
  end.

(* outcome of a traversal: rest of the input, or the ParsingError class *)
Inductive outcome := Ok (rest : list byte) | ErrEOF | ErrInvalid | ErrRecurse | ErrUnsupported | OutOfFuel.

(* body of a string up to the closing quote; a backslash is outside the modelled fragment *)
Fixpoint scan_string (s : list byte) : outcome :=
  match s with
  | [] => ErrEOF
  | c :: r => if c =? c_quote then Ok r else if c =? c_bslash then ErrUnsupported else scan_string r
  end.

Fixpoint skip_digits (s : list byte) : list byte :=
  match s with
  | c :: r => if is_digit c then skip_digits r else s
  | [] => []
  end.

Fixpoint match_lit (lit s : list byte) : outcome :=
  match lit, s with
  | [], _ => Ok s
  | _ :: _, [] => ErrEOF
  | a :: l, c :: r => if a =? c then match_lit l r else ErrInvalid
  end.

Definition lit_true : list byte := [114; 117; 101].
Definition lit_false : list byte := [97; 108; 115; 101].
Definition lit_null : list byte := [117; 108; 108].

(* the kinds native.Value reports (ast/api.go decodeValue) *)
Inductive vkind := KEof | KArray (r : list byte) | KObject (r : list byte) | KString (r : list byte) | KScalar (r : list byte) | KErr (e : outcome).

Definition native_value (s : list byte) : vkind :=
  match lspace s with
  | [] => KEof
  | c :: r =>
    if c =? c_lbrack then KArray r
    else if c =? c_lbrace then KObject r
    else if c =? c_quote then match scan_string r with Ok r' => KString r' | e => KErr e end
    else if is_digit c then KScalar (skip_digits r)
    else if c =? 116 then match match_lit lit_true r with Ok r' => KScalar r' | e => KErr e end
    else if c =? 102 then match match_lit lit_false r with Ok r' => KScalar r' | e => KErr e end
    else if c =? 110 then match match_lit lit_null r with Ok r' => KScalar r' | e => KErr e end
    else KErr ErrInvalid
  end.

Section Traverse.
  Variable limit : nat.   (* types.MAX_RECURSE *)
  (* d = active decodeArray/decodeObject frames (traverser.depth), md = maximum so far *)
  Fixpoint decodeValue (fuel d md : nat) (s : list byte) : outcome * nat :=
    match fuel with
    | O => (OutOfFuel, md)
    | S f =>
      match native_value s with
      | KEof => (ErrEOF, md)
      | KErr e => (e, md)
      | KString r | KScalar r => (Ok r, md)
      | KArray r =>
        if (limit <=? d)%nat then (ErrRecurse, md) else
        (* decodeArray: one more Go frame *)
        let d1 := S d in
        let md1 := Nat.max md d1 in
        match lspace r with
        | [] => (ErrEOF, md1)
        | c :: r1 => if c =? c_rbrack then (Ok r1, md1) else arrayElems f d1 md1 (c :: r1)
        end
      | KObject r =>
        if (limit <=? d)%nat then (ErrRecurse, md) else
        let d1 := S d in
        let md1 := Nat.max md d1 in
        match lspace r with
        | [] => (ErrEOF, md1)
        | c :: r1 => if c =? c_rbrace then (Ok r1, md1) else objectPairs f d1 md1 (c :: r1)
        end
      end
    end
  (* the `for` loop of decodeArray *)
  with arrayElems (fuel d md : nat) (s : list byte) : outcome * nat :=
    match fuel with
    | O => (OutOfFuel, md)
    | S f =>
      match decodeValue f d md s with
      | (Ok r, md1) =>
        match lspace r with
        | [] => (ErrEOF, md1)
        | c :: r1 => if c =? c_comma then arrayElems f d md1 r1
                     else if c =? c_rbrack then (Ok r1, md1) else (ErrInvalid, md1)
        end
      | e => e
      end
    end
  (* the `for` loop of decodeObject *)
  with objectPairs (fuel d md : nat) (s : list byte) : outcome * nat :=
    match fuel with
    | O => (OutOfFuel, md)
    | S f =>
      match native_value s with
      | KString r =>
        match lspace r with       (* Parser.delim *)
        | [] => (ErrEOF, md)
        | c :: r1 =>
          if c =? c_colon then
            match decodeValue f d md r1 with
            | (Ok r2, md1) =>
              match lspace r2 with
              | [] => (ErrEOF, md1)
              | c2 :: r3 => if c2 =? c_comma then objectPairs f d md1 r3
                            else if c2 =? c_rbrace then (Ok r3, md1) else (ErrInvalid, md1)
              end
            | e => e
            end
          else (ErrInvalid, md)
        end
      | KErr ErrUnsupported => (ErrUnsupported, md)
      | KErr ErrEOF => (ErrInvalid, md)   (* njs.Vt != V_STRING -> ERR_INVALID_CHAR, whatever the native error was *)
      | _ => (ErrInvalid, md)
      end
    end.

  Lemma decodeValue_S : forall f d md s, decodeValue (S f) d md s =
      match native_value s with
      | KEof => (ErrEOF, md)
      | KErr e => (e, md)
      | KString r | KScalar r => (Ok r, md)
      | KArray r =>
        if (limit <=? d)%nat then (ErrRecurse, md) else
        let d1 := S d in
        let md1 := Nat.max md d1 in
        match lspace r with
        | [] => (ErrEOF, md1)
        | c :: r1 => if c =? c_rbrack then (Ok r1, md1) else arrayElems f d1 md1 (c :: r1)
        end
      | KObject r =>
        if (limit <=? d)%nat then (ErrRecurse, md) else
        let d1 := S d in
        let md1 := Nat.max md d1 in
        match lspace r with
        | [] => (ErrEOF, md1)
        | c :: r1 => if c =? c_rbrace then (Ok r1, md1) else objectPairs f d1 md1 (c :: r1)
        end
      end.
  Proof. reflexivity. Qed.

  Lemma arrayElems_S : forall f d md s, arrayElems (S f) d md s =
      match decodeValue f d md s with
      | (Ok r, md1) =>
        match lspace r with
        | [] => (ErrEOF, md1)
        | c :: r1 => if c =? c_comma then arrayElems f d md1 r1
                     else if c =? c_rbrack then (Ok r1, md1) else (ErrInvalid, md1)
        end
      | e => e
      end.
  Proof. reflexivity. Qed.

  (* the counter never exceeds the limit: the Go stack holds at most `limit` decodeArray/decodeObject frames *)
  Lemma depth_bounded : forall fuel,
    (forall d md s, (d <= limit)%nat -> (md <= limit)%nat -> (snd (decodeValue fuel d md s) <= limit)%nat) /\
    (forall d md s, (d <= limit)%nat -> (md <= limit)%nat -> (snd (arrayElems fuel d md s) <= limit)%nat) /\
    (forall d md s, (d <= limit)%nat -> (md <= limit)%nat -> (snd (objectPairs fuel d md s) <= limit)%nat).
  Proof.
    induction fuel as [|f [IHv [IHa IHo]]].
    - repeat split; intros; cbn; assumption.
    - repeat split; intros d md s Hd Hm.
      + cbn [decodeValue]. destruct (native_value s) as [|r|r|r|r|e]; cbn [snd]; try assumption.
        * destruct (limit <=? d)%nat eqn:E; [cbn; assumption|]. apply Nat.leb_gt in E.
          assert (Hmax : (Nat.max md (S d) <= limit)%nat) by lia.
          destruct (lspace r) as [|c r1]; [cbn; assumption|].
          destruct (c =? c_rbrack); [cbn; assumption|]. apply IHa; lia.
        * destruct (limit <=? d)%nat eqn:E; [cbn; assumption|]. apply Nat.leb_gt in E.
          assert (Hmax : (Nat.max md (S d) <= limit)%nat) by lia.
          destruct (lspace r) as [|c r1]; [cbn; assumption|].
          destruct (c =? c_rbrace); [cbn; assumption|]. apply IHo; lia.
      + cbn [arrayElems]. pose proof (IHv d md s Hd Hm) as Hv.
        destruct (decodeValue f d md s) as [o md1]. cbn [snd] in Hv.
        destruct o; try (cbn; assumption).
        destruct (lspace rest) as [|c r1]; [cbn; assumption|].
        destruct (c =? c_comma); [apply IHa; assumption|]. destruct (c =? c_rbrack); cbn; assumption.
      + cbn [objectPairs]. destruct (native_value s) as [|r|r|r|r|e]; try (cbn; assumption).
        * destruct (lspace r) as [|c r1]; [cbn; assumption|]. destruct (c =? c_colon); [|cbn; assumption].
          pose proof (IHv d md r1 Hd Hm) as Hv. destruct (decodeValue f d md r1) as [o md1]. cbn [snd] in Hv.
          destruct o; try (cbn; assumption).
          destruct (lspace rest) as [|c2 r3]; [cbn; assumption|].
          destruct (c2 =? c_comma); [apply IHo; assumption|]. destruct (c2 =? c_rbrace); cbn; assumption.
        * destruct e; cbn; assumption.
  Qed.
End Traverse.

(* ast.Preorder(str, visitor, opts): fuel = 2*len+2 is enough (every call consumes a byte or returns) *)
Definition preorder (limit : nat) (s : list byte) : outcome * nat :=
  decodeValue limit (2 * length s + 2) 0 0 s.

Theorem preorder_depth_bounded : forall limit s, (snd (preorder limit s) <= limit)%nat.
Proof. intros limit s. unfold preorder. apply (proj1 (depth_bounded limit _)); lia. Qed.

(* ---------------------------------------------------------------- the unbounded family *)

Definition opens (n : nat) : list byte := repeat c_lbrack n.
Definition closes (n : nat) : list byte := repeat c_rbrack n.

Section Family.
Variable limit : nat.

Lemma native_value_open : forall r, native_value (c_lbrack :: r) = KArray r.
Proof. reflexivity. Qed.

Lemma lspace_rbrack : forall r, lspace (c_rbrack :: r) = c_rbrack :: r.
Proof. reflexivity. Qed.

Lemma lspace_lbrack : forall r, lspace (c_lbrack :: r) = c_lbrack :: r.
Proof. reflexivity. Qed.

Lemma nest_unfold : forall n rest,
  opens (S n) ++ closes (S n) ++ rest = c_lbrack :: (opens n ++ closes n ++ c_rbrack :: rest).
Proof.
  intros n rest. unfold opens, closes. cbn [repeat app]. f_equal. f_equal.
  change (c_rbrack :: repeat c_rbrack n ++ rest) with ((c_rbrack :: repeat c_rbrack n) ++ rest).
  rewrite (repeat_cons n c_rbrack). rewrite <- app_assoc. reflexivity.
Qed.

Lemma opens_head : forall n X, opens (S n) ++ X = c_lbrack :: (opens n ++ X).
Proof. reflexivity. Qed.

(* n >= 1 nested arrays followed by anything: consumed exactly, recursion depth d + n *)
Lemma nested_arrays : forall n fuel d md rest,
  (2 * n <= fuel)%nat -> (1 <= n)%nat -> (d + n <= limit)%nat ->
  decodeValue limit fuel d md (opens n ++ closes n ++ rest) = (Ok rest, Nat.max md (d + n)).
Proof.
  induction n as [|n IH]; intros fuel d md rest Hf Hn Hlim; [lia|].
  destruct fuel as [|f]; [lia|].
  rewrite nest_unfold.
  rewrite decodeValue_S, native_value_open.
  destruct (limit <=? d)%nat eqn:Elim; [apply Nat.leb_le in Elim; lia|clear Elim].
  destruct n as [|n'].
  - (* innermost: "[]" *)
    cbn [opens closes repeat app]. rewrite lspace_rbrack.
    replace (c_rbrack =? c_rbrack) with true by reflexivity.
    f_equal. lia.
  - rewrite opens_head. rewrite lspace_lbrack.
    replace (c_lbrack =? c_rbrack) with false by reflexivity.
    destruct f as [|f']; [lia|].
    rewrite arrayElems_S.
    rewrite <- opens_head.
    rewrite (IH f' (S d) (Nat.max md (S d)) (c_rbrack :: rest)) by lia.
    rewrite lspace_rbrack.
    replace (c_rbrack =? c_comma) with false by reflexivity.
    replace (c_rbrack =? c_rbrack) with true by reflexivity.
    f_equal. lia.
Qed.

(* unterminated nesting (no closers at all): rejected with EOF after descending all the way, when it fits the limit *)
Lemma open_arrays : forall n fuel d md,
  (2 * n + 1 <= fuel)%nat -> (d <= md)%nat -> (d + n <= limit)%nat ->
  decodeValue limit fuel d md (opens n) = (ErrEOF, Nat.max md (d + n)).
Proof.
  induction n as [|n IH]; intros fuel d md Hf Hd Hlim.
  - destruct fuel; [lia|]. cbn. f_equal. lia.
  - destruct fuel as [|f]; [lia|].
    change (opens (S n)) with (c_lbrack :: opens n).
    rewrite decodeValue_S, native_value_open.
    destruct (limit <=? d)%nat eqn:Elim; [apply Nat.leb_le in Elim; lia|clear Elim].
    destruct n as [|n'].
    + cbn. f_equal. lia.
    + change (opens (S n')) with (c_lbrack :: opens n') at 1. rewrite lspace_lbrack.
      replace (c_lbrack =? c_rbrack) with false by reflexivity.
      destruct f as [|f']; [lia|].
      rewrite arrayElems_S. change (c_lbrack :: opens n') with (opens (S n')).
      rewrite (IH f' (S d) (Nat.max md (S d))) by lia.
      f_equal. lia.
Qed.

(* nesting deeper than the limit is rejected with ERR_RECURSE_EXCEED_MAX as soon as the counter reaches the limit *)
Lemma too_deep : forall k d n fuel md X,
  (limit - d = k)%nat -> (d <= limit)%nat -> (limit < d + n)%nat -> (d <= md)%nat -> (2 * k + 1 <= fuel)%nat ->
  decodeValue limit fuel d md (opens n ++ X) = (ErrRecurse, Nat.max md limit).
Proof.
  induction k as [|k IH]; intros d n fuel md X Hk Hd Hn Hm Hf.
  - assert (d = limit) by lia. subst d.
    destruct n as [|n]; [lia|]. destruct fuel as [|f]; [lia|].
    rewrite opens_head. rewrite decodeValue_S, native_value_open.
    destruct (limit <=? limit)%nat eqn:Elim; [clear Elim|apply Nat.leb_gt in Elim; lia].
    f_equal. lia.
  - destruct n as [|n]; [lia|]. destruct n as [|n]; [lia|].
    destruct fuel as [|f]; [lia|].
    rewrite opens_head. rewrite decodeValue_S, native_value_open.
    destruct (limit <=? d)%nat eqn:Elim; [apply Nat.leb_le in Elim; lia|clear Elim].
    rewrite opens_head. rewrite lspace_lbrack.
    replace (c_lbrack =? c_rbrack) with false by reflexivity.
    destruct f as [|f']; [lia|].
    rewrite arrayElems_S. rewrite <- opens_head.
    rewrite (IH (S d) (S n) f' (Nat.max md (S d)) X) by lia.
    f_equal. lia.
Qed.
End Family.

(* up to the limit, the depth used is exactly the nesting depth of the input ... *)
Theorem preorder_nested_upto_limit : forall limit n, (1 <= n <= limit)%nat ->
  preorder limit (opens n ++ closes n) = (Ok [], n).
Proof.
  intros limit n Hn. unfold preorder.
  replace (opens n ++ closes n) with (opens n ++ closes n ++ []) by (rewrite app_nil_r; reflexivity).
  rewrite nested_arrays.
  - f_equal.
  - rewrite app_nil_r. unfold opens, closes. rewrite app_length, !repeat_length. lia.
  - lia.
  - lia.
Qed.

Theorem preorder_open_upto_limit : forall limit n, (n <= limit)%nat -> preorder limit (opens n) = (ErrEOF, n).
Proof.
  intros limit n Hn. unfold preorder. rewrite open_arrays.
  - f_equal.
  - unfold opens. rewrite repeat_length. lia.
  - lia.
  - lia.
Qed.

(* ... and anything deeper (closed or not, whatever follows) is refused with an ordinary error after exactly `limit` frames *)
Theorem preorder_beyond_limit_rejected : forall limit n X, (limit < n)%nat ->
  preorder limit (opens n ++ X) = (ErrRecurse, limit).
Proof.
  intros limit n X Hn. unfold preorder.
  rewrite (too_deep limit limit 0 n _ 0 X); try lia.
  - f_equal.
  - rewrite app_length. unfold opens. rewrite repeat_length. lia.
Qed.

Example preorder_examples :
  preorder 4096 [91; 49; 44; 123; 34; 97; 34; 58; 91; 93; 125; 93] = (Ok [], 3%nat)        (* [1,{"a":[]}] *)
  /\ preorder 4096 [123; 34; 97; 34; 32; 49; 125] = (ErrInvalid, 1%nat)                    (* {"a" 1} *)
  /\ preorder 4096 [91; 91; 49] = (ErrEOF, 2%nat)                                          (* [[1 *)
  /\ preorder 2 [91; 91; 91; 93; 93; 93] = (ErrRecurse, 2%nat).                            (* [[[]]] with limit 2 *)
Proof. vm_compute. repeat split; reflexivity. Qed.

(* ---------------------------------------------------------------- traversals of a loaded tree *)

(* Node.Interface / InterfaceUseNumber / MarshalJSON (encodeInterface) / SortKeys(recurse) / LoadAll all recurse once per
   container level of the loaded tree, without a limit of their own: frames = height of the tree.  Every tree these are
   applied to comes from a document that passed the depth-limited native skipper (NewRaw, Get, Searcher, and since fix
   62dcdd9 Loads) or the depth-limited Parse, so its height is <= MAX_RECURSE; trees built by hand with NewArray/NewObject
   can be arbitrarily high (tree_walk_depth_unbounded) - that is the caller's data structure, not an input document. *)
Inductive jv := JScalar | JArr (l : list jv) | JObj (l : list jv).

Fixpoint height (t : jv) : nat :=
  match t with
  | JScalar => O
  | JArr l | JObj l => S (fold_right (fun c m => Nat.max (height c) m) O l)
  end.

(* frames: d = depth at which the node is visited; result = deepest frame reached *)
Fixpoint walk (d : nat) (t : jv) : nat :=
  match t with
  | JScalar => d
  | JArr l | JObj l => fold_right (fun c m => Nat.max (walk (S d) c) m) (S d) l
  end.

Lemma walk_height : forall t d, walk d t = (d + height t)%nat.
Proof.
  fix IH 1. intros t d. destruct t as [|l|l]; cbn [walk height].
  - lia.
  - induction l as [|c l IHl]; cbn [fold_right]; [lia|]. rewrite IH, IHl. lia.
  - induction l as [|c l IHl]; cbn [fold_right]; [lia|]. rewrite IH, IHl. lia.
Qed.

Theorem tree_walk_depth_is_height : forall t, walk 0 t = height t.
Proof. intro t. rewrite walk_height. reflexivity. Qed.

Fixpoint nest_tree (n : nat) : jv := match n with O => JScalar | S k => JArr [nest_tree k] end.

Theorem tree_walk_depth_unbounded : forall n, walk 0 (nest_tree n) = n.
Proof.
  intro n. rewrite tree_walk_depth_is_height. induction n; cbn [nest_tree height fold_right]; [reflexivity|]. rewrite IHn. lia.
Qed.
