(* C07: the resource limits agree between the layers (Gen/Consts.v is regenerated from /repo on every run:
   Go constants via go/types, C macros from native/types.h, native/native.h, native/scanning.h). *)
From Coq Require Import ZArith Lia.
From SV.Gen Require Import Consts.
Open Scope Z_scope.

(* the native validator stack: the C limit tested by fsm_push, the C array, the Go mirror of the struct *)
Theorem fsm_stack_limits_agree :
  c_fsm_push_limit = c_MAX_RECURSE /\ c_StateMachine_vt_len = c_MAX_RECURSE /\
  go_types_MAX_RECURSE = c_MAX_RECURSE /\ go_types_StateMachine_Vt_len = c_MAX_RECURSE /\
  c_fsm_push_error = go_types_ERR_RECURSE_EXCEED_MAX.
Proof. repeat split; reflexivity. Qed.

(* fsm_push writes vt[sp] only when sp < limit = array length: the write is inside both the C and the Go array *)
Theorem fsm_push_in_bounds : forall sp, 0 <= sp -> ~ (sp >= c_fsm_push_limit) ->
  sp < c_StateMachine_vt_len /\ sp < go_types_StateMachine_Vt_len.
Proof. intros sp H0 H. unfold c_fsm_push_limit, c_StateMachine_vt_len, go_types_StateMachine_Vt_len in *. lia. Qed.

(* generated decoder: value stack and its byte limit *)
Theorem jitdec_stack_limits_agree :
  go_jitdec_MaxStackBytes = go_jitdec_MaxStack * go_jitdec_PtrBytes /\
  go_jitdec_Stack_sb_len = go_jitdec_MaxStack /\
  go_jitdec_Stack_vp_len = go_types_MAX_RECURSE /\
  go_jitdec_Stack_dp_len = go_types_MaxDigitNums /\ go_jitdec_MaxDigitNums = go_types_MaxDigitNums /\
  go_decconsts_MaxStack = go_jitdec_MaxStack.
Proof. repeat split; reflexivity. Qed.

(* encoder: state stack; Push refuses exactly when the next State would not fit the array *)
Theorem encoder_stack_limits_agree :
  go_encvars_StackLimit = go_encvars_MaxStack * go_encvars_StateSize /\
  go_encvars_MaxStackSP = go_encvars_StackLimit /\
  go_encvars_Push_limit = go_encvars_Stack_sb_len * go_encvars_StateSize.
Proof. repeat split; reflexivity. Qed.

Theorem encoder_push_in_bounds : forall sp, 0 <= sp -> sp mod go_encvars_StateSize = 0 ->
  ~ (sp >= go_encvars_Push_limit) ->
  sp + go_encvars_StateSize <= go_encvars_Stack_sb_len * go_encvars_StateSize.
Proof.
  unfold go_encvars_Push_limit, go_encvars_StateSize, go_encvars_Stack_sb_len. intros sp H0 Hm H.
  assert (sp = 32 * (sp / 32)) by (rewrite (Z.div_mod sp 32) at 1 by lia; lia). lia.
Qed.

Theorem message_table_len : go_types_ParsingErrors_len = 11.
Proof. reflexivity. Qed.

Theorem buffer_sizes_sane :
  0 < go_option_DefaultDecoderBufferSize <= go_option_LimitBufferSize /\
  0 < go_option_DefaultEncoderBufferSize <= go_option_LimitBufferSize /\
  0 < go_option_DefaultAstBufferSize <= go_option_LimitBufferSize /\ 0 < go_ast_DEFAULT_NODE_CAP.
Proof. unfold go_option_DefaultDecoderBufferSize, go_option_DefaultEncoderBufferSize, go_option_DefaultAstBufferSize, go_option_LimitBufferSize, go_ast_DEFAULT_NODE_CAP. lia. Qed.
