(* C18, entry points: the convenience functions of api.go delegate to the frozen default Config, and the
   frozenConfig methods reach the codecs with the option word of their own side only.  The tables are
   regenerated from api.go / sonic.go by the translator (Gen/EntryPoints.v). *)
From Coq Require Import List String Bool.
From SV.Gen Require Import EntryPoints.
Import ListNotations.
Open Scope string_scope.

Fixpoint assoc {A} (k : string) (l : list (string * A)) : option A :=
  match l with
  | [] => None
  | (k', v) :: r => if String.eqb k k' then Some v else assoc k r
  end.

Definition triple_eqb (a b : string * string * string) : bool :=
  let '(a1, a2, a3) := a in let '(b1, b2, b3) := b in
  String.eqb a1 b1 && String.eqb a2 b2 && String.eqb a3 b3.

Definition expected_delegations : list (string * (string * string * string)) := [
  ("Marshal", ("ConfigDefault", "Marshal", "val"));
  ("MarshalIndent", ("ConfigDefault", "MarshalIndent", "v,prefix,indent"));
  ("MarshalString", ("ConfigDefault", "MarshalToString", "val"));
  ("Unmarshal", ("ConfigDefault", "Unmarshal", "buf,val"));
  ("UnmarshalString", ("ConfigDefault", "UnmarshalFromString", "buf,val"));
  ("Valid", ("ConfigDefault", "Valid", "data"));
  ("ValidString", ("ConfigDefault", "Valid", "rt.Str2Mem(data)"))
].

Definition delegation_ok (e : string * (string * string * string)) : bool :=
  match assoc (fst e) delegations with
  | Some t => triple_eqb t (snd e)
  | None => false
  end.

Fixpoint list_eqb (a b : list string) : bool :=
  match a, b with
  | [], [] => true
  | x :: a', y :: b' => String.eqb x y && list_eqb a' b'
  | _, _ => false
  end.

(* what each frozenConfig method must do, as the ordered list of calls / option reads *)
Definition expected_methods : list (string * list string) := [
  ("Marshal", ["call encoder.Encode"; "opts encoderOpts"]);
  ("MarshalIndent", ["call encoder.EncodeIndented"; "opts encoderOpts"]);
  ("MarshalToString", ["call encoder.Encode"; "opts encoderOpts"; "call rt.Mem2Str"]);
  ("NewDecoder", ["call decoder.NewStreamDecoder"; "call dec.SetOptions"; "opts decoderOpts"]);
  ("NewEncoder", ["call encoder.NewStreamEncoder"; "assign .Opts"; "opts encoderOpts"]);
  ("Unmarshal", ["call cfg.UnmarshalFromString"; "call string"]);
  ("UnmarshalFromString", ["call decoder.NewDecoder"; "call dec.SetOptions"; "opts decoderOpts"; "call dec.Decode"; "call dec.CheckTrailings"]);
  ("Valid", ["call encoder.Valid"])
].

Definition method_ok (e : string * list string) : bool :=
  match assoc (fst e) frozen_methods with
  | Some l => list_eqb l (snd e)
  | None => false
  end.

(* semantic reading of the tables: an encoder-side method never reads the decoder word and vice versa *)
Definition reads (m f : string) : bool :=
  match assoc m frozen_methods with
  | Some l => existsb (String.eqb ("opts " ++ f)) l
  | None => false
  end.

Definition sides_ok : bool :=
  forallb (fun m => reads m "encoderOpts" && negb (reads m "decoderOpts")) ["Marshal"; "MarshalIndent"; "MarshalToString"; "NewEncoder"] &&
  forallb (fun m => reads m "decoderOpts" && negb (reads m "encoderOpts")) ["UnmarshalFromString"; "NewDecoder"] &&
  negb (reads "Valid" "encoderOpts") && negb (reads "Valid" "decoderOpts").

Lemma entrypoints_delegate : forallb delegation_ok expected_delegations = true.
Proof. vm_compute. reflexivity. Qed.

Lemma frozen_methods_shape : forallb method_ok expected_methods = true /\ sides_ok = true.
Proof. vm_compute. split; reflexivity. Qed.
