(* Hand-written specification of the option layer (C18): what each Config switch is documented to do,
   expressed over the *named* constants of the encoder / decoder layers regenerated from /repo. *)
From Coq Require Import NArith Bool List Lia.
From SV.Gen Require Import OptBits.
Import ListNotations.
Open Scope N_scope.

Definition bit (b : bool) (m : N) : N := if b then m else 0.

(* documented meaning: field |-> encoder option(s) *)
Definition enc_spec (c : config) : N :=
  bit (cfg_EscapeHTML c) encint_EscapeHTML +
  bit (cfg_SortMapKeys c) encint_SortMapKeys +
  bit (cfg_CompactMarshaler c) encint_CompactMarshaler +
  bit (cfg_NoQuoteTextMarshaler c) encint_NoQuoteTextMarshaler +
  bit (cfg_NoNullSliceOrMap c) encint_NoNullSliceOrMap +
  bit (cfg_ValidateString c) encint_ValidateString +
  bit (cfg_NoValidateJSONMarshaler c) encint_NoValidateJSONMarshaler +
  bit (cfg_NoEncoderNewline c) encint_NoEncoderNewline +
  bit (cfg_EncodeNullForInfOrNan c) encint_EncodeNullForInfOrNan.

(* documented meaning: field |-> decoder option(s) *)
Definition dec_spec (c : config) : N :=
  bit (cfg_UseInt64 c) consts_OptionUseInt64 +
  bit (cfg_UseNumber c) consts_OptionUseNumber +
  bit (cfg_UseUnicodeErrors c) consts_OptionUseUnicodeErrors +
  bit (cfg_DisallowUnknownFields c) consts_OptionDisableUnknown +
  bit (cfg_CopyString c) consts_OptionCopyString +
  bit (cfg_ValidateString c) consts_OptionValidateString +
  bit (cfg_NoValidateJSONSkip c) consts_OptionNoValidateJSON +
  bit (cfg_CaseSensitive c) consts_OptionCaseSensitive.

(* all configurations, as bit lists of the record's length *)
Fixpoint all_bits (n : nat) : list (list bool) :=
  match n with
  | O => [[]]
  | S k => map (cons false) (all_bits k) ++ map (cons true) (all_bits k)
  end.

Definition nfields : nat := length config_fields.

Definition froze_ok (l : list bool) : bool :=
  let c := config_of_bits l in
  let '(e, d) := froze c in
  N.eqb e (enc_spec c) && N.eqb d (dec_spec c).

(* the option words as used by each layer *)
Definition enc_layers : list (N * N * N) :=   (* public, internal, bit index *)
  [ (encpub_SortMapKeys, encint_SortMapKeys, alg_BitSortMapKeys);
    (encpub_EscapeHTML, encint_EscapeHTML, alg_BitEscapeHTML);
    (encpub_CompactMarshaler, encint_CompactMarshaler, alg_BitCompactMarshaler);
    (encpub_NoQuoteTextMarshaler, encint_NoQuoteTextMarshaler, alg_BitNoQuoteTextMarshaler);
    (encpub_NoNullSliceOrMap, encint_NoNullSliceOrMap, alg_BitNoNullSliceOrMap);
    (encpub_ValidateString, encint_ValidateString, alg_BitValidateString);
    (encpub_NoValidateJSONMarshaler, encint_NoValidateJSONMarshaler, alg_BitNoValidateJSONMarshaler);
    (encpub_NoEncoderNewline, encint_NoEncoderNewline, alg_BitNoEncoderNewline);
    (encpub_EncodeNullForInfOrNan, encint_EncodeNullForInfOrNan, alg_BitEncodeNullForInfOrNan) ].

Definition enc_layer_ok (t : N * N * N) : bool :=
  let '(p, i, b) := t in N.eqb p i && N.eqb i (N.shiftl 1 b).

(* decoder: public, api, consts, and the bit index used by jitdec / optdec / consts *)
Definition dec_layers : list (N * N * N * list N) :=
  [ (decpub_OptionUseInt64, decapi_OptionUseInt64, consts_OptionUseInt64,
       [consts_F_use_int64; jitdec_F_use_int64; decapi_F_use_int64; optdec_F_use_int64]);
    (decpub_OptionUseNumber, decapi_OptionUseNumber, consts_OptionUseNumber,
       [consts_F_use_number; jitdec_F_use_number; decapi_F_use_number; optdec_F_use_number; ntypes_B_USE_NUMBER]);
    (decpub_OptionUseUnicodeErrors, decapi_OptionUseUnicodeErrors, consts_OptionUseUnicodeErrors,
       [consts_F_disable_urc; jitdec_F_disable_urc; decapi_F_disable_urc; optdec_F_disable_urc]);
    (decpub_OptionDisableUnknown, decapi_OptionDisableUnknown, consts_OptionDisableUnknown,
       [consts_F_disable_unknown; jitdec_F_disable_unknown; decapi_F_disable_unknown; optdec_F_disable_unknown]);
    (decpub_OptionCopyString, decapi_OptionCopyString, consts_OptionCopyString,
       [consts_F_copy_string; jitdec_F_copy_string; decapi_F_copy_string; optdec_F_copy_string]);
    (decpub_OptionValidateString, decapi_OptionValidateString, consts_OptionValidateString,
       [consts_F_validate_string; jitdec_F_validate_string; decapi_F_validate_string; optdec_F_validate_string; ntypes_B_VALIDATE_STRING]);
    (decpub_OptionNoValidateJSON, decapi_OptionNoValidateJSON, consts_OptionNoValidateJSON,
       [consts_F_no_validate_json; jitdec_F_no_validate_json; ntypes_B_NO_VALIDATE_JSON]);
    (decpub_OptionCaseSensitive, decapi_OptionCaseSensitive, consts_OptionCaseSensitive,
       [consts_F_case_sensitive; jitdec_F_case_sensitive]) ].

Definition dec_layer_ok (t : N * N * N * list N) : bool :=
  let '(p, a, c, bs) := t in
  N.eqb p a && N.eqb a c && forallb (fun b => N.eqb c (N.shiftl 1 b)) bs.

(* native side: Go mirror constants and the C headers *)
Definition native_ok : bool :=
  N.eqb ntypes_F_USE_NUMBER (N.shiftl 1 ntypes_B_USE_NUMBER) &&
  N.eqb ntypes_F_VALIDATE_STRING (N.shiftl 1 ntypes_B_VALIDATE_STRING) &&
  N.eqb ntypes_F_ALLOW_CONTROL (N.shiftl 1 ntypes_B_ALLOW_CONTROL) &&
  N.eqb ntypes_F_DOUBLE_UNQUOTE (N.shiftl 1 ntypes_B_DOUBLE_UNQUOTE) &&
  N.eqb ntypes_F_UNICODE_REPLACE (N.shiftl 1 ntypes_B_UNICODE_REPLACE) &&
  N.eqb c_F_DBLUNQ ntypes_F_DOUBLE_UNQUOTE &&
  N.eqb c_F_UNIREP ntypes_F_UNICODE_REPLACE &&
  N.eqb c_F_NO_VALIDATE_JSON (N.shiftl 1 ntypes_B_NO_VALIDATE_JSON) &&
  N.eqb c_MASK_VALIDATE_STRING ntypes_F_VALIDATE_STRING &&
  N.eqb c_MASK_ALLOW_CONTROL ntypes_F_ALLOW_CONTROL &&
  N.eqb c_MASK_USE_NUMBER ntypes_F_USE_NUMBER &&
  N.eqb consts_F_allow_control ntypes_B_ALLOW_CONTROL &&
  N.eqb jitdec_F_allow_control ntypes_B_ALLOW_CONTROL.

Fixpoint nodupb (l : list N) : bool :=
  match l with
  | [] => true
  | x :: r => negb (existsb (N.eqb x) r) && nodupb r
  end.

Definition enc_bits_distinct : bool :=
  nodupb (alg_BitPointerValue :: map (fun t => snd t) enc_layers).
Definition dec_bits_distinct : bool :=
  nodupb (consts_F_allow_control :: map (fun t => match t with (_, _, c, _) => N.log2 c end) dec_layers).

(* setters (Encoder / Decoder methods) against the frozen bit of the same switch *)
Definition testb (o m : N) : bool := negb (N.eqb (N.land o m) 0).

Definition setter_sets (f : N -> N) (m : N) (o : N) : bool :=
  N.eqb (f o) (N.lor o m).
Definition setter_bool (f : N -> bool -> N) (m : N) (o : N) : bool :=
  N.eqb (f o true) (N.lor o m) && N.eqb (f o false) (N.ldiff o m).

(* sweep domain for setters: every option word below 2^9 (encoder) / 2^8 (decoder) *)
Definition words (k : nat) : list N := map N.of_nat (seq 0 (Nat.pow 2 k)).

Definition enc_setters_ok (o : N) : bool :=
  setter_sets encset_SortKeys encint_SortMapKeys o &&
  setter_bool encset_SetEscapeHTML encint_EscapeHTML o &&
  setter_bool encset_SetValidateString encint_ValidateString o &&
  setter_bool encset_SetNoValidateJSONMarshaler encint_NoValidateJSONMarshaler o &&
  setter_bool encset_SetNoEncoderNewline encint_NoEncoderNewline o &&
  setter_bool encset_SetCompactMarshaler encint_CompactMarshaler o &&
  setter_bool encset_SetNoQuoteTextMarshaler encint_NoQuoteTextMarshaler o.

(* UseInt64 / UseNumber are mutually exclusive on the Decoder: setting one clears the other *)
Definition dec_setters_ok (o : N) : bool :=
  N.eqb (decset_UseInt64 o) (N.ldiff (N.lor o consts_OptionUseInt64) consts_OptionUseNumber) &&
  N.eqb (decset_UseNumber o) (N.lor (N.ldiff o consts_OptionUseInt64) consts_OptionUseNumber) &&
  setter_sets decset_UseUnicodeErrors consts_OptionUseUnicodeErrors o &&
  setter_sets decset_DisallowUnknownFields consts_OptionDisableUnknown o &&
  setter_sets decset_CopyString consts_OptionCopyString o &&
  setter_sets decset_ValidateString consts_OptionValidateString o.
