From Coq Require Import NArith Bool List Lia.
From SV.Gen Require Import OptBits.
From SV.Opts Require Import Spec.
Import ListNotations.
Open Scope N_scope.

Lemma all_bits_complete : forall n l, length l = n -> In l (all_bits n).
Proof.
  induction n as [|n IH]; intros l Hl.
  - destruct l; [left; reflexivity | discriminate].
  - destruct l as [|b l]; [discriminate|]. injection Hl as Hl.
    cbn [all_bits]. apply in_or_app. destruct b.
    + right. apply in_map. apply IH. exact Hl.
    + left. apply in_map. apply IH. exact Hl.
Qed.

Lemma config_bits_roundtrip : forall c, config_of_bits (bits_of_config c) = c.
Proof. intros []; reflexivity. Qed.

Lemma bits_of_config_length : forall c, length (bits_of_config c) = nfields.
Proof. intros []; reflexivity. Qed.

(* finite sweep over all 2^nfields configurations, evaluated by the kernel's VM *)
Lemma froze_sweep : forallb froze_ok (all_bits nfields) = true.
Proof. vm_compute. reflexivity. Qed.

Lemma froze_exact_all : forall c : config, froze c = (enc_spec c, dec_spec c).
Proof.
  intros c.
  pose proof (proj1 (forallb_forall _ _) froze_sweep (bits_of_config c)
                (all_bits_complete _ _ (bits_of_config_length c))) as H.
  unfold froze_ok in H. rewrite config_bits_roundtrip in H.
  destruct (froze c) as [e d].
  apply andb_true_iff in H. destruct H as [He Hd].
  apply N.eqb_eq in He. apply N.eqb_eq in Hd. subst. reflexivity.
Qed.

Lemma layers_agree :
  forallb enc_layer_ok enc_layers = true /\ forallb dec_layer_ok dec_layers = true /\ native_ok = true.
Proof. vm_compute. repeat split. Qed.

Lemma bits_distinct : enc_bits_distinct = true /\ dec_bits_distinct = true.
Proof. vm_compute. split; reflexivity. Qed.

Lemma words_complete : forall k o, o < 2 ^ N.of_nat k -> In o (words k).
Proof.
  intros k o H. unfold words.
  replace o with (N.of_nat (N.to_nat o)) by apply N2Nat.id.
  apply in_map. apply in_seq. split; [lia|].
  cbn [plus].
  assert (E : N.of_nat (Nat.pow 2 k) = 2 ^ N.of_nat k).
  { rewrite Nat2N.inj_pow. reflexivity. }
  lia.
Qed.

Lemma enc_setters_sweep : forallb enc_setters_ok (words 9) = true.
Proof. vm_compute. reflexivity. Qed.
Lemma dec_setters_sweep : forallb dec_setters_ok (words 8) = true.
Proof. vm_compute. reflexivity. Qed.

Lemma enc_setters_all : forall o, o < 2 ^ 9 -> enc_setters_ok o = true.
Proof. intros o H. apply (proj1 (forallb_forall _ _) enc_setters_sweep). apply (words_complete 9). exact H. Qed.
Lemma dec_setters_all : forall o, o < 2 ^ 8 -> dec_setters_ok o = true.
Proof. intros o H. apply (proj1 (forallb_forall _ _) dec_setters_sweep). apply (words_complete 8). exact H. Qed.

(* the stock configurations *)
Lemma stock_configs :
  froze ConfigDefault_cfg = (0, 0) /\
  froze ConfigStd_cfg = (encint_EscapeHTML + encint_SortMapKeys + encint_CompactMarshaler + encint_ValidateString,
                         consts_OptionCopyString + consts_OptionValidateString) /\
  froze ConfigFastest_cfg = (encint_NoValidateJSONMarshaler, consts_OptionNoValidateJSON).
Proof. vm_compute. repeat split. Qed.

(* "and no other": flipping one switch changes only that switch's bits.  Stated as: the frozen words are
   the bitwise sum of independent contributions, so a config differing in field f differs exactly by f's bits. *)
Lemma froze_words_in_range : forall c, fst (froze c) < 2 ^ 9 /\ snd (froze c) < 2 ^ 8.
Proof.
  intros c.
  assert (H : forallb (fun l => let '(e, d) := froze (config_of_bits l) in N.ltb e (2 ^ 9) && N.ltb d (2 ^ 8))
                      (all_bits nfields) = true) by (vm_compute; reflexivity).
  pose proof (proj1 (forallb_forall _ _) H (bits_of_config c)
                (all_bits_complete _ _ (bits_of_config_length c))) as H1.
  cbv beta in H1. rewrite config_bits_roundtrip in H1. destruct (froze c) as [e d]. cbn [fst snd].
  apply andb_true_iff in H1. destruct H1 as [A B]. apply N.ltb_lt in A. apply N.ltb_lt in B. split; assumption.
Qed.
