(* Dec/FieldMapProofs.v - the open-addressing table of internal/caching/fcache.go finds exactly what was stored,
   for every hash function. *)
From Coq Require Import NArith ZArith List Bool Lia.
From SV.Dec Require Import Ty Val Text FieldMap.
Import ListNotations.
Open Scope N_scope.

Lemma bytes_eqb_eq : forall a b, bytes_eqb a b = true <-> a = b.
Proof.
  induction a as [|x a IH]; destruct b as [|y b]; simpl; split; intro H; try discriminate; try reflexivity.
  - apply andb_prop in H as [H1 H2]. apply N.eqb_eq in H1. apply IH in H2. congruence.
  - inversion H; subst. rewrite N.eqb_refl. simpl. apply IH. reflexivity.
Qed.

Lemma bytes_eqb_refl : forall a, bytes_eqb a a = true.
Proof. intro a. apply bytes_eqb_eq. reflexivity. Qed.

Lemma bytes_eqb_neq : forall a b, a <> b -> bytes_eqb a b = false.
Proof. intros a b H. destruct (bytes_eqb a b) eqn:E; [apply bytes_eqb_eq in E; contradiction|reflexivity]. Qed.

(* ---- list plumbing ---- *)
Lemma set_nth_length : forall A (l : list A) i x, length (set_nth l i x) = length l.
Proof. induction l as [|y l IH]; intros [|i] x; simpl; auto. Qed.

Lemma nth_set_nth_eq : forall A (l : list A) i x d, (i < length l)%nat -> nth i (set_nth l i x) d = x.
Proof. induction l as [|y l IH]; intros [|i] x d H; simpl in *; try lia; auto. apply IH. lia. Qed.

Lemma nth_set_nth_neq : forall A (l : list A) i j x d, i <> j -> nth j (set_nth l i x) d = nth j l d.
Proof.
  induction l as [|y l IH]; intros [|i] [|j] x d H; simpl; auto; try congruence.
Qed.

Definition nonempty (e : entry) : bool := negb (e_hash e =? 0).
Definition count_ne (b : list entry) : nat := length (filter nonempty b).

Lemma count_ne_set : forall b i e, (i < length b)%nat -> nonempty (nth i b empty_entry) = false -> nonempty e = true ->
  count_ne (set_nth b i e) = S (count_ne b).
Proof.
  unfold count_ne. induction b as [|y b IH]; intros [|i] e Hl Hn He; simpl in *; try lia.
  - rewrite Hn, He. reflexivity.
  - destruct (nonempty y); simpl; rewrite IH by (auto; lia); reflexivity.
Qed.

Lemma count_ne_full : forall b, (forall i, (i < length b)%nat -> nonempty (nth i b empty_entry) = true) ->
  count_ne b = length b.
Proof.
  unfold count_ne. induction b as [|y b IH]; intro H; simpl; [reflexivity|].
  pose proof (H 0%nat ltac:(simpl; lia)) as H0. simpl in H0. rewrite H0. simpl. f_equal. apply IH. intros i Hi. apply (H (S i)). simpl. lia.
Qed.

Lemma count_ne_repeat : forall n, count_ne (repeat empty_entry n) = 0%nat.
Proof. unfold count_ne. induction n; simpl; auto. Qed.

(* ---- the probe sequence ---- *)
Definition nextp (n p : N) : N := (p + 1) mod n.
Fixpoint walk (n p : N) (d : nat) : N := match d with O => p | S d' => walk n (nextp n p) d' end.

Lemma walk_mod : forall n d p, n <> 0 -> p < n -> walk n p d = (p + N.of_nat d) mod n.
Proof.
  intros n d. induction d as [|d IH]; intros p Hn Hp; simpl walk.
  - rewrite N.add_0_r. symmetry. apply N.mod_small. exact Hp.
  - rewrite IH; [|exact Hn|apply N.mod_lt; exact Hn]. unfold nextp.
    rewrite N.add_mod_idemp_l by exact Hn. f_equal. lia.
Qed.

Lemma walk_lt : forall n d p, n <> 0 -> p < n -> walk n p d < n.
Proof. intros. rewrite walk_mod by assumption. apply N.mod_lt. assumption. Qed.

Lemma walk_onto : forall n p q, n <> 0 -> p < n -> q < n -> exists d, (d < N.to_nat n)%nat /\ walk n p d = q.
Proof.
  intros n p q Hn Hp Hq. exists (N.to_nat ((q + n - p) mod n)). split.
  - pose proof (N.mod_lt (q + n - p) n Hn). lia.
  - rewrite walk_mod by assumption. rewrite N2Nat.id.
    rewrite N.add_mod_idemp_r by exact Hn.
    replace (p + (q + n - p)) with (q + 1 * n) by lia.
    rewrite N.mod_add by exact Hn. apply N.mod_small. exact Hq.
Qed.

Section WithHash.
  Variable h : bytes -> N.

  Lemma strhash_nz : forall s, strhash h s <> 0.
  Proof. intro s. unfold strhash. destruct (h s =? 0) eqn:E; [discriminate|]. apply N.eqb_neq. exact E. Qed.

  Lemma find_empty_some : forall fm fuel p q, find_empty fm fuel p = Some q ->
    exists d, (d < fuel)%nat /\ q = walk (fm_n fm) p d /\ e_hash (at_ fm q) = 0 /\
              forall j, (j < d)%nat -> e_hash (at_ fm (walk (fm_n fm) p j)) <> 0.
  Proof.
    intros fm fuel. induction fuel as [|f IH]; intros p q H; simpl in H; [discriminate|].
    destruct (e_hash (at_ fm p) =? 0) eqn:E.
    - inversion H; subst. exists 0%nat. apply N.eqb_eq in E. repeat split; try lia; auto.
    - apply IH in H as [d [Hd [Hq [He Hj]]]]. exists (S d). repeat split; try lia; auto.
      intros [|j] Hlt; simpl.
      + apply N.eqb_neq. exact E.
      + apply Hj. lia.
  Qed.

  Lemma find_empty_none : forall fm fuel p, find_empty fm fuel p = None ->
    forall j, (j < fuel)%nat -> e_hash (at_ fm (walk (fm_n fm) p j)) <> 0.
  Proof.
    intros fm fuel. induction fuel as [|f IH]; intros p H j Hj; [lia|]. simpl in H.
    destruct (e_hash (at_ fm p) =? 0) eqn:E; [discriminate|].
    destruct j as [|j]; simpl.
    - apply N.eqb_neq. exact E.
    - apply IH; [exact H|lia].
  Qed.

  Definition matches (hh : N) (name : bytes) (s : entry) : bool := (e_hash s =? hh) && bytes_eqb (e_name s) name.

  Lemma probe_first_match : forall fm hh name id d fuel p,
    (d < fuel)%nat ->
    (forall j, (j < d)%nat -> e_hash (at_ fm (walk (fm_n fm) p j)) <> 0) ->
    e_hash (at_ fm (walk (fm_n fm) p d)) <> 0 ->
    matches hh name (at_ fm (walk (fm_n fm) p d)) = true ->
    (forall j, (j <= d)%nat -> matches hh name (at_ fm (walk (fm_n fm) p j)) = true ->
               e_id (at_ fm (walk (fm_n fm) p j)) = id) ->
    probe fm fuel hh name p = Some id.
  Proof.
    intros fm hh name id d. induction d as [|d IH]; intros fuel p Hf Hne Hd Hm Hu;
      (destruct fuel as [|f]; [lia|]); simpl probe.
    - simpl in Hd, Hm. apply N.eqb_neq in Hd. rewrite Hd. unfold matches in Hm. rewrite Hm.
      f_equal. apply (Hu 0%nat); [lia|exact Hm].
    - pose proof (Hne 0%nat ltac:(lia)) as H0. simpl in H0. apply N.eqb_neq in H0. rewrite H0.
      destruct ((e_hash (at_ fm p) =? hh) && bytes_eqb (e_name (at_ fm p)) name) eqn:M.
      + f_equal. apply (Hu 0%nat); [lia|exact M].
      + apply IH; try lia.
        * intros j Hj. apply (Hne (S j)). lia.
        * exact Hd.
        * exact Hm.
        * intros j Hj. apply (Hu (S j)). lia.
  Qed.

  Lemma probe_absent : forall fm hh name fuel p,
    fm_n fm <> 0 -> p < fm_n fm ->
    (forall q, q < fm_n fm -> e_hash (at_ fm q) <> 0 -> matches hh name (at_ fm q) = false) ->
    probe fm fuel hh name p = None.
  Proof.
    intros fm hh name fuel. induction fuel as [|f IH]; intros p Hn Hp H; simpl; [reflexivity|].
    destruct (e_hash (at_ fm p) =? 0) eqn:E; [reflexivity|].
    apply N.eqb_neq in E. pose proof (H p Hp E) as M. unfold matches in M. rewrite M.
    apply IH; auto. unfold nextp. apply N.mod_lt. exact Hn.
  Qed.

  (* ---- the invariant of a table holding the (name, id) pairs of `done` ---- *)
  Record Inv (fm : fmap) (done : list (bytes * nat)) : Prop := {
    inv_len : length (fm_b fm) = N.to_nat (fm_n fm);
    inv_nz : fm_n fm <> 0;
    inv_slot : forall q, q < fm_n fm -> e_hash (at_ fm q) <> 0 ->
               exists nm id, In (nm, id) done /\ at_ fm q = mkEntry (strhash h nm) nm id;
    inv_chain : forall nm id, In (nm, id) done ->
               exists d, (d < N.to_nat (fm_n fm))%nat /\
                 at_ fm (walk (fm_n fm) (strhash h nm mod fm_n fm) d) = mkEntry (strhash h nm) nm id /\
                 forall j, (j < d)%nat -> e_hash (at_ fm (walk (fm_n fm) (strhash h nm mod fm_n fm) j)) <> 0;
    inv_count : count_ne (fm_b fm) = length done;
    inv_nodup : NoDup (map fst done)
  }.

  Lemma at_set : forall n b m q q' e, q < n -> length b = N.to_nat n ->
    at_ (mkFmap n (set_nth b (N.to_nat q) e) m) q' = if q' =? q then e else at_ (mkFmap n b m) q'.
  Proof.
    intros n b m q q' e Hq Hl. unfold at_. simpl.
    destruct (q' =? q) eqn:E.
    - apply N.eqb_eq in E. subst. apply nth_set_nth_eq. lia.
    - apply N.eqb_neq in E. apply nth_set_nth_neq. intro K. apply E. apply N2Nat.inj. congruence.
  Qed.

  Lemma inv_set : forall fm done nm id,
    Inv fm done -> ~ In nm (map fst done) -> (length done < N.to_nat (fm_n fm))%nat ->
    Inv (set h fm nm id) ((nm, id) :: done).
  Proof.
    intros fm done nm id I Hnew Hroom. destruct I as [Ilen Inz Islot Ichain Icount Inodup].
    destruct fm as [n b m]. simpl in *.
    assert (Hp : strhash h nm mod n < n) by (apply N.mod_lt; exact Inz).
    unfold set. simpl fm_n. simpl fm_b. simpl fm_m.
    destruct (find_empty (mkFmap n b m) (length b) (strhash h nm mod n)) as [q|] eqn:F.
    - apply find_empty_some in F as [d [Hd [Hq [He Hj]]]]. simpl in Hq, He, Hj.
      assert (Hqn : q < n) by (rewrite Hq; apply walk_lt; assumption).
      set (e := mkEntry (strhash h nm) nm id).
      set (m' := match assoc_get m (to_lower nm) with
                 | Some v => if (id <? v)%nat then assoc_set m (to_lower nm) id else m
                 | None => assoc_set m (to_lower nm) id end).
      assert (AT : forall q', at_ (mkFmap n (set_nth b (N.to_nat q) e) m') q' =
                              if q' =? q then e else at_ (mkFmap n b m) q').
      { intro q'. rewrite (at_set n b m' q q' e Hqn Ilen). unfold at_. reflexivity. }
      constructor; simpl fm_n; simpl fm_b.
      + rewrite set_nth_length. exact Ilen.
      + exact Inz.
      + intros q' Hq' Hne. rewrite AT in Hne |- *. destruct (q' =? q) eqn:E.
        * exists nm, id. split; [left; reflexivity|reflexivity].
        * destruct (Islot q' Hq' Hne) as [nm' [id' [Hin Hat]]]. exists nm', id'. split; [right; exact Hin|exact Hat].
      + intros nm' id' [Heq|Hin].
        * inversion Heq; subst nm' id'. exists d. split; [lia|]. split.
          -- rewrite AT. rewrite <- Hq. rewrite N.eqb_refl. reflexivity.
          -- intros j Hjd. rewrite AT. destruct (walk n (strhash h nm mod n) j =? q) eqn:E.
             ++ unfold e. simpl. apply strhash_nz.
             ++ apply Hj. exact Hjd.
        * destruct (Ichain nm' id' Hin) as [d' [Hd' [Hat Hch]]]. exists d'. split; [exact Hd'|]. split.
          -- rewrite AT. destruct (walk n (strhash h nm' mod n) d' =? q) eqn:E.
             ++ apply N.eqb_eq in E. rewrite E in Hat. rewrite Hat in He. simpl in He.
                exfalso. exact (strhash_nz nm' He).
             ++ exact Hat.
          -- intros j Hjd. rewrite AT. destruct (walk n (strhash h nm' mod n) j =? q) eqn:E.
             ++ unfold e. simpl. apply strhash_nz.
             ++ apply Hch. exact Hjd.
      + simpl length. rewrite <- Icount. apply count_ne_set.
        * lia.
        * unfold nonempty. change (nth (N.to_nat q) b empty_entry) with (at_ (mkFmap n b m) q). rewrite He. reflexivity.
        * unfold nonempty, e. simpl. apply negb_true_iff. apply N.eqb_neq. apply strhash_nz.
      + simpl. constructor; assumption.
    - (* no empty slot within N steps: impossible, fewer than N slots are occupied *)
      exfalso.
      pose proof (find_empty_none _ _ _ F) as Hall. simpl in Hall.
      assert (Hfull : count_ne b = length b).
      { apply count_ne_full. intros i Hi.
        destruct (walk_onto n (strhash h nm mod n) (N.of_nat i) Inz Hp ltac:(lia)) as [d [Hd Hw]].
        specialize (Hall d ltac:(lia)). rewrite Hw in Hall. unfold at_ in Hall. simpl in Hall.
        rewrite Nat2N.id in Hall. unfold nonempty. apply negb_true_iff. apply N.eqb_neq. exact Hall. }
      lia.
  Qed.

  Lemma inv_create : forall n, (0 < n)%nat -> Inv (create n) [].
  Proof.
    intros n Hn. unfold create. constructor; simpl.
    - rewrite repeat_length. lia.
    - lia.
    - intros q Hq Hne. exfalso. apply Hne. unfold at_. simpl.
      assert (forall k i, e_hash (nth i (repeat empty_entry k) empty_entry) = 0) as R.
      { induction k; intros [|i]; simpl; auto. }
      apply R.
    - intros nm id [].
    - apply count_ne_repeat.
    - constructor.
  Qed.

  Lemma set_n : forall fm nm id, fm_n (set h fm nm id) = fm_n fm.
  Proof. intros. reflexivity. Qed.

  Fixpoint pairs (names : list bytes) (i : nat) : list (bytes * nat) :=
    match names with [] => [] | n :: r => (n, i) :: pairs r (S i) end.

  Lemma pairs_fst : forall names i, map fst (pairs names i) = names.
  Proof. induction names; intros; simpl; f_equal; auto. Qed.

  Lemma pairs_length : forall names i, length (pairs names i) = length names.
  Proof. induction names; intros; simpl; f_equal; auto. Qed.

  Lemma inv_build_from : forall rest fm done i,
    Inv fm done ->
    NoDup (map fst done ++ rest) ->
    (length done + length rest < N.to_nat (fm_n fm))%nat ->
    exists done', Inv (build_from h fm rest i) done' /\
                  fm_n (build_from h fm rest i) = fm_n fm /\
                  (forall p, In p done' <-> In p done \/ In p (pairs rest i)).
  Proof.
    induction rest as [|nm rest IH]; intros fm done i I Hnd Hroom; simpl.
    - exists done. split; [exact I|]. split; [reflexivity|]. intro p. tauto.
    - assert (Hnew : ~ In nm (map fst done)).
      { intro K. apply NoDup_remove_2 in Hnd. apply Hnd. apply in_or_app. left. exact K. }
      assert (I' : Inv (set h fm nm i) ((nm, i) :: done)).
      { apply inv_set; auto. simpl in Hroom. lia. }
      destruct (IH (set h fm nm i) ((nm, i) :: done) (S i) I') as [done' [Id [Hn Hin]]].
      + simpl. apply NoDup_cons.
        * apply NoDup_remove_2 in Hnd. intro K. apply Hnd. apply in_app_or in K. apply in_or_app. tauto.
        * apply NoDup_remove_1 in Hnd. exact Hnd.
      + rewrite set_n. simpl in *. lia.
      + exists done'. split; [exact Id|]. split; [rewrite Hn; apply set_n|].
        intro p. rewrite Hin. simpl. tauto.
  Qed.

  Lemma find_idx_none : forall p names i, find_idx p names i = None <-> forall n, In n names -> p n = false.
  Proof.
    intros p names. induction names as [|x r IH]; intro i; simpl.
    - split; [intros _ n []|reflexivity].
    - destruct (p x) eqn:E.
      + split; [discriminate|]. intro H. rewrite (H x) in E by (left; reflexivity). discriminate.
      + rewrite IH. split.
        * intros H n [K|K]; [subst; exact E|apply H; exact K].
        * intros H n K. apply H. right. exact K.
  Qed.

  Lemma find_idx_pairs : forall name names i k, NoDup names ->
    find_idx (fun n => bytes_eqb n name) names i = Some k <-> In (name, k) (pairs names i).
  Proof.
    intros name names. induction names as [|x r IH]; intros i k Hnd; simpl.
    - split; [discriminate|intros []].
    - inversion Hnd as [|? ? Hx Hr]; subst. destruct (bytes_eqb x name) eqn:E.
      + apply bytes_eqb_eq in E. subst x. split.
        * intro H. inversion H; subst. left. reflexivity.
        * intros [H|H]; [inversion H; reflexivity|].
          exfalso. apply Hx. rewrite <- (pairs_fst r (S i)). apply (in_map fst) in H. exact H.
      + rewrite IH by exact Hr. split; [intro H; right; exact H|].
        intros [H|H]; [inversion H; subst; rewrite bytes_eqb_refl in E; discriminate|exact H].
  Qed.

  (* Get on the table built from pairwise-distinct names returns the index of the name, None (-1) if absent;
     the probe's fuel is never the reason for a None (it meets an empty slot or the name first). *)
  Theorem fieldmap_get_spec : forall names name, NoDup names ->
    get h (build h names) name = find_idx (fun n => bytes_eqb n name) names 0.
  Proof.
    intros names name Hnd. unfold build.
    destruct names as [|n0 r] eqn:EN.
    - reflexivity.
    - rewrite <- EN in *. assert (Hpos : (0 < length names)%nat) by (subst; simpl; lia).
      destruct (inv_build_from names (create (length names)) [] 0%nat (inv_create _ Hpos)) as [done [I [Hn Hin]]].
      + simpl. exact Hnd.
      + unfold create. simpl. lia.
      + set (fm := build_from h (create (length names)) names 0) in *.
        destruct I as [Ilen Inz Islot Ichain Icount Inodup].
        unfold get. apply N.eqb_neq in Inz. rewrite Inz. apply N.eqb_neq in Inz.
        destruct (find_idx (fun n => bytes_eqb n name) names 0) as [k|] eqn:F.
        * apply (find_idx_pairs name names 0%nat k Hnd) in F.
          assert (Hd : In (name, k) done) by (apply Hin; right; exact F).
          destruct (Ichain name k Hd) as [d [Hdl [Hat Hch]]].
          apply probe_first_match with (d := d).
          -- rewrite Ilen. lia.
          -- exact Hch.
          -- rewrite Hat. simpl. apply strhash_nz.
          -- rewrite Hat. unfold matches. simpl. rewrite N.eqb_refl, bytes_eqb_refl. reflexivity.
          -- intros j Hj M.
             assert (Hw : walk (fm_n fm) (strhash h name mod fm_n fm) j < fm_n fm).
             { apply walk_lt; [exact Inz|apply N.mod_lt; exact Inz]. }
             assert (Hne : e_hash (at_ fm (walk (fm_n fm) (strhash h name mod fm_n fm) j)) <> 0).
             { destruct (Nat.eq_dec j d) as [->|Hjd]; [rewrite Hat; simpl; apply strhash_nz|apply Hch; lia]. }
             destruct (Islot _ Hw Hne) as [nm' [id' [Hin' Hat']]].
             rewrite Hat' in M |- *. unfold matches in M. simpl in M. apply andb_prop in M as [_ M].
             apply bytes_eqb_eq in M. subst nm'. simpl.
             (* same name, NoDup on first components: same id *)
             clear -Inodup Hin' Hd.
             induction done as [|[a b] l IH]; [contradiction|].
             simpl in Inodup. inversion Inodup as [|? ? Hx Hr]; subst.
             destruct Hin' as [E1|H1]; destruct Hd as [E2|H2].
             ++ congruence.
             ++ inversion E1; subst. exfalso. apply Hx. apply (in_map fst) in H2. exact H2.
             ++ inversion E2; subst. exfalso. apply Hx. apply (in_map fst) in H1. exact H1.
             ++ apply IH; assumption.
        * apply probe_absent; [exact Inz|apply N.mod_lt; exact Inz|].
          intros q Hq Hne. destruct (Islot q Hq Hne) as [nm' [id' [Hin' Hat']]].
          rewrite Hat'. unfold matches. simpl.
          assert (Hnm : nm' <> name).
          { intro K. subst nm'. apply Hin in Hin'. destruct Hin' as [[]|Hp].
            apply (find_idx_pairs name names 0%nat id' Hnd) in Hp. congruence. }
          rewrite (bytes_eqb_neq _ _ Hnm). apply andb_false_r.
  Qed.
End WithHash.
