(* Dec/OptProofs.v - C11: the binder of the alternative decoder (Opt, OptFast) against the default one (Jit). *)
From Coq Require Import NArith ZArith List Bool Lia.
From SV.Dec Require Import Ty Val Parse ParseMono Text Num Common FieldMap FieldMapProofs FieldLookup Range StdBind SonicBind DecProofs Witness.
Import ListNotations.
Open Scope N_scope.

Arguments sunq : simpl never.

(* no hidden elements (between len and cap of a slice) anywhere in a value *)
Fixpoint nh (v : val) : bool :=
  match v with
  | VList vis hid => match hid with [] => forallb nh vis | _ => false end
  | VMap m => forallb (fun kv => nh (snd kv)) m
  | VPtr x => nh x
  | _ => true
  end.

Lemma forallb_repeat : forall A (p : A -> bool) x n, p x = true -> forallb p (repeat x n) = true.
Proof. intros A p x n H. induction n; simpl; [reflexivity|]. rewrite H. exact IHn. Qed.

Lemma nh_zero : (forall t, nh (zero t) = true) /\ (forall fs, forallb nh (zero_fields fs) = true).
Proof.
  assert (H : forall t, nh (zero t) = true).
  - apply (ty_mut (fun t => nh (zero t) = true) (fun fs => forallb nh (zero_fields fs) = true)); simpl; intros; auto.
    + apply forallb_repeat. assumption.
    + rewrite H, H0. reflexivity.
  - split; [exact H|]. induction fs; simpl; [reflexivity|]. rewrite H. exact IHfs.
Qed.

Section Equiv.
  Variable h : bytes -> N.
  Variable o : opts.

  (* the fragment of C01 without json.Number (optdec accepts any quoted text there) *)
  Fixpoint frag11 (t : ty) : bool :=
    match t with
    | TBool | TInt _ | TF64 | TStr | TAny => true
    | TPtr e | TSlice e | TArr _ e => frag11 e
    | TStruct fs => frag11_fields fs && nodupb (fnames fs)
    | _ => false
    end
  with frag11_fields (fs : fields) : bool :=
    match fs with
    | FNil => true
    | FCons n q t r => negb q && is_ascii n && frag11 t && frag11_fields r
    end.

  (* decoded and lower-cased key of an object member, as the field lookup sees it *)
  Definition lkey (kv : bytes * jv) : option bytes := option_map to_lower (sunq Jit o (fst kv)).

  (* every object has pairwise distinct keys (after decoding and lower-casing) *)
  Fixpoint once (j : jv) : Prop :=
    match j with
    | JArr _ l => (fix all (l : list jv) : Prop := match l with [] => True | x :: r => once x /\ all r end) l
    | JObj _ l => NoDup (map lkey l) /\
                  (fix all (l : list (bytes * jv)) : Prop := match l with [] => True | x :: r => once (snd x) /\ all r end) l
    | _ => True
    end.

  Record guards11 (j : jv) : Prop := {
    h_str : Forall (fun b => sunq Opt o b = sunq Jit o b /\ sunq OptFast o b = sunq Jit o b) (jv_strings j);
    h_once : once j
  }.

  Lemma sunq_opt : forall im b, is_opt im = true ->
    (sunq Opt o b = sunq Jit o b /\ sunq OptFast o b = sunq Jit o b) -> sunq im o b = sunq Jit o b.
  Proof. intros im b H [H1 H2]. destruct im; [discriminate|exact H1|exact H2]. Qed.

  Lemma g11_arr : forall raw l, guards11 (JArr raw l) -> Forall guards11 l.
  Proof.
    intros raw l [G1 G2]. simpl in *. induction l as [|x r IH]; constructor.
    - simpl in G1. apply Forall_app in G1 as [? ?]. destruct G2 as [? ?]. constructor; assumption.
    - simpl in G1. apply Forall_app in G1 as [? ?]. destruct G2 as [? ?]. apply IH; assumption.
  Qed.

  Lemma g11_obj : forall raw l, guards11 (JObj raw l) ->
    NoDup (map lkey l) /\
    Forall (fun kv => (sunq Opt o (fst kv) = sunq Jit o (fst kv) /\ sunq OptFast o (fst kv) = sunq Jit o (fst kv)) /\ guards11 (snd kv)) l.
  Proof.
    intros raw l [G1 [G2 G3]]. split; [exact G2|]. clear G2. simpl in G1. induction l as [|[k x] r IH]; constructor.
    - simpl in *. inversion G1 as [|? ? Hk G1']; subst. apply Forall_app in G1' as [? ?]. destruct G3 as [? ?].
      split; [exact Hk|]. constructor; assumption.
    - simpl in *. inversion G1 as [|? ? Hk G1']; subst. apply Forall_app in G1' as [? ?]. destruct G3 as [? ?].
      apply IH; assumption.
  Qed.

  (* ---- interface{}: OptFast leaves the model only on duplicate keys ---- *)
  Lemma map_get_none : forall m k, (forall k' v', In (k', v') m -> key_eqb k' k = false) -> map_get m k = None.
  Proof.
    induction m as [|[a b] m IH]; intros k H; simpl; [reflexivity|].
    rewrite (H a b) by (left; reflexivity). apply IH. intros k' v' Hin. apply (H k' v'). right. exact Hin.
  Qed.

  Lemma map_set_in : forall m k v k' v', In (k', v') (map_set m k v) -> In (k', v') m \/ k' = k \/ (exists w, In (k', w) m).
  Proof.
    induction m as [|[a b] m IH]; intros k v k' v' H; simpl in H.
    - destruct H as [H|[]]. inversion H; subst. right. left. reflexivity.
    - destruct (key_eqb a k) eqn:E.
      + destruct H as [H|H].
        * inversion H; subst. right. right. exists b. left. reflexivity.
        * left. right. exact H.
      + destruct H as [H|H].
        * left. left. exact H.
        * destruct (IH _ _ _ _ H) as [K|[K|[w K]]]; [left; right; exact K|right; left; exact K|right; right; exists w; right; exact K].
  Qed.

  Lemma any_equiv : forall im j, is_opt im = true -> guards11 j -> sonic_any im o j = sonic_any Jit o j.
  Proof.
    intros im j Him. induction j as [| | |t|b|raw l IH|raw l IH] using jv_ind2; intro G; simpl sonic_any; try reflexivity.
    - destruct G as [G1 _]. simpl in G1. inversion G1 as [|? ? Hs _]; subst. rewrite (sunq_opt im b Him Hs). reflexivity.
    - pose proof (g11_arr _ _ G) as GA.
      assert (E : (fix go (l0 : list jv) : res (list val) :=
                     match l0 with [] => Ok [] | x :: r => do v <- sonic_any im o x; do vs <- go r; Ok (v :: vs) end) l =
                  (fix go (l0 : list jv) : res (list val) :=
                     match l0 with [] => Ok [] | x :: r => do v <- sonic_any Jit o x; do vs <- go r; Ok (v :: vs) end) l).
      { clear G. induction l as [|x r IHl]; [reflexivity|].
        inversion IH; subst. inversion GA as [|? ? Gx GA']; subst.
        rewrite H1 by assumption. rewrite IHl by assumption. reflexivity. }
      rewrite E. reflexivity.
    - destruct (g11_obj _ _ G) as [ND GO].
      (* keys already in acc are decoded keys of earlier members; the keys still to come are different *)
      assert (E : forall acc,
                  (forall k' v', In (k', v') acc -> forall kv, In kv l -> forall ks, sunq Jit o (fst kv) = Some ks -> key_eqb k' (VStr ks) = false) ->
                  (fix go (l0 : list (bytes * jv)) (acc : list (val * val)) : res (list (val * val)) :=
                     match l0 with
                     | [] => Ok acc
                     | (k, x) :: r =>
                       match sunq im o k with
                       | None => Err
                       | Some ks => do v <- sonic_any im o x;
                                    match im, map_get acc (VStr ks) with
                                    | OptFast, Some _ => Unk
                                    | _, _ => go r (map_set acc (VStr ks) v)
                                    end
                       end
                     end) l acc =
                  (fix go (l0 : list (bytes * jv)) (acc : list (val * val)) : res (list (val * val)) :=
                     match l0 with
                     | [] => Ok acc
                     | (k, x) :: r =>
                       match sunq Jit o k with
                       | None => Err
                       | Some ks => do v <- sonic_any Jit o x;
                                    match Jit, map_get acc (VStr ks) with
                                    | OptFast, Some _ => Unk
                                    | _, _ => go r (map_set acc (VStr ks) v)
                                    end
                       end
                     end) l acc).
      { clear G. induction l as [|[k x] r IHl]; intros acc Hacc; [reflexivity|].
        inversion IH; subst. inversion GO as [|? ? [Hk Gx] GO']; subst. simpl in Hk.
        inversion ND as [|? ? Hnew ND']; subst. simpl in H1, Gx.
        rewrite (sunq_opt im k Him Hk). destruct (sunq Jit o k) as [ks|] eqn:U; [|reflexivity].
        rewrite H1 by assumption. destruct (sonic_any Jit o x) as [v| |]; simpl; try reflexivity.
        assert (Hget : map_get acc (VStr ks) = None).
        { apply map_get_none. intros k' v' Hin. apply (Hacc k' v' Hin (k, x)); [left; reflexivity|exact U]. }
        rewrite Hget.
        assert (Hrec : (fix go (l0 : list (bytes * jv)) (acc0 : list (val * val)) : res (list (val * val)) :=
                     match l0 with
                     | [] => Ok acc0
                     | (k0, x0) :: r0 =>
                       match sunq im o k0 with
                       | None => Err
                       | Some ks0 => do v0 <- sonic_any im o x0;
                                    match im, map_get acc0 (VStr ks0) with
                                    | OptFast, Some _ => Unk
                                    | _, _ => go r0 (map_set acc0 (VStr ks0) v0)
                                    end
                       end
                     end) r (map_set acc (VStr ks) v) = _) by (apply IHl; try assumption;
          intros k' v' Hin kv Hkv ks2 U2;
          destruct (map_set_in _ _ _ _ _ Hin) as [K|[K|[w K]]];
          [apply (Hacc k' v' K kv (or_intror Hkv) ks2 U2)
          | subst k'; simpl; destruct (bytes_eqb ks ks2) eqn:EB; [|reflexivity];
            apply bytes_eqb_eq in EB; subst ks2; exfalso; apply Hnew;
            apply in_map_iff; exists kv; split; [unfold lkey; simpl; rewrite U2, U; reflexivity|exact Hkv]
          | apply (Hacc k' w K kv (or_intror Hkv) ks2 U2)]).
        destruct im; try discriminate; exact Hrec. }
      rewrite E; [reflexivity|]. intros k' v' [].
  Qed.

  (* ---- lists ---- *)
  Lemma bind_elems_nh : forall (f g : jv -> val -> res val) z l old,
    nh z = true -> forallb nh old = true ->
    Forall (fun x => forall v, nh v = true -> f x v = g x v) l ->
    bind_elems f z l old = bind_elems g z l old.
  Proof.
    intros f g z l. induction l as [|x r IH]; intros old Hz Hold H; simpl; [reflexivity|].
    inversion H as [|? ? Hx Hr]; subst.
    assert (Hcur : nh (match old with x0 :: _ => x0 | [] => z end) = true).
    { destruct old; [exact Hz|]. simpl in Hold. apply andb_prop in Hold as [? ?]. assumption. }
    assert (Htl : forallb nh (tl old) = true).
    { destruct old; [reflexivity|]. simpl in Hold. apply andb_prop in Hold as [? ?]. assumption. }
    rewrite (Hx _ Hcur). destruct (g x _); simpl; try reflexivity.
    rewrite (IH (tl old) Hz Htl Hr). reflexivity.
  Qed.

  Lemma nh_nth : forall l i, forallb nh l = true -> nh (nth i l VNil) = true.
  Proof.
    induction l as [|x r IH]; intros [|i] H; simpl; try reflexivity; simpl in H; apply andb_prop in H as [? ?]; auto.
  Qed.

  Lemma forallb_firstn : forall A (p : A -> bool) n l, forallb p l = true -> forallb p (firstn n l) = true.
  Proof.
    intros A p n. induction n; intros l H; simpl; [reflexivity|]. destruct l; [reflexivity|].
    simpl in *. apply andb_prop in H as [? ?]. rewrite H. simpl. auto.
  Qed.

  (* ---- field lookup facts ---- *)
  Lemma find_idx_some : forall (p : bytes -> bool) names k i, find_idx p names k = Some i ->
    exists n, nth_error names (i - k) = Some n /\ p n = true /\ (k <= i)%nat.
  Proof.
    intros p names. induction names as [|x r IH]; intros k i H; simpl in H; [discriminate|].
    destruct (p x) eqn:E.
    - inversion H; subst. exists x. rewrite Nat.sub_diag. simpl. auto.
    - apply IH in H as [n [Hn [Hp Hle]]]. exists n. replace (i - k)%nat with (S (i - S k)) by lia. simpl. split; [exact Hn|]. split; [exact Hp|lia].
  Qed.

  Lemma lookup_lower : forall names ks i, NoDup names -> sonic_lookup h names ks = Some i ->
    exists n, nth_error names i = Some n /\ to_lower n = to_lower ks.
  Proof.
    intros names ks i ND H. rewrite sonic_lookup_spec in H by exact ND.
    destruct (find_idx (fun n => bytes_eqb n ks) names 0) as [i0|] eqn:E.
    - inversion H; subst i0. apply find_idx_some in E as [n [Hn [Hp _]]]. rewrite Nat.sub_0_r in Hn.
      exists n. split; [exact Hn|]. apply bytes_eqb_eq in Hp. subst. reflexivity.
    - apply find_idx_some in H as [n [Hn [Hp _]]]. rewrite Nat.sub_0_r in Hn.
      exists n. split; [exact Hn|]. apply bytes_eqb_eq in Hp. exact Hp.
  Qed.

  Lemma field_other : forall im fs i x vs vs', sonic_field h im o fs i x vs = Ok vs' ->
    forall k, k <> i -> nth k vs' VNil = nth k vs VNil.
  Proof.
    intros im fs. induction fs as [|n q t r IH]; intros i x vs vs' H k Hk; simpl in H; [discriminate|].
    destruct vs as [|v vr]; [discriminate|]. destruct i as [|i].
    - destruct (if q && quotable t then sonic_quoted im o t x v else sonic_bind h im o t x v); simpl in H; try discriminate.
      inversion H; subst. destruct k; [congruence|reflexivity].
    - destruct (sonic_field h im o r i x vr) eqn:E; simpl in H; try discriminate. inversion H; subst.
      destruct k; [reflexivity|]. simpl. apply (IH _ _ _ _ E). congruence.
  Qed.

  Definition Qty (t : ty) : Prop :=
    frag11 t = true -> forall im j v, is_opt im = true -> guards11 j -> nh v = true ->
    sonic_bind h im o t j v = sonic_bind h Jit o t j v.
  Definition Qfs (fs : fields) : Prop :=
    frag11_fields fs = true -> forall im i j vs, is_opt im = true -> guards11 j -> nh (nth i vs VNil) = true ->
    sonic_field h im o fs i j vs = sonic_field h Jit o fs i j vs.

  Lemma elems_equiv : forall e im l, Qty e -> frag11 e = true -> is_opt im = true ->
    Forall guards11 l ->
    Forall (fun x => forall v, nh v = true -> sonic_bind h im o e x v = sonic_bind h Jit o e x v) l.
  Proof.
    intros e im l IH F Him G. induction l as [|x r IHl]; constructor.
    - inversion G as [|? ? Gx _]; subst. intros v Hv. apply IH; assumption.
    - inversion G; subst. apply IHl; assumption.
  Qed.

  Theorem equiv_all : (forall t, Qty t) /\ (forall fs, Qfs fs).
  Proof.
    Ltac step := cbn [sonic_bind sonic_field is_opt negb andb fnames].
    assert (H : forall t, Qty t); [|split; [exact H|]].
    - apply (ty_mut Qty Qfs); unfold Qty, Qfs.
      + (* TBool *) intros _ im j v _ _ _. destruct j; reflexivity.
      + (* TInt *) intros k _ im j v _ _ _. reflexivity.
      + (* TF32 *) intros F. discriminate.
      + (* TF64 *) intros _ im j v _ _ _. destruct j; reflexivity.
      + (* TStr *) intros _ im j v Him G _. destruct j; try reflexivity. step.
        destruct G as [G1 _]. simpl in G1. inversion G1 as [|? ? Hs _]; subst. rewrite (sunq_opt im body Him Hs). reflexivity.
      + (* TNum *) intros F. discriminate.
      + (* TBytes *) intros F. discriminate.
      + (* TSlice *) intros e IH F im j v Him G Hv. simpl in F. destruct j; try reflexivity. step.
        destruct l as [|x r]; [reflexivity|].
        pose proof (g11_arr _ _ G) as GA.
        rewrite Him.
        (* no hidden elements: the old array and its visible part coincide *)
        assert (Hold : (if Nat.leb (length (x :: r)) (length (match v with VList vis hid => vis ++ hid | _ => [] end))
                        then match v with VList vis hid => vis ++ hid | _ => [] end
                        else match v with VList vis _ => vis | _ => [] end) =
                       match v with VList vis hid => vis ++ hid | _ => [] end).
        { destruct v; try (destruct (Nat.leb _ _); reflexivity). simpl in Hv. destruct hid; [|discriminate].
          rewrite app_nil_r. destruct (Nat.leb _ _); reflexivity. }
        rewrite Hold.
        assert (Hnh : forallb nh (match v with VList vis hid => vis ++ hid | _ => [] end) = true).
        { destruct v; try reflexivity. simpl in Hv. destruct hid; [|discriminate]. rewrite app_nil_r. exact Hv. }
        rewrite (bind_elems_nh (sonic_bind h im o e) (sonic_bind h Jit o e)); [reflexivity|apply (proj1 nh_zero)|exact Hnh|].
        apply elems_equiv; auto.
      + (* TArr *) intros n e IH F im j v Him G Hv. simpl in F. destruct j; try reflexivity. step.
        pose proof (g11_arr _ _ G) as GA.
        assert (Hnh : forallb nh (match v with VList vis _ => vis | _ => [] end) = true).
        { destruct v; try reflexivity. simpl in Hv. destruct hid; [exact Hv|discriminate]. }
        rewrite (bind_elems_nh (sonic_bind h im o e) (sonic_bind h Jit o e)); [reflexivity|apply (proj1 nh_zero)|exact Hnh|].
        apply elems_equiv; auto. clear -GA. revert l GA. induction n; intros l GA; simpl; [constructor|].
        destruct l; [constructor|]. inversion GA; subst. constructor; auto.
      + (* TMap *) intros k e _ F. discriminate.
      + (* TPtr *) intros e IH F im j v Him G Hv. simpl in F. step.
        assert (Hx : nh (match v with VPtr x => x | _ => zero e end) = true).
        { destruct v; try apply (proj1 nh_zero). exact Hv. }
        destruct j; try reflexivity; rewrite (IH F im _ _ Him G Hx); reflexivity.
      + (* TStruct *) intros fs IH F im j v Him G Hv. simpl in F. apply andb_prop in F as [Ff Fn].
        destruct j; try reflexivity. cbn [sonic_bind is_opt negb andb].
        destruct (is_fnil fs); [reflexivity|].
        destruct (g11_obj _ _ G) as [ND GO]. pose proof (nodupb_NoDup _ Fn) as NDn.
        set (vs0 := match v with VList vs _ => vs | _ => zero_fields fs end).
        assert (Hvs0 : forallb nh vs0 = true).
        { unfold vs0. destruct v; try apply (proj2 nh_zero). simpl in Hv. destruct hid; [exact Hv|discriminate]. }
        assert (E : forall vs,
          (forall kv, In kv l -> forall ks i, sunq Jit o (fst kv) = Some ks -> sonic_lookup h (fnames fs) ks = Some i -> nh (nth i vs VNil) = true) ->
          (fix go (l0 : list (bytes * jv)) (vs1 : list val) : res (list val) :=
             match l0 with
             | [] => Ok vs1
             | (kb, x) :: r0 =>
               match sunq im o kb with
               | None => Err
               | Some ks => match sonic_lookup h (fnames fs) ks with
                            | None => if o_disallow_unknown o then Err else go r0 vs1
                            | Some i => do vs' <- sonic_field h im o fs i x vs1; go r0 vs'
                            end
               end
             end) l vs =
          (fix go (l0 : list (bytes * jv)) (vs1 : list val) : res (list val) :=
             match l0 with
             | [] => Ok vs1
             | (kb, x) :: r0 =>
               match sunq Jit o kb with
               | None => Err
               | Some ks => match sonic_lookup h (fnames fs) ks with
                            | None => if o_disallow_unknown o then Err else go r0 vs1
                            | Some i => do vs' <- sonic_field h Jit o fs i x vs1; go r0 vs'
                            end
               end
             end) l vs).
        { clear G Hvs0 vs0 Hv. induction l as [|[kb x] r0 IHl]; intros vs Hhit; [reflexivity|].
          inversion GO as [|? ? [Hk Gx] GO']; subst. inversion ND as [|? ? Hnew ND']; subst. simpl in Hk, Gx.
          rewrite (sunq_opt im kb Him Hk). destruct (sunq Jit o kb) as [ks|] eqn:U; [|reflexivity].
          destruct (sonic_lookup h (fnames fs) ks) as [i|] eqn:L.
          - assert (Hi : nh (nth i vs VNil) = true) by (apply (Hhit (kb, x) (or_introl eq_refl) ks i U L)).
            rewrite (IH Ff im i x vs Him Gx Hi).
            destruct (sonic_field h Jit o fs i x vs) as [vs'| |] eqn:SF; simpl; try reflexivity.
            apply IHl; try assumption.
            intros kv Hkv ks2 i2 U2 L2.
            destruct (Nat.eq_dec i2 i) as [->|Hne].
            + (* the same field twice: the two keys have the same lower-cased form *)
              exfalso. destruct (lookup_lower _ _ _ NDn L) as [n1 [Hn1 Hl1]]. destruct (lookup_lower _ _ _ NDn L2) as [n2 [Hn2 Hl2]].
              rewrite Hn1 in Hn2. inversion Hn2; subst n2. apply Hnew. apply in_map_iff. exists kv. split; [|exact Hkv].
              unfold lkey. simpl. rewrite U, U2. simpl. congruence.
            + rewrite (field_other _ _ _ _ _ _ SF i2 Hne). apply (Hhit kv (or_intror Hkv) ks2 i2 U2 L2).
          - destruct (o_disallow_unknown o); [reflexivity|]. apply IHl; try assumption.
            intros kv Hkv. apply (Hhit kv (or_intror Hkv)). }
        assert (E0 : forall kv : bytes * jv, In kv l -> forall ks i, sunq Jit o (fst kv) = Some ks ->
                     sonic_lookup h (fnames fs) ks = Some i -> nh (nth i vs0 VNil) = true).
        { intros kv _ ks i _ _. apply nh_nth. exact Hvs0. }
        specialize (E vs0 E0). clear E0.
        match type of E with ?A = ?B => change ((do vs <- A; Ok (VList vs [])) = (do vs <- B; Ok (VList vs []))) end.
        rewrite E. reflexivity.
      + (* TAny *) intros _ im j v Him G _. step. destruct j; try reflexivity; apply any_equiv; assumption.
      + (* TRaw *) intros F. discriminate.
      + (* TUnm *) intros F. discriminate.
      + (* TText *) intros F. discriminate.
      + (* FNil *) intros _ im i j vs _ _ _. reflexivity.
      + (* FCons *) intros n q t IHt r IHr F im i j vs Him G Hi. simpl in F.
        apply andb_prop in F as [F Fr]. apply andb_prop in F as [F Ft]. apply andb_prop in F as [Fq Fn].
        apply negb_true_iff in Fq. subst q.
        destruct vs as [|v vr]; [reflexivity|]. destruct i as [|i]; simpl.
        * simpl in Hi. rewrite (IHt Ft im j v Him G Hi). reflexivity.
        * simpl in Hi. rewrite (IHr Fr im i j vr Him G Hi). reflexivity.
    - intro fs. induction fs as [|n q t r IHr]; unfold Qfs in *.
      + intros _ im i j vs _ _ _. reflexivity.
      + intros F im i j vs Him G Hi. simpl in F.
        apply andb_prop in F as [F Fr]. apply andb_prop in F as [F Ft]. apply andb_prop in F as [Fq Fn].
        apply negb_true_iff in Fq. subst q.
        destruct vs as [|v vr]; [reflexivity|]. destruct i as [|i]; simpl.
        * simpl in Hi. rewrite (H t Ft im j v Him G Hi). reflexivity.
        * simpl in Hi. rewrite (IHr Fr im i j vr Him G Hi). reflexivity.
  Qed.
End Equiv.

(* ---- whole input ---- *)
Section Top.
  Variable h : bytes -> N.
  Variable o : opts.

  (* a valid document in the sense of the property: accepted by the strict reader, no number beyond binary64, plus
     the conditions under which the statement is proved (strings on which the unquoters coincide, distinct keys,
     no null array element) *)
  Record doc_ok (j : jv) : Prop := {
    d_strict : strict_jv j = true;
    d_esc : escapes_ok j = true;
    d_ctl : has_ctl j = false;
    d_inf : has_inf j = false;
    d_g : guards11 o j
  }.

  (* valid documents: the three implementations return the same result *)
  Theorem equiv_top : forall im t s v j,
    is_opt im = true -> frag11 t = true -> nh v = true ->
    utf8_valid s = true -> lparse true s = Some j -> doc_ok j ->
    sonic_unmarshal h im o t s v = sonic_unmarshal h Jit o t s v.
  Proof.
    intros im t s v j Him F Hv U L [D1 D2 D3 D4 D5]. unfold sonic_unmarshal. rewrite Him. cbn [is_opt].
    assert (E : (if o_validate o then (if utf8_valid s then s else utf8_correct s) else s) = s)
      by (rewrite U; destruct (o_validate o); reflexivity).
    rewrite E. rewrite (lparse_mono _ _ L). rewrite D2, D4, D3, U. cbn [negb orb andb].
    assert (Lv : lparse (o_validate o) s = Some j) by (destruct (o_validate o); [exact L|apply lparse_mono; exact L]).
    rewrite Lv, D1. rewrite andb_false_r.
    apply (proj1 (equiv_all h o)); assumption.
  Qed.

  (* structurally malformed input: rejected by all three *)
  Theorem malformed_rejected : forall im t s v,
    let s' := if o_validate o then (if utf8_valid s then s else utf8_correct s) else s in
    lparse false s' = None -> sonic_unmarshal h im o t s v = Err.
  Proof.
    intros im t s v s' L. unfold sonic_unmarshal. fold s'.
    destruct (is_opt im); [rewrite L; reflexivity|].
    assert (Lv : lparse (o_validate o) s' = None) by (destruct (o_validate o); [apply lparse_none_mono; exact L|exact L]).
    rewrite Lv. reflexivity.
  Qed.
End Top.

(* ---- witnesses of the modelled divergences (each replayed on the real back ends from corpus/C01) ---- *)
From Coq Require Import String Ascii.
Open Scope string_scope.

(* a number beyond binary64 bound to json.Number (or skipped): the DOM reader of optdec fails *)
Theorem float_inf_refuted :
  let t := TStruct (fld "n" TNum FNil) in
  sonic_unmarshal h1 Jit opts_std t (b "{""n"":1e400}") (VList [VStr []] []) = Ok (VList [VStr (b "1e400")] []) /\
  sonic_unmarshal h1 Opt opts_std t (b "{""n"":1e400}") (VList [VStr []] []) = Err /\
  sonic_unmarshal h1 Jit opts_std (TStruct (fld "a" (TInt I64) FNil)) (b "{""zz"":1e400}") (VList [VInt 0] []) = Ok (VList [VInt 0] []) /\
  sonic_unmarshal h1 Opt opts_std (TStruct (fld "a" (TInt I64) FNil)) (b "{""zz"":1e400}") (VList [VInt 0] []) = Err.
Proof. repeat split; vm_compute; reflexivity. Qed.

(* repaired (ea591a6): a null element of []string, a null value of map[string]string *)
Theorem slice_and_map_null_agree :
  sonic_unmarshal h1 Jit opts_std (TSlice TStr) (b "[null]") VNil = Ok (VList [VStr []] []) /\
  sonic_unmarshal h1 Opt opts_std (TSlice TStr) (b "[null]") VNil = Ok (VList [VStr []] []) /\
  sonic_unmarshal h1 Jit opts_std (TMap KStr TStr) (b "{""k"":null}") VNil = Ok (VMap [(VStr (b "k"), VStr [])]) /\
  sonic_unmarshal h1 Opt opts_std (TMap KStr TStr) (b "{""k"":null}") VNil = Ok (VMap [(VStr (b "k"), VStr [])]).
Proof. repeat split; vm_compute; reflexivity. Qed.

(* a slice with hidden elements and an input longer than its capacity *)
Theorem slice_grow_refuted :
  let t := TSlice (TStruct (fld "A" (TInt I64) (fld "B" (TInt I64) FNil))) in
  let v := VList [] [VList [VInt 7; VInt 8] []] in
  let s := b "[{""A"":1},{""A"":2}]" in
  sonic_unmarshal h1 Jit opts_std t s v = Ok (VList [VList [VInt 1; VInt 8] []; VList [VInt 2; VInt 0] []] []) /\
  sonic_unmarshal h1 Opt opts_std t s v = Ok (VList [VList [VInt 1; VInt 0] []; VList [VInt 2; VInt 0] []] []).
Proof. split; vm_compute; reflexivity. Qed.

(* repaired divergences (afd5482, 39e707a): the uint32 key and the float32 edge now agree *)
Theorem u32_key_and_f32_edge_agree :
  sonic_unmarshal h1 Jit opts_std (TMap (KInt U32) (TInt I64)) (b "{""4294967296"":1}") VNil = Err /\
  sonic_unmarshal h1 Opt opts_std (TMap (KInt U32) (TInt I64)) (b "{""4294967296"":1}") VNil = Err /\
  sonic_unmarshal h1 Jit opts_std TF32 (b "3.4028235e38") (VFlt 0) = Ok (VFlt 2139095039) /\
  sonic_unmarshal h1 Opt opts_std TF32 (b "3.4028235e38") (VFlt 0) = Ok (VFlt 2139095039).
Proof. repeat split; vm_compute; reflexivity. Qed.

(* repaired (fac5479): null into a pointer to pointer to an unmarshaler is nil under all three *)
Theorem ptrptr_null_agree_11 :
  sonic_unmarshal h1 Jit opts_std (TPtr (TPtr TUnm)) (b "null") VNil = Ok VNil /\
  sonic_unmarshal h1 Opt opts_std (TPtr (TPtr TUnm)) (b "null") VNil = Ok VNil.
Proof. split; vm_compute; reflexivity. Qed.

(* ---- the hypotheses of equiv_top are satisfiable: the C01 example document without its duplicate keys ---- *)
Definition ex11_in : bytes :=
  b "{""a"":7,""B"":[""p"",""q""],""c"":{""k"":2,""m"":[3,true]},""zz"":[1,{""q"":""x""}],""NAME"":[7,8,9]} ".

Lemma Forall_plain11 : forall o l, forallb (forallb plain_byte) l = true ->
  Forall (fun x => sunq Opt o x = sunq Jit o x /\ sunq OptFast o x = sunq Jit o x) l.
Proof.
  intros o l H. rewrite forallb_forall in H. apply Forall_forall. intros x Hx. specialize (H x Hx).
  unfold sunq, unquote. rewrite !unquote_plain by (auto; lia). split; reflexivity.
Qed.

Example equiv_example : forall o, (o = opts_std \/ o = opts_default) ->
  exists j, lparse true ex11_in = Some j /\ doc_ok o j /\ frag11 ex_ty = true /\ nh ex_v0 = true /\ utf8_valid ex11_in = true /\
            sonic_unmarshal h1 Opt o ex_ty ex11_in ex_v0 = sonic_unmarshal h1 Jit o ex_ty ex11_in ex_v0 /\
            sonic_unmarshal h1 OptFast o ex_ty ex11_in ex_v0 = sonic_unmarshal h1 Jit o ex_ty ex11_in ex_v0 /\
            exists r, sonic_unmarshal h1 Jit o ex_ty ex11_in ex_v0 = Ok r.
Proof.
  intros o Ho.
  assert (E : exists j0, lparse true ex11_in = Some j0 /\ strict_jv j0 = true /\ escapes_ok j0 = true /\ has_ctl j0 = false /\ has_inf j0 = false /\
                        forallb (forallb plain_byte) (jv_strings j0) = true).
  { eexists. split; [vm_compute; reflexivity|]. repeat split; vm_compute; reflexivity. }
  destruct E as [j0 [P [E1 [E2 [E3 [E4 E5]]]]]]. exists j0. split; [exact P|]. split.
  - constructor; try assumption. constructor.
    + apply Forall_plain11. exact E5.
    + (* distinct keys, no null elements: by computation on the concrete tree *)
      assert (Hj : Some j0 = lparse true ex11_in) by (symmetry; exact P).
      vm_compute in Hj. inversion Hj; subst j0. clear - Ho.
      destruct Ho as [->| ->]; simpl; repeat split; try discriminate;
        repeat (constructor; [simpl; intuition discriminate|]); try constructor.
  - split; [vm_compute; reflexivity|]. split; [vm_compute; reflexivity|]. split; [vm_compute; reflexivity|].
    destruct Ho; subst o; repeat split; try (vm_compute; reflexivity); eexists; vm_compute; reflexivity.
Qed.
