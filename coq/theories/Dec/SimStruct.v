(* Dec/SimStruct.v - the simulation theorem for structs: the compiled program of a struct (Dec/CodeStruct.v: header with
   the two copies of the key loop, switch table, one block per field) against `sonic_bind Jit (TStruct fs)` for structs with
   at least one field whose fields are unquoted and of types of the simulation fragment `simf`. *)
From Coq Require Import NArith ZArith List Bool Lia Arith.
From SV.Dec Require Import Ty Val Parse Text Num Common FieldMap Range StdBind SonicBind Compile Exec ParseFuel Code Path SimBase DecProofs Sim ExecProofs SimTop CodeStruct.
Import ListNotations.
Open Scope N_scope.

Arguments scan_num : simpl never.
Arguments skip_ws : simpl never.
Arguments scan_str : simpl never.
Arguments lit : simpl never.

(* ---- members of an object, fuel-free ---- *)
Section Members.
  Variable o : opts.
  Notation ctl := (o_validate o).

  Definition PM (inp : bytes) (x : list (bytes * jv) * bytes) : Prop := exists f, pmembers f ctl inp [] = Some x.
  Definition NPM (inp : bytes) : Prop := forall f, pmembers f ctl inp [] = None.

  Lemma pmembers_acc : forall f s acc,
    pmembers f ctl s acc = match pmembers f ctl s [] with Some (l, rest) => Some (rev acc ++ l, rest) | None => None end.
  Proof.
    induction f as [|f IH]; intros s acc; [reflexivity|]. simpl.
    destruct (skip_ws s) as [|q r]; [reflexivity|]. destruct (negb (q =? 34)); [reflexivity|].
    destruct (scan_str ctl r []) as [[k rest]|]; [|reflexivity].
    destruct (skip_ws rest) as [|c r2]; [reflexivity|]. destruct (negb (c =? 58)); [reflexivity|].
    destruct (pvalue f ctl r2) as [[v rest2]|]; [|reflexivity].
    destruct (skip_ws rest2) as [|d r3]; [reflexivity|].
    destruct (d =? 44).
    - rewrite (IH r3 ((k, v) :: acc)), (IH r3 [(k, v)]). destruct (pmembers f ctl r3 []) as [[l rest']|]; [|reflexivity].
      simpl. rewrite <- app_assoc. reflexivity.
    - destruct (d =? 125); reflexivity.
  Qed.

  (* what follows a member *)
  Definition MT (inp : bytes) (x : list (bytes * jv) * bytes) : Prop :=
    exists d r3, skip_ws inp = d :: r3 /\ ((d = 44 /\ PM r3 x) \/ (d = 125 /\ x = ([], r3))).

  Lemma PM_inv : forall s l rest, PM s (l, rest) ->
    exists r kb rk r2 v rv l', skip_ws s = 34 :: r /\ scan_str ctl r [] = Some (kb, rk) /\ skip_ws rk = 58 :: r2 /\
      PV o r2 (v, rv) /\ l = (kb, v) :: l' /\ MT rv (l', rest).
  Proof.
    intros s l rest [f H]. destruct f as [|f]; [discriminate|]. simpl in H.
    destruct (skip_ws s) as [|q r] eqn:W; [discriminate|]. destruct (q =? 34) eqn:Q; [|discriminate]. simpl in H.
    apply N.eqb_eq in Q. subst q.
    destruct (scan_str ctl r []) as [[kb rk]|] eqn:SS; [|discriminate].
    destruct (skip_ws rk) as [|c r2] eqn:W2; [discriminate|]. destruct (c =? 58) eqn:C; [|discriminate]. simpl in H.
    apply N.eqb_eq in C. subst c.
    destruct (pvalue f ctl r2) as [[v rv]|] eqn:PVx; [|discriminate].
    destruct (skip_ws rv) as [|d r3] eqn:W3; [discriminate|].
    exists r, kb, rk, r2, v, rv.
    destruct (d =? 44) eqn:D.
    - apply N.eqb_eq in D. subst d. rewrite pmembers_acc in H.
      destruct (pmembers f ctl r3 []) as [[l' rest']|] eqn:PMx; [|discriminate]. inversion H; subst.
      exists l'. repeat split; auto. { exists f. exact PVx. }
      exists 44, r3. split; [exact W3|]. left. split; [reflexivity|]. exists f. exact PMx.
    - destruct (d =? 125) eqn:D2; [|discriminate]. apply N.eqb_eq in D2. subst d. inversion H; subst.
      exists []. repeat split; auto. { exists f. exact PVx. }
      exists 125, rest. split; [exact W3|]. right. auto.
  Qed.

  Lemma PM_intro : forall s r kb rk r2 v rv l' rest,
    skip_ws s = 34 :: r -> scan_str ctl r [] = Some (kb, rk) -> skip_ws rk = 58 :: r2 ->
    PV o r2 (v, rv) -> MT rv (l', rest) -> PM s ((kb, v) :: l', rest).
  Proof.
    intros s r kb rk r2 v rv l' rest W SS W2 [f PVx] (d & r3 & W3 & [[D [f' PMx]]|[D E]]); subst d.
    - exists (S (f + f')). simpl. rewrite W. simpl. rewrite SS, W2. simpl.
      rewrite (pvalue_mono ctl f (f + f') _ _ (Nat.le_add_r _ _) PVx), W3. simpl.
      rewrite pmembers_acc. rewrite (pmembers_mono ctl f' (f + f') _ _ _ (Nat.le_add_l _ _) PMx). reflexivity.
    - inversion E; subst. exists (S f). simpl. rewrite W. simpl. rewrite SS, W2. simpl. rewrite PVx, W3. reflexivity.
  Qed.

  Section Obj.
    Variables (inp r0 : bytes).
    Hypothesis W : skip_ws inp = 123 :: r0.

    Lemma F_obj_empty : forall r2, skip_ws r0 = 125 :: r2 -> PV o inp (JObj (span (123 :: r0) r2) [], r2).
    Proof. intros r2 W2. exists 1%nat. simpl. rewrite W. simpl. rewrite W2. reflexivity. Qed.

    Lemma F_obj : forall d r2 l rest, skip_ws r0 = d :: r2 -> (d =? 125) = false -> PM (d :: r2) (l, rest) ->
      PV o inp (JObj (span (123 :: r0) rest) l, rest).
    Proof. intros d r2 l rest W2 D [f H]. exists (S f). simpl. rewrite W. simpl. rewrite W2, D, H. reflexivity. Qed.

    Lemma I_obj123 : forall j rest, PV o inp (j, rest) ->
      exists d r2, skip_ws r0 = d :: r2 /\
        (((d =? 125) = true /\ j = JObj (span (123 :: r0) r2) [] /\ rest = r2) \/
         ((d =? 125) = false /\ exists l, j = JObj (span (123 :: r0) rest) l /\ PM (d :: r2) (l, rest))).
    Proof.
      intros j rest [f H]. destruct f as [|f]; [discriminate|]. simpl in H. rewrite W in H. simpl in H.
      destruct (skip_ws r0) as [|d r2] eqn:W2; [discriminate|]. exists d, r2. split; [reflexivity|].
      destruct (d =? 125) eqn:D.
      - left. inversion H; subst. auto.
      - right. split; [reflexivity|]. destruct (pmembers f ctl (d :: r2) []) as [[l rest']|] eqn:PMx; [|discriminate].
        inversion H; subst. exists l. split; [reflexivity|]. exists f. exact PMx.
    Qed.

    Lemma NPV_obj_nil : skip_ws r0 = [] -> NPV o inp.
    Proof. intros W2 [|f]; [reflexivity|]. simpl. rewrite W. simpl. rewrite W2. reflexivity. Qed.
  End Obj.
End Members.

Section StructSim.
  Variable h : bytes -> N.
  Variable o : opts.
  Notation ctl := (o_validate o).
  Notation ex := (exec h o).
  Notation bind := (sonic_bind h Jit o).

  (* ---- steps of the struct opcodes ---- *)
  Lemma x_struct_field : forall f P fm c s,
    ex (S f) P (sf_instr fm :: c) s =
    match scan_str ctl (s_in s) [] with
    | Some (body, r) =>
      match sunq Jit o body with
      | Some u =>
        match sonic_lookup h (map fst fm) u with
        | Some k => ex f P c (mkSt r (s_root s) (s_vp s) (s_vt s) (s_stk s) (Some k) (s_mis s))
        | None => if o_disallow_unknown o then Err else ex f P c (mkSt r (s_root s) (s_vp s) (s_vt s) (s_stk s) None (s_mis s))
        end
      | None => Err
      end
    | None => Err
    end.
  Proof.
    intros. cbn [exec exec1 sf_instr i_op i_fm]. unfold str_at.
    destruct (scan_str ctl (s_in s) []) as [[body r]|]; [|reflexivity]. destruct (sunq Jit o body); [|reflexivity].
    destruct (sonic_lookup h (map fst fm) b); [reflexivity|]. destruct (o_disallow_unknown o); reflexivity.
  Qed.

  Lemma x_switch : forall f P sw c s,
    ex (S f) P (sw_instr sw :: c) s =
    match s_sr s with
    | Some k => match nth_error sw k with Some pc' => ex f P (skipn pc' P) s | None => ex f P c s end
    | None => ex f P c s
    end.
  Proof.
    intros. cbn [exec exec1 sw_instr i_op i_vs]. destruct (s_sr s) as [k|]; [|reflexivity]. destruct (nth_error sw k); reflexivity.
  Qed.

  Lemma x_object_next : forall f P a b t c s,
    ex (S f) P (I OP_object_next a b t :: c) s =
    match pvalue (parse_fuel (s_in s)) ctl (s_in s) with
    | Some (j, r) => if ctl && negb (strict_jv j) then Unk else ex f P c (adv s r)
    | None => Err
    end.
  Proof.
    intros. cbn [exec exec1 I i_op]. destruct (pvalue (parse_fuel (s_in s)) ctl (s_in s)) as [[j r]|]; [|reflexivity].
    destruct (ctl && negb (strict_jv j)); reflexivity.
  Qed.

  Lemma x_index_st : forall f P a b t c s fs, s_vt s = TStruct fs ->
    ex (S f) P (I OP_index a b t :: c) s = ex f P c (mv s (s_vp s ++ [PElem a]) (nth_field_ty fs a)).
  Proof. intros. cbn [exec exec1 I i_op i_vi]. rewrite H. reflexivity. Qed.

  (* ---- the binder on structs, member by member ---- *)
  Definition mstep (fs : fields) (kb : bytes) (x : jv) (vs : list val) : res (list val) :=
    match sunq Jit o kb with
    | None => Err
    | Some ks =>
      match sonic_lookup h (fnames fs) ks with
      | None => if o_disallow_unknown o then Err else Ok vs
      | Some i => sonic_field h Jit o fs i x vs
      end
    end.

  Fixpoint sgo (fs : fields) (l : list (bytes * jv)) (vs : list val) : res (list val) :=
    match l with
    | [] => Ok vs
    | (kb, x) :: r => do vs' <- mstep fs kb x vs; sgo fs r vs'
    end.

  Lemma go_sgo : forall fs l vs,
    (fix go (l0 : list (bytes * jv)) (vs1 : list val) : res (list val) :=
       match l0 with
       | [] => Ok vs1
       | (kb, x) :: r =>
         match sunq Jit o kb with
         | None => Err
         | Some ks => match sonic_lookup h (fnames fs) ks with
                      | None => if o_disallow_unknown o then Err else go r vs1
                      | Some i => do vs' <- sonic_field h Jit o fs i x vs1; go r vs'
                      end
         end
       end) l vs = sgo fs l vs.
  Proof.
    intros fs. induction l as [|[kb x] l IH]; intros vs; [reflexivity|].
    cbn [sgo]. unfold mstep. destruct (sunq Jit o kb); [|reflexivity].
    destruct (sonic_lookup h (fnames fs) b).
    - destruct (sonic_field h Jit o fs n x vs); cbn [rbind]; auto.
    - destruct (o_disallow_unknown o); cbn [rbind]; auto.
  Qed.

  Lemma bind_struct : forall fs raw l v, is_fnil fs = false ->
    bind (TStruct fs) (JObj raw l) v =
    (do vs <- sgo fs l (match v with VList vs _ => vs | _ => zero_fields fs end); Ok (VList vs [])).
  Proof.
    intros fs raw l v NF. cbn [sonic_bind]. rewrite NF.
    apply (f_equal (fun x => rbind x (fun vs => Ok (VList vs [])))). apply go_sgo.
  Qed.

  (* the fields of the fragment: unquoted, of simulated types without arrays (every value is then well shaped) *)
  Fixpoint sfields2 (fs : fields) : bool :=
    match fs with
    | FNil => true
    | FCons _ q t r => negb (q && quotable t) && simf t && noarr t && sfields2 r
    end.

  Lemma sfields2_sfields : forall fs, sfields2 fs = true -> sfields fs = true.
  Proof.
    induction fs as [|nm q t r IH]; simpl; intros H; [reflexivity|].
    repeat (apply andb_true_iff in H; destruct H as [H ?]). rewrite H, (simf_ilf t) by assumption. simpl. apply IH. assumption.
  Qed.

  Lemma field_bind : forall fs i x vs, sfields2 fs = true -> (i < flen fs)%nat -> length vs = flen fs ->
    sonic_field h Jit o fs i x vs = (do v' <- bind (nth_field_ty fs i) x (nth i vs VNil); Ok (nth_set vs i v')).
  Proof.
    induction fs as [|nm q t r IH]; intros i x vs F Li Lv; [simpl in Li; lia|].
    destruct vs as [|v vr]; [discriminate Lv|]. simpl in Lv. injection Lv as Lv.
    cbn [sfields2] in F. repeat (apply andb_true_iff in F; destruct F as [F ?]). apply negb_true_iff in F.
    destruct i as [|i].
    - cbn [sonic_field nth_field_ty nth nth_set]. rewrite F. reflexivity.
    - cbn [sonic_field nth_field_ty nth nth_set]. rewrite IH by (try assumption; simpl in Li; lia).
      destruct (bind (nth_field_ty r i) x (nth i vr VNil)); reflexivity.
  Qed.

  Lemma field_ty_ok : forall fs i, sfields2 fs = true -> (i < flen fs)%nat ->
    simf (nth_field_ty fs i) = true /\ noarr (nth_field_ty fs i) = true.
  Proof.
    induction fs as [|nm q t r IH]; intros i F Li; [simpl in Li; lia|].
    cbn [sfields2] in F. repeat (apply andb_true_iff in F; destruct F as [F ?]).
    destruct i; [split; assumption|]. apply IH; [assumption|simpl in Li; lia].
  Qed.

  (* where the block of field i sits *)
  Lemma field_split : forall fs i0 bb y0 i, (i < flen fs)%nat ->
    exists A Bq, fcode fs i0 bb y0 =
      A ++ (I OP_index (i0 + i) 0 TBool :: one (nth_field_ty fs i) (Nat.add (Nat.add bb (length A)) 1)) ++
           (I OP_load 0 0 TBool :: I OP_goto y0 0 TBool :: Bq) /\
      nth_error (fpos fs bb) i = Some (Nat.add bb (length A)).
  Proof.
    induction fs as [|nm q t r IH]; intros i0 bb y0 i Li; [simpl in Li; lia|].
    destruct i as [|i].
    - exists [], (fcode r (S i0) (Nat.add (Nat.add bb (clen t)) 4) y0). cbn [fcode fpos nth_error nth_field_ty app length].
      rewrite !Nat.add_0_r. unfold one. split; [|reflexivity].
      replace (S (Nat.add bb 1)) with (Nat.add bb 2) by lia. repeat (rewrite <- ?app_assoc; cbn [app]). reflexivity.
    - destruct (IH (S i0) (Nat.add (Nat.add bb (clen t)) 4) y0 i ltac:(simpl in Li; lia)) as (A & Bq & E & N).
      exists (I OP_index i0 0 TBool :: I OP_lspace 0 0 TBool :: code t (Nat.add bb 2) ++ [I OP_load 0 0 TBool; I OP_goto y0 0 TBool] ++ A), Bq.
      cbn [fcode fpos nth_error nth_field_ty]. rewrite E. split.
      + cbn [length]. rewrite !app_length, code_len. cbn [length].
        replace (Nat.add i0 (S i)) with (Nat.add (S i0) i) by lia.
        replace (Nat.add (Nat.add bb (S (S (Nat.add (clen t) (Nat.add 2 (length A)))))) 1) with (Nat.add (Nat.add (Nat.add (Nat.add bb (clen t)) 4) (length A)) 1) by lia.
        repeat (rewrite <- ?app_assoc; cbn [app]). reflexivity.
      + rewrite N. f_equal. cbn [length]. rewrite !app_length, code_len. cbn [length]. lia.
  Qed.

  (* ---- the member loop ---- *)
  Section Block.
    Variable fs : fields.
    Hypothesis F2 : sfields2 fs = true.
    Hypothesis LOOK : forall k i, sonic_lookup h (fnames fs) k = Some i -> (i < flen fs)%nat.
    Variables (P pre post : prog).
    Let b := length pre.
    Let y0 := Nat.add b 14.
    Let FB := Nat.add b 25.
    Let DROP := Nat.add (Nat.add b 25) (fclen fs).
    Let fm := index_fm (fnames fs) 0.
    Let sw := fpos fs FB.
    Definition Y0code : prog :=
      [I OP_lspace 0 0 TBool; I OP_check_char DROP 125 TBool; I OP_match_char 0 44 TBool; I OP_lspace 0 0 TBool;
       I OP_match_char 0 34 TBool; sf_instr fm; I OP_lspace 0 0 TBool; I OP_match_char 0 58 TBool;
       sw_instr sw; I OP_object_next 0 0 TBool; I OP_goto y0 0 TBool] ++ fcode fs 0 FB y0 ++ [I OP_drop 0 0 TBool] ++ post.
    Hypothesis EP : P = pre ++ scode fs b ++ post.

    Lemma map_fst_index_fm : forall names i, map fst (index_fm names i) = names.
    Proof. induction names as [|n r IH]; intros i; [reflexivity|]. cbn [index_fm map fst]. rewrite IH. reflexivity. Qed.

    Lemma JY0 : skipn y0 P = Y0code.
    Proof.
      rewrite EP. unfold scode. fold fm. fold FB. fold sw. fold DROP. fold y0.
      match goal with |- skipn _ (pre ++ (?X ++ _) ++ post) = _ => apply (skipn_at _ (pre ++ firstn 14 X)) end.
      - cbn [firstn]. unfold Y0code. lnorm. reflexivity.
      - cbn [firstn]. rewrite app_length. cbn [length]. unfold y0, b. lia.
    Qed.

    Lemma JDROP : skipn DROP P = I OP_drop 0 0 TBool :: post.
    Proof.
      rewrite EP. unfold scode. fold fm. fold FB. fold sw. fold DROP. fold y0.
      match goal with |- skipn _ (pre ++ (?X ++ ?Fc ++ _) ++ post) = _ => apply (skipn_at _ (pre ++ X ++ Fc)) end.
      - lnorm. reflexivity.
      - repeat (rewrite app_length; cbn [length]). rewrite fcode_len. unfold DROP, b. lia.
    Qed.

    Lemma JF : forall i, (i < flen fs)%nat ->
      exists PREi Bq, P = PREi ++ (I OP_index i 0 TBool :: one (nth_field_ty fs i) (Nat.add (length PREi) 1)) ++
                             (I OP_load 0 0 TBool :: I OP_goto y0 0 TBool :: Bq) /\
                      nth_error sw i = Some (length PREi).
    Proof.
      intros i Li. destruct (field_split fs 0%nat FB y0 i Li) as (A & Bq & E & N).
      rewrite EP. unfold scode. fold fm. fold FB. fold sw. fold DROP. fold y0. rewrite E.
      match goal with |- context [pre ++ (?X ++ _) ++ post] => exists (pre ++ X ++ A), (Bq ++ [I OP_drop 0 0 TBool] ++ post) end.
      assert (LP : forall X : prog, length X = 25%nat -> length (pre ++ X ++ A) = Nat.add FB (length A)).
      { intros X LX. rewrite !app_length, LX. unfold FB, b. lia. }
      split.
      - rewrite LP by reflexivity. cbn [Nat.add]. lnorm. reflexivity.
      - rewrite LP by reflexivity. exact N.
    Qed.

    Variables (root0 : val) (vp : path) (stk0 : list (path * ty)) (mis0 : bool).
    Hypothesis V : valid root0 vp.

    Definition INV (s : st) (vs : list val) : Prop :=
      s_vt s = TStruct fs /\ s_vp s = vp /\ s_stk s = (vp, TStruct fs) :: stk0 /\
      s_root s = setp root0 vp (VList vs []) /\ length vs = flen fs /\ s_mis s = mis0.

    Lemma mstep_no_unk : forall kb x vs, length vs = flen fs -> mstep fs kb x vs <> Unk.
    Proof.
      intros kb x vs Lv. unfold mstep. destruct (sunq Jit o kb); [|discriminate].
      destruct (sonic_lookup h (fnames fs) b0) as [i|] eqn:LK; [|destruct (o_disallow_unknown o); discriminate].
      pose proof (LOOK _ _ LK) as Li. rewrite field_bind by assumption.
      apply rbind_no_unk; [|discriminate]. apply bind_no_unk. apply field_ty_ok; assumption.
    Qed.

    (* one member, from the struct_field instruction on (the opening quote of the key is consumed) *)
    Lemma key_step : forall cont, (cont = Y0code \/ exists more, cont = I OP_goto y0 0 TBool :: more) ->
      forall fuel s r vs, INV s vs ->
      ex fuel P (sf_instr fm :: I OP_lspace 0 0 TBool :: I OP_match_char 0 58 TBool :: sw_instr sw :: I OP_object_next 0 0 TBool :: cont) s = r ->
      r <> Unk ->
      (scan_str ctl (s_in s) [] = None -> r = Err) /\
      (forall kb rk, scan_str ctl (s_in s) [] = Some (kb, rk) ->
         (skip_ws rk = [] -> r = Err) /\
         (forall c r2, skip_ws rk = c :: r2 -> (c =? 58) = false -> r = Err) /\
         (forall r2, skip_ws rk = 58 :: r2 ->
            (forall x rv, PV o r2 (x, rv) ->
               match mstep fs kb x vs with
               | Unk => True
               | Err => r = Err
               | Ok vs' => exists f' s', (f' < fuel)%nat /\ ex f' P Y0code s' = r /\ s_in s' = rv /\ INV s' vs'
               end) /\
            (NPV o r2 -> r = Err))).
    Proof.
      intros cont HC fuel s r vs (VT & VP & STK & ROOT & LV & MIS) H NU.
      destruct fuel as [|fuel]; [simpl in H; congruence|]. rewrite x_struct_field in H.
      unfold fm in H. rewrite map_fst_index_fm in H.
      destruct (scan_str ctl (s_in s) []) as [[kb rk]|] eqn:SS; [|split; [auto|intros; discriminate]].
      split; [intros; discriminate|]. intros kb' rk' E'. injection E' as <- <-.
      destruct (sunq Jit o kb) as [ks|] eqn:SQ.
      2:{ subst r. repeat split; auto. intros x rv _. unfold mstep. rewrite SQ. reflexivity. }
      (* the continuation after a member *)
      assert (REACH : forall f s1, exists f1, (f <= S f1)%nat /\ (f1 <= f)%nat /\ (ex f P cont s1 = Unk \/ ex f P cont s1 = ex f1 P Y0code s1)).
      { intros f s1. destruct HC as [->|[more ->]].
        - exists f. split; [lia|]. split; [lia|]. right. reflexivity.
        - destruct f as [|f]; [exists 0%nat; split; [lia|]; split; [lia|]; left; reflexivity|].
          exists f. split; [lia|]. split; [lia|]. right. rewrite x_goto, JY0. reflexivity. }
      destruct (sonic_lookup h (fnames fs) ks) as [i|] eqn:LK.
      - (* a field *)
        pose proof (LOOK _ _ LK) as Li.
        destruct (JF i Li) as (PREi & Bq & EPi & NI).
        destruct (field_ty_ok fs i F2 Li) as [SFi NAi].
        match type of H with ex _ _ _ ?S1 = _ => set (s1 := S1) in * end.
        destruct fuel as [|fuel]; [simpl in H; congruence|].
        destruct (skip_ws rk) as [|c r2] eqn:W.
        { rewrite x_lspace_nil in H by exact W. subst r. repeat split; auto; intros; discriminate. }
        erewrite x_lspace in H by exact W.
        destruct fuel as [|fuel]; [simpl in H; congruence|].
        erewrite x_match_char in H by reflexivity. cbn [adv s_in] in H.
        destruct (c =? 58) eqn:C58.
        2:{ subst r. split; [intros; discriminate|]. split; [auto|]. intros r2' E'. injection E' as -> _. discriminate C58. }
        apply N.eqb_eq in C58. subst c.
        split; [intros; discriminate|]. split; [intros c' r2' E' C'; injection E' as <- _; discriminate C'|].
        intros r2' E'. injection E' as <-.
        destruct fuel as [|fuel]; [simpl in H; congruence|].
        rewrite x_switch in H. cbn [adv s1 s_sr] in H. rewrite NI in H.
        assert (JI : skipn (length PREi) P = (I OP_index i 0 TBool :: one (nth_field_ty fs i) (Nat.add (length PREi) 1)) ++
                                             (I OP_load 0 0 TBool :: I OP_goto y0 0 TBool :: Bq)).
        { apply (skipn_at _ PREi); [exact EPi|reflexivity]. }
        rewrite JI in H. cbn [app] in H.
        destruct fuel as [|fuel]; [simpl in H; congruence|].
        erewrite x_index_st in H by (cbn [adv s1 s_vt]; exact VT).
        match type of H with ex _ _ _ ?S2 = _ => set (s2 := S2) in * end.
        assert (R2 : s_root s2 = setp root0 vp (VList vs [])) by exact ROOT.
        assert (VP2 : s_vp s2 = vp ++ [PElem i]) by (unfold s2, s1; cbn [mv adv s_vp]; rewrite VP; reflexivity).
        assert (C2 : cur s2 = nth i vs VNil).
        { unfold cur. rewrite R2, VP2, getp_app, getp_setp by exact V. simpl. rewrite app_nil_r. reflexivity. }
        assert (V2 : valid (s_root s2) (s_vp s2)).
        { rewrite R2, VP2. apply valid_app. split; [apply valid_setp; exact V|]. rewrite getp_setp by exact V. simpl.
          split; [rewrite app_nil_r; lia|exact Logic.I]. }
        assert (SP : spec h o (nth_field_ty fs i) P (I OP_load 0 0 TBool :: I OP_goto y0 0 TBool :: Bq) fuel s2 r).
        { eapply (proj1 (sim_all h o _ SFi) P (PREi ++ [I OP_index i 0 TBool])); eauto.
          - rewrite EPi, app_length. cbn [length]. lnorm. reflexivity.
          - apply shape_noarr. exact NAi.
          - rewrite app_length. cbn [length]. exact H. }
        destruct SP as [SA SB]. split.
        + intros x rv PVx. unfold mstep. rewrite SQ, LK. rewrite field_bind by assumption.
          specialize (SA x rv PVx). rewrite C2 in SA.
          destruct (bind (nth_field_ty fs i) x (nth i vs VNil)) as [v'| |]; cbn [rbind]; auto.
          destruct SA as (f1 & s3 & L1 & E1 & I1 & R1 & K1 & M1).
          destruct f1 as [|f1]; [simpl in E1; congruence|].
          erewrite x_load in E1 by (rewrite K1; exact STK).
          destruct f1 as [|f1]; [simpl in E1; congruence|]. rewrite x_goto, JY0 in E1.
          exists f1, (mv s3 vp (TStruct fs)). split; [lia|]. split; [exact E1|]. cbn [mv s_in]. split; [exact I1|].
          unfold INV. cbn [mv s_vt s_vp s_stk s_root s_mis]. repeat split; auto.
          * rewrite K1. exact STK.
          * rewrite R1, R2, VP2. rewrite setp_setp_ext by exact V. f_equal. simpl.
            assert (LT : Nat.ltb i (length vs) = true) by (apply Nat.ltb_lt; lia). rewrite LT. reflexivity.
          * rewrite nth_set_length. exact LV.
          * rewrite M1. exact MIS.
        + intros N. apply SB. exact N.
      - (* not a field *)
        destruct (o_disallow_unknown o) eqn:DU.
        { subst r. repeat split; auto. intros x rv _. unfold mstep. rewrite SQ, LK, DU. reflexivity. }
        match type of H with ex _ _ _ ?S1 = _ => set (s1 := S1) in * end.
        destruct fuel as [|fuel]; [simpl in H; congruence|].
        destruct (skip_ws rk) as [|c r2] eqn:W.
        { rewrite x_lspace_nil in H by exact W. subst r. repeat split; auto; intros; discriminate. }
        erewrite x_lspace in H by exact W.
        destruct fuel as [|fuel]; [simpl in H; congruence|].
        erewrite x_match_char in H by reflexivity. cbn [adv s_in] in H.
        destruct (c =? 58) eqn:C58.
        2:{ subst r. split; [intros; discriminate|]. split; [auto|]. intros r2' E'. injection E' as -> _. discriminate C58. }
        apply N.eqb_eq in C58. subst c.
        split; [intros; discriminate|]. split; [intros c' r2' E' C'; injection E' as <- _; discriminate C'|].
        intros r2' E'. injection E' as <-.
        destruct fuel as [|fuel]; [simpl in H; congruence|].
        rewrite x_switch in H. cbn [adv s1 s_sr] in H.
        destruct fuel as [|fuel]; [simpl in H; congruence|].
        rewrite x_object_next in H. cbn [adv s_in] in H.
        destruct (pvalue (parse_fuel r2) ctl r2) as [[j rq]|] eqn:PVc.
        2:{ subst r. split; [|reflexivity]. intros x rv [f PVx]. rewrite (pvalue_complete _ _ _ _ PVx) in PVc. discriminate. }
        destruct (ctl && negb (strict_jv j)); [congruence|].
        match type of H with ex _ _ _ ?S3 = _ => set (s3 := S3) in * end.
        destruct (REACH fuel s3) as (f1 & L1 & L1' & [EU|EY]); [congruence|]. rewrite EY in H.
        split.
        + intros x rv PVx. assert (E : (x, rv) = (j, rq)) by (eapply PV_det; [exact PVx|eexists; exact PVc]). injection E as -> ->.
          unfold mstep. rewrite SQ, LK, DU.
          exists f1, s3. split; [lia|]. split; [exact H|]. split; [reflexivity|].
          unfold INV, s3, s1. cbn [adv s_vt s_vp s_stk s_root s_mis]. repeat split; auto.
        + intros N. exfalso. eapply PV_NPV; [eexists; exact PVc|exact N].
    Qed.

    Lemma Y0_loop : forall fuel s r vs, INV s vs -> ex fuel P Y0code s = r -> r <> Unk ->
      (forall l rest, MT o (s_in s) (l, rest) ->
         match sgo fs l vs with
         | Unk => True
         | Err => r = Err
         | Ok vs' => exists f' s', (f' <= fuel)%nat /\ ex f' P post s' = r /\ s_in s' = rest /\
                       s_root s' = setp root0 vp (VList vs' []) /\ s_stk s' = stk0 /\ s_mis s' = mis0
         end) /\
      ((forall x, MT o (s_in s) x -> False) -> r = Err).
    Proof.
      induction fuel as [fuel IH] using lt_wf_ind. intros s r vs IV H NU.
      pose proof IV as (VT & VP & STK & ROOT & LV & MIS).
      unfold Y0code in H. cbn [app] in H.
      destruct fuel as [|fuel]; [simpl in H; congruence|].
      destruct (skip_ws (s_in s)) as [|d r3] eqn:W.
      { rewrite x_lspace_nil in H by exact W. subst r. split; [|reflexivity]. intros l rest (d & r3 & W' & _). congruence. }
      erewrite x_lspace in H by exact W.
      destruct fuel as [|fuel]; [simpl in H; congruence|].
      erewrite x_check_char in H by reflexivity.
      destruct (d =? 125) eqn:D125.
      { apply N.eqb_eq in D125. subst d. rewrite JDROP in H.
        destruct fuel as [|fuel]; [simpl in H; congruence|].
        erewrite x_drop in H by (cbn [adv s_stk]; exact STK). cbn [adv s_in s_root s_sr s_mis] in H.
        split.
        - intros l rest (d & r3' & W' & D). rewrite W in W'. injection W' as <- <-.
          destruct D as [[C _]|[_ E]]; [discriminate C|]. injection E as -> ->. cbn [sgo].
          eexists fuel, _. split; [lia|]. split; [exact H|]. cbn [s_in s_root s_stk s_mis]. repeat split; auto.
        - intros N. exfalso. eapply (N ([], r3)). exists 125, r3. split; [exact W|]. right. auto. }
      destruct fuel as [|fuel]; [simpl in H; congruence|].
      erewrite x_match_char in H by reflexivity. cbn [adv s_in] in H.
      destruct (d =? 44) eqn:D44.
      2:{ subst r. split; [|reflexivity]. intros l rest (d' & r3' & W' & D). rewrite W in W'. injection W' as <- <-.
          destruct D as [[C _]|[C _]]; subst d; discriminate. }
      apply N.eqb_eq in D44. subst d.
      destruct fuel as [|fuel]; [simpl in H; congruence|].
      destruct (skip_ws r3) as [|q rq] eqn:W3.
      { rewrite x_lspace_nil in H by exact W3. subst r. split; [|reflexivity].
        intros l rest (d' & r3' & W' & D). rewrite W in W'. injection W' as <- <-.
        destruct D as [[_ PMx]|[C _]]; [|discriminate C]. destruct (PM_inv o _ _ _ PMx) as (r' & ? & ? & ? & ? & ? & ? & W3' & _). congruence. }
      erewrite x_lspace in H by exact W3.
      destruct fuel as [|fuel]; [simpl in H; congruence|].
      erewrite x_match_char in H by reflexivity. cbn [adv s_in] in H.
      destruct (q =? 34) eqn:Q34.
      2:{ subst r. split; [|reflexivity].
          intros l rest (d' & r3' & W' & D). rewrite W in W'. injection W' as <- <-.
          destruct D as [[_ PMx]|[C _]]; [|discriminate C]. destruct (PM_inv o _ _ _ PMx) as (r' & ? & ? & ? & ? & ? & ? & W3' & _).
          rewrite W3 in W3'. injection W3' as -> _. discriminate Q34. }
      apply N.eqb_eq in Q34. subst q.
      match type of H with ex _ _ _ ?S1 = _ => set (s1 := S1) in * end.
      assert (IV1 : INV s1 vs) by (unfold INV, s1; cbn [adv s_vt s_vp s_stk s_root s_mis]; repeat split; auto).
      destruct (key_step _ (or_intror (ex_intro _ _ eq_refl)) fuel s1 r vs IV1 H NU) as [KN KS].
      cbn [s1 adv s_in] in KN, KS.
      split.
      - intros l rest (d' & r3' & W' & D). rewrite W in W'. injection W' as <- <-.
        destruct D as [[_ PMx]|[C _]]; [|discriminate C].
        destruct (PM_inv o _ _ _ PMx) as (r' & kb & rk & r2 & v & rv & l' & W3' & SS & W58 & PVx & El & MTx).
        rewrite W3 in W3'. injection W3' as <-. subst l. cbn [sgo].
        destruct (KS kb rk SS) as (_ & _ & KV). destruct (KV r2 W58) as [KA _]. specialize (KA v rv PVx).
        destruct (mstep fs kb v vs) as [vs'| |]; cbn [rbind]; auto.
        destruct KA as (f' & s' & L' & E' & I' & IV').
        destruct (IH f' ltac:(lia) s' r vs' IV' E' NU) as [IA _]. rewrite <- I' in MTx. specialize (IA l' rest MTx).
        destruct (sgo fs l' vs') as [vs''| |]; auto.
        destruct IA as (f4 & s4 & L4 & E4 & rest4). exists f4, s4. split; [lia|]. split; [exact E4|exact rest4].
      - intros N.
        destruct (scan_str ctl rq []) as [[kb rk]|] eqn:SS; [|apply KN; reflexivity].
        destruct (KS kb rk eq_refl) as (K1 & K2 & KV).
        destruct (skip_ws rk) as [|c r2] eqn:W58; [apply K1; reflexivity|].
        destruct (c =? 58) eqn:C58; [|eapply K2; [reflexivity|exact C58]].
        apply N.eqb_eq in C58. subst c. destruct (KV r2 eq_refl) as [KA KB].
        destruct (PV_dec o r2) as [[[v rv] PVx]|NP]; [|apply KB; exact NP].
        specialize (KA v rv PVx).
        destruct (mstep fs kb v vs) as [vs'| |] eqn:MS; auto.
        2:{ exfalso. eapply mstep_no_unk; eauto. }
        destruct KA as (f' & s' & L' & E' & I' & IV').
        destruct (IH f' ltac:(lia) s' r vs' IV' E' NU) as [_ IB]. apply IB.
        intros [l' rest] MTx. rewrite I' in MTx. eapply (N ((kb, v) :: l', rest)).
        exists 44, r3. split; [exact W|]. left. split; [reflexivity|]. eapply PM_intro; eauto.
    Qed.
  End Block.

  (* ---- the whole struct block ---- *)
  Theorem struct_block : forall fs, is_fnil fs = false -> sfields2 fs = true ->
    (forall k i, sonic_lookup h (fnames fs) k = Some i -> (i < flen fs)%nat) ->
    forall P pre post, P = pre ++ (I OP_lspace 0 0 TBool :: scode fs (S (length pre))) ++ post ->
    forall fuel s r vs, s_vt s = TStruct fs -> valid (s_root s) (s_vp s) -> cur s = VList vs [] -> length vs = flen fs ->
      ex fuel P ((I OP_lspace 0 0 TBool :: scode fs (S (length pre))) ++ post) s = r -> r <> Unk ->
      spec h o (TStruct fs) P post fuel s r.
  Proof.
    intros fs NF F2 LOOK P pre post EP fuel s r vs VT V CUR LV H NU.
    set (pre1 := pre ++ [I OP_lspace 0 0 TBool]).
    assert (L1 : length pre1 = S (length pre)) by (unfold pre1; rewrite app_length; cbn [length]; lia).
    assert (EP1 : P = pre1 ++ scode fs (length pre1) ++ post).
    { rewrite L1, EP. unfold pre1. lnorm. reflexivity. }
    set (b := S (length pre)) in *.
    set (DROP := Nat.add (Nat.add b 25) (fclen fs)).
    pose proof (JY0 fs P pre1 post EP1) as JY. pose proof (JDROP fs P pre1 post EP1) as JD. rewrite L1 in JY, JD. fold b in JY, JD. fold DROP in JD.
    assert (JE : skipn (Nat.add DROP 1) P = post).
    { rewrite EP1. apply (skipn_at _ (pre1 ++ scode fs (length pre1))); [lnorm; reflexivity|].
      rewrite app_length, L1. unfold scode. repeat (rewrite app_length; cbn [length]). rewrite fcode_len. unfold DROP. fold b. lia. }
    assert (J4 : skipn (Nat.add b 4) P =
                 I OP_add 1 0 TBool :: I OP_save 0 0 TBool :: I OP_lspace 0 0 TBool :: I OP_check_char DROP 125 TBool ::
                 I OP_match_char 0 34 TBool :: sf_instr (index_fm (fnames fs) 0) :: I OP_lspace 0 0 TBool :: I OP_match_char 0 58 TBool ::
                 sw_instr (fpos fs (Nat.add b 25)) :: I OP_object_next 0 0 TBool :: Y0code fs pre1 post).
    { rewrite EP1, L1. fold b. unfold scode.
      match goal with |- skipn _ (pre1 ++ (?X ++ _) ++ post) = _ => apply (skipn_at _ (pre1 ++ firstn 4 X)) end.
      - cbn [firstn]. unfold Y0code. rewrite L1. fold b. lnorm. reflexivity.
      - cbn [firstn]. rewrite app_length, L1. cbn [length]. fold b. lia. }
    unfold scode in H. fold b in H. fold DROP in H. cbn [app] in H.
    destruct (head h o _ _ _ _ _ _ H NU) as [[W E]|(c & r0 & fuel' & W & LE & [[SN Hx]|[SN Hx]])]; clear H.
    { subst r. apply spec_ws_nil. exact W. }
    { rewrite JE in Hx. eapply spec_null_same; eauto. }
    destruct fuel' as [|fuel']; [simpl in Hx; congruence|].
    erewrite x_check_char_0 in Hx by reflexivity.
    destruct (c =? 123) eqn:C123.
    2:{ destruct fuel' as [|[|fuel']]; [simpl in Hx; congruence|simpl in Hx; congruence|]. rewrite x_dismatch_go_skip in Hx.
        subst r. apply spec_err. intros j rest x PVj B.
        destruct j; cbn [sonic_bind] in B; try discriminate B.
        - destruct (I_null o _ _ _ W _ PVj) as [S' _]. congruence.
        - pose proof (I_obj o _ _ _ W _ _ _ PVj) as E. subst c. discriminate C123. }
    apply N.eqb_eq in C123. subst c. rewrite J4 in Hx.
    destruct fuel' as [|fuel']; [simpl in Hx; congruence|]. rewrite x_add in Hx. cbn [adv s_in skipn] in Hx.
    destruct fuel' as [|fuel']; [simpl in Hx; congruence|].
    rewrite x_save in Hx by (cbn [adv s_vt]; rewrite VT; exact Logic.I). cbn [adv s_in s_root s_vp s_vt s_stk s_sr s_mis] in Hx.
    rewrite VT in Hx.
    destruct fuel' as [|fuel']; [simpl in Hx; congruence|].
    destruct (skip_ws r0) as [|d r2] eqn:W2.
    { rewrite x_lspace_nil in Hx by exact W2. subst r. apply spec_err. intros j rest x PVj _.
      eapply PV_NPV; [exact PVj|]. eapply NPV_obj_nil; eauto. }
    erewrite x_lspace in Hx by exact W2. cbn [adv s_in] in Hx.
    destruct fuel' as [|fuel']; [simpl in Hx; congruence|].
    erewrite x_check_char in Hx by reflexivity. cbn [adv s_in] in Hx.
    assert (ROOT : s_root s = setp (s_root s) (s_vp s) (VList vs [])).
    { rewrite <- CUR. symmetry. apply setp_getp. exact V. }
    assert (WD : skip_ws (d :: r2) = d :: r2) by (apply skip_ws_nows; eapply skip_ws_head; exact W2).
    destruct (d =? 125) eqn:D125.
    { (* {} *)
      apply N.eqb_eq in D125. subst d. rewrite JD in Hx.
      destruct fuel' as [|fuel']; [simpl in Hx; congruence|].
      erewrite x_drop in Hx by reflexivity. cbn [s_in s_root s_sr s_mis] in Hx.
      eapply spec_of_pv; [eapply F_obj_empty; eauto|]. rewrite bind_struct by exact NF. rewrite CUR. cbn [sgo rbind].
      eexists fuel', _. split; [lia|]. split; [exact Hx|]. cbn [s_in s_root s_stk s_mis]. repeat split; auto. }
    destruct fuel' as [|fuel']; [simpl in Hx; congruence|].
    erewrite x_match_char in Hx by reflexivity. cbn [adv s_in] in Hx.
    destruct (d =? 34) eqn:D34.
    2:{ subst r. apply spec_err. intros j rest x PVj _.
        destruct (I_obj123 o _ _ W _ _ PVj) as (d' & r2' & W2' & [(D & _)|(D & l & _ & PMx)]);
          rewrite W2 in W2'; injection W2' as <- <-; [congruence|].
        destruct (PM_inv o _ _ _ PMx) as (r' & ? & ? & ? & ? & ? & ? & W3' & _). rewrite WD in W3'. injection W3' as -> _. discriminate D34. }
    apply N.eqb_eq in D34. subst d.
    match type of Hx with ex _ _ _ ?S1 = _ => set (s1 := S1) in * end.
    assert (IV1 : INV fs (s_root s) (s_vp s) (s_stk s) (s_mis s) s1 vs).
    { unfold INV, s1. cbn [s_vt s_vp s_stk s_root s_mis]. repeat split; auto. }
    destruct (key_step fs F2 LOOK P pre1 post EP1 (s_root s) (s_vp s) (s_stk s) (s_mis s) V _ (or_introl eq_refl) fuel' s1 r vs
                ltac:(exact IV1) ltac:(rewrite L1; fold b; exact Hx) NU) as [KN KS].
    unfold s1 in KN, KS. cbn [adv s_in] in KN, KS.
    split.
    - intros j rest PVj.
      destruct (I_obj123 o _ _ W _ _ PVj) as (d' & r2' & W2' & [(D & _)|(D & l & Ej & PMx)]);
        rewrite W2 in W2'; injection W2' as <- <-; [discriminate D|]. subst j.
      destruct (PM_inv o _ _ _ PMx) as (r' & kb & rk & r2k & v & rv & l' & W3' & SS & W58 & PVx & El & MTx).
      rewrite WD in W3'. injection W3' as <-. subst l.
      rewrite bind_struct by exact NF. rewrite CUR. cbn [sgo].
      destruct (KS kb rk SS) as (_ & _ & KV). destruct (KV r2k W58) as [KA _]. specialize (KA v rv PVx).
      destruct (mstep fs kb v vs) as [vs'| |]; cbn [rbind]; auto.
      destruct KA as (f' & s' & L' & E' & I' & IV').
      destruct (Y0_loop fs F2 LOOK P pre1 post EP1 (s_root s) (s_vp s) (s_stk s) (s_mis s) V f' s' r vs' IV' E' NU) as [IA _].
      rewrite <- I' in MTx. specialize (IA l' rest MTx).
      destruct (sgo fs l' vs') as [vs''| |]; cbn [rbind]; auto.
      destruct IA as (f4 & s4 & L4 & E4 & I4 & R4 & K4 & M4).
      exists f4, s4. split; [lia|]. split; [exact E4|]. split; [exact I4|]. split; [exact R4|]. split; [exact K4|exact M4].
    - intros N.
      assert (NOPM : forall l rest, PM o (34 :: r2) (l, rest) -> False).
      { intros l rest PMx. eapply PV_NPV; [|exact N]. eapply F_obj; eauto. }
      destruct (scan_str ctl r2 []) as [[kb rk]|] eqn:SS; [|apply KN; reflexivity].
      destruct (KS kb rk eq_refl) as (K1 & K2 & KV).
      destruct (skip_ws rk) as [|c r2k] eqn:W58; [apply K1; reflexivity|].
      destruct (c =? 58) eqn:C58; [|eapply K2; [reflexivity|exact C58]].
      apply N.eqb_eq in C58. subst c. destruct (KV r2k eq_refl) as [KA KB].
      destruct (PV_dec o r2k) as [[[v rv] PVx]|NP]; [|apply KB; exact NP].
      specialize (KA v rv PVx).
      destruct (mstep fs kb v vs) as [vs'| |] eqn:MS; auto.
      2:{ exfalso. eapply (mstep_no_unk fs F2 LOOK); eauto. }
      destruct KA as (f' & s' & L' & E' & I' & IV').
      destruct (Y0_loop fs F2 LOOK P pre1 post EP1 (s_root s) (s_vp s) (s_stk s) (s_mis s) V f' s' r vs' IV' E' NU) as [_ IB].
      apply IB. intros [l' rest] MTx. rewrite I' in MTx. eapply (NOPM ((kb, v) :: l') rest). eapply PM_intro; eauto.
  Qed.

  Lemma mstep_len : forall fs kb x vs vs', sfields2 fs = true ->
    (forall k i, sonic_lookup h (fnames fs) k = Some i -> (i < flen fs)%nat) ->
    length vs = flen fs -> mstep fs kb x vs = Ok vs' -> length vs' = flen fs.
  Proof.
    intros fs kb x vs vs' F2 LOOK Lv H. unfold mstep in H. destruct (sunq Jit o kb); [|discriminate].
    destruct (sonic_lookup h (fnames fs) b) as [i|] eqn:LK.
    - rewrite field_bind in H by (try assumption; eapply LOOK; eauto).
      destruct (bind (nth_field_ty fs i) x (nth i vs VNil)); try discriminate. inversion H. rewrite nth_set_length. exact Lv.
    - destruct (o_disallow_unknown o); [discriminate|]. inversion H; subst. exact Lv.
  Qed.

  Lemma sgo_no_unk : forall fs, sfields2 fs = true ->
    (forall k i, sonic_lookup h (fnames fs) k = Some i -> (i < flen fs)%nat) ->
    forall l vs, length vs = flen fs -> sgo fs l vs <> Unk.
  Proof.
    intros fs F2 LOOK. induction l as [|[kb x] l IH]; intros vs Lv; [discriminate|].
    cbn [sgo]. destruct (mstep fs kb x vs) as [vs'| |] eqn:MS; cbn [rbind]; try discriminate.
    - apply IH. eapply mstep_len; eauto.
    - exfalso. eapply (mstep_no_unk fs F2 LOOK); eauto.
  Qed.

  (* jitdec.Decode on the program of a struct against the tree-level binder *)
  Theorem il_sim_struct : forall fs s vs, is_fnil fs = false -> sfields2 fs = true ->
    (forall k i, sonic_lookup h (fnames fs) k = Some i -> (i < flen fs)%nat) ->
    length vs = flen fs ->
    compat (il_unmarshal h o (TStruct fs) s (VList vs [])) (sonic_unmarshal h Jit o (TStruct fs) s (VList vs [])).
  Proof.
    intros fs s vs NF F2 LOOK LV. rewrite sonic_unmarshal_after. unfold il_unmarshal. fold (pre o s).
    assert (CP : compile (TStruct fs) = I OP_lspace 0 0 TBool :: scode fs 1).
    { destruct fs as [|nm q t r]; [discriminate NF|]. unfold compile, compileOne.
      change (checkMarshaler [] (TStruct (FCons nm q t r))) with (@None prog). unfold add.
      rewrite (compile_struct nm q t r (sfields2_sfields _ F2) ([] ++ [mkI OP_lspace 0 0 [] [] TBool])). reflexivity. }
    rewrite CP.
    set (P := I OP_lspace 0 0 TBool :: scode fs 1).
    set (v := VList vs []).
    set (st0 := mkSt (pre o s) v [] (TStruct fs) [] None false).
    assert (EP : P = [] ++ (I OP_lspace 0 0 TBool :: scode fs (S (length (@nil instr)))) ++ []) by (unfold P; rewrite app_nil_r; reflexivity).
    assert (NUK : forall j, sonic_bind h Jit o (TStruct fs) j v <> Unk).
    { intros j. destruct j; cbn [sonic_bind]; try discriminate. fold (sonic_bind h Jit o).
      change (sonic_bind h Jit o (TStruct fs) (JObj raw l) v <> Unk). rewrite bind_struct by exact NF.
      apply rbind_no_unk; [|discriminate]. apply sgo_no_unk; assumption. }
    destruct (exec h o (exec_fuel P (pre o s)) P P st0) as [s1| |] eqn:R; [| |left; reflexivity].
    - assert (NU : Ok s1 <> (Unk : res st)) by discriminate.
      assert (R' : exec h o (exec_fuel P (pre o s)) P ((I OP_lspace 0 0 TBool :: scode fs (S (length (@nil instr)))) ++ []) st0 = Ok s1).
      { rewrite app_nil_r. exact R. }
      destruct (struct_block fs NF F2 LOOK P [] [] EP _ st0 (Ok s1) vs eq_refl Logic.I eq_refl LV R' NU) as [A B].
      unfold after. cbn [st0 s_in] in A, B.
      destruct (pvalue (parse_fuel (pre o s)) (o_validate o) (pre o s)) as [[j rest]|] eqn:PVc.
      + assert (PVx : PV o (pre o s) (j, rest)) by (eexists; exact PVc).
        specialize (A j rest PVx). change (cur st0) with v in A.
        destruct (sonic_bind h Jit o (TStruct fs) j v) as [x| |] eqn:Bd.
        * destruct A as (f' & s' & _ & E & I1 & R1 & _ & M1).
          destruct f' as [|f']; [discriminate E|]. rewrite x_end in E. inversion E; subst s'.
          cbn [st0 s_root s_vp s_mis setp] in R1, M1. rewrite M1, I1, R1.
          destruct (all_ws rest); [|right; right; reflexivity].
          destruct (o_validate o && negb (strict_jv j)); rewrite ?Bd; [right; left; reflexivity|right; right; reflexivity].
        * discriminate A.
        * exfalso. eapply NUK; eauto.
      + assert (N : NPV o (pre o s)) by (intros f; eapply pvalue_none; exact PVc).
        specialize (B N). discriminate B.
    - right. unfold after.
      destruct (pvalue (parse_fuel (pre o s)) (o_validate o) (pre o s)) as [[j rest]|] eqn:PVc; [|right; reflexivity].
      destruct (all_ws rest); [|right; reflexivity].
      assert (NU : Err <> (Unk : res st)) by discriminate.
      assert (R' : exec h o (exec_fuel P (pre o s)) P ((I OP_lspace 0 0 TBool :: scode fs (S (length (@nil instr)))) ++ []) st0 = Err).
      { rewrite app_nil_r. exact R. }
      destruct (struct_block fs NF F2 LOOK P [] [] EP _ st0 Err vs eq_refl Logic.I eq_refl LV R' NU) as [A _].
      assert (PVx : PV o (pre o s) (j, rest)) by (eexists; exact PVc).
      specialize (A j rest PVx). change (cur st0) with v in A.
      destruct (sonic_bind h Jit o (TStruct fs) j v) as [x| |] eqn:Bd.
      * destruct A as (f' & s' & _ & E & _). destruct f' as [|f']; discriminate E.
      * destruct (o_validate o && negb (strict_jv j)); rewrite ?Bd; right; reflexivity.
      * exfalso. eapply NUK; eauto.
  Qed.
End StructSim.
