(* Dec/Common.v - helpers shared by the two binders: base64, list plumbing, number conversion to values. *)
From Coq Require Import NArith ZArith List Bool.
From SV.Dec Require Import Ty Val Parse Text Num.
Import ListNotations.
Open Scope N_scope.

Definition vbytes (b : bytes) : val := VList (map (fun c => VInt (Z.of_N c)) b) [].

Definition b64val (c : N) : option N :=
  if between 65 90 c then Some (c - 65)
  else if between 97 122 c then Some (c - 71)
  else if between 48 57 c then Some (c + 4)
  else if c =? 43 then Some 62
  else if c =? 47 then Some 63
  else None.

(* encoding/base64 StdEncoding.Decode (non-strict): CR and LF are skipped, padding is mandatory *)
Fixpoint b64_groups (fuel : nat) (s : bytes) : option bytes :=
  match fuel with
  | O => None
  | S f =>
    match s with
    | [] => Some []
    | a :: b :: c :: d :: rest =>
      match b64val a, b64val b with
      | Some x, Some y =>
        if (c =? 61) && (d =? 61) then
          match rest with [] => Some [x * 4 + y / 16] | _ => None end
        else
          match b64val c with
          | None => None
          | Some z =>
            if d =? 61 then
              match rest with [] => Some [x * 4 + y / 16; (y mod 16) * 16 + z / 4] | _ => None end
            else
              match b64val d with
              | None => None
              | Some w =>
                option_map (fun t => (x * 4 + y / 16) :: ((y mod 16) * 16 + z / 4) :: ((z mod 4) * 64 + w) :: t)
                           (b64_groups f rest)
              end
          end
      | _, _ => None
      end
    | _ => None
    end
  end.

Definition b64_std (s : bytes) : option bytes :=
  let s' := filter (fun c => negb ((c =? 13) || (c =? 10))) s in
  b64_groups (S (length s')) s'.

(* only base64 alphabet, padding and line breaks: a text on which lenient decoders may differ from the
   standard one by padding rules only *)
Definition b64_chars_only (s : bytes) : bool :=
  forallb (fun c => match b64val c with Some _ => true | None => (c =? 61) || (c =? 13) || (c =? 10) end) s.

Definition fres_val (r : option fres) : res val :=
  match r with
  | Some (FBits b) => Ok (VFlt b)
  | Some FInf => Err
  | None => Err
  end.

(* elementwise decoding into the existing elements (arrays and slices reuse what is there) *)
Fixpoint bind_elems (f : jv -> val -> res val) (z : val) (l : list jv) (old : list val) : res (list val) :=
  match l with
  | [] => Ok []
  | j :: r =>
    let cur := match old with x :: _ => x | [] => z end in
    do v <- f j cur;
    do vs <- bind_elems f z r (tl old);
    Ok (v :: vs)
  end.

Definition lit_null : bytes := [110; 117; 108; 108].
Definition lit_true : bytes := [116; 114; 117; 101].
Definition lit_false : bytes := [102; 97; 108; 115; 101].
Definition lit_ERR : bytes := [69; 82; 82].
Definition lit_qERRq : bytes := [34; 69; 82; 82; 34].

Fixpoint nth_set {A} (l : list A) (i : nat) (x : A) : list A :=
  match l, i with
  | [], _ => []
  | _ :: r, O => x :: r
  | y :: r, S i' => y :: nth_set r i' x
  end.

Fixpoint pad_to (n : nat) (z : val) (l : list val) : list val :=
  match n with
  | O => []
  | S n' => match l with
            | x :: r => x :: pad_to n' z r
            | [] => z :: pad_to n' z []
            end
  end.

(* parse = structural reading + RFC 8259 conditions on every string body (what encoding/json's scanner
   enforces before any binding): escapes valid, no raw control characters *)
Fixpoint strict_jv (j : jv) : bool :=
  match j with
  | JStr b => match unquote true true b with Some _ => true | None => false end
  | JArr _ l => forallb strict_jv l
  | JObj _ l => forallb (fun kv => match unquote true true (fst kv) with Some _ => strict_jv (snd kv) | None => false end) l
  | _ => true
  end.

