(* Dec/SimBase.v - groundwork for the simulation proof between the IL interpreter (Dec/Exec.v) run on the compiled
   programs in closed form (Dec/Code.v) and the tree-level binder (Dec/SonicBind.v):
   fuel-free forms of the reference reader with forward / inversion lemmas per token class, and one step lemma
   per opcode of the interpreter. *)
From Coq Require Import NArith ZArith List Bool Lia Arith.
From SV.Dec Require Import Ty Val Parse Text Num Common FieldMap Range SonicBind Compile Exec ParseFuel Code Path.
Import ListNotations.
Open Scope N_scope.

Arguments scan_num : simpl never.
Arguments skip_ws : simpl never.
Arguments scan_str : simpl never.
Arguments lit : simpl never.

Lemma starts_head_eq : forall d w c r, starts (d :: w) (c :: r) = true -> c = d.
Proof.
  intros d w c r H. unfold starts, lit in H. simpl in H.
  destruct (d =? c) eqn:E; [apply N.eqb_eq in E; congruence|discriminate].
Qed.

Lemma starts_lit : forall w s, starts w s = true -> lit w s = Some (skipn (length w) s).
Proof.
  intros w s H. unfold starts in H. destruct (lit w s) as [r|] eqn:L; [|discriminate].
  unfold lit in *. destruct ((fix pre (w0 s0 : bytes) {struct w0} : bool := _) w s); [inversion L; reflexivity|discriminate].
Qed.

Lemma lit_starts : forall w s r, lit w s = Some r -> starts w s = true /\ r = skipn (length w) s.
Proof.
  intros w s r L. split; [unfold starts; rewrite L; reflexivity|].
  unfold lit in L. destruct ((fix pre (w0 s0 : bytes) {struct w0} : bool := _) w s); [inversion L; reflexivity|discriminate].
Qed.

Lemma scan_num_first : forall c r x, scan_num (c :: r) = Some x -> (c =? 45) = true \/ is_digit c = true.
Proof.
  intros c r x H. rewrite scan_num_tail in H.
  destruct (c =? 45) eqn:E; [left; reflexivity|right].
  destruct (is_digit c); [reflexivity|discriminate].
Qed.

Lemma num_first_not : forall c, (c =? 45) = true \/ is_digit c = true ->
  (c =? 123) = false /\ (c =? 91) = false /\ (c =? 34) = false /\ (c =? 116) = false /\ (c =? 102) = false /\ (c =? 110) = false.
Proof.
  intros c [H|H].
  - apply N.eqb_eq in H. subst c. repeat split; reflexivity.
  - unfold is_digit in H. apply andb_true_iff in H. destruct H as [H1 H2].
    apply N.leb_le in H1. apply N.leb_le in H2. repeat split; apply N.eqb_neq; lia.
Qed.

Section Base.
  Variable h : bytes -> N.
  Variable o : opts.
  Notation ctl := (o_validate o).

  Definition PV (inp : bytes) (x : jv * bytes) : Prop := exists f, pvalue f ctl inp = Some x.
  Definition NPV (inp : bytes) : Prop := forall f, pvalue f ctl inp = None.
  Definition PE (inp : bytes) (x : list jv * bytes) : Prop := exists f, pelems f ctl inp [] = Some x.
  Definition NPE (inp : bytes) : Prop := forall f, pelems f ctl inp [] = None.

  Lemma PV_det : forall inp x y, PV inp x -> PV inp y -> x = y.
  Proof. intros inp x y [f H1] [f' H2]. eapply pvalue_det; eauto. Qed.

  Lemma PV_NPV : forall inp x, PV inp x -> NPV inp -> False.
  Proof. intros inp x [f H] N. rewrite N in H. discriminate. Qed.

  Lemma PV_dec : forall inp, (exists x, PV inp x) \/ NPV inp.
  Proof.
    intros inp. destruct (pvalue (parse_fuel inp) ctl inp) as [x|] eqn:E.
    - left. exists x, (parse_fuel inp). exact E.
    - right. intros f. apply pvalue_none. exact E.
  Qed.

  Lemma pvalue_skip : forall f inp, pvalue f ctl (skip_ws inp) = pvalue f ctl inp.
  Proof. intros [|f] inp; [reflexivity|]. simpl. rewrite skip_ws_idem. reflexivity. Qed.

  Lemma PV_skip : forall inp x, PV (skip_ws inp) x <-> PV inp x.
  Proof. intros inp x. unfold PV. split; intros [f H]; exists f; [rewrite <- pvalue_skip|rewrite pvalue_skip]; exact H. Qed.

  Lemma NPV_skip : forall inp, NPV (skip_ws inp) <-> NPV inp.
  Proof. intros inp. unfold NPV. split; intros H f; [rewrite <- pvalue_skip|rewrite pvalue_skip]; apply H. Qed.

  Lemma NPV_ws : forall inp, skip_ws inp = [] -> NPV inp.
  Proof. intros inp W [|f]; [reflexivity|]. simpl. rewrite W. reflexivity. Qed.

  (* ---- forward: what the reader returns on an input whose first token is known ---- *)
  Section Tok.
    Variables (inp : bytes) (c : N) (r0 : bytes).
    Hypothesis W : skip_ws inp = c :: r0.

    Lemma F_null : starts lit_null (c :: r0) = true -> PV inp (JNull, skipn 4 (c :: r0)).
    Proof.
      intros S. unfold lit_null, lit_true, lit_false in S. pose proof (starts_head_eq _ _ _ _ S) as E. subst c. exists 1%nat. simpl. rewrite W. simpl.
      rewrite (starts_lit _ _ S). reflexivity.
    Qed.
    Lemma F_true : starts lit_true (c :: r0) = true -> PV inp (JTrue, skipn 4 (c :: r0)).
    Proof.
      intros S. unfold lit_null, lit_true, lit_false in S. pose proof (starts_head_eq _ _ _ _ S) as E. subst c. exists 1%nat. simpl. rewrite W. simpl.
      rewrite (starts_lit _ _ S). reflexivity.
    Qed.
    Lemma F_false : starts lit_false (c :: r0) = true -> PV inp (JFalse, skipn 5 (c :: r0)).
    Proof.
      intros S. unfold lit_null, lit_true, lit_false in S. pose proof (starts_head_eq _ _ _ _ S) as E. subst c. exists 1%nat. simpl. rewrite W. simpl.
      rewrite (starts_lit _ _ S). reflexivity.
    Qed.
    Lemma F_num : forall t rest, scan_num (c :: r0) = Some (t, rest) -> PV inp (JNum t, rest).
    Proof.
      intros t rest S. destruct (num_first_not c (scan_num_first _ _ _ S)) as (E1 & E2 & E3 & E4 & E5 & E6).
      exists 1%nat. simpl. rewrite W. rewrite E1, E2, E3, E4, E5, E6, S. reflexivity.
    Qed.
    Lemma F_str : forall b rest, c = 34 -> scan_str ctl r0 [] = Some (b, rest) -> PV inp (JStr b, rest).
    Proof. intros b rest E S. subst c. exists 1%nat. simpl. rewrite W. simpl. rewrite S. reflexivity. Qed.

    (* ---- inversion ---- *)
    Ltac walk H :=
      let f := fresh "f" in
      destruct H as [f H]; destruct f as [|f]; [discriminate H|]; simpl in H; rewrite W in H;
      repeat match type of H with
             | (if ?b then _ else _) = _ => let E := fresh "E" in destruct b eqn:E
             | match ?x with _ => _ end = _ => let E := fresh "E" in destruct x eqn:E
             end; try discriminate H.

    Lemma I_null : forall rest, PV inp (JNull, rest) -> starts lit_null (c :: r0) = true /\ rest = skipn 4 (c :: r0).
    Proof. intros rest H. walk H. inversion H; subst. apply lit_starts. assumption. Qed.
    Lemma I_true : forall rest, PV inp (JTrue, rest) -> starts lit_true (c :: r0) = true /\ rest = skipn 4 (c :: r0).
    Proof. intros rest H. walk H. inversion H; subst. apply lit_starts. assumption. Qed.
    Lemma I_false : forall rest, PV inp (JFalse, rest) -> starts lit_false (c :: r0) = true /\ rest = skipn 5 (c :: r0).
    Proof. intros rest H. walk H. inversion H; subst. apply lit_starts. assumption. Qed.
    Lemma I_num : forall t rest, PV inp (JNum t, rest) -> scan_num (c :: r0) = Some (t, rest).
    Proof. intros t rest H. walk H. inversion H; subst. reflexivity. Qed.
    Lemma I_str : forall b rest, PV inp (JStr b, rest) -> c = 34 /\ scan_str ctl r0 [] = Some (b, rest).
    Proof.
      intros b rest H. walk H. inversion H; subst. split; [|reflexivity].
      match goal with E : (c =? 34) = true |- _ => apply N.eqb_eq in E; exact E end.
    Qed.
    Lemma I_arr : forall raw l rest, PV inp (JArr raw l, rest) -> c = 91.
    Proof.
      intros raw l rest H. walk H; match goal with E : (c =? 91) = true |- _ => apply N.eqb_eq in E; exact E end.
    Qed.
    Lemma I_obj : forall raw l rest, PV inp (JObj raw l, rest) -> c = 123.
    Proof.
      intros raw l rest H. walk H; match goal with E : (c =? 123) = true |- _ => apply N.eqb_eq in E; exact E end.
    Qed.
  End Tok.

  (* ---- one step of the interpreter per opcode ---- *)
  Notation ex := (exec h o).

  Lemma x_lspace_nil : forall f P a b t c s, skip_ws (s_in s) = [] -> ex (S f) P (I OP_lspace a b t :: c) s = Err.
  Proof. intros. cbn [exec exec1 I i_op]. rewrite H. reflexivity. Qed.
  Lemma x_lspace : forall f P a b t c s d r, skip_ws (s_in s) = d :: r ->
    ex (S f) P (I OP_lspace a b t :: c) s = ex f P c (adv s (d :: r)).
  Proof. intros. cbn [exec exec1 I i_op]. rewrite H. reflexivity. Qed.
  Lemma x_is_null : forall f P a b t c s,
    ex (S f) P (I OP_is_null a b t :: c) s =
    if starts lit_null (s_in s) then ex f P (skipn a P) (adv s (skipn 4 (s_in s))) else ex f P c s.
  Proof. intros. cbn [exec exec1 I i_op i_vi]. destruct (starts lit_null (s_in s)); reflexivity. Qed.
  Lemma x_check_char_0 : forall f P a b t c s d r, s_in s = d :: r ->
    ex (S f) P (I OP_check_char_0 a b t :: c) s = if d =? b then ex f P (skipn a P) s else ex f P c s.
  Proof. intros. cbn [exec exec1 I i_op i_vi i_vb]. rewrite H. destruct (d =? b); reflexivity. Qed.
  Lemma x_check_char : forall f P a b t c s d r, s_in s = d :: r ->
    ex (S f) P (I OP_check_char a b t :: c) s = if d =? b then ex f P (skipn a P) (adv s r) else ex f P c s.
  Proof. intros. cbn [exec exec1 I i_op i_vi i_vb]. rewrite H. destruct (d =? b); reflexivity. Qed.
  Lemma x_check_empty : forall f P a b t c s d r, s_in s = d :: r ->
    ex (S f) P (I OP_check_empty a b t :: c) s =
    if d =? b then ex f P (skipn a P) (adv (wr s (VList [] [])) r) else ex f P c s.
  Proof. intros. cbn [exec exec1 I i_op i_vi i_vb]. rewrite H. destruct (d =? b); reflexivity. Qed.
  Lemma x_match_char : forall f P a b t c s d r, s_in s = d :: r ->
    ex (S f) P (I OP_match_char a b t :: c) s = if d =? b then ex f P c (adv s r) else Err.
  Proof. intros. cbn [exec exec1 I i_op i_vi i_vb]. rewrite H. destruct (d =? b); reflexivity. Qed.
  Lemma x_dismatch_go_skip : forall f P a b t a' b' t' c s,
    ex (S (S f)) P (I OP_dismatch_err a b t :: I OP_go_skip a' b' t' :: c) s = Err.
  Proof. intros. reflexivity. Qed.
  Lemma x_add : forall f P a b t c s, ex (S f) P (I OP_add a b t :: c) s = ex f P c (adv s (skipn a (s_in s))).
  Proof. intros. reflexivity. Qed.
  Lemma x_goto : forall f P a b t c s, ex (S f) P (I OP_goto a b t :: c) s = ex f P (skipn a P) s.
  Proof. intros. reflexivity. Qed.
  Lemma x_nil_1 : forall f P a b t c s, ex (S f) P (I OP_nil_1 a b t :: c) s = ex f P c (wr s VNil).
  Proof. intros. reflexivity. Qed.
  Lemma x_nil_2 : forall f P a b t c s, ex (S f) P (I OP_nil_2 a b t :: c) s = ex f P c (wr s VNil).
  Proof. intros. reflexivity. Qed.
  Lemma x_nil_3 : forall f P a b t c s, ex (S f) P (I OP_nil_3 a b t :: c) s = ex f P c (wr s VNil).
  Proof. intros. reflexivity. Qed.
  Lemma x_bool : forall f P a b t c s,
    ex (S f) P (I OP_bool a b t :: c) s =
    if starts lit_true (s_in s) then ex f P c (adv (wr s (VBool true)) (skipn 4 (s_in s)))
    else if starts lit_false (s_in s) then ex f P c (adv (wr s (VBool false)) (skipn 5 (s_in s))) else Err.
  Proof.
    intros. cbn [exec exec1 I i_op]. destruct (starts lit_true (s_in s)); [reflexivity|].
    destruct (starts lit_false (s_in s)); reflexivity.
  Qed.

  (* the number opcodes: scan, convert, store *)
  Definition numf (t : ty) (tx : bytes) : res val :=
    match t with
    | TInt k => sonic_int k (JNum tx) VNil
    | TF64 => sonic_f64 tx
    | TF32 => sonic_f32 tx
    | _ => Err
    end.

  Lemma x_num_op : forall f P t a b t' c s, (match t with TInt _ | TF32 | TF64 => True | _ => False end) ->
    ex (S f) P (I (prim_opc t) a b t' :: c) s =
    match scan_num (s_in s) with
    | Some (tx, r) => match numf t tx with Ok x => ex f P c (adv (wr s x) r) | Err => Err | Unk => Unk end
    | None => Err
    end.
  Proof.
    intros f P t a b t' c s T. destruct t; try contradiction; try destruct k;
      cbn [exec exec1 I i_op prim_opc op_of_ikind numf]; unfold num_op;
      (destruct (scan_num (s_in s)) as [[tx r]|]; [|reflexivity]);
      match goal with |- context [match ?X with Ok _ => Next _ | Err => Fail | Unk => Unknown end] => destruct X end; reflexivity.
  Qed.

  Lemma x_jnum : forall f P a b t c s,
    ex (S f) P (I OP_num a b t :: c) s =
    match s_in s with
    | d :: r =>
      if d =? 34 then
        match scan_num r with
        | Some (tx, r') => match r' with e :: r'' => if e =? 34 then ex f P c (adv (wr s (VStr tx)) r'') else Err | [] => Err end
        | None => Err
        end
      else match scan_num (s_in s) with Some (tx, r') => ex f P c (adv (wr s (VStr tx)) r') | None => Err end
    | [] => Err
    end.
  Proof.
    intros. cbn [exec exec1 I i_op]. destruct (s_in s) as [|d r]; [reflexivity|].
    destruct (d =? 34).
    - destruct (scan_num r) as [[tx r']|]; [|reflexivity]. destruct r' as [|e r'']; [reflexivity|]. destruct (e =? 34); reflexivity.
    - destruct (scan_num (d :: r)) as [[tx r']|]; reflexivity.
  Qed.

  Lemma x_str : forall f P a b t c s,
    ex (S f) P (I OP_str a b t :: c) s =
    match scan_str ctl (s_in s) [] with
    | Some (body, r) => match sunq Jit o body with Some u => ex f P c (adv (wr s (VStr u)) r) | None => Err end
    | None => Err
    end.
  Proof.
    intros. cbn [exec exec1 I i_op]. unfold str_at.
    destruct (scan_str ctl (s_in s) []) as [[body r]|]; [|reflexivity]. destruct (sunq Jit o body); reflexivity.
  Qed.

  Lemma x_any : forall f P a b t c s,
    ex (S f) P (I OP_any a b t :: c) s =
    match pvalue (parse_fuel (s_in s)) ctl (s_in s) with
    | Some (j, r) => match sonic_any Jit o j with Ok x => ex f P c (adv (wr s x) r) | Err => Err | Unk => Unk end
    | None => Err
    end.
  Proof.
    intros. cbn [exec exec1 I i_op].
    destruct (pvalue (parse_fuel (s_in s)) ctl (s_in s)) as [[j r]|]; [|reflexivity]. destruct (sonic_any Jit o j); reflexivity.
  Qed.

  Lemma x_deref : forall f P a b t c s,
    ex (S f) P (I OP_deref a b t :: c) s =
    match cur s with
    | VPtr _ => ex f P c (mv s (s_vp s ++ [PDeref]) t)
    | _ => ex f P c (mv (wr s (VPtr (zero t))) (s_vp s ++ [PDeref]) t)
    end.
  Proof. intros. cbn [exec exec1 I i_op i_t]. destruct (cur s); reflexivity. Qed.

  Lemma x_slice_init : forall f P a b t c s,
    ex (S f) P (I OP_slice_init a b t :: c) s =
    match cur s with
    | VList vis hid => ex f P c (wr s (VList [] (vis ++ hid)))
    | _ => ex f P c (wr s (VList [] []))
    end.
  Proof. intros. cbn [exec exec1 I i_op]. destruct (cur s); reflexivity. Qed.

  Lemma x_save : forall f P a b t c s, (match s_vt s with TArr _ _ => False | _ => True end) ->
    ex (S f) P (I OP_save a b t :: c) s =
    ex f P c (mkSt (s_in s) (s_root s) (s_vp s) (s_vt s) ((s_vp s, s_vt s) :: s_stk s) (s_sr s) (s_mis s)).
  Proof. intros. cbn [exec exec1 I i_op]. destruct (s_vt s); try contradiction; reflexivity. Qed.

  Lemma x_slice_append : forall f P a b t c s vis hid, cur s = VList vis hid ->
    ex (S f) P (I OP_slice_append a b t :: c) s =
    ex f P c (mv (wr s (VList (vis ++ [match hid with y :: _ => y | [] => zero t end]) (tl hid)))
                 (s_vp s ++ [PElem (length vis)]) t).
  Proof. intros. cbn [exec exec1 I i_op i_t]. rewrite H. destruct hid; reflexivity. Qed.

  Lemma x_load : forall f P a b t c s p t0 r, s_stk s = (p, t0) :: r ->
    ex (S f) P (I OP_load a b t :: c) s = ex f P c (mv s p t0).
  Proof. intros. cbn [exec exec1 I i_op]. rewrite H. reflexivity. Qed.

  Lemma x_drop : forall f P a b t c s p t0 r, s_stk s = (p, t0) :: r ->
    ex (S f) P (I OP_drop a b t :: c) s = ex f P c (mkSt (s_in s) (s_root s) p t0 r (s_sr s) (s_mis s)).
  Proof. intros. cbn [exec exec1 I i_op]. rewrite H. reflexivity. Qed.

  Lemma x_save_arr : forall f P a b t c s n e, s_vt s = TArr n e ->
    ex (S f) P (I OP_save a b t :: c) s =
    ex f P c (mkSt (s_in s) (s_root s) (s_vp s ++ [PElem 0]) e ((s_vp s, TArr n e) :: s_stk s) (s_sr s) (s_mis s)).
  Proof. intros. cbn [exec exec1 I i_op]. rewrite H. reflexivity. Qed.

  Lemma x_index_arr : forall f P a b t c s n e, s_vt s = TArr n e ->
    ex (S f) P (I OP_index a b t :: c) s = ex f P c (mv s (s_vp s ++ [PElem a]) e).
  Proof. intros. cbn [exec exec1 I i_op i_vi]. rewrite H. reflexivity. Qed.

  Lemma x_array_clear : forall f P a b t c s ap n e stk k vis hid,
    s_stk s = (ap, TArr n e) :: stk -> s_vp s = ap ++ [PElem k] -> getp (s_root s) ap = VList vis hid ->
    ex (S f) P (I OP_array_clear a b t :: c) s =
    ex f P c (mkSt (s_in s) (setp (s_root s) ap (VList (pad_to n (zero e) (firstn k vis)) hid)) (s_vp s) (s_vt s) (s_stk s) (s_sr s) (s_mis s)).
  Proof.
    intros. cbn [exec exec1 I i_op]. rewrite H, H0, rev_unit, H1. rewrite <- H, <- H0. reflexivity.
  Qed.

  Lemma x_array_skip : forall f P a b t c s,
    ex (S f) P (I OP_array_skip a b t :: c) s =
    match skip_ws (s_in s) with
    | [] => Err
    | c0 :: r0 =>
      if c0 =? 93 then Err else
      if ctl && negb (match pvalue (parse_fuel (c0 :: r0)) true (91 :: c0 :: r0) with Some (j, _) => strict_jv j | None => true end)
      then Unk else
      match pvalue (parse_fuel (c0 :: r0)) ctl (91 :: c0 :: r0) with
      | Some (_, r) => ex f P c (adv s r)
      | None => Err
      end
    end.
  Proof.
    intros. cbn [exec exec1 I i_op]. destruct (skip_ws (s_in s)) as [|c0 r0]; [reflexivity|].
    destruct (c0 =? 93); [reflexivity|].
    destruct (ctl && negb _); [reflexivity|].
    destruct (pvalue (parse_fuel (c0 :: r0)) ctl (91 :: c0 :: r0)) as [[j r]|]; reflexivity.
  Qed.

  Lemma x_end : forall f P s, ex (S f) P [] s = Ok s.
  Proof. reflexivity. Qed.
End Base.

(* ---- arrays: the element list of the reader without its accumulator, fuel-free ---- *)
Section Elems.
  Variable o : opts.
  Notation ctl := (o_validate o).

  Lemma pelems_acc : forall f s acc,
    pelems f ctl s acc = match pelems f ctl s [] with Some (l, rest) => Some (rev acc ++ l, rest) | None => None end.
  Proof.
    induction f as [|f IH]; intros s acc; [reflexivity|]. simpl.
    destruct (pvalue f ctl s) as [[v rest]|]; [|reflexivity].
    destruct (skip_ws rest) as [|c r]; [reflexivity|].
    destruct (c =? 44).
    - rewrite (IH r (v :: acc)), (IH r [v]). destruct (pelems f ctl r []) as [[l rest']|]; [|reflexivity].
      simpl. rewrite <- app_assoc. reflexivity.
    - destruct (c =? 93); reflexivity.
  Qed.

  Lemma PE_last : forall s v r1 rest, PV o s (v, r1) -> skip_ws r1 = 93 :: rest -> PE o s ([v], rest).
  Proof.
    intros s v r1 rest [f H] W. exists (S f). simpl. rewrite H, W. reflexivity.
  Qed.

  Lemma PE_cons : forall s v r1 r' l rest, PV o s (v, r1) -> skip_ws r1 = 44 :: r' -> PE o r' (l, rest) -> PE o s (v :: l, rest).
  Proof.
    intros s v r1 r' l rest [f H] W [f' H']. exists (S (f + f')). simpl.
    rewrite (pvalue_mono ctl f (f + f') _ _ (Nat.le_add_r _ _) H), W. simpl.
    rewrite pelems_acc. rewrite (pelems_mono ctl f' (f + f') _ _ _ (Nat.le_add_l _ _) H'). reflexivity.
  Qed.

  Lemma PE_inv : forall s l rest, PE o s (l, rest) ->
    exists v r1, PV o s (v, r1) /\
      ((exists r' l', skip_ws r1 = 44 :: r' /\ l = v :: l' /\ PE o r' (l', rest)) \/
       (skip_ws r1 = 93 :: rest /\ l = [v])).
  Proof.
    intros s l rest [f H]. destruct f as [|f]; [discriminate|]. simpl in H.
    destruct (pvalue f ctl s) as [[v r1]|] eqn:PVx; [|discriminate].
    exists v, r1. split; [exists f; exact PVx|].
    destruct (skip_ws r1) as [|c r'] eqn:W; [discriminate|].
    destruct (c =? 44) eqn:C.
    - apply N.eqb_eq in C. subst c. left. rewrite pelems_acc in H.
      destruct (pelems f ctl r' []) as [[l' rest']|] eqn:PEx; [|discriminate]. inversion H; subst.
      exists r', l'. split; [reflexivity|]. split; [reflexivity|]. exists f. exact PEx.
    - destruct (c =? 93) eqn:C2; [|discriminate]. apply N.eqb_eq in C2. subst c. inversion H; subst.
      right. split; reflexivity.
  Qed.

  (* an array at the head of the input *)
  Section Arr.
    Variables (inp r0 : bytes).
    Hypothesis W : skip_ws inp = 91 :: r0.

    Lemma F_arr_empty : forall r2, skip_ws r0 = 93 :: r2 -> PV o inp (JArr (span (91 :: r0) r2) [], r2).
    Proof. intros r2 W2. exists 1%nat. simpl. rewrite W. simpl. rewrite W2. reflexivity. Qed.

    Lemma F_arr : forall d r2 l rest, skip_ws r0 = d :: r2 -> (d =? 93) = false -> PE o (d :: r2) (l, rest) ->
      PV o inp (JArr (span (91 :: r0) rest) l, rest).
    Proof.
      intros d r2 l rest W2 D [f H]. exists (S f). simpl. rewrite W. simpl. rewrite W2, D, H. reflexivity.
    Qed.

    Lemma I_arr91 : forall j rest, PV o inp (j, rest) ->
      exists d r2, skip_ws r0 = d :: r2 /\
        (((d =? 93) = true /\ j = JArr (span (91 :: r0) r2) [] /\ rest = r2) \/
         ((d =? 93) = false /\ exists l, j = JArr (span (91 :: r0) rest) l /\ PE o (d :: r2) (l, rest))).
    Proof.
      intros j rest [f H]. destruct f as [|f]; [discriminate|]. simpl in H. rewrite W in H. simpl in H.
      destruct (skip_ws r0) as [|d r2] eqn:W2; [discriminate|]. exists d, r2. split; [reflexivity|].
      destruct (d =? 93) eqn:D.
      - left. inversion H; subst. auto.
      - right. split; [reflexivity|]. destruct (pelems f ctl (d :: r2) []) as [[l rest']|] eqn:PEx; [|discriminate].
        inversion H; subst. exists l. split; [reflexivity|]. exists f. exact PEx.
    Qed.

    Lemma NPV_arr_nil : skip_ws r0 = [] -> NPV o inp.
    Proof. intros W2 [|f]; [reflexivity|]. simpl. rewrite W. simpl. rewrite W2. reflexivity. Qed.
  End Arr.
  (* skip_array reads the remaining elements as if a new array started here *)
  Lemma skip_rest : forall c0 r0, is_ws c0 = false -> (c0 =? 93) = false ->
    match pvalue (parse_fuel (c0 :: r0)) ctl (91 :: c0 :: r0) with
    | Some (_, r) => exists l, PE o (c0 :: r0) (l, r)
    | None => NPE o (c0 :: r0)
    end.
  Proof.
    intros c0 r0 W D. unfold parse_fuel. cbn [length].
    replace (2 * S (length r0) + 2)%nat with (S (2 * S (length r0) + 1)) by lia.
    cbn [pvalue]. rewrite (skip_ws_nows 91 (c0 :: r0)) by reflexivity. cbn [N.eqb Pos.eqb]. cbv iota.
    rewrite (skip_ws_nows c0 r0 W). rewrite D.
    destruct (pelems (2 * S (length r0) + 1) ctl (c0 :: r0) []) as [[es rest]|] eqn:E.
    - exists es. eexists. exact E.
    - intros f. destruct (pelems f ctl (c0 :: r0) []) as [[l r]|] eqn:E2; [|reflexivity].
      rewrite (pelems_bound ctl _ _ _ _ _ E2) in E; [discriminate|]. cbn [length]. lia.
  Qed.

  Lemma skip_rest_det : forall c0 r0 j r l rest, is_ws c0 = false -> (c0 =? 93) = false ->
    pvalue (parse_fuel (c0 :: r0)) ctl (91 :: c0 :: r0) = Some (j, r) -> PE o (c0 :: r0) (l, rest) -> r = rest.
  Proof.
    intros c0 r0 j r l rest W D H [f E]. unfold parse_fuel in H. cbn [length] in H.
    replace (2 * S (length r0) + 2)%nat with (S (2 * S (length r0) + 1)) in H by lia.
    cbn [pvalue] in H. rewrite (skip_ws_nows 91 (c0 :: r0)) in H by reflexivity. cbn [N.eqb Pos.eqb] in H. cbv iota in H.
    rewrite (skip_ws_nows c0 r0 W), D in H.
    rewrite (pelems_bound ctl _ _ _ _ _ E (2 * S (length r0) + 1)) in H by (cbn [length]; lia).
    inversion H. reflexivity.
  Qed.

  Lemma NPV_close : forall inp r, skip_ws inp = 93 :: r -> NPV o inp.
  Proof.
    intros inp r W [|f]; [reflexivity|]. simpl. rewrite W. reflexivity.
  Qed.
End Elems.
