(* Dec/Witness.v - concrete inputs: the refutation witnesses of the clauses the faithful model violates (each
   replayed on the real code from corpus/C01), and the non-vacuity example of the agreement theorem. *)
From Coq Require Import NArith ZArith List Bool String Ascii Lia.
From SV.Dec Require Import Ty Val Parse Text Num Common FieldMap FieldMapProofs FieldLookup Range StdBind SonicBind DecProofs.
Import ListNotations.
Open Scope N_scope.

Fixpoint b (s : string) : bytes :=
  match s with EmptyString => [] | String c r => N_of_ascii c :: b r end.

Definition h1 : bytes -> N := fun _ => 1.
Definition fld (n : string) (t : ty) (r : fields) : fields := FCons (b n) false t r.
Definition qfld (n : string) (t : ty) (r : fields) : fields := FCons (b n) true t r.

(* map elements are decoded over the element already present *)
Theorem mapmerge_refuted :
  let t := TMap KStr (TStruct (fld "A" (TInt I64) (fld "B" (TInt I64) FNil))) in
  let s := b "{""k"":{""A"":1},""k"":{""B"":2}}" in
  sonic_unmarshal h1 Jit opts_std t s VNil = Ok (VMap [(VStr (b "k"), VList [VInt 1; VInt 2] [])]) /\
  std_unmarshal opts_std t s VNil = Ok (VMap [(VStr (b "k"), VList [VInt 0; VInt 2] [])]).
Proof. split; vm_compute; reflexivity. Qed.

(* a null under an existing key keeps the old element *)
Theorem mapmerge_null_refuted :
  let t := TMap KStr (TInt U16) in
  let v := VMap [(VStr (b "k"), VInt 65535)] in
  sonic_unmarshal h1 Jit opts_std t (b "{""k"":null}") v = Ok (VMap [(VStr (b "k"), VInt 65535)]) /\
  std_unmarshal opts_std t (b "{""k"":null}") v = Ok (VMap [(VStr (b "k"), VInt 0)]).
Proof. split; vm_compute; reflexivity. Qed.

(* float32 through binary64: the last bit on a tie, and the overflow edge *)
Theorem f32_double_rounding_refuted :
  sonic_unmarshal h1 Jit opts_std TF32 (b "1.00000005960464477539062500000000000000000001") (VFlt 0) = Ok (VFlt 1065353216) /\
  std_unmarshal opts_std TF32 (b "1.00000005960464477539062500000000000000000001") (VFlt 0) = Ok (VFlt 1065353217) /\
  sonic_unmarshal h1 Jit opts_std TF32 (b "340282356779733661637539395458142568447") (VFlt 0) = Err /\
  std_unmarshal opts_std TF32 (b "340282356779733661637539395458142568447") (VFlt 0) = Ok (VFlt 2139095039).
Proof. repeat split; vm_compute; reflexivity. Qed.

(* repaired (fac5479): null into a pointer to pointer to an unmarshaler stores nil, like encoding/json *)
Theorem ptrptr_null_agree :
  sonic_unmarshal h1 Jit opts_std (TPtr (TPtr TUnm)) (b "null") VNil = Ok VNil /\
  std_unmarshal opts_std (TPtr (TPtr TUnm)) (b "null") VNil = Ok VNil.
Proof. split; vm_compute; reflexivity. Qed.

(* map[uint32]: 2^32 is rejected by both (repaired by afd5482; before, sonic stored key 0) *)
Theorem u32_map_key_agree :
  sonic_unmarshal h1 Jit opts_std (TMap (KInt U32) (TInt I64)) (b "{""4294967296"":1}") VNil = Err /\
  std_unmarshal opts_std (TMap (KInt U32) (TInt I64)) (b "{""4294967296"":1}") VNil = Err /\
  sonic_unmarshal h1 Jit opts_std (TMap (KInt U32) (TInt I64)) (b "{""4294967295"":1}") VNil = Ok (VMap [(VInt 4294967295, VInt 1)]).
Proof. repeat split; vm_compute; reflexivity. Qed.

(* `,string` on a string: a control character produced by the first unquoting is accepted *)
Theorem quoted_string_refuted :
  let t := TStruct (qfld "s" TStr FNil) in
  let s := b "{""s"":""\""a\nb\""""}" in
  sonic_unmarshal h1 Jit opts_std t s (VList [VStr []] []) = Ok (VList [VStr [97; 10; 98]] []) /\
  std_unmarshal opts_std t s (VList [VStr []] []) = Err.
Proof. split; vm_compute; reflexivity. Qed.

(* ValidateString rewrites ill-formed UTF-8 before decoding: RawMessage sees other bytes *)
Theorem raw_utf8_refuted :
  sonic_unmarshal h1 Jit opts_std TRaw [34; 97; 255; 98; 34] VNil = Ok (VStr [34; 97; 239; 191; 189; 98; 34]) /\
  std_unmarshal opts_std TRaw [34; 97; 255; 98; 34] VNil = Ok (VStr [34; 97; 255; 98; 34]).
Proof. split; vm_compute; reflexivity. Qed.

(* the text -0: +0 against -0 (reflect.DeepEqual identifies them) *)
Theorem minus_zero_sign :
  sonic_unmarshal h1 Jit opts_std TF64 (b "-0") (VFlt 0) = Ok (VFlt 0) /\
  std_unmarshal opts_std TF64 (b "-0") (VFlt 0) = Ok (VFlt (2 ^ 63)).
Proof. split; vm_compute; reflexivity. Qed.

(* integer map keys: leading zeros are a strconv spelling (outside the std model: Unk), sonic refuses *)
Theorem int_key_syntax_refuted :
  sonic_unmarshal h1 Jit opts_std (TMap (KInt I64) (TInt I64)) (b "{""01"":1}") VNil = Err /\
  std_unmarshal opts_std (TMap (KInt I64) (TInt I64)) (b "{""01"":1}") VNil = Unk.
Proof. split; vm_compute; reflexivity. Qed.

(* ---- non-vacuity of the agreement theorem: a struct with tags, a case-insensitive match, duplicate keys,
        nulls, an unknown field ---- *)
Definition ex_ty : ty :=
  TStruct (fld "a" (TPtr (TInt I64)) (fld "b" (TSlice TStr) (fld "c" TAny (fld "Name" (TArr 2 (TInt U8)) FNil)))).
Definition ex_in : bytes :=
  b "{""a"":null,""B"":[""p"",""q""],""b"":[""r""],""c"":{""k"":2,""k"":[3,null]},""zz"":[1,{""q"":null}],""NAME"":[7,8,9],""a"":5} ".
Definition ex_v0 : val := VList [VPtr (VInt 7); VList [VStr (b "x")] []; VNil; VList [VInt 1; VInt 1] []] [].
Definition ex_out : val :=
  VList [VPtr (VInt 5); VList [VStr (b "r")] [VStr (b "q")];
         VMap [(VStr (b "k"), VList [VFlt 4613937818241073152; VNil] [])];
         VList [VInt 7; VInt 8] []] [].

Example agreement_example_values :
  sonic_unmarshal h1 Jit opts_std ex_ty ex_in ex_v0 = Ok ex_out /\ std_unmarshal opts_std ex_ty ex_in ex_v0 = Ok ex_out /\
  sonic_unmarshal h1 Jit opts_default ex_ty ex_in ex_v0 = Ok ex_out.
Proof. repeat split; vm_compute; reflexivity. Qed.

Lemma Forall_plain_str : forall o l, forallb (forallb plain_byte) l = true -> Forall (str_ok o) l.
Proof.
  intros o l H. rewrite forallb_forall in H. apply Forall_forall. intros x Hx. apply plain_str_ok. apply H. exact Hx.
Qed.

Lemma Forall_plain_key : forall l, forallb (forallb plain_byte) l = true -> Forall key_ok l.
Proof.
  intros l H. rewrite forallb_forall in H. apply Forall_forall. intros x Hx. apply plain_key_ok. apply H. exact Hx.
Qed.

Lemma Forall_bool : forall A (p : A -> bool) l, forallb p l = true -> Forall (fun x => p x = true) l.
Proof. intros A p l H. rewrite forallb_forall in H. apply Forall_forall. exact H. Qed.

(* every hypothesis of bind_agree_top holds for the example, under both stock configurations *)
Example agreement_example_hypotheses : forall o, (o = opts_std \/ o = opts_default) ->
  frag ex_ty = true /\ input_ok o ex_in /\ (forall j, parse ex_in = Some j -> guards o j) /\ parse ex_in <> None.
Proof.
  intros o Ho. split; [vm_compute; reflexivity|]. split; [|split].
  - destruct Ho; subst o; unfold input_ok; simpl; vm_compute; reflexivity.
  - intros j Hj. assert (E : exists j0, parse ex_in = Some j0 /\
        forallb (forallb plain_byte) (jv_strings j0) = true /\ forallb (forallb plain_byte) (jv_keys j0) = true /\
        forallb (fun t => negb (SonicBind.minus_zero t)) (jv_nums j0) = true).
    { eexists. split; [vm_compute; reflexivity|]. repeat split; vm_compute; reflexivity. }
    destruct E as [j0 [P [E1 [E2 E3]]]]. rewrite P in Hj. inversion Hj; subst j0. constructor.
    + apply Forall_plain_str. exact E1.
    + apply Forall_plain_key. exact E2.
    + apply Forall_bool in E3. eapply Forall_impl; [|exact E3]. intros a Ha. simpl in Ha. apply negb_true_iff in Ha. exact Ha.
  - vm_compute. discriminate.
Qed.
