(* Dec/ExecWitness.v - the IL interpreter on concrete inputs: behaviours that the tree-level binder cannot express
   (they depend on the order in which the program consumes bytes), and the example documents of the agreement
   theorems run through the compiled programs. *)
From Coq Require Import NArith ZArith List Bool String Ascii.
From SV.Dec Require Import Ty Val Parse Text Num Common FieldMap Range StdBind SonicBind Compile Exec Witness Witness2.
Import ListNotations.
Open Scope N_scope.
Open Scope string_scope.

(* fixed-size arrays: a trailing comma after exactly len(array) elements is an error since fix b376c30
   (_asm_OP_array_skip refuses a `]` right after the comma); extra elements are still skipped *)
Theorem il_array_trailing_comma_agree :
  il_unmarshal h1 opts_std (TArr 1 TAny) (b "[1,]") (zero (TArr 1 TAny)) = Err /\
  il_unmarshal h1 opts_default (TArr 2 (TInt I64)) (b "[1,2 , ]") (zero (TArr 2 (TInt I64))) = Err /\
  std_unmarshal opts_std (TArr 1 TAny) (b "[1,]") (zero (TArr 1 TAny)) = Err /\
  il_unmarshal h1 opts_std (TArr 1 (TInt I64)) (b "[1, ""x"", [2,3]]") (zero (TArr 1 (TInt I64))) = Ok (VList [VInt 1] []) /\
  std_unmarshal opts_std (TArr 1 (TInt I64)) (b "[1, ""x"", [2,3]]") (zero (TArr 1 (TInt I64))) = Ok (VList [VInt 1] []).
Proof. repeat split; vm_compute; reflexivity. Qed.

(* null into a pointer to pointer to an unmarshaler: nil (the program compiled since fix fac5479 pins the null test);
   `null 5` is trailing data *)
Theorem il_ptrptr_null :
  il_unmarshal h1 opts_std (TPtr (TPtr TUnm)) (b "null") VNil = Ok VNil /\
  il_unmarshal h1 opts_std (TPtr (TPtr TUnm)) (b "null 5") VNil = Err /\
  il_unmarshal h1 opts_std (TPtr (TPtr TUnm)) (b " [1, 2]") VNil = Ok (VPtr (VPtr (VStr (b "[1, 2]")))).
Proof. repeat split; vm_compute; reflexivity. Qed.

(* the example documents of C01_bind_agree and C01_bind_agree_maps_quoted through their compiled programs *)
Theorem il_examples :
  il_unmarshal h1 opts_std ex_ty ex_in ex_v0 = Ok ex_out /\ il_unmarshal h1 opts_default ex_ty ex_in ex_v0 = Ok ex_out /\
  il_unmarshal h1 opts_std ex2_ty ex2_in ex2_v0 = Ok ex2_out /\ il_unmarshal h1 opts_default ex2_ty ex2_in ex2_v0 = Ok ex2_out.
Proof. repeat split; vm_compute; reflexivity. Qed.

(* map elements are decoded over the existing element also at the IL level (mapassign returns the slot) *)
Theorem il_mapmerge :
  let t := TMap KStr (TStruct (fld "A" (TInt I64) (fld "B" (TInt I64) FNil))) in
  il_unmarshal h1 opts_std t (b "{""k"":{""A"":1},""k"":{""B"":2}}") VNil = Ok (VMap [(VStr (b "k"), VList [VInt 1; VInt 2] [])]).
Proof. vm_compute. reflexivity. Qed.
