(* Dec/Path.v - laws of the destination paths of Dec/Exec.v (getp / setp): VP of the interpreter is a path into
   the destination value; these are the facts about reading and writing through it. *)
From Coq Require Import NArith ZArith List Bool Lia Arith.
From SV.Dec Require Import Ty Val Common Exec.
Import ListNotations.
Open Scope nat_scope.

Lemma nth_set_length : forall A (l : list A) i x, length (nth_set l i x) = length l.
Proof. induction l as [|y l IH]; intros i x; simpl; [reflexivity|]. destruct i; simpl; [reflexivity|]. rewrite IH. reflexivity. Qed.

Lemma nth_nth_set : forall A (l : list A) i x d, i < length l -> nth i (nth_set l i x) d = x.
Proof. induction l as [|y l IH]; intros i x d H; simpl in *; [lia|]. destruct i; simpl; [reflexivity|]. apply IH. lia. Qed.

Lemma nth_set_nth_set : forall A (l : list A) i x y, nth_set (nth_set l i x) i y = nth_set l i y.
Proof. induction l as [|z l IH]; intros i x y; simpl; [reflexivity|]. destruct i; simpl; [reflexivity|]. rewrite IH. reflexivity. Qed.

Lemma nth_set_nth : forall A (l : list A) i d, nth_set l i (nth i l d) = l.
Proof. induction l as [|z l IH]; intros i d; simpl; [reflexivity|]. destruct i; simpl; [reflexivity|]. rewrite IH. reflexivity. Qed.

Lemma nth_set_app_last : forall A (l : list A) x y, nth_set (l ++ [x]) (length l) y = l ++ [y].
Proof. induction l as [|z l IH]; intros x y; simpl; [reflexivity|]. rewrite IH. reflexivity. Qed.

Lemma map_get_set_same : forall m k y, map_get m k <> None -> map_get (map_set m k y) k = Some y.
Proof.
  induction m as [|[k' v] m IH]; intros k y H; simpl in *; [contradiction|].
  destruct (key_eqb k' k) eqn:E; simpl; rewrite E; [reflexivity|]. apply IH. exact H.
Qed.

Lemma map_set_set : forall m k x y, map_get m k <> None -> map_set (map_set m k x) k y = map_set m k y.
Proof.
  induction m as [|[k' v] m IH]; intros k x y H; simpl in *; [contradiction|].
  destruct (key_eqb k' k) eqn:E; simpl; rewrite E; [reflexivity|]. rewrite IH by exact H. reflexivity.
Qed.

Lemma map_set_get : forall m k y, map_get m k = Some y -> map_set m k y = m.
Proof.
  induction m as [|[k' v] m IH]; intros k y H; simpl in *; [discriminate|].
  destruct (key_eqb k' k) eqn:E; [inversion H; subst; reflexivity|]. rewrite IH by exact H. reflexivity.
Qed.

(* the path leads somewhere *)
Fixpoint valid (v : val) (p : path) : Prop :=
  match p with
  | [] => True
  | PElem i :: r => match v with VList vis hid => i < length (vis ++ hid) /\ valid (nth i (vis ++ hid) VNil) r | _ => False end
  | PDeref :: r => match v with VPtr x => valid x r | _ => False end
  | PMapVal k :: r => match v with VMap m => match map_get m k with Some x => valid x r | None => False end | _ => False end
  end.

Lemma getp_nil : forall q, getp VNil q = VNil.
Proof. induction q as [|[] q IH]; simpl; reflexivity. Qed.

Lemma getp_app : forall p q v, getp v (p ++ q) = getp (getp v p) q.
Proof.
  induction p as [|st p IH]; intros q v; simpl; [reflexivity|].
  destruct st; destruct v; simpl; rewrite ?getp_nil; try reflexivity; try apply IH.
  destruct (map_get m k); [apply IH|rewrite getp_nil; reflexivity].
Qed.

Lemma setp_app : forall p q v x, setp v (p ++ q) x = setp v p (setp (getp v p) q x).
Proof.
  induction p as [|st p IH]; intros q v x; simpl; [reflexivity|].
  destruct st; destruct v; simpl; try reflexivity.
  - destruct (Nat.ltb i (length vis)) eqn:L.
    + apply Nat.ltb_lt in L. rewrite IH. rewrite (app_nth1 vis hid VNil L). reflexivity.
    + apply Nat.ltb_ge in L. rewrite IH. rewrite (app_nth2 vis hid VNil) by lia. reflexivity.
  - rewrite IH. reflexivity.
  - destruct (map_get m k) eqn:G; [|reflexivity]. rewrite IH. reflexivity.
Qed.

Lemma valid_app : forall p q v, valid v (p ++ q) <-> valid v p /\ valid (getp v p) q.
Proof.
  induction p as [|st p IH]; intros q v; simpl; [tauto|].
  destruct st; destruct v; simpl; try tauto.
  - rewrite IH. tauto.
  - apply IH.
  - destruct (map_get m k); [apply IH|tauto].
Qed.

Lemma getp_setp : forall p v x, valid v p -> getp (setp v p x) p = x.
Proof.
  induction p as [|st p IH]; intros v x V; simpl in *; [reflexivity|].
  destruct st; destruct v; try contradiction.
  - destruct V as [L V]. rewrite app_length in L.
    destruct (Nat.ltb i (length vis)) eqn:B.
    + apply Nat.ltb_lt in B. rewrite (app_nth1 vis hid VNil B) in V.
      rewrite app_nth1 by (rewrite nth_set_length; exact B). rewrite nth_nth_set by exact B. apply IH. exact V.
    + apply Nat.ltb_ge in B. rewrite (app_nth2 vis hid VNil) in V by lia.
      rewrite app_nth2 by lia. rewrite nth_nth_set by lia. apply IH. exact V.
  - apply IH. exact V.
  - destruct (map_get m k) eqn:G; [|contradiction]. simpl.
    rewrite map_get_set_same by (rewrite G; discriminate). apply IH. exact V.
Qed.

Lemma setp_setp : forall p v x y, valid v p -> setp (setp v p x) p y = setp v p y.
Proof.
  induction p as [|st p IH]; intros v x y V; simpl in *; [reflexivity|].
  destruct st; destruct v; try contradiction.
  - destruct V as [L V]. rewrite app_length in L.
    destruct (Nat.ltb i (length vis)) eqn:B; simpl.
    + rewrite nth_set_length, B. apply Nat.ltb_lt in B. rewrite (app_nth1 vis hid VNil B) in V.
      rewrite nth_nth_set by exact B. rewrite nth_set_nth_set. rewrite IH by exact V. reflexivity.
    + rewrite B. apply Nat.ltb_ge in B. rewrite (app_nth2 vis hid VNil) in V by lia.
      rewrite nth_nth_set by lia. rewrite nth_set_nth_set. rewrite IH by exact V. reflexivity.
  - simpl. rewrite IH by exact V. reflexivity.
  - destruct (map_get m k) eqn:G; [|contradiction]. simpl.
    rewrite map_get_set_same by (rewrite G; discriminate). rewrite map_set_set by (rewrite G; discriminate). rewrite IH by exact V. reflexivity.
Qed.

Lemma setp_getp : forall p v, valid v p -> setp v p (getp v p) = v.
Proof.
  induction p as [|st p IH]; intros v V; simpl in *; [reflexivity|].
  destruct st; destruct v; try contradiction.
  - destruct V as [L V]. rewrite app_length in L.
    destruct (Nat.ltb i (length vis)) eqn:B.
    + apply Nat.ltb_lt in B. rewrite (app_nth1 vis hid VNil B) in *. rewrite IH by exact V. rewrite nth_set_nth. reflexivity.
    + apply Nat.ltb_ge in B. rewrite (app_nth2 vis hid VNil) in * by lia. rewrite IH by exact V. rewrite nth_set_nth. reflexivity.
  - rewrite IH by exact V. reflexivity.
  - destruct (map_get m k) eqn:G; [|contradiction]. rewrite IH by exact V. rewrite map_set_get by exact G. reflexivity.
Qed.

Lemma valid_setp : forall p v x, valid v p -> valid (setp v p x) p.
Proof.
  induction p as [|st p IH]; intros v x V; simpl in *; [exact Logic.I|].
  destruct st; destruct v; try contradiction.
  - destruct V as [L V]. rewrite app_length in L.
    destruct (Nat.ltb i (length vis)) eqn:B; simpl; rewrite app_length, nth_set_length; (split; [lia|]).
    + apply Nat.ltb_lt in B. rewrite (app_nth1 vis hid VNil B) in V.
      rewrite app_nth1 by (rewrite nth_set_length; exact B). rewrite nth_nth_set by exact B. apply IH. exact V.
    + apply Nat.ltb_ge in B. rewrite (app_nth2 vis hid VNil) in V by lia.
      rewrite app_nth2 by lia. rewrite nth_nth_set by lia. apply IH. exact V.
  - simpl. apply IH. exact V.
  - destruct (map_get m k) eqn:G; [|contradiction]. simpl.
    rewrite map_get_set_same by (rewrite G; discriminate). apply IH. exact V.
Qed.

(* writing below a path that was just written *)
Lemma setp_setp_ext : forall p q v a x, valid v p -> setp (setp v p a) (p ++ q) x = setp v p (setp a q x).
Proof.
  intros p q v a x V. rewrite setp_app. rewrite getp_setp by exact V. apply setp_setp. exact V.
Qed.
