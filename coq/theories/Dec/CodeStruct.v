(* Dec/CodeStruct.v - the program of a struct in closed form (compileStructBody + compileFields at the top inline level):
   structs with at least one field, every field unquoted and of a type of the fragment `ilf` of Dec/Code.v.
   Header with the two copies of the key loop, the switch tables filled with the addresses of the field blocks,
   one block per field (index; lspace; <field type>; load; goto y0), the final drop:
       compileOps 0 (TStruct fs) p = p ++ scode fs (length p). *)
From Coq Require Import NArith Arith List Bool Lia.
From SV.Dec Require Import Ty Compile Code.
Import ListNotations.
Open Scope nat_scope.

(* every field is decoded by its type's program (no `,string` variant) and lies in the fragment *)
Fixpoint sfields (fs : fields) : bool :=
  match fs with
  | FNil => true
  | FCons _ q t r => negb (q && quotable t) && ilf t && sfields r
  end.

Fixpoint fcode (fs : fields) (i bb y0 : nat) : prog :=
  match fs with
  | FNil => []
  | FCons _ _ t r =>
    I OP_index i 0 TBool :: I OP_lspace 0 0 TBool :: code t (bb + 2) ++
    [I OP_load 0 0 TBool; I OP_goto y0 0 TBool] ++ fcode r (S i) (bb + clen t + 4) y0
  end.

Fixpoint fpos (fs : fields) (bb : nat) : list nat :=
  match fs with FNil => [] | FCons _ _ t r => bb :: fpos r (bb + clen t + 4) end.

Fixpoint fclen (fs : fields) : nat :=
  match fs with FNil => 0 | FCons _ _ t r => clen t + 4 + fclen r end.

Lemma fcode_len : forall fs i bb y0, length (fcode fs i bb y0) = fclen fs.
Proof.
  induction fs as [|nm q t r IH]; intros; [reflexivity|].
  cbn [fcode fclen length]. rewrite !app_length. cbn [length]. rewrite code_len, IH. lia.
Qed.

Lemma fpos_len : forall fs bb, length (fpos fs bb) = flen fs.
Proof. induction fs as [|nm q t r IH]; intros; [reflexivity|]. cbn [fpos flen length]. rewrite IH. reflexivity. Qed.

Definition sw_instr (sw : list nat) : instr := mkI OP_switch (length sw) 0 sw [] TBool.
Definition sf_instr (fm : list (bytes * nat)) : instr := mkI OP_struct_field 0 0 [] fm TBool.

Definition scode (fs : fields) (b : nat) : prog :=
  let fm := index_fm (fnames fs) 0 in
  let sw := fpos fs (b + 25) in
  let DROP := b + 25 + fclen fs in
  [I OP_is_null (DROP + 1) 0 TBool; I OP_check_char_0 (b + 4) 123 TBool; I OP_dismatch_err 0 0 TBool;
   I OP_go_skip (DROP + 1) 0 TBool; I OP_add 1 0 TBool; I OP_save 0 0 TBool; I OP_lspace 0 0 TBool;
   I OP_check_char DROP 125 TBool; I OP_match_char 0 34 TBool; sf_instr fm; I OP_lspace 0 0 TBool; I OP_match_char 0 58 TBool;
   sw_instr sw; I OP_object_next 0 0 TBool;
   I OP_lspace 0 0 TBool; I OP_check_char DROP 125 TBool; I OP_match_char 0 44 TBool; I OP_lspace 0 0 TBool;
   I OP_match_char 0 34 TBool; sf_instr fm; I OP_lspace 0 0 TBool; I OP_match_char 0 58 TBool;
   sw_instr sw; I OP_object_next 0 0 TBool; I OP_goto (b + 14) 0 TBool]
  ++ fcode fs 0 (b + 25) (b + 14) ++ [I OP_drop 0 0 TBool].

Lemma compileFields_reloc : forall fs y0, sfields fs = true -> forall p c sw,
  compileFields 1 y0 fs (p ++ c) sw =
  (p ++ c ++ fcode fs (length sw) (length p + length c) y0, sw ++ fpos fs (length p + length c)).
Proof.
  induction fs as [|nm q t r IH]; intros y0 F p c sw.
  - cbn [compileFields fcode fpos]. rewrite !app_nil_r. reflexivity.
  - cbn [sfields] in F. apply andb_true_iff in F. destruct F as [F Fr]. apply andb_true_iff in F. destruct F as [Fq Ft].
    apply negb_true_iff in Fq.
    cbn [compileFields]. rewrite Fq. rewrite checkMarshaler_ilf by exact Ft. norm.
    rewrite (compile_code t Ft). norm.
    match goal with |- compileFields _ _ _ (p ++ ?C) ?SW = _ => rewrite (IH y0 Fr p C SW) end.
    cbn [fcode fpos]. rewrite !app_length. cbn [length]. rewrite !app_length, code_len. cbn [length].
    replace (length sw + 1 - 1) with (length sw) by lia.
    replace (length sw + 1) with (S (length sw)) by lia.
    replace (length p + (length c + 2)) with (length p + length c + 2) by lia.
    replace (length p + (length c + S (S (clen t + 2)))) with (length p + length c + clen t + 4) by lia.
    rewrite ?Nat.add_assoc.
    f_equal; repeat (rewrite <- ?app_assoc; cbn [app]); reflexivity.
Qed.

Theorem compile_struct : forall nm q t r, sfields (FCons nm q t r) = true -> forall p,
  compileOps 0 (TStruct (FCons nm q t r)) p = p ++ scode (FCons nm q t r) (length p).
Proof.
  intros nm q t r F p. set (fs := FCons nm q t r) in *.
  assert (E : compileOps 0 (TStruct fs) p =
    (let n := pc p in
     let p := add p OP_is_null in
     let j := pc p in
     let p := chr p OP_check_char_0 123 in
     let p := rtt p OP_dismatch_err TBool in
     let fm := index_fm (fnames fs) 0 in
     let skip := pc p in
     let p := add p OP_go_skip in
     let p := pin p j in
     let p := int_ p OP_add 1 in
     let p := add p OP_save in
     let p := add p OP_lspace in
     let x := pc p in
     let p := chr p OP_check_char 125 in
     let p := chr p OP_match_char 34 in
     let p := fmv p fm in
     let p := add p OP_lspace in
     let p := chr p OP_match_char 58 in
     let sw1 := pc p in
     let p := tab p in
     let p := add p OP_object_next in
     let y0 := pc p in
     let p := add p OP_lspace in
     let y1 := pc p in
     let p := chr p OP_check_char 125 in
     let p := chr p OP_match_char 44 in
     let p := add p OP_lspace in
     let p := chr p OP_match_char 34 in
     let p := fmv p fm in
     let p := add p OP_lspace in
     let p := chr p OP_match_char 58 in
     let sw2 := pc p in
     let p := tab p in
     let p := add p OP_object_next in
     let p := int_ p OP_goto y0 in
     let '(p, sw) := compileFields 1 y0 fs p [] in
     let setsw := fun x => mkI (i_op x) (length sw) (i_vb x) sw (i_fm x) (i_t x) in
     let p := upd (upd p sw1 setsw) sw2 setsw in
     let p := pin p x in
     let p := pin p y1 in
     let p := add p OP_drop in
     let p := pin p n in
     pin p skip)) by reflexivity.
  rewrite E. clear E. cbv zeta. unfold fmv, tab. norm.
  rewrite (compileFields_reloc fs _ F p). cbn [length app]. norm. rewrite ?upd_app_r.
  unfold scode, sw_instr, sf_instr, setvi, I. cbn [i_op i_vb i_vs i_fm i_t fs fcode fpos fclen fnames flen].
  rewrite ?app_length, ?fcode_len, ?fpos_len, ?code_len. cbn [length]. rewrite ?app_length, ?fcode_len, ?fpos_len, ?code_len. cbn [length].
  repeat (rewrite <- ?app_assoc; cbn [app]).
  repeat (f_equal; try lia).
Qed.
