(* Dec/Parse.v - reference JSON reader to a tree.
   `lparse ctl s` accepts the *structural* grammar: RFC 8259 where a string body is any byte sequence in which a
   backslash protects the following byte and that ends at the first unprotected quote (raw control characters
   rejected when ctl = true); numbers and literals are strict.  Containers keep their source text (needed by
   json.RawMessage / Unmarshaler leaves).  `strict_jv` adds the lexical conditions of RFC 8259 on string
   bodies; `parse` = structural /\ strict is what encoding/json accepts. *)
From Coq Require Import NArith ZArith List Bool Lia.
From SV.Dec Require Import Ty.
Import ListNotations.
Open Scope N_scope.

Inductive jv :=
| JNull | JTrue | JFalse
| JNum (text : bytes)
| JStr (body : bytes)
| JArr (raw : bytes) (l : list jv)
| JObj (raw : bytes) (l : list (bytes * jv)).

Definition is_ws (c : N) : bool := (c =? 32) || (c =? 9) || (c =? 10) || (c =? 13).
Definition is_digit (c : N) : bool := (48 <=? c) && (c <=? 57).

Fixpoint skip_ws (s : bytes) : bytes :=
  match s with
  | c :: r => if is_ws c then skip_ws r else s
  | [] => []
  end.

Definition all_ws (s : bytes) : bool := forallb is_ws s.

(* body of a string literal; s starts just after the opening quote *)
Fixpoint scan_str (ctl : bool) (s : bytes) (acc : bytes) : option (bytes * bytes) :=
  match s with
  | [] => None
  | c :: r =>
    if c =? 34 then Some (rev acc, r)
    else if c =? 92 then
      match r with
      | [] => None
      | d :: r' => scan_str ctl r' (d :: c :: acc)
      end
    else if ctl && (c <? 32) then None
    else scan_str ctl r (c :: acc)
  end.

Fixpoint take_digits (s : bytes) (acc : bytes) : bytes * bytes :=
  match s with
  | c :: r => if is_digit c then take_digits r (c :: acc) else (acc, s)
  | [] => (acc, [])
  end.

(* strict JSON number: -? (0 | [1-9][0-9]* ) (. [0-9]+)? ([eE] [+-]? [0-9]+)?   acc is reversed *)
Definition scan_num (s : bytes) : option (bytes * bytes) :=
  let '(acc, s1) := match s with c :: r => if c =? 45 then ([c], r) else ([], s) | [] => ([], s) end in
  match s1 with
  | [] => None
  | c :: r =>
    if negb (is_digit c) then None else
    let '(acc, s2) := if c =? 48 then (c :: acc, r) else take_digits s1 acc in
    let frac :=
      match s2 with
      | d :: r2 =>
        if d =? 46 then
          match r2 with
          | e :: _ => if is_digit e then Some (take_digits r2 (d :: acc)) else None
          | [] => None
          end
        else Some (acc, s2)
      | [] => Some (acc, s2)
      end in
    match frac with
    | None => None
    | Some (acc, s3) =>
      match s3 with
      | e :: r3 =>
        if (e =? 101) || (e =? 69) then
          let '(acc', r4) := match r3 with
                             | g :: r4 => if (g =? 43) || (g =? 45) then (g :: e :: acc, r4) else (e :: acc, r3)
                             | [] => (e :: acc, r3)
                             end in
          match r4 with
          | d :: _ => if is_digit d then let '(a, rest) := take_digits r4 acc' in Some (rev a, rest) else None
          | [] => None
          end
        else Some (rev acc, s3)
      | [] => Some (rev acc, s3)
      end
    end
  end.

Definition span (s rest : bytes) : bytes := firstn (length s - length rest) s.

Definition lit (w : bytes) (s : bytes) : option bytes :=
  if (fix pre (w s : bytes) : bool :=
        match w, s with
        | [], _ => true
        | x :: w', y :: s' => (x =? y) && pre w' s'
        | _, [] => false
        end) w s
  then Some (skipn (length w) s) else None.

Fixpoint pvalue (fuel : nat) (ctl : bool) (s : bytes) {struct fuel} : option (jv * bytes) :=
  match fuel with
  | O => None
  | S f =>
    let s := skip_ws s in
    match s with
    | [] => None
    | c :: r =>
      if c =? 123 then
        let r' := skip_ws r in
        match r' with
        | d :: r2 =>
          if d =? 125 then Some (JObj (span s r2) [], r2)
          else match pmembers f ctl r' [] with
               | Some (ms, rest) => Some (JObj (span s rest) ms, rest)
               | None => None
               end
        | [] => None
        end
      else if c =? 91 then
        let r' := skip_ws r in
        match r' with
        | d :: r2 =>
          if d =? 93 then Some (JArr (span s r2) [], r2)
          else match pelems f ctl r' [] with
               | Some (es, rest) => Some (JArr (span s rest) es, rest)
               | None => None
               end
        | [] => None
        end
      else if c =? 34 then
        match scan_str ctl r [] with
        | Some (b, rest) => Some (JStr b, rest)
        | None => None
        end
      else if c =? 116 then match lit [116; 114; 117; 101] s with Some rest => Some (JTrue, rest) | None => None end
      else if c =? 102 then match lit [102; 97; 108; 115; 101] s with Some rest => Some (JFalse, rest) | None => None end
      else if c =? 110 then match lit [110; 117; 108; 108] s with Some rest => Some (JNull, rest) | None => None end
      else match scan_num s with
           | Some (t, rest) => Some (JNum t, rest)
           | None => None
           end
    end
  end
with pelems (fuel : nat) (ctl : bool) (s : bytes) (acc : list jv) {struct fuel} : option (list jv * bytes) :=
  match fuel with
  | O => None
  | S f =>
    match pvalue f ctl s with
    | None => None
    | Some (v, rest) =>
      match skip_ws rest with
      | c :: r =>
        if c =? 44 then pelems f ctl r (v :: acc)
        else if c =? 93 then Some (rev (v :: acc), r)
        else None
      | [] => None
      end
    end
  end
with pmembers (fuel : nat) (ctl : bool) (s : bytes) (acc : list (bytes * jv)) {struct fuel}
  : option (list (bytes * jv) * bytes) :=
  match fuel with
  | O => None
  | S f =>
    match skip_ws s with
    | q :: r =>
      if negb (q =? 34) then None else
      match scan_str ctl r [] with
      | None => None
      | Some (k, rest) =>
        match skip_ws rest with
        | c :: r2 =>
          if negb (c =? 58) then None else
          match pvalue f ctl r2 with
          | None => None
          | Some (v, rest2) =>
            match skip_ws rest2 with
            | d :: r3 =>
              if d =? 44 then pmembers f ctl r3 ((k, v) :: acc)
              else if d =? 125 then Some (rev ((k, v) :: acc), r3)
              else None
            | [] => None
            end
          end
        | [] => None
        end
      end
    | [] => None
    end
  end.

Definition parse_fuel (s : bytes) : nat := 2 * length s + 2.

(* one value then only whitespace (Decoder.CheckTrailings) *)
Definition lparse (ctl : bool) (s : bytes) : option jv :=
  match pvalue (parse_fuel s) ctl s with
  | Some (v, rest) => if all_ws rest then Some v else None
  | None => None
  end.

(* source text of a value (what skip_one hands to an Unmarshaler) *)
Definition raw_of (j : jv) : bytes :=
  match j with
  | JNull => [110; 117; 108; 108]
  | JTrue => [116; 114; 117; 101]
  | JFalse => [102; 97; 108; 115; 101]
  | JNum t => t
  | JStr b => 34 :: b ++ [34]
  | JArr raw _ => raw
  | JObj raw _ => raw
  end.
