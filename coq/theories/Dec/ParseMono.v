(* Dec/ParseMono.v - the reader that refuses raw control characters inside strings accepts a subset of what the
   lenient one accepts, with the same tree. *)
From Coq Require Import NArith ZArith List Bool Lia.
From SV.Dec Require Import Ty Parse.
Import ListNotations.
Open Scope N_scope.

Lemma scan_str_mono_n : forall n s acc r, (length s <= n)%nat ->
  scan_str true s acc = Some r -> scan_str false s acc = Some r.
Proof.
  induction n as [|n IH]; intros s acc r L H.
  - destruct s; [simpl in H; discriminate|simpl in L; lia].
  - destruct s as [|c s']; [simpl in H; discriminate|]. simpl in *.
    destruct (c =? 34); [exact H|].
    destruct (c =? 92).
    + destruct s' as [|d s'']; [discriminate|]. apply IH; [simpl in L; lia|exact H].
    + destruct (c <? 32); [discriminate|]. apply IH; [lia|exact H].
Qed.

Lemma scan_str_mono : forall s acc r, scan_str true s acc = Some r -> scan_str false s acc = Some r.
Proof. intros. eapply scan_str_mono_n; eauto. Qed.

Definition Pv (f : nat) := forall s r, pvalue f true s = Some r -> pvalue f false s = Some r.
Definition Pe (f : nat) := forall s acc r, pelems f true s acc = Some r -> pelems f false s acc = Some r.
Definition Pm (f : nat) := forall s acc r, pmembers f true s acc = Some r -> pmembers f false s acc = Some r.

Lemma parse_mono_all : forall f, Pv f /\ Pe f /\ Pm f.
Proof.
  induction f as [|f [IHv [IHe IHm]]].
  - repeat split; intros ? *; simpl; discriminate.
  - repeat split.
    + (* pvalue *)
      intros s r H. simpl in *. destruct (skip_ws s) as [|c s1] eqn:W; [discriminate|].
      destruct (c =? 123).
      { destruct (skip_ws s1) as [|d s2]; [discriminate|]. destruct (d =? 125); [exact H|].
        destruct (pmembers f true (d :: s2) []) as [[ms rest]|] eqn:M; [|discriminate].
        rewrite (IHm _ _ _ M). exact H. }
      destruct (c =? 91).
      { destruct (skip_ws s1) as [|d s2]; [discriminate|]. destruct (d =? 93); [exact H|].
        destruct (pelems f true (d :: s2) []) as [[es rest]|] eqn:M; [|discriminate].
        rewrite (IHe _ _ _ M). exact H. }
      destruct (c =? 34).
      { destruct (scan_str true s1 []) as [[bd rest]|] eqn:M; [|discriminate]. rewrite (scan_str_mono _ _ _ M). exact H. }
      exact H.
    + (* pelems *)
      intros s acc r H. simpl in *.
      destruct (pvalue f true s) as [[v rest]|] eqn:M; [|discriminate]. rewrite (IHv _ _ M).
      destruct (skip_ws rest) as [|c r1]; [discriminate|].
      destruct (c =? 44); [apply IHe; exact H|exact H].
    + (* pmembers *)
      intros s acc r H. simpl in *.
      destruct (skip_ws s) as [|q r1]; [discriminate|]. destruct (negb (q =? 34)); [discriminate|].
      destruct (scan_str true r1 []) as [[k rest]|] eqn:M; [|discriminate]. rewrite (scan_str_mono _ _ _ M).
      destruct (skip_ws rest) as [|c r2]; [discriminate|]. destruct (negb (c =? 58)); [discriminate|].
      destruct (pvalue f true r2) as [[v rest2]|] eqn:M2; [|discriminate]. rewrite (IHv _ _ M2).
      destruct (skip_ws rest2) as [|d r3]; [discriminate|].
      destruct (d =? 44); [apply IHm; exact H|exact H].
Qed.

Theorem lparse_mono : forall s j, lparse true s = Some j -> lparse false s = Some j.
Proof.
  intros s j H. unfold lparse in *. destruct (pvalue (parse_fuel s) true s) as [[v rest]|] eqn:M; [|discriminate].
  rewrite (proj1 (parse_mono_all _) _ _ M). exact H.
Qed.

Corollary lparse_none_mono : forall s, lparse false s = None -> lparse true s = None.
Proof. intros s H. destruct (lparse true s) eqn:E; [apply lparse_mono in E; congruence|reflexivity]. Qed.
