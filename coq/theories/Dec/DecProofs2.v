(* Dec/DecProofs2.v - agreement of the two binders on the larger fragment: maps (string / integer /
   TextUnmarshaler keys) and `,string` fields added, under the no-collision discipline: every object of the
   document has pairwise distinct keys (as strings after lower-casing, and as integers), the initial value holds
   no non-empty map.  Then no map element and no struct field is decoded twice, which is where sonic (decode over
   the existing element) and encoding/json (fresh zero element) differ. *)
From Coq Require Import NArith ZArith List Bool Lia.
From SV.Dec Require Import Ty Val Parse Text Num Common FieldMap FieldMapProofs FieldLookup Range StdBind SonicBind DecProofs OptProofs.
Import ListNotations.
Open Scope N_scope.

Arguments sunq : simpl never.
Arguments sonic_int : simpl never.
Arguments sonic_f64 : simpl never.

(* no non-empty map anywhere in a value *)
Fixpoint nomap (v : val) : bool :=
  match v with
  | VList vis hid => forallb nomap vis && forallb nomap hid
  | VMap m => match m with [] => true | _ => false end
  | VPtr x => nomap x
  | _ => true
  end.

Lemma nomap_zero : (forall t, nomap (zero t) = true) /\ (forall fs, forallb nomap (zero_fields fs) = true).
Proof.
  assert (H : forall t, nomap (zero t) = true).
  - apply (ty_mut (fun t => nomap (zero t) = true) (fun fs => forallb nomap (zero_fields fs) = true)); simpl; intros; auto.
    + rewrite forallb_repeat by assumption. reflexivity.
    + rewrite H. reflexivity.
    + rewrite H, H0. reflexivity.
  - split; [exact H|]. induction fs; simpl; [reflexivity|]. rewrite H. exact IHfs.
Qed.

Lemma nomap_nth : forall l i, forallb nomap l = true -> nomap (nth i l VNil) = true.
Proof.
  induction l as [|x r IH]; intros [|i] H; simpl; try reflexivity; simpl in H; apply andb_prop in H as [? ?]; auto.
Qed.

Lemma bind_elems_pred : forall (pr : val -> bool) (f g : jv -> val -> res val) z l old,
  pr z = true -> forallb pr old = true ->
  Forall (fun x => forall v, pr v = true -> f x v = g x v) l ->
  bind_elems f z l old = bind_elems g z l old.
Proof.
  intros pr f g z l. induction l as [|x r IH]; intros old Hz Hold H; simpl; [reflexivity|].
  inversion H as [|? ? Hx Hr]; subst.
  assert (Hcur : pr (match old with x0 :: _ => x0 | [] => z end) = true).
  { destruct old; [exact Hz|]. simpl in Hold. apply andb_prop in Hold as [? ?]. assumption. }
  assert (Htl : forallb pr (tl old) = true).
  { destruct old; [reflexivity|]. simpl in Hold. apply andb_prop in Hold as [? ?]. assumption. }
  rewrite (Hx _ Hcur). destruct (g x _); simpl; try reflexivity.
  rewrite (IH (tl old) Hz Htl Hr). reflexivity.
Qed.

(* a text that starts like a number is a JSON number (strconv-only spellings are outside the models) *)
Definition qn_ok (b : bytes) : bool :=
  match b with
  | c :: _ => if (c =? 45) || is_digit c then is_number_text b else true
  | [] => true
  end.

(* the key of a member as the map decoders see it: an integer when it reads as one, else the text *)
Definition knf (kv : bytes * jv) : bytes + Z :=
  match int_of_text (fst kv) with Some z => inr z | None => inl (fst kv) end.

Section Agree2.
  Variable h : bytes -> N.
  Variable o : opts.

  (* strings that both unquoters leave unchanged (no escape, no quote, no control character, ASCII), that are
     JSON numbers when they look like numbers, and that are not the text -0 *)
  Definition sfix (b : bytes) : Prop :=
    unq b = Some b /\ sunq Jit o b = Some b /\ is_ascii b = true /\ qn_ok b = true /\ minus_zero b = false /\
    existsb (fun c => (c =? 34) || (c =? 92)) b = false /\
    (int_of_text b = None -> go_parse_int (match b with c :: r => if c =? 43 then r else b | [] => b end) = None).

  Fixpoint once2 (j : jv) : Prop :=
    match j with
    | JArr _ l => (fix all (l : list jv) : Prop := match l with [] => True | x :: r => once2 x /\ all r end) l
    | JObj _ l => NoDup (map (fun kv => to_lower (fst kv)) l) /\ NoDup (map knf l) /\
                  (fix all (l : list (bytes * jv)) : Prop := match l with [] => True | x :: r => once2 (snd x) /\ all r end) l
    | _ => True
    end.

  Record guards2 (j : jv) : Prop := {
    s_fix : Forall sfix (jv_strings j);
    s_num : Forall (fun t => minus_zero t = false) (jv_nums j);
    s_once : once2 j
  }.

  Lemma g2_arr : forall raw l, guards2 (JArr raw l) -> Forall guards2 l.
  Proof.
    intros raw l [G1 G2 G3]. simpl in *. induction l as [|x r IH]; constructor.
    - simpl in *. apply Forall_app in G1 as [? ?]. apply Forall_app in G2 as [? ?]. destruct G3 as [? ?]. constructor; assumption.
    - simpl in *. apply Forall_app in G1 as [? ?]. apply Forall_app in G2 as [? ?]. destruct G3 as [? ?]. apply IH; assumption.
  Qed.

  Lemma g2_obj : forall raw l, guards2 (JObj raw l) ->
    NoDup (map (fun kv => to_lower (fst kv)) l) /\ NoDup (map knf l) /\
    Forall (fun kv => sfix (fst kv) /\ guards2 (snd kv)) l.
  Proof.
    intros raw l [G1 G2 [N1 [N2 G3]]]. split; [exact N1|]. split; [exact N2|]. clear N1 N2. simpl in G1, G2.
    induction l as [|[k x] r IH]; constructor.
    - simpl in *. inversion G1 as [|? ? Hk G1']; subst. apply Forall_app in G1' as [? ?]. apply Forall_app in G2 as [? ?]. destruct G3 as [? ?].
      split; [exact Hk|]. constructor; assumption.
    - simpl in *. inversion G1 as [|? ? Hk G1']; subst. apply Forall_app in G1' as [? ?]. apply Forall_app in G2 as [? ?]. destruct G3 as [? ?].
      apply IH; assumption.
  Qed.

  (* guards2 gives the guards of the smaller theorem *)
  Lemma sfix_str_ok : forall b, sfix b -> str_ok o b /\ key_ok b.
  Proof.
    intros b [U [S [A _]]]. split.
    - split; [congruence|]. rewrite U. destruct (is_number_text b); reflexivity.
    - intros s Hs. rewrite U in Hs. inversion Hs; subst. exact A.
  Qed.

  Lemma guards2_guards : forall j, guards2 j -> guards o j.
  Proof.
    induction j as [| | |t|b|raw l IH|raw l IH] using jv_ind2; intros G.
    - constructor; simpl; constructor.
    - constructor; simpl; constructor.
    - constructor; simpl; constructor.
    - destruct G as [_ G2 _]. constructor; simpl; try constructor; auto. inversion G2; assumption.
    - destruct G as [G1 _ _]. simpl in G1. inversion G1 as [|? ? Hb _]; subst. destruct (sfix_str_ok _ Hb).
      constructor; simpl; [constructor; [assumption|constructor]|constructor|constructor].
    - pose proof (g2_arr _ _ G) as GA. clear G.
      assert (A : Forall (guards o) l).
      { induction l as [|x r IHl]; [constructor|]. inversion IH as [|? ? Hx IHr]; subst. inversion GA as [|? ? Gx GAr]; subst.
        constructor; [apply Hx; exact Gx|apply IHl; assumption]. }
      clear IH GA. constructor; simpl.
      + induction l as [|x r IHl]; [constructor|]. inversion A as [|? ? [A1 A2 A3] Ar]; subst. simpl. apply Forall_app. split; [exact A1|apply IHl; exact Ar].
      + induction l as [|x r IHl]; [constructor|]. inversion A as [|? ? [A1 A2 A3] Ar]; subst. simpl. apply Forall_app. split; [exact A2|apply IHl; exact Ar].
      + induction l as [|x r IHl]; [constructor|]. inversion A as [|? ? [A1 A2 A3] Ar]; subst. simpl. apply Forall_app. split; [exact A3|apply IHl; exact Ar].
    - destruct (g2_obj _ _ G) as [_ [_ GO]]. clear G.
      assert (A : Forall (fun kv => str_ok o (fst kv) /\ key_ok (fst kv) /\ guards o (snd kv)) l).
      { induction l as [|[k x] r IHl]; [constructor|]. inversion IH as [|? ? Hx IHr]; subst. inversion GO as [|? ? [Hk Gx] GOr]; subst.
        simpl in *. destruct (sfix_str_ok _ Hk). constructor; [split; [assumption|split; [assumption|apply Hx; exact Gx]]|apply IHl; assumption]. }
      clear IH GO. constructor; simpl.
      + induction l as [|[k x] r IHl]; [constructor|]. inversion A as [|? ? [S1 [K1 [A1 A2 A3]]] Ar]; subst. simpl in *.
        constructor; [exact S1|]. apply Forall_app. split; [exact A1|apply IHl; exact Ar].
      + induction l as [|[k x] r IHl]; [constructor|]. inversion A as [|? ? [S1 [K1 [A1 A2 A3]]] Ar]; subst. simpl in *.
        constructor; [exact K1|]. apply Forall_app. split; [exact A2|apply IHl; exact Ar].
      + induction l as [|[k x] r IHl]; [constructor|]. inversion A as [|? ? [S1 [K1 [A1 A2 A3]]] Ar]; subst. simpl in *.
        apply Forall_app. split; [exact A3|apply IHl; exact Ar].
  Qed.

  (* ---- heads of texts ---- *)
  Definition numhead (c : N) : bool := (c =? 45) || is_digit c.

  Lemma int_of_text_head : forall c r, numhead c = false -> int_of_text (c :: r) = None.
  Proof.
    intros c r H. unfold numhead in H. apply orb_false_iff in H as [H1 H2]. unfold int_of_text. rewrite H1.
    assert (E48 : (c =? 48) = false).
    { unfold is_digit in H2. destruct (c =? 48) eqn:E; [|reflexivity]. apply N.eqb_eq in E. subst c. discriminate. }
    rewrite E48. simpl. rewrite H2. reflexivity.
  Qed.

  Lemma number_text_head : forall c r, numhead c = false -> is_number_text (c :: r) = false.
  Proof.
    intros c r H. unfold numhead in H. apply orb_false_iff in H as [H1 H2]. unfold is_number_text, scan_num. rewrite H1, H2. reflexivity.
  Qed.

  Lemma eqb_head : forall c r w d, (c =? d) = false -> bytes_eqb (c :: r) (d :: w) = false.
  Proof. intros. simpl. rewrite H. reflexivity. Qed.

  Lemma int_of_text_go : forall b z, int_of_text b = Some z -> go_parse_int b = Some z.
  Proof.
    intros b z H. unfold int_of_text in H. unfold go_parse_int.
    destruct b as [|c r]; [discriminate|].
    destruct (c =? 45) eqn:E.
    - destruct r as [|c2 r2]; [discriminate|].
      destruct ((c2 =? 48) && negb (match r2 with [] => true | _ => false end)); [discriminate|].
      destruct (digits_val (c2 :: r2) 0); [exact H|discriminate].
    - destruct ((c =? 48) && negb (match r with [] => true | _ => false end)); [discriminate|].
      destruct (digits_val (c :: r) 0); [exact H|discriminate].
  Qed.

  (* ---- map keys ---- *)
  Lemma key_agree : forall k kb, sfix kb -> sonic_key Jit o k kb = std_key k kb.
  Proof.
    intros k kb [U [S [A [Q [M [E G]]]]]]. destruct k; unfold sonic_key, std_key.
    - rewrite S. reflexivity.
    - destruct (int_of_text kb) as [z|] eqn:I.
      + cbn [is_opt]. rewrite range_map_key_spec.
        destruct (is_signed k); destruct (match kb with c :: _ => c =? 45 | [] => false end); reflexivity.
      + cbn [not_json is_opt]. rewrite (G eq_refl). reflexivity.
    - rewrite S. reflexivity.
  Qed.

  (* distinct keys of a document give distinct map keys *)
  Lemma key_distinct : forall k kb1 kb2 x1 x2 kv1 kv2,
    std_key k kb1 = Ok kv1 -> std_key k kb2 = Ok kv2 -> key_eqb kv1 kv2 = true -> knf (kb1, x1) = knf (kb2, x2).
  Proof.
    intros k kb1 kb2 x1 x2 kv1 kv2 H1 H2 E. unfold knf. simpl. destruct k; unfold std_key in *.
    - inversion H1; inversion H2; subst. simpl in E. apply bytes_eqb_eq in E. subst. reflexivity.
    - destruct (int_of_text kb1) as [z1|]; [|destruct (go_parse_int _); discriminate].
      destruct (int_of_text kb2) as [z2|]; [|destruct (go_parse_int _); discriminate].
      destruct (is_signed k || negb _); [|discriminate]. destruct (in_range k z1); [|discriminate]. inversion H1; subst.
      destruct (is_signed k || negb _); [|discriminate]. destruct (in_range k z2); [|discriminate]. inversion H2; subst.
      simpl in E. apply Z.eqb_eq in E. subst. reflexivity.
    - destruct (bytes_eqb kb1 lit_ERR); [discriminate|]. destruct (bytes_eqb kb2 lit_ERR); [discriminate|].
      inversion H1; inversion H2; subst. simpl in E. apply bytes_eqb_eq in E. subst. reflexivity.
  Qed.

  (* ---- `,string` ---- *)
  Definition base (t : ty) : bool := match t with TBool | TInt _ | TF64 | TStr | TNum => true | _ => false end.
  Definition quotable2 (t : ty) : bool := match t with TPtr e => base e | _ => base t end.

  Lemma no_quote_head : forall c r, existsb (fun c => (c =? 34) || (c =? 92)) (c :: r) = false -> (c =? 34) = false /\ (c =? 92) = false.
  Proof. intros c r H. simpl in H. apply orb_false_iff in H as [H _]. apply orb_false_iff in H. exact H. Qed.

  Lemma quoted_base_agree : forall t b v, base t = true -> sfix b -> b <> [] ->
    (if bytes_eqb b lit_null then Ok v else sonic_quoted_base Jit o t b) = std_quoted_base t b v.
  Proof.
    intros t b v Bt [U [S [A [Q [M [E G]]]]]] Hne. destruct b as [|c r]; [congruence|]. clear Hne.
    destruct (no_quote_head _ _ E) as [E34 E92].
    unfold std_quoted_base. destruct (c =? 110) eqn:Cn.
    - (* starts with n *)
      destruct (bytes_eqb (c :: r) lit_null) eqn:N; [reflexivity|].
      assert (NH : numhead c = false) by (apply N.eqb_eq in Cn; subst c; reflexivity).
      destruct t; try discriminate; unfold sonic_quoted_base; cbn [not_json is_opt].
      + apply N.eqb_eq in Cn. subst c. reflexivity.
      + rewrite (int_of_text_head _ _ NH). reflexivity.
      + rewrite (number_text_head _ _ NH). reflexivity.
      + destruct r as [|c2 r2]; [reflexivity|]. rewrite E92. reflexivity.
      + rewrite (number_text_head _ _ NH). reflexivity.
    - assert (NN : bytes_eqb (c :: r) lit_null = false) by (apply eqb_head; exact Cn). rewrite NN.
      destruct ((c =? 116) || (c =? 102)) eqn:Ctf.
      + (* starts with t or f *)
        assert (NH : numhead c = false).
        { apply orb_true_iff in Ctf as [H|H]; apply N.eqb_eq in H; subst c; reflexivity. }
        destruct t; try discriminate; unfold sonic_quoted_base; cbn [not_json is_opt]; try reflexivity.
        * rewrite (int_of_text_head _ _ NH). reflexivity.
        * rewrite (number_text_head _ _ NH). reflexivity.
        * destruct r as [|c2 r2]; [reflexivity|]. rewrite E92. reflexivity.
        * rewrite (number_text_head _ _ NH). reflexivity.
      + rewrite E34. destruct ((c =? 45) || is_digit c) eqn:Cd.
        * (* a number *)
          assert (NT : is_number_text (c :: r) = true) by (unfold qn_ok in Q; rewrite Cd in Q; exact Q).
          assert (T1 : bytes_eqb (c :: r) lit_true = false).
          { apply eqb_head. apply orb_false_iff in Ctf. tauto. }
          assert (T2 : bytes_eqb (c :: r) lit_false = false).
          { apply eqb_head. apply orb_false_iff in Ctf. tauto. }
          destruct t; try discriminate; unfold sonic_quoted_base; cbn [not_json is_opt].
          -- rewrite T1, T2. reflexivity.
          -- destruct (int_of_text (c :: r)) as [z|] eqn:I.
             ++ rewrite (int_of_text_go _ _ I). unfold sonic_int. rewrite I. rewrite range_op_spec.
                simpl. destruct (is_signed k); destruct (c =? 45); reflexivity.
             ++ assert (G' : go_parse_int (c :: r) = None).
                { specialize (G eq_refl). destruct (c =? 43) eqn:C43; [|exact G].
                  apply N.eqb_eq in C43. subst c. discriminate. }
                rewrite G'. reflexivity.
          -- rewrite NT. unfold sonic_f64. rewrite M. reflexivity.
          -- destruct r as [|c2 r2]; [reflexivity|]. rewrite E92. reflexivity.
          -- rewrite NT. reflexivity.
        * (* anything else *)
          assert (NH : numhead c = false) by exact Cd.
          assert (T1 : bytes_eqb (c :: r) lit_true = false).
          { apply eqb_head. apply orb_false_iff in Ctf. tauto. }
          assert (T2 : bytes_eqb (c :: r) lit_false = false).
          { apply eqb_head. apply orb_false_iff in Ctf. tauto. }
          destruct t; try discriminate; unfold sonic_quoted_base; cbn [not_json is_opt].
          -- rewrite T1, T2. reflexivity.
          -- rewrite (int_of_text_head _ _ NH). reflexivity.
          -- rewrite (number_text_head _ _ NH). reflexivity.
          -- destruct r as [|c2 r2]; [reflexivity|]. rewrite E92. reflexivity.
          -- rewrite (number_text_head _ _ NH). reflexivity.
  Qed.

  Lemma quoted_agree : forall t j v, quotable2 t = true -> guards2 j ->
    sonic_quoted Jit o t j v = std_quoted t j v.
  Proof.
    intros t j v Q G. destruct j; try reflexivity.
    destruct G as [G1 _ _]. simpl in G1. inversion G1 as [|? ? Hb _]; subst.
    pose proof Hb as [U [S [A [Qn [M [E Gk]]]]]].
    unfold sonic_quoted, std_quoted. rewrite U.
    destruct t; try discriminate; simpl in Q.
    - (* TBool *) destruct body as [|c r]; [reflexivity|].
      rewrite <- (quoted_base_agree TBool (c :: r) v eq_refl Hb ltac:(discriminate)).
      destruct (bytes_eqb (c :: r) lit_null); reflexivity.
    - (* TInt *) destruct body as [|c r]; [reflexivity|].
      rewrite <- (quoted_base_agree (TInt k) (c :: r) v eq_refl Hb ltac:(discriminate)).
      destruct (bytes_eqb (c :: r) lit_null); reflexivity.
    - (* TF64 *) destruct body as [|c r]; [reflexivity|].
      rewrite <- (quoted_base_agree TF64 (c :: r) v eq_refl Hb ltac:(discriminate)).
      destruct (bytes_eqb (c :: r) lit_null); reflexivity.
    - (* TStr *) destruct body as [|c r]; [reflexivity|].
      rewrite <- (quoted_base_agree TStr (c :: r) v eq_refl Hb ltac:(discriminate)).
      destruct (bytes_eqb (c :: r) lit_null); reflexivity.
    - (* TNum *) destruct body as [|c r]; [reflexivity|].
      rewrite <- (quoted_base_agree TNum (c :: r) v eq_refl Hb ltac:(discriminate)).
      destruct (bytes_eqb (c :: r) lit_null); reflexivity.
    - (* TPtr *) destruct body as [|c r]; [reflexivity|].
      set (cur := match v with VPtr x => x | _ => zero t end).
      pose proof (quoted_base_agree t (c :: r) cur Q Hb ltac:(discriminate)) as B.
      destruct (c =? 110) eqn:Cn.
      + destruct (bytes_eqb (c :: r) lit_null) eqn:N; [reflexivity|].
        (* starts with n but is not null: the base reader fails *)
        unfold std_quoted_base in B. rewrite Cn, N in B. rewrite B. reflexivity.
      + assert (NN : bytes_eqb (c :: r) lit_null = false) by (apply eqb_head; exact Cn).
        rewrite NN in B |- *. rewrite B. reflexivity.
  Qed.

  (* ---- the larger fragment ---- *)
  Fixpoint frag2 (t : ty) : bool :=
    match t with
    | TBool | TInt _ | TF64 | TStr | TNum | TAny => true
    | TPtr e | TSlice e | TArr _ e | TMap _ e => frag2 e
    | TStruct fs => frag2_fields fs && nodupb (fnames fs)
    | _ => false
    end
  with frag2_fields (fs : fields) : bool :=
    match fs with
    | FNil => true
    | FCons n q t r => is_ascii n && frag2 t && frag2_fields r
    end.

  Lemma frag2_fields_ascii : forall fs, frag2_fields fs = true -> Forall (fun n => is_ascii n = true) (fnames fs).
  Proof.
    induction fs as [|n q t r IH]; intro H; simpl; [constructor|]. simpl in H.
    apply andb_prop in H as [H Hr]. apply andb_prop in H as [Hn Ht]. constructor; [exact Hn|apply IH; exact Hr].
  Qed.

  Lemma quotable_frag2 : forall t, frag2 t = true -> quotable t = true -> quotable2 t = true.
  Proof.
    intros t F Q. destruct t; simpl in *; try reflexivity; try discriminate.
    destruct t; simpl in *; try reflexivity; try discriminate.
  Qed.

  Lemma forallb_app2 : forall A (p : A -> bool) a b, forallb p a = true -> forallb p b = true -> forallb p (a ++ b) = true.
  Proof. intros. rewrite forallb_app. rewrite H, H0. reflexivity. Qed.

  Definition P2 (t : ty) : Prop :=
    frag2 t = true -> forall j v, strict_jv j = true -> guards2 j -> nomap v = true ->
    sonic_bind h Jit o t j v = std_bind o t j v.
  Definition P2fs (fs : fields) : Prop :=
    frag2_fields fs = true -> forall i j vs, strict_jv j = true -> guards2 j -> nomap (nth i vs VNil) = true ->
    sonic_field h Jit o fs i j vs = std_field o fs i j vs.

  Lemma elems2 : forall e l, P2 e -> frag2 e = true ->
    Forall (fun x => strict_jv x = true) l -> Forall guards2 l ->
    Forall (fun x => forall v, nomap v = true -> sonic_bind h Jit o e x v = std_bind o e x v) l.
  Proof.
    intros e l IH F S G. induction l as [|x r IHl]; constructor.
    - inversion S; inversion G; subst. intros v Hv. apply IH; assumption.
    - inversion S; inversion G; subst. apply IHl; assumption.
  Qed.

  Theorem bind_agree2_all : (forall t, P2 t) /\ (forall fs, P2fs fs).
  Proof.
    Ltac step2 := cbn [sonic_bind std_bind is_opt negb andb].
    assert (LEAF : forall t, frag t = true -> frag2 t = true -> forall j v, strict_jv j = true -> guards2 j ->
                    sonic_bind h Jit o t j v = std_bind o t j v).
    { intros t F _ j v S G. apply (proj1 (bind_agree_all h o) t F j v S (guards2_guards j G)). }
    assert (H : forall t, P2 t); [|split; [exact H|]].
    - apply (ty_mut P2 P2fs); unfold P2, P2fs.
      + intros F j v S G _. apply LEAF; auto.
      + intros k F j v S G _. apply LEAF; auto.
      + intros F. discriminate.
      + intros F j v S G _. apply LEAF; auto.
      + intros F j v S G _. apply LEAF; auto.
      + intros F j v S G _. apply LEAF; auto.
      + intros F. discriminate.
      + (* TSlice *) intros e IH F j v S G Hv. simpl in F. destruct j; try reflexivity. step2.
        destruct l as [|x r]; [reflexivity|].
        assert (Hold : forallb nomap (match v with VList vis hid => vis ++ hid | _ => [] end) = true).
        { destruct v; try reflexivity. simpl in Hv. apply andb_prop in Hv as [? ?]. apply forallb_app2; assumption. }
        rewrite (bind_elems_pred nomap (sonic_bind h Jit o e) (std_bind o e)); [reflexivity|apply (proj1 nomap_zero)|exact Hold|].
        apply elems2; auto; [apply (strict_arr _ _ S)|apply (g2_arr _ _ G)].
      + (* TArr *) intros n e IH F j v S G Hv. simpl in F. destruct j; try reflexivity. step2.
        assert (Hold : forallb nomap (match v with VList vis _ => vis | _ => [] end) = true).
        { destruct v; try reflexivity. simpl in Hv. apply andb_prop in Hv as [? ?]. assumption. }
        rewrite (bind_elems_pred nomap (sonic_bind h Jit o e) (std_bind o e)); [reflexivity|apply (proj1 nomap_zero)|exact Hold|].
        apply Forall_firstn. apply elems2; auto; [apply (strict_arr _ _ S)|apply (g2_arr _ _ G)].
      + (* TMap *) intros k e IH F j v S G Hv. simpl in F. destruct j; try reflexivity. step2.
        destruct (g2_obj _ _ G) as [_ [ND GO]]. pose proof (strict_obj _ _ S) as SO.
        assert (M0 : match v with VMap m => m | _ => [] end = []).
        { destruct v; try reflexivity. simpl in Hv. destruct m; [reflexivity|discriminate]. }
        rewrite M0.
        assert (E : forall acc,
          (forall k' v', In (k', v') acc -> forall kv, In kv l -> forall kv2, std_key k (fst kv) = Ok kv2 -> key_eqb k' kv2 = false) ->
          (fix go (l0 : list (bytes * jv)) (acc0 : list (val * val)) : res (list (val * val)) :=
             match l0 with
             | [] => Ok acc0
             | (kb, x) :: r =>
               do kv <- sonic_key Jit o k kb;
               (if false && match k, e, x with KStr, TStr, JNull => true | _, _, _ => false end then go r (map_set acc0 kv (VStr []))
                else do ev <- sonic_bind h Jit o e x match map_get acc0 kv with Some x0 => x0 | None => zero e end;
                     go r (map_set acc0 kv ev))
             end) l acc =
          (fix go (l0 : list (bytes * jv)) (acc0 : list (val * val)) : res (list (val * val)) :=
             match l0 with
             | [] => Ok acc0
             | (kb, x) :: r =>
               match unq kb with
               | None => Err
               | Some ks => do kv <- std_key k ks; do ev <- std_bind o e x (zero e); go r (map_set acc0 kv ev)
               end
             end) l acc).
        { clear S G M0 Hv. induction l as [|[kb x] r IHl]; intros acc Hacc; [reflexivity|].
          inversion GO as [|? ? [Hk Gx] GO']; subst. inversion SO as [|? ? [_ Sx] SO']; subst.
          inversion ND as [|? ? Hnew ND']; subst. simpl in Hk, Gx, Sx.
          pose proof Hk as [U _]. rewrite U. rewrite (key_agree k kb Hk).
          destruct (std_key k kb) as [kv| |] eqn:K; simpl; try reflexivity.
          assert (Hget : map_get acc kv = None).
          { apply map_get_none. intros k' v' Hin. apply (Hacc k' v' Hin (kb, x)); [left; reflexivity|exact K]. }
          rewrite Hget. rewrite (IH F x (zero e) Sx Gx (proj1 nomap_zero e)).
          destruct (std_bind o e x (zero e)) as [ev| |]; simpl; try reflexivity.
          apply IHl; try assumption.
          intros k' v' Hin kv2 Hkv2 kvv K2.
          destruct (map_set_in _ _ _ _ _ Hin) as [Q|[Q|[w Q]]].
          - apply (Hacc k' v' Q kv2 (or_intror Hkv2) kvv K2).
          - subst k'. destruct (key_eqb kv kvv) eqn:KE; [|reflexivity]. exfalso. apply Hnew.
            apply in_map_iff. exists kv2. split; [|exact Hkv2].
            destruct kv2 as [kb2 x2]. simpl in K2. symmetry. apply (key_distinct k kb kb2 x x2 kv kvv K K2 KE).
          - apply (Hacc k' w Q kv2 (or_intror Hkv2) kvv K2). }
        rewrite E; [reflexivity|]. intros k' v' [].
      + (* TPtr *) intros e IH F j v S G Hv. simpl in F. step2.
        assert (Hx : nomap (match v with VPtr x => x | _ => zero e end) = true).
        { destruct v; try apply (proj1 nomap_zero). exact Hv. }
        destruct j; try reflexivity; rewrite (IH F _ _ S G Hx); reflexivity.
      + (* TStruct *) intros fs IH F j v S G Hv. simpl in F. apply andb_prop in F as [Ff Fn].
        destruct j; try reflexivity. cbn [sonic_bind std_bind is_opt negb andb].
        destruct (is_fnil fs) eqn:FN.
        { (* no field: as in the smaller theorem *)
          destruct fs; [|discriminate].
          pose proof (proj1 (bind_agree_all h o) (TStruct FNil) eq_refl (JObj raw l) v S (guards2_guards _ G)) as B.
          cbn [sonic_bind std_bind is_opt negb andb is_fnil] in B. exact B. }
        destruct (g2_obj _ _ G) as [NDl [_ GO]]. pose proof (strict_obj _ _ S) as SO.
        pose proof (nodupb_NoDup _ Fn) as NDn. pose proof (frag2_fields_ascii _ Ff) as AS.
        set (vs0 := match v with VList vs _ => vs | _ => zero_fields fs end).
        assert (Hvs0 : forallb nomap vs0 = true).
        { unfold vs0. destruct v; try apply (proj2 nomap_zero). simpl in Hv. apply andb_prop in Hv as [? ?]. assumption. }
        assert (E : forall vs,
          (forall kv, In kv l -> forall i, sonic_lookup h (fnames fs) (fst kv) = Some i -> nomap (nth i vs VNil) = true) ->
          (fix go (l0 : list (bytes * jv)) (vs1 : list val) : res (list val) :=
             match l0 with
             | [] => Ok vs1
             | (kb, x) :: r0 =>
               match sunq Jit o kb with
               | None => Err
               | Some ks => match sonic_lookup h (fnames fs) ks with
                            | None => if o_disallow_unknown o then Err else go r0 vs1
                            | Some i => do vs' <- sonic_field h Jit o fs i x vs1; go r0 vs'
                            end
               end
             end) l vs =
          (fix go (l0 : list (bytes * jv)) (vs1 : list val) : res (list val) :=
             match l0 with
             | [] => Ok vs1
             | (kb, x) :: r0 =>
               match unq kb with
               | None => Err
               | Some ks => match std_lookup (fnames fs) ks with
                            | None => if o_disallow_unknown o then Err else go r0 vs1
                            | Some i => do vs' <- std_field o fs i x vs1; go r0 vs'
                            end
               end
             end) l vs).
        { clear S G Hvs0 vs0 Hv. induction l as [|[kb x] r0 IHl]; intros vs Hhit; [reflexivity|].
          inversion GO as [|? ? [Hk Gx] GO']; subst. inversion SO as [|? ? [_ Sx] SO']; subst.
          inversion NDl as [|? ? Hnew ND']; subst. simpl in Hk, Gx, Sx.
          pose proof Hk as [U [Sq [A _]]]. rewrite U, Sq.
          rewrite <- (field_lookup_std h (fnames fs) kb NDn AS A).
          destruct (sonic_lookup h (fnames fs) kb) as [i|] eqn:L.
          - assert (Hi : nomap (nth i vs VNil) = true) by (apply (Hhit (kb, x) (or_introl eq_refl) i L)).
            rewrite <- (IH Ff i x vs Sx Gx Hi).
            destruct (sonic_field h Jit o fs i x vs) as [vs'| |] eqn:SF; simpl; try reflexivity.
            apply IHl; try assumption.
            intros kv Hkv i2 L2.
            destruct (Nat.eq_dec i2 i) as [->|Hne].
            + exfalso. destruct (lookup_lower h _ _ _ NDn L) as [n1 [Hn1 Hl1]]. destruct (lookup_lower h _ _ _ NDn L2) as [n2 [Hn2 Hl2]].
              rewrite Hn1 in Hn2. inversion Hn2; subst n2. apply Hnew. apply in_map_iff. exists kv. split; [|exact Hkv]. simpl. congruence.
            + rewrite (field_other h o Jit _ _ _ _ _ SF i2 Hne). apply (Hhit kv (or_intror Hkv) i2 L2).
          - destruct (o_disallow_unknown o); [reflexivity|]. apply IHl; try assumption.
            intros kv Hkv. apply (Hhit kv (or_intror Hkv)). }
        assert (E0 : forall kv : bytes * jv, In kv l -> forall i, sonic_lookup h (fnames fs) (fst kv) = Some i -> nomap (nth i vs0 VNil) = true).
        { intros kv _ i _. apply nomap_nth. exact Hvs0. }
        specialize (E vs0 E0). clear E0.
        match type of E with ?A = ?B => change ((do vs <- A; Ok (VList vs [])) = (do vs <- B; Ok (VList vs []))) end.
        rewrite E. reflexivity.
      + (* TAny *) intros F j v S G _. apply LEAF; auto.
      + intros F. discriminate.
      + intros F. discriminate.
      + intros F. discriminate.
      + (* FNil *) intros _ i j vs _ _ _. reflexivity.
      + (* FCons *) intros n q t IHt r IHr F i j vs S G Hi. simpl in F.
        apply andb_prop in F as [F Fr]. apply andb_prop in F as [Fn Ft].
        destruct vs as [|v vr]; [reflexivity|]. destruct i as [|i]; simpl.
        * simpl in Hi. destruct (q && quotable t) eqn:QQ.
          -- apply andb_prop in QQ as [_ Qt]. rewrite (quoted_agree t j v (quotable_frag2 t Ft Qt) G). reflexivity.
          -- rewrite (IHt Ft j v S G Hi). reflexivity.
        * simpl in Hi. rewrite (IHr Fr i j vr S G Hi). reflexivity.
    - intro fs. induction fs as [|n q t r IHr]; unfold P2fs in *.
      + intros _ i j vs _ _ _. reflexivity.
      + intros F i j vs S G Hi. simpl in F.
        apply andb_prop in F as [F Fr]. apply andb_prop in F as [Fn Ft].
        destruct vs as [|v vr]; [reflexivity|]. destruct i as [|i]; simpl.
        * simpl in Hi. destruct (q && quotable t) eqn:QQ.
          -- apply andb_prop in QQ as [_ Qt]. rewrite (quoted_agree t j v (quotable_frag2 t Ft Qt) G). reflexivity.
          -- rewrite (H t Ft j v S G Hi). reflexivity.
        * simpl in Hi. rewrite (IHr Fr i j vr S G Hi). reflexivity.
  Qed.
End Agree2.

(* ---- whole-input statement on the larger fragment ---- *)
Section Top2.
  Variable h : bytes -> N.
  Variable o : opts.

  Theorem bind_agree2_top : forall t s v,
    frag2 t = true -> input_ok o s -> nomap v = true -> (forall j, parse s = Some j -> guards2 o j) ->
    match parse s with
    | Some j => sonic_unmarshal h Jit o t s v = std_unmarshal o t s v
    | None => std_unmarshal o t s v = Err /\
              (sonic_unmarshal h Jit o t s v = Err \/ skipped_only_structural h o t s v)
    end.
  Proof.
    intros t s v F I Hv G. unfold skipped_only_structural. unfold std_unmarshal, sonic_unmarshal, parse in *. unfold input_ok in I.
    cbn [is_opt]. destruct (o_validate o) eqn:V.
    - rewrite I. destruct (lparse true s) as [j|] eqn:L.
      + destruct (strict_jv j) eqn:S.
        * simpl. apply (proj1 (bind_agree2_all h o)); auto.
        * split; [reflexivity|]. simpl.
          destruct (sonic_bind h Jit o t j v) eqn:B.
          -- right. exists j. split; [reflexivity|]. split; [exact S|]. left. reflexivity.
          -- left. reflexivity.
          -- right. exists j. split; [reflexivity|]. split; [exact S|]. left. reflexivity.
      + split; [reflexivity|]. left. reflexivity.
    - rewrite I. destruct (lparse true s) as [j|] eqn:L.
      + destruct (strict_jv j) eqn:S.
        * simpl. apply (proj1 (bind_agree2_all h o)); auto.
        * split; [reflexivity|]. right. exists j. split; [reflexivity|]. split; [exact S|]. right. reflexivity.
      + split; [reflexivity|]. left. reflexivity.
  Qed.
End Top2.
