(* Dec/Trailing.v - Decoder.CheckTrailings (internal/decoder/api/decoder.go): after the value only bytes of
   the SPACE_MASK set may follow.  Model over (buffer, position). *)
From Coq Require Import NArith List Bool Lia.
From SV.Dec Require Import Ty Parse.
Import ListNotations.
Open Scope N_scope.

(* types.SPACE_MASK = (1 << ' ') | (1 << '\t') | (1 << '\r') | (1 << '\n') *)
Definition space_mask : N := 2 ^ 32 + 2 ^ 9 + 2 ^ 13 + 2 ^ 10.
Definition in_space_mask (c : N) : bool := N.testbit space_mask c.

(* the loop `for pos < len(buf) && (SPACE_MASK & (1 << buf[pos])) != 0 { pos++ }` on the suffix *)
Fixpoint skip_trail (s : bytes) : bytes :=
  match s with
  | c :: r => if in_space_mask c then skip_trail r else s
  | [] => []
  end.

Definition check_trailings (buf : bytes) (pos : nat) : bool :=
  match skip_trail (skipn pos buf) with [] => true | _ => false end.

Lemma in_space_mask_ws : forall c, c < 256 -> in_space_mask c = is_ws c.
Proof.
  intros c Hc. unfold in_space_mask, is_ws.
  assert (H : forall n, (n < 256)%nat -> N.testbit space_mask (N.of_nat n) =
            ((N.of_nat n =? 32) || (N.of_nat n =? 9) || (N.of_nat n =? 10) || (N.of_nat n =? 13))).
  { intros n Hn. do 256 (destruct n as [|n]; [vm_compute; reflexivity|]). lia. }
  rewrite <- (N2Nat.id c). apply H. lia.
Qed.

Lemma skip_trail_nil_iff : forall s, Forall (fun c => c < 256) s ->
  (skip_trail s = [] <-> forallb is_ws s = true).
Proof.
  induction s as [|c r IH]; intros Hb; simpl.
  - tauto.
  - inversion Hb as [|? ? Hc Hr]; subst. rewrite (in_space_mask_ws c Hc).
    destruct (is_ws c); simpl.
    + apply IH; assumption.
    + split; discriminate.
Qed.

(* ok iff the suffix after the value is JSON whitespace only *)
Theorem trailing_spec : forall buf pos, Forall (fun c => c < 256) buf ->
  (check_trailings buf pos = true <-> all_ws (skipn pos buf) = true).
Proof.
  intros buf pos Hb. unfold check_trailings, all_ws.
  assert (Hs : Forall (fun c => c < 256) (skipn pos buf)).
  { clear -Hb. revert buf Hb. induction pos as [|p IH]; intros buf Hb; simpl; [assumption|].
    destruct buf as [|c r]; [constructor|]. inversion Hb; subst. apply IH; assumption. }
  pose proof (skip_trail_nil_iff _ Hs) as H.
  destruct (skip_trail (skipn pos buf)); split; intro K.
  - apply H; reflexivity.
  - reflexivity.
  - discriminate.
  - apply H in K. discriminate.
Qed.
