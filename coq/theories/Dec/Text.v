(* Dec/Text.v - string bodies: UTF-8 shape (Go's utf8.DecodeRune acceptance), the `\`-escape decoder shared by
   both binders (std coerces invalid UTF-8 to U+FFFD, sonic copies raw bytes), ASCII case mapping and the
   small table of non-ASCII case pairs used by the field lookup models. *)
From Coq Require Import NArith ZArith List Bool.
From SV.Dec Require Import Ty.
Import ListNotations.
Open Scope N_scope.

Definition cont (c : N) : bool := (128 <=? c) && (c <=? 191).
Definition between (lo hi c : N) : bool := (lo <=? c) && (c <=? hi).

(* length of the well-formed UTF-8 sequence at the head of s (0: ill-formed, Go reports RuneError width 1) *)
Definition utf8_len (s : bytes) : nat :=
  match s with
  | [] => 0%nat
  | c :: r =>
    if c <? 128 then 1%nat
    else if between 194 223 c then
      match r with d :: _ => if cont d then 2%nat else 0%nat | _ => 0%nat end
    else if between 224 239 c then
      match r with
      | d :: e :: _ =>
        let lo := if c =? 224 then 160 else 128 in
        let hi := if c =? 237 then 159 else 191 in
        if between lo hi d && cont e then 3%nat else 0%nat
      | _ => 0%nat
      end
    else if between 240 244 c then
      match r with
      | d :: e :: f :: _ =>
        let lo := if c =? 240 then 144 else 128 in
        let hi := if c =? 244 then 143 else 191 in
        if between lo hi d && cont e && cont f then 4%nat else 0%nat
      | _ => 0%nat
      end
    else 0%nat
  end.

Definition fffd : bytes := [239; 191; 189].

(* fuel = length: replaces every ill-formed byte by U+FFFD (utf8.CorrectWith / encoding/json's coercion) *)
Fixpoint utf8_correct_f (fuel : nat) (s : bytes) : bytes :=
  match fuel with
  | O => []
  | S f =>
    match s with
    | [] => []
    | c :: r =>
      match utf8_len s with
      | O => fffd ++ utf8_correct_f f r
      | n => firstn n s ++ utf8_correct_f (f - (n - 1)) (skipn n s)
      end
    end
  end.
Definition utf8_correct (s : bytes) : bytes := utf8_correct_f (length s) s.

Fixpoint utf8_valid_f (fuel : nat) (s : bytes) : bool :=
  match fuel with
  | O => match s with [] => true | _ => false end
  | S f =>
    match s with
    | [] => true
    | _ => match utf8_len s with O => false | n => utf8_valid_f (f - (n - 1)) (skipn n s) end
    end
  end.
Definition utf8_valid (s : bytes) : bool := utf8_valid_f (length s) s.

Definition encode_utf8 (cp : N) : bytes :=
  if cp <? 128 then [cp]
  else if cp <? 2048 then [192 + cp / 64; 128 + cp mod 64]
  else if cp <? 65536 then [224 + cp / 4096; 128 + (cp / 64) mod 64; 128 + cp mod 64]
  else [240 + cp / 262144; 128 + (cp / 4096) mod 64; 128 + (cp / 64) mod 64; 128 + cp mod 64].

Definition hexval (c : N) : option N :=
  if between 48 57 c then Some (c - 48)
  else if between 97 102 c then Some (c - 87)
  else if between 65 70 c then Some (c - 55)
  else None.

Definition hex4 (s : bytes) : option (N * bytes) :=
  match s with
  | a :: b :: c :: d :: r =>
    match hexval a, hexval b, hexval c, hexval d with
    | Some a, Some b, Some c, Some d => Some (a * 4096 + b * 256 + c * 16 + d, r)
    | _, _, _, _ => None
    end
  | _ => None
  end.

Definition is_hi_sur (cp : N) := between 55296 56319 cp.
Definition is_lo_sur (cp : N) := between 56320 57343 cp.

(* decodes a string body.  coerce = true: ill-formed UTF-8 becomes U+FFFD (encoding/json); false: copied as is
   (sonic without ValidateString).  ctl = true: raw control characters are an error.  fuel = length. *)
Fixpoint unquote_f (fuel : nat) (coerce ctl : bool) (s : bytes) : option bytes :=
  match fuel with
  | O => match s with [] => Some [] | _ => None end
  | S f =>
    match s with
    | [] => Some []
    | c :: r =>
      if c =? 92 then
        match r with
        | [] => None
        | e :: r2 =>
          let simple (b : N) := option_map (cons b) (unquote_f f coerce ctl r2) in
          if e =? 34 then simple 34 else if e =? 92 then simple 92 else if e =? 47 then simple 47
          else if e =? 98 then simple 8 else if e =? 102 then simple 12 else if e =? 110 then simple 10
          else if e =? 114 then simple 13 else if e =? 116 then simple 9
          else if e =? 117 then
            match hex4 r2 with
            | None => None
            | Some (cp, r3) =>
              if is_hi_sur cp then
                match r3 with
                | b1 :: u :: r4 =>
                  if (b1 =? 92) && (u =? 117) then
                    match hex4 r4 with
                    | Some (cp2, r5) =>
                      if is_lo_sur cp2 then
                        option_map (app (encode_utf8 (65536 + (cp - 55296) * 1024 + (cp2 - 56320))))
                                   (unquote_f (f - 11) coerce ctl r5)
                      else option_map (app fffd) (unquote_f (f - 5) coerce ctl r3)
                    | None => option_map (app fffd) (unquote_f (f - 5) coerce ctl r3)
                    end
                  else option_map (app fffd) (unquote_f (f - 5) coerce ctl r3)
                | _ => option_map (app fffd) (unquote_f (f - 5) coerce ctl r3)
                end
              else if is_lo_sur cp then option_map (app fffd) (unquote_f (f - 5) coerce ctl r3)
              else option_map (app (encode_utf8 cp)) (unquote_f (f - 5) coerce ctl r3)
            end
          else None
        end
      else if c =? 34 then None
      else if c <? 32 then (if ctl then None else option_map (cons c) (unquote_f f coerce ctl r))
      else if c <? 128 then option_map (cons c) (unquote_f f coerce ctl r)
      else if coerce then
        match utf8_len s with
        | O => option_map (app fffd) (unquote_f f coerce ctl r)
        | n => option_map (app (firstn n s)) (unquote_f (f - (n - 1)) coerce ctl (skipn n s))
        end
      else option_map (cons c) (unquote_f f coerce ctl r)
    end
  end.

Definition unquote (coerce ctl : bool) (s : bytes) : option bytes := unquote_f (length s) coerce ctl s.

(* ---- case mapping ---- *)
Definition ascii_lower (c : N) : N := if between 65 90 c then c + 32 else c.
Definition ascii_upper (c : N) : N := if between 97 122 c then c - 32 else c.
Definition is_ascii (s : bytes) : bool := forallb (fun c => c <? 128) s.

(* code points: the models decode well-formed UTF-8 to code points for the non-ASCII part of the field lookup *)
Definition decode1 (s : bytes) : N * nat :=
  match utf8_len s, s with
  | 1%nat, c :: _ => (c, 1%nat)
  | 2%nat, c :: d :: _ => ((c - 192) * 64 + (d - 128), 2%nat)
  | 3%nat, c :: d :: e :: _ => ((c - 224) * 4096 + (d - 128) * 64 + (e - 128), 3%nat)
  | 4%nat, c :: d :: e :: f :: _ => ((c - 240) * 262144 + (d - 128) * 4096 + (e - 128) * 64 + (f - 128), 4%nat)
  | _, _ => (65533, 1%nat)
  end.

Fixpoint runes_f (fuel : nat) (s : bytes) : list N :=
  match fuel with
  | O => []
  | S f => match s with
           | [] => []
           | _ => let '(cp, n) := decode1 s in cp :: runes_f (f - (n - 1)) (skipn n s)
           end
  end.
Definition runes (s : bytes) : list N := runes_f (length s) s.

(* unicode.ToLower on the code points the generators use (Latin-1, Latin Extended-A specials, Greek sigma,
   Kelvin sign); identity elsewhere.  strings.ToLower maps rune by rune. *)
Definition uni_lower (cp : N) : N :=
  if cp <? 128 then ascii_lower cp
  else if between 192 222 cp && negb (cp =? 215) then cp + 32
  else if cp =? 304 then 105          (* U+0130 -> i *)
  else if cp =? 8490 then 107         (* U+212A KELVIN SIGN -> k *)
  else if cp =? 931 then 963          (* GREEK SIGMA *)
  else if cp =? 7838 then 223         (* U+1E9E -> ss *)
  else if (cp =? 452) || (cp =? 453) then 454   (* DZ-caron digraph: upper and title case -> lower *)
  else cp.

(* smallest member of the simple-fold orbit (encoding/json foldRune) on the same code points *)
Definition uni_fold (cp : N) : N :=
  if cp <? 128 then ascii_upper cp
  else if between 224 254 cp && negb (cp =? 247) then cp - 32
  else if cp =? 383 then 83           (* U+017F LONG S -> S *)
  else if cp =? 8490 then 75          (* KELVIN -> K *)
  else if (cp =? 963) || (cp =? 962) then 931   (* sigma, final sigma -> SIGMA *)
  else if cp =? 7838 then 223         (* orbit {U+00DF, U+1E9E}: smallest is U+00DF *)
  else if cp =? 376 then 255          (* orbit {U+00FF, U+0178} *)
  else if (cp =? 453) || (cp =? 454) then 452   (* orbit {U+01C4, U+01C5, U+01C6} *)
  else cp.
