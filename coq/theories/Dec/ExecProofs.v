(* Dec/ExecProofs.v - first link between the compiled program and the tree-level binder: for primitive
   destinations (bool, every integer width, float32, float64) running the program `compile t` with the IL
   interpreter gives exactly `sonic_unmarshal Jit` - for every input, option set, initial value and hash. *)
From Coq Require Import NArith ZArith List Bool Lia.
From SV.Dec Require Import Ty Val Parse Text Num Common FieldMap Range SonicBind Compile Exec.
Import ListNotations.
Open Scope N_scope.

Arguments sonic_int : simpl never.
Arguments sonic_f64 : simpl never.
Arguments sonic_f32 : simpl never.
Arguments scan_num : simpl never.
Arguments all_ws : simpl never.
Arguments skip_ws : simpl never.

Definition prim_op (t : ty) : option op :=
  match t with
  | TBool => Some OP_bool | TInt k => Some (op_of_ikind k) | TF64 => Some OP_f64 | TF32 => Some OP_f32
  | _ => None
  end.

Lemma compile_prim : forall t o', prim_op t = Some o' ->
  compile t = [mkI OP_lspace 0 0 [] [] TBool; mkI OP_is_null 3 0 [] [] TBool; mkI o' 0 0 [] [] TBool].
Proof. intros t o' H. destruct t; try discriminate; inversion H; subst; reflexivity. Qed.

Definition fin (x : val) (r : bytes) : res val := if all_ws r then Ok x else Err.

(* what the number opcodes store *)
Definition numf (t : ty) (tx : bytes) : res val :=
  match t with
  | TInt k => sonic_int k (JNum tx) VNil
  | TF64 => sonic_f64 tx
  | TF32 => sonic_f32 tx
  | _ => Err
  end.

(* the three-instruction program, read off the emitters: lspace; is_null; <op> *)
Definition il_prim (t : ty) (r : bytes) (v : val) : res val :=
  match r with
  | [] => Err
  | _ =>
    if starts lit_null r then fin v (skipn 4 r)
    else match t with
         | TBool => if starts lit_true r then fin (VBool true) (skipn 4 r)
                    else if starts lit_false r then fin (VBool false) (skipn 5 r) else Err
         | _ => match scan_num r with
                | Some (tx, r') => match numf t tx with Ok x => fin x r' | Err => Err | Unk => Unk end
                | None => Err
                end
         end
  end.

Lemma fuel4 : forall (p : prog) (s : bytes), exists n, exec_fuel p s = S (S (S (S n))).
Proof. intros p s. unfold exec_fuel. exists (64 * length s + 252 + 8 * length p)%nat. lia. Qed.

Section Prim.
  Variable h : bytes -> N.
  Variable o : opts.

  Definition pre (s : bytes) : bytes := if o_validate o then (if utf8_valid s then s else utf8_correct s) else s.

  Lemma il_unmarshal_prim : forall t o' s v, prim_op t = Some o' ->
    il_unmarshal h o t s v = il_prim t (skip_ws (pre s)) v.
  Proof.
    intros t o' s v P. unfold il_unmarshal. fold (pre s). rewrite (compile_prim t o' P).
    destruct (fuel4 [mkI OP_lspace 0 0 [] [] TBool; mkI OP_is_null 3 0 [] [] TBool; mkI o' 0 0 [] [] TBool] (pre s)) as [n ->].
    unfold il_prim. cbn [exec exec1 i_op adv s_in]. 
    destruct (skip_ws (pre s)) as [|c r] eqn:W; [reflexivity|].
    cbn [exec exec1 i_op i_vi adv s_in s_root s_vp s_vt s_stk s_sr s_mis skipn].
    destruct (starts lit_null (c :: r)) eqn:N.
    - cbn [exec s_mis s_in s_root]. unfold fin. reflexivity.
    - destruct t; try discriminate; inversion P; subst o'.
      + (* bool *) cbn [exec exec1 i_op adv wr s_in s_root s_vp s_vt s_stk s_sr s_mis setp].
        destruct (starts lit_true (c :: r)); [cbn [exec s_mis s_in s_root]; reflexivity|].
        destruct (starts lit_false (c :: r)); [cbn [exec s_mis s_in s_root]; reflexivity|reflexivity].
      + (* integers *)
        destruct k; cbn [op_of_ikind exec exec1 i_op adv wr s_in s_root s_vp s_vt s_stk s_sr s_mis setp numf];
          unfold num_op; cbn [adv s_in];
          (destruct (scan_num (c :: r)) as [[tx r']|]; [|reflexivity]);
          (match goal with |- context [sonic_int ?k ?j ?z] => destruct (sonic_int k j z) end);
          cbn [exec wr adv s_mis s_in s_root s_vp setp]; reflexivity.
      + (* float32 *)
        cbn [exec exec1 i_op adv wr s_in s_root s_vp s_vt s_stk s_sr s_mis setp numf]. unfold num_op. cbn [adv s_in].
        destruct (scan_num (c :: r)) as [[tx r']|]; [|reflexivity].
        destruct (sonic_f32 tx); cbn [exec wr adv s_mis s_in s_root s_vp setp]; reflexivity.
      + (* float64 *)
        cbn [exec exec1 i_op adv wr s_in s_root s_vp s_vt s_stk s_sr s_mis setp numf]. unfold num_op. cbn [adv s_in].
        destruct (scan_num (c :: r)) as [[tx r']|]; [|reflexivity].
        destruct (sonic_f64 tx); cbn [exec wr adv s_mis s_in s_root s_vp setp]; reflexivity.
  Qed.

  (* ---- the tree side ---- *)
  Lemma starts_head : forall c d w r, (d =? c) = false -> starts (d :: w) (c :: r) = false.
  Proof. intros c d w r H. unfold starts, lit. simpl. rewrite H. reflexivity. Qed.

  Lemma scan_num_head : forall c r, (c =? 45) = false -> is_digit c = false -> scan_num (c :: r) = None.
  Proof. intros c r H1 H2. unfold scan_num. rewrite H1, H2. reflexivity. Qed.

  Lemma lit_skipn : forall w s rest, lit w s = Some rest -> rest = skipn (length w) s.
  Proof. intros w s rest H. unfold lit in H. destruct ((fix pre (w0 s0 : bytes) {struct w0} : bool := _) w s); [inversion H; reflexivity|discriminate]. Qed.

  Definition prim (t : ty) : bool := match prim_op t with Some _ => true | None => false end.

  Lemma bind_nonscalar : forall t j v, prim t = true ->
    match j with JStr _ | JArr _ _ | JObj _ _ => True | _ => False end ->
    sonic_bind h Jit o t j v = Err.
  Proof. intros t j v P J. destruct t; try discriminate; destruct j; try contradiction; reflexivity. Qed.

  Lemma numf_no_unk : forall t tx, numf t tx <> Unk.
  Proof.
    intros t tx. destruct t; simpl; try discriminate.
    - unfold sonic_int. destruct (int_of_text tx); [|discriminate].
      destruct (negb (is_signed k) && _); [discriminate|]. destruct (accept_op k z); discriminate.
    - unfold sonic_f32. destruct (minus_zero tx); [discriminate|]. unfold fres_val. destruct (f32_via_f64_of_text tx) as [[|]|]; discriminate.
    - unfold sonic_f64. destruct (minus_zero tx); [discriminate|]. unfold fres_val. destruct (f64_of_text tx) as [[|]|]; discriminate.
  Qed.

  (* the result of Unmarshal once the reader has returned *)
  Definition after (t : ty) (v : val) (pr : option (jv * bytes)) : res val :=
    match (match pr with Some (j, rest) => if all_ws rest then Some j else None | None => None end) with
    | Some j => if o_validate o && negb (strict_jv j) then match sonic_bind h Jit o t j v with Err => Err | _ => Unk end
                else sonic_bind h Jit o t j v
    | None => Err
    end.

  Lemma after_nonscalar : forall t v j rest, prim t = true ->
    match j with JStr _ | JArr _ _ | JObj _ _ => True | _ => False end -> after t v (Some (j, rest)) = Err.
  Proof.
    intros t v j rest P J. unfold after. destruct (all_ws rest); [|reflexivity].
    rewrite (bind_nonscalar t j v P J). destruct (o_validate o && negb (strict_jv j)); reflexivity.
  Qed.

  Lemma sonic_unmarshal_after : forall t s v,
    sonic_unmarshal h Jit o t s v = after t v (pvalue (parse_fuel (pre s)) (o_validate o) (pre s)).
  Proof. intros. unfold sonic_unmarshal, after, lparse. fold (pre s). cbn [is_opt]. reflexivity. Qed.

  Theorem tree_prim : forall t s v, prim t = true ->
    sonic_unmarshal h Jit o t s v = il_prim t (skip_ws (pre s)) v.
  Proof.
    intros t s v P. rewrite sonic_unmarshal_after. unfold parse_fuel.
    replace (2 * length (pre s) + 2)%nat with (S (S (2 * length (pre s)))) by lia.
    set (f := S (2 * length (pre s))). cbn [pvalue]. unfold il_prim. unfold lit_null, lit_true, lit_false.
    destruct (skip_ws (pre s)) as [|c r] eqn:W; [reflexivity|].
    destruct (c =? 123) eqn:C123.
    { (* an object *)
      assert (E : after t v (match skip_ws r with
                             | [] => None
                             | d :: r2 => if d =? 125 then Some (JObj (span (c :: r) r2) [], r2)
                                          else match pmembers f (o_validate o) (skip_ws r) [] with
                                               | Some (ms, rest) => Some (JObj (span (c :: r) rest) ms, rest)
                                               | None => None end
                             end) = Err).
      { destruct (skip_ws r) as [|d r2]; [reflexivity|]. destruct (d =? 125); [apply after_nonscalar; simpl; auto|].
        destruct (pmembers f (o_validate o) (d :: r2) []) as [[ms rest]|]; [apply after_nonscalar; simpl; auto|reflexivity]. }
      rewrite E. apply N.eqb_eq in C123. subst c.
      rewrite starts_head by reflexivity.
      destruct t; try discriminate; try (rewrite scan_num_head by reflexivity; reflexivity).
      rewrite !starts_head by reflexivity. reflexivity. }
    destruct (c =? 91) eqn:C91.
    { assert (E : after t v (match skip_ws r with
                             | [] => None
                             | d :: r2 => if d =? 93 then Some (JArr (span (c :: r) r2) [], r2)
                                          else match pelems f (o_validate o) (skip_ws r) [] with
                                               | Some (es, rest) => Some (JArr (span (c :: r) rest) es, rest)
                                               | None => None end
                             end) = Err).
      { destruct (skip_ws r) as [|d r2]; [reflexivity|]. destruct (d =? 93); [apply after_nonscalar; simpl; auto|].
        destruct (pelems f (o_validate o) (d :: r2) []) as [[es rest]|]; [apply after_nonscalar; simpl; auto|reflexivity]. }
      rewrite E. apply N.eqb_eq in C91. subst c.
      rewrite starts_head by reflexivity.
      destruct t; try discriminate; try (rewrite scan_num_head by reflexivity; reflexivity).
      rewrite !starts_head by reflexivity. reflexivity. }
    destruct (c =? 34) eqn:C34.
    { assert (E : after t v (match scan_str (o_validate o) r [] with Some (b, rest) => Some (JStr b, rest) | None => None end) = Err).
      { destruct (scan_str (o_validate o) r []) as [[b rest]|]; [apply after_nonscalar; simpl; auto|reflexivity]. }
      rewrite E. apply N.eqb_eq in C34. subst c.
      rewrite starts_head by reflexivity.
      destruct t; try discriminate; try (rewrite scan_num_head by reflexivity; reflexivity).
      rewrite !starts_head by reflexivity. reflexivity. }
    destruct (c =? 116) eqn:C116.
    { apply N.eqb_eq in C116. subst c. rewrite (starts_head 116 110) by reflexivity.
      unfold starts at 1.
      destruct (lit [116; 114; 117; 101] (116 :: r)) as [rest|] eqn:L.
      - apply lit_skipn in L. simpl length in L. subst rest. unfold after. unfold fin.
        destruct t; try discriminate; cbn [strict_jv negb andb sonic_bind].
        + destruct (all_ws _); [rewrite andb_false_r; reflexivity|reflexivity].
        + rewrite scan_num_head by reflexivity. destruct (all_ws _); [rewrite andb_false_r; reflexivity|reflexivity].
        + rewrite scan_num_head by reflexivity. destruct (all_ws _); [rewrite andb_false_r; reflexivity|reflexivity].
        + rewrite scan_num_head by reflexivity. destruct (all_ws _); [rewrite andb_false_r; reflexivity|reflexivity].
      - unfold after. destruct t; try discriminate; try (rewrite scan_num_head by reflexivity; reflexivity).
        rewrite (starts_head 116 102) by reflexivity. reflexivity. }
    destruct (c =? 102) eqn:C102.
    { apply N.eqb_eq in C102. subst c. rewrite (starts_head 102 110) by reflexivity.
      destruct (lit [102; 97; 108; 115; 101] (102 :: r)) as [rest|] eqn:L.
      - pose proof L as L'. apply lit_skipn in L'. simpl length in L'. subst rest. unfold after. unfold fin.
        destruct t; try discriminate; cbn [strict_jv negb andb sonic_bind].
        + rewrite (starts_head 102 116) by reflexivity. unfold starts. rewrite L.
          destruct (all_ws _); [rewrite andb_false_r; reflexivity|reflexivity].
        + rewrite scan_num_head by reflexivity. destruct (all_ws _); [rewrite andb_false_r; reflexivity|reflexivity].
        + rewrite scan_num_head by reflexivity. destruct (all_ws _); [rewrite andb_false_r; reflexivity|reflexivity].
        + rewrite scan_num_head by reflexivity. destruct (all_ws _); [rewrite andb_false_r; reflexivity|reflexivity].
      - unfold after. destruct t; try discriminate; try (rewrite scan_num_head by reflexivity; reflexivity).
        rewrite (starts_head 102 116) by reflexivity. unfold starts. rewrite L. reflexivity. }
    destruct (c =? 110) eqn:C110.
    { apply N.eqb_eq in C110. subst c. unfold starts at 1.
      destruct (lit [110; 117; 108; 108] (110 :: r)) as [rest|] eqn:L.
      - apply lit_skipn in L. simpl length in L. subst rest. unfold after, fin.
        destruct (all_ws _); [|reflexivity]. cbn [strict_jv negb]. rewrite andb_false_r.
        destruct t; try discriminate; reflexivity.
      - unfold after. destruct t; try discriminate; try (rewrite scan_num_head by reflexivity; reflexivity).
        rewrite (starts_head 110 116), (starts_head 110 102) by reflexivity. reflexivity. }
    (* a number, or nothing *)
    rewrite starts_head by (rewrite N.eqb_sym; exact C110).
    destruct (scan_num (c :: r)) as [[tx rest]|] eqn:SN.
    - unfold after, fin.
      destruct t; try discriminate.
      + rewrite (starts_head c 116), (starts_head c 102) by (rewrite N.eqb_sym; assumption).
        destruct (all_ws rest); [|reflexivity]. cbn [strict_jv negb sonic_bind]. rewrite andb_false_r. reflexivity.
      + cbn [numf]. pose proof (numf_no_unk (TInt k) tx) as NU. cbn [numf] in NU.
        assert (EV : sonic_int k (JNum tx) v = sonic_int k (JNum tx) VNil) by reflexivity.
        destruct (all_ws rest); cbn [strict_jv negb sonic_bind]; [rewrite andb_false_r|]; rewrite ?EV;
          destruct (sonic_int k (JNum tx) VNil); try reflexivity; congruence.
      + cbn [numf]. pose proof (numf_no_unk TF32 tx) as NU. cbn [numf] in NU.
        destruct (all_ws rest); cbn [strict_jv negb sonic_bind]; [rewrite andb_false_r|];
          destruct (sonic_f32 tx); try reflexivity; congruence.
      + cbn [numf]. pose proof (numf_no_unk TF64 tx) as NU. cbn [numf] in NU.
        destruct (all_ws rest); cbn [strict_jv negb sonic_bind]; [rewrite andb_false_r|];
          destruct (sonic_f64 tx); try reflexivity; congruence.
    - unfold after. destruct t; try discriminate; try reflexivity.
      rewrite (starts_head c 116), (starts_head c 102) by (rewrite N.eqb_sym; assumption). reflexivity.
  Qed.

  (* for primitive destinations the compiled program computes the tree-level binder *)
  Theorem il_prim_correct : forall t s v, prim t = true -> il_unmarshal h o t s v = sonic_unmarshal h Jit o t s v.
  Proof.
    intros t s v P. unfold prim in P. destruct (prim_op t) as [o'|] eqn:E; [|discriminate].
    rewrite (il_unmarshal_prim t o' s v E). symmetry. apply tree_prim. unfold prim. rewrite E. reflexivity.
  Qed.
End Prim.

(* with C01_bind_agree: what the compiled program of a primitive destination does agrees with encoding/json *)
From SV.Dec Require Import StdBind DecProofs.

Theorem il_prim_vs_std : forall (h : bytes -> N) (o : opts) t s v,
  prim t = true -> frag t = true -> input_ok o s -> (forall j, parse s = Some j -> guards o j) ->
  match parse s with
  | Some j => il_unmarshal h o t s v = std_unmarshal o t s v
  | None => std_unmarshal o t s v = Err /\
            (il_unmarshal h o t s v = Err \/ skipped_only_structural h o t s v)
  end.
Proof.
  intros h o t s v P F I G. rewrite (il_prim_correct h o t s v P). apply bind_agree_top; assumption.
Qed.
