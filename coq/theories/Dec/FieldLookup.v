(* Dec/FieldLookup.v - sonic's field lookup (exact probe, then the strings.ToLower side map preferring the
   smaller field id) against encoding/json's (exact name, then first field with equal folded name). *)
From Coq Require Import NArith ZArith List Bool Lia.
From SV.Dec Require Import Ty Val Text FieldMap FieldMapProofs.
Import ListNotations.
Open Scope N_scope.

Lemma assoc_get_set : forall m k v k', assoc_get (assoc_set m k v) k' = if bytes_eqb k k' then Some v else assoc_get m k'.
Proof.
  induction m as [|[a b] m IH]; intros k v k'; simpl.
  - reflexivity.
  - destruct (bytes_eqb a k) eqn:E; simpl.
    + apply bytes_eqb_eq in E. subst a. destruct (bytes_eqb k k'); reflexivity.
    + rewrite IH. destruct (bytes_eqb k k') eqn:E2; [|reflexivity].
      apply bytes_eqb_eq in E2. subst k'. rewrite E. reflexivity.
Qed.

Section WithHash.
  Variable h : bytes -> N.

  Lemma m_build_from : forall rest fm i,
    (forall k v, assoc_get (fm_m fm) k = Some v -> (v < i)%nat) ->
    forall k, assoc_get (fm_m (build_from h fm rest i)) k =
              match assoc_get (fm_m fm) k with
              | Some v => Some v
              | None => find_idx (fun n => bytes_eqb (to_lower n) k) rest i
              end.
  Proof.
    induction rest as [|nm rest IH]; intros fm i Hlt k; simpl.
    - destruct (assoc_get (fm_m fm) k); reflexivity.
    - rewrite IH.
      + unfold set. simpl fm_m.
        destruct (assoc_get (fm_m fm) (to_lower nm)) as [v|] eqn:G.
        * pose proof (Hlt _ _ G) as Hv. assert ((i <? v)%nat = false) as -> by (apply Nat.ltb_ge; lia).
          destruct (assoc_get (fm_m fm) k) as [w|] eqn:Gk; [reflexivity|].
          destruct (bytes_eqb (to_lower nm) k) eqn:E; [|reflexivity].
          apply bytes_eqb_eq in E. congruence.
        * rewrite assoc_get_set. destruct (bytes_eqb (to_lower nm) k) eqn:E.
          -- apply bytes_eqb_eq in E. subst k. rewrite G. reflexivity.
          -- reflexivity.
      + intros k' v. unfold set. simpl fm_m.
        destruct (assoc_get (fm_m fm) (to_lower nm)) as [w|] eqn:G.
        * pose proof (Hlt _ _ G) as Hw. assert ((i <? w)%nat = false) as -> by (apply Nat.ltb_ge; lia).
          intro H. apply Hlt in H. lia.
        * rewrite assoc_get_set. destruct (bytes_eqb (to_lower nm) k'); intro H.
          -- inversion H. lia.
          -- apply Hlt in H. lia.
  Qed.

  (* GetCaseInsensitive after building: the first field whose lowered name is the lowered key *)
  Lemma get_ci_spec : forall names key,
    get_ci (build h names) key = find_idx (fun n => bytes_eqb (to_lower n) (to_lower key)) names 0.
  Proof.
    intros names key. unfold get_ci, build. rewrite m_build_from.
    - reflexivity.
    - intros k v H. discriminate.
  Qed.

  Theorem sonic_lookup_spec : forall names key, NoDup names ->
    sonic_lookup h names key =
    match find_idx (fun n => bytes_eqb n key) names 0 with
    | Some i => Some i
    | None => find_idx (fun n => bytes_eqb (to_lower n) (to_lower key)) names 0
    end.
  Proof.
    intros names key Hnd. unfold sonic_lookup. rewrite (fieldmap_get_spec h names key Hnd), get_ci_spec. reflexivity.
  Qed.
End WithHash.

(* ---- ASCII: lower-case equality and upper-case (fold) equality coincide ---- *)
Definition case_table_ok : bool :=
  forallb (fun i => forallb (fun j =>
    Bool.eqb (ascii_lower (N.of_nat i) =? ascii_lower (N.of_nat j)) (ascii_upper (N.of_nat i) =? ascii_upper (N.of_nat j)))
    (seq 0 128)) (seq 0 128).

Lemma case_table_ok_true : case_table_ok = true.
Proof. vm_compute. reflexivity. Qed.

Lemma case_pair : forall x y, x < 128 -> y < 128 ->
  (ascii_lower x =? ascii_lower y) = (ascii_upper x =? ascii_upper y).
Proof.
  intros x y Hx Hy. pose proof case_table_ok_true as T. unfold case_table_ok in T.
  rewrite forallb_forall in T. specialize (T (N.to_nat x)). rewrite in_seq in T.
  specialize (T ltac:(lia)). rewrite forallb_forall in T. specialize (T (N.to_nat y)). rewrite in_seq in T.
  specialize (T ltac:(lia)). rewrite !N2Nat.id in T. apply eqb_prop in T. exact T.
Qed.

Lemma ascii_case_eq : forall a b, is_ascii a = true -> is_ascii b = true ->
  bytes_eqb (map ascii_lower a) (map ascii_lower b) = bytes_eqb (map ascii_upper a) (map ascii_upper b).
Proof.
  induction a as [|x a IH]; destruct b as [|y b]; simpl; intros Ha Hb; try reflexivity.
  apply andb_prop in Ha as [Hx Ha]. apply andb_prop in Hb as [Hy Hb].
  apply N.ltb_lt in Hx, Hy. rewrite (case_pair x y Hx Hy), (IH b Ha Hb). reflexivity.
Qed.

Lemma find_idx_ext : forall p q names i, (forall n, In n names -> p n = q n) -> find_idx p names i = find_idx q names i.
Proof.
  intros p q names. induction names as [|x r IH]; intros i H; simpl; [reflexivity|].
  rewrite (H x) by (left; reflexivity). destruct (q x); [reflexivity|]. apply IH. intros n Hn. apply H. right. exact Hn.
Qed.

(* exact-then-ToLower = exact-then-fold on ASCII names and keys, for every hash function *)
Theorem field_lookup_std : forall (h : bytes -> N) names key,
  NoDup names -> Forall (fun n => is_ascii n = true) names -> is_ascii key = true ->
  sonic_lookup h names key = std_lookup names key.
Proof.
  intros h names key Hnd Hall Hk. rewrite sonic_lookup_spec by exact Hnd. unfold std_lookup.
  destruct (find_idx (fun n => bytes_eqb n key) names 0); [reflexivity|].
  apply find_idx_ext. intros n Hn. rewrite Forall_forall in Hall. pose proof (Hall n Hn) as Ha.
  unfold to_lower, fold_name. rewrite Ha, Hk. apply ascii_case_eq; assumption.
Qed.

(* beyond ASCII the two rules differ: U+017F (long s) folds to S for encoding/json, strings.ToLower leaves it *)
Theorem field_lookup_nonascii_refuted : forall h : bytes -> N,
  exists names key, NoDup names /\ sonic_lookup h names key = None /\ std_lookup names key = Some 0%nat.
Proof.
  intro h. exists [[83]], [197; 191]. split; [repeat constructor; intros []|]. split.
  - rewrite sonic_lookup_spec by (repeat constructor; intros []). vm_compute. reflexivity.
  - vm_compute. reflexivity.
Qed.

(* and in the other direction: U+0130 lowers to i, but is alone in its fold orbit *)
Theorem field_lookup_nonascii_refuted_2 : forall h : bytes -> N,
  exists names key, NoDup names /\ sonic_lookup h names key = Some 0%nat /\ std_lookup names key = None.
Proof.
  intro h. exists [[73]], [196; 176]. split; [repeat constructor; intros []|]. split.
  - rewrite sonic_lookup_spec by (repeat constructor; intros []). vm_compute. reflexivity.
  - vm_compute. reflexivity.
Qed.

Example field_lookup_std_nonvacuous :
  let names := [[110; 97; 109; 101]; [78; 97; 109; 101]; [105; 100]] in       (* name, Name, id *)
  NoDup names /\ Forall (fun n => is_ascii n = true) names /\
  std_lookup names [78; 65; 77; 69] = Some 0%nat /\                           (* NAME -> first fold match *)
  std_lookup names [78; 97; 109; 101] = Some 1%nat /\                         (* Name -> exact *)
  std_lookup names [120] = None.
Proof.
  cbv zeta. split; [|split; [|repeat split; vm_compute; reflexivity]].
  - repeat constructor; simpl; intuition discriminate.
  - repeat constructor.
Qed.
