(* Dec/FieldMap.v - model of internal/caching/fcache.go: open addressing with linear probing over N = 2n
   slots (hash 0 marks an empty slot), plus the case-insensitive side map keyed by strings.ToLower(name)
   that prefers the smaller field id.  The hash function is a parameter: every statement holds for all of them. *)
From Coq Require Import NArith ZArith List Bool Lia.
From SV.Dec Require Import Ty Val Text.
Import ListNotations.
Open Scope N_scope.

Record entry := mkEntry { e_hash : N; e_name : bytes; e_id : nat }.
Definition empty_entry := mkEntry 0 [] 0.

Record fmap := mkFmap { fm_n : N; fm_b : list entry; fm_m : list (bytes * nat) }.

Definition create (n : nat) : fmap :=
  mkFmap (N.of_nat (n * 2)) (repeat empty_entry (n * 2)) [].

Definition at_ (fm : fmap) (p : N) : entry := nth (N.to_nat p) (fm_b fm) empty_entry.

Fixpoint set_nth {A} (l : list A) (i : nat) (x : A) : list A :=
  match l, i with
  | [], _ => []
  | _ :: r, O => x :: r
  | y :: r, S i' => y :: set_nth r i' x
  end.

(* strings.ToLower: ASCII fast path, otherwise rune by rune (ill-formed bytes become U+FFFD) *)
Definition to_lower (s : bytes) : bytes :=
  if is_ascii s then map ascii_lower s
  else flat_map (fun cp => encode_utf8 (uni_lower cp)) (runes s).

Fixpoint assoc_get (m : list (bytes * nat)) (k : bytes) : option nat :=
  match m with
  | [] => None
  | (k', v) :: r => if bytes_eqb k' k then Some v else assoc_get r k
  end.

Fixpoint assoc_set (m : list (bytes * nat)) (k : bytes) (v : nat) : list (bytes * nat) :=
  match m with
  | [] => [(k, v)]
  | (k', v') :: r => if bytes_eqb k' k then (k', v) :: r else (k', v') :: assoc_set r k v
  end.

Section WithHash.
  Variable h : bytes -> N.

  (* StrHash: the runtime hash with 0 mapped to 1 *)
  Definition strhash (s : bytes) : N := if h s =? 0 then 1 else h s.

  (* probe for an empty slot, at most fuel steps *)
  Fixpoint find_empty (fm : fmap) (fuel : nat) (p : N) : option N :=
    match fuel with
    | O => None
    | S f => if e_hash (at_ fm p) =? 0 then Some p else find_empty fm f ((p + 1) mod fm_n fm)
    end.

  Definition set (fm : fmap) (name : bytes) (i : nat) : fmap :=
    let hh := strhash name in
    let b' := match find_empty fm (length (fm_b fm)) (hh mod fm_n fm) with
              | Some p => set_nth (fm_b fm) (N.to_nat p) (mkEntry hh name i)
              | None => fm_b fm
              end in
    let key := to_lower name in
    let m' := match assoc_get (fm_m fm) key with
              | Some v => if (i <? v)%nat then assoc_set (fm_m fm) key i else fm_m fm
              | None => assoc_set (fm_m fm) key i
              end in
    mkFmap (fm_n fm) b' m'.

  Fixpoint probe (fm : fmap) (fuel : nat) (hh : N) (name : bytes) (p : N) : option nat :=
    match fuel with
    | O => None
    | S f =>
      let s := at_ fm p in
      if e_hash s =? 0 then None
      else if (e_hash s =? hh) && bytes_eqb (e_name s) name then Some (e_id s)
      else probe fm f hh name ((p + 1) mod fm_n fm)
    end.

  (* Get: -1 is None.  The loop of fcache.go has no fuel; `get_terminates` shows the fuel is never exhausted
     before an empty slot or the name is met. *)
  Definition get (fm : fmap) (name : bytes) : option nat :=
    if fm_n fm =? 0 then None
    else probe fm (S (length (fm_b fm))) (strhash name) name (strhash name mod fm_n fm).

  Definition get_ci (fm : fmap) (name : bytes) : option nat := assoc_get (fm_m fm) (to_lower name).

  Fixpoint build_from (fm : fmap) (names : list bytes) (i : nat) : fmap :=
    match names with
    | [] => fm
    | n :: r => build_from (set fm n i) r (S i)
    end.

  Definition build (names : list bytes) : fmap := build_from (create (length names)) names 0.

  (* the lookup of _asm_OP_struct_field: exact probe, then the lower-cased map *)
  Definition sonic_lookup (names : list bytes) (key : bytes) : option nat :=
    let fm := build names in
    match get fm key with
    | Some i => Some i
    | None => get_ci fm key
    end.
End WithHash.

(* encoding/json: exact name first, else the first field whose folded name equals the folded key *)
Definition fold_name (s : bytes) : bytes :=
  if is_ascii s then map ascii_upper s
  else flat_map (fun cp => encode_utf8 (uni_fold cp)) (runes s).

Fixpoint find_idx (p : bytes -> bool) (names : list bytes) (i : nat) : option nat :=
  match names with
  | [] => None
  | n :: r => if p n then Some i else find_idx p r (S i)
  end.

Definition std_lookup (names : list bytes) (key : bytes) : option nat :=
  match find_idx (fun n => bytes_eqb n key) names 0 with
  | Some i => Some i
  | None => find_idx (fun n => bytes_eqb (fold_name n) (fold_name key)) names 0
  end.
