(* Dec/Range.v - the range checks the jitdec assembler emits after vsigned / vunsigned
   (assembler_regabi_amd64.go: range_signed_CX, range_unsigned_CX, range_uint32_CX), on 64-bit register
   patterns.  Immediates of CMPQ are 32 bits, sign-extended by the processor. *)
From Coq Require Import NArith ZArith List Bool Lia.
From SV.Dec Require Import Ty.
Open Scope Z_scope.

Definition two64 : Z := 2 ^ 64.
Definition enc64 (z : Z) : Z := z mod two64.                       (* register pattern of an int64 / uint64 *)
Definition as_signed (r : Z) : Z := if r <? 2 ^ 63 then r else r - two64.

(* a 32-bit immediate as the processor sees it *)
Definition imm32_sx (v : Z) : Z :=
  let w := v mod 2 ^ 32 in if w <? 2 ^ 31 then w else w + (two64 - 2 ^ 32).

(* CMPQ CX, $a ; JL err ; CMPQ CX, $b ; JG err   (signed comparisons) *)
Definition range_signed (a b : Z) (cx : Z) : bool :=
  (as_signed (imm32_sx a) <=? as_signed cx) && (as_signed cx <=? as_signed (imm32_sx b)).

(* TESTQ CX, CX ; JS err ; CMPQ CX, $v ; JA err   (JA: unsigned comparison) *)
Definition range_unsigned (v : Z) (cx : Z) : bool :=
  (cx <? 2 ^ 63) && (cx <=? imm32_sx v).

(* TESTQ CX, CX ; JS err ; MOVL CX, DX ; CMPQ CX, DX ; JNE err *)
Definition range_uint32 (cx : Z) : bool :=
  (cx <? 2 ^ 63) && (cx mod 2 ^ 32 =? cx).

(* what _asm_OP_i8 ... _asm_OP_u64 accept: vsigned / vunsigned report overflow beyond 64 bits themselves *)
Definition accept_op (k : ikind) (z : Z) : bool :=
  match k with
  | I8 | I16 | I32 => in_range I64 z && range_signed (imin k) (imax k) (enc64 z)
  | I64 => in_range I64 z
  | U8 | U16 => in_range U64 z && range_unsigned (imax k) (enc64 z)
  | U32 => in_range U64 z && range_uint32 (enc64 z)
  | U64 => in_range U64 z
  end.

(* what _asm_OP_map_key_* accept: the same checks (since fix afd5482 map_key_u32 uses range_uint32_CX like _OP_u32;
   before, it used range_unsigned_CX with MaxUint32 - see range_unsigned_imm32_pitfall below) *)
Definition accept_map_key (k : ikind) (z : Z) : bool := accept_op k z.

Lemma as_signed_enc64 : forall z, in_range I64 z = true -> as_signed (enc64 z) = z.
Proof.
  intros z H. unfold in_range, imin, imax, is_signed, ibits in H. apply andb_prop in H as [H1 H2].
  apply Z.leb_le in H1, H2. change (- 2 ^ (64 - 1)) with (-9223372036854775808) in H1.
  change (2 ^ (64 - 1) - 1) with 9223372036854775807 in H2.
  unfold as_signed, enc64, two64. change (2 ^ 64) with 18446744073709551616. change (2 ^ 63) with 9223372036854775808.
  destruct (Z_lt_dec z 0) as [L|L].
  - assert (E : z mod 18446744073709551616 = z + 18446744073709551616).
    { symmetry. apply Z.mod_unique_pos with (q := -1); lia. }
    rewrite E. destruct (z + 18446744073709551616 <? 9223372036854775808) eqn:M;
      [apply Z.ltb_lt in M; lia|lia].
  - rewrite Z.mod_small by lia.
    destruct (z <? 9223372036854775808) eqn:M; [reflexivity|apply Z.ltb_ge in M; lia].
Qed.

Lemma enc64_u64 : forall z, in_range U64 z = true -> enc64 z = z.
Proof.
  intros z H. unfold in_range, imin, imax, is_signed, ibits in H. apply andb_prop in H as [H1 H2].
  apply Z.leb_le in H1, H2. change (2 ^ 64 - 1) with 18446744073709551615 in H2.
  unfold enc64, two64. change (2 ^ 64) with 18446744073709551616. apply Z.mod_small. lia.
Qed.

Lemma in_range_bounds : forall k z, in_range k z = true <-> imin k <= z <= imax k.
Proof. intros. unfold in_range. rewrite andb_true_iff, !Z.leb_le. tauto. Qed.

Lemma bool_iff : forall a b : bool, (a = true <-> b = true) -> a = b.
Proof. intros [] [] H; try reflexivity; [symmetry|]; apply H; reflexivity. Qed.

(* accepted iff representable: every width, every integer *)
Theorem range_op_spec : forall k z, accept_op k z = in_range k z.
Proof.
  intros k z. apply bool_iff. destruct k; unfold accept_op; try tauto.
  - (* I8 *) rewrite andb_true_iff. split.
    + intros [H R]. unfold range_signed in R. rewrite (as_signed_enc64 z H) in R.
      change (as_signed (imm32_sx (imin I8))) with (-128) in R. change (as_signed (imm32_sx (imax I8))) with 127 in R.
      apply andb_prop in R as [R1 R2]. apply Z.leb_le in R1, R2. apply in_range_bounds.
      change (imin I8) with (-128). change (imax I8) with 127. lia.
    + intros H. apply in_range_bounds in H. change (imin I8) with (-128) in H. change (imax I8) with 127 in H.
      assert (H64 : in_range I64 z = true).
      { apply in_range_bounds. change (imin I64) with (-9223372036854775808). change (imax I64) with 9223372036854775807. lia. }
      split; [assumption|]. unfold range_signed. rewrite (as_signed_enc64 z H64).
      change (as_signed (imm32_sx (imin I8))) with (-128). change (as_signed (imm32_sx (imax I8))) with 127.
      apply andb_true_iff. rewrite !Z.leb_le. lia.
  - (* I16 *) rewrite andb_true_iff. split.
    + intros [H R]. unfold range_signed in R. rewrite (as_signed_enc64 z H) in R.
      change (as_signed (imm32_sx (imin I16))) with (-32768) in R. change (as_signed (imm32_sx (imax I16))) with 32767 in R.
      apply andb_prop in R as [R1 R2]. apply Z.leb_le in R1, R2. apply in_range_bounds.
      change (imin I16) with (-32768). change (imax I16) with 32767. lia.
    + intros H. apply in_range_bounds in H. change (imin I16) with (-32768) in H. change (imax I16) with 32767 in H.
      assert (H64 : in_range I64 z = true).
      { apply in_range_bounds. change (imin I64) with (-9223372036854775808). change (imax I64) with 9223372036854775807. lia. }
      split; [assumption|]. unfold range_signed. rewrite (as_signed_enc64 z H64).
      change (as_signed (imm32_sx (imin I16))) with (-32768). change (as_signed (imm32_sx (imax I16))) with 32767.
      apply andb_true_iff. rewrite !Z.leb_le. lia.
  - (* I32 *) rewrite andb_true_iff. split.
    + intros [H R]. unfold range_signed in R. rewrite (as_signed_enc64 z H) in R.
      change (as_signed (imm32_sx (imin I32))) with (-2147483648) in R. change (as_signed (imm32_sx (imax I32))) with 2147483647 in R.
      apply andb_prop in R as [R1 R2]. apply Z.leb_le in R1, R2. apply in_range_bounds.
      change (imin I32) with (-2147483648). change (imax I32) with 2147483647. lia.
    + intros H. apply in_range_bounds in H. change (imin I32) with (-2147483648) in H. change (imax I32) with 2147483647 in H.
      assert (H64 : in_range I64 z = true).
      { apply in_range_bounds. change (imin I64) with (-9223372036854775808). change (imax I64) with 9223372036854775807. lia. }
      split; [assumption|]. unfold range_signed. rewrite (as_signed_enc64 z H64).
      change (as_signed (imm32_sx (imin I32))) with (-2147483648). change (as_signed (imm32_sx (imax I32))) with 2147483647.
      apply andb_true_iff. rewrite !Z.leb_le. lia.
  - (* U8 *) rewrite andb_true_iff. split.
    + intros [H R]. unfold range_unsigned in R. rewrite (enc64_u64 z H) in R.
      change (imm32_sx (imax U8)) with 255 in R. apply andb_prop in R as [R1 R2]. apply Z.leb_le in R2.
      apply in_range_bounds in H. change (imin U64) with 0 in H.
      apply in_range_bounds. change (imin U8) with 0. change (imax U8) with 255. lia.
    + intros H. apply in_range_bounds in H. change (imin U8) with 0 in H. change (imax U8) with 255 in H.
      assert (H64 : in_range U64 z = true).
      { apply in_range_bounds. change (imin U64) with 0. change (imax U64) with 18446744073709551615. lia. }
      split; [assumption|]. unfold range_unsigned. rewrite (enc64_u64 z H64). change (imm32_sx (imax U8)) with 255.
      apply andb_true_iff. rewrite Z.ltb_lt, Z.leb_le. change (2 ^ 63) with 9223372036854775808. lia.
  - (* U16 *) rewrite andb_true_iff. split.
    + intros [H R]. unfold range_unsigned in R. rewrite (enc64_u64 z H) in R.
      change (imm32_sx (imax U16)) with 65535 in R. apply andb_prop in R as [R1 R2]. apply Z.leb_le in R2.
      apply in_range_bounds in H. change (imin U64) with 0 in H.
      apply in_range_bounds. change (imin U16) with 0. change (imax U16) with 65535. lia.
    + intros H. apply in_range_bounds in H. change (imin U16) with 0 in H. change (imax U16) with 65535 in H.
      assert (H64 : in_range U64 z = true).
      { apply in_range_bounds. change (imin U64) with 0. change (imax U64) with 18446744073709551615. lia. }
      split; [assumption|]. unfold range_unsigned. rewrite (enc64_u64 z H64). change (imm32_sx (imax U16)) with 65535.
      apply andb_true_iff. rewrite Z.ltb_lt, Z.leb_le. change (2 ^ 63) with 9223372036854775808. lia.
  - (* U32: range_uint32_CX *) rewrite andb_true_iff. split.
    + intros [H R]. unfold range_uint32 in R. rewrite (enc64_u64 z H) in R.
      apply andb_prop in R as [R1 R2]. apply Z.eqb_eq in R2.
      apply in_range_bounds in H. change (imin U64) with 0 in H.
      apply in_range_bounds. change (imin U32) with 0. change (imax U32) with 4294967295.
      change (2 ^ 32) with 4294967296 in R2. pose proof (Z.mod_pos_bound z 4294967296 ltac:(lia)). lia.
    + intros H. apply in_range_bounds in H. change (imin U32) with 0 in H. change (imax U32) with 4294967295 in H.
      assert (H64 : in_range U64 z = true).
      { apply in_range_bounds. change (imin U64) with 0. change (imax U64) with 18446744073709551615. lia. }
      split; [assumption|]. unfold range_uint32. rewrite (enc64_u64 z H64).
      apply andb_true_iff. rewrite Z.ltb_lt, Z.eqb_eq. change (2 ^ 63) with 9223372036854775808.
      change (2 ^ 32) with 4294967296. rewrite Z.mod_small by lia. lia.
Qed.

(* range_unsigned_CX cannot be used for uint32: CMPQ CX, $0xFFFFFFFF compares against a sign-extended immediate and
   rejects nothing (the defect repaired by afd5482) *)
Theorem range_unsigned_imm32_pitfall :
  exists z, in_range U32 z = false /\ in_range U64 z = true /\ range_unsigned (imax U32) (enc64 z) = true.
Proof. exists 4294967296. repeat split; vm_compute; reflexivity. Qed.

Theorem range_map_key_spec : forall k z, accept_map_key k z = in_range k z.
Proof. intros k z. apply range_op_spec. Qed.

Example range_accepts_something : accept_op I8 (-128) = true /\ accept_op U32 4294967295 = true /\ accept_op U8 256 = false.
Proof. repeat split; vm_compute; reflexivity. Qed.
