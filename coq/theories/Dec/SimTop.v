(* Dec/SimTop.v - the simulation theorem at the entry points: for every destination type of the fragment `simf`
   (bool, every integer width, float32, float64, string, interface{}, pointers, slices and fixed arrays of those,
   nested arbitrarily; destinations well shaped: an array value has exactly its N elements) the compiled program `compile t`, run by the IL interpreter with CheckTrailings, and the tree-level
   binder `sonic_unmarshal Jit` give the same result on every input, option set, initial value and hash - unless
   one of the two answers Unk (the interpreter ran out of its fuel, or the binder is outside its fragment:
   escape validation of skipped text under ValidateString). *)
From Coq Require Import NArith ZArith List Bool Lia Arith.
From SV.Dec Require Import Ty Val Parse Text Num Common FieldMap Range StdBind SonicBind Compile Exec ParseFuel Code Path SimBase DecProofs Sim ExecProofs.
Import ListNotations.
Open Scope N_scope.

Definition compat {A} (a b : res A) : Prop := a = Unk \/ b = Unk \/ a = b.

Section Top.
  Variable h : bytes -> N.
  Variable o : opts.

  Theorem sim_all : forall t, simf t = true -> Sim h o t /\ Sim h o (leaf t).
  Proof.
    induction t; simpl simf; intros F; try discriminate F.
    - split; apply Sim_bool.
    - split; apply Sim_numt; exact Logic.I.
    - split; apply Sim_numt; exact Logic.I.
    - split; apply Sim_numt; exact Logic.I.
    - split; apply Sim_str.
    - destruct (IHt F) as [S1 _]. split; apply Sim_slice; assumption.
    - destruct (IHt F) as [S1 _]. split; apply Sim_arr; assumption.
    - destruct (IHt F) as [_ S2]. split; [apply Sim_ptr; exact S2|exact S2].
    - split; apply Sim_any.
  Qed.

  Theorem il_sim : forall t s v, simf t = true -> shape t v ->
    compat (il_unmarshal h o t s v) (sonic_unmarshal h Jit o t s v).
  Proof.
    intros t s v F SHV. rewrite sonic_unmarshal_after. unfold il_unmarshal. fold (pre o s).
    rewrite (compile_one t (simf_ilf t F)).
    set (P := I OP_lspace 0 0 TBool :: code t 1).
    set (st0 := mkSt (pre o s) v [] t [] None false).
    destruct (exec h o (exec_fuel P (pre o s)) P P st0) as [s1| |] eqn:R; [| |left; reflexivity].
    - (* the program finished *)
      assert (NU : Ok s1 <> (Unk : res st)) by discriminate.
      assert (EP : P = [] ++ one t (length (@nil instr)) ++ []) by (unfold one, P; rewrite app_nil_r; reflexivity).
      assert (R' : exec h o (exec_fuel P (pre o s)) P (one t (length (@nil instr)) ++ []) st0 = Ok s1).
      { rewrite app_nil_r. exact R. }
      destruct (proj1 (sim_all t F) P [] [] EP _ st0 (Ok s1) eq_refl Logic.I SHV R' NU) as [A B].
      unfold after. cbn [st0 s_in] in A, B.
      destruct (pvalue (parse_fuel (pre o s)) (o_validate o) (pre o s)) as [[j rest]|] eqn:PVc.
      + assert (PVx : PV o (pre o s) (j, rest)) by (eexists; exact PVc).
        specialize (A j rest PVx). change (cur st0) with v in A.
        destruct (sonic_bind h Jit o t j v) as [x| |] eqn:Bd.
        * destruct A as (f' & s' & _ & E & I1 & R1 & _ & M1).
          destruct f' as [|f']; [discriminate E|]. rewrite x_end in E. inversion E; subst s'.
          cbn [st0 s_root s_vp s_mis setp] in R1, M1. rewrite M1, I1, R1.
          destruct (all_ws rest); [|right; right; reflexivity].
          destruct (o_validate o && negb (strict_jv j)); rewrite ?Bd; [right; left; reflexivity|right; right; reflexivity].
        * discriminate A.
        * exfalso. eapply bind_no_unk; eauto.
      + assert (N : NPV o (pre o s)) by (intros f; eapply pvalue_none; exact PVc).
        specialize (B N). discriminate B.
    - (* the program failed *)
      right. unfold after.
      destruct (pvalue (parse_fuel (pre o s)) (o_validate o) (pre o s)) as [[j rest]|] eqn:PVc; [|right; reflexivity].
      destruct (all_ws rest); [|right; reflexivity].
      assert (NU : Err <> (Unk : res st)) by discriminate.
      assert (EP : P = [] ++ one t (length (@nil instr)) ++ []) by (unfold one, P; rewrite app_nil_r; reflexivity).
      assert (R' : exec h o (exec_fuel P (pre o s)) P (one t (length (@nil instr)) ++ []) st0 = Err).
      { rewrite app_nil_r. exact R. }
      destruct (proj1 (sim_all t F) P [] [] EP _ st0 Err eq_refl Logic.I SHV R' NU) as [A _].
      assert (PVx : PV o (pre o s) (j, rest)) by (eexists; exact PVc).
      specialize (A j rest PVx). change (cur st0) with v in A.
      destruct (sonic_bind h Jit o t j v) as [x| |] eqn:Bd.
      * destruct A as (f' & s' & _ & E & _). destruct f' as [|f']; discriminate E.
      * destruct (o_validate o && negb (strict_jv j)); rewrite ?Bd; right; reflexivity.
      * exfalso. eapply bind_no_unk; eauto.
  Qed.

  (* with C01_bind_agree: on the common fragment the compiled program agrees with encoding/json *)
  Theorem il_sim_vs_std : forall t s v,
    simf t = true -> shape t v -> frag t = true -> input_ok o s -> (forall j, parse s = Some j -> guards o j) ->
    match parse s with
    | Some j => compat (il_unmarshal h o t s v) (std_unmarshal o t s v)
    | None => std_unmarshal o t s v = Err /\
              (il_unmarshal h o t s v = Err \/ il_unmarshal h o t s v = Unk \/ sonic_unmarshal h Jit o t s v = Unk \/
               skipped_only_structural h o t s v)
    end.
  Proof.
    intros t s v F1 SHV F2 I G. pose proof (bind_agree_top h o t s v F2 I G) as A. pose proof (il_sim t s v F1 SHV) as C.
    destruct (parse s) as [j|].
    - rewrite <- A. exact C.
    - destruct A as [A1 A2]. split; [exact A1|].
      destruct C as [C|[C|C]]; [right; left; exact C|right; right; left; exact C|].
      destruct A2 as [A2|A2]; [left; congruence|right; right; right; exact A2].
  Qed.
End Top.
