(* Dec/ParseFuel.v - the fuel of the reference reader is immaterial: a result obtained with some fuel is obtained
   with every larger fuel (monotonicity), every value consumes at least one byte, and the fuel `parse_fuel s`
   used by the top-level entry points is always enough (completeness).  Fuel-free relational forms PV / PE. *)
From Coq Require Import NArith ZArith List Bool Lia Arith.
From SV.Dec Require Import Ty Parse.
Import ListNotations.
Open Scope N_scope.

(* ---- lengths ---- *)
Lemma skip_ws_len : forall s, (length (skip_ws s) <= length s)%nat.
Proof. induction s as [|c s IH]; simpl; [lia|]. destruct (is_ws c); simpl; lia. Qed.

Lemma skip_ws_idem : forall s, skip_ws (skip_ws s) = skip_ws s.
Proof.
  induction s as [|c s IH]; simpl; [reflexivity|]. destruct (is_ws c) eqn:W; [exact IH|]. simpl. rewrite W. reflexivity.
Qed.

Lemma skip_ws_head : forall s c r, skip_ws s = c :: r -> is_ws c = false.
Proof.
  induction s as [|d s IH]; simpl; intros c r H; [discriminate|].
  destruct (is_ws d) eqn:W; [eapply IH; exact H|]. inversion H; subst. exact W.
Qed.

Lemma skip_ws_nows : forall c r, is_ws c = false -> skip_ws (c :: r) = c :: r.
Proof. intros c r H. simpl. rewrite H. reflexivity. Qed.

Lemma scan_str_len : forall ctl n s acc b r, (length s <= n)%nat -> scan_str ctl s acc = Some (b, r) -> (length r < length s)%nat.
Proof.
  induction n as [|n IH]; intros s acc b r L H.
  - destruct s; [simpl in H; discriminate|simpl in L; lia].
  - destruct s as [|c s']; [simpl in H; discriminate|]. simpl in *.
    destruct (c =? 34); [inversion H; subst; lia|].
    destruct (c =? 92).
    + destruct s' as [|d s'']; [discriminate|]. apply IH in H; simpl in *; lia.
    + destruct (ctl && (c <? 32)); [discriminate|]. apply IH in H; lia.
Qed.

Lemma take_digits_len : forall s acc a r, take_digits s acc = (a, r) -> (length r <= length s)%nat.
Proof.
  induction s as [|c s IH]; simpl; intros acc a r H; [inversion H; simpl; lia|].
  destruct (is_digit c); [apply IH in H; lia|inversion H; simpl; lia].
Qed.

Lemma take_digits_len1 : forall c s acc a r, is_digit c = true -> take_digits (c :: s) acc = (a, r) -> (length r <= length s)%nat.
Proof. intros c s acc a r D H. simpl in H. rewrite D in H. apply take_digits_len in H. exact H. Qed.

(* after the leading digit(s): fraction and exponent never give input back *)
Definition num_tail (acc s2 : bytes) : option (bytes * bytes) :=
    let frac :=
      match s2 with
      | d :: r2 =>
        if d =? 46 then
          match r2 with
          | e :: _ => if is_digit e then Some (take_digits r2 (d :: acc)) else None
          | [] => None
          end
        else Some (acc, s2)
      | [] => Some (acc, s2)
      end in
    match frac with
    | None => None
    | Some (acc, s3) =>
      match s3 with
      | e :: r3 =>
        if (e =? 101) || (e =? 69) then
          let '(acc', r4) := match r3 with
                             | g :: r4 => if (g =? 43) || (g =? 45) then (g :: e :: acc, r4) else (e :: acc, r3)
                             | [] => (e :: acc, r3)
                             end in
          match r4 with
          | d :: _ => if is_digit d then let '(a, rest) := take_digits r4 acc' in Some (rev a, rest) else None
          | [] => None
          end
        else Some (rev acc, s3)
      | [] => Some (rev acc, s3)
      end
    end.

Lemma num_tail_len : forall acc s2 t r, num_tail acc s2 = Some (t, r) -> (length r <= length s2)%nat.
Proof.
  intros acc s2 t r H. unfold num_tail in H.
  assert (P3 : forall a3 s3,
     match s2 with
      | d :: r2 => if d =? 46 then match r2 with
          | e :: _ => if is_digit e then Some (take_digits r2 (d :: acc)) else None
          | [] => None end else Some (acc, s2)
      | [] => Some (acc, s2) end = Some (a3, s3) -> (length s3 <= length s2)%nat).
  { intros a3 s3 E. destruct s2 as [|d r2]; [inversion E; simpl; lia|].
    destruct (d =? 46).
    - destruct r2 as [|e r2']; [discriminate|]. destruct (is_digit e) eqn:DE; [|discriminate].
      injection E as E'. rewrite ?DE in E'. apply take_digits_len in E'. simpl in *. lia.
    - inversion E; simpl; lia. }
  cbv zeta in H.
  match type of H with match ?F with _ => _ end = _ => destruct F as [[a3 s3]|] eqn:EF; [|discriminate] end.
  specialize (P3 a3 s3 eq_refl).
  destruct s3 as [|e r3]; [inversion H; subst; simpl in *; lia|].
  destruct ((e =? 101) || (e =? 69)); [|inversion H; subst; simpl in *; lia].
  match type of H with (let '(_, _) := ?X in _) = _ => destruct X as [acc' r4] eqn:E4 end.
  assert (P4 : (length r4 <= length r3)%nat).
  { destruct r3 as [|g r4']; [inversion E4; simpl; lia|]. destruct ((g =? 43) || (g =? 45)); inversion E4; simpl; lia. }
  destruct r4 as [|d r5]; [discriminate|]. destruct (is_digit d); [|discriminate].
  destruct (take_digits (d :: r5) acc') as [a rest] eqn:T. inversion H; subst.
  apply take_digits_len in T. simpl in *. lia.
Qed.

Lemma scan_num_tail : forall s, scan_num s =
  let '(acc, s1) := match s with c :: r => if c =? 45 then ([c], r) else ([], s) | [] => ([], s) end in
  match s1 with
  | [] => None
  | c :: r =>
    if negb (is_digit c) then None else
    let '(acc, s2) := if c =? 48 then (c :: acc, r) else take_digits s1 acc in
    num_tail acc s2
  end.
Proof. reflexivity. Qed.

Lemma scan_num_len : forall s t r, scan_num s = Some (t, r) -> (length r < length s)%nat.
Proof.
  intros s t r H. rewrite scan_num_tail in H.
  assert (G : forall acc c r1, (if negb (is_digit c) then None else
               let '(acc, s2) := if c =? 48 then (c :: acc, r1) else take_digits (c :: r1) acc in num_tail acc s2) = Some (t, r) ->
               (length r <= length r1)%nat).
  { intros acc c r1 E. destruct (is_digit c) eqn:DG; [|discriminate]. simpl negb in E. cbv iota in E.
    destruct (c =? 48).
    - apply num_tail_len in E. exact E.
    - destruct (take_digits (c :: r1) acc) as [a q] eqn:T. apply (take_digits_len1 _ _ _ _ _ DG) in T.
      apply num_tail_len in E. lia. }
  destruct s as [|c0 s0]; [discriminate|].
  destruct (c0 =? 45).
  - destruct s0 as [|c r1]; [discriminate|]. apply G in H. simpl. lia.
  - apply G in H. simpl. lia.
Qed.

Lemma lit_len : forall w s r, w <> [] -> lit w s = Some r -> (length r < length s)%nat.
Proof.
  intros w s r NW H. unfold lit in H.
  destruct ((fix pre (w0 s0 : bytes) {struct w0} : bool :=
               match w0, s0 with
               | [], _ => true
               | x :: w', y :: s' => (x =? y) && pre w' s'
               | _ :: _, [] => false
               end) w s) eqn:P; [|discriminate].
  inversion H; subst. destruct w as [|x w]; [contradiction|]. destruct s as [|y s]; [discriminate|].
  simpl. pose proof (skipn_length (length w) s). lia.
Qed.

Section Fuel.
  Variable ctl : bool.

  (* ---- monotonicity ---- *)
  Definition Mv (f : nat) := forall s x, pvalue f ctl s = Some x -> pvalue (S f) ctl s = Some x.
  Definition Me (f : nat) := forall s acc x, pelems f ctl s acc = Some x -> pelems (S f) ctl s acc = Some x.
  Definition Mm (f : nat) := forall s acc x, pmembers f ctl s acc = Some x -> pmembers (S f) ctl s acc = Some x.

  Lemma mono_all : forall f, Mv f /\ Me f /\ Mm f.
  Proof.
    induction f as [|f [IHv [IHe IHm]]].
    - repeat split; intros ? *; simpl; discriminate.
    - repeat split.
      + intros s x H. change (pvalue (S (S f)) ctl s) with
          (let s := skip_ws s in
           match s with
           | [] => None
           | c :: r =>
             if c =? 123 then
               let r' := skip_ws r in
               match r' with
               | d :: r2 => if d =? 125 then Some (JObj (span s r2) [], r2)
                            else match pmembers (S f) ctl r' [] with
                                 | Some (ms, rest) => Some (JObj (span s rest) ms, rest)
                                 | None => None end
               | [] => None end
             else if c =? 91 then
               let r' := skip_ws r in
               match r' with
               | d :: r2 => if d =? 93 then Some (JArr (span s r2) [], r2)
                            else match pelems (S f) ctl r' [] with
                                 | Some (es, rest) => Some (JArr (span s rest) es, rest)
                                 | None => None end
               | [] => None end
             else if c =? 34 then match scan_str ctl r [] with Some (b, rest) => Some (JStr b, rest) | None => None end
             else if c =? 116 then match lit [116; 114; 117; 101] s with Some rest => Some (JTrue, rest) | None => None end
             else if c =? 102 then match lit [102; 97; 108; 115; 101] s with Some rest => Some (JFalse, rest) | None => None end
             else if c =? 110 then match lit [110; 117; 108; 108] s with Some rest => Some (JNull, rest) | None => None end
             else match scan_num s with Some (t, rest) => Some (JNum t, rest) | None => None end
           end).
        simpl in H. cbv zeta. destruct (skip_ws s) as [|c s1] eqn:W; [discriminate|].
        destruct (c =? 123).
        { destruct (skip_ws s1) as [|d s2]; [discriminate|]. destruct (d =? 125); [exact H|].
          destruct (pmembers f ctl (d :: s2) []) as [[ms rest]|] eqn:M; [|discriminate].
          rewrite (IHm _ _ _ M). exact H. }
        destruct (c =? 91).
        { destruct (skip_ws s1) as [|d s2]; [discriminate|]. destruct (d =? 93); [exact H|].
          destruct (pelems f ctl (d :: s2) []) as [[es rest]|] eqn:M; [|discriminate].
          rewrite (IHe _ _ _ M). exact H. }
        exact H.
      + intros s acc x H.
        change (pelems (S (S f)) ctl s acc) with
          (match pvalue (S f) ctl s with
           | None => None
           | Some (v, rest) =>
             match skip_ws rest with
             | c :: r => if c =? 44 then pelems (S f) ctl r (v :: acc) else if c =? 93 then Some (rev (v :: acc), r) else None
             | [] => None end end).
        simpl in H. destruct (pvalue f ctl s) as [[v rest]|] eqn:M; [|discriminate]. rewrite (IHv _ _ M).
        destruct (skip_ws rest) as [|c r1]; [discriminate|].
        destruct (c =? 44); [apply IHe; exact H|exact H].
      + intros s acc x H.
        change (pmembers (S (S f)) ctl s acc) with
          (match skip_ws s with
           | q :: r =>
             if negb (q =? 34) then None else
             match scan_str ctl r [] with
             | None => None
             | Some (k, rest) =>
               match skip_ws rest with
               | c :: r2 =>
                 if negb (c =? 58) then None else
                 match pvalue (S f) ctl r2 with
                 | None => None
                 | Some (v, rest2) =>
                   match skip_ws rest2 with
                   | d :: r3 => if d =? 44 then pmembers (S f) ctl r3 ((k, v) :: acc)
                                else if d =? 125 then Some (rev ((k, v) :: acc), r3) else None
                   | [] => None end end
               | [] => None end end
           | [] => None end).
        simpl in H.
        destruct (skip_ws s) as [|q r1]; [discriminate|]. destruct (negb (q =? 34)); [discriminate|].
        destruct (scan_str ctl r1 []) as [[k rest]|]; [|discriminate].
        destruct (skip_ws rest) as [|c r2]; [discriminate|]. destruct (negb (c =? 58)); [discriminate|].
        destruct (pvalue f ctl r2) as [[v rest2]|] eqn:M2; [|discriminate]. rewrite (IHv _ _ M2).
        destruct (skip_ws rest2) as [|d r3]; [discriminate|].
        destruct (d =? 44); [apply IHm; exact H|exact H].
  Qed.

  Lemma pvalue_mono : forall f f' s x, (f <= f')%nat -> pvalue f ctl s = Some x -> pvalue f' ctl s = Some x.
  Proof. intros f f' s x L H. induction L; [exact H|]. apply (proj1 (mono_all _)). exact IHL. Qed.
  Lemma pelems_mono : forall f f' s acc x, (f <= f')%nat -> pelems f ctl s acc = Some x -> pelems f' ctl s acc = Some x.
  Proof. intros f f' s acc x L H. induction L; [exact H|]. apply (proj1 (proj2 (mono_all _))). exact IHL. Qed.
  Lemma pmembers_mono : forall f f' s acc x, (f <= f')%nat -> pmembers f ctl s acc = Some x -> pmembers f' ctl s acc = Some x.
  Proof. intros f f' s acc x L H. induction L; [exact H|]. apply (proj2 (proj2 (mono_all _))). exact IHL. Qed.

  (* ---- every value consumes input ---- *)
  Definition Lv (f : nat) := forall s j r, pvalue f ctl s = Some (j, r) -> (length r < length s)%nat.
  Definition Le (f : nat) := forall s acc l r, pelems f ctl s acc = Some (l, r) -> (length r < length s)%nat.
  Definition Lm (f : nat) := forall s acc l r, pmembers f ctl s acc = Some (l, r) -> (length r < length s)%nat.

  Lemma len_all : forall f, Lv f /\ Le f /\ Lm f.
  Proof.
    induction f as [|f [IHv [IHe IHm]]].
    - repeat split; intros ? *; simpl; discriminate.
    - repeat split.
      + intros s j r H. simpl in H. pose proof (skip_ws_len s) as W0.
        destruct (skip_ws s) as [|c s1] eqn:W; [discriminate|]. simpl in W0.
        destruct (c =? 123).
        { pose proof (skip_ws_len s1) as W1. destruct (skip_ws s1) as [|d s2]; [discriminate|]. simpl in W1.
          destruct (d =? 125); [inversion H; subst; lia|].
          destruct (pmembers f ctl (d :: s2) []) as [[ms rest]|] eqn:M; [|discriminate].
          apply IHm in M. simpl in M. inversion H; subst. lia. }
        destruct (c =? 91).
        { pose proof (skip_ws_len s1) as W1. destruct (skip_ws s1) as [|d s2]; [discriminate|]. simpl in W1.
          destruct (d =? 93); [inversion H; subst; lia|].
          destruct (pelems f ctl (d :: s2) []) as [[es rest]|] eqn:M; [|discriminate].
          apply IHe in M. simpl in M. inversion H; subst. lia. }
        destruct (c =? 34).
        { destruct (scan_str ctl s1 []) as [[bd rest]|] eqn:M; [|discriminate].
          apply (scan_str_len ctl (length s1)) in M; [|lia]. inversion H; subst. lia. }
        destruct (c =? 116).
        { destruct (lit [116; 114; 117; 101] (c :: s1)) as [rest|] eqn:M; [|discriminate].
          apply lit_len in M; [|discriminate]. inversion H; subst. simpl in M. lia. }
        destruct (c =? 102).
        { destruct (lit [102; 97; 108; 115; 101] (c :: s1)) as [rest|] eqn:M; [|discriminate].
          apply lit_len in M; [|discriminate]. inversion H; subst. simpl in M. lia. }
        destruct (c =? 110).
        { destruct (lit [110; 117; 108; 108] (c :: s1)) as [rest|] eqn:M; [|discriminate].
          apply lit_len in M; [|discriminate]. inversion H; subst. simpl in M. lia. }
        destruct (scan_num (c :: s1)) as [[t rest]|] eqn:M; [|discriminate].
        apply scan_num_len in M. inversion H; subst. simpl in M. lia.
      + intros s acc l r H. simpl in H.
        destruct (pvalue f ctl s) as [[v rest]|] eqn:M; [|discriminate]. apply IHv in M.
        pose proof (skip_ws_len rest) as W1. destruct (skip_ws rest) as [|c r1]; [discriminate|]. simpl in W1.
        destruct (c =? 44); [apply IHe in H; lia|].
        destruct (c =? 93); [inversion H; subst; lia|discriminate].
      + intros s acc l r H. simpl in H.
        pose proof (skip_ws_len s) as W0. destruct (skip_ws s) as [|q r1]; [discriminate|]. simpl in W0.
        destruct (negb (q =? 34)); [discriminate|].
        destruct (scan_str ctl r1 []) as [[k rest]|] eqn:M; [|discriminate].
        apply (scan_str_len ctl (length r1)) in M; [|lia].
        pose proof (skip_ws_len rest) as W1. destruct (skip_ws rest) as [|c r2]; [discriminate|]. simpl in W1.
        destruct (negb (c =? 58)); [discriminate|].
        destruct (pvalue f ctl r2) as [[v rest2]|] eqn:M2; [|discriminate]. apply IHv in M2.
        pose proof (skip_ws_len rest2) as W2. destruct (skip_ws rest2) as [|d r3]; [discriminate|]. simpl in W2.
        destruct (d =? 44); [apply IHm in H; lia|].
        destruct (d =? 125); [inversion H; subst; lia|discriminate].
  Qed.

  Lemma pvalue_len : forall f s j r, pvalue f ctl s = Some (j, r) -> (length r < length s)%nat.
  Proof. intros f. apply (len_all f). Qed.
  Lemma pelems_len : forall f s acc l r, pelems f ctl s acc = Some (l, r) -> (length r < length s)%nat.
  Proof. intros f. apply (len_all f). Qed.

  (* ---- completeness: fuel proportional to the consumed length is enough ---- *)
  Definition Bv (f : nat) := forall s j r, pvalue f ctl s = Some (j, r) ->
    forall F, (2 * (length s - length r) <= F)%nat -> pvalue F ctl s = Some (j, r).
  Definition Be (f : nat) := forall s acc l r, pelems f ctl s acc = Some (l, r) ->
    forall F, (2 * (length s - length r) <= F)%nat -> pelems F ctl s acc = Some (l, r).
  Definition Bm (f : nat) := forall s acc l r, pmembers f ctl s acc = Some (l, r) ->
    forall F, (2 * (length s - length r) <= F)%nat -> pmembers F ctl s acc = Some (l, r).

  Lemma bound_all : forall f, Bv f /\ Be f /\ Bm f.
  Proof.
    induction f as [|f [IHv [IHe IHm]]].
    - repeat split; intros ? *; simpl; discriminate.
    - repeat split.
      + intros s j r H F LF. pose proof (pvalue_len _ _ _ _ H) as PL.
        destruct F as [|F]; [lia|].
        simpl in H. simpl. pose proof (skip_ws_len s) as W0.
        destruct (skip_ws s) as [|c s1] eqn:W; [discriminate|]. simpl in W0.
        destruct (c =? 123).
        { pose proof (skip_ws_len s1) as W1. destruct (skip_ws s1) as [|d s2]; [discriminate|]. simpl in W1.
          destruct (d =? 125); [exact H|].
          destruct (pmembers f ctl (d :: s2) []) as [[ms rest]|] eqn:M; [|discriminate].
          inversion H; subst. rewrite (IHm _ _ _ _ M F); [reflexivity|]. simpl length. lia. }
        destruct (c =? 91).
        { pose proof (skip_ws_len s1) as W1. destruct (skip_ws s1) as [|d s2]; [discriminate|]. simpl in W1.
          destruct (d =? 93); [exact H|].
          destruct (pelems f ctl (d :: s2) []) as [[es rest]|] eqn:M; [|discriminate].
          inversion H; subst. rewrite (IHe _ _ _ _ M F); [reflexivity|]. simpl length. lia. }
        exact H.
      + intros s acc l r H F LF. pose proof (pelems_len _ _ _ _ _ H) as PL.
        destruct F as [|F]; [lia|].
        simpl in H. simpl.
        destruct (pvalue f ctl s) as [[v rest]|] eqn:M; [|discriminate].
        pose proof (pvalue_len _ _ _ _ M) as ML.
        pose proof (skip_ws_len rest) as W1. destruct (skip_ws rest) as [|c r1] eqn:W; [discriminate|]. simpl in W1.
        assert (RL : (length r <= length r1)%nat).
        { destruct (c =? 44); [apply pelems_len in H; lia|]. destruct (c =? 93); [inversion H; subst; lia|discriminate]. }
        rewrite (IHv _ _ _ M F) by lia. rewrite W.
        destruct (c =? 44); [apply (IHe _ _ _ _ H); lia|exact H].
      + intros s acc l r H F LF. pose proof (proj2 (proj2 (len_all _)) _ _ _ _ H) as PL.
        destruct F as [|F]; [lia|].
        simpl in H. simpl.
        pose proof (skip_ws_len s) as W0. destruct (skip_ws s) as [|q r1]; [discriminate|]. simpl in W0.
        destruct (negb (q =? 34)); [discriminate|].
        destruct (scan_str ctl r1 []) as [[k rest]|] eqn:M; [|discriminate].
        apply (scan_str_len ctl (length r1)) in M; [|lia].
        pose proof (skip_ws_len rest) as W1. destruct (skip_ws rest) as [|c r2]; [discriminate|]. simpl in W1.
        destruct (negb (c =? 58)); [discriminate|].
        destruct (pvalue f ctl r2) as [[v rest2]|] eqn:M2; [|discriminate].
        pose proof (pvalue_len _ _ _ _ M2) as ML.
        pose proof (skip_ws_len rest2) as W2. destruct (skip_ws rest2) as [|d r3] eqn:W; [discriminate|]. simpl in W2.
        assert (RL : (length r <= length r3)%nat).
        { destruct (d =? 44); [apply (proj2 (proj2 (len_all _))) in H; lia|]. destruct (d =? 125); [inversion H; subst; lia|discriminate]. }
        rewrite (IHv _ _ _ M2 F) by lia. rewrite W.
        destruct (d =? 44); [apply (IHm _ _ _ _ H); lia|exact H].
  Qed.

  Theorem pvalue_complete : forall f s x, pvalue f ctl s = Some x -> pvalue (parse_fuel s) ctl s = Some x.
  Proof.
    intros f s [j r] H. apply (proj1 (bound_all f) _ _ _ H). unfold parse_fuel. lia.
  Qed.

  Corollary pvalue_none : forall s, pvalue (parse_fuel s) ctl s = None -> forall f, pvalue f ctl s = None.
  Proof.
    intros s H f. destruct (pvalue f ctl s) as [x|] eqn:E; [|reflexivity].
    rewrite (pvalue_complete _ _ _ E) in H. discriminate.
  Qed.

  Lemma pvalue_det : forall f f' s x y, pvalue f ctl s = Some x -> pvalue f' ctl s = Some y -> x = y.
  Proof.
    intros f f' s x y H1 H2. apply pvalue_complete in H1. apply pvalue_complete in H2. congruence.
  Qed.

  Lemma pelems_bound : forall f s acc l r, pelems f ctl s acc = Some (l, r) ->
    forall F, (2 * (length s - length r) <= F)%nat -> pelems F ctl s acc = Some (l, r).
  Proof. intros f. apply (proj1 (proj2 (bound_all f))). Qed.
End Fuel.
