(* Dec/Val.v - values of destinations. One untyped tree; the type says how a node is read:
   VNil      nil slice / map / pointer / interface / []byte / RawMessage
   VList v h slice (visible elements, hidden elements between len and cap), array, struct (resolved fields),
             []byte (elements VInt), []interface{}
   VMap      association list, keys unique
   VStr      string, json.Number field, RawMessage bytes, text recorded by an abstract leaf
   VNum      json.Number inside an interface{}  *)
From Coq Require Import NArith ZArith List Bool.
From SV.Dec Require Import Ty.
Import ListNotations.
Open Scope N_scope.

Inductive val :=
| VNil
| VBool (b : bool)
| VInt (z : Z)
| VFlt (bits : N)
| VStr (s : bytes)
| VNum (s : bytes)
| VList (vis : list val) (hid : list val)
| VMap (m : list (val * val))
| VPtr (v : val).

Fixpoint zero (t : ty) : val :=
  match t with
  | TBool => VBool false
  | TInt _ => VInt 0
  | TF32 | TF64 => VFlt 0
  | TStr | TNum => VStr []
  | TBytes | TSlice _ | TMap _ _ | TPtr _ | TAny | TRaw => VNil
  | TArr n e => VList (repeat (zero e) n) []
  | TStruct fs => VList (zero_fields fs) []
  | TUnm | TText => VStr []
  end
with zero_fields (fs : fields) : list val :=
  match fs with FNil => [] | FCons _ _ t r => zero t :: zero_fields r end.

Fixpoint bytes_eqb (a b : bytes) : bool :=
  match a, b with
  | [], [] => true
  | x :: a', y :: b' => (x =? y) && bytes_eqb a' b'
  | _, _ => false
  end.

(* key equality for map keys (VStr / VInt only) *)
Definition key_eqb (a b : val) : bool :=
  match a, b with
  | VStr x, VStr y => bytes_eqb x y
  | VInt x, VInt y => Z.eqb x y
  | _, _ => false
  end.

Fixpoint map_get (m : list (val * val)) (k : val) : option val :=
  match m with
  | [] => None
  | (k', v) :: r => if key_eqb k' k then Some v else map_get r k
  end.

Fixpoint map_set (m : list (val * val)) (k v : val) : list (val * val) :=
  match m with
  | [] => [(k, v)]
  | (k', v') :: r => if key_eqb k' k then (k', v) :: r else (k', v') :: map_set r k v
  end.

(* result of a bind: Ok value, Err (Unmarshal returns an error), Unk (outside the modelled fragment) *)
Inductive res (A : Type) := Ok (a : A) | Err | Unk.
Arguments Ok {A} a.
Arguments Err {A}.
Arguments Unk {A}.

Definition rbind {A B} (r : res A) (f : A -> res B) : res B :=
  match r with Ok a => f a | Err => Err | Unk => Unk end.

Definition of_opt {A} (o : option A) : res A := match o with Some a => Ok a | None => Err end.

Notation "'do' x <- r ; k" := (rbind r (fun x => k)) (at level 200, x pattern, r at level 100, k at level 200).
