(* Dec/Exec.v - an interpreter for the jitdec opcode programs of Dec/Compile.v, with the semantics of the
   _asm_OP_* emitters (assembler_regabi_amd64.go) over bytes.
   State: the remaining input (IC as a suffix), VP as a path into the destination value together with the type
   it points at, the VP stack (_OP_save / _OP_load / _OP_drop), the switch register sr.
   A recorded mismatch (_VAR_et) ends in an error whatever follows, so go_skip and the mismatch exits of the
   value parsers abort with Err.  Native routines are represented by the reference reader of Dec/Parse.v
   (skip_one, skip_array = structural reading) and by the string / number functions of Text.v / Num.v.
   Modelling choice: an array and its first element share an address; `save` executed with VP at an array type
   (only compileArray does that) moves VP to element 0. *)
From Coq Require Import NArith ZArith List Bool.
From SV.Dec Require Import Ty Val Parse Text Num Common FieldMap Range SonicBind Compile.
Import ListNotations.
Open Scope N_scope.

Inductive step_ := PElem (i : nat) | PDeref | PMapVal (k : val).
Definition path := list step_.

Fixpoint getp (v : val) (p : path) : val :=
  match p with
  | [] => v
  | PElem i :: r => match v with VList vis hid => getp (nth i (vis ++ hid) VNil) r | _ => VNil end
  | PDeref :: r => match v with VPtr x => getp x r | _ => VNil end
  | PMapVal k :: r => match v with VMap m => match map_get m k with Some x => getp x r | None => VNil end | _ => VNil end
  end.

Fixpoint setp (v : val) (p : path) (x : val) : val :=
  match p with
  | [] => x
  | PElem i :: r =>
    match v with
    | VList vis hid =>
      if Nat.ltb i (length vis) then VList (nth_set vis i (setp (nth i vis VNil) r x)) hid
      else VList vis (nth_set hid (i - length vis) (setp (nth (i - length vis) hid VNil) r x))
    | _ => v
    end
  | PDeref :: r => match v with VPtr y => VPtr (setp y r x) | _ => v end
  | PMapVal k :: r =>
    match v with
    | VMap m => match map_get m k with Some y => VMap (map_set m k (setp y r x)) | None => v end
    | _ => v
    end
  end.

Fixpoint nth_field_ty (fs : fields) (i : nat) : ty :=
  match fs, i with
  | FCons _ _ t _, O => t
  | FCons _ _ _ r, S i' => nth_field_ty r i'
  | FNil, _ => TBool
  end.

Record st := mkSt {
  s_in : bytes;                 (* input from IC on *)
  s_root : val;                 (* the destination *)
  s_vp : path; s_vt : ty;       (* VP and the type it points at *)
  s_stk : list (path * ty);     (* _Stack *)
  s_sr : option nat;            (* sr: result of struct_field *)
  s_mis : bool                  (* _VAR_et: a type mismatch was recorded; the call returns it at the epilogue *)
}.

Inductive outcome := Next (s : st) | Jump (pc : nat) (s : st) | Fail | Unknown.

Definition starts (w : bytes) (s : bytes) : bool := match lit w s with Some _ => true | None => false end.

Section Exec.
  Variable h : bytes -> N.
  Variable o : opts.

  Definition cur (s : st) : val := getp (s_root s) (s_vp s).
  Definition wr (s : st) (x : val) : st := mkSt (s_in s) (setp (s_root s) (s_vp s) x) (s_vp s) (s_vt s) (s_stk s) (s_sr s) (s_mis s).
  Definition adv (s : st) (r : bytes) : st := mkSt r (s_root s) (s_vp s) (s_vt s) (s_stk s) (s_sr s) (s_mis s).
  Definition mv (s : st) (p : path) (t : ty) : st := mkSt (s_in s) (s_root s) p t (s_stk s) (s_sr s) (s_mis s).

  (* a scalar parsed by vsigned / vunsigned / vnumber at IC; the token must be a JSON number *)
  Definition num_op (s : st) (f : bytes -> res val) : outcome :=
    match scan_num (s_in s) with
    | Some (t, r) => match f t with Ok x => Next (adv (wr s x) r) | Err => Fail | Unk => Unknown end
    | None => Fail
    end.

  (* parse_string + unquote_once at IC (the opening quote is already consumed) *)
  Definition str_at (s : st) : option (bytes * bytes) :=
    match scan_str (o_validate o) (s_in s) [] with
    | Some (body, r) => match sunq Jit o body with Some u => Some (u, r) | None => None end
    | None => None
    end.

  Definition int_key (ik : ikind) (e : ty) (s : st) : outcome :=
    match scan_num (s_in s) with
    | Some (t, r) =>
      match sonic_key Jit o (KInt ik) t, r with
      | Ok kv, q :: r' =>
        if q =? 34 then
          match cur s with
          | VMap m =>
            let m' := match map_get m kv with Some _ => m | None => map_set m kv (zero e) end in
            Next (mv (adv (wr s (VMap m')) r') (s_vp s ++ [PMapVal kv]) e)
          | _ => Fail
          end
        else Fail
      | Unk, _ => Unknown
      | _, _ => Fail
      end
    | None => Fail
    end.

  Definition exec1 (run : ty -> st -> res st) (i : instr) (s : st) : outcome :=
    let inp := s_in s in
    match i_op i with
    | OP_lspace => match skip_ws inp with [] => Fail | r => Next (adv s r) end
    | OP_match_char => match inp with c :: r => if c =? i_vb i then Next (adv s r) else Fail | [] => Fail end
    | OP_check_char => match inp with c :: r => if c =? i_vb i then Jump (i_vi i) (adv s r) else Next s | [] => Fail end
    | OP_check_char_0 => match inp with c :: _ => if c =? i_vb i then Jump (i_vi i) s else Next s | [] => Fail end
    | OP_check_empty =>
      match inp with
      | c :: r => if c =? i_vb i then Jump (i_vi i) (adv (wr s (VList [] [])) r) else Next s
      | [] => Fail
      end
    | OP_add => Next (adv s (skipn (i_vi i) inp))
    | OP_goto => Jump (i_vi i) s
    | OP_is_null => if starts lit_null inp then Jump (i_vi i) (adv s (skipn 4 inp)) else Next s
    | OP_is_null_quote =>
      if starts (lit_null ++ [34]) inp then Jump (i_vi i) (adv s (skipn 5 inp)) else Next s
    | OP_dismatch_err => Next (mkSt inp (s_root s) (s_vp s) (s_vt s) (s_stk s) (s_sr s) true)
    | OP_go_skip => Fail                                   (* mismatch recorded: the call ends with an error *)
    | OP_nil_1 | OP_nil_2 | OP_nil_3 => Next (wr s VNil)
    | OP_empty_bytes => Next (wr s (VList [] []))
    | OP_bool =>
      if starts lit_true inp then Next (adv (wr s (VBool true)) (skipn 4 inp))
      else if starts lit_false inp then Next (adv (wr s (VBool false)) (skipn 5 inp))
      else Fail
    | OP_i8 => num_op s (fun t => sonic_int I8 (JNum t) VNil)
    | OP_i16 => num_op s (fun t => sonic_int I16 (JNum t) VNil)
    | OP_i32 => num_op s (fun t => sonic_int I32 (JNum t) VNil)
    | OP_i64 => num_op s (fun t => sonic_int I64 (JNum t) VNil)
    | OP_u8 => num_op s (fun t => sonic_int U8 (JNum t) VNil)
    | OP_u16 => num_op s (fun t => sonic_int U16 (JNum t) VNil)
    | OP_u32 => num_op s (fun t => sonic_int U32 (JNum t) VNil)
    | OP_u64 => num_op s (fun t => sonic_int U64 (JNum t) VNil)
    | OP_f32 => num_op s sonic_f32
    | OP_f64 => num_op s sonic_f64
    | OP_num =>
      (* an optional opening quote, skip_number, then the closing quote if there was one *)
      match inp with
      | c :: r =>
        let '(q, body) := if c =? 34 then (true, r) else (false, inp) in
        match scan_num body with
        | Some (t, r') =>
          if q then match r' with d :: r'' => if d =? 34 then Next (adv (wr s (VStr t)) r'') else Fail | [] => Fail end
          else Next (adv (wr s (VStr t)) r')
        | None => Fail
        end
      | [] => Fail
      end
    | OP_str => match str_at s with Some (u, r) => Next (adv (wr s (VStr u)) r) | None => Fail end
    | OP_unquote =>
      (* the rest of a `,string` string field: the body up to the closing quote of the outer literal *)
      match scan_str (o_validate o) inp [] with
      | Some (body, r) => match sonic_quoted_base Jit o TStr body with
                          | Ok x => Next (adv (wr s x) r) | Err => Fail | Unk => Unknown end
      | None => Fail
      end
    | OP_bin =>
      match scan_str (o_validate o) inp [] with
      | Some (body, r) => match sonic_b64 Jit o body with Ok x => Next (adv (wr s x) r) | Err => Fail | Unk => Unknown end
      | None => Fail
      end
    | OP_any =>
      match pvalue (parse_fuel inp) (o_validate o) inp with
      | Some (j, r) => match sonic_any Jit o j with Ok x => Next (adv (wr s x) r) | Err => Fail | Unk => Unknown end
      | None => Fail
      end
    | OP_deref =>
      match cur s with
      | VPtr _ => Next (mv s (s_vp s ++ [PDeref]) (i_t i))
      | _ => Next (mv (wr s (VPtr (zero (i_t i)))) (s_vp s ++ [PDeref]) (i_t i))
      end
    | OP_index =>
      match s_vt s with
      | TStruct fs => Next (mv s (s_vp s ++ [PElem (i_vi i)]) (nth_field_ty fs (i_vi i)))
      | TArr _ e => Next (mv s (s_vp s ++ [PElem (i_vi i)]) e)
      | _ => Fail
      end
    | OP_save =>
      let s' := mkSt inp (s_root s) (s_vp s) (s_vt s) ((s_vp s, s_vt s) :: s_stk s) (s_sr s) (s_mis s) in
      match s_vt s with
      | TArr _ e => Next (mv s' (s_vp s ++ [PElem 0]) e)        (* the array and its first element share the address *)
      | _ => Next s'
      end
    | OP_load => match s_stk s with (p, t) :: _ => Next (mv s p t) | [] => Fail end
    | OP_drop =>
      match s_stk s with
      | (p, t) :: r => Next (mkSt inp (s_root s) p t r (s_sr s) (s_mis s))
      | [] => Fail
      end
    | OP_drop_2 =>
      match s_stk s with
      | _ :: (p, t) :: r => Next (mkSt inp (s_root s) p t r (s_sr s) (s_mis s))
      | _ => Fail
      end
    | OP_map_init =>
      match cur s with VMap _ => Next s | _ => Next (wr s (VMap [])) end
    | OP_map_key_str | OP_map_key_utext_p | OP_map_key_utext =>
      match s_vt s, str_at s with
      | TMap k e, Some (u, r) =>
        if (match k with KText => bytes_eqb u lit_ERR | _ => false end) then Fail else
        match cur s with
        | VMap m =>
          let kv := VStr u in
          let m' := match map_get m kv with Some _ => m | None => map_set m kv (zero e) end in
          Next (mv (adv (wr s (VMap m')) r) (s_vp s ++ [PMapVal kv]) e)
        | _ => Fail
        end
      | _, _ => Fail
      end
    | OP_map_key_i8 => match s_vt s with TMap _ e => int_key I8 e s | _ => Fail end
    | OP_map_key_i16 => match s_vt s with TMap _ e => int_key I16 e s | _ => Fail end
    | OP_map_key_i32 => match s_vt s with TMap _ e => int_key I32 e s | _ => Fail end
    | OP_map_key_i64 => match s_vt s with TMap _ e => int_key I64 e s | _ => Fail end
    | OP_map_key_u8 => match s_vt s with TMap _ e => int_key U8 e s | _ => Fail end
    | OP_map_key_u16 => match s_vt s with TMap _ e => int_key U16 e s | _ => Fail end
    | OP_map_key_u32 => match s_vt s with TMap _ e => int_key U32 e s | _ => Fail end
    | OP_map_key_u64 => match s_vt s with TMap _ e => int_key U64 e s | _ => Fail end
    | OP_slice_init =>
      (* len = 0, the old array is kept (makeslice when there is none) *)
      match cur s with
      | VList vis hid => Next (wr s (VList [] (vis ++ hid)))
      | _ => Next (wr s (VList [] []))
      end
    | OP_slice_append =>
      (* one more element: the next hidden one when the capacity allows, else a zeroed one after growslice *)
      match cur s with
      | VList vis hid =>
        let '(x, hid') := match hid with y :: r => (y, r) | [] => (zero (i_t i), []) end in
        Next (mv (wr s (VList (vis ++ [x]) hid')) (s_vp s ++ [PElem (length vis)]) (i_t i))
      | _ => Fail
      end
    | OP_array_skip =>
      (* since fix b376c30: lspace, a `]` here (right after the comma that follows the last decoded element) is an
         invalid character; then native skip_array reads the rest of the array *)
      match skip_ws inp with
      | [] => Fail
      | (c :: _) as inp' =>
        if c =? 93 then Fail else
        if o_validate o && negb (match pvalue (parse_fuel inp') true (91 :: inp') with Some (j, _) => strict_jv j | None => true end)
        then Unknown else
        match pvalue (parse_fuel inp') (o_validate o) (91 :: inp') with
        | Some (_, r) => Next (adv s r)
        | None => Fail
        end
      end
    | OP_array_clear | OP_array_clear_p =>
      (* mem_clear_rem: from VP (an element of the array saved on the stack) to the end of the array *)
      match s_stk s, rev (s_vp s) with
      | (ap, TArr n e) :: _, PElem k :: _ =>
        match getp (s_root s) ap with
        | VList vis hid => Next (mkSt inp (setp (s_root s) ap (VList (pad_to n (zero e) (firstn k vis)) hid)) (s_vp s) (s_vt s) (s_stk s) (s_sr s) (s_mis s))
        | _ => Fail
        end
      | _, _ => Fail
      end
    | OP_object_next | OP_skip_emtpy =>
      match pvalue (parse_fuel inp) (o_validate o) inp with
      | Some (j, r) =>
        if o_validate o && negb (strict_jv j) then Unknown else   (* escape checks of skipped text depend on the position *)
        match i_op i, o_disallow_unknown o, j with
        | OP_skip_emtpy, true, JObj _ (_ :: _) => Fail
        | OP_skip_emtpy, _, _ => Jump (i_vi i) (adv s r)
        | _, _, _ => Next (adv s r)
        end
      | None => Fail
      end
    | OP_struct_field =>
      match str_at s with
      | Some (u, r) =>
        match sonic_lookup h (map fst (i_fm i)) u with
        | Some k => Next (mkSt r (s_root s) (s_vp s) (s_vt s) (s_stk s) (Some k) (s_mis s))
        | None => if o_disallow_unknown o then Fail else Next (mkSt r (s_root s) (s_vp s) (s_vt s) (s_stk s) None (s_mis s))
        end
      | None => Fail
      end
    | OP_switch =>
      match s_sr s with
      | Some k => match nth_error (i_vs i) k with Some pc' => Jump pc' s | None => Next s end
      | None => Next s
      end
    | OP_unmarshal_p | OP_unmarshal =>
      (* skip_one, then the raw text goes to UnmarshalJSON; OP_unmarshal allocates the pointer first *)
      match pvalue (parse_fuel inp) (o_validate o) inp with
      | Some (j, r) =>
        if o_validate o && negb (strict_jv j) then Unknown else
        let leaf := match i_t i with TPtr e => e | t => t end in
        let raw := raw_of j in
        if (match leaf with TUnm => bytes_eqb raw lit_qERRq | _ => false end) then Fail else
        match i_t i with
        | TPtr _ => Next (adv (wr s (VPtr (VStr raw))) r)
        | _ => Next (adv (wr s (VStr raw)) r)
        end
      | None => Fail
      end
    | OP_unmarshal_text_p | OP_unmarshal_text =>
      match str_at s with
      | Some (u, r) =>
        if bytes_eqb u lit_ERR then Fail else
        match i_t i with
        | TPtr _ => Next (adv (wr s (VPtr (VStr u))) r)
        | _ => Next (adv (wr s (VStr u)) r)
        end
      | None => Fail
      end
    | OP_recurse =>
      match run (i_t i) s with Ok s' => Next s' | Err => Fail | Unk => Unknown end
    | OP_dyn | OP_map_key_f32 | OP_map_key_f64 | OP_unsupported => Unknown
    end.

  (* run a program with fuel; `code` is the program from the current pc on (a jump re-slices the program);
     `run` decodes a nested type with its own program (decodeTypedPointer) *)
  Fixpoint exec (fuel : nat) (p : prog) (code : prog) (s : st) {struct fuel} : res st :=
    match fuel with
    | O => Unk
    | S f =>
      match code with
      | [] => Ok s                                          (* the epilogue: pc = len(p) *)
      | i :: rest =>
        let run := fun (t : ty) (s0 : st) =>
          let q := compile t in
          match exec f q q (mkSt (s_in s0) (s_root s0) (s_vp s0) t (s_stk s0) None false) with
          | Ok s1 => Ok (mkSt (s_in s1) (s_root s1) (s_vp s0) (s_vt s0) (s_stk s0) (s_sr s0) (s_mis s0 || s_mis s1))
          | Err => Err
          | Unk => Unk
          end in
        match exec1 run i s with
        | Next s' => exec f p rest s'
        | Jump pc' s' => exec f p (skipn pc' p) s'
        | Fail => Err
        | Unknown => Unk
        end
      end
    end.

  Definition exec_fuel (p : prog) (s : bytes) : nat := 64 * (length s + 4) + 8 * length p.

  (* jitdec.Decode + CheckTrailings, on the program of the type *)
  Definition il_unmarshal (t : ty) (s : bytes) (v : val) : res val :=
    let s' := if o_validate o then (if utf8_valid s then s else utf8_correct s) else s in
    let p := compile t in
    match exec (exec_fuel p s') p p (mkSt s' v [] t [] None false) with
    | Ok s1 => if s_mis s1 then Err else if all_ws (s_in s1) then Ok (s_root s1) else Err
    | Err => Err
    | Unk => Unk
    end.
End Exec.
