(* Dec/Ty.v - destination-type universe of the decoder models (C01, C11).
   A struct is its *resolved* field list (JSON name, `,string` flag, type) in resolver order; named scalar
   types are their underlying kind; json.RawMessage / json.Unmarshaler / encoding.TextUnmarshaler leaves are
   abstract (they record the text they are given). *)
From Coq Require Import NArith ZArith List Bool.
Import ListNotations.
Open Scope N_scope.

Definition bytes := list N.

Inductive ikind := I8 | I16 | I32 | I64 | U8 | U16 | U32 | U64.

Inductive kty := KStr | KInt (k : ikind) | KText.

Inductive ty :=
| TBool
| TInt (k : ikind)
| TF32
| TF64
| TStr
| TNum                       (* json.Number *)
| TBytes                     (* []byte *)
| TSlice (e : ty)
| TArr (n : nat) (e : ty)
| TMap (k : kty) (e : ty)
| TPtr (e : ty)
| TStruct (fs : fields)
| TAny                       (* interface{} *)
| TRaw                       (* json.RawMessage *)
| TUnm                       (* json.Unmarshaler with pointer receiver: records the raw text; refuses "ERR" *)
| TText                      (* encoding.TextUnmarshaler with pointer receiver: records the text; refuses ERR *)
with fields :=
| FNil
| FCons (name : bytes) (quoted : bool) (t : ty) (rest : fields).

Scheme ty_mut := Induction for ty Sort Prop
  with fields_mut := Induction for fields Sort Prop.

Fixpoint flen (fs : fields) : nat :=
  match fs with FNil => O | FCons _ _ _ r => S (flen r) end.

Fixpoint fnames (fs : fields) : list bytes :=
  match fs with FNil => [] | FCons n _ _ r => n :: fnames r end.

Definition is_signed (k : ikind) : bool :=
  match k with I8 | I16 | I32 | I64 => true | _ => false end.

Definition ibits (k : ikind) : Z :=
  match k with I8 | U8 => 8 | I16 | U16 => 16 | I32 | U32 => 32 | I64 | U64 => 64 end%Z.

Definition imin (k : ikind) : Z := if is_signed k then (- 2 ^ (ibits k - 1))%Z else 0%Z.
Definition imax (k : ikind) : Z := if is_signed k then (2 ^ (ibits k - 1) - 1)%Z else (2 ^ ibits k - 1)%Z.
Definition in_range (k : ikind) (z : Z) : bool := (imin k <=? z)%Z && (z <=? imax k)%Z.

(* one level of pointer is looked through when deciding whether `,string` applies (resolver: quoted flag) *)
Definition quotable (t : ty) : bool :=
  match t with
  | TBool | TInt _ | TF32 | TF64 | TStr | TNum => true
  | TPtr (TBool | TInt _ | TF32 | TF64 | TStr | TNum) => true
  | _ => false
  end.

(* types implementing an unmarshaler through their pointer *)
Definition has_method (t : ty) : bool :=
  match t with TRaw | TUnm | TText => true | _ => false end.

(* options of the two stock configurations and the number options *)
Record opts := mkOpts {
  o_validate : bool;        (* ValidateString (ConfigStd) *)
  o_use_number : bool;
  o_use_int64 : bool;
  o_disallow_unknown : bool
}.

Definition opts_std := mkOpts true false false false.
Definition opts_default := mkOpts false false false false.
