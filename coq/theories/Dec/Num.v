(* Dec/Num.v - number texts.  Integers: strict JSON integer syntax to Z.  Floats: exact decimal -> binary
   rounding (round to nearest, ties to even) with big integers, for binary64 and binary32, plus the
   two-step rounding (decimal -> binary64 -> binary32) that the jitdec assembler performs (CVTSD2SS). *)
From Coq Require Import NArith ZArith List Bool Lia.
From SV.Dec Require Import Ty Parse.
Import ListNotations.
Open Scope Z_scope.

Fixpoint digits_val (s : bytes) (acc : N) : option N :=
  match s with
  | [] => Some acc
  | c :: r => if is_digit c then digits_val r (acc * 10 + (c - 48))%N else None
  end.

(* optional minus, then 0 or a non-zero digit followed by digits *)
Definition int_of_text (s : bytes) : option Z :=
  let '(neg, d) := match s with c :: r => if (c =? 45)%N then (true, r) else (false, s) | [] => (false, s) end in
  match d with
  | [] => None
  | c :: r =>
    if (c =? 48)%N && negb (match r with [] => true | _ => false end) then None
    else match digits_val d 0 with
         | Some n => Some (if neg then - Z.of_N n else Z.of_N n)
         | None => None
         end
  end.

Definition is_number_text (s : bytes) : bool :=
  match scan_num s with Some (_, []) => true | _ => false end.

(* decimal decomposition of a JSON number text: sign, all mantissa digits as one integer, decimal exponent *)
Record dec := mkDec { d_neg : bool; d_man : N; d_exp : Z; d_ndig : nat }.

Fixpoint split_digits (s : bytes) (man : N) (n : nat) : N * nat * bytes :=
  match s with
  | c :: r => if is_digit c then split_digits r (man * 10 + (c - 48))%N (S n) else (man, n, s)
  | [] => (man, n, [])
  end.

Definition dec_of_text (s : bytes) : option dec :=
  let '(neg, s1) := match s with c :: r => if (c =? 45)%N then (true, r) else (false, s) | [] => (false, s) end in
  let '(m1, n1, s2) := split_digits s1 0%N 0%nat in
  let '(m2, n2, s3) :=
    match s2 with
    | c :: r => if (c =? 46)%N then split_digits r m1 0%nat else (m1, 0%nat, s2)
    | [] => (m1, 0%nat, s2)
    end in
  let e :=
    match s3 with
    | c :: r =>
      if ((c =? 101) || (c =? 69))%N then
        match r with
        | g :: r' =>
          if (g =? 45)%N then option_map (fun n => - Z.of_N n) (digits_val r' 0%N)
          else if (g =? 43)%N then option_map Z.of_N (digits_val r' 0%N)
          else option_map Z.of_N (digits_val r 0%N)
        | [] => None
        end
      else None
    | [] => Some 0
    end in
  match e with
  | Some e => Some (mkDec neg m2 (e - Z.of_nat n2) (n1 + n2))
  | None => None
  end.

(* ---- exact rounding of a positive rational num/den to p significant bits, exponents in [emin, emax] ----
   result: None = overflow (infinity), Some (q, k): value q * 2^k with q < 2^p, k >= emin (subnormal when
   q < 2^(p-1), only possible at k = emin) *)
Definition round_half_even (q r den : Z) : Z :=
  if 2 * r <? den then q
  else if den <? 2 * r then q + 1
  else if Z.even q then q else q + 1.

Definition scaled_div (num den k : Z) : Z * Z * Z :=
  (* floor(num / (den * 2^k)), remainder, divisor *)
  let '(n, d) := if 0 <=? k then (num, den * 2 ^ k) else (num * 2 ^ (- k), den) in
  (n / d, n mod d, d).

Definition round_rat (p emin emax : Z) (num den : Z) : option (Z * Z) :=
  (* first guess of the exponent so that the quotient has about p bits *)
  let k0 := Z.log2 num - Z.log2 den - p in
  let fix_k (k : Z) : Z :=
    let '(q, _, _) := scaled_div num den k in
    if q <? 2 ^ (p - 1) then k - 1 else if 2 ^ p <=? q then k + 1 else k in
  let k := fix_k (fix_k k0) in
  let k := if k <? emin then emin else k in
  let '(q, r, d) := scaled_div num den k in
  let q' := round_half_even q r d in
  let '(q', k) := if 2 ^ p <=? q' then (q' / 2, k + 1) else (q', k) in
  if emax <? k + p - 1 then None else Some (q', k).

(* IEEE encodings: binary64 p=53 emin=-1074 emax=1023 ; binary32 p=24 emin=-149 emax=127 *)
Definition encode (p ebits : Z) (neg : bool) (q k : Z) : N :=
  let bias := 2 ^ (ebits - 1) - 1 in
  let sign := if neg then 2 ^ (p - 1 + ebits) else 0 in
  let body := if q <? 2 ^ (p - 1) then q                             (* subnormal or zero: exponent field 0 *)
              else (k + p - 1 + bias) * 2 ^ (p - 1) + (q - 2 ^ (p - 1)) in
  Z.to_N (sign + body).

Definition rat_of_dec (d : dec) : Z * Z :=
  if 0 <=? d_exp d then (Z.of_N (d_man d) * 10 ^ d_exp d, 1) else (Z.of_N (d_man d), 10 ^ (- d_exp d)).

(* magnitude guards keep the big powers bounded: value < 10^(ndig + exp) and >= 10^(ndig + exp - 1) *)
Inductive fres := FInf | FBits (b : N).

Definition f64_of_dec (d : dec) : fres :=
  if (d_man d =? 0)%N then FBits (encode 53 11 (d_neg d) 0 0)
  else
    let mag := Z.of_nat (d_ndig d) + d_exp d in
    if 400 <? mag then FInf
    else if mag <? -400 then FBits (encode 53 11 (d_neg d) 0 0)
    else let '(n, dd) := rat_of_dec d in
         match round_rat 53 (-1074) 1023 n dd with
         | None => FInf
         | Some (q, k) => FBits (encode 53 11 (d_neg d) q k)
         end.

Definition f32_of_dec (d : dec) : fres :=
  if (d_man d =? 0)%N then FBits (encode 24 8 (d_neg d) 0 0)
  else
    let mag := Z.of_nat (d_ndig d) + d_exp d in
    if 400 <? mag then FInf
    else if mag <? -400 then FBits (encode 24 8 (d_neg d) 0 0)
    else let '(n, dd) := rat_of_dec d in
         match round_rat 24 (-149) 127 n dd with
         | None => FInf
         | Some (q, k) => FBits (encode 24 8 (d_neg d) q k)
         end.

(* decimal -> binary64 -> binary32 (what CVTSD2SS of the parsed double gives) *)
Definition f32_via_f64_of_dec (d : dec) : fres :=
  if (d_man d =? 0)%N then FBits (encode 24 8 (d_neg d) 0 0)
  else
    let mag := Z.of_nat (d_ndig d) + d_exp d in
    if 400 <? mag then FInf
    else if mag <? -400 then FBits (encode 24 8 (d_neg d) 0 0)
    else let '(n, dd) := rat_of_dec d in
         match round_rat 53 (-1074) 1023 n dd with
         | None => FInf
         | Some (q, k) =>
           if q =? 0 then FBits (encode 24 8 (d_neg d) 0 0) else
           let '(n2, d2) := if 0 <=? k then (q * 2 ^ k, 1) else (q, 2 ^ (- k)) in
           match round_rat 24 (-149) 127 n2 d2 with
           | None => FInf
           | Some (q2, k2) => FBits (encode 24 8 (d_neg d) q2 k2)
           end
         end.

Definition f64_of_text (s : bytes) : option fres := option_map f64_of_dec (dec_of_text s).
Definition f32_of_text (s : bytes) : option fres := option_map f32_of_dec (dec_of_text s).
Definition f32_via_f64_of_text (s : bytes) : option fres := option_map f32_via_f64_of_dec (dec_of_text s).

(* spot checks against known bit patterns *)
Example f64_one : f64_of_text [49%N] = Some (FBits 4607182418800017408%N). Proof. vm_compute. reflexivity. Qed.
Example f64_tenth : f64_of_text [48%N; 46%N; 49%N] = Some (FBits 4591870180066957722%N). Proof. vm_compute. reflexivity. Qed.
Example f64_min_sub : f64_of_text [52%N; 46%N; 57%N; 101%N; 45%N; 51%N; 50%N; 52%N] = Some (FBits 1%N). Proof. vm_compute. reflexivity. Qed.
Example f64_1e309 : f64_of_text [49%N; 101%N; 51%N; 48%N; 57%N] = Some FInf. Proof. vm_compute. reflexivity. Qed.
Example f32_one_and_half : f32_of_text [49%N; 46%N; 53%N] = Some (FBits 1069547520%N). Proof. vm_compute. reflexivity. Qed.
