(* Dec/Witness2.v - non-vacuity of the agreement theorem on the larger fragment: a struct with a string-keyed map,
   an int8-keyed map, a `,string` integer and a `,string` pointer to bool. *)
From Coq Require Import NArith ZArith List Bool String Ascii Lia.
From SV.Dec Require Import Ty Val Parse Text Num Common FieldMap Range StdBind SonicBind DecProofs DecProofs2 Witness.
Import ListNotations.
Open Scope N_scope.
Open Scope string_scope.

Definition ex2_ty : ty :=
  TStruct (fld "m" (TMap KStr (TInt I64))
          (qfld "q" (TInt I64)
          (qfld "p" (TPtr TBool)
          (fld "k" (TMap (KInt I8) TStr)
          (qfld "f" TF64 FNil))))).
Definition ex2_in : bytes :=
  b "{""m"":{""a"":1,""b"":null},""Q"":""-12"",""p"":""true"",""k"":{""-1"":""x"",""7"":""y""},""f"":""2.5"",""zz"":[1]}".
Definition ex2_v0 : val := zero ex2_ty.
Definition ex2_out : val :=
  VList [VMap [(VStr (b "a"), VInt 1); (VStr (b "b"), VInt 0)]; VInt (-12); VPtr (VBool true);
         VMap [(VInt (-1), VStr (b "x")); (VInt 7, VStr (b "y"))]; VFlt 4612811918334230528] [].

Example agreement2_example_values :
  sonic_unmarshal h1 Jit opts_std ex2_ty ex2_in ex2_v0 = Ok ex2_out /\ std_unmarshal opts_std ex2_ty ex2_in ex2_v0 = Ok ex2_out /\
  sonic_unmarshal h1 Jit opts_default ex2_ty ex2_in ex2_v0 = Ok ex2_out.
Proof. repeat split; vm_compute; reflexivity. Qed.

Ltac sfix_tac :=
  unfold sfix; repeat split; try (vm_compute; reflexivity);
  try (let HH := fresh in intro HH; vm_compute in HH; discriminate); try (intros _; vm_compute; reflexivity).

Example agreement2_example_hypotheses : forall o, (o = opts_std \/ o = opts_default) ->
  frag2 ex2_ty = true /\ input_ok o ex2_in /\ nomap ex2_v0 = true /\ (forall j, parse ex2_in = Some j -> guards2 o j) /\ parse ex2_in <> None.
Proof.
  intros o Ho. split; [vm_compute; reflexivity|]. split; [|split; [vm_compute; reflexivity|split]].
  - destruct Ho; subst o; unfold input_ok; simpl; vm_compute; reflexivity.
  - intros j Hj. assert (Hp : Some j = parse ex2_in) by (symmetry; exact Hj). vm_compute in Hp. inversion Hp; subst j. clear Hp Hj.
    constructor.
    + simpl. destruct Ho; subst o; repeat (constructor; [sfix_tac|]); constructor.
    + simpl. repeat (constructor; [reflexivity|]). constructor.
    + simpl. repeat split; repeat (constructor; [simpl; intuition discriminate|]); try constructor.
  - vm_compute. discriminate.
Qed.
