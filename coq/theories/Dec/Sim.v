(* Dec/Sim.v - simulation between the compiled programs and the tree-level binder, composite types included.
   For every type of the fragment `ilf` (scalars, string, json.Number, interface{}, pointers, slices, nested
   arbitrarily) the block  lspace; code t  placed anywhere in a program decodes one value exactly as
   `sonic_bind Jit t` does on the value the reference reader finds at the same position, leaves the rest of the
   input and the stack as they were, and continues behind the block; on input the reader rejects it ends in an error.
   Fuel of the interpreter: statements are about runs that do not run out of fuel (result <> Unk). *)
From Coq Require Import NArith ZArith List Bool Lia Arith.
From SV.Dec Require Import Ty Val Parse Text Num Common FieldMap Range StdBind SonicBind Compile Exec ParseFuel Code Path SimBase DecProofs.
Import ListNotations.
Open Scope N_scope.

Arguments scan_num : simpl never.
Arguments skip_ws : simpl never.
Arguments scan_str : simpl never.
Arguments lit : simpl never.
Arguments sonic_int : simpl never.
Arguments sonic_f64 : simpl never.
Arguments sonic_f32 : simpl never.

Lemma skipn_at : forall (P A B : prog) n, P = A ++ B -> length A = n -> skipn n P = B.
Proof. intros P A B n E L. subst. apply skipn_app_exact || (rewrite skipn_app, Nat.sub_diag, skipn_all; reflexivity). Qed.

Ltac lnorm := repeat (rewrite <- ?app_assoc; cbn [app]).

Section Sim.
  Variable h : bytes -> N.
  Variable o : opts.
  Notation ctl := (o_validate o).
  Notation ex := (exec h o).
  Notation bind := (sonic_bind h Jit o).

  Definition exits (P post : prog) (fuel0 : nat) (s : st) (x : val) (rest : bytes) (r : res st) : Prop :=
    exists fuel' s', (fuel' <= fuel0)%nat /\ ex fuel' P post s' = r /\
      s_in s' = rest /\ s_root s' = setp (s_root s) (s_vp s) x /\ s_stk s' = s_stk s /\ s_mis s' = s_mis s.

  Definition spec (t : ty) (P post : prog) (fuel0 : nat) (s : st) (r : res st) : Prop :=
    (forall j rest, PV o (s_in s) (j, rest) ->
       match bind t j (cur s) with
       | Unk => True
       | Err => r = Err
       | Ok x => exits P post fuel0 s x rest r
       end) /\
    (NPV o (s_in s) -> r = Err).

  Definition one (t : ty) (b : nat) : prog := I OP_lspace 0 0 TBool :: code t (S b).

  (* arrays (and structs) are decoded in place through `index`: the interpreter reads the element that is there, the
     binder substitutes the zero value for a missing one; they coincide on well-shaped destinations *)
  Fixpoint shape (t : ty) (v : val) : Prop :=
    match t with
    | TArr n e => match v with VList vis hid => length vis = n /\ hid = [] /\ Forall (shape e) vis | _ => False end
    | TSlice e => match v with VList vis hid => Forall (shape e) (vis ++ hid) | _ => True end
    | TPtr e => match v with VPtr x => shape e x | _ => True end
    | _ => True
    end.

  Lemma shape_zero : forall t, shape t (zero t).
  Proof.
    induction t; simpl; auto.
    split; [apply repeat_length|]. split; [reflexivity|]. apply Forall_forall. intros x Hx. apply repeat_spec in Hx. subst x. exact IHt.
  Qed.

  Definition Sim (t : ty) : Prop :=
    forall P pre post, P = pre ++ one t (length pre) ++ post ->
    forall fuel s r, s_vt s = t -> valid (s_root s) (s_vp s) -> shape t (cur s) ->
      ex fuel P (one t (length pre) ++ post) s = r -> r <> Unk -> spec t P post fuel s r.

  (* ---- the common head: lspace; is_null ---- *)
  Lemma head : forall fuel P T body s r,
    ex fuel P (I OP_lspace 0 0 TBool :: I OP_is_null T 0 TBool :: body) s = r -> r <> Unk ->
    (skip_ws (s_in s) = [] /\ r = Err) \/
    (exists c r0 fuel', skip_ws (s_in s) = c :: r0 /\ (fuel' <= fuel)%nat /\
       ((starts lit_null (c :: r0) = true /\ ex fuel' P (skipn T P) (adv s (skipn 4 (c :: r0))) = r) \/
        (starts lit_null (c :: r0) = false /\ ex fuel' P body (adv s (c :: r0)) = r))).
  Proof.
    intros fuel P T body s r H NU.
    destruct fuel as [|fuel]; [simpl in H; congruence|].
    destruct (skip_ws (s_in s)) as [|c r0] eqn:W.
    - left. rewrite x_lspace_nil in H by exact W. auto.
    - right. erewrite x_lspace in H by exact W.
      destruct fuel as [|fuel]; [simpl in H; congruence|].
      rewrite x_is_null in H. cbn [adv s_in] in H.
      exists c, r0, fuel. split; [reflexivity|]. split; [lia|].
      destruct (starts lit_null (c :: r0)); [left|right]; split; auto.
  Qed.

  (* ---- ways to establish spec ---- *)
  Lemma spec_of_pv : forall t P post fuel s r j0 rest0,
    PV o (s_in s) (j0, rest0) ->
    match bind t j0 (cur s) with Unk => True | Err => r = Err | Ok x => exits P post fuel s x rest0 r end ->
    spec t P post fuel s r.
  Proof.
    intros t P post fuel s r j0 rest0 PVx B. split.
    - intros j rest PVj. pose proof (PV_det o _ _ _ PVj PVx) as E. inversion E; subst. exact B.
    - intros N. exfalso. eapply PV_NPV; eauto.
  Qed.

  Lemma spec_err : forall t P post fuel s,
    (forall j rest x, PV o (s_in s) (j, rest) -> bind t j (cur s) = Ok x -> False) ->
    spec t P post fuel s Err.
  Proof.
    intros t P post fuel s Hn. split; [|reflexivity].
    intros j rest PVj. destruct (bind t j (cur s)) as [x| |] eqn:B; auto. exfalso. eapply Hn; eauto.
  Qed.

  Lemma spec_ws_nil : forall t P post fuel s, skip_ws (s_in s) = [] -> spec t P post fuel s Err.
  Proof.
    intros t P post fuel s W. apply spec_err. intros j rest x PVj _. eapply PV_NPV; [exact PVj|]. apply NPV_ws. exact W.
  Qed.

  (* null where the program leaves the destination alone *)
  Lemma spec_null_same : forall t P post fuel s r c r0 fuel',
    (forall v, bind t JNull v = Ok v) -> valid (s_root s) (s_vp s) ->
    skip_ws (s_in s) = c :: r0 -> starts lit_null (c :: r0) = true -> (fuel' <= fuel)%nat ->
    ex fuel' P post (adv s (skipn 4 (c :: r0))) = r ->
    spec t P post fuel s r.
  Proof.
    intros t P post fuel s r c r0 fuel' BN V W SN LE H.
    eapply spec_of_pv; [eapply F_null; eauto|]. rewrite BN.
    exists fuel', (adv s (skipn 4 (c :: r0))). repeat split; auto.
    cbn [adv s_root]. unfold cur. rewrite setp_getp by exact V. reflexivity.
  Qed.

  (* null where the program stores nil *)
  Lemma spec_null_nil : forall t P post fuel s r c r0 fuel' k,
    (forall v, bind t JNull v = Ok VNil) -> (k = OP_nil_1 \/ k = OP_nil_2 \/ k = OP_nil_3) ->
    skip_ws (s_in s) = c :: r0 -> starts lit_null (c :: r0) = true -> (fuel' <= fuel)%nat ->
    ex fuel' P (I k 0 0 TBool :: post) (adv s (skipn 4 (c :: r0))) = r -> r <> Unk ->
    spec t P post fuel s r.
  Proof.
    intros t P post fuel s r c r0 fuel' k BN K W SN LE H NU.
    eapply spec_of_pv; [eapply F_null; eauto|]. rewrite BN.
    destruct fuel' as [|fuel']; [simpl in H; congruence|].
    assert (E : ex (S fuel') P (I k 0 0 TBool :: post) (adv s (skipn 4 (c :: r0))) =
                ex fuel' P post (wr (adv s (skipn 4 (c :: r0))) VNil)).
    { destruct K as [K|[K|K]]; subst k; reflexivity. }
    rewrite E in H.
    exists fuel', (wr (adv s (skipn 4 (c :: r0))) VNil). repeat split; auto. lia.
  Qed.

  Definition is_prim (t : ty) : Prop := match t with TBool | TInt _ | TF32 | TF64 | TNum => True | _ => False end.

  Lemma bind_null_prim : forall t v, is_prim t -> bind t JNull v = Ok v.
  Proof. intros t v T. destruct t; try contradiction; reflexivity. Qed.

  Lemma exit3 : forall (pre post : prog) a b c0, skipn (S (length pre) + 2) (pre ++ (a :: b :: c0 :: post)) = post.
  Proof.
    intros. apply (skipn_at _ (pre ++ [a; b; c0]) post).
    - rewrite <- app_assoc. reflexivity.
    - rewrite app_length. simpl. lia.
  Qed.

  Lemma Sim_bool : Sim TBool.
  Proof.
    intros P pre post EP fuel s r VT V SH H NU. unfold one in *. cbn [code app] in *.
    destruct (head _ _ _ _ _ _ H NU) as [[W E]|(c & r0 & fuel' & W & LE & [[SN Hx]|[SN Hx]])]; clear H.
    - subst r. apply spec_ws_nil. exact W.
    - assert (J : skipn (S (length pre) + 2) P = post) by (rewrite EP; apply exit3). rewrite J in Hx.
      eapply spec_null_same; eauto.
    - destruct fuel' as [|fuel']; [simpl in Hx; congruence|]. rewrite x_bool in Hx. cbn [adv s_in] in Hx.
      destruct (starts lit_true (c :: r0)) eqn:ST.
      { eapply spec_of_pv; [eapply F_true; eauto|]. cbn [sonic_bind].
        eexists fuel', _. split; [lia|]. split; [exact Hx|]. repeat split. }
      destruct (starts lit_false (c :: r0)) eqn:SF.
      { eapply spec_of_pv; [eapply F_false; eauto|]. cbn [sonic_bind].
        eexists fuel', _. split; [lia|]. split; [exact Hx|]. repeat split. }
      subst r. apply spec_err. intros j rest x PVj B.
      destruct j; cbn [sonic_bind] in B; try discriminate B.
      + destruct (I_null o _ _ _ W _ PVj) as [S' _]. congruence.
      + destruct (I_true o _ _ _ W _ PVj) as [S' _]. congruence.
      + destruct (I_false o _ _ _ W _ PVj) as [S' _]. congruence.
  Qed.

  Definition is_numt (t : ty) : Prop := match t with TInt _ | TF32 | TF64 => True | _ => False end.

  Lemma bind_numt : forall t tx v, is_numt t -> bind t (JNum tx) v = numf t tx.
  Proof. intros t tx v T. destruct t; try contradiction; reflexivity. Qed.

  Lemma bind_numt_other : forall t j v x, is_numt t -> bind t j v = Ok x ->
    j = JNull \/ exists tx, j = JNum tx.
  Proof.
    intros t j v x T B. destruct j; auto; try (right; eexists; reflexivity);
      destruct t; try contradiction; cbn [sonic_bind] in B; try discriminate B; unfold sonic_int in B; discriminate B.
  Qed.

  Lemma code_numt : forall t b, is_numt t -> code t b = [I OP_is_null (b + 2) 0 TBool; I (prim_opc t) 0 0 TBool].
  Proof. intros t b T. destruct t; try contradiction; reflexivity. Qed.

  Lemma Sim_numt : forall t, is_numt t -> Sim t.
  Proof.
    intros t T P pre post EP fuel s r VT V SH H NU. unfold one in *. rewrite (code_numt t _ T) in *. cbn [app] in *.
    destruct (head _ _ _ _ _ _ H NU) as [[W E]|(c & r0 & fuel' & W & LE & [[SN Hx]|[SN Hx]])]; clear H.
    - subst r. apply spec_ws_nil. exact W.
    - assert (J : skipn (S (length pre) + 2) P = post) by (rewrite EP; apply exit3). rewrite J in Hx.
      eapply spec_null_same; eauto. intros v. apply bind_null_prim. destruct t; try contradiction; exact Logic.I.
    - destruct fuel' as [|fuel']; [simpl in Hx; congruence|]. rewrite (x_num_op h o _ _ t) in Hx by exact T.
      cbn [adv s_in] in Hx.
      destruct (scan_num (c :: r0)) as [[tx rq]|] eqn:SNum.
      + eapply spec_of_pv; [eapply F_num; eauto|]. rewrite bind_numt by exact T.
        destruct (numf t tx) as [x| |]; [|auto|congruence].
        eexists fuel', _. split; [lia|]. split; [exact Hx|]. repeat split.
      + subst r. apply spec_err. intros j rest x PVj B.
        destruct (bind_numt_other _ _ _ _ T B) as [E|[tx E]]; subst j.
        * destruct (I_null o _ _ _ W _ PVj) as [S' _]. congruence.
        * pose proof (I_num o _ _ _ W _ _ PVj) as S'. congruence.
  Qed.

  Lemma exitn : forall (pre blk post : prog) n, length blk = n -> skipn (length pre + n) (pre ++ blk ++ post) = post.
  Proof.
    intros. apply (skipn_at _ (pre ++ blk) post); [rewrite <- app_assoc; reflexivity|]. rewrite app_length. lia.
  Qed.

  Lemma Sim_str : Sim TStr.
  Proof.
    intros P pre post EP fuel s r VT V SH H NU. unfold one in *. cbn [code app] in *.
    destruct (head _ _ _ _ _ _ H NU) as [[W E]|(c & r0 & fuel' & W & LE & [[SN Hx]|[SN Hx]])]; clear H.
    - subst r. apply spec_ws_nil. exact W.
    - assert (J : skipn (S (length pre) + 6) P = post).
      { rewrite EP. replace (S (length pre) + 6)%nat with (length pre + 7)%nat by lia.
        match goal with |- skipn _ (pre ++ ?l) = _ => change (pre ++ l) with (pre ++ (firstn 7 l) ++ post) end.
        apply exitn. reflexivity. }
      rewrite J in Hx. eapply spec_null_same; eauto.
    - destruct fuel' as [|fuel']; [simpl in Hx; congruence|].
      erewrite x_check_char_0 in Hx by reflexivity.
      destruct (c =? 34) eqn:C34.
      + (* a string literal *)
        assert (J : skipn (S (length pre) + 4) P = I OP_add 1 0 TBool :: I OP_str 0 0 TBool :: post).
        { rewrite EP. apply (skipn_at _ (pre ++ firstn 5 (one TStr (length pre)))).
          - rewrite <- app_assoc. reflexivity.
          - rewrite app_length. simpl. lia. }
        rewrite J in Hx. clear J.
        destruct fuel' as [|fuel']; [simpl in Hx; congruence|]. rewrite x_add in Hx. cbn [adv s_in skipn] in Hx.
        destruct fuel' as [|fuel']; [simpl in Hx; congruence|]. rewrite x_str in Hx. cbn [adv s_in] in Hx.
        apply N.eqb_eq in C34.
        destruct (scan_str ctl r0 []) as [[body rq]|] eqn:SS.
        * eapply spec_of_pv; [eapply F_str; eauto|]. cbn [sonic_bind].
          destruct (sunq Jit o body) as [u|]; [|auto].
          eexists fuel', _. split; [lia|]. split; [exact Hx|]. repeat split.
        * subst r. apply spec_err. intros j rest x PVj B.
          destruct j; cbn [sonic_bind] in B; try discriminate B.
          -- destruct (I_null o _ _ _ W _ PVj) as [S' _]. congruence.
          -- destruct (I_str o _ _ _ W _ _ PVj) as [_ S']. congruence.
      + (* anything else: a recorded mismatch *)
        destruct fuel' as [|[|fuel']]; [simpl in Hx; congruence|simpl in Hx; congruence|]. rewrite x_dismatch_go_skip in Hx.
        subst r. apply spec_err. intros j rest x PVj B.
        destruct j; cbn [sonic_bind] in B; try discriminate B.
        * destruct (I_null o _ _ _ W _ PVj) as [S' _]. congruence.
        * destruct (I_str o _ _ _ W _ _ PVj) as [S' _]. subst c. discriminate C34.
  Qed.

  Lemma bind_any : forall j v, bind TAny j v = sonic_any Jit o j.
  Proof. intros j v. destruct j; reflexivity. Qed.

  Lemma Sim_any : Sim TAny.
  Proof.
    intros P pre post EP fuel s r VT V SH H NU. unfold one in *. cbn [code app] in *.
    assert (JE : skipn (S (length pre) + 4) P = post).
    { rewrite EP. replace (S (length pre) + 4)%nat with (length pre + 5)%nat by lia.
      match goal with |- skipn _ (pre ++ ?l) = _ => change (pre ++ l) with (pre ++ (firstn 5 l) ++ post) end.
      apply exitn. reflexivity. }
    destruct (head _ _ _ _ _ _ H NU) as [[W E]|(c & r0 & fuel' & W & LE & [[SN Hx]|[SN Hx]])]; clear H.
    - subst r. apply spec_ws_nil. exact W.
    - assert (J : skipn (S (length pre) + 3) P = I OP_nil_2 0 0 TBool :: post).
      { rewrite EP. apply (skipn_at _ (pre ++ firstn 4 (one TAny (length pre)))).
        - rewrite <- app_assoc. reflexivity.
        - rewrite app_length. simpl. lia. }
      rewrite J in Hx. eapply spec_null_nil with (k := OP_nil_2); [intros v; reflexivity | auto | exact W | exact SN | exact LE | exact Hx | exact NU].
    - destruct fuel' as [|fuel']; [simpl in Hx; congruence|]. rewrite x_any in Hx. cbn [adv s_in] in Hx.
      destruct (pvalue (parse_fuel (c :: r0)) ctl (c :: r0)) as [[j rq]|] eqn:PVc.
      + assert (PVx : PV o (s_in s) (j, rq)).
        { apply PV_skip. rewrite W. eexists. exact PVc. }
        eapply spec_of_pv; [exact PVx|]. rewrite bind_any.
        destruct (sonic_any Jit o j) as [x| |]; [|auto|congruence].
        destruct fuel' as [|fuel']; [simpl in Hx; congruence|]. rewrite x_goto, JE in Hx.
        eexists fuel', _. split; [lia|]. split; [exact Hx|]. repeat split.
      + subst r. apply spec_err. intros j rest x PVj _.
        apply PV_skip in PVj. rewrite W in PVj. destruct PVj as [f PVj].
        rewrite (pvalue_complete _ _ _ _ PVj) in PVc. discriminate PVc.
  Qed.

  (* ---- the fragment of the simulation theorem; the Jit binder never answers Unk on it ---- *)
  Fixpoint simf (t : ty) : bool :=
    match t with
    | TBool | TInt _ | TF32 | TF64 | TStr | TAny => true
    | TPtr e | TSlice e | TArr _ e => simf e
    | _ => false
    end.

  Fixpoint noarr (t : ty) : bool :=
    match t with
    | TArr _ _ => false
    | TPtr e | TSlice e => noarr e
    | _ => true
    end.

  (* without arrays every value is well shaped *)
  Lemma shape_noarr : forall t, noarr t = true -> forall v, shape t v.
  Proof.
    induction t; simpl; intros F v; try discriminate F; auto.
    - destruct v; auto. apply Forall_forall. intros x _. apply IHt. exact F.
    - destruct v; auto.
  Qed.

  Lemma simf_ilf : forall t, simf t = true -> ilf t = true.
  Proof. induction t; simpl; intros H; try discriminate; auto. Qed.

  Lemma rbind_no_unk : forall A B (r : res A) (f : A -> res B), r <> Unk -> (forall a, f a <> Unk) -> rbind r f <> Unk.
  Proof. intros A B r f Hr Hf. destruct r; simpl; [apply Hf|discriminate|contradiction]. Qed.

  Lemma any_no_unk : forall j, sonic_any Jit o j <> Unk.
  Proof.
    induction j as [| | |t|b|raw l IH|raw l IH] using jv_ind2; simpl sonic_any; try discriminate.
    - unfold sonic_number_any. destruct (o_use_number o); [discriminate|].
      assert (F : sonic_f64 t <> Unk).
      { unfold sonic_f64. destruct (minus_zero t); [discriminate|]. unfold fres_val. destruct (f64_of_text t) as [[|]|]; discriminate. }
      destruct (o_use_int64 o); [|exact F]. destruct (int_of_text t); [|exact F]. destruct (in_range I64 z); [discriminate|exact F].
    - destruct (sunq Jit o b); discriminate.
    - apply rbind_no_unk; [|discriminate].
      induction l as [|x r IHl]; [discriminate|]. inversion IH as [|? ? Hx Hr]; subst.
      apply rbind_no_unk; [exact Hx|]. intros a. apply rbind_no_unk; [apply IHl; exact Hr|discriminate].
    - apply rbind_no_unk; [|discriminate]. generalize (@nil (val * val)).
      induction l as [|[k x] r IHl]; intros acc; [discriminate|]. inversion IH as [|? ? Hx Hr]; subst. simpl in Hx.
      destruct (sunq Jit o k); [|discriminate]. apply rbind_no_unk; [exact Hx|]. intros a. apply IHl. exact Hr.
  Qed.

  Lemma bind_elems_no_unk : forall (f : jv -> val -> res val) z l old,
    (forall j v, f j v <> Unk) -> bind_elems f z l old <> Unk.
  Proof.
    intros f z l. induction l as [|j r IH]; intros old Hf; simpl; [discriminate|].
    apply rbind_no_unk; [apply Hf|]. intros a. apply rbind_no_unk; [apply IH; exact Hf|discriminate].
  Qed.

  Lemma bind_no_unk : forall t, simf t = true -> forall j v, bind t j v <> Unk.
  Proof.
    induction t; simpl simf; intros F j v; try discriminate F.
    - destruct j; discriminate.
    - cbn [sonic_bind]. unfold sonic_int. destruct j; try discriminate. destruct (int_of_text text); [|discriminate].
      destruct (negb (is_signed k) && _); [discriminate|]. destruct (accept_op k z); discriminate.
    - cbn [sonic_bind]. destruct j; try discriminate. unfold sonic_f32. destruct (minus_zero text); [discriminate|].
      unfold fres_val. destruct (f32_via_f64_of_text text) as [[|]|]; discriminate.
    - cbn [sonic_bind]. destruct j; try discriminate. unfold sonic_f64. destruct (minus_zero text); [discriminate|].
      unfold fres_val. destruct (f64_of_text text) as [[|]|]; discriminate.
    - cbn [sonic_bind]. destruct j; try discriminate. destruct (sunq Jit o body); discriminate.
    - (* slice *) cbn [sonic_bind]. destruct j; try discriminate. destruct l; [discriminate|]. cbn [is_opt].
      apply rbind_no_unk; [|discriminate]. apply bind_elems_no_unk. intros j' v'. apply IHt. exact F.
    - (* array *) cbn [sonic_bind]. destruct j; try discriminate.
      apply rbind_no_unk; [|discriminate]. apply bind_elems_no_unk. intros j' v'. apply IHt. exact F.
    - (* ptr *) cbn [sonic_bind]. destruct j; try discriminate; (apply rbind_no_unk; [apply IHt; exact F|discriminate]).
    - rewrite bind_any. apply any_no_unk.
  Qed.

  (* ---- moving a spec across states / continuations ---- *)
  Lemma spec_adv : forall t P post fuel s r c r0,
    skip_ws (s_in s) = c :: r0 -> spec t P post fuel (adv s (c :: r0)) r -> spec t P post fuel s r.
  Proof.
    intros t P post fuel s r c r0 W [A B]. split.
    - intros j rest PVj. apply PV_skip in PVj. rewrite W in PVj. exact (A j rest PVj).
    - intros N. apply B. cbn [adv s_in]. rewrite <- W. apply NPV_skip. exact N.
  Qed.

  Lemma spec_fuel : forall t P post fuel fuel0 s r, (fuel <= fuel0)%nat -> spec t P post fuel s r -> spec t P post fuel0 s r.
  Proof.
    intros t P post fuel fuel0 s r LE [A B]. split; [|exact B].
    intros j rest PVj. specialize (A j rest PVj). destruct (bind t j (cur s)); auto.
    destruct A as (f' & s' & L & rest'). exists f', s'. split; [lia|exact rest'].
  Qed.

  Lemma spec_goto : forall t P post T more fuel s r,
    skipn T P = post -> r <> Unk -> spec t P (I OP_goto T 0 TBool :: more) fuel s r -> spec t P post fuel s r.
  Proof.
    intros t P post T more fuel s r J NU [A B]. split; [|exact B].
    intros j rest PVj. specialize (A j rest PVj). destruct (bind t j (cur s)); auto.
    destruct A as (f' & s' & L & E & rest'). destruct f' as [|f']; [simpl in E; congruence|].
    rewrite x_goto, J in E. exists f', s'. split; [lia|]. split; [exact E|exact rest'].
  Qed.

  (* ---- pointers ---- *)
  Lemma dcode_split : forall e b, dcode e b = derefs e ++ one (leaf e) (b + length (derefs e)).
  Proof.
    induction e; intros b; try (cbn [dcode derefs leaf app length one]; rewrite Nat.add_0_r; reflexivity).
    cbn [dcode derefs leaf app length]. fold dcode. rewrite IHe.
    replace (b + S (length (derefs e)))%nat with (S b + length (derefs e))%nat by lia. reflexivity.
  Qed.

  Lemma bind_ptr_nonnull : forall e j v, j <> JNull ->
    bind (TPtr e) j v = (do x <- bind e j (match v with VPtr x => x | _ => zero e end); Ok (VPtr x)).
  Proof. intros e j v N. destruct j; try reflexivity. contradiction. Qed.

  Definition Chain (e : ty) : Prop :=
    forall P pre post, P = pre ++ (derefs e ++ one (leaf e) (length pre + length (derefs e))) ++ post ->
    forall fuel s r, s_vt s = e -> valid (s_root s) (s_vp s) -> shape e (cur s) ->
      (forall rest, PV o (s_in s) (JNull, rest) -> False) ->
      ex fuel P ((derefs e ++ one (leaf e) (length pre + length (derefs e))) ++ post) s = r -> r <> Unk ->
      spec e P post fuel s r.

  Lemma chain_all : forall e, Sim (leaf e) -> Chain e.
  Proof.
    induction e; intros SL;
      try (intros P pre post EP fuel s r VT V SH NN H NU; cbn [derefs leaf app length] in *; rewrite Nat.add_0_r in *;
           eapply SL; eauto).
    (* TPtr e *)
    intros P pre post EP fuel s r VT V SH NN H NU. cbn [derefs leaf app length] in *.
    specialize (IHe SL).
    destruct fuel as [|fuel]; [simpl in H; congruence|]. rewrite x_deref in H.
    set (v0 := match cur s with VPtr y => y | _ => zero e end).
    set (s1 := match cur s with
               | VPtr _ => mv s (s_vp s ++ [PDeref]) e
               | _ => mv (wr s (VPtr (zero e))) (s_vp s ++ [PDeref]) e end).
    assert (H1 : ex fuel P ((derefs e ++ one (leaf e) (length pre + S (length (derefs e)))) ++ post) s1 = r).
    { unfold s1. destruct (cur s); exact H. }
    clear H.
    assert (IN1 : s_in s1 = s_in s) by (unfold s1; destruct (cur s); reflexivity).
    assert (STK1 : s_stk s1 = s_stk s) by (unfold s1; destruct (cur s); reflexivity).
    assert (MIS1 : s_mis s1 = s_mis s) by (unfold s1; destruct (cur s); reflexivity).
    assert (VP1 : s_vp s1 = s_vp s ++ [PDeref]) by (unfold s1; destruct (cur s); reflexivity).
    assert (VT1 : s_vt s1 = e) by (unfold s1; destruct (cur s); reflexivity).
    assert (G1 : getp (s_root s1) (s_vp s) = VPtr v0 /\ valid (s_root s1) (s_vp s) /\
                 forall x, setp (s_root s1) (s_vp s ++ [PDeref]) x = setp (s_root s) (s_vp s) (VPtr x)).
    { unfold s1, v0. unfold cur. destruct (getp (s_root s) (s_vp s)) eqn:G;
        cbn [mv wr s_root]; try (rewrite getp_setp by exact V; split; [reflexivity|]; split; [apply valid_setp; exact V|];
                                 intros x; rewrite setp_setp_ext by exact V; reflexivity).
      split; [exact G|]. split; [exact V|]. intros x. rewrite setp_app, G. reflexivity. }
    destruct G1 as (G1 & V1 & S1).
    assert (CUR1 : cur s1 = v0).
    { unfold cur. rewrite VP1, getp_app, G1. reflexivity. }
    assert (VAL1 : valid (s_root s1) (s_vp s1)).
    { rewrite VP1. apply valid_app. split; [exact V1|]. rewrite G1. simpl. exact Logic.I. }
    assert (SH1 : shape e (cur s1)).
    { rewrite CUR1. unfold v0. destruct (cur s); try apply shape_zero. exact SH. }
    assert (SP : spec e P post fuel s1 r).
    { eapply (IHe P (pre ++ [I OP_deref 0 0 e]) post); eauto.
      - rewrite EP. rewrite app_length. cbn [length].
        replace (length pre + 1 + length (derefs e))%nat with (length pre + S (length (derefs e)))%nat by lia.
        rewrite <- (app_assoc pre). reflexivity.
      - rewrite IN1. exact NN.
      - rewrite app_length. cbn [length].
        replace (length pre + 1 + length (derefs e))%nat with (length pre + S (length (derefs e)))%nat by lia. exact H1. }
    destruct SP as [A B]. split.
    - intros j rest PVj. assert (NJ : j <> JNull) by (intros E; subst j; eapply NN; eauto).
      rewrite bind_ptr_nonnull by exact NJ. fold v0.
      rewrite <- IN1 in PVj. specialize (A j rest PVj). rewrite CUR1 in A.
      destruct (bind e j v0) as [x| |]; simpl; auto.
      destruct A as (f' & s' & L & E & I1 & R1 & K1 & M1).
      exists f', s'. split; [lia|]. split; [exact E|]. split; [exact I1|].
      split; [rewrite R1, VP1; apply S1|]. split; congruence.
    - intros N. apply B. rewrite IN1. exact N.
  Qed.

  Lemma Sim_ptr : forall e0, Sim (leaf e0) -> Sim (TPtr e0).
  Proof.
    intros e0 SL P pre post EP fuel s r VT V SH H NU. unfold one in H, EP. rewrite code_ptr in H, EP.
    remember (I OP_deref 0 0 e0 :: dcode e0 (S (length pre) + 2)) as D eqn:ED.
    assert (LD : length D = S (length (dcode e0 (S (length pre) + 2)))) by (subst D; reflexivity).
    rewrite <- LD in H, EP.
    set (N1 := (S (length pre) + 1 + length D + 1)%nat) in *.
    set (G := (S (length pre) + 1 + length D + 2)%nat) in *.
    cbn [app] in H, EP.
    assert (DS : D = derefs (TPtr e0) ++ one (leaf e0) (length (pre ++ [I OP_lspace 0 0 TBool; I OP_is_null N1 0 TBool]) + length (derefs (TPtr e0)))).
    { subst D. rewrite dcode_split. cbn [derefs app length]. rewrite app_length. cbn [length].
      replace (S (length pre) + 2 + length (derefs e0))%nat with (length pre + 2 + S (length (derefs e0)))%nat by lia. reflexivity. }
    assert (JE : skipn G P = post).
    { rewrite EP. apply (skipn_at _ (pre ++ I OP_lspace 0 0 TBool :: I OP_is_null N1 0 TBool :: D ++ [I OP_goto G 0 TBool; I OP_nil_1 0 0 TBool])).
      - lnorm. reflexivity.
      - rewrite app_length. cbn [length]. rewrite app_length. cbn [length]. unfold N1, G. lia. }
    destruct (head _ _ _ _ _ _ H NU) as [[W E]|(c & r0 & fuel' & W & LE & [[SN Hx]|[SN Hx]])]; clear H.
    - subst r. apply spec_ws_nil. exact W.
    - assert (J : skipn N1 P = I OP_nil_1 0 0 TBool :: post).
      { rewrite EP. apply (skipn_at _ (pre ++ I OP_lspace 0 0 TBool :: I OP_is_null N1 0 TBool :: D ++ [I OP_goto G 0 TBool])).
        - lnorm. reflexivity.
        - rewrite app_length. cbn [length]. rewrite app_length. cbn [length]. unfold N1, G. lia. }
      rewrite J in Hx.
      eapply spec_null_nil with (k := OP_nil_1); [intros v; reflexivity | auto | exact W | exact SN | exact LE | exact Hx | exact NU].
    - apply (spec_fuel _ _ _ fuel'); [exact LE|]. eapply spec_adv; [exact W|].
      eapply spec_goto; [exact JE|exact NU|].
      assert (W' : skip_ws (c :: r0) = c :: r0) by (apply skip_ws_nows; eapply skip_ws_head; exact W).
      eapply (chain_all (TPtr e0) SL P (pre ++ [I OP_lspace 0 0 TBool; I OP_is_null N1 0 TBool])
                        (I OP_goto G 0 TBool :: I OP_nil_1 0 0 TBool :: post)).
      + rewrite EP. rewrite <- (app_assoc pre). cbn [app]. do 3 f_equal. rewrite DS at 1. rewrite <- !app_assoc.
        rewrite !app_length. cbn [app length]. reflexivity.
      + exact VT.
      + exact V.
      + exact SH.
      + cbn [adv s_in]. intros rest PVn. destruct (I_null o _ _ _ W' _ PVn) as [S' _]. congruence.
      + rewrite <- Hx. f_equal. rewrite DS at 1. rewrite <- !app_assoc. rewrite !app_length. cbn [app length]. reflexivity.
      + exact NU.
  Qed.

  (* ---- slices ---- *)
  Lemma skipn_tl : forall A n (l : list A), skipn n (tl l) = skipn (S n) l.
  Proof. intros A n l. destruct l; [destruct n; reflexivity|reflexivity]. Qed.

  (* one element: slice_append; <element>; load *)
  Lemma elem_step : forall e, Sim e -> forall P preE postE B,
    B = S (length preE) ->
    P = preE ++ (I OP_slice_append 0 0 e :: one e B) ++ (I OP_load 0 0 TBool :: postE) ->
    forall fuel s r root0 vp news hid stk0,
      s_vp s = vp -> s_stk s = (vp, TSlice e) :: stk0 -> valid root0 vp ->
      s_root s = setp root0 vp (VList news hid) -> Forall (shape e) hid ->
      ex fuel P ((I OP_slice_append 0 0 e :: one e B) ++ I OP_load 0 0 TBool :: postE) s = r -> r <> Unk ->
      (forall j rest, PV o (s_in s) (j, rest) ->
         match bind e j (match hid with y :: _ => y | [] => zero e end) with
         | Unk => True
         | Err => r = Err
         | Ok x => exists fuel' s', (fuel' < fuel)%nat /\ ex fuel' P postE s' = r /\ s_in s' = rest /\
                     s_root s' = setp root0 vp (VList (news ++ [x]) (tl hid)) /\ s_vp s' = vp /\
                     s_stk s' = s_stk s /\ s_mis s' = s_mis s
         end) /\
      (NPV o (s_in s) -> r = Err).
  Proof.
    intros e SE P preE postE B EB EP fuel s r root0 vp news hid stk0 VP STK V ROOT FH H NU.
    set (cur0 := match hid with y :: _ => y | [] => zero e end).
    cbn [app] in H.
    destruct fuel as [|fuel]; [simpl in H; congruence|].
    assert (CUR : cur s = VList news hid).
    { unfold cur. rewrite ROOT, VP. apply getp_setp. exact V. }
    rewrite (x_slice_append h o _ _ _ _ _ _ _ news hid CUR) in H. fold cur0 in H.
    set (A := VList (news ++ [cur0]) (tl hid)) in *.
    set (s1 := mv (wr s A) (s_vp s ++ [PElem (length news)]) e) in *.
    assert (R1 : s_root s1 = setp root0 vp A).
    { unfold s1. cbn [mv wr s_root]. rewrite ROOT, VP. apply setp_setp. exact V. }
    assert (K : (length news < length (news ++ [cur0]))%nat) by (rewrite app_length; simpl; lia).
    assert (V1 : valid (s_root s1) (s_vp s1)).
    { rewrite R1. unfold s1. cbn [mv s_vp]. rewrite VP. apply valid_app. split; [apply valid_setp; exact V|].
      rewrite getp_setp by exact V. unfold A. simpl. split; [rewrite app_length; lia|exact Logic.I]. }
    assert (C1 : cur s1 = cur0).
    { unfold cur. rewrite R1. unfold s1. cbn [mv s_vp]. rewrite VP, getp_app, getp_setp by exact V.
      unfold A. simpl. rewrite app_nth1 by exact K. apply nth_middle. }
    assert (SH1 : shape e (cur s1)).
    { rewrite C1. unfold cur0. destruct hid; [apply shape_zero|]. inversion FH; assumption. }
    assert (SP : spec e P (I OP_load 0 0 TBool :: postE) fuel s1 r).
    { eapply (SE P (preE ++ [I OP_slice_append 0 0 e]) (I OP_load 0 0 TBool :: postE)); eauto.
      - rewrite EP, app_length. cbn [length]. rewrite Nat.add_1_r, <- EB. lnorm. reflexivity.
      - rewrite app_length. cbn [length]. rewrite Nat.add_1_r, <- EB. exact H. }
    destruct SP as [SA SB]. split.
    - intros j rest PVj. specialize (SA j rest PVj). rewrite C1 in SA.
      destruct (bind e j cur0) as [x| |]; auto.
      destruct SA as (f' & s' & L & E & I1 & Rt & K1 & M1).
      destruct f' as [|f']; [simpl in E; congruence|].
      assert (STK' : s_stk s' = (vp, TSlice e) :: stk0) by (rewrite K1; unfold s1; cbn [mv wr s_stk]; exact STK).
      rewrite (x_load h o _ _ _ _ _ _ _ _ _ _ STK') in E.
      exists f', (mv s' vp (TSlice e)). split; [lia|]. split; [exact E|]. cbn [mv s_in s_root s_vp s_stk s_mis].
      split; [exact I1|]. split.
      + rewrite Rt, R1. unfold s1 at 1. cbn [mv s_vp]. rewrite VP. rewrite setp_setp_ext by exact V.
        f_equal. unfold A. simpl. apply Nat.ltb_lt in K. rewrite K. rewrite nth_set_app_last. reflexivity.
      + split; [reflexivity|]. split; [rewrite K1; reflexivity|]. rewrite M1. reflexivity.
    - intros N. apply SB. exact N.
  Qed.

  (* what follows an element inside an array *)
  Definition PT (inp : bytes) (x : list jv * bytes) : Prop :=
    exists c r', skip_ws inp = c :: r' /\ ((c = 44 /\ PE o r' x) \/ (c = 93 /\ x = ([], r'))).

  Lemma PE_inv' : forall s0 l rest, PE o s0 (l, rest) -> exists v r1 l', PV o s0 (v, r1) /\ l = v :: l' /\ PT r1 (l', rest).
  Proof.
    intros s0 l rest H. destruct (PE_inv o _ _ _ H) as (v & r1 & PVx & [(r' & l' & W & E & PEx)|[W E]]).
    - exists v, r1, l'. split; [exact PVx|]. split; [exact E|]. exists 44, r'. split; [exact W|]. left. auto.
    - exists v, r1, []. split; [exact PVx|]. split; [exact E|]. exists 93, rest. split; [exact W|]. right. auto.
  Qed.

  Lemma PE_of_PT : forall s0 v r1 l' rest, PV o s0 (v, r1) -> PT r1 (l', rest) -> PE o s0 (v :: l', rest).
  Proof.
    intros s0 v r1 l' rest PVx (c & r' & W & [[C PEx]|[C E]]); subst c.
    - eapply PE_cons; eauto.
    - inversion E; subst. eapply PE_last; eauto.
  Qed.

  Definition loop_code (e : ty) (DROP B2 k0 END : nat) (post : prog) : prog :=
    [I OP_lspace 0 0 TBool; I OP_check_char DROP 93 TBool; I OP_match_char 0 44 TBool] ++
    (I OP_slice_append 0 0 e :: one e B2) ++
    (I OP_load 0 0 TBool :: I OP_goto k0 0 TBool :: I OP_drop 0 0 TBool :: I OP_goto END 0 TBool :: I OP_nil_3 0 0 TBool :: post).

  Lemma loop : forall e, Sim e -> simf e = true -> forall P preL post DROP B2 k0 END,
    k0 = length preL -> B2 = S (k0 + 3) ->
    P = preL ++ loop_code e DROP B2 k0 END post ->
    skipn DROP P = I OP_drop 0 0 TBool :: I OP_goto END 0 TBool :: I OP_nil_3 0 0 TBool :: post ->
    skipn END P = post ->
    forall fuel s r root0 vp news hid stk0,
      s_vp s = vp -> s_stk s = (vp, TSlice e) :: stk0 -> valid root0 vp ->
      s_root s = setp root0 vp (VList news hid) -> Forall (shape e) hid ->
      ex fuel P (loop_code e DROP B2 k0 END post) s = r -> r <> Unk ->
      (forall l rest, PT (s_in s) (l, rest) ->
         match bind_elems (bind e) (zero e) l hid with
         | Unk => True
         | Err => r = Err
         | Ok vs => exists fuel' s', (fuel' <= fuel)%nat /\ ex fuel' P post s' = r /\ s_in s' = rest /\
                      s_root s' = setp root0 vp (VList (news ++ vs) (skipn (length l) hid)) /\
                      s_stk s' = stk0 /\ s_mis s' = s_mis s
         end) /\
      ((forall x, PT (s_in s) x -> False) -> r = Err).
  Proof.
    intros e SE FE P preL post DROP B2 k0 END EK EB EP JD JE.
    assert (JK : skipn k0 P = loop_code e DROP B2 k0 END post).
    { rewrite EP. apply (skipn_at _ preL); [reflexivity|auto]. }
    induction fuel as [fuel IH] using lt_wf_ind.
    intros s r root0 vp news hid stk0 VP STK V ROOT FH H NU.
    assert (FT : Forall (shape e) (tl hid)) by (destruct hid; [constructor|inversion FH; assumption]).
    unfold loop_code in H. cbn [app] in H.
    destruct fuel as [|fuel]; [simpl in H; congruence|].
    destruct (skip_ws (s_in s)) as [|c r'] eqn:W.
    { rewrite x_lspace_nil in H by exact W. subst r. split; [|reflexivity].
      intros l rest (c & r' & W' & _). congruence. }
    erewrite x_lspace in H by exact W.
    destruct fuel as [|fuel]; [simpl in H; congruence|].
    erewrite x_check_char in H by reflexivity.
    destruct (c =? 93) eqn:C93.
    { (* the end of the array *)
      apply N.eqb_eq in C93. subst c. rewrite JD in H.
      destruct fuel as [|fuel]; [simpl in H; congruence|].
      erewrite x_drop in H by (cbn [adv s_stk]; exact STK).
      destruct fuel as [|fuel]; [simpl in H; congruence|].
      rewrite x_goto, JE in H. cbn [adv s_in s_root s_stk s_mis s_sr] in H.
      assert (PTx : PT (s_in s) ([], r')).
      { exists 93, r'. split; [exact W|]. right. auto. }
      split.
      - intros l rest (c & r'' & W' & D). rewrite W in W'. injection W' as <- <-.
        destruct D as [[C _]|[_ E]]; [discriminate C|]. injection E as -> ->. cbn [bind_elems].
        eexists fuel, _. split; [lia|]. split; [exact H|]. cbn [s_in s_root s_stk s_mis].
        rewrite app_nil_r. cbn [length skipn]. repeat split. exact ROOT.
      - intros N. exfalso. eapply N. exact PTx. }
    destruct fuel as [|fuel]; [simpl in H; congruence|].
    erewrite x_match_char in H by reflexivity. cbn [adv s_in] in H.
    destruct (c =? 44) eqn:C44.
    2:{ subst r. split; [|reflexivity].
        intros l rest (c0 & r'' & W' & D). rewrite W in W'. injection W' as <- <-.
        destruct D as [[C _]|[C _]]; subst c; discriminate. }
    apply N.eqb_eq in C44. subst c.
    (* one more element *)
    set (s2 := adv (adv s (44 :: r')) r') in *.
    destruct (elem_step e SE P (preL ++ [I OP_lspace 0 0 TBool; I OP_check_char DROP 93 TBool; I OP_match_char 0 44 TBool])
                (I OP_goto k0 0 TBool :: I OP_drop 0 0 TBool :: I OP_goto END 0 TBool :: I OP_nil_3 0 0 TBool :: post) B2
                ltac:(rewrite app_length; cbn [length]; lia)
                ltac:(rewrite EP; unfold loop_code; lnorm; reflexivity)
                fuel s2 r root0 vp news hid stk0 VP STK V ROOT FH H NU) as [EA EBn].
    assert (NEXT : forall v r1 x, PV o r' (v, r1) -> bind e v (match hid with y :: _ => y | [] => zero e end) = Ok x ->
              exists f2 s3, (f2 < S (S (S fuel)))%nat /\ ex f2 P (loop_code e DROP B2 k0 END post) s3 = r /\ s_in s3 = r1 /\
                s_root s3 = setp root0 vp (VList (news ++ [x]) (tl hid)) /\ s_vp s3 = vp /\
                s_stk s3 = (vp, TSlice e) :: stk0 /\ s_mis s3 = s_mis s).
    { intros v r1 x PVx Bx. specialize (EA v r1 PVx). rewrite Bx in EA.
      destruct EA as (f' & s' & L & E & I1 & Rt & VP' & K1 & M1).
      destruct f' as [|f']; [simpl in E; congruence|]. rewrite x_goto, JK in E.
      exists f', s'. split; [lia|]. split; [exact E|]. split; [exact I1|]. split; [exact Rt|]. split; [exact VP'|].
      split; [rewrite K1; exact STK|exact M1]. }
    split.
    - intros l rest (c & r'' & W' & D). rewrite W in W'. injection W' as <- <-.
      destruct D as [[_ PEx]|[C _]]; [|discriminate C].
      destruct (PE_inv' _ _ _ PEx) as (v & r1 & l' & PVx & El & PTx). subst l. cbn [bind_elems].
      pose proof (EA v r1 PVx) as EAv.
      destruct (bind e v (match hid with y :: _ => y | [] => zero e end)) as [x| |] eqn:Bx; cbn [rbind]; auto.
      destruct (NEXT v r1 x PVx Bx) as (f2 & s3 & L2 & E2 & I3 & R3 & VP3 & K3 & M3).
      destruct (IH f2 L2 s3 r root0 vp (news ++ [x]) (tl hid) stk0 VP3 K3 V R3 FT E2 NU) as [IA _].
      rewrite <- I3 in PTx. specialize (IA l' rest PTx).
      destruct (bind_elems (bind e) (zero e) l' (tl hid)) as [vs| |]; cbn [rbind]; auto.
      destruct IA as (f4 & s4 & L4 & E4 & I4 & R4 & K4 & M4).
      exists f4, s4. split; [lia|]. split; [exact E4|]. split; [exact I4|].
      split; [rewrite R4, <- app_assoc; cbn [app length]; rewrite skipn_tl; reflexivity|]. split; [exact K4|congruence].
    - intros N. destruct (PV_dec o r') as [[[v r1] PVx]|NP]; [|apply EBn; exact NP].
      pose proof (EA v r1 PVx) as EAv.
      destruct (bind e v (match hid with y :: _ => y | [] => zero e end)) as [x| |] eqn:Bx; auto.
      2:{ exfalso. eapply bind_no_unk; eauto. }
      destruct (NEXT v r1 x PVx Bx) as (f2 & s3 & L2 & E2 & I3 & R3 & VP3 & K3 & M3).
      destruct (IH f2 L2 s3 r root0 vp (news ++ [x]) (tl hid) stk0 VP3 K3 V R3 FT E2 NU) as [_ IB].
      apply IB. intros [l' rest] PTx. rewrite I3 in PTx. eapply (N (v :: l', rest)).
      exists 44, r'. split; [exact W|]. left. split; [reflexivity|]. eapply PE_of_PT; eauto.
  Qed.

  (* the layout of compileSliceList, elements and loop singled out *)
  Lemma code_slice : forall e b0,
    code (TSlice e) b0 =
      [I OP_is_null (b0 + 19 + 2 * S (clen e)) 0 TBool; I OP_check_char_0 (b0 + 4) 91 TBool; I OP_dismatch_err 0 0 TBool;
       I OP_go_skip (b0 + 20 + 2 * S (clen e)) 0 TBool; I OP_add 1 0 TBool;
       I OP_lspace 0 0 TBool; I OP_check_empty (b0 + 18 + 2 * S (clen e)) 93 TBool; I OP_slice_init 0 0 e; I OP_save 0 0 TBool]
      ++ (I OP_slice_append 0 0 e :: one e (b0 + 10))
      ++ I OP_load 0 0 TBool
      :: loop_code e (b0 + 17 + 2 * S (clen e)) (b0 + 15 + S (clen e)) (b0 + 11 + S (clen e)) (b0 + 20 + 2 * S (clen e)) [].
  Proof.
    intros e b0. cbn [code]. cbn [length]. rewrite !code_len. unfold loop_code, one. lnorm.
    replace (S (b0 + 10)) with (b0 + 11)%nat by lia.
    replace (S (b0 + 15 + S (clen e))) with (b0 + 16 + S (clen e))%nat by lia. reflexivity.
  Qed.

  Lemma one_len : forall e b, length (one e b) = S (clen e).
  Proof. intros. unfold one. cbn [length]. rewrite code_len. reflexivity. Qed.

  Lemma bind_slice_nonempty : forall e raw j l v,
    bind (TSlice e) (JArr raw (j :: l)) v =
    (do news <- bind_elems (bind e) (zero e) (j :: l) (match v with VList vis hid => vis ++ hid | _ => [] end);
     Ok (VList news (skipn (length (j :: l)) (match v with VList vis hid => vis ++ hid | _ => [] end)))).
  Proof. reflexivity. Qed.

  Lemma Sim_slice : forall e, Sim e -> simf e = true -> Sim (TSlice e).
  Proof.
    intros e SE FE P pre post EP fuel s r VT V SH H NU. unfold one in H, EP. rewrite code_slice in H, EP.
    remember (S (length pre)) as b0 eqn:Eb0.
    remember (S (clen e)) as L eqn:EL.
    remember (one e (b0 + 10)) as O1 eqn:EO1.
    assert (LO1 : length O1 = L) by (subst O1 L; apply one_len).
    set (NIL3 := (b0 + 19 + 2 * L)%nat) in *. set (END := (b0 + 20 + 2 * L)%nat) in *.
    set (GE := (b0 + 18 + 2 * L)%nat) in *. set (DROP := (b0 + 17 + 2 * L)%nat) in *.
    set (B2 := (b0 + 15 + L)%nat) in *. set (k0 := (b0 + 11 + L)%nat) in *.
    assert (LC : forall q, loop_code e DROP B2 k0 END [] ++ q = loop_code e DROP B2 k0 END q).
    { intros q. unfold loop_code. lnorm. reflexivity. }
    assert (LLC : forall q, length (loop_code e DROP B2 k0 END q) = (L + 9 + length q)%nat).
    { intros q. unfold loop_code. repeat (rewrite app_length; cbn [length]). rewrite one_len. lia. }
    repeat (cbn [app] in H, EP; rewrite <- ?app_assoc in H, EP).
    rewrite LC in H, EP.
    (* the jump targets *)
    assert (JK : skipn k0 P = loop_code e DROP B2 k0 END post).
    { rewrite EP. match goal with |- skipn _ (pre ++ ?X) = _ => apply (skipn_at _ (pre ++ firstn 11 X ++ O1 ++ [I OP_load 0 0 TBool])) end.
      - cbn [firstn]. lnorm. reflexivity.
      - cbn [firstn]. repeat (rewrite app_length; cbn [length]). rewrite LO1. unfold k0. lia. }
    assert (JIN : forall m A B, loop_code e DROP B2 k0 END post = A ++ B -> length A = m -> skipn (k0 + m) P = B).
    { intros m A B E LA. rewrite <- (firstn_skipn k0 P). rewrite JK, E.
      apply (skipn_at _ (firstn k0 P ++ A)); [lnorm; reflexivity|]. rewrite app_length, firstn_length, LA.
      assert (LP : (k0 <= length P)%nat).
      { rewrite EP. repeat (rewrite app_length; cbn [length]). rewrite LO1, LLC. unfold k0. lia. }
      lia. }
    assert (JD : skipn DROP P = I OP_drop 0 0 TBool :: I OP_goto END 0 TBool :: I OP_nil_3 0 0 TBool :: post).
    { replace DROP with (k0 + (L + 6))%nat by (unfold DROP, k0; lia).
      apply (JIN _ ([I OP_lspace 0 0 TBool; I OP_check_char DROP 93 TBool; I OP_match_char 0 44 TBool] ++
                    (I OP_slice_append 0 0 e :: one e B2) ++ [I OP_load 0 0 TBool; I OP_goto k0 0 TBool])).
      - unfold loop_code. lnorm. reflexivity.
      - repeat (rewrite app_length; cbn [length]). rewrite one_len. lia. }
    assert (JGE : skipn GE P = I OP_goto END 0 TBool :: I OP_nil_3 0 0 TBool :: post).
    { replace GE with (k0 + (L + 7))%nat by (unfold GE, k0; lia).
      apply (JIN _ ([I OP_lspace 0 0 TBool; I OP_check_char DROP 93 TBool; I OP_match_char 0 44 TBool] ++
                    (I OP_slice_append 0 0 e :: one e B2) ++ [I OP_load 0 0 TBool; I OP_goto k0 0 TBool; I OP_drop 0 0 TBool])).
      - unfold loop_code. lnorm. reflexivity.
      - repeat (rewrite app_length; cbn [length]). rewrite one_len. lia. }
    assert (JN : skipn NIL3 P = I OP_nil_3 0 0 TBool :: post).
    { replace NIL3 with (k0 + (L + 8))%nat by (unfold NIL3, k0; lia).
      apply (JIN _ ([I OP_lspace 0 0 TBool; I OP_check_char DROP 93 TBool; I OP_match_char 0 44 TBool] ++
                    (I OP_slice_append 0 0 e :: one e B2) ++ [I OP_load 0 0 TBool; I OP_goto k0 0 TBool; I OP_drop 0 0 TBool; I OP_goto END 0 TBool])).
      - unfold loop_code. lnorm. reflexivity.
      - repeat (rewrite app_length; cbn [length]). rewrite one_len. lia. }
    assert (JE : skipn END P = post).
    { replace END with (k0 + (L + 9))%nat by (unfold END, k0; lia).
      apply (JIN _ ([I OP_lspace 0 0 TBool; I OP_check_char DROP 93 TBool; I OP_match_char 0 44 TBool] ++
                    (I OP_slice_append 0 0 e :: one e B2) ++ [I OP_load 0 0 TBool; I OP_goto k0 0 TBool; I OP_drop 0 0 TBool; I OP_goto END 0 TBool; I OP_nil_3 0 0 TBool])).
      - unfold loop_code. lnorm. reflexivity.
      - repeat (rewrite app_length; cbn [length]). rewrite one_len. lia. }
    assert (J4 : skipn (b0 + 4) P =
                 I OP_add 1 0 TBool :: I OP_lspace 0 0 TBool :: I OP_check_empty GE 93 TBool :: I OP_slice_init 0 0 e ::
                 I OP_save 0 0 TBool :: (I OP_slice_append 0 0 e :: O1) ++ I OP_load 0 0 TBool :: loop_code e DROP B2 k0 END post).
    { rewrite EP. match goal with |- skipn _ (pre ++ ?X) = _ => apply (skipn_at _ (pre ++ firstn 5 X)) end.
      - cbn [firstn]. lnorm. reflexivity.
      - cbn [firstn]. rewrite app_length. cbn [length]. lia. }
    destruct (head _ _ _ _ _ _ H NU) as [[W E]|(c & r0 & fuel' & W & LE & [[SN Hx]|[SN Hx]])]; clear H.
    { subst r. apply spec_ws_nil. exact W. }
    { rewrite JN in Hx.
      eapply spec_null_nil with (k := OP_nil_3); [intros v; reflexivity | auto | exact W | exact SN | exact LE | exact Hx | exact NU]. }
    destruct fuel' as [|fuel']; [simpl in Hx; congruence|].
    erewrite x_check_char_0 in Hx by reflexivity.
    destruct (c =? 91) eqn:C91.
    2:{ destruct fuel' as [|[|fuel']]; [simpl in Hx; congruence|simpl in Hx; congruence|]. rewrite x_dismatch_go_skip in Hx.
        subst r. apply spec_err. intros j rest x PVj B.
        destruct j; cbn [sonic_bind] in B; try discriminate B.
        - destruct (I_null o _ _ _ W _ PVj) as [S' _]. congruence.
        - pose proof (I_arr o _ _ _ W _ _ _ PVj) as E. subst c. discriminate C91. }
    apply N.eqb_eq in C91. subst c. rewrite J4 in Hx.
    destruct fuel' as [|fuel']; [simpl in Hx; congruence|]. rewrite x_add in Hx. cbn [adv s_in skipn] in Hx.
    destruct fuel' as [|fuel']; [simpl in Hx; congruence|].
    destruct (skip_ws r0) as [|d r2] eqn:W2.
    { rewrite x_lspace_nil in Hx by exact W2. subst r. apply spec_err. intros j rest x PVj _.
      eapply PV_NPV; [exact PVj|]. eapply NPV_arr_nil; eauto. }
    erewrite x_lspace in Hx by exact W2.
    destruct fuel' as [|fuel']; [simpl in Hx; congruence|].
    erewrite x_check_empty in Hx by reflexivity. cbn [adv s_in] in Hx.
    destruct (d =? 93) eqn:D93.
    { (* [] *)
      apply N.eqb_eq in D93. subst d. rewrite JGE in Hx.
      destruct fuel' as [|fuel']; [simpl in Hx; congruence|]. rewrite x_goto, JE in Hx.
      eapply spec_of_pv; [eapply F_arr_empty; eauto|]. cbn [sonic_bind].
      eexists fuel', _. split; [lia|]. split; [exact Hx|]. repeat split. }
    (* at least one element *)
    set (old := match cur s with VList vis hid => vis ++ hid | _ => [] end).
    assert (FO : Forall (shape e) old).
    { unfold old. cbn [shape] in SH. destruct (cur s); try constructor. exact SH. }
    assert (FOT : Forall (shape e) (tl old)) by (destruct old; [constructor|inversion FO; assumption]).
    destruct fuel' as [|fuel']; [simpl in Hx; congruence|]. rewrite x_slice_init in Hx.
    set (sa := adv (adv (adv s (91 :: r0)) r0) (d :: r2)) in *.
    assert (Hx' : ex fuel' P (I OP_save 0 0 TBool :: (I OP_slice_append 0 0 e :: O1) ++ I OP_load 0 0 TBool :: loop_code e DROP B2 k0 END post)
                    (wr sa (VList [] old)) = r).
    { unfold old. change (cur sa) with (cur s) in Hx. destruct (cur s); exact Hx. }
    clear Hx.
    destruct fuel' as [|fuel']; [simpl in Hx'; congruence|].
    rewrite x_save in Hx' by (cbn [wr sa adv s_vt]; rewrite VT; exact Logic.I).
    cbn [wr sa adv s_in s_root s_vp s_vt s_stk s_sr s_mis] in Hx'. rewrite VT in Hx'.
    match type of Hx' with ex _ _ _ ?S4 = _ => set (s4 := S4) in * end.
    destruct (elem_step e SE P
                (pre ++ [I OP_lspace 0 0 TBool; I OP_is_null NIL3 0 TBool; I OP_check_char_0 (b0 + 4) 91 TBool;
                         I OP_dismatch_err 0 0 TBool; I OP_go_skip END 0 TBool; I OP_add 1 0 TBool; I OP_lspace 0 0 TBool;
                         I OP_check_empty GE 93 TBool; I OP_slice_init 0 0 e; I OP_save 0 0 TBool])
                (loop_code e DROP B2 k0 END post) (b0 + 10)%nat
                ltac:(rewrite app_length; cbn [length]; lia)
                ltac:(rewrite EP, EO1; lnorm; reflexivity)
                fuel' s4 r (s_root s) (s_vp s) [] old (s_stk s) eq_refl eq_refl V eq_refl FO
                ltac:(rewrite <- EO1; exact Hx') NU) as [EA EBn].
    cbn [s4 s_in s_stk s_mis app] in EA, EBn.
    assert (NEXT : forall v r1 x, PV o (d :: r2) (v, r1) -> bind e v (match old with y :: _ => y | [] => zero e end) = Ok x ->
              (forall l rest, PT r1 (l, rest) ->
                 match bind_elems (bind e) (zero e) l (tl old) with
                 | Unk => True
                 | Err => r = Err
                 | Ok vs => exits P post fuel s (VList (x :: vs) (skipn (S (length l)) old)) rest r
                 end) /\
              ((forall y, PT r1 y -> False) -> r = Err)).
    { intros v r1 x PVx Bx. specialize (EA v r1 PVx). rewrite Bx in EA.
      destruct EA as (f' & s' & L' & E & I1 & Rt & VP' & K1 & M1).
      destruct (loop e SE FE P
                  (pre ++ [I OP_lspace 0 0 TBool; I OP_is_null NIL3 0 TBool; I OP_check_char_0 (b0 + 4) 91 TBool;
                           I OP_dismatch_err 0 0 TBool; I OP_go_skip END 0 TBool; I OP_add 1 0 TBool; I OP_lspace 0 0 TBool;
                           I OP_check_empty GE 93 TBool; I OP_slice_init 0 0 e; I OP_save 0 0 TBool; I OP_slice_append 0 0 e]
                       ++ O1 ++ [I OP_load 0 0 TBool])
                  post DROP B2 k0 END
                  ltac:(repeat (rewrite app_length; cbn [length]); rewrite LO1; unfold k0; lia)
                  ltac:(unfold B2, k0; lia)
                  ltac:(rewrite EP; lnorm; reflexivity) JD JE
                  f' s' r (s_root s) (s_vp s) [x] (tl old) (s_stk s) VP' K1 V Rt FOT E NU) as [LA LB].
      split.
      - intros l rest PTx. rewrite <- I1 in PTx. specialize (LA l rest PTx).
        destruct (bind_elems (bind e) (zero e) l (tl old)) as [vs| |]; auto.
        destruct LA as (f4 & s4' & L4 & E4 & I4 & R4 & K4 & M4).
        exists f4, s4'. split; [lia|]. split; [exact E4|]. split; [exact I4|].
        split; [rewrite R4, skipn_tl; reflexivity|]. split; [exact K4|congruence].
      - intros N. apply LB. intros y PTy. rewrite I1 in PTy. eapply N; eauto. }
    split.
    - intros j rest PVj.
      destruct (I_arr91 o _ _ W _ _ PVj) as (d' & r2' & W2' & [(D & _)|(D & l & Ej & PEx)]);
        rewrite W2 in W2'; injection W2' as <- <-; [congruence|]. subst j.
      destruct (PE_inv' _ _ _ PEx) as (v & r1 & l' & PVx & El & PTx). subst l.
      rewrite bind_slice_nonempty. fold old. cbn [bind_elems].
      pose proof (EA v r1 PVx) as EAv.
      destruct (bind e v (match old with y :: _ => y | [] => zero e end)) as [x| |] eqn:Bx; cbn [rbind]; auto.
      destruct (NEXT v r1 x PVx Bx) as [NA _]. specialize (NA l' rest PTx).
      destruct (bind_elems (bind e) (zero e) l' (tl old)) as [vs| |]; cbn [rbind length]; auto.
    - intros N. destruct (PV_dec o (d :: r2)) as [[[v r1] PVx]|NP]; [|apply EBn; exact NP].
      pose proof (EA v r1 PVx) as EAv.
      destruct (bind e v (match old with y :: _ => y | [] => zero e end)) as [x| |] eqn:Bx; auto.
      2:{ exfalso. eapply bind_no_unk; eauto. }
      destruct (NEXT v r1 x PVx Bx) as [_ NB]. apply NB. intros [l' rest] PTx.
      eapply PV_NPV; [|exact N]. eapply F_arr; eauto. eapply PE_of_PT; eauto.
  Qed.

  (* ---- fixed arrays ---- *)
  Lemma pad_to_full : forall n z l, length l = n -> pad_to n z l = l.
  Proof. induction n as [|n IH]; intros z l H; destruct l; simpl in *; try discriminate; [reflexivity|]. rewrite IH by lia. reflexivity. Qed.

  Lemma nth_set_middle : forall A (l : list A) x y r, nth_set (l ++ x :: r) (length l) y = l ++ y :: r.
  Proof. induction l as [|z l IH]; intros; simpl; [reflexivity|]. rewrite IH. reflexivity. Qed.

  Lemma firstn_middle : forall A (l : list A) x r, firstn (S (length l)) (l ++ x :: r) = l ++ [x].
  Proof. induction l as [|z l IH]; intros; [reflexivity|]. cbn [length app]. change (firstn (S (S (length l))) (z :: l ++ x :: r)) with (z :: firstn (S (length l)) (l ++ x :: r)). rewrite IH. reflexivity. Qed.

  Definition arr_tail (e : ty) (DROP : nat) (post : prog) : prog :=
    I OP_array_skip 0 0 TBool :: I OP_goto DROP 0 TBool :: I OP_array_clear 0 0 e :: I OP_drop 0 0 TBool :: post.

  Lemma items : forall e, Sim e -> simf e = true -> forall n P post CLR DROP,
    skipn CLR P = I OP_array_clear 0 0 e :: I OP_drop 0 0 TBool :: post ->
    skipn DROP P = I OP_drop 0 0 TBool :: post ->
    forall k preK, (k <= n)%nat ->
    P = preK ++ icode (code e) (S (clen e)) CLR n k (length preK) ++ arr_tail e DROP post ->
    forall fuel s r root0 ap news olds stk0,
      s_vp s = ap ++ [PElem (n - k)] -> s_vt s = e -> s_stk s = (ap, TArr n e) :: stk0 -> valid root0 ap ->
      length news = (n - k)%nat -> length olds = k -> Forall (shape e) olds ->
      s_root s = setp root0 ap (VList (news ++ olds) []) ->
      ex fuel P (icode (code e) (S (clen e)) CLR n k (length preK) ++ arr_tail e DROP post) s = r -> r <> Unk ->
      (forall l rest, PE o (s_in s) (l, rest) ->
         match bind_elems (bind e) (zero e) (firstn k l) olds with
         | Unk => True
         | Err => r = Err
         | Ok vs => exists fuel' s', (fuel' <= fuel)%nat /\ ex fuel' P post s' = r /\ s_in s' = rest /\
                      s_root s' = setp root0 ap (VList (pad_to n (zero e) (news ++ vs)) []) /\
                      s_stk s' = stk0 /\ s_mis s' = s_mis s
         end) /\
      (NPE o (s_in s) -> r = Err).
  Proof.
    intros e SE FE n P post CLR DROP JC JD.
    induction k as [|k IH]; intros preK KN EP fuel s r root0 ap news olds stk0 VP VT STK V LN LO FO ROOT H NU.
    - (* all n elements decoded: the rest is skipped *)
      cbn [icode app] in H. unfold arr_tail in H.
      destruct olds; [|discriminate LO]. rewrite app_nil_r in ROOT. rewrite Nat.sub_0_r in *.
      destruct fuel as [|fuel]; [simpl in H; congruence|]. rewrite x_array_skip in H.
      destruct (skip_ws (s_in s)) as [|c0 r0] eqn:W.
      { subst r. split; [|reflexivity]. intros l rest PEx. destruct (PE_inv o _ _ _ PEx) as (v & r1 & PVx & _).
        exfalso. eapply PV_NPV; [exact PVx|apply NPV_ws; exact W]. }
      assert (WC : is_ws c0 = false) by (eapply skip_ws_head; exact W).
      destruct (c0 =? 93) eqn:C93.
      { subst r. split; [|reflexivity]. intros l rest PEx. destruct (PE_inv o _ _ _ PEx) as (v & r1 & PVx & _).
        exfalso. eapply PV_NPV; [exact PVx|]. apply N.eqb_eq in C93. subst c0. eapply NPV_close; exact W. }
      destruct (ctl && negb _) eqn:VS; [congruence|]. clear VS.
      pose proof (skip_rest o c0 r0 WC C93) as SR.
      assert (PES : forall x, PE o (s_in s) x <-> PE o (c0 :: r0) x).
      { intros x. unfold PE. split; intros [f E]; exists f.
        - destruct f as [|f]; [discriminate|]. simpl in *. rewrite <- pvalue_skip, W in E. rewrite <- (pvalue_skip o f (c0 :: r0)), (skip_ws_nows c0 r0 WC). exact E.
        - destruct f as [|f]; [discriminate|]. simpl in *. rewrite <- pvalue_skip, W. rewrite <- (pvalue_skip o f (c0 :: r0)), (skip_ws_nows c0 r0 WC) in E. exact E. }
      destruct (pvalue (parse_fuel (c0 :: r0)) ctl (91 :: c0 :: r0)) as [[j rq]|] eqn:PVr.
      + destruct fuel as [|fuel]; [simpl in H; congruence|]. rewrite x_goto, JD in H.
        destruct fuel as [|fuel]; [simpl in H; congruence|].
        erewrite x_drop in H by (cbn [adv s_stk]; exact STK). cbn [adv s_in s_root s_sr s_mis] in H.
        split.
        * intros l rest PEx. cbn [firstn bind_elems]. apply PES in PEx.
          pose proof (skip_rest_det o _ _ _ _ _ _ WC C93 PVr PEx) as ER. subst rq.
          eexists fuel, _. split; [lia|]. split; [exact H|]. cbn [s_in s_root s_stk s_mis].
          rewrite app_nil_r, pad_to_full by exact LN. repeat split. exact ROOT.
        * intros N. exfalso. destruct SR as [l PEx]. apply PES in PEx. destruct PEx as [f E]. rewrite N in E. discriminate.
      + subst r. split; [|reflexivity]. intros l rest PEx. apply PES in PEx. destruct PEx as [f E]. rewrite SR in E. discriminate.
    - (* one more element *)
      cbn [icode] in H, EP.
      destruct olds as [|o1 olds']; [discriminate LO|]. simpl in LO. injection LO as LO.
      assert (IDX : (S (n - S k) = n - k)%nat) by lia.
      set (i := (n - S k)%nat) in *.
      set (item_tail := [I OP_load 0 0 TBool; I OP_index (S i) 0 TBool; I OP_lspace 0 0 TBool; I OP_check_char CLR 93 TBool; I OP_match_char 0 44 TBool]) in *.
      assert (CUR : cur s = o1).
      { unfold cur. rewrite ROOT, VP, getp_app, getp_setp by exact V. simpl. rewrite app_nil_r, <- LN. apply nth_middle. }
      assert (VS : valid (s_root s) (s_vp s)).
      { rewrite ROOT, VP. apply valid_app. split; [apply valid_setp; exact V|]. rewrite getp_setp by exact V. simpl.
        split; [rewrite app_nil_r, app_length; simpl; lia|exact Logic.I]. }
      assert (SH : shape e (cur s)) by (rewrite CUR; inversion FO; assumption).
      assert (FO' : Forall (shape e) olds') by (inversion FO; assumption).
      assert (SP : spec e P (item_tail ++ icode (code e) (S (clen e)) CLR n k (length preK + S (clen e) + 5) ++ arr_tail e DROP post) fuel s r).
      { eapply (SE P preK); eauto.
        - rewrite EP. unfold one. lnorm. reflexivity.
        - unfold one. rewrite <- H. lnorm. reflexivity. }
      destruct SP as [SA SB].
      (* after the element: load; index; lspace; `]` or `,` *)
      assert (NEXT : forall v r1 x, PV o (s_in s) (v, r1) -> bind e v o1 = Ok x ->
                (forall l' rest, PT r1 (l', rest) ->
                   match bind_elems (bind e) (zero e) (firstn k l') olds' with
                   | Unk => True
                   | Err => r = Err
                   | Ok vs => exists fuel' s', (fuel' <= fuel)%nat /\ ex fuel' P post s' = r /\ s_in s' = rest /\
                                s_root s' = setp root0 ap (VList (pad_to n (zero e) (news ++ x :: vs)) []) /\
                                s_stk s' = stk0 /\ s_mis s' = s_mis s
                   end) /\
                ((forall y, PT r1 y -> False) -> r = Err)).
      { intros v r1 x PVx Bx. specialize (SA v r1 PVx). rewrite CUR, Bx in SA.
        destruct SA as (f1 & s1 & L1 & E1 & I1 & R1 & K1 & M1). unfold item_tail in E1. cbn [app] in E1.
        assert (R1' : s_root s1 = setp root0 ap (VList (news ++ x :: olds') [])).
        { rewrite R1, ROOT, VP. rewrite setp_setp_ext by exact V. f_equal. simpl.
          assert (LT : Nat.ltb i (length (news ++ o1 :: olds')) = true) by (apply Nat.ltb_lt; rewrite app_length; simpl; lia).
          rewrite LT. rewrite <- LN. rewrite nth_set_middle. reflexivity. }
        destruct f1 as [|f1]; [simpl in E1; congruence|].
        erewrite x_load in E1 by (rewrite K1; exact STK).
        destruct f1 as [|f1]; [simpl in E1; congruence|].
        erewrite x_index_arr in E1 by reflexivity. cbn [mv s_vp s_in] in E1.
        destruct f1 as [|f1]; [simpl in E1; congruence|].
        destruct (skip_ws r1) as [|c r'] eqn:W1.
        { rewrite x_lspace_nil in E1 by (cbn [mv s_in]; rewrite I1; exact W1). split; [|congruence].
          intros l' rest (c & r' & W' & _). congruence. }
        erewrite x_lspace in E1 by (cbn [mv s_in]; rewrite I1; exact W1).
        destruct f1 as [|f1]; [simpl in E1; congruence|].
        erewrite x_check_char in E1 by reflexivity.
        destruct (c =? 93) eqn:C93.
        { (* the array ends here: clear the rest *)
          apply N.eqb_eq in C93. subst c. rewrite JC in E1.
          destruct f1 as [|f1]; [simpl in E1; congruence|].
          erewrite (x_array_clear h o _ _ _ _ _ _ _ ap n e stk0 (S i) (news ++ x :: olds') []) in E1;
            [|cbn [adv mv s_stk]; rewrite K1; exact STK|reflexivity|cbn [adv mv s_root]; rewrite R1'; apply getp_setp; exact V].
          destruct f1 as [|f1]; [simpl in E1; congruence|].
          erewrite x_drop in E1 by (cbn [adv mv s_stk]; rewrite K1; exact STK).
          cbn [adv mv s_in s_root s_sr s_mis] in E1.
          split.
          - intros l' rest (c & r'' & W' & D). rewrite W1 in W'. injection W' as <- <-.
            destruct D as [[C _]|[_ E]]; [discriminate C|]. injection E as -> ->.
            destruct k; cbn [firstn bind_elems].
            + eexists f1, _. split; [lia|]. split; [exact E1|]. cbn [s_in s_root s_stk s_mis].
              split; [reflexivity|]. split; [|split; [reflexivity|exact M1]].
              rewrite R1'. rewrite setp_setp by exact V. f_equal. f_equal. rewrite <- LN. rewrite firstn_middle. reflexivity.
            + eexists f1, _. split; [lia|]. split; [exact E1|]. cbn [s_in s_root s_stk s_mis].
              split; [reflexivity|]. split; [|split; [reflexivity|exact M1]].
              rewrite R1'. rewrite setp_setp by exact V. f_equal. f_equal. rewrite <- LN. rewrite firstn_middle. reflexivity.
          - intros N. exfalso. eapply (N ([], r')). exists 93, r'. split; [exact W1|]. right. auto. }
        destruct f1 as [|f1]; [simpl in E1; congruence|].
        erewrite x_match_char in E1 by reflexivity. cbn [adv s_in] in E1.
        destruct (c =? 44) eqn:C44.
        2:{ split; [|congruence]. intros l' rest (c1 & r'' & W' & D). rewrite W1 in W'. injection W' as <- <-.
            destruct D as [[C _]|[C _]]; subst c; discriminate. }
        apply N.eqb_eq in C44. subst c.
        match type of E1 with ex _ _ _ ?S2 = _ => set (s2 := S2) in * end.
        assert (LK : length (preK ++ one e (length preK) ++ item_tail) = (length preK + S (clen e) + 5)%nat).
        { unfold one, item_tail. repeat (rewrite !app_length; cbn [length]). rewrite code_len. lia. }
        assert (EP' : P = (preK ++ one e (length preK) ++ item_tail) ++
                          icode (code e) (S (clen e)) CLR n k (length (preK ++ one e (length preK) ++ item_tail)) ++ arr_tail e DROP post).
        { rewrite LK, EP. unfold one. lnorm. reflexivity. }
        assert (KN' : (k <= n)%nat) by lia.
        destruct (IH (preK ++ one e (length preK) ++ item_tail) KN' EP'
                    f1 s2 r root0 ap (news ++ [x]) olds' stk0) as [IA IB]; try assumption.
        + unfold s2. cbn [adv mv s_vp]. rewrite IDX. reflexivity.
        + reflexivity.
        + unfold s2. cbn [adv mv s_stk]. rewrite K1. exact STK.
        + rewrite app_length. simpl. lia.
        + unfold s2. cbn [adv mv s_root]. rewrite R1'. rewrite <- app_assoc. reflexivity.
        + rewrite LK. exact E1.
        + split.
          * intros l' rest (c & r'' & W' & D). rewrite W1 in W'. injection W' as <- <-.
            destruct D as [[_ PEx]|[C _]]; [|discriminate C].
            specialize (IA l' rest PEx). destruct (bind_elems (bind e) (zero e) (firstn k l') olds') as [vs| |]; auto.
            destruct IA as (f4 & s4 & L4 & E4 & I4 & R4 & K4 & M4).
            exists f4, s4. split; [lia|]. split; [exact E4|]. split; [exact I4|].
            split; [rewrite R4, <- app_assoc; reflexivity|]. split; [exact K4|]. rewrite M4. unfold s2. cbn [adv mv s_mis]. exact M1.
          * intros N. apply IB. unfold NPE, s2. cbn [adv s_in]. intros f. destruct (pelems f ctl r' []) as [[l' rest]|] eqn:E; [|reflexivity].
            exfalso. eapply (N (l', rest)). exists 44, r'. split; [exact W1|]. left. split; [reflexivity|]. exists f. exact E. }
      split.
      + intros l rest PEx. destruct (PE_inv' _ _ _ PEx) as (v & r1 & l' & PVx & El & PTx). subst l. cbn [firstn bind_elems tl].
        pose proof (SA v r1 PVx) as SAv. rewrite CUR in SAv.
        destruct (bind e v o1) as [x| |] eqn:Bx; cbn [rbind]; auto.
        destruct (NEXT v r1 x PVx Bx) as [NA _]. specialize (NA l' rest PTx).
        destruct (bind_elems (bind e) (zero e) (firstn k l') olds') as [vs| |]; cbn [rbind]; auto.
      + intros N. destruct (PV_dec o (s_in s)) as [[[v r1] PVx]|NP]; [|apply SB; exact NP].
        pose proof (SA v r1 PVx) as SAv. rewrite CUR in SAv.
        destruct (bind e v o1) as [x| |] eqn:Bx; auto.
        2:{ exfalso. eapply bind_no_unk; eauto. }
        destruct (NEXT v r1 x PVx Bx) as [_ NB]. apply NB. intros [l' rest] PTx.
        destruct (PE_of_PT _ _ _ _ _ PVx PTx) as [f E]. rewrite N in E. discriminate.
  Qed.

  Lemma bind_arr : forall n e raw l v,
    bind (TArr n e) (JArr raw l) v =
    (do news <- bind_elems (bind e) (zero e) (firstn n l) (match v with VList vis _ => vis | _ => [] end);
     Ok (VList (pad_to n (zero e) news) [])).
  Proof. reflexivity. Qed.

  Lemma Sim_arr : forall n e, Sim e -> simf e = true -> Sim (TArr n e).
  Proof.
    intros n e SE FE P pre post EP fuel s r VT V SH H NU. unfold one in H, EP. cbn [code] in H, EP.
    remember (S (length pre)) as b0 eqn:Eb0.
    remember (S (clen e)) as L eqn:EL.
    set (CLR := (b0 + 8 + n * (L + 5) + 2)%nat) in *.
    assert (LI : forall T k b, length (icode (code e) L T n k b) = (k * (L + 5))%nat).
    { intros. apply icode_len. intros b'. rewrite code_len. subst L. reflexivity. }
    repeat (cbn [app] in H, EP; rewrite <- ?app_assoc in H, EP).
    change (I OP_array_skip 0 0 TBool :: I OP_goto (CLR + 1) 0 TBool :: I OP_array_clear 0 0 e :: I OP_drop 0 0 TBool :: post)
      with (arr_tail e (CLR + 1) post) in H, EP.
    (* the shape of the destination *)
    cbn [shape] in SH. destruct (cur s) as [| | | | | |vis hid| |] eqn:CUR; try contradiction.
    destruct SH as (LV & HH & FV). subst hid.
    (* jump targets *)
    assert (JC : skipn CLR P = I OP_array_clear 0 0 e :: I OP_drop 0 0 TBool :: post).
    { rewrite EP. unfold arr_tail.
      match goal with |- skipn _ (pre ++ ?X) = _ =>
        apply (skipn_at _ (pre ++ firstn 9 X ++ icode (code e) L CLR n n (b0 + 8) ++ [I OP_array_skip 0 0 TBool; I OP_goto (CLR + 1) 0 TBool])) end.
      - cbn [firstn]. lnorm. reflexivity.
      - cbn [firstn]. repeat (rewrite app_length; cbn [length]). rewrite LI. unfold CLR. lia. }
    assert (JD : skipn (CLR + 1) P = I OP_drop 0 0 TBool :: post).
    { rewrite EP. unfold arr_tail.
      match goal with |- skipn _ (pre ++ ?X) = _ =>
        apply (skipn_at _ (pre ++ firstn 9 X ++ icode (code e) L CLR n n (b0 + 8) ++
                           [I OP_array_skip 0 0 TBool; I OP_goto (CLR + 1) 0 TBool; I OP_array_clear 0 0 e])) end.
      - cbn [firstn]. lnorm. reflexivity.
      - cbn [firstn]. repeat (rewrite app_length; cbn [length]). rewrite LI. unfold CLR. lia. }
    assert (JE : skipn (CLR + 2) P = post).
    { rewrite EP. unfold arr_tail.
      match goal with |- skipn _ (pre ++ ?X) = _ =>
        apply (skipn_at _ (pre ++ firstn 9 X ++ icode (code e) L CLR n n (b0 + 8) ++
                           [I OP_array_skip 0 0 TBool; I OP_goto (CLR + 1) 0 TBool; I OP_array_clear 0 0 e; I OP_drop 0 0 TBool])) end.
      - cbn [firstn]. lnorm. reflexivity.
      - cbn [firstn]. repeat (rewrite app_length; cbn [length]). rewrite LI. unfold CLR. lia. }
    assert (J4 : skipn (b0 + 4) P =
                 I OP_add 1 0 TBool :: I OP_save 0 0 TBool :: I OP_lspace 0 0 TBool :: I OP_check_char CLR 93 TBool ::
                 icode (code e) L CLR n n (b0 + 8) ++ arr_tail e (CLR + 1) post).
    { rewrite EP. match goal with |- skipn _ (pre ++ ?X) = _ => apply (skipn_at _ (pre ++ firstn 5 X)) end.
      - cbn [firstn]. lnorm. reflexivity.
      - cbn [firstn]. rewrite app_length. cbn [length]. lia. }
    destruct (head _ _ _ _ _ _ H NU) as [[W E]|(c & r0 & fuel' & W & LE & [[SN Hx]|[SN Hx]])]; clear H.
    { subst r. apply spec_ws_nil. exact W. }
    { rewrite JE in Hx. eapply spec_null_same; eauto. }
    destruct fuel' as [|fuel']; [simpl in Hx; congruence|].
    erewrite x_check_char_0 in Hx by reflexivity.
    destruct (c =? 91) eqn:C91.
    2:{ destruct fuel' as [|[|fuel']]; [simpl in Hx; congruence|simpl in Hx; congruence|]. rewrite x_dismatch_go_skip in Hx.
        subst r. apply spec_err. intros j rest x PVj B.
        destruct j; cbn [sonic_bind] in B; try discriminate B.
        - destruct (I_null o _ _ _ W _ PVj) as [S' _]. congruence.
        - pose proof (I_arr o _ _ _ W _ _ _ PVj) as E. subst c. discriminate C91. }
    apply N.eqb_eq in C91. subst c. rewrite J4 in Hx.
    destruct fuel' as [|fuel']; [simpl in Hx; congruence|]. rewrite x_add in Hx. cbn [adv s_in skipn] in Hx.
    destruct fuel' as [|fuel']; [simpl in Hx; congruence|].
    erewrite x_save_arr in Hx by (cbn [adv s_vt]; exact VT). cbn [adv s_in s_root s_vp s_stk s_sr s_mis] in Hx.
    destruct fuel' as [|fuel']; [simpl in Hx; congruence|].
    destruct (skip_ws r0) as [|d r2] eqn:W2.
    { rewrite x_lspace_nil in Hx by exact W2. subst r. apply spec_err. intros j rest x PVj _.
      eapply PV_NPV; [exact PVj|]. eapply NPV_arr_nil; eauto. }
    erewrite x_lspace in Hx by exact W2. cbn [adv s_in] in Hx.
    destruct fuel' as [|fuel']; [simpl in Hx; congruence|].
    erewrite x_check_char in Hx by reflexivity. cbn [adv s_in] in Hx.
    assert (GA : getp (s_root s) (s_vp s) = VList vis []) by exact CUR.
    assert (ROOT : s_root s = setp (s_root s) (s_vp s) (VList ([] ++ vis) [])).
    { cbn [app]. rewrite <- GA. symmetry. apply setp_getp. exact V. }
    destruct (d =? 93) eqn:D93.
    { (* [] : every element is cleared *)
      apply N.eqb_eq in D93. subst d. rewrite JC in Hx.
      destruct fuel' as [|fuel']; [simpl in Hx; congruence|].
      erewrite (x_array_clear h o _ _ _ _ _ _ _ (s_vp s) n e (s_stk s) 0 vis []) in Hx; [|reflexivity|reflexivity|exact GA].
      destruct fuel' as [|fuel']; [simpl in Hx; congruence|].
      erewrite x_drop in Hx by reflexivity. cbn [s_in s_root s_sr s_mis] in Hx.
      eapply spec_of_pv; [eapply F_arr_empty; eauto|]. rewrite bind_arr, CUR. cbn [firstn bind_elems rbind].
      destruct n; cbn [firstn bind_elems rbind]; (eexists fuel', _; split; [lia|]; split; [exact Hx|]; repeat split). }
    (* elements *)
    match type of Hx with ex _ _ _ ?S4 = _ => set (s4 := S4) in * end.
    destruct (items e SE FE n P post CLR (CLR + 1)%nat JC JD n
                (pre ++ [I OP_lspace 0 0 TBool; I OP_is_null (CLR + 2) 0 TBool; I OP_check_char_0 (b0 + 4) 91 TBool;
                         I OP_dismatch_err 0 0 TBool; I OP_go_skip (CLR + 2) 0 TBool; I OP_add 1 0 TBool; I OP_save 0 0 TBool;
                         I OP_lspace 0 0 TBool; I OP_check_char CLR 93 TBool]) (le_n n)
                ltac:(rewrite EP, app_length; cbn [length]; replace (length pre + 9)%nat with (b0 + 8)%nat by lia; subst L; lnorm; reflexivity)
                fuel' s4 r (s_root s) (s_vp s) [] vis (s_stk s)) as [IA IB]; try assumption.
    - unfold s4. cbn [s_vp]. rewrite Nat.sub_diag. reflexivity.
    - reflexivity.
    - reflexivity.
    - rewrite Nat.sub_diag. reflexivity.
    - rewrite app_length. cbn [length]. replace (length pre + 9)%nat with (b0 + 8)%nat by lia. subst L. exact Hx.
    - cbn [s4 s_in s_mis] in IA, IB. split.
      + intros j rest PVj.
        destruct (I_arr91 o _ _ W _ _ PVj) as (d' & r2' & W2' & [(D & _)|(D & l & Ej & PEx)]);
          rewrite W2 in W2'; injection W2' as <- <-; [congruence|]. subst j.
        rewrite bind_arr, CUR. specialize (IA l rest PEx).
        destruct (bind_elems (bind e) (zero e) (firstn n l) vis) as [vs| |]; cbn [rbind]; auto.
        destruct IA as (f4 & s' & L4 & E4 & I4 & R4 & K4 & M4).
        unfold exits. exists f4, s'. split; [lia|]. split; [exact E4|]. split; [exact I4|]. split; [exact R4|]. split; [exact K4|exact M4].
      + intros N. apply IB. unfold NPE, s4. cbn [adv s_in]. intros f. destruct (pelems f ctl (d :: r2) []) as [[l rest]|] eqn:E; [|reflexivity].
        exfalso. eapply PV_NPV; [|exact N]. eapply F_arr; eauto. exists f. exact E.
  Qed.
End Sim.
