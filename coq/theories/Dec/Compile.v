(* Dec/Compile.v - transcription of internal/decoder/jitdec/compiler.go: destination type -> opcode program.
   Same function names, same emission order, same pin / rel label discipline (a `pin i` overwrites the vi
   operand of instruction i with the current pc; an instruction that is never pinned keeps target 0).  Type operands and byte offsets are not represented (the tie
   compares opcode, vi, vb, switch tables and field tables). *)
From Coq Require Import NArith List Bool.
From SV.Dec Require Import Ty.
Import ListNotations.
Open Scope N_scope.

Inductive op :=
| OP_any | OP_dyn | OP_str | OP_bin | OP_bool | OP_num
| OP_i8 | OP_i16 | OP_i32 | OP_i64 | OP_u8 | OP_u16 | OP_u32 | OP_u64 | OP_f32 | OP_f64
| OP_unquote | OP_nil_1 | OP_nil_2 | OP_nil_3 | OP_empty_bytes | OP_deref | OP_index
| OP_is_null | OP_is_null_quote | OP_map_init
| OP_map_key_i8 | OP_map_key_i16 | OP_map_key_i32 | OP_map_key_i64
| OP_map_key_u8 | OP_map_key_u16 | OP_map_key_u32 | OP_map_key_u64
| OP_map_key_f32 | OP_map_key_f64 | OP_map_key_str | OP_map_key_utext | OP_map_key_utext_p
| OP_array_skip | OP_array_clear | OP_array_clear_p | OP_slice_init | OP_slice_append
| OP_object_next | OP_struct_field | OP_unmarshal | OP_unmarshal_p | OP_unmarshal_text | OP_unmarshal_text_p
| OP_lspace | OP_match_char | OP_check_char | OP_load | OP_save | OP_drop | OP_drop_2 | OP_recurse
| OP_goto | OP_switch | OP_check_char_0 | OP_dismatch_err | OP_go_skip | OP_skip_emtpy | OP_add
| OP_check_empty | OP_unsupported.

(* i_t: the type operand (p.vt()) where the assembler uses one; not part of the listing compared with the real IL *)
Record instr := mkI { i_op : op; i_vi : nat; i_vb : N; i_vs : list nat; i_fm : list (bytes * nat); i_t : ty }.

Definition prog := list instr.
Definition pc (p : prog) : nat := length p.

Definition add (p : prog) (o : op) : prog := p ++ [mkI o 0 0 [] [] TBool].
Definition int_ (p : prog) (o : op) (vi : nat) : prog := p ++ [mkI o vi 0 [] [] TBool].
Definition chr (p : prog) (o : op) (vb : N) : prog := p ++ [mkI o 0 vb [] [] TBool].
Definition rtt (p : prog) (o : op) (t : ty) : prog := p ++ [mkI o 0 0 [] [] t].
Definition rtti (p : prog) (o : op) (t : ty) (iv : nat) : prog := p ++ [mkI o iv 0 [] [] t].
Definition fmv (p : prog) (fm : list (bytes * nat)) : prog := p ++ [mkI OP_struct_field 0 0 [] fm TBool].
Definition tab (p : prog) : prog := p ++ [mkI OP_switch 0 0 [] [] TBool].

Fixpoint upd (p : prog) (i : nat) (f : instr -> instr) : prog :=
  match p, i with
  | [], _ => []
  | x :: r, O => f x :: r
  | x :: r, S i' => x :: upd r i' f
  end.

Definition pin (p : prog) (i : nat) : prog :=
  let n := pc p in upd p i (fun x => mkI (i_op x) n (i_vb x) (i_vs x) (i_fm x) (i_t x)).

Definition rel (p : prog) (v : list nat) : prog := fold_left pin v p.

Definition MaxInlineDepth : nat := 3.

Definition op_of_ikind (k : ikind) : op :=
  match k with I8 => OP_i8 | I16 => OP_i16 | I32 => OP_i32 | I64 => OP_i64
             | U8 => OP_u8 | U16 => OP_u16 | U32 => OP_u32 | U64 => OP_u64 end.

Definition map_key_op (k : kty) : op :=
  match k with
  | KStr => OP_map_key_str
  | KText => OP_map_key_utext_p
  | KInt I8 => OP_map_key_i8 | KInt I16 => OP_map_key_i16 | KInt I32 => OP_map_key_i32 | KInt I64 => OP_map_key_i64
  | KInt U8 => OP_map_key_u8 | KInt U16 => OP_map_key_u16 | KInt U32 => OP_map_key_u32 | KInt U64 => OP_map_key_u64
  end.

(* checkIfSkip *)
Definition checkIfSkip (p : prog) (c : N) : prog * nat :=
  let j := pc p in
  let p := chr p OP_check_char_0 c in
  let p := rtt p OP_dismatch_err TBool in
  let s := pc p in
  let p := add p OP_go_skip in
  let p := pin p j in
  let p := int_ p OP_add 1 in
  (p, s).

(* compilePrimitive *)
Definition compilePrimitive (p : prog) (o : op) : prog :=
  let i := pc p in
  let p := add p OP_is_null in
  let p := add p o in
  pin p i.

(* compileStringBody *)
Definition compileStringBody (p : prog) : prog :=
  let i := pc p in
  let p := add p OP_is_null in
  let '(p, skip) := checkIfSkip p 34 in
  let p := add p OP_str in
  let p := pin p i in
  pin p skip.

(* compileUnmarshalEnd for a pointer type *)
Definition compileUnmarshalEnd_ptr (p : prog) (i : nat) : prog :=
  let j := pc p in
  let p := add p OP_goto in
  let p := pin p i in
  let p := add p OP_nil_1 in
  pin p j.

(* checkMarshaler(p, vt, flags = 0, exec = true): true when vt is handled by an unmarshaler *)
Definition checkMarshaler (p : prog) (vt : ty) : option prog :=
  match vt with
  | TRaw | TUnm =>                       (* pt implements json.Unmarshaler *)
    let p := add p OP_lspace in Some (rtti p OP_unmarshal_p vt 0)
  | TText =>                             (* pt implements encoding.TextUnmarshaler: compileUnmarshalTextPtr *)
    let p := add p OP_lspace in
    let i := pc p in
    let p := add p OP_is_null in
    let p := chr p OP_match_char 34 in
    let p := rtti p OP_unmarshal_text_p vt 0 in
    Some (pin p i)
  | TPtr (TRaw | TUnm) =>                (* vt implements json.Unmarshaler: compileUnmarshalJson *)
    let p := add p OP_lspace in
    let i := pc p in
    let p := add p OP_is_null in
    let p := rtti p OP_unmarshal vt 0 in
    Some (compileUnmarshalEnd_ptr p i)
  | TPtr TText =>                        (* vt implements encoding.TextUnmarshaler: compileUnmarshalText *)
    let p := add p OP_lspace in
    let i := pc p in
    let p := add p OP_is_null in
    let p := chr p OP_match_char 34 in
    let p := rtti p OP_unmarshal_text vt 0 in
    Some (compileUnmarshalEnd_ptr p i)
  | _ => None
  end.

(* compileStructFieldStr for the kinds that can be stringized (the resolver sets the flag only for them) *)
Definition compileStructFieldStr_scalar (p : prog) (vt : ty) : prog :=
  let is_ptr := match vt with TPtr _ => true | _ => false end in
  let base := match vt with TPtr e => e | _ => vt end in
  let p := add p OP_lspace in
  let n0 := pc p in
  let p := add p OP_is_null in
  let '(p, skip) := checkIfSkip p 34 in
  let n1 := pc p in
  let p := add p OP_is_null_quote in
  let p := if is_ptr then rtt p OP_deref base else p in
  let n2 := pc p in
  let p := chr p OP_check_char_0 34 in
  let p := match base with
           | TBool => add p OP_bool
           | TInt k => add p (op_of_ikind k)
           | TF32 => add p OP_f32
           | TF64 => add p OP_f64
           | TNum => add p OP_num
           | _ => add p OP_unquote           (* string *)
           end in
  let p := match base with TStr => p | _ => chr p OP_match_char 34 end in
  if negb is_ptr then
    let p := pin p n1 in
    let pc2 := pc p in
    let p := add p OP_goto in
    let p := pin p n2 in
    let p := rtt p OP_dismatch_err TBool in
    let p := int_ p OP_add 1 in
    let p := pin p pc2 in
    let p := pin p n0 in
    pin p skip
  else
    let pc1 := pc p in
    let p := add p OP_goto in
    let p := pin p n0 in
    let p := pin p n1 in
    let p := add p OP_nil_1 in
    let pc2 := pc p in
    let p := add p OP_goto in
    let p := pin p n2 in
    let p := rtt p OP_dismatch_err TBool in
    let p := int_ p OP_add 1 in
    let p := pin p pc1 in
    let p := pin p pc2 in
    pin p skip.

Fixpoint index_fm (names : list bytes) (i : nat) : list (bytes * nat) :=
  match names with [] => [] | n :: r => (n, i) :: index_fm r (S i) end.

(* compileSliceBody: `one` is compileOne(sp+1, et) *)
Definition compileSliceBody (et : ty) (one : prog -> prog) (p : prog) : prog :=
  let p := add p OP_lspace in
  let j := pc p in
  let p := chr p OP_check_empty 93 in
  let p := rtt p OP_slice_init et in
  let p := add p OP_save in
  let p := rtt p OP_slice_append et in
  let p := one p in
  let p := add p OP_load in
  let k0 := pc p in
  let p := add p OP_lspace in
  let k1 := pc p in
  let p := chr p OP_check_char 93 in
  let p := chr p OP_match_char 44 in
  let p := rtt p OP_slice_append et in
  let p := one p in
  let p := add p OP_load in
  let p := int_ p OP_goto k0 in
  let p := pin p k1 in
  let p := add p OP_drop in
  pin p j.

(* compileOne = recursion check (not needed: the universe has no recursive types), checkMarshaler, else
   lspace + compileOps *)
Notation "'ONE' rec sp t p" :=
  (match checkMarshaler p t with Some p' => p' | None => rec sp t (add p OP_lspace) end)
  (at level 10, rec at level 9, sp at level 9, t at level 9, p at level 9).

Fixpoint compileOps (sp : nat) (vt : ty) (p : prog) {struct vt} : prog :=
  match vt with
  | TBool => compilePrimitive p OP_bool
  | TInt k => compilePrimitive p (op_of_ikind k)
  | TF32 => compilePrimitive p OP_f32
  | TF64 => compilePrimitive p OP_f64
  | TNum => compilePrimitive p OP_num
  | TStr => compileStringBody p
  | TAny =>                                        (* compileInterface *)
    let i := pc p in
    let p := add p OP_is_null in
    let p := add p OP_any in
    let j := pc p in
    let p := add p OP_goto in
    let p := pin p i in
    let p := add p OP_nil_2 in
    pin p j
  | TArr n e =>                                    (* compileArray *)
    let x := pc p in
    let p := add p OP_is_null in
    let '(p, skip) := checkIfSkip p 91 in
    let p := add p OP_save in
    let p := add p OP_lspace in
    let v0 := pc p in
    let p := chr p OP_check_char 93 in
    let '(p, v) :=
      (fix items (k : nat) (p : prog) (v : list nat) : prog * list nat :=
         match k with
         | O => (p, v)
         | S k' =>
           let p := ONE compileOps (S sp) e p in
           let p := add p OP_load in
           let p := int_ p OP_index (S (n - k)) in     (* i * elem size: here the element number i *)
           let p := add p OP_lspace in
           let v := v ++ [pc p] in
           let p := chr p OP_check_char 93 in
           let p := chr p OP_match_char 44 in
           items k' p v
         end) n p [v0] in
    let p := add p OP_array_skip in
    let w := pc p in
    let p := add p OP_goto in
    let p := rel p v in
    let p := rtti p OP_array_clear e 0 in             (* array_clear / array_clear_p: not distinguished *)
    let p := pin p w in
    let p := add p OP_drop in
    let p := pin p skip in
    pin p x
  | TBytes =>                                      (* compileSliceBin *)
    let i := pc p in
    let p := add p OP_is_null in
    let j := pc p in
    let p := chr p OP_check_char 91 in
    let '(p, skip) := checkIfSkip p 34 in
    let k := pc p in
    let p := chr p OP_check_char 34 in
    let p := add p OP_bin in
    let x := pc p in
    let p := add p OP_goto in
    let p := pin p j in
    let p := compileSliceBody (TInt U8) (fun p => compilePrimitive (add p OP_lspace) OP_u8) p in
    let y := pc p in
    let p := add p OP_goto in
    let p := pin p i in
    let p := add p OP_nil_3 in
    let y2 := pc p in
    let p := add p OP_goto in
    let p := pin p k in
    let p := add p OP_empty_bytes in
    let p := pin p x in
    let p := pin p skip in
    let p := pin p y in
    pin p y2
  | TSlice e =>                                    (* compileSliceList *)
    let i := pc p in
    let p := add p OP_is_null in
    let '(p, skip) := checkIfSkip p 91 in
    let p := compileSliceBody e (fun p => ONE compileOps (S sp) e p) p in
    let x := pc p in
    let p := add p OP_goto in
    let p := pin p i in
    let p := add p OP_nil_3 in
    let p := pin p x in
    pin p skip
  | TMap k e =>                                    (* compileMapOp *)
    let o := map_key_op k in
    let i := pc p in
    let p := add p OP_is_null in
    let '(p, skip) := checkIfSkip p 123 in
    let p := add p OP_save in
    let p := add p OP_map_init in
    let p := add p OP_save in
    let p := add p OP_lspace in
    let j := pc p in
    let p := chr p OP_check_char 125 in
    let p := chr p OP_match_char 34 in
    let skip2 := pc p in
    let p := rtt p o vt in
    let p := add p OP_lspace in
    let p := chr p OP_match_char 58 in
    let p := ONE compileOps (S (S sp)) e p in
    let p := pin p skip2 in
    let p := add p OP_load in
    let k0 := pc p in
    let p := add p OP_lspace in
    let k1 := pc p in
    let p := chr p OP_check_char 125 in
    let p := chr p OP_match_char 44 in
    let p := add p OP_lspace in
    let p := chr p OP_match_char 34 in
    let skip3 := pc p in
    let p := rtt p o vt in
    let p := add p OP_lspace in
    let p := chr p OP_match_char 58 in
    let p := ONE compileOps (S (S sp)) e p in
    let p := pin p skip3 in
    let p := add p OP_load in
    let p := int_ p OP_goto k0 in
    let p := pin p j in
    let p := pin p k1 in
    let p := add p OP_drop_2 in
    let x := pc p in
    let p := add p OP_goto in
    let p := pin p i in
    let p := add p OP_nil_1 in
    let p := pin p skip in
    pin p x
  | TPtr e0 =>                                     (* compilePtr *)
    let i := pc p in
    let p := add p OP_is_null in
    (* dereference all the way down: the first level is the pointer type itself, whose marshaler check already
       failed in compileOne; every further pointer level is checked; a hit returns after pinning i to a nil_1
       (before fix fac5479 it returned without pinning i: the null branch jumped to L_0) *)
    let p := rtt p OP_deref e0 in
    (fix down (et : ty) (p : prog) {struct et} : prog :=
       match et with
       | TPtr e' =>
         match checkMarshaler p et with
         | Some p' =>                                (* since fix fac5479 the null test at i gets its target here too *)
           let j := pc p' in
           let p' := add p' OP_goto in
           let p' := pin p' i in
           let p' := add p' OP_nil_1 in
           pin p' j
         | None => down e' (rtt p OP_deref e')
         end
       | _ =>
         let p := add p OP_lspace in
         let p := compileOps sp et p in
         let j := pc p in
         let p := add p OP_goto in
         let p := pin p i in
         let p := add p OP_nil_1 in
         pin p j
       end) e0 p
  | TStruct fs =>                                  (* compileStruct / compileStructBody *)
    if Nat.leb MaxInlineDepth sp then rtt p OP_recurse vt
    else
      let n := pc p in
      let p := add p OP_is_null in
      let j := pc p in
      let p := chr p OP_check_char_0 123 in
      let p := rtt p OP_dismatch_err TBool in
      match fs with
      | FNil =>
        let p := pin p j in
        let s := pc p in
        let p := add p OP_skip_emtpy in
        let p := pin p s in
        pin p n
      | _ =>
        let fm := index_fm (fnames fs) 0 in
        let skip := pc p in
        let p := add p OP_go_skip in
        let p := pin p j in
        let p := int_ p OP_add 1 in
        let p := add p OP_save in
        let p := add p OP_lspace in
        let x := pc p in
        let p := chr p OP_check_char 125 in
        let p := chr p OP_match_char 34 in
        let p := fmv p fm in
        let p := add p OP_lspace in
        let p := chr p OP_match_char 58 in
        let sw1 := pc p in
        let p := tab p in
        let p := add p OP_object_next in
        let y0 := pc p in
        let p := add p OP_lspace in
        let y1 := pc p in
        let p := chr p OP_check_char 125 in
        let p := chr p OP_match_char 44 in
        let p := add p OP_lspace in
        let p := chr p OP_match_char 34 in
        let p := fmv p fm in
        let p := add p OP_lspace in
        let p := chr p OP_match_char 58 in
        let sw2 := pc p in
        let p := tab p in
        let p := add p OP_object_next in
        let p := int_ p OP_goto y0 in
        let '(p, sw) := compileFields (S sp) y0 fs p [] in
        let setsw := fun x => mkI (i_op x) (length sw) (i_vb x) sw (i_fm x) (i_t x) in
        let p := upd (upd p sw1 setsw) sw2 setsw in
        let p := pin p x in
        let p := pin p y1 in
        let p := add p OP_drop in
        let p := pin p n in
        pin p skip
      end
  | TRaw | TUnm | TText => p                       (* always taken by checkMarshaler before *)
  end
with compileFields (sp : nat) (y0 : nat) (fs : fields) (p : prog) (sw : list nat) {struct fs} : prog * list nat :=
  match fs with
  | FNil => (p, sw)
  | FCons _ q t r =>
    let sw := sw ++ [pc p] in
    let p := int_ p OP_index (length sw - 1) in        (* field offset: here the field number *)
    let p := if q && quotable t then compileStructFieldStr_scalar p t else ONE compileOps sp t p in
    let p := add p OP_load in
    let p := int_ p OP_goto y0 in
    compileFields sp y0 r p sw
  end.

Definition compileOne (sp : nat) (vt : ty) (p : prog) : prog := ONE compileOps sp vt p.

(* _Compiler.compile *)
Definition compile (vt : ty) : prog := compileOne 0 vt [].
