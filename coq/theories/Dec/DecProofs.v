(* Dec/DecProofs.v - agreement of the two binders on the proved fragment. *)
From Coq Require Import NArith ZArith List Bool Lia.
From SV.Dec Require Import Ty Val Parse Text Num Common FieldMap FieldMapProofs FieldLookup Range StdBind SonicBind.
Import ListNotations.
Open Scope N_scope.

Arguments sunq : simpl never.
Arguments sonic_int : simpl never.
Arguments sonic_number_any : simpl never.
Arguments std_number_any : simpl never.
Arguments sonic_f64 : simpl never.

(* ---- induction over document trees ---- *)
Section JvInd.
  Variable P : jv -> Prop.
  Hypothesis Hnull : P JNull.
  Hypothesis Htrue : P JTrue.
  Hypothesis Hfalse : P JFalse.
  Hypothesis Hnum : forall t, P (JNum t).
  Hypothesis Hstr : forall b, P (JStr b).
  Hypothesis Harr : forall raw l, Forall P l -> P (JArr raw l).
  Hypothesis Hobj : forall raw l, Forall (fun kv => P (snd kv)) l -> P (JObj raw l).

  Fixpoint jv_ind2 (j : jv) : P j :=
    match j with
    | JNull => Hnull | JTrue => Htrue | JFalse => Hfalse
    | JNum t => Hnum t | JStr b => Hstr b
    | JArr raw l => Harr raw l ((fix go (l : list jv) : Forall P l :=
                                  match l with [] => Forall_nil _ | x :: r => Forall_cons _ (jv_ind2 x) (go r) end) l)
    | JObj raw l => Hobj raw l ((fix go (l : list (bytes * jv)) : Forall (fun kv => P (snd kv)) l :=
                                  match l with [] => Forall_nil _ | x :: r => Forall_cons _ (jv_ind2 (snd x)) (go r) end) l)
    end.
End JvInd.

(* ---- what the statement assumes about the document ---- *)
(* all string bodies (values and keys) and all number texts of a tree *)
Fixpoint jv_strings (j : jv) : list bytes :=
  match j with
  | JStr b => [b]
  | JArr _ l => flat_map jv_strings l
  | JObj _ l => flat_map (fun kv => fst kv :: jv_strings (snd kv)) l
  | _ => []
  end.

Fixpoint jv_nums (j : jv) : list bytes :=
  match j with
  | JNum t => [t]
  | JArr _ l => flat_map jv_nums l
  | JObj _ l => flat_map (fun kv => jv_nums (snd kv)) l
  | _ => []
  end.

Section Agree.
  Variable h : bytes -> N.
  Variable o : opts.

  (* a string body on which sonic's unquoting (raw copy of non-ASCII bytes, control characters allowed unless
     ValidateString) and encoding/json's (coercion to well-formed UTF-8, control characters refused) coincide,
     which decodes to an ASCII text when it is used as an object key, and which is a number text exactly when
     its decoded form is one (json.Number destinations accept quoted numbers) *)
  Definition str_ok (b : bytes) : Prop :=
    sunq Jit o b = unq b /\
    match unq b with
    | Some s => if is_number_text b then s = b else is_number_text s = false
    | None => is_number_text b = false
    end.

  Definition key_ok (b : bytes) : Prop := forall s, unq b = Some s -> is_ascii s = true.

  Fixpoint jv_keys (j : jv) : list bytes :=
    match j with
    | JArr _ l => flat_map jv_keys l
    | JObj _ l => flat_map (fun kv => fst kv :: jv_keys (snd kv)) l
    | _ => []
    end.

  Record guards (j : jv) : Prop := {
    g_str : Forall str_ok (jv_strings j);
    g_key : Forall key_ok (jv_keys j);
    g_num : Forall (fun t => minus_zero t = false) (jv_nums j)
  }.

  Lemma guards_arr : forall raw l, guards (JArr raw l) -> Forall guards l.
  Proof.
    intros raw l [G1 G2 G3]. simpl in *. induction l as [|x r IH]; constructor.
    - simpl in *. apply Forall_app in G1 as [? ?]. apply Forall_app in G2 as [? ?]. apply Forall_app in G3 as [? ?].
      constructor; assumption.
    - simpl in *. apply Forall_app in G1 as [? ?]. apply Forall_app in G2 as [? ?]. apply Forall_app in G3 as [? ?].
      apply IH; assumption.
  Qed.

  Lemma guards_obj : forall raw l, guards (JObj raw l) ->
    Forall (fun kv => str_ok (fst kv) /\ key_ok (fst kv) /\ guards (snd kv)) l.
  Proof.
    intros raw l [G1 G2 G3]. simpl in *. induction l as [|[k x] r IH]; constructor.
    - simpl in *. inversion G1 as [|? ? Hk G1']; subst. inversion G2 as [|? ? Hk2 G2']; subst.
      apply Forall_app in G1' as [? ?]. apply Forall_app in G2' as [? ?]. apply Forall_app in G3 as [? ?].
      split; [assumption|]. split; [assumption|]. constructor; assumption.
    - simpl in *. inversion G1 as [|? ? Hk G1']; subst. inversion G2 as [|? ? Hk2 G2']; subst.
      apply Forall_app in G1' as [? ?]. apply Forall_app in G2' as [? ?]. apply Forall_app in G3 as [? ?].
      apply IH; assumption.
  Qed.

  Lemma strict_arr : forall raw l, strict_jv (JArr raw l) = true -> Forall (fun x => strict_jv x = true) l.
  Proof. intros raw l H. simpl in H. rewrite forallb_forall in H. apply Forall_forall. exact H. Qed.

  Lemma strict_obj : forall raw l, strict_jv (JObj raw l) = true ->
    Forall (fun kv => (exists s, unq (fst kv) = Some s) /\ strict_jv (snd kv) = true) l.
  Proof.
    intros raw l H. simpl in H. rewrite forallb_forall in H. apply Forall_forall. intros kv Hin.
    specialize (H kv Hin). unfold unq. destruct (unquote true true (fst kv)) as [s|]; [|discriminate].
    split; [exists s; reflexivity|exact H].
  Qed.

  (* ---- numbers ---- *)
  Lemma f64_agree : forall t, minus_zero t = false -> sonic_f64 t = fres_val (f64_of_text t).
  Proof. intros t H. unfold sonic_f64. rewrite H. reflexivity. Qed.

  Lemma number_any_agree : forall t, minus_zero t = false -> sonic_number_any o t = std_number_any o t.
  Proof.
    intros t H. unfold sonic_number_any, std_number_any. rewrite (f64_agree t H).
    destruct (o_use_number o); [reflexivity|]. destruct (o_use_int64 o); [|reflexivity].
    destruct (int_of_text t); reflexivity.
  Qed.

  Lemma int_agree : forall k j v, sonic_int k j v = std_int k j v.
  Proof.
    intros k j v. unfold sonic_int, std_int. destruct j; try reflexivity.
    destruct (int_of_text text); [|reflexivity]. rewrite range_op_spec. reflexivity.
  Qed.

  (* ---- interface{} ---- *)
  Lemma any_agree : forall j, strict_jv j = true -> guards j -> sonic_any Jit o j = std_any o j.
  Proof.
    induction j as [| | |t|b|raw l IH|raw l IH] using jv_ind2; intros S G; simpl sonic_any; simpl std_any; try reflexivity.
    - destruct G as [_ _ G3]. simpl in G3. inversion G3; subst. apply number_any_agree. assumption.
    - destruct G as [G1 _ _]. simpl in G1. inversion G1 as [|? ? [Hs _] _]; subst. rewrite Hs. reflexivity.
    - pose proof (guards_arr _ _ G) as GA. pose proof (strict_arr _ _ S) as SA.
      assert (E : (fix go (l0 : list jv) : res (list val) :=
                     match l0 with [] => Ok [] | x :: r => do v <- sonic_any Jit o x; do vs <- go r; Ok (v :: vs) end) l =
                  (fix go (l0 : list jv) : res (list val) :=
                     match l0 with [] => Ok [] | x :: r => do v <- std_any o x; do vs <- go r; Ok (v :: vs) end) l).
      { clear S G. induction l as [|x r IHl]; [reflexivity|].
        inversion IH; subst. inversion GA; subst. inversion SA; subst.
        rewrite H1 by assumption. rewrite IHl by assumption. reflexivity. }
      rewrite E. reflexivity.
    - pose proof (guards_obj _ _ G) as GO. pose proof (strict_obj _ _ S) as SO.
      assert (E : forall acc,
                  (fix go (l0 : list (bytes * jv)) (acc : list (val * val)) : res (list (val * val)) :=
                     match l0 with
                     | [] => Ok acc
                     | (k, x) :: r => match sunq Jit o k with None => Err | Some ks => do v <- sonic_any Jit o x; go r (map_set acc (VStr ks) v) end
                     end) l acc =
                  (fix go (l0 : list (bytes * jv)) (acc : list (val * val)) : res (list (val * val)) :=
                     match l0 with
                     | [] => Ok acc
                     | (k, x) :: r => match unq k with None => Err | Some ks => do v <- std_any o x; go r (map_set acc (VStr ks) v) end
                     end) l acc).
      { clear S G. induction l as [|[k x] r IHl]; intro acc; [reflexivity|].
        inversion IH; subst. inversion GO as [|? ? [[Hk _] [_ Gx]] GO']; subst. inversion SO as [|? ? [_ Sx] SO']; subst.
        simpl in *. rewrite Hk. destruct (unq k); [|reflexivity]. rewrite H1 by assumption.
        destruct (std_any o x); simpl; try reflexivity. apply IHl; assumption. }
      rewrite E. reflexivity.
  Qed.

  (* ---- the fragment ---- *)
  Fixpoint nodupb (l : list bytes) : bool :=
    match l with [] => true | x :: r => negb (existsb (bytes_eqb x) r) && nodupb r end.

  Lemma nodupb_NoDup : forall l, nodupb l = true -> NoDup l.
  Proof.
    induction l as [|x r IH]; intro H; [constructor|]. simpl in H. apply andb_prop in H as [H1 H2].
    constructor; [|apply IH; exact H2]. intro K. apply negb_true_iff in H1.
    assert (existsb (bytes_eqb x) r = true) by (apply existsb_exists; exists x; split; [exact K|apply bytes_eqb_refl]).
    congruence.
  Qed.

  Fixpoint frag (t : ty) : bool :=
    match t with
    | TBool | TInt _ | TF64 | TStr | TNum | TAny => true
    | TPtr e | TSlice e | TArr _ e => frag e
    | TStruct fs => frag_fields fs && nodupb (fnames fs)
    | _ => false
    end
  with frag_fields (fs : fields) : bool :=
    match fs with
    | FNil => true
    | FCons n q t r => negb q && is_ascii n && frag t && frag_fields r
    end.

  Lemma frag_fields_ascii : forall fs, frag_fields fs = true -> Forall (fun n => is_ascii n = true) (fnames fs).
  Proof.
    induction fs as [|n q t r IH]; intro H; simpl; [constructor|]. simpl in H.
    apply andb_prop in H as [H Hr]. apply andb_prop in H as [H Ht]. apply andb_prop in H as [Hq Hn].
    constructor; [exact Hn|apply IH; exact Hr].
  Qed.

  Lemma bind_elems_ext : forall (f g : jv -> val -> res val) z l old,
    Forall (fun x => forall v, f x v = g x v) l -> bind_elems f z l old = bind_elems g z l old.
  Proof.
    intros f g z l. induction l as [|x r IH]; intros old H; simpl; [reflexivity|].
    inversion H; subst. rewrite H2. destruct (g x _); simpl; try reflexivity.
    rewrite IH by assumption. reflexivity.
  Qed.

  Lemma Forall_firstn : forall A (P : A -> Prop) n l, Forall P l -> Forall P (firstn n l).
  Proof.
    intros A P n. induction n as [|n IH]; intros l H; simpl; [constructor|].
    destruct l; [constructor|]. inversion H; subst. constructor; auto.
  Qed.

  Definition Pty (t : ty) : Prop :=
    frag t = true -> forall j v, strict_jv j = true -> guards j -> sonic_bind h Jit o t j v = std_bind o t j v.
  Definition Pfs (fs : fields) : Prop :=
    frag_fields fs = true -> forall i j vs, strict_jv j = true -> guards j ->
    sonic_field h Jit o fs i j vs = std_field o fs i j vs.

  Lemma elems_agree : forall e l, Pty e -> frag e = true ->
    Forall (fun x => strict_jv x = true) l -> Forall guards l ->
    Forall (fun x => forall v, sonic_bind h Jit o e x v = std_bind o e x v) l.
  Proof.
    intros e l IH F S G. induction l as [|x r IHl]; constructor.
    - inversion S; inversion G; subst. intro v. apply IH; assumption.
    - inversion S; inversion G; subst. apply IHl; assumption.
  Qed.

  Theorem bind_agree_all : (forall t, Pty t) /\ (forall fs, Pfs fs).
  Proof.
    Ltac step := cbn [sonic_bind std_bind sonic_field std_field is_opt negb andb fnames sonic_f32 is_fnil].
    assert (H : forall t, Pty t); [|split; [exact H|]].
    - apply (ty_mut Pty Pfs); unfold Pty, Pfs.
      + (* TBool *) intros _ j v _ _. destruct j; reflexivity.
      + (* TInt *) intros k _ j v _ _. step. apply int_agree.
      + (* TF32 *) intros F. discriminate.
      + (* TF64 *) intros _ j v _ G. destruct j; try reflexivity. step.
        destruct G as [_ _ G3]. simpl in G3. inversion G3; subst. apply f64_agree. assumption.
      + (* TStr *) intros _ j v _ G. destruct j; try reflexivity. step.
        destruct G as [G1 _ _]. simpl in G1. inversion G1 as [|? ? [Hs _] _]; subst. rewrite Hs. reflexivity.
      + (* TNum *) intros _ j v _ G. destruct j; try reflexivity. step.
        destruct G as [G1 _ _]. simpl in G1. inversion G1 as [|? ? [_ Hn] _]; subst.
        destruct (unq body) as [s|].
        * destruct (is_number_text body) eqn:E.
          -- subst s. rewrite E. reflexivity.
          -- rewrite Hn. reflexivity.
        * rewrite Hn. reflexivity.
      + (* TBytes *) intros F. discriminate.
      + (* TSlice *) intros e IH F j v S G. simpl in F. destruct j; try reflexivity. step.
        destruct l as [|x r]; [reflexivity|].
        rewrite (bind_elems_ext (sonic_bind h Jit o e) (std_bind o e)); [reflexivity|].
        apply elems_agree; auto; [apply (strict_arr _ _ S)|apply (guards_arr _ _ G)].
      + (* TArr *) intros n e IH F j v S G. simpl in F. destruct j; try reflexivity. step.
        rewrite (bind_elems_ext (sonic_bind h Jit o e) (std_bind o e)); [reflexivity|].
        apply Forall_firstn. apply elems_agree; auto; [apply (strict_arr _ _ S)|apply (guards_arr _ _ G)].
      + (* TMap *) intros k e _ F. discriminate.
      + (* TPtr *) intros e IH F j v S G. simpl in F. step.
        destruct j; try reflexivity; rewrite IH by assumption; reflexivity.
      + (* TStruct *) intros fs IH F j v S G. simpl in F. apply andb_prop in F as [Ff Fn].
        destruct j; try reflexivity. step.
        pose proof (guards_obj _ _ G) as GO. pose proof (strict_obj _ _ S) as SO.
        pose proof (nodupb_NoDup _ Fn) as ND. pose proof (frag_fields_ascii _ Ff) as AS.
        set (vs0 := match v with VList vs _ => vs | _ => zero_fields fs end).
        (* the member loops agree *)
        assert (E : forall vs,
          (fix go (l0 : list (bytes * jv)) (vs1 : list val) : res (list val) :=
             match l0 with
             | [] => Ok vs1
             | (kb, x) :: r =>
               match sunq Jit o kb with
               | None => Err
               | Some ks => match sonic_lookup h (fnames fs) ks with
                            | None => if o_disallow_unknown o then Err else go r vs1
                            | Some i => do vs' <- sonic_field h Jit o fs i x vs1; go r vs'
                            end
               end
             end) l vs =
          (fix go (l0 : list (bytes * jv)) (vs1 : list val) : res (list val) :=
             match l0 with
             | [] => Ok vs1
             | (kb, x) :: r =>
               match unq kb with
               | None => Err
               | Some ks => match std_lookup (fnames fs) ks with
                            | None => if o_disallow_unknown o then Err else go r vs1
                            | Some i => do vs' <- std_field o fs i x vs1; go r vs'
                            end
               end
             end) l vs).
        { clear S G. induction l as [|[kb x] r IHl]; intro vs; [reflexivity|].
          inversion GO as [|? ? [[Hk _] [Hkey Gx]] GO']; subst. inversion SO as [|? ? [_ Sx] SO']; subst.
          simpl in *. rewrite Hk. destruct (unq kb) as [ks|] eqn:U; [|reflexivity].
          rewrite (field_lookup_std h (fnames fs) ks ND AS (Hkey ks U)).
          destruct (std_lookup (fnames fs) ks) as [i|].
          - rewrite (IH Ff i x vs Sx Gx). destruct (std_field o fs i x vs); simpl; try reflexivity. apply IHl; assumption.
          - destruct (o_disallow_unknown o); [reflexivity|]. apply IHl; assumption. }
        destruct fs as [|n q t r].
        * (* no field: sonic skips the object, encoding/json walks it without storing anything *)
          clear E. assert (E0 : forall vs,
            (fix go (l0 : list (bytes * jv)) (vs1 : list val) : res (list val) :=
               match l0 with
               | [] => Ok vs1
               | (kb, x) :: r =>
                 match unq kb with
                 | None => Err
                 | Some ks => match std_lookup (fnames FNil) ks with
                              | None => if o_disallow_unknown o then Err else go r vs1
                              | Some i => do vs' <- std_field o FNil i x vs1; go r vs'
                              end
                 end
               end) l vs = if o_disallow_unknown o then (match l with [] => Ok vs | _ => Err end) else Ok vs).
          { clear S G GO. induction l as [|[kb x] r IHl]; intro vs.
            - destruct (o_disallow_unknown o); reflexivity.
            - inversion SO as [|? ? [[s Hs] _] SO']; subst. simpl in Hs. rewrite Hs. step.
              destruct (o_disallow_unknown o) eqn:D; [reflexivity|]. rewrite IHl by assumption. reflexivity. }
          cbn [is_fnil]. rewrite E0. destruct (o_disallow_unknown o) eqn:D; [|reflexivity].
          destruct l; reflexivity.
        * cbn [is_fnil]. rewrite E. reflexivity.
      + (* TAny *) intros _ j v S G. step. destruct j; try reflexivity; apply any_agree; assumption.
      + (* TRaw *) intros F. discriminate.
      + (* TUnm *) intros F. discriminate.
      + (* TText *) intros F. discriminate.
      + (* FNil *) intros _ i j vs _ _. reflexivity.
      + (* FCons *) intros n q t IHt r IHr F i j vs S G. simpl in F.
        apply andb_prop in F as [F Fr]. apply andb_prop in F as [F Ft]. apply andb_prop in F as [Fq Fn].
        apply negb_true_iff in Fq. subst q. step.
        destruct vs as [|v vr]; [reflexivity|]. destruct i as [|i].
        * rewrite IHt by assumption. reflexivity.
        * rewrite IHr by assumption. reflexivity.
    - intro fs. induction fs as [|n q t r IHr]; unfold Pfs in *.
      + intros _ i j vs _ _. reflexivity.
      + intros F i j vs S G. simpl in F.
        apply andb_prop in F as [F Fr]. apply andb_prop in F as [F Ft]. apply andb_prop in F as [Fq Fn].
        apply negb_true_iff in Fq. subst q. step.
        destruct vs as [|v vr]; [reflexivity|]. destruct i as [|i].
        * rewrite (H t Ft) by assumption. reflexivity.
        * rewrite IHr by assumption. reflexivity.
  Qed.
End Agree.

(* ---- whole-input statement ---- *)
Section Top.
  Variable h : bytes -> N.
  Variable o : opts.

  (* the domain of the property: under ValidateString (ConfigStd) every input whose bytes are well-formed UTF-8
     (ill-formed input is rewritten first: finding utf8-raw); without it (ConfigDefault) inputs whose string
     literals contain no raw control characters, i.e. on which the reader that refuses them and the one that
     does not coincide *)
  Definition input_ok (s : bytes) : Prop :=
    if o_validate o then utf8_valid s = true else lparse false s = lparse true s.

  (* the documented leniency: the document is structurally well formed, some string body is lexically
     invalid, and sonic either decoded it without touching that body, or (ValidateString) the outcome depends
     on where the body sits relative to the end of the input *)
  Definition skipped_only_structural (t : ty) (s : bytes) (v : val) : Prop :=
    exists j, lparse (o_validate o) s = Some j /\ strict_jv j = false /\
              (sonic_unmarshal h Jit o t s v = Unk \/ sonic_unmarshal h Jit o t s v = sonic_bind h Jit o t j v).

  Theorem bind_agree_top : forall t s v,
    frag t = true -> input_ok s -> (forall j, parse s = Some j -> guards o j) ->
    match parse s with
    | Some j => sonic_unmarshal h Jit o t s v = std_unmarshal o t s v
    | None => std_unmarshal o t s v = Err /\
              (sonic_unmarshal h Jit o t s v = Err \/ skipped_only_structural t s v)
    end.
  Proof.
    intros t s v F I G. unfold skipped_only_structural. unfold std_unmarshal, sonic_unmarshal, parse in *. unfold input_ok in I.
    destruct (o_validate o) eqn:V.
    - (* ValidateString *)
      rewrite I. destruct (lparse true s) as [j|] eqn:L.
      + destruct (strict_jv j) eqn:S.
        * simpl. apply (proj1 (bind_agree_all h o)); auto.
        * split; [reflexivity|]. simpl.
          destruct (sonic_bind h Jit o t j v) eqn:B.
          -- right. exists j. split; [reflexivity|]. split; [exact S|]. left. reflexivity.
          -- left. reflexivity.
          -- right. exists j. split; [reflexivity|]. split; [exact S|]. left. reflexivity.
      + split; [reflexivity|]. left. reflexivity.
    - (* default *)
      rewrite I. destruct (lparse true s) as [j|] eqn:L.
      + destruct (strict_jv j) eqn:S.
        * simpl. apply (proj1 (bind_agree_all h o)); auto.
        * split; [reflexivity|]. right. exists j. split; [reflexivity|]. split; [exact S|]. right. reflexivity.
      + split; [reflexivity|]. left. reflexivity.
  Qed.
End Top.

(* ---- the guards are satisfiable: printable ASCII bodies without backslash and quote decode to themselves ---- *)
Definition plain_byte (c : N) : bool := (32 <=? c) && (c <? 128) && negb (c =? 34) && negb (c =? 92).

Lemma unquote_plain : forall fuel coerce ctl b, forallb plain_byte b = true -> (length b <= fuel)%nat ->
  unquote_f fuel coerce ctl b = Some b.
Proof.
  induction fuel as [|f IH]; intros coerce ctl b P L.
  - destruct b; [reflexivity|simpl in L; lia].
  - destruct b as [|c r]; [reflexivity|]. simpl in P. apply andb_prop in P as [Pc Pr]. simpl in L.
    unfold plain_byte in Pc. apply andb_prop in Pc as [Pc P92]. apply andb_prop in Pc as [Pc P34].
    apply andb_prop in Pc as [P32 P128]. apply negb_true_iff in P92, P34.
    cbn [unquote_f]. rewrite P92, P34.
    assert ((c <? 32) = false) as -> by (apply N.ltb_ge; apply N.leb_le; exact P32).
    rewrite P128. rewrite IH by (auto; lia). reflexivity.
Qed.

Lemma plain_str_ok : forall o b, forallb plain_byte b = true -> str_ok o b.
Proof.
  intros o b P. unfold str_ok, sunq, unq, unquote. rewrite !unquote_plain by (auto; lia).
  split; [reflexivity|]. destruct (is_number_text b); reflexivity.
Qed.

Lemma plain_key_ok : forall b, forallb plain_byte b = true -> key_ok b.
Proof.
  intros b P s U. unfold unq, unquote in U. rewrite unquote_plain in U by (auto; lia). inversion U; subst.
  unfold is_ascii. rewrite forallb_forall in *. intros c Hc. specialize (P c Hc). unfold plain_byte in P.
  apply andb_prop in P as [P _]. apply andb_prop in P as [P _]. apply andb_prop in P as [_ P]. exact P.
Qed.
