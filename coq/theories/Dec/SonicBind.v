(* Dec/SonicBind.v - what sonic's decoders do, at the level of the document tree.
   The jitdec program of a type (Dec/Compile.v lists it) consumes the input once, left to right; every value it
   does not store is passed to the structural skipper (skip_one / skip_array: Parse.lparse is that grammar).
   A recorded type mismatch (_VAR_et) is never cleared, so - as for StdBind - the model aborts with `Err` at the
   first error.  Each clause names the compiler function / opcode it transcribes.
   Places where the implementation is known to differ from encoding/json are kept as the code has them:
     map elements are decoded into the existing element (mapassign returns the slot)       [compileMapOp]
     float32 = CVTSD2SS of the binary64 value                                               [range_single_X0]
     the text -0 gives +0                                                                        [vnumber: check_leading_zero]
     field lookup: exact, then strings.ToLower                                              [_asm_OP_struct_field]
     integer map keys are read by vsigned/vunsigned directly from the key text              [_asm_OP_map_key_*]
     pointer to pointer to T, where pointer-to-T is an unmarshaler: null branch never pinned                       [compilePtr]
   *)
From Coq Require Import NArith ZArith List Bool.
From SV.Dec Require Import Ty Val Parse Text Num Common FieldMap Range.
Import ListNotations.
Open Scope N_scope.

(* The decoder implementation: Jit = internal/decoder/jitdec (default on amd64), Opt = internal/decoder/optdec
   (SONIC_USE_OPTDEC), OptFast = optdec with SONIC_USE_FASTMAP.  The places where optdec differs *by construction*
   are explicit branches below (each names the optdec source):
     the whole document is read to a DOM first: every escape sequence is checked and a number that overflows
       binary64 is an error wherever it stands                                  [native parse_with_padding, Parser.parse]
     ill-formed UTF-8 and raw control characters inside strings: outside the model          [node.go: AsStr]
     slices: one allocation for the final length, reusing the old array only when its capacity suffices
                                                                               [slice.go, rt.MakeSlice]
     map[string]string stores the zero string on null, also over an existing entry  [map.go: mapStringDecoder, node.go: AsMapString]
     integer map keys are parsed by strconv                                    [map.go]
     SONIC_USE_FASTMAP: interface{} maps with duplicate keys are outside the model          [node.go: AsEfaceFast] *)
Inductive impl := Jit | Opt | OptFast.

Definition is_opt (im : impl) : bool := match im with Jit => false | _ => true end.

Section Sonic.
  Variable h : bytes -> N.          (* the runtime string hash: results do not depend on it (fieldmap_get_spec) *)
  Variable im : impl.
  Variable o : opts.

  (* parse_string + unquote_once: escapes decoded; with ValidateString the input was made well-formed UTF-8
     beforehand and raw control characters are rejected by the scanner, otherwise bytes are copied *)
  Definition sunq (b : bytes) : option bytes := unquote false (o_validate o && negb (is_opt im)) b.

  Definition minus_zero (t : bytes) : bool := bytes_eqb t [45; 48].

  (* vnumber: the text -0 returns early with dv = +0.0 *)
  Definition sonic_f64 (t : bytes) : res val :=
    if minus_zero t then Ok (VFlt 0) else fres_val (f64_of_text t).
  Definition sonic_f32 (t : bytes) : res val :=
    if minus_zero t then Ok (VFlt 0)
    else fres_val (f32_via_f64_of_text t).       (* optdec: float32(float64) and an infinity test, since fix 39e707a *)

  Definition sonic_number_any (t : bytes) : res val :=
    if o_use_number o then Ok (VNum t)
    else if o_use_int64 o then
      match int_of_text t with
      | Some z => if in_range I64 z then Ok (VInt z) else sonic_f64 t
      | None => sonic_f64 t
      end
    else sonic_f64 t.

  (* generic_regabi_amd64.go (decode_value) / optdec AsEface *)
  Fixpoint sonic_any (j : jv) : res val :=
    match j with
    | JNull => Ok VNil
    | JTrue => Ok (VBool true)
    | JFalse => Ok (VBool false)
    | JNum t => sonic_number_any t
    | JStr b => match sunq b with Some s => Ok (VStr s) | None => Err end
    | JArr _ l =>
      do vs <- (fix go (l : list jv) : res (list val) :=
                  match l with
                  | [] => Ok []
                  | x :: r => do v <- sonic_any x; do vs <- go r; Ok (v :: vs)
                  end) l;
      Ok (VList vs [])
    | JObj _ l =>
      do m <- (fix go (l : list (bytes * jv)) (acc : list (val * val)) : res (list (val * val)) :=
                 match l with
                 | [] => Ok acc
                 | (k, x) :: r =>
                   match sunq k with
                   | None => Err
                   | Some ks =>
                     do v <- sonic_any x;
                     match im, map_get acc (VStr ks) with
                     | OptFast, Some _ => Unk          (* AsEfaceFast with a duplicate key: which value survives is not modelled *)
                     | _, _ => go r (map_set acc (VStr ks) v)
                     end
                   end
                 end) l [];
      Ok (VMap m)
    end.

  (* _OP_i8.._OP_u64: vsigned / vunsigned then range_signed_CX / range_unsigned_CX / range_uint32_CX *)
  Definition sonic_int (k : ikind) (j : jv) (v : val) : res val :=
    match j with
    | JNull => Ok v
    | JNum t =>
      match int_of_text t with
      | Some z =>
        if negb (is_signed k) && (match t with c :: _ => c =? 45 | [] => false end) then
          Err                                                     (* vunsigned / AsU64 refuse the sign, also on -0 *)
        else if accept_op k z then Ok (VInt z) else Err           (* Range.v: the emitted range check *)
      | None => Err
      end
    | _ => Err
    end.

  (* compileStructFieldStr *)
  (* optdec parses the content of a quoted field with strconv-like routines (stringopts.go): texts outside the
     JSON number syntax are outside the model *)
  Definition not_json (r : res val) : res val := if is_opt im then Unk else r.

  Definition sonic_quoted_base (t : ty) (b : bytes) : res val :=
    match t with
    | TBool => if bytes_eqb b lit_true then Ok (VBool true) else if bytes_eqb b lit_false then Ok (VBool false) else not_json Err
    | TInt k => match int_of_text b with Some _ => sonic_int k (JNum b) (VInt 0) | None => not_json Err end
    | TF64 => if is_number_text b then sonic_f64 b else not_json Err
    | TF32 => if is_number_text b then sonic_f32 b else not_json Err
    | TNum => if is_number_text b then Ok (VStr b) else not_json Err
    | TStr =>
      (* _OP_unquote: the body must start and end with an escaped quote; unquote_twice decodes the middle twice *)
      match b with
      | c1 :: c2 :: r =>
        if (c1 =? 92) && (c2 =? 34) then
          match rev r with
          | d1 :: d2 :: m =>
            if (d1 =? 34) && (d2 =? 92) then
              match sunq (rev m) with
              | None => Err
              | Some u1 =>
                (* second pass of the native double unquote: where the strict reading fails the native routine
                   may still produce something *)
                match unquote false false u1 with
                | Some u2 => if is_opt im && existsb (fun c => c <? 32) u1 then Unk else Ok (VStr u2)
                | None => if is_opt im then Err else Unk
                end
              end
            else Err
          | _ => Err
          end
        else Err
      | _ => Err
      end
    | _ => Err
    end.

  Definition sonic_quoted (t : ty) (j : jv) (v : val) : res val :=
    match j with
    | JNull => match t with TPtr _ => Ok VNil | _ => Ok v end
    | JStr b =>
      if bytes_eqb b lit_null then (match t with TPtr _ => Ok VNil | _ => Ok v end)   (* is_null_quote *)
      else match b with
           | [] => Err                                                             (* check_char_0 on the quote *)
           | _ => match t with
                  | TPtr e => do x <- sonic_quoted_base e b; Ok (VPtr x)
                  | _ => sonic_quoted_base t b
                  end
           end
    | _ => Err
    end.

  (* _asm_OP_map_key_* *)
  Definition sonic_key (k : kty) (kb : bytes) : res val :=
    match k with
    | KStr => match sunq kb with Some s => Ok (VStr s) | None => Err end
    | KText => match sunq kb with
               | Some s => if bytes_eqb s lit_ERR then Err else Ok (VStr s)
               | None => Err
               end
    | KInt ik =>
      match int_of_text kb with
      | Some z =>
        if negb (is_signed ik) && (match kb with c :: _ => c =? 45 | [] => false end) then Err
        else if is_opt im then (if in_range ik z then Ok (VInt z) else Err)
        else if accept_map_key ik z then Ok (VInt z)            (* Range.v: the emitted range check *)
        else Err
      | None => not_json Err
      end
    end.

  (* _OP_bin: base64x in JSON mode.  Texts that the standard decoder accepts give the same bytes; texts that
     differ from those only by padding are outside the modelled fragment *)
  Definition sonic_b64 (b : bytes) : res val :=
    match sunq b with
    | None => Err
    | Some s =>
      match b64_std s with
      | Some d => if existsb (fun c => c =? 92) b then Unk else Ok (vbytes d)
      | None => if b64_chars_only s then Unk else Err
      end
    end.

  Definition is_fnil (fs : fields) : bool := match fs with FNil => true | _ => false end.

  Definition fast_slice_elem (e : ty) : bool :=
    match e with TStr | TInt I32 | TInt I64 | TInt U32 | TInt U64 => true | _ => false end.

  Fixpoint sonic_bind (t : ty) (j : jv) (v : val) {struct t} : res val :=
    match t with
    | TBool =>                                              (* compilePrimitive, _OP_bool *)
      match j with JNull => Ok v | JTrue => Ok (VBool true) | JFalse => Ok (VBool false) | _ => Err end
    | TInt k => sonic_int k j v
    | TF64 => match j with JNull => Ok v | JNum t => sonic_f64 t | _ => Err end
    | TF32 => match j with JNull => Ok v | JNum t => sonic_f32 t | _ => Err end
    | TStr =>                                               (* compileStringBody, _OP_str *)
      match j with
      | JNull => Ok v
      | JStr b => match sunq b with Some s => Ok (VStr s) | None => Err end
      | _ => Err
      end
    | TNum =>                                               (* _OP_num: also a quoted number text *)
      match j with
      | JNull => Ok v
      | JNum t => Ok (VStr t)
      | JStr b => if is_number_text b then Ok (VStr b) else not_json Err
      | _ => Err
      end
    | TBytes =>                                             (* compileSliceBin *)
      match j with
      | JNull => Ok VNil
      | JStr b => match b with [] => Ok (VList [] []) | _ => sonic_b64 b end
      | JArr _ l =>
        if is_opt im then Unk else                          (* sliceBytesDecoder: not modelled *)
        let old := match v with VList vis hid => vis ++ hid | _ => [] end in
        match l with
        | [] => Ok (VList [] [])
        | _ => do news <- bind_elems (sonic_int U8) (VInt 0) l old; Ok (VList news (skipn (length l) old))
        end
      | _ => Err
      end
    | TSlice e =>                                           (* compileSliceList / compileSliceBody *)
      match j with
      | JNull => Ok VNil
      | JArr _ l =>
        let old := match v with VList vis hid => vis ++ hid | _ => [] end in
        match l with
        | [] => Ok (VList [] [])                            (* check_empty: zero base, len = cap = 0 *)
        | _ =>
          if is_opt im then
            (* sliceDecoder / rt.MakeSlice: the old array is reused when its capacity suffices, otherwise the
               visible elements are copied into a new one (the hidden ones are lost); since fix ea591a6 the
               specialised decoders leave an element alone on null, like the generic one *)
              let old' := if Nat.leb (length l) (length old) then old
                          else match v with VList vis _ => vis | _ => [] end in
              do news <- bind_elems (sonic_bind e) (zero e) l old'; Ok (VList news (skipn (length l) old'))
          else
            do news <- bind_elems (sonic_bind e) (zero e) l old; Ok (VList news (skipn (length l) old))
        end
      | _ => Err
      end
    | TArr n e =>                                           (* compileArray: extras go to skip_array, the rest is cleared *)
      match j with
      | JNull => Ok v
      | JArr _ l =>
        let old := match v with VList vis _ => vis | _ => [] end in
        do news <- bind_elems (sonic_bind e) (zero e) (firstn n l) old;
        Ok (VList (pad_to n (zero e) news) [])
      | _ => Err
      end
    | TMap k e =>                                           (* compileMapOp *)
      match j with
      | JNull => Ok VNil
      | JObj _ l =>
        let m0 := match v with VMap m => m | _ => [] end in
        do m <- (fix go (l : list (bytes * jv)) (acc : list (val * val)) : res (list (val * val)) :=
                   match l with
                   | [] => Ok acc
                   | (kb, x) :: r =>
                     do kv <- sonic_key k kb;
                     (* mapassign returns the slot of an existing key: the element is decoded over the old one *)
                     let cur := match map_get acc kv with Some x0 => x0 | None => zero e end in
                     if is_opt im && (match k, e, x with KStr, TStr, JNull => true | _, _, _ => false end)
                     then go r (map_set acc kv (VStr []))          (* mapStringDecoder (ea591a6): null stores the zero string *)
                     else
                     do ev <- sonic_bind e x cur;
                     go r (map_set acc kv ev)
                   end) l m0;
        Ok (VMap m)
      | _ => Err
      end
    | TPtr e =>                                             (* compilePtr *)
      match j with
      | JNull => Ok VNil                                    (* every level pinned since fix fac5479 *)
      | _ => do x <- sonic_bind e j (match v with VPtr x => x | _ => zero e end); Ok (VPtr x)
      end
    | TStruct fs =>                                         (* compileStructBody *)
      match j with
      | JNull => Ok v
      | JObj _ l =>
        let names := fnames fs in
        let vs0 := match v with VList vs _ => vs | _ => zero_fields fs end in
        if is_fnil fs then                                           (* skip_emtpy: the whole object is skipped; with
                                                               DisallowUnknownFields a ':' in the skipped text is an error *)
          if o_disallow_unknown o then (match l with [] => Ok (VList vs0 []) | _ => Err end) else Ok (VList vs0 [])
        else
          do vs <- (fix go (l : list (bytes * jv)) (vs : list val) : res (list val) :=
                      match l with
                      | [] => Ok vs
                      | (kb, x) :: r =>
                        match sunq kb with                    (* _OP_struct_field: parse_string + unquote_once *)
                        | None => Err
                        | Some ks =>
                          match sonic_lookup h names ks with
                          | None => if o_disallow_unknown o then Err else go r vs     (* object_next: skip_one *)
                          | Some i => do vs' <- sonic_field fs i x vs; go r vs'
                          end
                        end
                      end) l vs0;
          Ok (VList vs [])
      | _ => Err
      end
    | TAny =>                                               (* compileInterface: is_null -> nil_2, _OP_any *)
      match j with JNull => Ok VNil | _ => sonic_any j end
    | TRaw =>                                               (* checkMarshaler: lspace; unmarshal_p (no null test) *)
      (* optdec hands a number over together with the whitespace that follows it: not visible in the tree *)
      match im, j with Jit, _ => Ok (VStr (raw_of j)) | _, JNum _ => Unk | _, _ => Ok (VStr (raw_of j)) end
    | TUnm =>
      match im, j with
      | Jit, _ => if bytes_eqb (raw_of j) lit_qERRq then Err else Ok (VStr (raw_of j))
      | _, JNum _ => Unk
      | _, _ => if bytes_eqb (raw_of j) lit_qERRq then Err else Ok (VStr (raw_of j))
      end
    | TText =>                                              (* compileUnmarshalTextPtr *)
      match j with
      | JNull => Ok v                                       (* also optdec since fix 45a923b *)
      | JStr b => match sunq b with
                  | Some s => if bytes_eqb s lit_ERR then Err else Ok (VStr s)
                  | None => Err
                  end
      | _ => Err
      end
    end
  with sonic_field (fs : fields) (i : nat) (j : jv) (vs : list val) {struct fs} : res (list val) :=
    match fs, vs with
    | FCons _ q t r, v :: vr =>
      match i with
      | O => do v' <- (if q && quotable t then sonic_quoted t j v else sonic_bind t j v); Ok (v' :: vr)
      | S i' => do vr' <- sonic_field r i' j vr; Ok (v :: vr')
      end
    | _, _ => Err
    end.

  (* Decode: with ValidateString ill-formed UTF-8 is replaced by U+FFFD in the *input text* first
     (jitdec.Decode / optdec.Decode), then one value is read and CheckTrailings allows only whitespace.
     optdec parses the whole document to a DOM with the strict reader before binding. *)
  (* numbers of a tree that overflow binary64 *)
  Fixpoint has_inf (j : jv) : bool :=
    match j with
    | JNum t =>
      (* a number below 10^300 cannot overflow: only the others need the exact conversion *)
      match dec_of_text t with
      | Some d => if (Z.of_nat (d_ndig d) + d_exp d <=? 300)%Z then false
                  else match f64_of_dec d with FBits _ => false | FInf => true end
      | None => true
      end
    | JArr _ l => existsb has_inf l
    | JObj _ l => existsb (fun kv => has_inf (snd kv)) l
    | _ => false
    end.

  Fixpoint has_ctl (j : jv) : bool :=
    match j with
    | JStr b => existsb (fun c => c <? 32) b
    | JArr _ l => existsb has_ctl l
    | JObj _ l => existsb (fun kv => existsb (fun c => c <? 32) (fst kv) || has_ctl (snd kv)) l
    | _ => false
    end.

  (* every escape sequence valid (raw control characters allowed) *)
  Fixpoint escapes_ok (j : jv) : bool :=
    match j with
    | JStr b => match unquote false false b with Some _ => true | None => false end
    | JArr _ l => forallb escapes_ok l
    | JObj _ l => forallb (fun kv => match unquote false false (fst kv) with Some _ => escapes_ok (snd kv) | None => false end) l
    | _ => true
    end.

  Definition sonic_unmarshal (t : ty) (s : bytes) (v : val) : res val :=
    let s' := if o_validate o then (if utf8_valid s then s else utf8_correct s) else s in
    if is_opt im then
      (* optdec: parse_with_padding reads the whole document first *)
      match lparse false s' with
      | Some j =>
        (* numbers are converted while the DOM is built, unless UseNumber keeps their text *)
        if negb (escapes_ok j) then Err
        else if has_inf j && o_use_number o then Unk       (* kept as text in some positions, converted in others *)
        else if negb (has_inf j) then
          (* raw control characters: refused or not depending on the option, the position (scalar tail of the native
             scanner) and the use of the string: outside the model *)
          if has_ctl j || negb (utf8_valid s) then match sonic_bind t j v with Err => Err | _ => Unk end
          else sonic_bind t j v
        else Err
      | None => Err
      end
    else
    match lparse (o_validate o) s' with
    | Some j =>
      (* with ValidateString, advance_string_validate checks escape sequences only in its scalar tail (the last
         < 32 bytes of the input seen from the start of the string), not in the 64/32-byte blocks: whether an
         invalid escape inside a *skipped* string is rejected depends on the distance to the end of the input.
         The tree model does not see positions: a binding error is an error, anything else is not modelled. *)
      if o_validate o && negb (strict_jv j) then
        match sonic_bind t j v with Err => Err | _ => Unk end
      else sonic_bind t j v
    | None => Err
    end.
End Sonic.
