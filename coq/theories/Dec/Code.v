(* Dec/Code.v - the programs of Dec/Compile.v in closed form for a recursive type fragment (scalars, string,
   json.Number, interface{}, pointers, slices, nested arbitrarily): the instruction list with every jump target
   written out as base + offset, and the proof that the label discipline of the compiler (pc / pin / rel on the
   growing program) produces exactly this list, whatever program precedes it:
       compileOps sp t p = p ++ code t (length p).
   This is what makes the programs usable in proofs: a block can be reasoned about where it sits. *)
From Coq Require Import NArith Arith List Bool Lia.
From SV.Dec Require Import Ty Compile.
Import ListNotations.
Open Scope nat_scope.

Definition I (o : op) (vi : nat) (vb : N) (t : ty) : instr := mkI o vi vb [] [] t.

(* the type fragment *)
Fixpoint ilf (t : ty) : bool :=
  match t with
  | TBool | TInt _ | TF32 | TF64 | TNum | TStr | TAny => true
  | TPtr e | TSlice e | TArr _ e => ilf e
  | _ => false
  end.

Definition prim_opc (t : ty) : op :=
  match t with
  | TBool => OP_bool | TInt k => op_of_ikind k | TF32 => OP_f32 | TF64 => OP_f64 | _ => OP_num
  end.

Fixpoint leaf (t : ty) : ty := match t with TPtr e => leaf e | _ => t end.
Fixpoint derefs (t : ty) : prog := match t with TPtr e => I OP_deref 0 0 e :: derefs e | _ => [] end.

Fixpoint clen (t : ty) : nat :=
  match t with
  | TBool | TInt _ | TF32 | TF64 | TNum => 2
  | TStr => 6
  | TAny => 4
  | TPtr e0 =>
    4 + (fix dlen (et : ty) : nat := match et with TPtr e' => S (dlen e') | _ => S (clen et) end) e0
  | TSlice e => 22 + 2 * clen e
  | TArr n e => 12 + n * (clen e + 6)
  | _ => 0
  end.


(* compileArray: the unrolled items; ce = the element's code, L = its length + 1 (with the lspace), T = the target of the
   `]` tests (0 while the program is being built, the array_clear afterwards), k items to go out of n *)
Fixpoint icode (ce : nat -> prog) (L T n k : nat) (b : nat) : prog :=
  match k with
  | O => []
  | S k' =>
    (I OP_lspace 0 0 TBool :: ce (S b)) ++
    [I OP_load 0 0 TBool; I OP_index (S (n - k)) 0 TBool; I OP_lspace 0 0 TBool; I OP_check_char T 93 TBool; I OP_match_char 0 44 TBool] ++
    icode ce L T n k' (b + L + 5)
  end.

Fixpoint code (t : ty) (b : nat) {struct t} : prog :=
  match t with
  | TBool | TInt _ | TF32 | TF64 | TNum => [I OP_is_null (b + 2) 0 TBool; I (prim_opc t) 0 0 TBool]
  | TStr => [I OP_is_null (b + 6) 0 TBool; I OP_check_char_0 (b + 4) 34 TBool; I OP_dismatch_err 0 0 TBool;
             I OP_go_skip (b + 6) 0 TBool; I OP_add 1 0 TBool; I OP_str 0 0 TBool]
  | TAny => [I OP_is_null (b + 3) 0 TBool; I OP_any 0 0 TBool; I OP_goto (b + 4) 0 TBool; I OP_nil_2 0 0 TBool]
  | TPtr e0 =>
    (* is_null; deref ...; lspace; <leaf>; goto END; nil_1 *)
    let body :=
      I OP_deref 0 0 e0 ::
      (fix down (et : ty) (b' : nat) {struct et} : prog :=
         match et with
         | TPtr e' => I OP_deref 0 0 e' :: down e' (S b')
         | _ => I OP_lspace 0 0 TBool :: code et (S b')
         end) e0 (b + 2) in
    let n := b + 1 + length body in
    I OP_is_null (n + 1) 0 TBool :: body ++ [I OP_goto (n + 2) 0 TBool; I OP_nil_1 0 0 TBool]
  | TSlice e =>
    let one1 := I OP_lspace 0 0 TBool :: code e (b + 11) in
    let L := length one1 in
    let one2 := I OP_lspace 0 0 TBool :: code e (b + 16 + L) in
    [I OP_is_null (b + 19 + 2 * L) 0 TBool; I OP_check_char_0 (b + 4) 91 TBool; I OP_dismatch_err 0 0 TBool;
     I OP_go_skip (b + 20 + 2 * L) 0 TBool; I OP_add 1 0 TBool;
     I OP_lspace 0 0 TBool; I OP_check_empty (b + 18 + 2 * L) 93 TBool; I OP_slice_init 0 0 e; I OP_save 0 0 TBool;
     I OP_slice_append 0 0 e]
    ++ one1 ++
    [I OP_load 0 0 TBool; I OP_lspace 0 0 TBool; I OP_check_char (b + 17 + 2 * L) 93 TBool; I OP_match_char 0 44 TBool;
     I OP_slice_append 0 0 e]
    ++ one2 ++
    [I OP_load 0 0 TBool; I OP_goto (b + 11 + L) 0 TBool; I OP_drop 0 0 TBool; I OP_goto (b + 20 + 2 * L) 0 TBool;
     I OP_nil_3 0 0 TBool]
  | TArr n e =>
    let L := S (clen e) in
    let CLR := b + 8 + n * (L + 5) + 2 in
    [I OP_is_null (CLR + 2) 0 TBool; I OP_check_char_0 (b + 4) 91 TBool; I OP_dismatch_err 0 0 TBool;
     I OP_go_skip (CLR + 2) 0 TBool; I OP_add 1 0 TBool; I OP_save 0 0 TBool; I OP_lspace 0 0 TBool; I OP_check_char CLR 93 TBool]
    ++ icode (code e) L CLR n n (b + 8)
    ++ [I OP_array_skip 0 0 TBool; I OP_goto (CLR + 1) 0 TBool; I OP_array_clear 0 0 e; I OP_drop 0 0 TBool]
  | _ => []
  end.

Definition dcode : ty -> nat -> prog :=
  fix down (et : ty) (b' : nat) {struct et} : prog :=
    match et with
    | TPtr e' => I OP_deref 0 0 e' :: down e' (S b')
    | _ => I OP_lspace 0 0 TBool :: code et (S b')
    end.

Definition dlen : ty -> nat :=
  fix dlen (et : ty) : nat := match et with TPtr e' => S (dlen e') | _ => S (clen et) end.

Lemma code_ptr : forall e0 b,
  code (TPtr e0) b =
  I OP_is_null (b + 1 + S (length (dcode e0 (b + 2))) + 1) 0 TBool ::
  (I OP_deref 0 0 e0 :: dcode e0 (b + 2)) ++ [I OP_goto (b + 1 + S (length (dcode e0 (b + 2))) + 2) 0 TBool; I OP_nil_1 0 0 TBool].
Proof. reflexivity. Qed.

Lemma clen_ptr : forall e0, clen (TPtr e0) = 4 + dlen e0.
Proof. reflexivity. Qed.

Lemma icode_len : forall ce L T n k b, (forall b', S (length (ce b')) = L) -> length (icode ce L T n k b) = k * (L + 5).
Proof.
  intros ce L T n k. induction k as [|k IH]; intros b H; [reflexivity|].
  cbn [icode]. rewrite !app_length. cbn [length]. rewrite IH by exact H. rewrite <- (H (S b)). lia.
Qed.

Lemma code_dcode_len : forall t, (forall b, length (code t b) = clen t) /\ (forall b, length (dcode t b) = dlen t).
Proof.
  induction t; try (split; intros b; reflexivity).
  - (* slice *) destruct IHt as [IH _].
    assert (C : forall b, length (code (TSlice t) b) = clen (TSlice t)).
    { intros b. cbn [code clen]. simpl length. rewrite !app_length. simpl length. rewrite !app_length. simpl length.
      rewrite !IH. lia. }
    split; [exact C|]. intros b. cbn [dcode dlen length]. rewrite C. reflexivity.
  - (* array *) destruct IHt as [IH _].
    assert (C : forall b, length (code (TArr n t) b) = clen (TArr n t)).
    { intros b. cbn [code clen]. rewrite !app_length. cbn [length].
      rewrite icode_len by (intros b'; rewrite IH; reflexivity). lia. }
    split; [exact C|]. intros b. cbn [dcode dlen length]. rewrite C. reflexivity.
  - (* ptr *) destruct IHt as [_ IH].
    split; intros b.
    + rewrite code_ptr, clen_ptr. simpl length. rewrite app_length. simpl length. rewrite IH. lia.
    + cbn [dcode dlen length]. fold dcode. fold dlen. rewrite IH. reflexivity.
Qed.

Lemma code_len : forall t b, length (code t b) = clen t.
Proof. intros t. apply code_dcode_len. Qed.
Lemma dcode_len : forall t b, length (dcode t b) = dlen t.
Proof. intros t. apply code_dcode_len. Qed.

(* ---- list lemmas for the label discipline ---- *)
Lemma upd_app_l : forall (p q : prog) i f, i < length p -> upd (p ++ q) i f = upd p i f ++ q.
Proof.
  induction p as [|x p IH]; intros q i f H; simpl in H; [lia|].
  destruct i; simpl; [reflexivity|]. rewrite IH by lia. reflexivity.
Qed.

Lemma upd_app_r : forall (p q : prog) k f, upd (p ++ q) (length p + k) f = p ++ upd q k f.
Proof. induction p as [|x p IH]; intros q k f; simpl; [reflexivity|]. rewrite IH. reflexivity. Qed.

Lemma upd_length : forall (p : prog) i f, length (upd p i f) = length p.
Proof. induction p as [|x p IH]; intros i f; simpl; [reflexivity|]. destruct i; simpl; [reflexivity|]. rewrite IH. reflexivity. Qed.

Definition setvi (n : nat) (x : instr) : instr := mkI (i_op x) n (i_vb x) (i_vs x) (i_fm x) (i_t x).

Lemma pin_eq : forall p i, pin p i = upd p i (setvi (length p)).
Proof. reflexivity. Qed.

(* the builders on a program split as prefix ++ region *)
Lemma pin_n : forall p c k, pin (p ++ c) (length p + k) = p ++ upd c k (setvi (length p + length c)).
Proof. intros. rewrite pin_eq, upd_app_r, app_length. reflexivity. Qed.
Lemma pin_n0 : forall p c, pin (p ++ c) (length p) = p ++ upd c 0 (setvi (length p + length c)).
Proof. intros. rewrite <- (pin_n p c 0). rewrite Nat.add_0_r. reflexivity. Qed.

Lemma checkMarshaler_ilf : forall t p, ilf t = true -> checkMarshaler p t = None.
Proof.
  intros t p H. destruct t; try discriminate; try reflexivity.
  simpl in H. destruct t; try discriminate; reflexivity.
Qed.

Lemma pin_length : forall p i, length (pin p i) = length p.
Proof. intros. rewrite pin_eq. apply upd_length. Qed.

Ltac norm :=
  unfold add, chr, int_, rtt, rtti, pc;
  repeat (rewrite <- ?app_assoc; simpl app; rewrite ?app_length, ?pin_length, ?upd_length; simpl length;
          rewrite <- ?Nat.add_assoc; rewrite ?pin_n, ?pin_n0; cbn [upd]; rewrite ?upd_app_r).

Lemma code_prim : forall o p,
  compilePrimitive p o = p ++ [I OP_is_null (length p + 2) 0 TBool; I o 0 0 TBool].
Proof. intros o p. unfold compilePrimitive. norm. reflexivity. Qed.

Definition R (t : ty) : Prop := ilf t = true -> forall sp p, compileOps sp t p = p ++ code t (length p).

Lemma R_str : R TStr.
Proof. intros _ sp p. cbn [compileOps]. unfold compileStringBody, checkIfSkip. norm. reflexivity. Qed.

Lemma R_any : R TAny.
Proof. intros _ sp p. cbn [compileOps]. norm. reflexivity. Qed.

Lemma R_slice : forall e, R e -> R (TSlice e).
Proof.
  intros e IH F sp p. simpl in F. specialize (IH F).
  cbn [compileOps]. unfold compileSliceBody, checkIfSkip.
  norm. rewrite ?checkMarshaler_ilf by exact F. norm. rewrite ?IH. norm.
  cbn [code]. f_equal. unfold I, setvi. cbn [i_op i_vb i_vs i_fm i_t]. simpl length.
  rewrite !code_len.
  repeat (f_equal; try lia).
Qed.

Lemma upd_code : forall t b q k f, upd (code t b ++ q) (clen t + k) f = code t b ++ upd q k f.
Proof. intros. rewrite <- (code_len t b). apply upd_app_r. Qed.
Lemma upd_code0 : forall t b q f, upd (code t b ++ q) (clen t) f = code t b ++ upd q 0 f.
Proof. intros. rewrite <- (upd_code t b q 0 f). rewrite Nat.add_0_r. reflexivity. Qed.

Ltac norm2 := rewrite ?code_len; repeat (cbn [upd]; rewrite ?upd_code, ?upd_code0).

(* compilePtr: the loop that dereferences all the way down, as it appears inside compileOps *)
Definition downfix (sp i : nat) : ty -> prog -> prog :=
  fix down (et : ty) (p : prog) {struct et} : prog :=
    match et with
    | TPtr e' =>
      match checkMarshaler p et with
      | Some p' =>
        let j := pc p' in
        let p' := add p' OP_goto in
        let p' := pin p' i in
        let p' := add p' OP_nil_1 in
        pin p' j
      | None => down e' (rtt p OP_deref e')
      end
    | _ =>
      let p := add p OP_lspace in
      let p := compileOps sp et p in
      let j := pc p in
      let p := add p OP_goto in
      let p := pin p i in
      let p := add p OP_nil_1 in
      pin p j
    end.

Lemma compile_ptr_down : forall sp e0 p,
  compileOps sp (TPtr e0) p = downfix sp (pc p) e0 (rtt (add p OP_is_null) OP_deref e0).
Proof. reflexivity. Qed.

Definition D (t : ty) : Prop := ilf t = true -> forall sp p x c,
  downfix sp (length p) t (p ++ x :: c) =
  p ++ setvi (length p + S (length c) + dlen t + 1) x ::
       c ++ dcode t (length p + S (length c)) ++
            [I OP_goto (length p + S (length c) + dlen t + 2) 0 TBool; I OP_nil_1 0 0 TBool].

Lemma D_leaf : forall t, (match t with TPtr _ => False | _ => True end) -> R t -> D t.
Proof.
  intros t NP Rt F sp p x c. specialize (Rt F).
  assert (E : downfix sp (length p) t (p ++ x :: c) =
              pin (add (pin (add (compileOps sp t (add (p ++ x :: c) OP_lspace)) OP_goto) (length p)) OP_nil_1)
                  (pc (compileOps sp t (add (p ++ x :: c) OP_lspace)))).
  { destruct t; try contradiction; reflexivity. }
  rewrite E. clear E.
  assert (E2 : dcode t (length p + S (length c)) = I OP_lspace 0 0 TBool :: code t (S (length p + S (length c)))).
  { destruct t; try contradiction; reflexivity. }
  assert (E3 : dlen t = S (clen t)).
  { destruct t; try contradiction; reflexivity. }
  rewrite E2, E3. clear E2 E3.
  norm. rewrite Rt. norm. norm2.
  unfold I, setvi. cbn [i_op i_vb i_vs i_fm i_t]. repeat (f_equal; try lia).
Qed.

Lemma D_ptr : forall e, D e -> D (TPtr e).
Proof.
  intros e IH F sp p x c. simpl in F. specialize (IH F).
  assert (E : downfix sp (length p) (TPtr e) (p ++ x :: c) = downfix sp (length p) e (rtt (p ++ x :: c) OP_deref e)).
  { cbn [downfix]. rewrite checkMarshaler_ilf by exact F. reflexivity. }
  rewrite E. clear E. norm. rewrite IH. cbn [dcode dlen]. fold dcode. fold dlen. norm.
  unfold I, setvi. cbn [i_op i_vb i_vs i_fm i_t]. repeat (f_equal; try lia).
Qed.

Lemma R_ptr : forall e, D e -> R (TPtr e).
Proof.
  intros e De F sp p. simpl in F. specialize (De F).
  rewrite compile_ptr_down, code_ptr. norm. rewrite De. norm.
  rewrite !dcode_len. unfold I, setvi. cbn [i_op i_vb i_vs i_fm i_t]. repeat (f_equal; try lia).
Qed.

(* ---- compileArray ---- *)
Definition itemsfix (sp : nat) (e : ty) (n : nat) : nat -> prog -> list nat -> prog * list nat :=
  fix items (k : nat) (p : prog) (v : list nat) : prog * list nat :=
    match k with
    | O => (p, v)
    | S k' =>
      let p := match checkMarshaler p e with Some p' => p' | None => compileOps (S sp) e (add p OP_lspace) end in
      let p := add p OP_load in
      let p := int_ p OP_index (S (n - k)) in
      let p := add p OP_lspace in
      let v := v ++ [pc p] in
      let p := chr p OP_check_char 93 in
      let p := chr p OP_match_char 44 in
      items k' p v
    end.

Lemma compile_arr_unfold : forall sp n e p,
  compileOps sp (TArr n e) p =
  (let x := pc p in
   let p := add p OP_is_null in
   let '(p, skip) := checkIfSkip p 91 in
   let p := add p OP_save in
   let p := add p OP_lspace in
   let v0 := pc p in
   let p := chr p OP_check_char 93 in
   let '(p, v) := itemsfix sp e n n p [v0] in
   let p := add p OP_array_skip in
   let w := pc p in
   let p := add p OP_goto in
   let p := rel p v in
   let p := rtti p OP_array_clear e 0 in
   let p := pin p w in
   let p := add p OP_drop in
   let p := pin p skip in
   pin p x).
Proof. reflexivity. Qed.

Fixpoint ipos (L k b : nat) : list nat :=
  match k with O => [] | S k' => (b + L + 3) :: ipos L k' (b + L + 5) end.

Lemma items_reloc : forall sp e n, ilf e = true -> R e -> forall k p c v,
  itemsfix sp e n k (p ++ c) v =
  (p ++ c ++ icode (code e) (S (clen e)) 0 n k (length p + length c), v ++ ipos (S (clen e)) k (length p + length c)).
Proof.
  intros sp e n F Re. specialize (Re F). induction k as [|k IH]; intros p c v.
  - cbn [itemsfix icode ipos]. rewrite !app_nil_r. reflexivity.
  - cbn [itemsfix]. rewrite checkMarshaler_ilf by exact F. norm. rewrite Re. norm.
    match goal with |- itemsfix _ _ _ _ (p ++ ?C) ?V = _ => rewrite (IH p C V) end.
    cbn [icode ipos]. rewrite !app_length. cbn [length]. rewrite !app_length, !code_len. cbn [length].
    replace (length p + (length c + 1)) with (S (length p + length c)) by lia.
    replace (length p + (length c + S (clen e + 5))) with (length p + length c + S (clen e) + 5) by lia.
    replace (length p + (length c + S (clen e + 3))) with (length p + length c + S (clen e) + 3) by lia.
    f_equal; repeat (rewrite <- ?app_assoc; cbn [app]); reflexivity.
Qed.

(* rel over the recorded `]` tests: every one of them gets the address of the array_clear *)
Lemma rel_items : forall ce L n, (forall b', S (length (ce b')) = L) -> forall k q tl N,
  N = length (q ++ icode ce L 0 n k (length q) ++ tl) ->
  rel (q ++ icode ce L 0 n k (length q) ++ tl) (ipos L k (length q)) = q ++ icode ce L N n k (length q) ++ tl.
Proof.
  intros ce L n HL. unfold rel. induction k as [|k IH]; intros q tl N EN; [reflexivity|].
  cbn [ipos fold_left icode].
  set (one0 := I OP_lspace 0 0 TBool :: ce (S (length q))).
  assert (L1 : length one0 = L) by (unfold one0; cbn [length]; apply HL).
  assert (E1 : pin (q ++ (one0 ++ [I OP_load 0 0 TBool; I OP_index (S (n - S k)) 0 TBool; I OP_lspace 0 0 TBool;
                                   I OP_check_char 0 93 TBool; I OP_match_char 0 44 TBool] ++
                          icode ce L 0 n k (length q + L + 5)) ++ tl) (length q + L + 3) =
               (q ++ one0 ++ [I OP_load 0 0 TBool; I OP_index (S (n - S k)) 0 TBool; I OP_lspace 0 0 TBool;
                              I OP_check_char N 93 TBool; I OP_match_char 0 44 TBool]) ++
               icode ce L 0 n k (length q + L + 5) ++ tl).
  { replace (length q + L + 3) with (length q + (L + 3)) by lia. rewrite pin_n.
    match goal with |- context [setvi (length q + length ?X)] =>
      replace (length q + length X) with N
        by (rewrite EN; cbn [icode]; fold one0; repeat (rewrite !app_length; cbn [length]); lia) end.
    rewrite <- !app_assoc.
    replace (L + 3) with (length one0 + 3) by lia. rewrite upd_app_r. cbn [app upd]. unfold setvi, I. cbn [i_op i_vb i_vs i_fm i_t].
    rewrite <- ?app_assoc. reflexivity. }
  rewrite E1. clear E1.
  match goal with |- fold_left pin _ (?Q ++ _ ++ tl) = _ =>
    replace (length q + L + 5) with (length Q) by (rewrite !app_length; cbn [length]; rewrite L1; lia);
    rewrite (IH Q tl N) end.
  - repeat (rewrite <- ?app_assoc; cbn [app]). reflexivity.
  - rewrite EN. cbn [icode]. fold one0. repeat (rewrite !app_length; cbn [length]). rewrite !icode_len by exact HL. lia.
Qed.

Lemma R_arr : forall n e, R e -> R (TArr n e).
Proof.
  intros n e Re F sp p. simpl in F. rewrite compile_arr_unfold. unfold checkIfSkip. norm.
  rewrite (items_reloc sp e n F Re n p). cbv zeta. cbn [length app].
  set (L := S (clen e)).
  set (N := length p + 8 + n * (L + 5) + 2).
  assert (HL : forall b', S (length (code e b')) = L) by (intros b'; rewrite code_len; reflexivity).
  unfold rel. cbn [fold_left app]. norm.
  (* the first `]` test *)
  match goal with |- context [fold_left pin ?V ?P1] =>
    assert (E0 : fold_left pin V P1 =
                 (p ++ [I OP_is_null 0 0 TBool; I OP_check_char_0 (length p + 4) 91 TBool; I OP_dismatch_err 0 0 TBool;
                        I OP_go_skip 0 0 TBool; I OP_add 1 0 TBool; I OP_save 0 0 TBool; I OP_lspace 0 0 TBool;
                        I OP_check_char N 93 TBool]) ++
                 icode (code e) L N n n (length p + 8) ++ [I OP_array_skip 0 0 TBool; I OP_goto 0 0 TBool]) end.
  { norm. rewrite icode_len by exact HL.
    replace (length p + (8 + (n * (L + 5) + 2))) with N by (unfold N; lia).
    cbn [upd]. unfold setvi at 2. cbn [i_op i_vb i_vs i_fm i_t].
    match goal with |- fold_left pin _ (p ++ ?c0 :: ?c1 :: ?c2 :: ?c3 :: ?c4 :: ?c5 :: ?c6 :: ?c7 :: ?rest) = _ =>
      change (p ++ c0 :: c1 :: c2 :: c3 :: c4 :: c5 :: c6 :: c7 :: rest) with (p ++ [c0; c1; c2; c3; c4; c5; c6; c7] ++ rest) end.
    rewrite app_assoc.
    match goal with |- fold_left pin (ipos L n ?b) (?Q ++ icode _ _ _ _ _ ?b' ++ ?tl) = _ =>
      replace b with (length Q) by (rewrite app_length; cbn [length]; lia);
      replace b' with (length Q) by (rewrite app_length; cbn [length]; lia);
      pose proof (rel_items (code e) L n HL n Q tl N) as RI end.
    unfold rel in RI. etransitivity; [apply RI|].
    - repeat (rewrite ?app_length; cbn [length]). rewrite icode_len by exact HL. unfold N. lia.
    - clear RI. rewrite app_length. cbn [length].
      replace (length p + S (S (S (S (S (S (S (S (n * (L + 5) + 2))))))))) with N by (unfold N; lia).
      repeat (rewrite <- ?app_assoc; cbn [app]). reflexivity. }
  rewrite E0. clear E0.
  assert (UI : forall T b q k f, upd (icode (code e) L T n n b ++ q) (n * (L + 5) + k) f = icode (code e) L T n n b ++ upd q k f).
  { intros. rewrite <- (icode_len (code e) L T n n b HL). apply upd_app_r. }
  norm. rewrite ?icode_len by exact HL. norm. rewrite ?UI. cbn [upd]. rewrite ?icode_len by exact HL. norm. rewrite ?UI. cbn [upd].
  replace N with (length p + S (S (S (S (S (S (S (S (n * S (clen e + 5) + 2))))))))) by (unfold N, L; lia).
  reflexivity.
Qed.

Theorem compile_code_all : forall t, R t /\ D t.
Proof.
  induction t; try (split; [intros F; discriminate F | intros F; discriminate F]).
  all: try (match goal with |- R ?t /\ D ?t =>
              assert (Rt : R t) by (intros _ sp p; cbn [compileOps]; apply code_prim);
              split; [exact Rt | apply D_leaf; [exact Logic.I | exact Rt]] end).
  - pose proof R_str as Rt. split; [exact Rt | apply D_leaf; [exact Logic.I | exact Rt]].
  - destruct IHt as [IH _]. pose proof (R_slice t IH) as Rt. split; [exact Rt | apply D_leaf; [exact Logic.I | exact Rt]].
  - destruct IHt as [IH _]. pose proof (R_arr n t IH) as Rt. split; [exact Rt | apply D_leaf; [exact Logic.I | exact Rt]].
  - destruct IHt as [_ IH]. split; [apply R_ptr; exact IH | apply D_ptr; exact IH].
  - pose proof R_any as Rt. split; [exact Rt | apply D_leaf; [exact Logic.I | exact Rt]].
Qed.

(* the program of a type in the fragment, whatever precedes it *)
Theorem compile_code : forall t, ilf t = true -> forall sp p, compileOps sp t p = p ++ code t (length p).
Proof. intros t F sp p. exact (proj1 (compile_code_all t) F sp p). Qed.

Theorem compile_one : forall t, ilf t = true -> compile t = I OP_lspace 0 0 TBool :: code t 1.
Proof.
  intros t F. unfold compile, compileOne. rewrite checkMarshaler_ilf by exact F.
  rewrite compile_code by exact F. reflexivity.
Qed.


