(* Dec/StdBind.v - encoding/json's binding of a parsed document to a destination (decode.go: value, array,
   object, literalStore, indirect).  Errors are sticky in encoding/json (d.savedError is never cleared and a
   syntax error is found by the up-front scan), and the property compares only error-or-not plus the value on
   success, so the model aborts at the first error: `Err` = Unmarshal returns a non-nil error.
   `Unk` = the input leaves the modelled fragment (Go's strconv accepts more spellings than JSON inside
   `,string` fields). *)
From Coq Require Import NArith ZArith List Bool.
From SV.Dec Require Import Ty Val Parse Text Num Common FieldMap.
Import ListNotations.
Open Scope N_scope.

Section Std.
  Variable o : opts.

  (* unquoteBytes: escapes decoded, ill-formed UTF-8 coerced to U+FFFD, raw control characters invalid *)
  Definition unq (b : bytes) : option bytes := unquote true true b.

  Definition std_number_any (t : bytes) : res val :=
    if o_use_number o then Ok (VNum t)
    else if o_use_int64 o then
      match int_of_text t with
      | Some z => if in_range I64 z then Ok (VInt z) else fres_val (f64_of_text t)
      | None => fres_val (f64_of_text t)
      end
    else fres_val (f64_of_text t).

  (* interface{}: valueInterface / arrayInterface / objectInterface *)
  Fixpoint std_any (j : jv) : res val :=
    match j with
    | JNull => Ok VNil
    | JTrue => Ok (VBool true)
    | JFalse => Ok (VBool false)
    | JNum t => std_number_any t
    | JStr b => match unq b with Some s => Ok (VStr s) | None => Err end
    | JArr _ l =>
      do vs <- (fix go (l : list jv) : res (list val) :=
                  match l with
                  | [] => Ok []
                  | x :: r => do v <- std_any x; do vs <- go r; Ok (v :: vs)
                  end) l;
      Ok (VList vs [])
    | JObj _ l =>
      do m <- (fix go (l : list (bytes * jv)) (acc : list (val * val)) : res (list (val * val)) :=
                 match l with
                 | [] => Ok acc
                 | (k, x) :: r =>
                   match unq k with
                   | None => Err
                   | Some ks => do v <- std_any x; go r (map_set acc (VStr ks) v)
                   end
                 end) l [];
      Ok (VMap m)
    end.

  Definition std_int (k : ikind) (j : jv) (v : val) : res val :=
    match j with
    | JNull => Ok v
    | JNum t =>
      match int_of_text t with
      | Some z =>
        (* ParseUint refuses a sign, also on -0 *)
        if negb (is_signed k) && (match t with c :: _ => c =? 45 | [] => false end) then Err
        else if in_range k z then Ok (VInt z) else Err
      | None => Err
      end
    | _ => Err
    end.

  (* strconv.ParseInt(s, 10, 64) on a text that starts with a digit or '-': optional '-', digits (leading zeros
     are fine) *)
  Definition go_parse_int (s : bytes) : option Z :=
    let '(neg, d) := match s with c :: r => if c =? 45 then (true, r) else (false, s) | [] => (false, s) end in
    match d with
    | [] => None
    | _ => match digits_val d 0 with
           | Some n => Some (if neg then (- Z.of_N n)%Z else Z.of_N n)
           | None => None
           end
    end.

  Definition strip_quotes (s : bytes) : option bytes :=
    match s with
    | q :: r =>
      if q =? 34 then
        match rev r with
        | q' :: m => if q' =? 34 then Some (rev m) else None
        | [] => None
        end
      else None
    | [] => None
    end.

  (* literalStore(item, v, fromQuoted = true) for the kinds that accept `,string` *)
  Definition std_quoted_base (t : ty) (s : bytes) (v : val) : res val :=
    match s with
    | [] => Err
    | c :: _ =>
      if c =? 110 then (if bytes_eqb s lit_null then Ok v else Err)
      else if (c =? 116) || (c =? 102) then
        match t with
        | TBool => if bytes_eqb s lit_true then Ok (VBool true)
                   else if bytes_eqb s lit_false then Ok (VBool false) else Err
        | _ => Err
        end
      else if c =? 34 then
        match t with
        | TStr => match strip_quotes s with
                  | Some m => match unq m with Some u => Ok (VStr u) | None => Err end
                  | None => Err
                  end
        | TNum => match strip_quotes s with
                  | Some m => match unq m with
                              | Some u => if is_number_text u then Ok (VStr u) else Err
                              | None => Err
                              end
                  | None => Err
                  end
        | _ => Err
        end
      else if (c =? 45) || is_digit c then
        match t with
        | TNum => Ok (VStr s)                      (* stored unchecked: "already tokenized" does not hold here *)
        | TInt k =>
          match go_parse_int s with
          | Some z => if is_signed k || negb (c =? 45) then (if in_range k z then Ok (VInt z) else Err) else Err
          | None => Err
          end
        | TF64 => if is_number_text s then fres_val (f64_of_text s) else Unk   (* strconv.ParseFloat syntax *)
        | TF32 => if is_number_text s then fres_val (f32_of_text s) else Unk
        | _ => Err
        end
      else Err
    end.

  Definition std_quoted (t : ty) (j : jv) (v : val) : res val :=
    match j with
    | JNull => match t with TPtr _ => Ok VNil | _ => Ok v end
    | JStr b =>
      match unq b with
      | None => Err
      | Some s =>
        match t with
        | TPtr e =>
          match s with
          | c :: _ => if (c =? 110) then (if bytes_eqb s lit_null then Ok VNil else Err)
                      else do x <- std_quoted_base e s (match v with VPtr x => x | _ => zero e end); Ok (VPtr x)
          | [] => Err
          end
        | _ => std_quoted_base t s v
        end
      end
    | _ => Err
    end.

  (* map keys: string kinds take the text, integer kinds strconv.ParseInt/ParseUint, TextUnmarshaler the text *)
  Definition std_key (k : kty) (s : bytes) : res val :=
    match k with
    | KStr => Ok (VStr s)
    | KText => if bytes_eqb s lit_ERR then Err else Ok (VStr s)
    | KInt ik =>
      match int_of_text s with
      | Some z => if is_signed ik || negb (match s with c :: _ => c =? 45 | [] => false end)
                  then (if in_range ik z then Ok (VInt z) else Err) else Err
      | None =>
        (* ParseInt also accepts a leading '+' and leading zeros *)
        let s' := match s with c :: r => if c =? 43 then r else s | [] => s end in
        match go_parse_int s' with
        | Some _ => Unk
        | None => Err
        end
      end
    end.

  Fixpoint std_bind (t : ty) (j : jv) (v : val) {struct t} : res val :=
    match t with
    | TBool =>
      match j with JNull => Ok v | JTrue => Ok (VBool true) | JFalse => Ok (VBool false) | _ => Err end
    | TInt k => std_int k j v
    | TF64 => match j with JNull => Ok v | JNum t => fres_val (f64_of_text t) | _ => Err end
    | TF32 => match j with JNull => Ok v | JNum t => fres_val (f32_of_text t) | _ => Err end
    | TStr =>
      match j with
      | JNull => Ok v
      | JStr b => match unq b with Some s => Ok (VStr s) | None => Err end
      | _ => Err
      end
    | TNum =>
      match j with
      | JNull => Ok v
      | JNum t => Ok (VStr t)
      | JStr b => match unq b with
                  | Some s => if is_number_text s then Ok (VStr s) else Err
                  | None => Err
                  end
      | _ => Err
      end
    | TBytes =>
      match j with
      | JNull => Ok VNil
      | JStr b => match unq b with
                  | Some s => match b64_std s with Some d => Ok (vbytes d) | None => Err end
                  | None => Err
                  end
      | JArr _ l =>
        let old := match v with VList vis hid => vis ++ hid | _ => [] end in
        match l with
        | [] => Ok (VList [] [])
        | _ => do news <- bind_elems (std_int U8) (VInt 0) l old; Ok (VList news (skipn (length l) old))
        end
      | _ => Err
      end
    | TSlice e =>
      match j with
      | JNull => Ok VNil
      | JArr _ l =>
        let old := match v with VList vis hid => vis ++ hid | _ => [] end in
        match l with
        | [] => Ok (VList [] [])
        | _ => do news <- bind_elems (std_bind e) (zero e) l old; Ok (VList news (skipn (length l) old))
        end
      | _ => Err
      end
    | TArr n e =>
      match j with
      | JNull => Ok v
      | JArr _ l =>
        let old := match v with VList vis _ => vis | _ => [] end in
        do news <- bind_elems (std_bind e) (zero e) (firstn n l) old;
        Ok (VList (pad_to n (zero e) news) [])
      | _ => Err
      end
    | TMap k e =>
      match j with
      | JNull => Ok VNil
      | JObj _ l =>
        let m0 := match v with VMap m => m | _ => [] end in
        do m <- (fix go (l : list (bytes * jv)) (acc : list (val * val)) : res (list (val * val)) :=
                   match l with
                   | [] => Ok acc
                   | (kb, x) :: r =>
                     match unq kb with
                     | None => Err
                     | Some ks =>
                       (* the element is decoded into a fresh zero value, then stored under the converted key
                          (decode.go converts the key after the value; an error of either ends in an error, so the
                          order is not observable and the key is taken first here) *)
                       do kv <- std_key k ks;
                       do ev <- std_bind e x (zero e);
                       go r (map_set acc kv ev)
                     end
                   end) l m0;
        Ok (VMap m)
      | _ => Err
      end
    | TPtr e =>
      match j with
      | JNull => Ok VNil
      | _ => do x <- std_bind e j (match v with VPtr x => x | _ => zero e end); Ok (VPtr x)
      end
    | TStruct fs =>
      match j with
      | JNull => Ok v
      | JObj _ l =>
        let names := fnames fs in
        let vs0 := match v with VList vs _ => vs | _ => zero_fields fs end in
        do vs <- (fix go (l : list (bytes * jv)) (vs : list val) : res (list val) :=
                    match l with
                    | [] => Ok vs
                    | (kb, x) :: r =>
                      match unq kb with
                      | None => Err
                      | Some ks =>
                        match std_lookup names ks with
                        | None => if o_disallow_unknown o then Err else go r vs
                        | Some i => do vs' <- std_field fs i x vs; go r vs'
                        end
                      end
                    end) l vs0;
        Ok (VList vs [])
      | _ => Err
      end
    | TAny =>
      match j with JNull => Ok VNil | _ => std_any j end
    | TRaw => Ok (VStr (raw_of j))                           (* RawMessage.UnmarshalJSON, also for null *)
    | TUnm => if bytes_eqb (raw_of j) lit_qERRq then Err else Ok (VStr (raw_of j))
    | TText =>
      match j with
      | JNull => Ok v
      | JStr b => match unq b with
                  | Some s => if bytes_eqb s lit_ERR then Err else Ok (VStr s)
                  | None => Err
                  end
      | _ => Err
      end
    end
  with std_field (fs : fields) (i : nat) (j : jv) (vs : list val) {struct fs} : res (list val) :=
    match fs, vs with
    | FCons _ q t r, v :: vr =>
      match i with
      | O => do v' <- (if q && quotable t then std_quoted t j v else std_bind t j v); Ok (v' :: vr)
      | S i' => do vr' <- std_field r i' j vr; Ok (v :: vr')
      end
    | _, _ => Err
    end.
End Std.

Definition parse (s : bytes) : option jv :=
  match lparse true s with
  | Some j => if strict_jv j then Some j else None
  | None => None
  end.

Definition std_unmarshal (o : opts) (t : ty) (s : bytes) (v : val) : res val :=
  match parse s with
  | Some j => std_bind o t j v
  | None => Err
  end.
