(* C19 - number_grammar: do_skip_number / skip_number_1 (the index-tracking scanner: first '.', first 'e'/'E',
   first sign, then check_index) accept exactly the JSON number grammar.  The proof goes through a small
   DFA: (A) the scanner's indices simulate the DFA state, (B) check_index accepts iff the state is accepting,
   (C) the DFA accepts exactly  digits* frac exp. *)
From Coq Require Import ZArith NArith Bool List Lia.
From SV.Num Require Import Dec DecLemmas NumGrammar NumGrammarProofs.
Import ListNotations.
Open Scope Z_scope.

Inductive st := I | D0 | F | E0 | ES | X | Dead.

Definition step (q : st) (c : N) : st :=
  if is_digit c then match q with I => I | D0 => F | F => F | E0 => X | ES => X | X => X | Dead => Dead end
  else if is_dot c then match q with I => D0 | _ => Dead end
  else if is_exp c then match q with I => E0 | F => E0 | _ => Dead end
  else if is_sign c then match q with E0 => ES | _ => Dead end
  else Dead.

Definition is_acc (q : st) : bool := match q with I | F | X => true | _ => false end.
Fixpoint run_dfa (q : st) (l : list N) : st := match l with [] => q | c :: t => run_dfa (step q c) t end.

Lemma run_dead : forall l, run_dfa Dead l = Dead.
Proof. induction l as [|c t IH]; [reflexivity|]. cbn. unfold step. destruct (is_digit c), (is_dot c), (is_exp c), (is_sign c); exact IH. Qed.

(* ---- (A) simulation ------------------------------------------------------------------------- *)
Definition bad (k di ei si : Z) : Prop :=
  (0 <= si < k /\ ei <> si - 1 /\ ei < k) \/ (0 <= di /\ 0 <= ei /\ ei - 1 <= di).

Definition Inv (q : st) (k di ei si : Z) : Prop :=
  -1 <= di < k /\ -1 <= ei < k /\ -1 <= si < k /\
  match q with
  | I => di = -1 /\ ei = -1 /\ si = -1
  | D0 => di = k - 1 /\ 1 <= di /\ ei = -1 /\ si = -1
  | F => 1 <= di < k - 1 /\ ei = -1 /\ si = -1
  | E0 => ei = k - 1 /\ 1 <= ei /\ si = -1 /\ (di = -1 \/ 1 <= di < ei - 1)
  | ES => si = k - 1 /\ ei = k - 2 /\ 1 <= ei /\ (di = -1 \/ 1 <= di < ei - 1)
  | X => 1 <= ei < k - 1 /\ (si = -1 \/ (si = ei + 1 /\ si < k - 1)) /\ (di = -1 \/ 1 <= di < ei - 1)
  | Dead => bad k di ei si
  end.

Lemma class_excl : forall c,
  (is_digit c = true -> is_dot c = false /\ is_exp c = false /\ is_sign c = false) /\
  (is_dot c = true -> is_exp c = false /\ is_sign c = false) /\
  (is_exp c = true -> is_sign c = false).
Proof.
  intros c. split; [|split].
  - intros H. destruct (digit_not_special c H) as (A & B & C & _). auto.
  - intros H. unfold is_dot, c_dot in H. apply N.eqb_eq in H. subst c. split; reflexivity.
  - intros H. destruct (exp_not_digit c H) as (_ & _ & A). exact A.
Qed.

Definition all_numchar (l : list N) : bool := forallb is_numchar l.
Definition terminated (r : list N) : Prop := match r with c :: _ => is_numchar c = false | [] => True end.

Lemma sim : forall run rest, all_numchar run = true -> terminated rest ->
  forall q k di ei si, 1 <= k -> Inv q k di ei si ->
  match scan_loop (run ++ rest) k di ei si with
  | ScanErr r => r < 0 /\ run_dfa q run = Dead
  | ScanEnd len di' ei' si' => len = k + Z.of_nat (length run) /\ Inv (run_dfa q run) len di' ei' si'
  end.
Proof.
  induction run as [|c t IH]; intros rest Hall Hterm q k di ei si Hk HI.
  - cbn [app length run_dfa]. destruct rest as [|c r].
    + cbn. split; [lia|exact HI].
    + cbn in Hterm. cbn [scan_loop]. unfold is_numchar in Hterm.
      apply orb_false_iff in Hterm as [Hterm Hs]. apply orb_false_iff in Hterm as [Hterm He].
      apply orb_false_iff in Hterm as [Hd Hdot]. rewrite Hd, Hdot, He, Hs. split; [cbn; lia|exact HI].
  - cbn in Hall. apply andb_true_iff in Hall as [Hc Ht].
    cbn [app scan_loop run_dfa length]. rewrite Nat2Z.inj_succ.
    destruct (class_excl c) as (Xd & Xdot & Xe).
    unfold step. destruct (is_digit c) eqn:Ed.
    + (* digit *)
      specialize (IH rest Ht Hterm (match q with I => I | D0 => F | F => F | E0 => X | ES => X | X => X | Dead => Dead end)
                     (k + 1) di ei si).
      destruct (scan_loop (t ++ rest) (k + 1) di ei si).
      * apply IH; [lia|]. unfold Inv, bad in *. destruct q; lia.
      * destruct IH as [A B]; [lia| |split; [lia|exact B]]. unfold Inv, bad in *. destruct q; lia.
    + destruct (is_dot c) eqn:Edot.
      * unfold check_sidx. destruct (di =? -1) eqn:E1.
        -- apply Z.eqb_eq in E1.
           specialize (IH rest Ht Hterm (match q with I => D0 | _ => Dead end) (k + 1) k ei si).
           destruct (scan_loop (t ++ rest) (k + 1) k ei si).
           ++ apply IH; [lia|]. unfold Inv, bad in *. destruct q; lia.
           ++ destruct IH as [A B]; [lia| |split; [lia|exact B]]. unfold Inv, bad in *. destruct q; lia.
        -- apply Z.eqb_neq in E1. split; [lia|].
           assert (match q with I => D0 | _ => Dead end = Dead) as ->.
           { unfold Inv in HI. destruct q; try reflexivity. lia. }
           apply run_dead.
      * destruct (is_exp c) eqn:Ee.
        -- unfold check_sidx. destruct (ei =? -1) eqn:E1.
           ++ apply Z.eqb_eq in E1.
              specialize (IH rest Ht Hterm (match q with I => E0 | F => E0 | _ => Dead end) (k + 1) di k si).
              destruct (scan_loop (t ++ rest) (k + 1) di k si).
              ** apply IH; [lia|]. unfold Inv, bad in *. destruct q; lia.
              ** destruct IH as [A B]; [lia| |split; [lia|exact B]]. unfold Inv, bad in *. destruct q; lia.
           ++ apply Z.eqb_neq in E1. split; [lia|].
              assert (match q with I => E0 | F => E0 | _ => Dead end = Dead) as ->.
              { unfold Inv in HI. destruct q; try reflexivity; lia. }
              apply run_dead.
        -- destruct (is_sign c) eqn:Es.
           ++ unfold check_sidx. destruct (si =? -1) eqn:E1.
              ** apply Z.eqb_eq in E1.
                 specialize (IH rest Ht Hterm (match q with E0 => ES | _ => Dead end) (k + 1) di ei k).
                 destruct (scan_loop (t ++ rest) (k + 1) di ei k).
                 --- apply IH; [lia|]. unfold Inv, bad in *. destruct q; lia.
                 --- destruct IH as [A B]; [lia| |split; [lia|exact B]]. unfold Inv, bad in *. destruct q; lia.
              ** apply Z.eqb_neq in E1. split; [lia|].
                 assert (match q with E0 => ES | _ => Dead end = Dead) as ->.
                 { unfold Inv in HI. destruct q; try reflexivity; lia. }
                 apply run_dead.
           ++ exfalso. unfold is_numchar in Hc. rewrite Ed, Edot, Ee, Es in Hc. discriminate.
Qed.

(* ---- (B) check_index decides acceptance of the state ------------------------------------------ *)
Ltac step_if :=
  match goal with
  | |- context [if ?b then _ else _] =>
      let E := fresh "E" in destruct b eqn:E;
      [ repeat (rewrite ?orb_true_iff, ?andb_true_iff, ?negb_true_iff, ?Z.eqb_eq, ?Z.eqb_neq, ?Z.ltb_lt, ?Z.ltb_ge, ?Z.leb_le, ?Z.leb_gt in E)
      | repeat (rewrite ?orb_false_iff, ?andb_false_iff, ?negb_false_iff, ?Z.eqb_eq, ?Z.eqb_neq, ?Z.ltb_lt, ?Z.ltb_ge, ?Z.leb_le, ?Z.leb_gt in E) ];
      try lia
  end.

Lemma check_index_acc : forall q len di ei si, 1 <= len -> Inv q len di ei si ->
  if is_acc q then check_index len di ei si = len else check_index len di ei si < 0.
Proof.
  intros q len di ei si Hl HI. unfold check_index. unfold Inv, bad in HI.
  destruct q; cbn [is_acc]; repeat step_if.
Qed.

(* ---- (C) the DFA and the grammar ---------------------------------------------------------------- *)
Lemma acc_X : forall l, is_acc (run_dfa X l) = true -> all_digits l = true.
Proof.
  induction l as [|c t IH]; intros H; [reflexivity|]. cbn in H. unfold step in H.
  destruct (is_digit c) eqn:E.
  - cbn. rewrite E. apply IH. exact H.
  - assert (run_dfa (if is_dot c then Dead else if is_exp c then Dead else if is_sign c then Dead else Dead) t = Dead).
    { destruct (is_dot c), (is_exp c), (is_sign c); apply run_dead. }
    rewrite H0 in H. discriminate.
Qed.

Lemma dead_not_acc : forall l, is_acc (run_dfa Dead l) = false.
Proof. intros. rewrite run_dead. reflexivity. Qed.

Ltac dead_case H := exfalso;
  repeat match type of H with context [if ?b then _ else _] => destruct b end;
  rewrite ?run_dead in H; cbn in H; discriminate.

Lemma acc_ES : forall l, is_acc (run_dfa ES l) = true -> digits1 l.
Proof.
  intros [|c t] H; [cbn in H; discriminate|]. cbn in H. unfold step in H.
  destruct (is_digit c) eqn:E; [|dead_case H].
  apply all_digits1; [cbn; rewrite E; apply acc_X; exact H|discriminate].
Qed.

Lemma acc_E0 : forall l, is_acc (run_dfa E0 l) = true ->
  digits1 l \/ exists s l', l = s :: l' /\ is_sign s = true /\ digits1 l'.
Proof.
  intros [|c t] H; [cbn in H; discriminate|]. cbn in H. unfold step in H.
  destruct (is_digit c) eqn:E.
  - left. apply all_digits1; [cbn; rewrite E; apply acc_X; exact H|discriminate].
  - destruct (is_dot c) eqn:Edot; [dead_case H|]. destruct (is_exp c) eqn:Ee; [dead_case H|].
    destruct (is_sign c) eqn:Es; [|dead_case H].
    right. exists c, t. split; [reflexivity|]. split; [exact Es|apply acc_ES; exact H].
Qed.

Lemma acc_E0_exp : forall e l, is_exp e = true -> is_acc (run_dfa E0 l) = true -> exp_part (e :: l).
Proof.
  intros e l He H. destruct (acc_E0 l H) as [D | (s & l' & -> & Hs & D)].
  - apply ep_nosign; assumption.
  - apply ep_sign; assumption.
Qed.

Lemma acc_F : forall l, is_acc (run_dfa F l) = true -> exists ds e, l = ds ++ e /\ all_digits ds = true /\ exp_part e.
Proof.
  induction l as [|c t IH]; intros H.
  - exists [], []. split; [reflexivity|]. split; [reflexivity|constructor].
  - cbn in H. unfold step in H. destruct (is_digit c) eqn:E.
    + destruct (IH H) as (ds & e & -> & A & B). exists (c :: ds), e. split; [reflexivity|]. split; [cbn; rewrite E; exact A|exact B].
    + destruct (is_dot c) eqn:Edot; [dead_case H|]. destruct (is_exp c) eqn:Ee; [|dead_case H].
      exists [], (c :: t). split; [reflexivity|]. split; [reflexivity|]. apply acc_E0_exp; assumption.
Qed.

Lemma acc_D0 : forall l, is_acc (run_dfa D0 l) = true -> exists ds e, l = ds ++ e /\ digits1 ds /\ exp_part e.
Proof.
  intros [|c t] H; [cbn in H; discriminate|]. cbn in H. unfold step in H.
  destruct (is_digit c) eqn:E; [|dead_case H].
  destruct (acc_F t H) as (ds & e & -> & A & B). exists (c :: ds), e. split; [reflexivity|].
  split; [apply all_digits1; [cbn; rewrite E; exact A|discriminate]|exact B].
Qed.

Lemma acc_I : forall l, is_acc (run_dfa I l) = true ->
  exists ds f e, l = ds ++ f ++ e /\ all_digits ds = true /\ frac_part f /\ exp_part e.
Proof.
  induction l as [|c t IH]; intros H.
  - exists [], [], []. repeat split; constructor.
  - cbn in H. unfold step in H. destruct (is_digit c) eqn:E.
    + destruct (IH H) as (ds & f & e & -> & A & B & C). exists (c :: ds), f, e.
      split; [reflexivity|]. split; [cbn; rewrite E; exact A|]. split; assumption.
    + destruct (is_dot c) eqn:Edot.
      * destruct (acc_D0 t H) as (ds & e & -> & A & B). exists [], (c :: ds), e.
        unfold is_dot in Edot. apply N.eqb_eq in Edot. subst c.
        split; [reflexivity|]. split; [reflexivity|]. split; [constructor; exact A|exact B].
      * destruct (is_exp c) eqn:Ee; [|dead_case H].
        exists [], [], (c :: t). split; [reflexivity|]. split; [reflexivity|]. split; [constructor|].
        apply acc_E0_exp; assumption.
Qed.

(* the converse: every digits* frac exp is accepted *)
Lemma run_digits : forall ds q r, all_digits ds = true -> (q = I \/ q = F \/ q = X) -> run_dfa q (ds ++ r) = run_dfa q r.
Proof.
  induction ds as [|c t IH]; intros q r H Hq; [reflexivity|]. cbn in H. apply andb_true_iff in H as [Hc Ht].
  cbn. unfold step. rewrite Hc. rewrite <- (IH q r Ht Hq). destruct Hq as [-> | [-> | ->]]; reflexivity.
Qed.

Lemma run_digits1_to : forall ds q q' r, digits1 ds -> (q = D0 /\ q' = F \/ q = E0 /\ q' = X \/ q = ES /\ q' = X) ->
  run_dfa q (ds ++ r) = run_dfa q' r.
Proof.
  intros ds q q' r H Hq. destruct (digits1_all ds H) as [Hall Hne]. destruct ds as [|c t]; [congruence|].
  cbn in Hall. apply andb_true_iff in Hall as [Hc Ht]. cbn. unfold step. rewrite Hc.
  destruct Hq as [[-> ->] | [[-> ->] | [-> ->]]]; apply run_digits; auto.
Qed.

Lemma run_exp_part : forall e q, exp_part e -> (q = I \/ q = F) -> is_acc (run_dfa q e) = true.
Proof.
  intros e q H Hq. destruct H as [|c l Hc Hl|c s l Hc Hs Hl].
  - destruct Hq as [-> | ->]; reflexivity.
  - destruct (exp_not_digit c Hc) as (A & B & C). cbn. unfold step. rewrite A, B, Hc.
    replace (match q with I => E0 | F => E0 | _ => Dead end) with E0 by (destruct Hq as [-> | ->]; reflexivity).
    rewrite <- (app_nil_r l). rewrite (run_digits1_to l E0 X []) by auto. reflexivity.
  - destruct (exp_not_digit c Hc) as (A & B & C). cbn. unfold step. rewrite A, B, Hc.
    replace (match q with I => E0 | F => E0 | _ => Dead end) with E0 by (destruct Hq as [-> | ->]; reflexivity).
    rewrite (sign_not_digit s Hs).
    assert (is_dot s = false /\ is_exp s = false) as [-> ->].
    { unfold is_sign in Hs. apply orb_true_iff in Hs. unfold c_plus, c_minus in Hs.
      destruct Hs as [Hs|Hs]; apply N.eqb_eq in Hs; subst s; split; reflexivity. }
    rewrite Hs. rewrite <- (app_nil_r l). rewrite (run_digits1_to l ES X []) by auto. reflexivity.
Qed.

Lemma run_tail_acc : forall ds f e, all_digits ds = true -> frac_part f -> exp_part e ->
  is_acc (run_dfa I (ds ++ f ++ e)) = true.
Proof.
  intros ds f e Hd Hf He. rewrite run_digits by auto. destruct Hf as [|l Hl].
  - cbn [app]. apply run_exp_part; auto.
  - cbn [app run_dfa]. unfold step. change (is_digit c_dot) with false. change (is_dot c_dot) with true. cbn iota.
    rewrite (run_digits1_to l D0 F e) by auto. apply run_exp_part; auto.
Qed.

(* ---- do_skip_number ------------------------------------------------------------------------------ *)
Fixpoint take_nc (l : list N) : list N * list N :=
  match l with
  | c :: t => if is_numchar c then let '(a, b) := take_nc t in (c :: a, b) else ([], l)
  | [] => ([], [])
  end.

Lemma take_nc_spec : forall l a b, take_nc l = (a, b) -> l = a ++ b /\ all_numchar a = true /\ terminated b.
Proof.
  induction l as [|c t IH]; intros a b H; cbn in H.
  - inversion H; subst. cbn. auto.
  - destruct (is_numchar c) eqn:E.
    + destruct (take_nc t) as [a' b'] eqn:T. inversion H; subst. destruct (IH a' b eq_refl) as (A & B & C).
      split; [cbn; f_equal; exact A|]. split; [cbn; rewrite E; exact B|exact C].
    + inversion H; subst. split; [reflexivity|]. split; [reflexivity|exact E].
Qed.

Lemma digit_numchar : forall c, is_digit c = true -> is_numchar c = true.
Proof. intros c H. unfold is_numchar. rewrite H. reflexivity. Qed.

Lemma all_digits_numchar : forall l, all_digits l = true -> all_numchar l = true.
Proof.
  induction l as [|c t IH]; intros H; [reflexivity|]. cbn in *. apply andb_true_iff in H as [Hc Ht].
  rewrite (digit_numchar c Hc). auto.
Qed.

Lemma all_numchar_app : forall a b, all_numchar (a ++ b) = all_numchar a && all_numchar b.
Proof. intros. apply forallb_app. Qed.

Lemma frac_numchar : forall f, frac_part f -> all_numchar f = true.
Proof.
  intros f H. destruct H as [|l Hl]; [reflexivity|]. cbn. apply all_digits_numchar. apply digits1_all. exact Hl.
Qed.

Lemma exp_numchar : forall e, exp_part e -> all_numchar e = true.
Proof.
  intros e H. destruct H as [|c l Hc Hl|c s l Hc Hs Hl]; [reflexivity| |].
  - cbn. unfold is_numchar at 1. rewrite Hc, !orb_true_r. cbn. apply all_digits_numchar, digits1_all, Hl.
  - cbn. unfold is_numchar at 1 2. rewrite Hc, Hs, !orb_true_r. cbn. apply all_digits_numchar, digits1_all, Hl.
Qed.

Definition not_dot_exp (l : list N) : Prop := match l with c :: _ => is_dot c || is_exp c = false | [] => True end.

Lemma leading_zero_case : forall rest, not_dot_exp rest -> do_skip_number (c_0 :: rest) = 1.
Proof.
  intros rest H. cbn [do_skip_number]. change ((c_0 =? c_0)%N) with true. cbn [andb].
  destruct rest as [|c1 r]; [reflexivity|]. cbn in H. rewrite H. reflexivity.
Qed.

Lemma general_scan : forall c t, is_digit c = true ->
  ((c =? c_0)%N && match t with [] => true | c1 :: _ => negb (is_dot c1 || is_exp c1) end) = false ->
  do_skip_number (c :: t) = match scan_loop t 1 (-1) (-1) (-1) with
                            | ScanErr r => r
                            | ScanEnd len di ei si => check_index len di ei si
                            end.
Proof.
  intros c t Hc H. cbn [do_skip_number]. rewrite H. cbn [scan_loop]. rewrite Hc. reflexivity.
Qed.

Lemma Inv_start : Inv I 1 (-1) (-1) (-1).
Proof. unfold Inv. lia. Qed.

Theorem do_skip_number_sound : forall c t r, is_digit c = true -> do_skip_number (c :: t) = r -> 0 <= r ->
  exists u rest, c :: t = u ++ rest /\ unsigned_number u /\ r = Z.of_nat (length u).
Proof.
  intros c t r Hc H Hr.
  destruct ((c =? c_0)%N && match t with [] => true | c1 :: _ => negb (is_dot c1 || is_exp c1) end) eqn:Ez.
  - cbn [do_skip_number] in H. rewrite Ez in H. apply andb_true_iff in Ez as [Ez _]. apply N.eqb_eq in Ez. subst c r.
    exists [c_0], t. split; [reflexivity|]. split; [|reflexivity].
    change [c_0] with ([c_0] ++ [] ++ []). constructor; constructor.
  - rewrite (general_scan c t Hc Ez) in H.
    destruct (take_nc t) as [run rest] eqn:T. destruct (take_nc_spec t run rest T) as (-> & Hall & Hterm).
    pose proof (sim run rest Hall Hterm I 1 (-1) (-1) (-1) (Z.le_refl 1) Inv_start) as S.
    destruct (scan_loop (run ++ rest) 1 (-1) (-1) (-1)) as [r'|len di ei si].
    + destruct S as [S _]. lia.
    + destruct S as [Hlen HI].
      pose proof (check_index_acc (run_dfa I run) len di ei si ltac:(lia) HI) as CI.
      destruct (is_acc (run_dfa I run)) eqn:Eacc; [|lia].
      destruct (acc_I run Eacc) as (ds & f & e & -> & Hds & Hf & He).
      exists ((c :: ds) ++ f ++ e), rest. split; [cbn; rewrite <- !app_assoc; reflexivity|]. split.
      * constructor; [|exact Hf|exact He].
        destruct (is_digit19 c) eqn:E19; [constructor; assumption|].
        assert (c = c_0).
        { apply is_digit_range in Hc. unfold is_digit19 in E19. apply andb_false_iff in E19. unfold c_0.
          destruct E19 as [E|E]; apply N.leb_gt in E; lia. }
        subst c. change ((c_0 =? c_0)%N) with true in Ez. cbn [andb] in Ez.
        destruct ds as [|d ds']; [constructor|]. exfalso.
        cbn in Hds. apply andb_true_iff in Hds as [Hd _]. cbn in Ez.
        destruct (digit_not_special d Hd) as (A & B & _). rewrite A, B in Ez. discriminate.
      * rewrite <- H, CI, Hlen. cbn [length app]. rewrite !app_length. lia.
Qed.

Theorem do_skip_number_complete : forall u rest, unsigned_number u -> terminated rest ->
  do_skip_number (u ++ rest) = Z.of_nat (length u).
Proof.
  intros u rest Hu Hterm. destruct Hu as [i f e Hi Hf He].
  assert (Hnde : terminated rest -> not_dot_exp rest).
  { destruct rest as [|c1 r]; [auto|]. cbn. unfold is_numchar. intros H.
    apply orb_false_iff in H as [H _]. apply orb_false_iff in H as [H H2]. apply orb_false_iff in H as [_ H1].
    rewrite H1, H2. reflexivity. }
  assert (Gen : forall c ds, is_digit c = true -> all_digits ds = true ->
            ((c =? c_0)%N && match ds ++ f ++ e ++ rest with [] => true | c1 :: _ => negb (is_dot c1 || is_exp c1) end) = false ->
            do_skip_number ((c :: ds) ++ f ++ e ++ rest) = Z.of_nat (length ((c :: ds) ++ f ++ e))).
  { intros c ds Hc Hds Ez. cbn [app]. rewrite (general_scan c _ Hc Ez).
    assert (Hall : all_numchar (ds ++ f ++ e) = true).
    { rewrite !all_numchar_app, (all_digits_numchar _ Hds), (frac_numchar _ Hf), (exp_numchar _ He). reflexivity. }
    replace (ds ++ f ++ e ++ rest) with ((ds ++ f ++ e) ++ rest) by (rewrite <- !app_assoc; reflexivity).
    pose proof (sim (ds ++ f ++ e) rest Hall Hterm I 1 (-1) (-1) (-1) (Z.le_refl 1) Inv_start) as S.
    pose proof (run_tail_acc ds f e Hds Hf He) as Hacc.
    destruct (scan_loop ((ds ++ f ++ e) ++ rest) 1 (-1) (-1) (-1)) as [r'|len di ei si].
    - destruct S as [_ S]. rewrite S in Hacc. discriminate.
    - destruct S as [Hlen HI].
      pose proof (check_index_acc _ len di ei si ltac:(lia) HI) as CI. rewrite Hacc in CI.
      rewrite CI, Hlen. cbn [length]. lia. }
  destruct Hi as [|c ds Hc Hds].
  - destruct Hf as [|l Hl].
    + destruct He as [|c l Hc Hl|c s l Hc Hs Hl].
      * cbn [app]. rewrite leading_zero_case by (apply Hnde; exact Hterm). reflexivity.
      * rewrite <- app_assoc. apply (Gen c_0 []); [reflexivity|reflexivity|].
        cbn [app]. rewrite Hc, orb_true_r. reflexivity.
      * rewrite <- app_assoc. apply (Gen c_0 []); [reflexivity|reflexivity|].
        cbn [app]. rewrite Hc, orb_true_r. reflexivity.
    + rewrite <- !app_assoc. apply (Gen c_0 []); [reflexivity|reflexivity|]. reflexivity.
  - rewrite <- !app_assoc. apply (Gen c ds); [apply digit19_digit; exact Hc|exact Hds|].
    assert ((c =? c_0)%N = false) as ->; [|reflexivity].
    apply N.eqb_neq. intros ->. discriminate.
Qed.

(* ---- skip_number_1: optional minus, first byte must be a digit ---------------------------------- *)
Lemma unsigned_starts_digit : forall u, unsigned_number u -> exists d t, u = d :: t /\ is_digit d = true.
Proof.
  intros u H. destruct H as [i f e Hi Hf He]. destruct Hi as [|c ds Hc Hds].
  - exists c_0, (f ++ e). split; reflexivity.
  - exists c, (ds ++ f ++ e). split; [reflexivity|apply digit19_digit; exact Hc].
Qed.

Theorem skip_number_complete : forall pre lit rest, json_number lit -> terminated rest ->
  skip_number (pre ++ lit ++ rest) (length pre) =
    (Z.of_nat (length pre), Z.of_nat (length pre) + Z.of_nat (length lit)).
Proof.
  intros pre lit rest Hlit Hterm. unfold skip_number. rewrite skipn_app_len.
  destruct Hlit as [u Hu | u Hu].
  - destruct (unsigned_starts_digit u Hu) as (d & t & -> & Hd).
    cbn [app]. destruct (digit_not_special d Hd) as (_ & _ & _ & Em). rewrite Em, Hd. cbn [negb].
    change (d :: t ++ rest) with ((d :: t) ++ rest).
    rewrite (do_skip_number_complete (d :: t) rest Hu Hterm).
    rewrite (proj2 (Z.ltb_ge _ _)) by lia. f_equal. lia.
  - destruct (unsigned_starts_digit u Hu) as (d & t & -> & Hd).
    cbn [app]. change ((c_minus =? c_minus)%N) with true. cbn iota. rewrite Hd. cbn [negb].
    change (d :: t ++ rest) with ((d :: t) ++ rest).
    rewrite (do_skip_number_complete (d :: t) rest Hu Hterm).
    rewrite (proj2 (Z.ltb_ge _ _)) by lia. f_equal. cbn [length]. lia.
Qed.

Theorem skip_number_sound : forall s p ret np, skip_number s p = (ret, np) -> 0 <= ret ->
  ret = Z.of_nat p /\
  exists lit rest, skipn p s = lit ++ rest /\ json_number lit /\ np = Z.of_nat p + Z.of_nat (length lit).
Proof.
  intros s p ret np H Hret. unfold skip_number in H.
  destruct (skipn p s) as [|c t] eqn:Hsk; [inversion H; lia|].
  destruct ((c =? c_minus)%N) eqn:Em.
  - apply N.eqb_eq in Em. subst c. destruct t as [|d t']; [inversion H; lia|].
    destruct (is_digit d) eqn:Hd; cbn [negb] in H; [|inversion H; lia]. cbv zeta in H.
    revert H. destruct (do_skip_number (d :: t') <? 0) eqn:Er; intros H; [inversion H; lia|]. apply Z.ltb_ge in Er.
    pose proof (f_equal fst H) as H1; pose proof (f_equal snd H) as H2; cbn [fst snd] in H1, H2; subst ret np.
    split; [reflexivity|].
    destruct (do_skip_number_sound d t' _ Hd eq_refl Er) as (u & rest & Heq & Hu & Hlen).
    exists (c_minus :: u), rest. split; [cbn; f_equal; exact Heq|]. split; [apply jn_neg; exact Hu|].
    rewrite Hlen. cbn [length]. lia.
  - destruct (is_digit c) eqn:Hd; cbn [negb] in H; [|inversion H; lia]. cbv zeta in H.
    revert H. destruct (do_skip_number (c :: t) <? 0) eqn:Er; intros H; [inversion H; lia|]. apply Z.ltb_ge in Er.
    pose proof (f_equal fst H) as H1; pose proof (f_equal snd H) as H2; cbn [fst snd] in H1, H2; subst ret np.
    split; [reflexivity|].
    destruct (do_skip_number_sound c t _ Hd eq_refl Er) as (u & rest & Heq & Hu & Hlen).
    exists u, rest. split; [exact Heq|]. split; [apply jn_pos; exact Hu|]. rewrite Hlen. lia.
Qed.

Example skip_number_examples :
  skip_number [91;45;49;46;53;101;43;51;44]%N 1 = (1, 8) /\
  fst (skip_number [49;46;101;53]%N 0) = -2 /\ fst (skip_number [49;101;43;44]%N 0) = -2 /\
  skip_number [48;49]%N 0 = (0, 1).
Proof. repeat split; reflexivity. Qed.
