(* C19 - the digit chunking of native/f64toa.c / f32toa.c (format_integer, format_significand: 8 + 4 + 2 digit
   groups through the Digits table) produces exactly the canonical decimal digits of the significand. *)
From Coq Require Import ZArith NArith Bool List Lia.
From SV.Num Require Import Dec DecLemmas IntPrint IntPrintProofs IntPrintExact FloatFmt.
Import ListNotations.
Open Scope Z_scope.

(* the part after the 10^4 loop, for a value below 10^4, is u32toa_small *)
Definition tail_fmt (s2 : Z) (acc : list N) : list N :=
  let '(s3, acc3) := if 100 <=? s2 then (s2 / 100, two ((s2 mod 100) * 2) ++ acc) else (s2, acc) in
  fmt_head s3 acc3.

Definition tail_ok (v : Z) : bool := list_eqb (tail_fmt v []) (u32toa_small v).
Lemma tail_all : forallb tail_ok (zrange n10k) = true.
Proof. vm_compute. reflexivity. Qed.

Lemma fmt_head_acc : forall s acc, fmt_head s acc = fmt_head s [] ++ acc.
Proof. intros. unfold fmt_head. destruct (10 <=? s); [rewrite app_nil_r|]; reflexivity. Qed.

Lemma tail_fmt_acc : forall s acc, tail_fmt s acc = tail_fmt s [] ++ acc.
Proof.
  intros. unfold tail_fmt. destruct (100 <=? s).
  - rewrite fmt_head_acc, (fmt_head_acc _ (_ ++ [])), app_nil_r, <- app_assoc. reflexivity.
  - apply fmt_head_acc.
Qed.

Lemma tail_fmt_small : forall s acc, 0 <= s < 10000 -> tail_fmt s acc = u32toa_small s ++ acc.
Proof.
  intros s acc H. rewrite tail_fmt_acc. f_equal. pose proof tail_all as A. rewrite forallb_forall in A.
  apply list_eqb_eq. apply (A s). apply zrange_in. rewrite n10k_val. lia.
Qed.

(* digits of a 32-bit value as produced by `while (sig2 >= 10000) ...; if (sig2 >= 100) ...; ...` *)
Definition fmt32 (s : Z) (acc : list N) : list N :=
  let '(s2, acc2) := fmt_loop4 3 s acc in tail_fmt s2 acc2.

Lemma four_sub : forall s, four (s - 10000 * (s / 10000)) = four (s mod 10000).
Proof. intros. f_equal. rewrite Z.mod_eq by lia. reflexivity. Qed.

Lemma fmt32_canonical : forall s acc, 1 <= s < 2 ^ 32 -> exists h, fmt32 s acc = h ++ acc /\ canonical h s.
Proof.
  intros s acc H. change (2 ^ 32) with 4294967296 in H. unfold fmt32. cbn [fmt_loop4].
  destruct (10000 <=? s) eqn:E1; [apply Z.leb_le in E1|apply Z.leb_gt in E1].
  - rewrite ?four_sub.
    assert (Hq : 1 <= s / 10000 < 429497) by (split; [apply Z.div_le_lower_bound; lia|apply Z.div_lt_upper_bound; lia]).
    assert (Hr : 0 <= s mod 10000 < 10000) by (apply Z.mod_pos_bound; lia).
    destruct (four_spec _ Hr) as (A1 & V1 & L1 & _).
    destruct (10000 <=? s / 10000) eqn:E2; [apply Z.leb_le in E2|apply Z.leb_gt in E2].
    + rewrite ?four_sub.
      assert (Hq2 : 1 <= s / 10000 / 10000 < 43) by (split; [apply Z.div_le_lower_bound; lia|apply Z.div_lt_upper_bound; lia]).
      assert (Hr2 : 0 <= (s / 10000) mod 10000 < 10000) by (apply Z.mod_pos_bound; lia).
      destruct (four_spec _ Hr2) as (A2 & V2 & L2 & _).
      rewrite (proj2 (Z.leb_gt _ _)) by lia.
      rewrite tail_fmt_small by lia. rewrite ?four_sub.
      exists (u32toa_small (s / 10000 / 10000) ++ four ((s / 10000) mod 10000) ++ four (s mod 10000)).
      split; [rewrite <- !app_assoc; reflexivity|].
      set (q2 := s / 10000 / 10000) in *. set (r2 := (s / 10000) mod 10000) in *. set (r1 := s mod 10000) in *.
      assert (Ev : q2 * 10 ^ Z.of_nat 8 + (r2 * 10000 + r1) = s).
      { change (10 ^ Z.of_nat 8) with 100000000. unfold q2, r2, r1.
        pose proof (Z.div_mod s 10000). pose proof (Z.div_mod (s / 10000) 10000). lia. }
      rewrite <- Ev. apply canonical_app; [apply small_canonical; lia|lia| | |].
      * rewrite all_digits_app, A2, A1. reflexivity.
      * rewrite app_length, L2, L1. reflexivity.
      * rewrite dec_val_app, V2, V1, L1. change (10 ^ Z.of_nat 4) with 10000. reflexivity.
    + rewrite tail_fmt_small by lia.
      exists (u32toa_small (s / 10000) ++ four (s mod 10000)). split; [rewrite <- app_assoc; reflexivity|].
      set (q := s / 10000) in *. set (r := s mod 10000) in *.
      assert (Ev : q * 10 ^ Z.of_nat 4 + r = s)
        by (change (10 ^ Z.of_nat 4) with 10000; unfold q, r; pose proof (Z.div_mod s 10000); lia).
      rewrite <- Ev. apply canonical_app; [apply small_canonical; lia|lia|exact A1|exact L1|exact V1].
  - rewrite tail_fmt_small by lia. exists (u32toa_small s). split; [reflexivity|apply small_canonical; lia].
Qed.

(* the 32-bit wrap-around subtraction that extracts the low eight digits *)
Lemma low8_trick : forall sig, 0 <= sig < 10 ^ 17 ->
  (sig mod 2 ^ 32 - 100000000 * ((sig / 100000000) mod 2 ^ 32)) mod 2 ^ 32 = sig mod 100000000.
Proof.
  intros sig H. set (q := sig / 100000000). set (r := sig mod 100000000).
  assert (Hq : 0 <= q < 2 ^ 32).
  { unfold q. split; [apply Z.div_pos; lia|]. apply Z.div_lt_upper_bound; [lia|].
    change (2 ^ 32) with 4294967296. change (10 ^ 17) with 100000000000000000 in H. lia. }
  assert (Hr : 0 <= r < 100000000) by (apply Z.mod_pos_bound; lia).
  rewrite (Z.mod_small q) by lia.
  assert (E : sig = 100000000 * q + r) by (unfold q, r; apply Z.div_mod; lia).
  rewrite Zminus_mod_idemp_l.
  replace (sig - 100000000 * q) with r by lia. apply Z.mod_small. change (2 ^ 32) with 4294967296. lia.
Qed.

Lemma eight_as_fours : forall r, 0 <= r < 100000000 ->
  four ((r / 10000) mod 10000) ++ four (r mod 10000) = eight r.
Proof.
  intros r H. unfold eight. rewrite (Z.mod_small (r / 10000)); [reflexivity|].
  split; [apply Z.div_pos; lia|apply Z.div_lt_upper_bound; lia].
Qed.

Lemma format_integer_unfold : forall sig, format_integer sig =
  let '(sig1, acc1) :=
    if (sig / 2 ^ 32 =? 0) then (sig, [])
    else let q := sig / 100000000 in
         let r := (sig mod 2 ^ 32 - 100000000 * (q mod 2 ^ 32)) mod 2 ^ 32 in
         (q, four ((r / 10000) mod 10000) ++ four (r mod 10000)) in
  fmt32 (sig1 mod 2 ^ 32) acc1.
Proof. reflexivity. Qed.

Theorem format_integer_exact : forall sig, 1 <= sig < 10 ^ 17 -> format_integer sig = canon_dec sig.
Proof.
  intros sig H. apply canonical_unique with sig; [|apply canon_dec_canonical; lia].
  rewrite format_integer_unfold. change (10 ^ 17) with 100000000000000000 in H.
  destruct (sig / 2 ^ 32 =? 0) eqn:E; [apply Z.eqb_eq in E|apply Z.eqb_neq in E].
  - assert (Hs : sig < 2 ^ 32).
    { destruct (Z_lt_le_dec sig (2 ^ 32)); [assumption|exfalso].
      assert (1 <= sig / 2 ^ 32) by (apply Z.div_le_lower_bound; lia). lia. }
    rewrite Z.mod_small by lia.
    destruct (fmt32_canonical sig [] ltac:(lia)) as (h & -> & C). rewrite app_nil_r. exact C.
  - assert (Hs : 2 ^ 32 <= sig).
    { destruct (Z_lt_le_dec sig (2 ^ 32)); [|assumption]. exfalso. apply E. apply Z.div_small. lia. }
    change (2 ^ 32) with 4294967296 in Hs. cbv zeta.
    rewrite low8_trick by (change (10 ^ 17) with 100000000000000000; lia).
    set (q := sig / 100000000) in *. set (r := sig mod 100000000) in *.
    assert (Hq : 1 <= q < 1000000000) by (unfold q; split; [apply Z.div_le_lower_bound; lia|apply Z.div_lt_upper_bound; lia]).
    assert (Hr : 0 <= r < 100000000) by (apply Z.mod_pos_bound; lia).
    rewrite eight_as_fours by exact Hr.
    rewrite (Z.mod_small q) by (change (2 ^ 32) with 4294967296; lia).
    destruct (fmt32_canonical q (eight r) ltac:(change (2 ^ 32) with 4294967296; lia)) as (h & -> & C).
    destruct (eight_spec r Hr) as (A & V & L).
    assert (Ev : q * 10 ^ Z.of_nat 8 + r = sig)
      by (change (10 ^ Z.of_nat 8) with 100000000; unfold q, r; pose proof (Z.div_mod sig 100000000); lia).
    rewrite <- Ev. apply canonical_app; [exact C|lia|exact A|exact L|exact V].
Qed.
