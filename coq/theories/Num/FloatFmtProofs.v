(* C19 - the digit chunking of native/f64toa.c / f32toa.c (format_integer, format_significand: 8 + 4 + 2 digit
   groups through the Digits table) produces exactly the canonical decimal digits of the significand. *)
From Coq Require Import ZArith NArith Bool List Lia.
From SV.Num Require Import Dec DecLemmas IntPrint IntPrintProofs IntPrintExact FloatFmt.
Import ListNotations.
Open Scope Z_scope.

(* the part after the 10^4 loop, for a value below 10^4, is u32toa_small *)
Definition tail_fmt (s2 : Z) (acc : list N) : list N :=
  let '(s3, acc3) := if 100 <=? s2 then (s2 / 100, two ((s2 mod 100) * 2) ++ acc) else (s2, acc) in
  fmt_head s3 acc3.

Definition tail_ok (v : Z) : bool := list_eqb (tail_fmt v []) (u32toa_small v).
Lemma tail_all : forallb tail_ok (zrange n10k) = true.
Proof. vm_compute. reflexivity. Qed.

Lemma fmt_head_acc : forall s acc, fmt_head s acc = fmt_head s [] ++ acc.
Proof. intros. unfold fmt_head. destruct (10 <=? s); [rewrite app_nil_r|]; reflexivity. Qed.

Lemma tail_fmt_acc : forall s acc, tail_fmt s acc = tail_fmt s [] ++ acc.
Proof.
  intros. unfold tail_fmt. destruct (100 <=? s).
  - rewrite fmt_head_acc, (fmt_head_acc _ (_ ++ [])), app_nil_r, <- app_assoc. reflexivity.
  - apply fmt_head_acc.
Qed.

Lemma tail_fmt_small : forall s acc, 0 <= s < 10000 -> tail_fmt s acc = u32toa_small s ++ acc.
Proof.
  intros s acc H. rewrite tail_fmt_acc. f_equal. pose proof tail_all as A. rewrite forallb_forall in A.
  apply list_eqb_eq. apply (A s). apply zrange_in. rewrite n10k_val. lia.
Qed.

(* digits of a 32-bit value as produced by `while (sig2 >= 10000) ...; if (sig2 >= 100) ...; ...` *)
Definition fmt32 (s : Z) (acc : list N) : list N :=
  let '(s2, acc2) := fmt_loop4 3 s acc in tail_fmt s2 acc2.

Lemma four_sub : forall s, four (s - 10000 * (s / 10000)) = four (s mod 10000).
Proof. intros. f_equal. rewrite Z.mod_eq by lia. reflexivity. Qed.

Lemma fmt32_canonical : forall s acc, 1 <= s < 2 ^ 32 -> exists h, fmt32 s acc = h ++ acc /\ canonical h s.
Proof.
  intros s acc H. change (2 ^ 32) with 4294967296 in H. unfold fmt32. cbn [fmt_loop4].
  destruct (10000 <=? s) eqn:E1; [apply Z.leb_le in E1|apply Z.leb_gt in E1].
  - rewrite ?four_sub.
    assert (Hq : 1 <= s / 10000 < 429497) by (split; [apply Z.div_le_lower_bound; lia|apply Z.div_lt_upper_bound; lia]).
    assert (Hr : 0 <= s mod 10000 < 10000) by (apply Z.mod_pos_bound; lia).
    destruct (four_spec _ Hr) as (A1 & V1 & L1 & _).
    destruct (10000 <=? s / 10000) eqn:E2; [apply Z.leb_le in E2|apply Z.leb_gt in E2].
    + rewrite ?four_sub.
      assert (Hq2 : 1 <= s / 10000 / 10000 < 43) by (split; [apply Z.div_le_lower_bound; lia|apply Z.div_lt_upper_bound; lia]).
      assert (Hr2 : 0 <= (s / 10000) mod 10000 < 10000) by (apply Z.mod_pos_bound; lia).
      destruct (four_spec _ Hr2) as (A2 & V2 & L2 & _).
      rewrite (proj2 (Z.leb_gt _ _)) by lia.
      rewrite tail_fmt_small by lia. rewrite ?four_sub.
      exists (u32toa_small (s / 10000 / 10000) ++ four ((s / 10000) mod 10000) ++ four (s mod 10000)).
      split; [rewrite <- !app_assoc; reflexivity|].
      set (q2 := s / 10000 / 10000) in *. set (r2 := (s / 10000) mod 10000) in *. set (r1 := s mod 10000) in *.
      assert (Ev : q2 * 10 ^ Z.of_nat 8 + (r2 * 10000 + r1) = s).
      { change (10 ^ Z.of_nat 8) with 100000000. unfold q2, r2, r1.
        pose proof (Z.div_mod s 10000). pose proof (Z.div_mod (s / 10000) 10000). lia. }
      rewrite <- Ev. apply canonical_app; [apply small_canonical; lia|lia| | |].
      * rewrite all_digits_app, A2, A1. reflexivity.
      * rewrite app_length, L2, L1. reflexivity.
      * rewrite dec_val_app, V2, V1, L1. change (10 ^ Z.of_nat 4) with 10000. reflexivity.
    + rewrite tail_fmt_small by lia.
      exists (u32toa_small (s / 10000) ++ four (s mod 10000)). split; [rewrite <- app_assoc; reflexivity|].
      set (q := s / 10000) in *. set (r := s mod 10000) in *.
      assert (Ev : q * 10 ^ Z.of_nat 4 + r = s)
        by (change (10 ^ Z.of_nat 4) with 10000; unfold q, r; pose proof (Z.div_mod s 10000); lia).
      rewrite <- Ev. apply canonical_app; [apply small_canonical; lia|lia|exact A1|exact L1|exact V1].
  - rewrite tail_fmt_small by lia. exists (u32toa_small s). split; [reflexivity|apply small_canonical; lia].
Qed.

(* the 32-bit wrap-around subtraction that extracts the low eight digits *)
Lemma low8_trick : forall sig, 0 <= sig < 10 ^ 17 ->
  (sig mod 2 ^ 32 - 100000000 * ((sig / 100000000) mod 2 ^ 32)) mod 2 ^ 32 = sig mod 100000000.
Proof.
  intros sig H. set (q := sig / 100000000). set (r := sig mod 100000000).
  assert (Hq : 0 <= q < 2 ^ 32).
  { unfold q. split; [apply Z.div_pos; lia|]. apply Z.div_lt_upper_bound; [lia|].
    change (2 ^ 32) with 4294967296. change (10 ^ 17) with 100000000000000000 in H. lia. }
  assert (Hr : 0 <= r < 100000000) by (apply Z.mod_pos_bound; lia).
  rewrite (Z.mod_small q) by lia.
  assert (E : sig = 100000000 * q + r) by (unfold q, r; apply Z.div_mod; lia).
  rewrite Zminus_mod_idemp_l.
  replace (sig - 100000000 * q) with r by lia. apply Z.mod_small. change (2 ^ 32) with 4294967296. lia.
Qed.

Lemma eight_as_fours : forall r, 0 <= r < 100000000 ->
  four ((r / 10000) mod 10000) ++ four (r mod 10000) = eight r.
Proof.
  intros r H. unfold eight. rewrite (Z.mod_small (r / 10000)); [reflexivity|].
  split; [apply Z.div_pos; lia|apply Z.div_lt_upper_bound; lia].
Qed.

Lemma format_integer_unfold : forall sig, format_integer sig =
  let '(sig1, acc1) :=
    if (sig / 2 ^ 32 =? 0) then (sig, [])
    else let q := sig / 100000000 in
         let r := (sig mod 2 ^ 32 - 100000000 * (q mod 2 ^ 32)) mod 2 ^ 32 in
         (q, four ((r / 10000) mod 10000) ++ four (r mod 10000)) in
  fmt32 (sig1 mod 2 ^ 32) acc1.
Proof. reflexivity. Qed.

Theorem format_integer_exact : forall sig, 1 <= sig < 10 ^ 17 -> format_integer sig = canon_dec sig.
Proof.
  intros sig H. apply canonical_unique with sig; [|apply canon_dec_canonical; lia].
  rewrite format_integer_unfold. change (10 ^ 17) with 100000000000000000 in H.
  destruct (sig / 2 ^ 32 =? 0) eqn:E; [apply Z.eqb_eq in E|apply Z.eqb_neq in E].
  - assert (Hs : sig < 2 ^ 32).
    { destruct (Z_lt_le_dec sig (2 ^ 32)); [assumption|exfalso].
      assert (1 <= sig / 2 ^ 32) by (apply Z.div_le_lower_bound; lia). lia. }
    rewrite Z.mod_small by lia.
    destruct (fmt32_canonical sig [] ltac:(lia)) as (h & -> & C). rewrite app_nil_r. exact C.
  - assert (Hs : 2 ^ 32 <= sig).
    { destruct (Z_lt_le_dec sig (2 ^ 32)); [|assumption]. exfalso. apply E. apply Z.div_small. lia. }
    change (2 ^ 32) with 4294967296 in Hs. cbv zeta.
    rewrite low8_trick by (change (10 ^ 17) with 100000000000000000; lia).
    set (q := sig / 100000000) in *. set (r := sig mod 100000000) in *.
    assert (Hq : 1 <= q < 1000000000) by (unfold q; split; [apply Z.div_le_lower_bound; lia|apply Z.div_lt_upper_bound; lia]).
    assert (Hr : 0 <= r < 100000000) by (apply Z.mod_pos_bound; lia).
    rewrite eight_as_fours by exact Hr.
    rewrite (Z.mod_small q) by (change (2 ^ 32) with 4294967296; lia).
    destruct (fmt32_canonical q (eight r) ltac:(change (2 ^ 32) with 4294967296; lia)) as (h & -> & C).
    destruct (eight_spec r Hr) as (A & V & L).
    assert (Ev : q * 10 ^ Z.of_nat 8 + r = sig)
      by (change (10 ^ Z.of_nat 8) with 100000000; unfold q, r; pose proof (Z.div_mod sig 100000000); lia).
    rewrite <- Ev. apply canonical_app; [exact C|lia|exact A|exact L|exact V].
Qed.

(* ---- format_significand: same digits, the low eight dropped when they are all zero ------------------ *)
Lemma format_significand_unfold : forall sig, format_significand sig =
  let '(sig1, acc1) :=
    if (sig / 2 ^ 32 =? 0) then (sig, [])
    else let q := sig / 100000000 in
         let r := (sig mod 2 ^ 32 - 100000000 * (q mod 2 ^ 32)) mod 2 ^ 32 in
         (q, if r =? 0 then [] else four ((r / 10000) mod 10000) ++ four (r mod 10000)) in
  fmt32 (sig1 mod 2 ^ 32) acc1.
Proof. reflexivity. Qed.

Lemma strip0_rev_zeros : forall n l, strip0_rev (repeat c_0 n ++ l) = strip0_rev l.
Proof. induction n; intros; cbn; [reflexivity|apply IHn]. Qed.

Lemma rev_repeat : forall (c : N) n, rev (repeat c n) = repeat c n.
Proof.
  induction n; [reflexivity|]. cbn [repeat rev]. rewrite IHn. clear IHn.
  induction n; [reflexivity|]. cbn. rewrite IHn. reflexivity.
Qed.

Lemma strip_app_zeros : forall l n, strip_trailing_zeros (l ++ repeat c_0 n) = strip_trailing_zeros l.
Proof. intros. unfold strip_trailing_zeros. rewrite rev_app_distr, rev_repeat, strip0_rev_zeros. reflexivity. Qed.

Lemma eight_zero : eight 0 = repeat c_0 8.
Proof. reflexivity. Qed.

Lemma canon_dec_shift8 : forall q, 1 <= q -> canon_dec (q * 100000000) = canon_dec q ++ repeat c_0 8.
Proof.
  intros q Hq. apply canonical_unique with (q * 100000000); [apply canon_dec_canonical; lia|].
  replace (q * 100000000) with (q * 10 ^ Z.of_nat 8 + 0) by (change (10 ^ Z.of_nat 8) with 100000000; lia).
  apply canonical_app; [apply canon_dec_canonical; lia|lia|reflexivity|reflexivity|reflexivity].
Qed.

Theorem format_significand_strip : forall sig, 1 <= sig < 10 ^ 17 ->
  strip_trailing_zeros (format_significand sig) = strip_trailing_zeros (canon_dec sig).
Proof.
  intros sig H. rewrite format_significand_unfold. change (10 ^ 17) with 100000000000000000 in H.
  destruct (sig / 2 ^ 32 =? 0) eqn:E; [apply Z.eqb_eq in E|apply Z.eqb_neq in E].
  - (* identical to format_integer *)
    rewrite <- (format_integer_exact sig) by (change (10 ^ 17) with 100000000000000000; lia).
    rewrite format_integer_unfold, E. reflexivity.
  - assert (Hs : 2 ^ 32 <= sig).
    { destruct (Z_lt_le_dec sig (2 ^ 32)); [|assumption]. exfalso. apply E. apply Z.div_small. lia. }
    change (2 ^ 32) with 4294967296 in Hs. cbv zeta.
    rewrite low8_trick by (change (10 ^ 17) with 100000000000000000; lia).
    destruct (sig mod 100000000 =? 0) eqn:Er; [apply Z.eqb_eq in Er|apply Z.eqb_neq in Er].
    + set (q := sig / 100000000) in *.
      assert (Hq : 1 <= q < 1000000000) by (unfold q; split; [apply Z.div_le_lower_bound; lia|apply Z.div_lt_upper_bound; lia]).
      rewrite (Z.mod_small q) by (change (2 ^ 32) with 4294967296; lia).
      destruct (fmt32_canonical q [] ltac:(change (2 ^ 32) with 4294967296; lia)) as (h & -> & C). rewrite app_nil_r.
      assert (Eh : h = canon_dec q) by (apply canonical_unique with q; [exact C|apply canon_dec_canonical; lia]).
      assert (Es : sig = q * 100000000) by (unfold q; pose proof (Z.div_mod sig 100000000); lia).
      rewrite Eh, Es, canon_dec_shift8 by lia. rewrite strip_app_zeros. reflexivity.
    + rewrite <- (format_integer_exact sig) by (change (10 ^ 17) with 100000000000000000; lia).
      rewrite format_integer_unfold. apply Z.eqb_neq in E. rewrite E. cbv zeta.
      rewrite low8_trick by (change (10 ^ 17) with 100000000000000000; lia). reflexivity.
Qed.

(* ---- ctz10 is the number of decimal digits --------------------------------------------------------- *)
Lemma canonical_len_bounds : forall l v, canonical l v -> 1 <= v ->
  10 ^ (Z.of_nat (length l) - 1) <= v < 10 ^ Z.of_nat (length l).
Proof.
  intros l v (A & Nn & V & Z0) Hv. split.
  - destruct l as [|c [|c' t]]; [congruence| |].
    + cbn. lia.
    + cbn in Z0. cbn in A. apply andb_true_iff in A as [Hc At].
      pose proof (dec_val_lower c (c' :: t) Hc Z0 At) as Lo. rewrite V in Lo.
      replace (Z.of_nat (length (c :: c' :: t)) - 1) with (Z.of_nat (length (c' :: t))) by (cbn [length]; lia). exact Lo.
  - rewrite <- V. apply dec_val_bound. exact A.
Qed.

Lemma digits_of_range : forall v n, 1 <= n -> 10 ^ (n - 1) <= v < 10 ^ n -> Z.of_nat (length (canon_dec v)) = n.
Proof.
  intros v n Hn Hv. assert (1 <= v) by (pose proof (Z.pow_pos_nonneg 10 (n - 1)); lia).
  pose proof (canonical_len_bounds _ _ (canon_dec_canonical v ltac:(lia)) H) as B.
  set (L := Z.of_nat (length (canon_dec v))) in *.
  assert (HL : 1 <= L).
  { unfold L. destruct (canon_dec_canonical v ltac:(lia)) as (_ & Nn & _). destruct (canon_dec v); [congruence|cbn; lia]. }
  destruct (Z.lt_trichotomy L n) as [Hlt | [Heq | Hgt]]; [exfalso|exact Heq|exfalso].
  - assert (10 ^ L <= 10 ^ (n - 1)) by (apply Z.pow_le_mono_r; lia). lia.
  - assert (10 ^ n <= 10 ^ (L - 1)) by (apply Z.pow_le_mono_r; lia). lia.
Qed.

Lemma ctz10_digits : forall v, 1 <= v < 10 ^ 17 -> ctz10 v = Z.of_nat (length (canon_dec v)).
Proof.
  intros v H. change (10 ^ 17) with 100000000000000000 in H. unfold ctz10.
  repeat match goal with
         | |- context [?a <=? ?b] => destruct (Z.leb_spec a b)
         | |- context [?a <? ?b] => destruct (Z.ltb_spec a b)
         end; symmetry; apply digits_of_range; try lia;
    match goal with |- 10 ^ ?a <= _ < 10 ^ ?b => let x := eval vm_compute in (10 ^ a) in let y := eval vm_compute in (10 ^ b) in
      change (10 ^ a) with x; change (10 ^ b) with y end; lia.
Qed.

(* ---- write_dec (float64) in terms of the canonical digits --------------------------------------------- *)
Definition ideal_len (s : Z) : Z := Z.of_nat (length (canon_dec s)).
Definition write_dec_ideal := write_dec canon_dec canon_dec ideal_len.

Theorem write_dec_f64_ideal : forall sig exp, 1 <= sig < 10 ^ 17 -> write_dec_f64 sig exp = write_dec_ideal sig exp.
Proof.
  intros sig exp H. unfold write_dec_f64, write_dec_ideal, write_dec, format_exponent, format_decimal, ideal_len.
  rewrite (ctz10_digits sig H), (format_significand_strip sig H), (format_integer_exact sig H). reflexivity.
Qed.

Theorem write_dec_layout : forall sig exp, 1 <= sig < 10 ^ 17 ->
  write_dec_f64 sig exp = write_dec_ideal sig exp /\
  ctz10 sig = Z.of_nat (length (canon_dec sig)).
Proof. intros sig exp H. split; [apply write_dec_f64_ideal; exact H|apply ctz10_digits; exact H]. Qed.
