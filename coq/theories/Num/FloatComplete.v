(* C19 - completeness of the rounding function: for a positive fraction the exponent guessed from the bit
   lengths always passes the self-check, i.e. rne_frac never answers RBad. *)
From Coq Require Import ZArith Bool Lia.
From SV.Num Require Import Dec FloatCheck FloatSpec FloatCheckProofs FloatCheckSound FloatInterval.
Open Scope Z_scope.

Lemma p2_pos : forall a, 0 <= a -> 0 < 2 ^ a.
Proof. intros. apply Z.pow_pos_nonneg; lia. Qed.

Lemma p2_add : forall a b, 0 <= a -> 0 <= b -> 2 ^ (a + b) = 2 ^ a * 2 ^ b.
Proof. intros. apply Z.pow_add_r; lia. Qed.

Lemma p2_le : forall a b, 0 <= a <= b -> 2 ^ a <= 2 ^ b.
Proof. intros. apply Z.pow_le_mono_r; lia. Qed.

Section Complete.
  Variable f : bfmt.
  Hypothesis W : wf_fmt f.
  Variables num den l1 l2 : Z.
  Hypothesis Hl1 : 0 <= l1.
  Hypothesis Hl2 : 0 <= l2.
  Hypothesis Hnum : 2 ^ l1 <= num < 2 ^ (l1 + 1).
  Hypothesis Hden : 2 ^ l2 <= den < 2 ^ (l2 + 1).
  Let E := - emin f.

  Lemma E_nonneg : 0 <= E. Proof. unfold E. destruct W as (_ & ? & _). lia. Qed.

  (* upper comparison of the fraction at exponent j with a power of two *)
  Lemma frac_at_ub : forall j c a b, 0 <= j -> 0 <= c -> frac_at f num den j = (a, b) ->
    l1 + 1 + E <= c + l2 + j -> a < 2 ^ c * b.
  Proof.
    intros j c a b Hj Hc Hf Hle. pose proof E_nonneg as HE. unfold frac_at in Hf. cbv zeta in Hf. fold E in Hf.
    replace (j + emin f) with (j - E) in Hf by (unfold E; lia).
    destruct (0 <=? j - E) eqn:Es; [apply Z.leb_le in Es|apply Z.leb_gt in Es]; inversion Hf; subst a b; clear Hf.
    - apply Z.lt_le_trans with (2 ^ (l1 + 1)); [lia|].
      apply Z.le_trans with (2 ^ (c + l2 + (j - E))); [apply p2_le; lia|].
      rewrite !p2_add by lia. pose proof (p2_pos c Hc). pose proof (p2_pos (j - E) Es).
      rewrite <- Z.mul_assoc. apply Z.mul_le_mono_nonneg_l; [lia|]. apply Z.mul_le_mono_nonneg_r; lia.
    - replace (- (j - E)) with (E - j) by lia.
      apply Z.lt_le_trans with (2 ^ (l1 + 1) * 2 ^ (E - j)).
      + apply Z.mul_lt_mono_pos_r; [apply p2_pos; lia|lia].
      + rewrite <- p2_add by lia. apply Z.le_trans with (2 ^ (c + l2)); [apply p2_le; lia|].
        rewrite p2_add by lia. apply Z.mul_le_mono_nonneg_l; [pose proof (p2_pos c Hc); lia|lia].
  Qed.

  Lemma frac_at_lb : forall j c a b, 0 <= j -> 0 <= c -> frac_at f num den j = (a, b) ->
    c + l2 + 1 + j <= l1 + E -> 2 ^ c * b < a.
  Proof.
    intros j c a b Hj Hc Hf Hle. pose proof E_nonneg as HE. unfold frac_at in Hf. cbv zeta in Hf.
    replace (j + emin f) with (j - E) in Hf by (unfold E; lia).
    destruct (0 <=? j - E) eqn:Es; [apply Z.leb_le in Es|apply Z.leb_gt in Es]; inversion Hf; subst a b; clear Hf.
    - apply Z.lt_le_trans with (2 ^ l1); [|lia].
      apply Z.lt_le_trans with (2 ^ c * (2 ^ (l2 + 1) * 2 ^ (j - E))).
      + apply Z.mul_lt_mono_pos_l; [apply p2_pos; lia|]. apply Z.mul_lt_mono_pos_r; [apply p2_pos; lia|lia].
      + rewrite <- !p2_add by lia. apply p2_le. lia.
    - replace (- (j - E)) with (E - j) by lia.
      apply Z.lt_le_trans with (2 ^ c * 2 ^ (l2 + 1)).
      + apply Z.mul_lt_mono_pos_l; [apply p2_pos; lia|lia].
      + rewrite <- p2_add by lia. apply Z.le_trans with (2 ^ l1 * 2 ^ (E - j)).
        * rewrite <- p2_add by lia. apply p2_le. lia.
        * apply Z.mul_le_mono_nonneg_r; [pose proof (p2_pos (E - j)); lia|lia].
  Qed.

  (* one exponent lower doubles the fraction *)
  Lemma frac_at_pred : forall j a b a' b', 1 <= j -> frac_at f num den j = (a, b) -> frac_at f num den (j - 1) = (a', b') ->
    a' * b = 2 * a * b' /\ 0 < b /\ 0 < b'.
  Proof.
    intros j a b a' b' Hj Hf Hf'. pose proof E_nonneg as HE. unfold frac_at in Hf, Hf'. cbv zeta in Hf, Hf'.
    replace (j + emin f) with (j - E) in Hf by (unfold E; lia).
    replace (j - 1 + emin f) with (j - E - 1) in Hf' by (unfold E; lia).
    assert (Hd : 0 < den) by (pose proof (p2_pos l2 Hl2); lia).
    destruct (0 <=? j - E) eqn:Es; [apply Z.leb_le in Es|apply Z.leb_gt in Es]; inversion Hf; subst a b; clear Hf.
    - destruct (0 <=? j - E - 1) eqn:Es'; [apply Z.leb_le in Es'|apply Z.leb_gt in Es']; inversion Hf'; subst a' b'; clear Hf'.
      + set (t := j - E - 1) in *. replace (j - E) with (Z.succ t) by (unfold t; lia). rewrite Z.pow_succ_r by lia.
        pose proof (p2_pos t Es'). split; [ring|]. split; apply Z.mul_pos_pos; lia.
      + assert (H0 : j - E = 0) by lia. rewrite H0. replace (- (0 - 1)) with 1 by lia.
        change (2 ^ 1) with 2. change (2 ^ 0) with 1. split; [ring|lia].
    - rewrite (proj2 (Z.leb_gt _ _)) in Hf' by lia. inversion Hf'; subst a' b'; clear Hf'.
      replace (- (j - E - 1)) with (Z.succ (- (j - E))) by lia. rewrite Z.pow_succ_r by lia. split; [ring|lia].
  Qed.
End Complete.

Theorem rne_frac_complete : forall f num den, wf_fmt f -> 0 < num -> 0 < den -> rne_frac f num den <> RBad.
Proof.
  intros f num den W Hn Hd. pose proof W as (W1 & W2 & W3).
  set (l1 := Z.log2 num). set (l2 := Z.log2 den).
  assert (Hl1 : 0 <= l1) by apply Z.log2_nonneg. assert (Hl2 : 0 <= l2) by apply Z.log2_nonneg.
  assert (Hnum : 2 ^ l1 <= num < 2 ^ (l1 + 1)) by (pose proof (Z.log2_spec num Hn); unfold l1; lia).
  assert (Hden : 2 ^ l2 <= den < 2 ^ (l2 + 1)) by (pose proof (Z.log2_spec den Hd); unfold l2; lia).
  unfold rne_frac. rewrite (proj2 (Z.eqb_neq _ _)) by lia. cbv zeta. fold l1 l2.
  set (j0 := l1 - l2 - emin f - (prec f - 1)).
  pose proof (P_2H f W1) as PH. cbv zeta in PH. pose proof (Hh_pos f W1) as HP. fold (hid f) in PH, HP.
  (* the facts the self-check tests, for the chosen j *)
  assert (Key : forall j a b, (j = 0 /\ j0 <= 0 \/ 1 <= j0 /\
                 (let '(a0, b0) := frac_at f num den j0 in
                  if a0 <? hid f * b0 then j = j0 - 1 else j = j0)) ->
                frac_at f num den j = (a, b) -> 0 <= j /\ 0 < b /\ a < 2 ^ prec f * b /\ (j = 0 \/ hid f * b <= a)).
  { intros j a b Hj Hf.
    assert (Hb : 0 <= j -> 0 < b).
    { intros Hj0. unfold frac_at in Hf. cbv zeta in Hf. destruct (0 <=? j + emin f) eqn:Es; inversion Hf; subst; [|lia].
      apply Z.leb_le in Es. apply Z.mul_pos_pos; [lia|apply p2_pos; lia]. }
    destruct Hj as [[-> Hj0] | [Hj0 Hsel]].
    - split; [lia|]. split; [apply Hb; lia|]. split; [|left; reflexivity].
      apply (frac_at_ub f W num den l1 l2 Hl1 Hl2 Hnum Hden 0 (prec f) a b); try lia; try assumption; unfold j0 in Hj0; lia.
    - destruct (frac_at f num den j0) as [a0 b0] eqn:F0.
      destruct (a0 <? hid f * b0) eqn:Et; [apply Z.ltb_lt in Et|apply Z.ltb_ge in Et]; subst j.
      + destruct (frac_at_pred f W num den l1 l2 Hl1 Hl2 Hden j0 a0 b0 a b Hj0 F0 Hf) as (Hrel & Hb0 & Hb').
        split; [lia|]. split; [exact Hb'|].
        pose proof (frac_at_lb f W num den l1 l2 Hl1 Hl2 Hnum Hden j0 (prec f - 2) a0 b0 ltac:(lia) ltac:(lia) F0 ltac:(unfold j0; lia)) as Lb.
        assert (Hh2 : hid f = 2 * 2 ^ (prec f - 2)).
        { unfold hid. replace (prec f - 1) with (Z.succ (prec f - 2)) by lia. rewrite Z.pow_succ_r by lia. reflexivity. }
        split.
        * (* a b0 = 2 a0 b < 2 H b0 b = P b0 b *)
          apply (Z.mul_lt_mono_pos_r b0); [exact Hb0|]. rewrite Hrel, PH.
          replace (2 * hid f * b * b0) with (2 * b * (hid f * b0)) by ring.
          replace (2 * a0 * b) with (2 * b * a0) by ring. apply Z.mul_lt_mono_pos_l; lia.
        * right. apply (Z.mul_le_mono_pos_r _ _ b0 Hb0). rewrite Hrel, Hh2.
          replace (2 * 2 ^ (prec f - 2) * b * b0) with (2 * b * (2 ^ (prec f - 2) * b0)) by ring.
          replace (2 * a0 * b) with (2 * b * a0) by ring. apply Z.mul_le_mono_nonneg_l; lia.
      + rewrite F0 in Hf. inversion Hf; subst a0 b0. split; [lia|]. split; [apply Hb; lia|]. split; [|right; exact Et].
        apply (frac_at_ub f W num den l1 l2 Hl1 Hl2 Hnum Hden j0 (prec f) a b); try lia; try assumption; unfold j0; lia. }
  set (j := if j0 <=? 0 then 0 else let '(a, b) := frac_at f num den j0 in if a <? hid f * b then j0 - 1 else j0).
  assert (Hjsel : j = 0 /\ j0 <= 0 \/ 1 <= j0 /\
                 (let '(a0, b0) := frac_at f num den j0 in if a0 <? hid f * b0 then j = j0 - 1 else j = j0)).
  { unfold j. destruct (j0 <=? 0) eqn:E0; [apply Z.leb_le in E0; left; lia|apply Z.leb_gt in E0; right].
    split; [lia|]. destruct (frac_at f num den j0) as [a0 b0]. destruct (a0 <? hid f * b0); reflexivity. }
  clearbody j.
  destruct (frac_at f num den j) as [a b] eqn:Fa.
  destruct (Key j a b Hjsel Fa) as (Kj & Kb & Kub & Klb).
  destruct (Z.div_eucl a b) as [m0 r] eqn:Ede.
  pose proof (Z_div_mod a b ltac:(lia)) as DM. rewrite Ede in DM. destruct DM as [Ha Hr].
  assert (Hm0 : m0 < 2 ^ prec f).
  { destruct (Z_lt_le_dec m0 (2 ^ prec f)); [assumption|exfalso]. assert (2 ^ prec f * b <= m0 * b) by (apply Z.mul_le_mono_nonneg_r; lia). lia. }
  assert (Hm1 : j = 0 \/ hid f <= m0).
  { destruct Klb as [K0|K1]; [left; exact K0|right].
    destruct (Z_le_gt_dec (hid f) m0); [assumption|exfalso]. assert (m0 * b <= (hid f - 1) * b) by (apply Z.mul_le_mono_nonneg_r; lia). lia. }
  assert (Echk : (0 <=? j) && (m0 <? 2 ^ prec f) && ((j =? 0) || (hid f <=? m0)) = true).
  { rewrite (proj2 (Z.leb_le _ _) Kj), (proj2 (Z.ltb_lt _ _) Hm0). cbn [andb].
    destruct Hm1 as [->|Hm1]; [reflexivity|]. rewrite (proj2 (Z.leb_le _ _) Hm1). apply orb_true_r. }
  rewrite Echk. cbn [negb]. destruct (2 ^ prec f * 2 ^ jmax f <=? _); discriminate.
Qed.

(* ---- the bit pattern of a float is determined by its value ------------------------------------------------ *)
Lemma k_of_bits_inv : forall f b k, wf_fmt f -> 0 <= b -> k_of_bits f b = Some k -> bits_of_k f k = b.
Proof.
  intros f b k (W1 & W2 & W3) Hb H. unfold k_of_bits in H. cbv zeta in H.
  pose proof (Hh_pos f W1) as HP. fold (hid f) in HP.
  pose proof (Z.div_mod b (hid f) ltac:(lia)) as DM. pose proof (Z.mod_pos_bound b (hid f) HP) as MB.
  assert (Hq : 0 <= b / hid f) by (apply Z.div_pos; lia).
  set (bexp := b / hid f) in *. set (frac := b mod hid f) in *.
  destruct (jmax f + 2 <=? bexp) eqn:E1; [discriminate|].
  destruct (bexp =? 0) eqn:E2; [apply Z.eqb_eq in E2|apply Z.eqb_neq in E2]; inversion H; subst k; clear H.
  - unfold bits_of_k. rewrite (proj2 (Z.ltb_lt _ _)) by lia. lia.
  - set (m := hid f + frac). set (j := bexp - 1). assert (Hj : 0 <= j) by (unfold j; lia).
    assert (Pj : 0 < 2 ^ j) by (apply Z.pow_pos_nonneg; lia).
    assert (Hk : hid f <= m * 2 ^ j) by (unfold m; nia).
    assert (Hlog : Z.log2 (m * 2 ^ j) = prec f - 1 + j).
    { assert (A : 2 ^ (prec f - 1 + j) = hid f * 2 ^ j) by (unfold hid; apply Z.pow_add_r; lia).
      assert (A' : 2 ^ Z.succ (prec f - 1 + j) = 2 * hid f * 2 ^ j) by (rewrite Z.pow_succ_r, A by lia; ring).
      apply Z.log2_unique; [lia|]. rewrite A, A'. unfold m. split.
      - apply Z.mul_le_mono_nonneg_r; lia.
      - apply Z.mul_lt_mono_pos_r; lia. }
    unfold bits_of_k. rewrite (proj2 (Z.ltb_ge _ _)) by lia. cbv zeta. unfold canon_j. rewrite Hlog.
    replace (Z.max 0 (prec f - 1 + j - (prec f - 1))) with j by lia.
    rewrite Z.div_mul by lia. unfold m, j. lia.
Qed.

Lemma bits_checked_complete : forall f b k, wf_fmt f -> 0 <= b -> k_of_bits f b = Some k -> bits_checked f k = Some b.
Proof.
  intros f b k W Hb H. unfold bits_checked. cbv zeta. rewrite (k_of_bits_inv f b k W Hb H), H.
  rewrite Z.eqb_refl, (proj2 (Z.leb_le _ _) Hb). reflexivity.
Qed.

(* ---- the specification determines the result ----------------------------------------------------------------- *)
Lemma rounds_to_spec_unique : forall f N D r1 r2, wf_fmt f -> 0 < D ->
  rounds_to_spec f N D r1 -> rounds_to_spec f N D r2 -> r1 = r2.
Proof.
  intros f N D r1 r2 W HD H1 H2. pose proof W as (W1 & W2 & W3).
  set (bound := 2 ^ prec f * 2 ^ jmax f) in *.
  assert (HbF : Fint f bound).
  { exists (2 ^ (prec f - 1)), (jmax f + 1). pose proof (P_2H f W1) as PH. cbv zeta in PH. pose proof (Hh_pos f W1).
    split; [lia|]. split; [lia|]. unfold bound. rewrite PH, Z.pow_add_r by lia. ring. }
  assert (Big : forall k0, bound * D <= N -> is_rne f N D k0 -> bound <= k0).
  { intros k0 Hbig [[_ Hn] _]. specialize (Hn bound HbF).
    destruct (Z_le_gt_dec bound k0); [assumption|exfalso].
    assert (k0 * D < bound * D) by (apply Z.mul_lt_mono_pos_r; lia). lia. }
  unfold rounds_to_spec in H1, H2. fold bound in H1, H2.
  destruct H1 as [[B1 ->] | (k1 & R1 & ->)]; destruct H2 as [[B2 ->] | (k2 & R2 & ->)]; try reflexivity.
  - pose proof (Big k2 B1 R2). rewrite (proj2 (Z.ltb_ge _ _)) by lia. reflexivity.
  - pose proof (Big k1 B2 R1). rewrite (proj2 (Z.ltb_ge _ _)) by lia. reflexivity.
  - rewrite (FloatInterval.is_rne_unique f W1 N D k1 k2 HD R1 R2). reflexivity.
Qed.

(* ---- completeness of the parsing-direction checker ------------------------------------------------------------ *)
Theorem rne_dec_complete : forall f m e res, wf_fmt f -> 0 <= m -> in_window m e ->
  (let '(N, D) := scaled_dec f m e in rounds_to_spec f N D res) -> rne_dec f m e = res.
Proof.
  intros f m e res W Hm Hw Hs.
  assert (Hnb : rne_dec f m e <> RBad).
  { unfold rne_dec. destruct (m =? 0) eqn:E0; [discriminate|]. apply Z.eqb_neq in E0. cbv zeta.
    destruct (400 <? e + ndig m); [discriminate|]. destruct (e + ndig m <? -400); [discriminate|].
    destruct (frac_dec m e) as [num den] eqn:Fd. apply rne_frac_complete; [exact W| |].
    - unfold frac_dec in Fd. destruct (0 <=? e) eqn:E; inversion Fd; subst; [|lia].
      apply Z.leb_le in E. apply Z.mul_pos_pos; [lia|apply Z.pow_pos_nonneg; lia].
    - destruct (frac_scaled f m e num den Fd) as [_ H]. exact H. }
  pose proof (rne_dec_sound f m e _ W Hm Hw eq_refl Hnb) as Sd.
  destruct (scaled_dec f m e) as [N D] eqn:Es.
  assert (HD : 0 < D).
  { destruct (frac_dec m e) as [num den] eqn:Fd. destruct (frac_scaled f m e num den Fd) as [E H]. rewrite Es in E. inversion E; subst. exact H. }
  apply (rounds_to_spec_unique f N D _ _ W HD Sd Hs).
Qed.

Theorem nearest_check_complete : forall f lit inf bits, wf_fmt f ->
  let v := lit_decode lit in
  in_window (lv_man v) (lv_exp v) ->
  (let '(N, D) := scaled_dec f (lv_man v) (lv_exp v) in
   match inf return Prop with
   | true => rounds_to_spec f N D RInf
   | false => exists k b, bits = b + (if lv_neg v then sign_bit f else 0) /\ 0 <= b /\
                          k_of_bits f b = Some k /\ rounds_to_spec f N D (RFin k)
   end) ->
  nearest_check f lit inf bits = true.
Proof.
  intros f lit inf bits W v Hw H. unfold nearest_check, nearest_bits. fold v.
  destruct (scaled_dec f (lv_man v) (lv_exp v)) as [N D] eqn:Es.
  destruct inf.
  - rewrite (rne_dec_complete f (lv_man v) (lv_exp v) RInf W (lit_man_nonneg lit) Hw) by (rewrite Es; exact H). reflexivity.
  - destruct H as (k & b & Eb & Hb & Hk & Hr).
    rewrite (rne_dec_complete f (lv_man v) (lv_exp v) (RFin k) W (lit_man_nonneg lit) Hw) by (rewrite Es; exact Hr).
    rewrite (bits_checked_complete f b k W Hb Hk). cbn [negb andb]. apply Z.eqb_eq. symmetry. exact Eb.
Qed.

Theorem checker_sound_rne : forall f num den res, wf_fmt f -> 0 <= num -> 0 < den ->
  rne_frac f num den = res -> res <> RBad -> rounds_to_spec f (num * 2 ^ (- emin f)) den res.
Proof. intros f num den res (A & B & C). apply rne_frac_sound; assumption. Qed.

Theorem is_rne_unique' : forall f N D k1 k2, 2 <= prec f -> 0 < D -> is_rne f N D k1 -> is_rne f N D k2 -> k1 = k2.
Proof. intros f N D k1 k2 H. apply is_rne_unique. exact H. Qed.
