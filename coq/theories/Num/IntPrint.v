(* C19 - model of native/fastint.h: u64toa_1 / i64toa_1 (digit-pair table + the SSE2 8-digit kernel).
   itoa8 follows the lane arithmetic of itoa8_sse2 (16-bit lanes, mulhi with VecDivPowers / VecShiftPowers). *)
From Coq Require Import ZArith NArith Bool List Lia.
From SV.Num Require Import Dec.
Import ListNotations.
Open Scope Z_scope.

(* tab.h: Digits = "000102...9899"; Digits[2k], Digits[2k+1] *)
Definition Digits (i : Z) : N := if Z.even i then dchr ((i / 2) / 10) else dchr ((i / 2) mod 10).

Definition itoa1 (v : Z) : list N := [dchr v].
Definition itoa2 (v2 : Z) : list N := [Digits v2; Digits (v2 + 1)].     (* argument is already v << 1 *)

Definition mulhi16 (a b : Z) : Z := ((a mod 2 ^ 16) * b) / 2 ^ 16.
Definition lo16 (a : Z) : Z := a mod 2 ^ 16.

(* one group of four digits: lanes of v09..v13 *)
Definition lanes4 (x : Z) : list Z :=
  let x4 := lo16 (x * 4) in                                   (* _mm_slli_epi64(v05, 2), broadcast *)
  let a0 := mulhi16 (mulhi16 x4 8389) 128 in                  (* 0x20c5, 0x0080 : x / 1000 *)
  let a1 := mulhi16 (mulhi16 x4 5243) 2048 in                 (* 0x147b, 0x0800 : x / 100  *)
  let a2 := mulhi16 (mulhi16 x4 13108) 8192 in                (* 0x3334, 0x2000 : x / 10   *)
  let a3 := mulhi16 (mulhi16 x4 32768) 32768 in               (* 0x8000, 0x8000 : x        *)
  (* v11 = v10 * 10 ; v12 = v11 << 16 (within the 64-bit half) ; v13 = v10 - v12 *)
  [ a0; lo16 (a1 - lo16 (a0 * 10)); lo16 (a2 - lo16 (a1 * 10)); lo16 (a3 - lo16 (a2 * 10)) ].

Definition itoa8_sse2 (v : Z) : list Z :=
  let v02 := ((v * 3518437209) / 2 ^ 45) mod 2 ^ 32 in        (* Vec4xDiv10k = 0xd1b71759, >> 45 *)
  let v04 := (v - v02 * 10000) mod 2 ^ 32 in
  lanes4 v02 ++ lanes4 v04.

(* _mm_packus_epi16 + add '0' *)
Definition pack_digit (d : Z) : N := Z.to_N ((if 32768 <=? d then 0 else if 255 <? d then 255 else d) + 48).

Definition u32toa_small (val : Z) : list N :=
  let d1 := (val / 100) * 2 in
  let d2 := (val mod 100) * 2 in
  (if 1000 <=? val then [Digits d1] else []) ++
  (if 100 <=? val then [Digits (d1 + 1)] else []) ++
  (if 10 <=? val then [Digits d2] else []) ++
  [Digits (d2 + 1)].

Definition u32toa_medium (val : Z) : list N :=
  let b := val / 10000 in
  let c := val mod 10000 in
  let d1 := (b / 100) * 2 in
  let d2 := (b mod 100) * 2 in
  let d3 := (c / 100) * 2 in
  let d4 := (c mod 100) * 2 in
  (if 10000000 <=? val then [Digits d1] else []) ++
  (if 1000000 <=? val then [Digits (d1 + 1)] else []) ++
  (if 100000 <=? val then [Digits d2] else []) ++
  [Digits (d2 + 1); Digits d3; Digits (d3 + 1); Digits d4; Digits (d4 + 1)].

Fixpoint count_lead_zero (l : list N) (fuel : nat) : nat :=
  match fuel, l with
  | S k, c :: t => if (c =? c_0)%N then S (count_lead_zero t k) else O
  | _, _ => O
  end.

Definition u64toa_large_sse2 (val : Z) : list N :=
  let a := val / 100000000 in
  let b := val mod 100000000 in
  let v3 := map pack_digit (itoa8_sse2 a ++ itoa8_sse2 b) in
  let nd := count_lead_zero v3 15 in                            (* ctz(~bm | 0x8000) *)
  skipn nd v3.                                                   (* pshufb with VecShiftShuffles[nd] *)

Definition u64toa_xlarge_sse2 (val : Z) : list N :=
  let b := val mod 10000000000000000 in
  let a := val / 10000000000000000 in
  let hi :=
    if a <? 10 then itoa1 a
    else if a <? 100 then itoa2 (a * 2)
    else if a <? 1000 then itoa1 (a / 100) ++ itoa2 ((a mod 100) * 2)
    else itoa2 ((a / 100) * 2) ++ itoa2 ((a mod 100) * 2) in
  hi ++ map pack_digit (itoa8_sse2 (b / 100000000) ++ itoa8_sse2 (b mod 100000000)).

Definition u64toa (val : Z) : list N :=
  if val <? 10000 then u32toa_small val
  else if val <? 100000000 then u32toa_medium val
  else if val <? 10000000000000000 then u64toa_large_sse2 val
  else u64toa_xlarge_sse2 val.

(* (uint64_t)(-val) *)
Definition i64toa (val : Z) : list N :=
  if 0 <=? val then u64toa val else c_minus :: u64toa ((- val) mod 2 ^ 64).
