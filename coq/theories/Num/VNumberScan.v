(* C19 - the scanning part of vnumber_1 (the input contract of atof_fast / Eisel-Lemire): for every JSON number
   literal the triple (man, exp10, trunc) it computes consists of the first 19 significant digits, the decimal
   exponent that goes with them and the flag "digits were dropped"; hence
       man * 10^exp10 <= |literal| < (man + 1) * 10^exp10,   with equality on the left when trunc = false. *)
From Coq Require Import ZArith NArith Bool List Lia.
From SV.Num Require Import Dec DecLemmas IntParse IntParseProofs IntPrintProofs FloatCheck VNumber WriteDecDenotes SkipNumberProofs
  NumGrammarProofs.
Import ListNotations.
Open Scope Z_scope.

Ltac tup := repeat match goal with |- (_, _) = (_, _) => f_equal end; cbn [length]; first [lia | reflexivity].

Definition snd_ (r : list N) : Prop := match r with c :: _ => is_digit c = false | [] => True end.

(* ---- the five loops on  digits ++ rest --------------------------------------------------------------- *)
Lemma int_digits_app : forall ds r i man nd e, all_digits ds = true -> snd_ r -> 0 <= nd ->
  let t := firstn (Z.to_nat (19 - nd)) ds in
  int_digits (ds ++ r) i man nd e =
    ((i + length ds)%nat, dec_acc man t, nd + Z.of_nat (length t), e + Z.of_nat (length ds - length t), r).
Proof.
  induction ds as [|c ds IH]; intros r i man nd e A Hr Hnd t.
  - cbn [app]. unfold t. rewrite firstn_nil. cbn [length dec_acc]. destruct r as [|c r]; cbn [int_digits].
    + tup.
    + cbn in Hr. rewrite Hr. tup.
  - cbn in A. apply andb_true_iff in A as [Hc A]. cbn [app int_digits]. rewrite Hc.
    destruct (nd <? 19) eqn:E; [apply Z.ltb_lt in E|apply Z.ltb_ge in E].
    + rewrite (IH r (S i) (man * 10 + dval c) (nd + 1) e A Hr ltac:(lia)). cbv zeta.
      unfold t. replace (Z.to_nat (19 - nd)) with (S (Z.to_nat (19 - (nd + 1)))) by lia. cbn [firstn length dec_acc].
      set (t' := firstn (Z.to_nat (19 - (nd + 1))) ds). tup.
    + rewrite (IH r (S i) man nd (e + 1) A Hr Hnd). cbv zeta. unfold t.
      replace (Z.to_nat (19 - nd)) with 0%nat by lia. cbn [firstn length dec_acc]. tup.
Qed.

Lemma frac_digits_app : forall ds r i man nd e, all_digits ds = true -> snd_ r -> 0 <= nd ->
  let t := firstn (Z.to_nat (19 - nd)) ds in
  frac_digits (ds ++ r) i man nd e =
    ((i + length t)%nat, dec_acc man t, nd + Z.of_nat (length t), e - Z.of_nat (length t), skipn (Z.to_nat (19 - nd)) ds ++ r).
Proof.
  induction ds as [|c ds IH]; intros r i man nd e A Hr Hnd t.
  - cbn [app]. unfold t. rewrite firstn_nil, skipn_nil. cbn [length dec_acc app]. destruct r as [|c r]; cbn [frac_digits].
    + tup.
    + cbn in Hr. rewrite Hr. cbn [andb]. tup.
  - cbn in A. apply andb_true_iff in A as [Hc A]. cbn [app frac_digits]. rewrite Hc. cbn [andb].
    destruct (nd <? 19) eqn:E; [apply Z.ltb_lt in E|apply Z.ltb_ge in E].
    + rewrite (IH r (S i) (man * 10 + dval c) (nd + 1) (e - 1) A Hr ltac:(lia)). cbv zeta.
      unfold t. replace (Z.to_nat (19 - nd)) with (S (Z.to_nat (19 - (nd + 1)))) by lia. cbn [firstn skipn length dec_acc].
      set (t' := firstn (Z.to_nat (19 - (nd + 1))) ds). tup.
    + unfold t. replace (Z.to_nat (19 - nd)) with 0%nat by lia. cbn [firstn skipn length dec_acc app]. tup.
Qed.

Definition nonempty (l : list N) : bool := match l with [] => false | _ => true end.

Lemma rest_digits_app : forall ds r i tr, all_digits ds = true -> snd_ r ->
  rest_digits (ds ++ r) i tr = ((i + length ds)%nat, tr || nonempty ds, r).
Proof.
  induction ds as [|c ds IH]; intros r i tr A Hr.
  - cbn [app length nonempty]. rewrite orb_false_r. destruct r as [|c r]; cbn [rest_digits]; [tup|].
    cbn in Hr. rewrite Hr. tup.
  - cbn in A. apply andb_true_iff in A as [Hc A]. cbn [app rest_digits]. rewrite Hc. rewrite (IH r (S i) true A Hr).
    cbn [length nonempty orb]. rewrite orb_true_r. tup.
Qed.

Definition not0 (r : list N) : Prop := match r with c :: _ => (c =? c_0)%N = false | [] => True end.

Lemma skip_zeros_app : forall z r i e, not0 r ->
  skip_zeros (repeat c_0 z ++ r) i e = ((i + z)%nat, e - Z.of_nat z, r).
Proof.
  induction z as [|z IH]; intros r i e Hr.
  - cbn [repeat app]. destruct r as [|c r]; cbn [skip_zeros]; [tup|]. cbn in Hr. rewrite Hr. tup.
  - cbn [repeat app skip_zeros]. change ((c_0 =? c_0)%N) with true. cbn iota. rewrite (IH r (S i) (e - 1) Hr). tup.
Qed.

Lemma exp_digits_acc_app : forall ed r i x, all_digits ed = true -> snd_ r -> 0 <= x -> dec_acc x ed < 10000 ->
  exp_digits_acc (ed ++ r) i x = ((i + length ed)%nat, dec_acc x ed, r).
Proof.
  induction ed as [|c ed IH]; intros r i x A Hr Hx Hlt.
  - cbn [app length dec_acc]. destruct r as [|c r]; cbn [exp_digits_acc]; [tup|]. cbn in Hr. rewrite Hr. tup.
  - cbn in A. apply andb_true_iff in A as [Hc A]. cbn [app exp_digits_acc dec_acc] in *. rewrite Hc.
    pose proof (dval_range c Hc). pose proof (dec_acc_mono ed (x * 10 + dval c) A ltac:(lia)).
    rewrite (proj2 (Z.ltb_lt _ _)) by lia. rewrite (IH r (S i) (x * 10 + dval c) A Hr ltac:(lia) Hlt). tup.
Qed.

(* ---- leading zeros ------------------------------------------------------------------------------------------- *)
Fixpoint strip_lead0 (l : list N) : list N :=
  match l with c :: t => if (c =? c_0)%N then strip_lead0 t else l | [] => [] end.

Lemma lead0_decomp : forall l, exists z, l = repeat c_0 z ++ strip_lead0 l /\ not0 (strip_lead0 l).
Proof.
  induction l as [|c t IH]; [exists 0%nat; split; [reflexivity|exact Logic.I]|]. cbn [strip_lead0].
  destruct ((c =? c_0)%N) eqn:E.
  - apply N.eqb_eq in E. subst c. destruct IH as (z & A & B). exists (S z). split; [cbn; f_equal; exact A|exact B].
  - exists 0%nat. split; [reflexivity|exact E].
Qed.

Lemma dec_val_strip_lead0 : forall l, dec_val (strip_lead0 l) = dec_val l.
Proof. intros l. destruct (lead0_decomp l) as (z & A & _). rewrite A at 2. rewrite dec_val_zeros_app. reflexivity. Qed.

Lemma all_digits_strip_lead0 : forall l, all_digits l = true -> all_digits (strip_lead0 l) = true.
Proof.
  intros l H. destruct (lead0_decomp l) as (z & A & _). rewrite A, all_digits_app in H. apply andb_true_iff in H. tauto.
Qed.

(* ---- the stages on a literal of the shape  ip [. fp] [e [+-] ed]  followed by a terminator --------------- *)
Definition dotpart (dot : option (list N)) : list N := match dot with Some fp => c_dot :: fp | None => [] end.
Definition epart (ex : option (esign * list N)) : list N :=
  match ex with Some (s, ed) => c_e :: esign_chars s ++ ed | None => [] end.
Definition fp_of (dot : option (list N)) : list N := match dot with Some fp => fp | None => [] end.
Definition exv (ex : option (esign * list N)) : Z := match ex with Some (s, ed) => esign_val s (dec_val ed) | None => 0 end.
Definition is_some {A} (o : option A) : bool := match o with Some _ => true | None => false end.

Lemma terminated_facts : forall r, terminated r ->
  snd_ r /\ not0 r /\ match r with c :: _ => is_dot c = false /\ is_exp c = false | [] => True end.
Proof.
  intros [|c r] H; [repeat split|]. cbn in H. unfold is_numchar in H.
  apply orb_false_iff in H as [H Hs]. apply orb_false_iff in H as [H He]. apply orb_false_iff in H as [Hd Hdot].
  split; [exact Hd|]. split; [|split; assumption].
  cbn. apply N.eqb_neq. intros ->. discriminate.
Qed.

Lemma exp_stage_spec : forall ex rest i5 n e4,
  match ex with Some (_, ed) => digits1 ed /\ dec_val ed < 10000 | None => True end -> terminated rest ->
  exp_stage (epart ex ++ rest) i5 n e4 = inr (is_some ex, (i5 + length (epart ex))%nat, e4 + exv ex).
Proof.
  intros ex rest i5 n e4 Hex Hterm. destruct (terminated_facts rest Hterm) as (Hsd & _ & Hde).
  destruct ex as [[s ed]|]; cbn [epart is_some exv].
  - destruct Hex as [Hd Hlt]. destruct (digits1_all ed Hd) as [Aed Ned].
    destruct ed as [|c2 ed']; [congruence|].
    assert (Hc2 : is_digit c2 = true) by (cbn in Aed; apply andb_true_iff in Aed; tauto).
    assert (Hns : is_sign c2 = false) by (destruct (digit_not_special c2 Hc2) as (_ & _ & A & _); exact A).
    pose proof (exp_digits_acc_app (c2 :: ed') rest) as EA.
    unfold exp_stage. cbn [app]. change (is_exp c_e) with true. cbn iota.
    destruct s; cbn [esign_chars app esign_val].
    + rewrite Hns. rewrite Hc2. change (c2 :: ed' ++ rest) with ((c2 :: ed') ++ rest).
      rewrite (EA (S i5) 0 Aed Hsd ltac:(lia) Hlt). fold (dec_val (c2 :: ed')). f_equal. tup.
    + change (is_sign c_plus) with true. change ((c_plus =? c_plus)%N) with true. cbn iota. rewrite Hc2.
      change (c2 :: ed' ++ rest) with ((c2 :: ed') ++ rest).
      rewrite (EA (S (S i5)) 0 Aed Hsd ltac:(lia) Hlt). fold (dec_val (c2 :: ed')). f_equal. tup.
    + change (is_sign c_minus) with true. change ((c_minus =? c_plus)%N) with false. cbn iota. rewrite Hc2.
      change (c2 :: ed' ++ rest) with ((c2 :: ed') ++ rest).
      rewrite (EA (S (S i5)) 0 Aed Hsd ltac:(lia) Hlt). fold (dec_val (c2 :: ed')). f_equal. tup.
  - cbn [app length]. unfold exp_stage. destruct rest as [|c r]; [f_equal; tup|].
    destruct Hde as [_ He]. rewrite He. f_equal. tup.
Qed.

Lemma epart_rest_facts : forall ex rest, terminated rest ->
  snd_ (epart ex ++ rest) /\ not0 (epart ex ++ rest) /\
  match epart ex ++ rest with c :: _ => is_dot c = false | [] => True end.
Proof.
  intros ex rest H. destruct (terminated_facts rest H) as (A & B & C).
  destruct ex as [[s ed]|]; cbn [epart app].
  - repeat split; reflexivity.
  - split; [exact A|]. split; [exact B|]. destruct rest; [exact Logic.I|tauto].
Qed.

Lemma dot_stage_spec : forall dot E i1 n,
  match dot with Some fp => digits1 fp | None => True end ->
  match E with c :: _ => is_dot c = false | [] => True end ->
  dot_stage (dotpart dot ++ E) i1 n = inr (is_some dot, (i1 + length (dotpart dot) - length (fp_of dot))%nat, fp_of dot ++ E).
Proof.
  intros dot E i1 n Hdot HE. destruct dot as [fp|]; cbn [dotpart fp_of is_some app length].
  - destruct (digits1_all fp Hdot) as [A Nn]. destruct fp as [|c1 fp']; [congruence|].
    cbn in A. apply andb_true_iff in A as [Hc _].
    unfold dot_stage. change (is_dot c_dot) with true. cbn iota. cbn [app]. rewrite Hc. f_equal. tup.
  - unfold dot_stage. destruct E as [|c E']; [f_equal; tup|]. rewrite HE. f_equal. tup.
Qed.

Lemma nonempty_len : forall l : list N, nonempty l = (0 <? Z.of_nat (length l)).
Proof. intros [|c l]; cbn [nonempty length]; [reflexivity|]. symmetry. apply Z.ltb_lt. lia. Qed.

Lemma shape_split : forall ip dot ex rest, shape ip dot ex ++ rest = ip ++ (dotpart dot ++ (epart ex ++ rest)).
Proof. intros. unfold shape, dotpart, epart. rewrite <- !app_assoc. reflexivity. Qed.

Lemma length_shape : forall ip dot ex, length (shape ip dot ex) = (length ip + length (dotpart dot) + length (epart ex))%nat.
Proof. intros. unfold shape. fold (dotpart dot). fold (epart ex). rewrite !app_length. lia. Qed.

Theorem vnumber_scan_spec : forall ip dot ex rest i0 n,
  int_part ip ->
  match dot with Some fp => digits1 fp | None => True end ->
  match ex with Some (_, ed) => digits1 ed /\ dec_val ed < 10000 | None => True end ->
  terminated rest ->
  let fp := fp_of dot in
  let sig := strip_lead0 (ip ++ fp) in
  let kept := firstn 19 sig in
  let dropped := skipn 19 sig in
  vnumber_scan (shape ip dot ex ++ rest) i0 n =
    inr (mkScan (is_some dot) (is_some ex) (i0 + length (shape ip dot ex))%nat (dec_val kept)
                (Z.of_nat (length dropped) - Z.of_nat (length fp) + exv ex) (nonempty dropped)).
Proof.
  intros ip dot ex rest i0 n Hip Hdot Hex Hterm fp sig kept dropped.
  set (E := epart ex ++ rest).
  destruct (epart_rest_facts ex rest Hterm) as (Esd & E0 & Edot). fold E in Esd, E0, Edot.
  assert (Afp : all_digits fp = true).
  { unfold fp. destruct dot as [fp0|]; [apply digits1_all; exact Hdot|reflexivity]. }
  destruct (int_part_digits ip Hip) as [Aip Nip].
  assert (Hsd1 : snd_ (dotpart dot ++ E)).
  { destruct dot as [fp0|]; cbn [dotpart app]; [reflexivity|exact Esd]. }
  rewrite shape_split. fold E. unfold vnumber_scan.
  rewrite (int_digits_app ip (dotpart dot ++ E) i0 0 0 0 Aip Hsd1 ltac:(lia)). cbv zeta.
  replace (Z.to_nat (19 - 0)) with 19%nat by lia. set (t0 := firstn 19 ip).
  fold (dec_val t0). rewrite (dot_stage_spec dot E _ n Hdot Edot). fold fp.
  set (i2 := (i0 + length ip + length (dotpart dot) - length fp)%nat).
  assert (Lt0 : length t0 = Nat.min 19 (length ip)) by (unfold t0; apply firstn_length).
  assert (Lshape := length_shape ip dot ex).
  assert (Ldot : length (dotpart dot) = (length fp + (if is_some dot then 1 else 0))%nat).
  { unfold fp. destruct dot; cbn [dotpart fp_of is_some length]; lia. }
  destruct Hip as [|c l Hc Hl].
  - (* ip = "0": the leading zeros of the fraction are skipped *)
    change (firstn 19 [c_0]) with [c_0] in t0. subst t0. change (dec_val [c_0]) with 0. cbn [length] in *.
    change (0 =? 0) with true. replace (0 + Z.of_nat (1 - 1) =? 0) with true by reflexivity. cbn [andb].
    destruct (lead0_decomp fp) as (z & Hz & Hn0). set (fp2 := strip_lead0 fp) in *.
    assert (Esig : sig = fp2) by (unfold sig; cbn [app strip_lead0]; change ((c_0 =? c_0)%N) with true; reflexivity).
    assert (Afp2 : all_digits fp2 = true) by (apply all_digits_strip_lead0; exact Afp).
    assert (N0 : not0 (fp2 ++ E)) by (destruct fp2; [exact E0|exact Hn0]).
    rewrite Hz at 1. rewrite <- app_assoc. rewrite (skip_zeros_app z (fp2 ++ E) i2 _ N0).
    rewrite (frac_digits_app fp2 E _ 0 0 _ Afp2 Esd ltac:(lia)). cbv zeta.
    replace (Z.to_nat (19 - 0)) with 19%nat by lia.
    rewrite <- Esig. fold kept. fold dropped.
    assert (Adr : all_digits dropped = true) by (unfold dropped; rewrite Esig; rewrite <- (firstn_skipn 19 fp2) in Afp2; rewrite all_digits_app in Afp2; apply andb_true_iff in Afp2; tauto).
    rewrite (rest_digits_app dropped E _ _ Adr Esd).
    unfold E at 1. rewrite (exp_stage_spec ex rest _ n _ Hex Hterm).
    assert (Lfp : length fp = (z + length kept + length dropped)%nat).
    { rewrite Hz at 1. rewrite app_length, repeat_length. rewrite <- (firstn_skipn 19 fp2) at 1. rewrite app_length.
      unfold kept, dropped. rewrite Esig. lia. }
    fold (dec_val kept). cbn [orb]. f_equal. f_equal; try reflexivity; try (unfold i2; lia).
  - (* ip = c :: l with c in 1..9 : no leading zeros *)
    set (ip := c :: l) in *.
    assert (Hc0 : (c =? c_0)%N = false) by (apply N.eqb_neq; intros ->; discriminate).
    assert (Esig : sig = ip ++ fp) by (unfold sig, ip; cbn [app strip_lead0]; rewrite Hc0; reflexivity).
    assert (Hman : 0 < dec_val t0).
    { unfold t0, ip. change (firstn 19 (c :: l)) with (c :: firstn 18 l). pose proof (dec_val_lower c (firstn 18 l) (digit19_digit _ Hc) ltac:(intros ->; discriminate)
                                          ltac:(rewrite <- (firstn_skipn 18 l) in Hl; rewrite all_digits_app in Hl; apply andb_true_iff in Hl; tauto)).
      pose proof (Z.pow_pos_nonneg 10 (Z.of_nat (length (firstn 18 l)))). lia. }
    rewrite (proj2 (Z.eqb_neq (dec_val t0) 0)) by (apply Z.neq_sym, Z.lt_neq; exact Hman). cbn [andb].
    rewrite (frac_digits_app fp E i2 (dec_val t0) (0 + Z.of_nat (length t0)) _ Afp Esd ltac:(lia)). cbv zeta.
    set (t1 := firstn (Z.to_nat (19 - (0 + Z.of_nat (length t0)))) fp).
    set (r1 := skipn (Z.to_nat (19 - (0 + Z.of_nat (length t0)))) fp).
    assert (Ar1 : all_digits r1 = true) by (unfold r1; rewrite <- (firstn_skipn (Z.to_nat (19 - (0 + Z.of_nat (length t0)))) fp) in Afp; rewrite all_digits_app in Afp; apply andb_true_iff in Afp; tauto).
    rewrite (rest_digits_app r1 E _ _ Ar1 Esd).
    unfold E at 1. rewrite (exp_stage_spec ex rest _ n _ Hex Hterm).
    (* kept = t0 ++ t1, dropped has |ip| + |fp| - |kept| digits *)
    assert (Ek : kept = t0 ++ t1).
    { unfold kept, t0, t1. rewrite Esig, firstn_app. f_equal. f_equal. rewrite Lt0. lia. }
    assert (Lk : (length kept + length dropped = length ip + length fp)%nat).
    { unfold kept, dropped. rewrite <- app_length, firstn_skipn, Esig, app_length. reflexivity. }
    assert (Lt1 : (length t1 + length r1 = length fp)%nat) by (unfold t1, r1; rewrite <- app_length, firstn_skipn; reflexivity).
    assert (Lkk : length kept = (length t0 + length t1)%nat) by (rewrite Ek, app_length; reflexivity).
    assert (Et1 : length t1 = Nat.min (19 - length t0) (length fp)).
    { unfold t1. rewrite firstn_length. f_equal. lia. }
    f_equal. f_equal.
    + unfold i2. lia.
    + rewrite Ek. unfold dec_val at 2. rewrite dec_acc_app. reflexivity.
    + lia.
    + rewrite !nonempty_len. 
      destruct (0 <? 0 + Z.of_nat (length ip - length t0)) eqn:T1; destruct (0 <? Z.of_nat (length r1)) eqn:T2;
        destruct (0 <? Z.of_nat (length dropped)) eqn:T3; cbn [orb]; try reflexivity; exfalso;
        repeat match goal with
               | H : (_ <? _) = true |- _ => apply Z.ltb_lt in H
               | H : (_ <? _) = false |- _ => apply Z.ltb_ge in H
               end; lia.
Qed.

(* ---- what the triple denotes -------------------------------------------------------------------------------- *)
Theorem vnumber_scan_denotes : forall ip dot ex rest i0 n,
  int_part ip ->
  match dot with Some fp => digits1 fp | None => True end ->
  match ex with Some (_, ed) => digits1 ed /\ dec_val ed < 10000 | None => True end ->
  terminated rest ->
  exists sc q, vnumber_scan (shape ip dot ex ++ rest) i0 n = inr sc /\ 0 <= q /\
    let v := lit_decode (shape ip dot ex) in
    sc_end sc = (i0 + length (shape ip dot ex))%nat /\
    sc_dbl sc = is_some dot /\ sc_exp sc = is_some ex /\
    sc_man sc * 10 ^ q <= lv_man v < (sc_man sc + 1) * 10 ^ q /\
    sc_exp10 sc = lv_exp v + q /\
    (sc_trunc sc = false -> q = 0) /\
    (sc_trunc sc = true -> 10 ^ 18 <= sc_man sc < 10 ^ 19).
Proof.
  intros ip dot ex rest i0 n Hip Hdot Hex Hterm.
  pose proof (vnumber_scan_spec ip dot ex rest i0 n Hip Hdot Hex Hterm) as Sp. cbv zeta in Sp.
  set (fp := fp_of dot) in *. set (sig := strip_lead0 (ip ++ fp)) in *.
  set (kept := firstn 19 sig) in *. set (dropped := skipn 19 sig) in *.
  destruct (int_part_digits ip Hip) as [Aip Nip].
  assert (Afp : all_digits fp = true).
  { unfold fp. destruct dot as [fp0|]; [apply digits1_all; exact Hdot|reflexivity]. }
  assert (Asig : all_digits sig = true) by (apply all_digits_strip_lead0; rewrite all_digits_app, Aip, Afp; reflexivity).
  assert (Ak : all_digits kept = true /\ all_digits dropped = true).
  { rewrite <- (firstn_skipn 19 sig) in Asig. rewrite all_digits_app in Asig. apply andb_true_iff in Asig. exact Asig. }
  eexists. exists (Z.of_nat (length dropped)). split; [exact Sp|]. split; [lia|]. cbv zeta. cbn [sc_end sc_dbl sc_exp sc_man sc_exp10 sc_trunc].
  (* the literal's value *)
  assert (Hld : lit_decode (shape ip dot ex) = mkLit false (dec_val (ip ++ fp)) (exv ex - Z.of_nat (length fp))).
  { rewrite (lit_decode_shape ip dot ex Aip Nip).
    - unfold fp, fp_of, exv. reflexivity.
    - destruct dot as [fp0|]; [apply digits1_all; exact Hdot|exact Logic.I].
    - destruct ex as [[s ed]|]; [destruct Hex as [Hd _]; apply digits1_all; exact Hd|exact Logic.I]. }
  rewrite Hld. cbn [lv_man lv_exp].
  assert (Hv : dec_val (ip ++ fp) = dec_val kept * 10 ^ Z.of_nat (length dropped) + dec_val dropped).
  { rewrite <- (dec_val_strip_lead0 (ip ++ fp)). fold sig. rewrite <- (firstn_skipn 19 sig) at 1. apply dec_val_app. }
  pose proof (dec_val_nonneg dropped (proj2 Ak)) as D0. pose proof (dec_val_bound dropped (proj2 Ak)) as D1.
  split; [reflexivity|]. split; [reflexivity|]. split; [reflexivity|]. split; [rewrite Hv; lia|]. split; [lia|]. split.
  - intros Ht. destruct dropped; [reflexivity|discriminate].
  - intros Ht.
    (* digits were dropped: sig has more than 19 digits and starts with a non-zero digit *)
    assert (L19 : length kept = 19%nat).
    { unfold kept. rewrite firstn_length. assert (length dropped <> 0%nat) by (destruct dropped; [discriminate|cbn; lia]).
      unfold dropped in H. rewrite skipn_length in H. lia. }
    destruct (lead0_decomp (ip ++ fp)) as (z & _ & Hn0). fold sig in Hn0.
    destruct kept as [|k1 krest] eqn:Ekept; [discriminate|].
    assert (Hk1 : k1 <> c_0).
    { assert (sig = k1 :: (krest ++ dropped)) by (rewrite <- (firstn_skipn 19 sig); fold kept; rewrite Ekept; reflexivity).
      rewrite H in Hn0. cbn in Hn0. apply N.eqb_neq in Hn0. exact Hn0. }
    destruct Ak as [Ak _]. cbn in Ak. apply andb_true_iff in Ak as [Hd1 Akr].
    pose proof (dec_val_lower k1 krest Hd1 Hk1 Akr) as Lo.
    assert (Hi : dec_val (k1 :: krest) < 10 ^ Z.of_nat (length (k1 :: krest))) by (apply dec_val_bound; cbn; rewrite Hd1; exact Akr).
    cbn [length] in L19, Hi. assert (length krest = 18%nat) by lia. rewrite H in Lo, Hi.
    change (Z.of_nat 18) with 18 in Lo. change (Z.of_nat (S 18)) with 19 in Hi. lia.
Qed.
