(* C19 - checker_sound: whenever rne_frac returns a value (not RBad) it is the correctly rounded result in the
   sense of FloatSpec.  No assumption on how the exponent j was guessed: the function checks it. *)
From Coq Require Import ZArith Bool Lia.
From SV.Num Require Import FloatCheck FloatSpec.
Open Scope Z_scope.

Section Sound.
  Variable f : bfmt.
  Hypothesis Hprec : 2 <= prec f.
  Hypothesis Hemin : emin f <= 0.

  Let P := 2 ^ prec f.
  Let Hh := 2 ^ (prec f - 1).

  Lemma P_2H : P = 2 * Hh.
  Proof. unfold P, Hh. replace (prec f) with (Z.succ (prec f - 1)) at 1 by lia. rewrite Z.pow_succ_r by lia. reflexivity. Qed.

  Lemma Hh_pos : 0 < Hh.
  Proof. unfold Hh. apply Z.pow_pos_nonneg; lia. Qed.

  Lemma Hh_even : Z.even Hh = true.
  Proof.
    unfold Hh. replace (prec f - 1) with (Z.succ (prec f - 2)) by lia. rewrite Z.pow_succ_r by lia.
    rewrite Z.even_mul. reflexivity.
  Qed.

  Lemma pow_split : forall a b, 0 <= a <= b -> 2 ^ b = 2 ^ (b - a) * 2 ^ a.
  Proof. intros a b H. rewrite <- Z.pow_add_r by lia. f_equal. lia. Qed.

  Lemma pow2_pos : forall a, 0 <= a -> 0 < 2 ^ a.
  Proof. intros. apply Z.pow_pos_nonneg; lia. Qed.

  Lemma pow2_ge2 : forall a, 1 <= a -> 2 <= 2 ^ a.
  Proof. intros a H. replace a with (Z.succ (a - 1)) by lia. rewrite Z.pow_succ_r by lia. pose proof (pow2_pos (a - 1)). lia. Qed.

  (* no float strictly between k and k + 2^j (k canonical at exponent j) *)
  Lemma gap_up : forall m j m' j', 0 <= j -> (j = 0 \/ Hh <= m) -> 0 <= m' < P -> 0 <= j' ->
    m * 2 ^ j < m' * 2 ^ j' -> m * 2 ^ j + 2 ^ j <= m' * 2 ^ j'.
  Proof.
    intros m j m' j' Hj Hc Hm' Hj' Hlt.
    destruct (Z_le_gt_dec j j') as [Hle | Hgt].
    - rewrite (pow_split j j') in * by lia. pose proof (pow2_pos j Hj) as Pj.
      set (t := m' * 2 ^ (j' - j)) in *.
      replace (m' * (2 ^ (j' - j) * 2 ^ j)) with (t * 2 ^ j) in * by (unfold t; ring).
      assert (Hmt : m < t) by (apply (Z.mul_lt_mono_pos_r (2 ^ j)); assumption).
      replace (m * 2 ^ j + 2 ^ j) with ((m + 1) * 2 ^ j) by ring.
      apply Z.mul_le_mono_nonneg_r; lia.
    - exfalso. destruct Hc as [-> | Hc]; [lia|].
      rewrite (pow_split j' j) in Hlt by lia. pose proof (pow2_pos j' Hj') as Pj'.
      pose proof (pow2_ge2 (j - j') ltac:(lia)) as G. pose proof P_2H as PH. pose proof Hh_pos as HP.
      set (g := 2 ^ (j - j')) in *. set (p := 2 ^ j') in *.
      assert (A1 : P <= m * g) by nia.
      assert (A2 : m' * p < P * p) by (apply Z.mul_lt_mono_pos_r; lia).
      assert (A3 : P * p <= m * g * p) by (apply Z.mul_le_mono_nonneg_r; lia).
      lia.
  Qed.

  Lemma gap_down : forall m j m' j', 0 <= j -> (j = 0 \/ Hh < m) -> 0 <= m' < P -> 0 <= j' ->
    m' * 2 ^ j' < m * 2 ^ j -> m' * 2 ^ j' + 2 ^ j <= m * 2 ^ j.
  Proof.
    intros m j m' j' Hj Hc Hm' Hj' Hlt.
    destruct (Z_le_gt_dec j j') as [Hle | Hgt].
    - rewrite (pow_split j j') in * by lia. pose proof (pow2_pos j Hj) as Pj.
      set (t := m' * 2 ^ (j' - j)) in *.
      replace (m' * (2 ^ (j' - j) * 2 ^ j)) with (t * 2 ^ j) in * by (unfold t; ring).
      assert (Hmt : t < m) by (apply (Z.mul_lt_mono_pos_r (2 ^ j)); assumption).
      replace (t * 2 ^ j + 2 ^ j) with ((t + 1) * 2 ^ j) by ring.
      apply Z.mul_le_mono_nonneg_r; lia.
    - destruct Hc as [-> | Hc]; [lia|].
      rewrite (pow_split j' j) in * by lia. pose proof (pow2_pos j' Hj') as Pj'.
      pose proof (pow2_ge2 (j - j') ltac:(lia)) as G. pose proof P_2H as PH. pose proof Hh_pos as HP.
      set (g := 2 ^ (j - j')) in *. set (p := 2 ^ j') in *.
      (* k' < P p <= (m-1) g p *)
      assert (A1 : P <= (m - 1) * g) by nia.
      assert (A2 : m' * p < P * p) by (apply Z.mul_lt_mono_pos_r; lia).
      assert (A3 : P * p <= (m - 1) * g * p) by (apply Z.mul_le_mono_nonneg_r; lia).
      replace (m * (g * p)) with ((m - 1) * g * p + g * p) by ring. lia.
  Qed.

  Lemma half_bound : forall y b r' DJ, 0 < b -> 0 < DJ -> 0 <= r' -> y * b = r' * DJ -> 2 * r' <= b ->
    2 * y <= DJ /\ (2 * y = DJ -> 2 * r' = b).
  Proof.
    intros y b r' DJ Hb HDJ Hr E H2.
    assert (A : (2 * y) * b <= DJ * b).
    { replace (2 * y * b) with ((2 * r') * DJ) by lia. rewrite (Z.mul_comm DJ b).
      apply Z.mul_le_mono_nonneg_r; lia. }
    split; [apply (Z.mul_le_mono_pos_r _ _ b); assumption|].
    intros E2. assert (B : (2 * r') * DJ = b * DJ) by (rewrite <- E2 at 2; lia).
    apply (Z.mul_reg_r _ _ DJ); [lia|exact B].
  Qed.

  (* the heart: rounding a/b to m at exponent j gives the round-to-nearest-even float m * 2^j *)
  Lemma round_core : forall N D j a b m0 r,
    0 < D -> 0 <= j -> 0 < b -> a * (D * 2 ^ j) = N * b ->
    a = b * m0 + r -> 0 <= r < b -> 0 <= m0 < P -> (j = 0 \/ Hh <= m0) ->
    let m := if (b <? 2 * r) || ((2 * r =? b) && Z.odd m0) then m0 + 1 else m0 in
    is_rne f N D (m * 2 ^ j).
  Proof.
    intros N D j a b m0 r HD Hj Hb Hrel Ha Hr Hm0 Hc m.
    pose proof (pow2_pos j Hj) as Pj. pose proof P_2H as PH. pose proof Hh_pos as HP.
    set (k := m * 2 ^ j).
    (* m is m0 or m0+1, with the half-way facts *)
    assert (Hm : (m = m0 /\ 2 * r <= b /\ (2 * r = b -> Z.even m0 = true)) \/
                 (m = m0 + 1 /\ b <= 2 * r /\ (2 * r = b -> Z.even (m0 + 1) = true))).
    { unfold m. destruct (b <? 2 * r) eqn:E1; cbn [orb]; [apply Z.ltb_lt in E1; right; repeat split; lia|].
      apply Z.ltb_ge in E1. destruct (2 * r =? b) eqn:E2; cbn [andb].
      - apply Z.eqb_eq in E2. destruct (Z.odd m0) eqn:E3.
        + right. repeat split; try lia. intros _. rewrite Z.even_add, <- Z.negb_odd, E3. reflexivity.
        + left. repeat split; try lia. intros _. rewrite <- Z.negb_odd, E3. reflexivity.
      - apply Z.eqb_neq in E2. left. repeat split; lia. }
    clearbody m.
    (* distance: (N - k D) b = (a - m b) D 2^j *)
    assert (Hdist : (N - k * D) * b = (a - m * b) * (D * 2 ^ j)) by (unfold k; nia).
    assert (HFk : Fint f k).
    { destruct (Z_lt_le_dec m P) as [Hlt | Hge].
      - exists m, j. fold P. repeat split; try lia.
      - assert (m = P) by (destruct Hm as [[-> _] | [-> _]]; lia).
        exists Hh, (j + 1). fold P. repeat split; try lia.
        unfold k. rewrite H, PH, Z.pow_add_r by lia. ring. }
    (* 2 |N - kD| <= D 2^j, with equality iff 2r = b *)
    set (DJ := D * 2 ^ j) in *. assert (HDJ : 0 < DJ) by (unfold DJ; nia).
    assert (Hhalf : 2 * Z.abs (N - k * D) <= DJ /\ (2 * Z.abs (N - k * D) = DJ -> 2 * r = b)).
    { destruct Hm as [[Em [H1 _]] | [Em [H1 _]]].
      - assert (E : (N - k * D) * b = r * DJ) by (rewrite Hdist, Em; unfold DJ; ring_simplify; lia).
        assert (0 <= N - k * D).
        { destruct (Z_lt_le_dec (N - k * D) 0) as [Hn|]; [|assumption]. exfalso.
          assert ((N - k * D) * b < 0) by (apply Z.mul_neg_pos; lia).
          assert (0 <= r * DJ) by (apply Z.mul_nonneg_nonneg; lia). lia. }
        rewrite Z.abs_eq by lia. apply (half_bound _ b r DJ); try assumption; lia.
      - assert (E : (k * D - N) * b = (b - r) * DJ) by (rewrite Em in Hdist; unfold DJ; lia).
        assert (0 <= k * D - N).
        { destruct (Z_lt_le_dec (k * D - N) 0) as [Hn|]; [|assumption]. exfalso.
          assert ((k * D - N) * b < 0) by (apply Z.mul_neg_pos; lia).
          assert (0 <= (b - r) * DJ) by (apply Z.mul_nonneg_nonneg; lia). lia. }
        rewrite Z.abs_neq by lia. replace (- (N - k * D)) with (k * D - N) by ring.
        destruct (half_bound (k * D - N) b (b - r) DJ) as [A B]; try assumption; try lia. }
    destruct Hhalf as [Hhalf Htie].
    (* every other float is at least as far; equality forces the half-way case *)
    assert (Hfar : forall k', Fint f k' -> k' <> k ->
              Z.abs (N - k * D) <= Z.abs (N - k' * D) /\
              (Z.abs (N - k * D) = Z.abs (N - k' * D) -> 2 * r = b)).
    { intros k' (m' & j' & Hm' & Hj' & ->) Hne. fold P in Hm'.
      destruct (Z_lt_le_dec k (m' * 2 ^ j')) as [Hgt | Hle].
      - (* k' above k *)
        assert (G : k + 2 ^ j <= m' * 2 ^ j').
        { unfold k in *. apply gap_up; try assumption; try lia. }
        assert (m' * 2 ^ j' * D - N >= DJ - Z.abs (N - k * D)) by (unfold DJ; pose proof (Z.abs_spec (N - k * D)); nia).
        assert (Z.abs (N - m' * 2 ^ j' * D) >= m' * 2 ^ j' * D - N) by lia.
        split; [lia|]. intros E. apply Htie. lia.
      - assert (Hlt : m' * 2 ^ j' < k) by lia.
        destruct Hm as [[Em [H1 _]] | [Em [H1 _]]].
        + (* rounded down: N >= kD > k'D *)
          assert (E : (N - k * D) * b = r * DJ) by (rewrite Hdist, Em; nia).
          assert (0 <= N - k * D) by nia.
          rewrite (Z.abs_eq (N - k * D)) by lia. rewrite Z.abs_eq by nia. split; [nia|]. intros E2. exfalso. nia.
        + (* rounded up: m = m0 + 1 > Hh unless j = 0 *)
          assert (G : m' * 2 ^ j' + 2 ^ j <= k).
          { unfold k in *. apply gap_down; try assumption; try lia. }
          assert (N - m' * 2 ^ j' * D >= DJ - Z.abs (N - k * D)) by (unfold DJ; pose proof (Z.abs_spec (N - k * D)); nia).
          assert (Z.abs (N - m' * 2 ^ j' * D) >= N - m' * 2 ^ j' * D) by lia.
          split; [lia|]. intros E. apply Htie. lia. }
    split.
    - split; [exact HFk|]. intros k' Hk'. destruct (Z.eq_dec k' k) as [->|Hne]; [lia|]. apply Hfar; assumption.
    - intros k' Hk' Hne Heq. destruct (Hfar k' Hk' Hne) as [_ T]. specialize (T Heq).
      (* half-way: m is even *)
      assert (Hev : Z.even m = true) by (destruct Hm as [[-> [_ E]] | [-> [_ E]]]; apply E; exact T).
      destruct (Z_lt_le_dec m P) as [Hlt | Hge].
      + exists m, j. fold P. fold Hh. repeat split; try assumption; try lia.
      + assert (m = P) by (destruct Hm as [[-> _] | [-> _]]; lia).
        exists Hh, (j + 1). fold P. fold Hh. split; [unfold k; rewrite H, PH, Z.pow_add_r by lia; ring|].
        split; [lia|]. split; [apply Hh_even|]. split; [lia|right; lia].
  Qed.
End Sound.

(* ---- rne_frac, rne_dec, nearest_bits --------------------------------------------------------------- *)
Section Wrap.
  Variable f : bfmt.
  Hypothesis Hprec : 2 <= prec f.
  Hypothesis Hemin : emin f <= 0.
  Hypothesis Hjmax : 0 <= jmax f.

  Lemma bound_pos : 0 < 2 ^ prec f * 2 ^ jmax f.
  Proof. apply Z.mul_pos_pos; apply Z.pow_pos_nonneg; lia. Qed.

  Lemma frac_at_rel : forall num den j a b, 0 < den -> 0 <= j -> frac_at f num den j = (a, b) ->
    0 < b /\ a * (den * 2 ^ j) = (num * 2 ^ (- emin f)) * b.
  Proof.
    intros num den j a b Hden Hj H. unfold frac_at in H. cbv zeta in H.
    destruct (0 <=? j + emin f) eqn:E; [apply Z.leb_le in E|apply Z.leb_gt in E]; inversion H; subst a b; clear H.
    - assert (0 < 2 ^ (j + emin f)) by (apply Z.pow_pos_nonneg; lia). split; [apply Z.mul_pos_pos; lia|].
      replace (2 ^ j) with (2 ^ (- emin f) * 2 ^ (j + emin f)) by (rewrite <- Z.pow_add_r by lia; f_equal; lia). ring.
    - split; [lia|].
      replace (2 ^ (- emin f)) with (2 ^ (- (j + emin f)) * 2 ^ j) by (rewrite <- Z.pow_add_r by lia; f_equal; lia). ring.
  Qed.

  Lemma rne_zero : forall D, 0 < D -> is_rne f 0 D 0.
  Proof.
    intros D HD. split; [split|].
    - exists 0, 0. split; [split; [lia|apply Z.pow_pos_nonneg; lia]|]. split; lia.
    - intros k' _. rewrite Z.mul_0_l, Z.sub_0_r. cbn. apply Z.abs_nonneg.
    - intros k' _ Hne Heq. exfalso. rewrite Z.mul_0_l, Z.sub_0_r in Heq. cbn in Heq.
      symmetry in Heq. apply Z.abs_0_iff in Heq. assert (k' * D = 0) by lia.
      apply Z.mul_eq_0 in H. lia.
  Qed.

  Theorem rne_frac_sound : forall num den res, 0 <= num -> 0 < den ->
    rne_frac f num den = res -> res <> RBad -> rounds_to_spec f (num * 2 ^ (- emin f)) den res.
  Proof.
    intros num den res Hnum Hden H Hnb. unfold rne_frac in H. pose proof bound_pos as BP.
    destruct (num =? 0) eqn:E0.
    - apply Z.eqb_eq in E0. subst num res. right. exists 0. rewrite Z.mul_0_l. split; [apply rne_zero; exact Hden|].
      rewrite (proj2 (Z.ltb_lt _ _)) by lia. reflexivity.
    - cbv zeta in H.
      set (j := if Z.log2 num - Z.log2 den - emin f - (prec f - 1) <=? 0 then 0
                else let '(a, b) := frac_at f num den (Z.log2 num - Z.log2 den - emin f - (prec f - 1)) in
                     if a <? hid f * b then Z.log2 num - Z.log2 den - emin f - (prec f - 1) - 1
                     else Z.log2 num - Z.log2 den - emin f - (prec f - 1)) in *.
      clearbody j.
      destruct (frac_at f num den j) as [a b] eqn:Efa.
      destruct (Z.div_eucl a b) as [m0 r] eqn:Ede.
      destruct ((0 <=? j) && (m0 <? 2 ^ prec f) && ((j =? 0) || (hid f <=? m0))) eqn:Echk; cbn [negb] in H;
        [|subst res; congruence].
      apply andb_true_iff in Echk as [Echk C3]. apply andb_true_iff in Echk as [C1 C2].
      apply Z.leb_le in C1. apply Z.ltb_lt in C2.
      destruct (frac_at_rel num den j a b Hden C1 Efa) as [Hb Hrel].
      pose proof (Z_div_mod a b ltac:(lia)) as DM. rewrite Ede in DM. destruct DM as [Ha Hr].
      assert (Ha0 : 0 <= a).
      { unfold frac_at in Efa. cbv zeta in Efa. destruct (0 <=? j + emin f); inversion Efa; subst; [lia|].
        apply Z.mul_nonneg_nonneg; [lia|]. apply Z.pow_nonneg. lia. }
      assert (Hm0 : 0 <= m0).
      { destruct (Z_lt_le_dec m0 0) as [Hn|]; [|assumption]. exfalso.
        assert (b * m0 <= - b) by nia. lia. }
      assert (Hc : j = 0 \/ 2 ^ (prec f - 1) <= m0).
      { apply orb_true_iff in C3 as [C3|C3]; [left; apply Z.eqb_eq; exact C3|right; apply Z.leb_le; exact C3]. }
      pose proof (round_core f Hprec (num * 2 ^ (- emin f)) den j a b m0 r Hden C1 Hb Hrel Ha Hr (conj Hm0 C2) Hc) as R.
      cbv zeta in R.
      set (m := if (b <? 2 * r) || (2 * r =? b) && Z.odd m0 then m0 + 1 else m0) in *. clearbody m.
      right. exists (m * 2 ^ j). split; [exact R|].
      destruct (2 ^ prec f * 2 ^ jmax f <=? m * 2 ^ j) eqn:Eov; [apply Z.leb_le in Eov|apply Z.leb_gt in Eov].
      + rewrite (proj2 (Z.ltb_ge _ _)) by lia. symmetry. exact H.
      + rewrite (proj2 (Z.ltb_lt _ _)) by lia. symmetry. exact H.
  Qed.
End Wrap.
