(* C19 - basic facts about digits, decimal values and digit runs *)
From Coq Require Import ZArith NArith Bool List Lia.
From SV.Num Require Import Dec.
Import ListNotations.
Open Scope Z_scope.

Lemma is_digit_range : forall c, is_digit c = true <-> (48 <= c <= 57)%N.
Proof. intros. unfold is_digit. rewrite andb_true_iff, !N.leb_le. tauto. Qed.

Lemma dval_range : forall c, is_digit c = true -> 0 <= dval c <= 9.
Proof. intros c H. apply is_digit_range in H. unfold dval. lia. Qed.

Lemma dchr_dval : forall c, is_digit c = true -> dchr (dval c) = c.
Proof. intros c H. apply is_digit_range in H. unfold dchr, dval. lia. Qed.

Lemma dval_dchr : forall d, 0 <= d <= 9 -> dval (dchr d) = d.
Proof. intros. unfold dchr, dval. lia. Qed.

Lemma is_digit_dchr : forall d, 0 <= d <= 9 -> is_digit (dchr d) = true.
Proof. intros. apply is_digit_range. unfold dchr. lia. Qed.

Lemma digit19_digit : forall c, is_digit19 c = true -> is_digit c = true.
Proof. intros c. unfold is_digit19, is_digit. rewrite !andb_true_iff, !N.leb_le. lia. Qed.

Lemma digit_not_special : forall c, is_digit c = true ->
  is_dot c = false /\ is_exp c = false /\ is_sign c = false /\ (c =? c_minus)%N = false.
Proof.
  intros c H. apply is_digit_range in H. unfold is_dot, is_exp, is_sign, c_dot, c_e, c_E, c_plus, c_minus.
  repeat split; repeat (apply orb_false_iff; split); apply N.eqb_neq; lia.
Qed.

Lemma dec_acc_app : forall a b acc, dec_acc acc (a ++ b) = dec_acc (dec_acc acc a) b.
Proof. induction a; intros; cbn [app dec_acc]; auto. Qed.

Lemma dec_acc_lin : forall l acc, dec_acc acc l = acc * 10 ^ Z.of_nat (length l) + dec_val l.
Proof.
  unfold dec_val. induction l as [|c t IH]; intros acc.
  - cbn. lia.
  - cbn [dec_acc length]. rewrite IH, (IH (0 * 10 + dval c)).
    rewrite Nat2Z.inj_succ, Z.pow_succ_r by lia. lia.
Qed.

Lemma dec_acc_nonneg : forall l acc, all_digits l = true -> 0 <= acc -> 0 <= dec_acc acc l.
Proof.
  induction l as [|c t IH]; intros acc H Hacc; cbn [dec_acc]; [lia|].
  cbn in H. apply andb_true_iff in H as [Hc Ht]. apply IH; [exact Ht|]. pose proof (dval_range c Hc). lia.
Qed.

Lemma dec_val_nonneg : forall l, all_digits l = true -> 0 <= dec_val l.
Proof. intros. unfold dec_val. apply dec_acc_nonneg; [assumption|lia]. Qed.

Lemma dec_acc_mono : forall l acc, all_digits l = true -> 0 <= acc -> acc <= dec_acc acc l.
Proof.
  induction l as [|c t IH]; intros acc H Hacc; cbn [dec_acc]; [lia|].
  cbn in H. apply andb_true_iff in H as [Hc Ht]. pose proof (dval_range c Hc).
  specialize (IH (acc * 10 + dval c) Ht). lia.
Qed.

Lemma dec_val_bound : forall l, all_digits l = true -> dec_val l < 10 ^ Z.of_nat (length l).
Proof.
  induction l as [|c t IH] using rev_ind; intros H.
  - cbn. lia.
  - unfold all_digits in *. rewrite forallb_app in H. apply andb_true_iff in H as [Ht Hc]. cbn in Hc.
    rewrite andb_true_r in Hc. unfold dec_val in *. rewrite dec_acc_app. cbn [dec_acc].
    rewrite app_length. cbn [length]. rewrite Nat.add_1_r, Nat2Z.inj_succ, Z.pow_succ_r by lia.
    specialize (IH Ht). pose proof (dval_range c Hc). lia.
Qed.

(* take_digits splits off the maximal digit prefix *)
Lemma take_digits_spec : forall l d r, take_digits l = (d, r) ->
  l = d ++ r /\ all_digits d = true /\ match r with c :: _ => is_digit c = false | [] => True end.
Proof.
  induction l as [|c t IH]; intros d r H; cbn in H.
  - inversion H. subst. cbn. auto.
  - destruct (is_digit c) eqn:E.
    + destruct (take_digits t) as [d' r'] eqn:T. inversion H; subst. destruct (IH d' r eq_refl) as (A & B & C).
      split; [cbn; f_equal; exact A|]. split; [cbn; rewrite E; exact B|exact C].
    + inversion H; subst. split; [reflexivity|]. split; [reflexivity|exact E].
Qed.

Lemma take_digits_app : forall d r, all_digits d = true ->
  match r with c :: _ => is_digit c = false | [] => True end -> take_digits (d ++ r) = (d, r).
Proof.
  induction d as [|c t IH]; intros r H Hr; cbn.
  - destruct r as [|c r]; [reflexivity|]. cbn. rewrite Hr. reflexivity.
  - cbn in H. apply andb_true_iff in H as [Hc Ht]. rewrite Hc, (IH r Ht Hr). reflexivity.
Qed.

Lemma digits1_all : forall l, digits1 l -> all_digits l = true /\ l <> [].
Proof.
  induction 1.
  - split; [cbn; rewrite H; reflexivity|discriminate].
  - destruct IHdigits1 as [A _]. split; [cbn; rewrite H; exact A|discriminate].
Qed.

Lemma all_digits1 : forall l, all_digits l = true -> l <> [] -> digits1 l.
Proof.
  induction l as [|c t IH]; intros H N; [congruence|]. cbn in H. apply andb_true_iff in H as [Hc Ht].
  destruct t as [|c' t']; [constructor; exact Hc|]. apply d1_cons; [exact Hc|]. apply IH; [exact Ht|discriminate].
Qed.

Lemma all_digits_app : forall a b, all_digits (a ++ b) = all_digits a && all_digits b.
Proof. intros. apply forallb_app. Qed.

Lemma nth_app_len : forall (a b : list N) d, nth (length a) (a ++ b) d = hd d b.
Proof. induction a; intros; cbn; [destruct b; reflexivity|apply IHa]. Qed.

Lemma skipn_app_len : forall (a b : list N), skipn (length a) (a ++ b) = b.
Proof. induction a; intros; cbn; auto. Qed.
