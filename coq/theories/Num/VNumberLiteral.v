(* C19 - the model of vnumber_1 on a whole literal: where it stops, when it answers V_INTEGER (exactly for integer
   literals inside int64, with the exact value) and that otherwise it hands the literal to the float conversion
   (float_result = the correctly rounded double by definition; the implementation is compared with it per input). *)
From Coq Require Import ZArith NArith Bool List Lia.
From SV.Num Require Import Dec DecLemmas IntParse IntParseProofs IntPrintProofs FloatCheck VNumber WriteDecDenotes
  SkipNumberProofs VNumberScan.
Import ListNotations.
Open Scope Z_scope.

Definition in_i64_lit (neg : bool) (v : Z) : Prop := if neg then v <= 2 ^ 63 else v < 2 ^ 63.

Lemma shape_hd : forall ip dot ex rest, int_part ip ->
  exists c t, shape ip dot ex ++ rest = c :: t /\ is_digit c = true /\ (c =? c_minus)%N = false /\ ip = c :: firstn (length ip - 1) t.
Proof.
  intros ip dot ex rest Hip. rewrite shape_split. destruct Hip as [|c l Hc Hl].
  - exists c_0, (dotpart dot ++ epart ex ++ rest). repeat split; reflexivity.
  - exists c, (l ++ dotpart dot ++ epart ex ++ rest). split; [reflexivity|]. split; [apply digit19_digit; exact Hc|].
    destruct (digit_not_special c (digit19_digit _ Hc)) as (_ & _ & _ & E). split; [exact E|].
    cbn [length]. replace (S (length l) - 1)%nat with (length l) by lia. rewrite firstn_app, Nat.sub_diag, firstn_all. cbn. rewrite app_nil_r. reflexivity.
Qed.

Lemma pow19_gt : 2 ^ 63 < 10 ^ 19. Proof. vm_compute. reflexivity. Qed.

Theorem vnumber_on_literal : forall (neg : bool) ip dot ex rest oob,
  int_part ip ->
  match dot with Some fp => digits1 fp | None => True end ->
  match ex with Some (_, ed) => digits1 ed /\ dec_val ed < 10000 | None => True end ->
  terminated rest ->
  let u := shape ip dot ex in
  let lit := if neg then c_minus :: u else u in
  let s := lit ++ rest in
  let r := vnumber s oob 0 in
  let is_int := negb (is_some dot) && negb (is_some ex) in
  (is_int = true -> in_i64_lit neg (dec_val ip) ->
     n_vt r = V_INTEGER /\ n_p r = length lit /\ n_iv r = (if neg then - dec_val ip else dec_val ip)) /\
  ((is_int = false \/ ~ in_i64_lit neg (dec_val ip)) -> r = float_result s 0 (length lit)).
Proof.
  intros neg ip dot ex rest oob Hip Hdot Hex Hterm u lit s r is_int.
  destruct (shape_hd ip dot ex rest Hip) as (c & t & Hu & Hc & Hcm & _). fold u in Hu.
  set (i0 := if neg then 1%nat else 0%nat).
  assert (Hs : s = (if neg then [c_minus] else []) ++ u ++ rest) by (unfold s, lit; destruct neg; reflexivity).
  assert (Hlen : length lit = (i0 + length u)%nat) by (unfold lit, i0; destruct neg; cbn [length]; lia).
  assert (Hsk : skipn i0 s = u ++ rest) by (rewrite Hs; unfold i0; destruct neg; reflexivity).
  assert (Hn0 : (nth 0 s 0%N =? c_minus)%N = neg).
  { rewrite Hs. destruct neg; cbn [app nth]; [reflexivity|]. rewrite Hu. cbn [nth]. exact Hcm. }
  assert (Hci : nth i0 s 0%N = c) by (rewrite Hs; unfold i0; destruct neg; cbn [app nth]; rewrite Hu; reflexivity).
  assert (Hls : length s = (i0 + length u + length rest)%nat) by (unfold s; rewrite app_length, Hlen; lia).
  assert (Hul : (1 <= length u)%nat) by (apply (f_equal (@length N)) in Hu; rewrite app_length in Hu; cbn [length] in Hu;
                                           unfold u; rewrite length_shape; destruct (int_part_digits ip Hip) as [_ Nn]; destruct ip; [congruence|cbn; lia]).
  unfold r. clear r. clearbody s.
  (* the scan *)
  pose proof (vnumber_scan_spec ip dot ex rest i0 (length s) Hip Hdot Hex Hterm) as Sp. cbv zeta in Sp. fold u in Sp.
  set (fp := fp_of dot) in *. set (sig := strip_lead0 (ip ++ fp)) in *.
  (* unfold vnumber up to the leading-zero test *)
  unfold vnumber. rewrite (proj2 (Nat.leb_gt _ _)) by lia. rewrite Hn0. fold i0.
  replace (if neg then 1%nat else 0%nat) with i0 by reflexivity.
  rewrite (proj2 (Nat.leb_gt _ _)) by lia. rewrite Hci, Hc. cbn [negb]. rewrite Hsk, Sp.
  cbn [sc_dbl sc_exp sc_man sc_exp10 sc_end sc_trunc]. fold is_int. rewrite <- Hlen.
  set (sgn := if neg then -1 else 1).
  destruct (int_part_digits ip Hip) as [Aip Nip].
  (* facts about the integer case *)
  assert (IntCase : is_int = true -> fp = [] /\ exv ex = 0).
  { unfold is_int, fp. destruct dot, ex as [[? ?]|]; cbn; try discriminate. auto. }
  assert (Hsigv : dec_val sig = dec_val (ip ++ fp)) by apply dec_val_strip_lead0.
  assert (Asig : all_digits sig = true).
  { apply all_digits_strip_lead0. rewrite all_digits_app, Aip. unfold fp. destruct dot as [fp0|]; [apply digits1_all; exact Hdot|reflexivity]. }
  destruct ((c =? c_0)%N && negb (is_dot_or_exp (byte_at s oob (S i0)))) eqn:Early.
  - (* leading zero, early return: only for the literal "0" / "-0" *)
    apply andb_true_iff in Early as [E0 Enx]. apply N.eqb_eq in E0. clear Hci. subst c. apply negb_true_iff in Enx.
    assert (Hip0 : ip = [c_0]).
    { destruct Hip as [|c' l Hc' Hl]; [reflexivity|]. exfalso. unfold u in Hu. rewrite shape_split in Hu. cbn [app] in Hu. injection Hu as E1 _. rewrite E1, c0_not_19 in Hc'. discriminate Hc'. }
    assert (Hdx : dot = None /\ ex = None).
    { unfold byte_at in Enx. rewrite Hls in Enx. unfold u in Hul, Enx, Hs. rewrite length_shape in Enx. rewrite Hip0 in *.
      destruct dot as [fp0|].
      - exfalso. rewrite (proj2 (Nat.eqb_neq _ _)) in Enx by (cbn [length dotpart]; lia).
        rewrite Hs in Enx. unfold shape in Enx. destruct neg; cbn in Enx; discriminate.
      - split; [reflexivity|]. destruct ex as [[sg ed]|]; [exfalso|reflexivity].
        rewrite (proj2 (Nat.eqb_neq _ _)) in Enx by (cbn [length dotpart epart]; lia).
        rewrite Hs in Enx. unfold shape in Enx. destruct neg; cbn in Enx; discriminate. }
    destruct Hdx as [-> ->]. subst ip. cbn [is_some negb andb] in is_int.
    split.
    + intros _ _. cbn [n_vt n_p n_iv]. split; [reflexivity|]. split; [rewrite Hlen; unfold u, shape; cbn [length app]; lia|].
      change (dec_val [c_0]) with 0. destruct neg; reflexivity.
    + intros [H|H]; [discriminate|]. exfalso. apply H. unfold in_i64_lit. change (dec_val [c_0]) with 0. destruct neg; lia.
  - destruct is_int eqn:Eint.
    + destruct (IntCase eq_refl) as [Efp Eex]. rewrite Efp, app_nil_r in *. cbn [length] in *. rewrite Eex.
      cbn [negb andb].
      set (kept := firstn 19 sig). set (dropped := skipn 19 sig).
      assert (Hv : dec_val ip = dec_val kept * 10 ^ Z.of_nat (length dropped) + dec_val dropped).
      { rewrite <- Hsigv. rewrite <- (firstn_skipn 19 sig) at 1. apply dec_val_app. }
      assert (Ak : all_digits kept = true /\ all_digits dropped = true).
      { rewrite <- (firstn_skipn 19 sig) in Asig. rewrite all_digits_app in Asig. apply andb_true_iff in Asig. exact Asig. }
      pose proof (dec_val_nonneg kept (proj1 Ak)) as K0. pose proof (dec_val_nonneg dropped (proj2 Ak)) as D0.
      (* more than 19 significant digits means at least 10^19 *)
      assert (Hbig : dropped <> [] -> 10 ^ 19 <= dec_val ip).
      { intros Hd. assert (L19 : length kept = 19%nat).
        { unfold kept. rewrite firstn_length. assert (length dropped <> 0%nat) by (destruct dropped; [congruence|cbn; lia]).
          unfold dropped in H. rewrite skipn_length in H. lia. }
        destruct (lead0_decomp (ip ++ fp)) as (z & _ & Hn0'). fold sig in Hn0'.
        destruct kept as [|k1 krest] eqn:Ekept; [discriminate|].
        assert (Hk1 : k1 <> c_0).
        { assert (sig = k1 :: (krest ++ dropped)) by (rewrite <- (firstn_skipn 19 sig); fold kept; rewrite Ekept; reflexivity).
          rewrite H in Hn0'. cbn in Hn0'. apply N.eqb_neq in Hn0'. exact Hn0'. }
        destruct Ak as [Ak1 _]. cbn in Ak1. apply andb_true_iff in Ak1 as [Hd1 Akr].
        pose proof (dec_val_lower k1 krest Hd1 Hk1 Akr) as Lo. cbn [length] in L19. assert (length krest = 18%nat) by lia.
        rewrite H in Lo. change (Z.of_nat 18) with 18 in Lo.
        assert (1 <= 10 ^ Z.of_nat (length dropped)) by (pose proof (Z.pow_pos_nonneg 10 (Z.of_nat (length dropped))); lia).
        assert (10 <= 10 ^ Z.of_nat (length dropped)).
        { assert (1 <= Z.of_nat (length dropped)) by (destruct dropped; [congruence|cbn [length]; lia]).
          apply Z.le_trans with (10 ^ 1); [reflexivity|apply Z.pow_le_mono_r; lia]. }
        change (10 ^ 19) with (10 ^ 18 * 10). nia. }
      pose proof pow19_gt as P19.
      split.
      * intros _ Hr.
        assert (Hd : dropped = []).
        { destruct dropped as [|d0 dr] eqn:Ed; [reflexivity|exfalso]. specialize (Hbig ltac:(discriminate)).
          unfold in_i64_lit in Hr. destruct neg; lia. }
        rewrite Hd in *. cbn [length] in *. change (dec_val []) with 0 in Hv. rewrite Z.pow_0_r in Hv.
        assert (Em : dec_val kept = dec_val ip) by lia. rewrite Em.
        assert (Eov : is_overflow (dec_val ip) sgn (Z.of_nat 0 - Z.of_nat 0 + 0) = false).
        { unfold is_overflow. cbn [Z.of_nat Z.sub Z.add Z.eqb negb orb].
          unfold in_i64_lit, sgn in *. destruct neg.
          - destruct (2 ^ 63 <=? dec_val ip) eqn:E1; [|reflexivity]. apply Z.leb_le in E1.
            assert (dec_val ip = 2 ^ 63) by lia. rewrite H. reflexivity.
          - rewrite (proj2 (Z.leb_gt _ _)) by lia. reflexivity. }
        rewrite Eov. cbn [negb]. cbn [n_vt n_p n_iv]. split; [reflexivity|]. split; [reflexivity|]. destruct neg; reflexivity.
      * intros [H|Hr]; [discriminate|].
        assert (Eov : is_overflow (dec_val kept) sgn (Z.of_nat (length dropped) - Z.of_nat 0 + 0) = true).
        { unfold is_overflow. destruct dropped as [|d0 dr] eqn:Ed.
          - cbn [length Z.of_nat Z.sub Z.add Z.eqb negb orb]. change (dec_val []) with 0 in Hv. rewrite Z.pow_0_r in Hv.
            assert (Em : dec_val kept = dec_val ip) by lia. rewrite Em.
            unfold in_i64_lit, sgn in *. destruct neg.
            + rewrite (proj2 (Z.leb_le _ _)) by lia. rewrite (proj2 (Z.eqb_neq (dec_val ip) (2 ^ 63))) by lia. rewrite andb_false_r. reflexivity.
            + rewrite (proj2 (Z.leb_le _ _)) by lia. reflexivity.
          - rewrite (proj2 (Z.eqb_neq _ _)) by (cbn [length]; lia). reflexivity. }
        rewrite Eov. reflexivity.
    + split; [discriminate|]. intros _.
      cbn [andb]. reflexivity.
Qed.
