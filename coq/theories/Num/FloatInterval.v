(* C19 - order-theoretic facts about the rounding specification: independence of the fraction chosen for a
   real, convexity of the set of reals that round to a float, uniqueness of the rounding result. *)
From Coq Require Import ZArith Bool Lia.
From SV.Num Require Import FloatCheck FloatSpec FloatCheckProofs.
Open Scope Z_scope.

(* which of two floats is nearer, as a linear condition *)
Lemma nearer_lt : forall N D k k', 0 < D -> k < k' ->
  (Z.abs (N - k * D) <= Z.abs (N - k' * D) <-> 2 * N <= (k + k') * D) /\
  (Z.abs (N - k * D) = Z.abs (N - k' * D) <-> 2 * N = (k + k') * D).
Proof.
  intros N D k k' HD Hk. assert (k * D < k' * D) by (apply Z.mul_lt_mono_pos_r; assumption).
  replace ((k + k') * D) with (k * D + k' * D) by ring. set (A := k * D) in *. set (B := k' * D) in *. lia.
Qed.

Lemma nearer_gt : forall N D k k', 0 < D -> k' < k ->
  (Z.abs (N - k * D) <= Z.abs (N - k' * D) <-> (k + k') * D <= 2 * N) /\
  (Z.abs (N - k * D) = Z.abs (N - k' * D) <-> 2 * N = (k + k') * D).
Proof.
  intros N D k k' HD Hk. assert (k' * D < k * D) by (apply Z.mul_lt_mono_pos_r; assumption).
  replace ((k + k') * D) with (k * D + k' * D) by ring. set (A := k * D) in *. set (B := k' * D) in *. lia.
Qed.

Lemma mul_le_cancel_r : forall a b c, 0 < c -> a * c <= b * c -> a <= b.
Proof. intros a b c Hc H. apply (Z.mul_le_mono_pos_r a b c); assumption. Qed.

Lemma mul_eq_cancel_r : forall a b c, 0 < c -> a * c = b * c -> a = b.
Proof. intros a b c Hc H. apply (Z.mul_reg_r a b c); [lia|assumption]. Qed.

Lemma pw_split : forall a b, 0 <= a <= b -> 2 ^ b = 2 ^ (b - a) * 2 ^ a.
Proof. intros a b H. rewrite <- Z.pow_add_r by lia. f_equal. lia. Qed.
Lemma pw_ge2 : forall a, 1 <= a -> 2 <= 2 ^ a.
Proof. intros a H. replace a with (Z.succ (a - 1)) by lia. rewrite Z.pow_succ_r by lia. pose proof (Z.pow_pos_nonneg 2 (a - 1)). lia. Qed.

Section Interval.
  Variable f : bfmt.
  Hypothesis Hprec : 2 <= prec f.

  (* the same real as another fraction *)
  Lemma is_rne_scale : forall N D N' D' k, 0 < D -> 0 < D' -> N * D' = N' * D -> is_rne f N D k -> is_rne f N' D' k.
  Proof.
    intros N D N' D' k HD HD' E [[HF Hn] Ht].
    assert (T : forall k', Z.abs (N' - k' * D') * D = Z.abs (N - k' * D) * D').
    { intros k'. rewrite <- (Z.abs_eq D) at 1 by lia. rewrite <- (Z.abs_eq D') at 2 by lia.
      rewrite <- !Z.abs_mul. f_equal. ring_simplify. rewrite <- E. ring. }
    split; [split; [exact HF|]|].
    - intros k' Hk'. specialize (Hn k' Hk'). apply (mul_le_cancel_r _ _ D HD). rewrite !T.
      apply Z.mul_le_mono_nonneg_r; lia.
    - intros k' Hk' Hne Heq. apply (Ht k' Hk' Hne). apply (mul_eq_cancel_r _ _ D' HD'). rewrite <- !T. rewrite Heq. reflexivity.
  Qed.

  (* convexity: between two reals that round to k, everything rounds to k *)
  Lemma is_rne_convex : forall N1 N2 N3 D k, 0 < D -> N1 <= N2 <= N3 ->
    is_rne f N1 D k -> is_rne f N3 D k -> is_rne f N2 D k.
  Proof.
    intros N1 N2 N3 D k HD Hord [[HF Hn1] Ht1] [[_ Hn3] Ht3].
    assert (Key : forall k', Fint f k' -> k' <> k ->
              Z.abs (N2 - k * D) <= Z.abs (N2 - k' * D) /\
              (Z.abs (N2 - k * D) = Z.abs (N2 - k' * D) -> canon_even f k)).
    { intros k' Hk' Hne. destruct (Z_lt_le_dec k k') as [Hlt | Hge].
      - destruct (nearer_lt N2 D k k' HD Hlt) as [L2 E2]. destruct (nearer_lt N3 D k k' HD Hlt) as [L3 E3].
        pose proof (proj1 L3 (Hn3 k' Hk')) as B3. split; [apply L2; lia|].
        intros Heq. apply E2 in Heq. apply (Ht3 k' Hk' Hne). apply E3. lia.
      - assert (Hlt : k' < k) by lia.
        destruct (nearer_gt N2 D k k' HD Hlt) as [L2 E2]. destruct (nearer_gt N1 D k k' HD Hlt) as [L1 E1].
        pose proof (proj1 L1 (Hn1 k' Hk')) as B1. split; [apply L2; lia|].
        intros Heq. apply E2 in Heq. apply (Ht1 k' Hk' Hne). apply E1. lia. }
    split; [split; [exact HF|]|].
    - intros k' Hk'. destruct (Z.eq_dec k' k) as [->|Hne]; [lia|]. apply Key; assumption.
    - intros k' Hk' Hne. apply Key; assumption.
  Qed.

  (* canonical representations are unique *)
  Lemma canon_rep_unique : forall m j m' j', 0 <= j -> 0 <= j' ->
    (j = 0 \/ 2 ^ (prec f - 1) <= m) -> (j' = 0 \/ 2 ^ (prec f - 1) <= m') ->
    m < 2 ^ prec f -> m' < 2 ^ prec f -> 0 < m -> m * 2 ^ j = m' * 2 ^ j' -> m = m' /\ j = j'.
  Proof.
    assert (G : forall m j m' j', 0 <= j <= j' -> (j' = 0 \/ 2 ^ (prec f - 1) <= m') -> m < 2 ^ prec f -> 0 < m ->
                m * 2 ^ j = m' * 2 ^ j' -> m = m' /\ j = j').
    { intros m j m' j' Hj Hc' Hm Hpos E.
      destruct (Z.eq_dec j j') as [->|Hne].
      - split; [|reflexivity]. apply (mul_eq_cancel_r _ _ (2 ^ j')); [apply Z.pow_pos_nonneg; lia|exact E].
      - exfalso. rewrite (pw_split j j') in E by lia.
        assert (Pj : 0 < 2 ^ j) by (apply Z.pow_pos_nonneg; lia).
        assert (E' : m = m' * 2 ^ (j' - j)) by (apply (mul_eq_cancel_r _ _ (2 ^ j) Pj); rewrite E; ring).
        pose proof (pw_ge2 (j' - j) ltac:(lia)) as G2. pose proof (P_2H f Hprec) as PH. cbv zeta in PH.
        destruct Hc' as [->|Hc']; [lia|]. pose proof (Hh_pos f Hprec). nia. }
    intros m j m' j' Hj Hj' Hc Hc' Hm Hm' Hpos E.
    destruct (Z_le_gt_dec j j').
    - apply G; try assumption; lia.
    - assert (0 < m').
      { destruct (Z_lt_le_dec 0 m'); [assumption|exfalso].
        assert (m' * 2 ^ j' <= 0) by (apply Z.mul_nonpos_nonneg; [lia|apply Z.pow_nonneg; lia]).
        assert (0 < m * 2 ^ j) by (apply Z.mul_pos_pos; [lia|apply Z.pow_pos_nonneg; lia]). lia. }
      destruct (G m' j' m j ltac:(lia) Hc Hm' H (eq_sym E)). split; congruence.
  Qed.

  Lemma Fint_nonneg : forall k, Fint f k -> 0 <= k.
  Proof. intros k (m & j & Hm & Hj & ->). apply Z.mul_nonneg_nonneg; [lia|apply Z.pow_nonneg; lia]. Qed.

  (* two different floats cannot both be the round-to-nearest-even image of the same real *)
  Lemma is_rne_unique_lt : forall N D k1 k2, 0 < D -> k1 < k2 -> is_rne f N D k1 -> is_rne f N D k2 -> False.
  Proof.
    intros N D k1 k2 HD Hlt [[HF1 Hn1] Ht1] [[HF2 Hn2] Ht2].
    pose proof (Hn1 k2 HF2) as A. pose proof (Hn2 k1 HF1) as B.
    assert (Heq : Z.abs (N - k1 * D) = Z.abs (N - k2 * D)) by lia.
    destruct (nearer_lt N D k1 k2 HD Hlt) as [_ Emid]. pose proof (proj1 Emid Heq) as Mid.
    destruct (Ht1 k2 HF2 ltac:(lia) Heq) as (m1 & j1 & E1 & Hj1 & Ev1 & Hm1 & Hc1).
    destruct (Ht2 k1 HF1 ltac:(lia) (eq_sym Heq)) as (m2 & j2 & E2 & Hj2 & Ev2 & Hm2 & Hc2).
    pose proof (Fint_nonneg k1 HF1) as K1.
    assert (Pj1 : 0 < 2 ^ j1) by (apply Z.pow_pos_nonneg; lia).
    assert (M1 : 0 <= m1).
    { destruct (Z_lt_le_dec m1 0); [exfalso|assumption]. assert (m1 * 2 ^ j1 < 0) by (apply Z.mul_neg_pos; lia). lia. }
    (* P is even, m1 is even and below P: m1 + 1 is still below P *)
    assert (M1' : m1 + 1 < 2 ^ prec f).
    { pose proof (P_2H f Hprec) as PH. cbv zeta in PH.
      destruct (Z.eq_dec (m1 + 1) (2 ^ prec f)) as [E|]; [exfalso|lia].
      assert (Z.even (m1 + 1) = true) by (rewrite E, PH, Z.even_mul; reflexivity).
      rewrite Z.even_add, Ev1 in H. discriminate. }
    destruct HF2 as (m2' & j2' & Hm2' & Hj2' & E2').
    assert (G : k1 + 2 ^ j1 <= k2).
    { rewrite E1, E2'. apply (gap_up f Hprec); try assumption; try lia. }
    set (succ := (m1 + 1) * 2 ^ j1).
    assert (Es : succ = k1 + 2 ^ j1) by (unfold succ; rewrite E1; ring).
    assert (HFs : Fint f succ) by (exists (m1 + 1), j1; repeat split; lia).
    assert (succ = k2).
    { destruct (Z.eq_dec succ k2); [assumption|exfalso].
      pose proof (Hn1 succ HFs) as C.
      assert (k1 * D < succ * D) by (apply Z.mul_lt_mono_pos_r; lia).
      assert (succ * D < k2 * D) by (apply Z.mul_lt_mono_pos_r; lia).
      replace ((k1 + k2) * D) with (k1 * D + k2 * D) in Mid by ring.
      set (a := k1 * D) in *. set (b := k2 * D) in *. set (c := succ * D) in *. lia. }
    assert (Hc1' : j1 = 0 \/ 2 ^ (prec f - 1) <= m1 + 1) by (destruct Hc1; [left; assumption|right; lia]).
    destruct (canon_rep_unique (m1 + 1) j1 m2 j2 Hj1 Hj2 Hc1' Hc2 M1' Hm2 ltac:(lia) ltac:(fold succ; congruence)) as [Em _].
    rewrite <- Em in Ev2. rewrite Z.even_add, Ev1 in Ev2. discriminate.
  Qed.

  Theorem is_rne_unique : forall N D k1 k2, 0 < D -> is_rne f N D k1 -> is_rne f N D k2 -> k1 = k2.
  Proof.
    intros N D k1 k2 HD H1 H2. destruct (Z.lt_trichotomy k1 k2) as [L | [E | L]]; [exfalso|exact E|exfalso].
    - exact (is_rne_unique_lt N D k1 k2 HD L H1 H2).
    - exact (is_rne_unique_lt N D k2 k1 HD L H2 H1).
  Qed.
End Interval.
