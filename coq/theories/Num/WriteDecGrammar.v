(* C19 - the text laid out by write_dec is a JSON number (grammar of Num/Dec.v), for every (sig, exp) in range:
   whatever f64toa / f32toa print for a finite non-zero float is accepted by the number scanners. *)
From Coq Require Import ZArith NArith Bool List Lia.
From SV.Num Require Import Dec DecLemmas IntPrint IntPrintProofs IntPrintExact FloatFmt FloatFmtProofs WriteDecDenotes
  FloatFmt32Proofs.
Import ListNotations.
Open Scope Z_scope.

Lemma shape_json_number : forall ip dot ex, int_part ip ->
  match dot with Some fp => digits1 fp | None => True end ->
  match ex with Some (_, ed) => digits1 ed | None => True end ->
  unsigned_number (shape ip dot ex).
Proof.
  intros ip dot ex Hip Hdot Hex. unfold shape. constructor; [exact Hip| |].
  - destruct dot as [fp|]; [apply fp_some; exact Hdot|constructor].
  - destruct ex as [[s ed]|]; [|constructor]. destruct s; cbn [esign_chars app].
    + apply ep_nosign; [reflexivity|exact Hex].
    + apply ep_sign; [reflexivity|reflexivity|exact Hex].
    + apply ep_sign; [reflexivity|reflexivity|exact Hex].
Qed.

Lemma all_digits_firstn : forall n l, all_digits l = true -> all_digits (firstn n l) = true.
Proof. intros n l H. rewrite <- (firstn_skipn n l) in H. rewrite all_digits_app in H. apply andb_true_iff in H. tauto. Qed.

Lemma all_digits_skipn : forall n l, all_digits l = true -> all_digits (skipn n l) = true.
Proof. intros n l H. rewrite <- (firstn_skipn n l) in H. rewrite all_digits_app in H. apply andb_true_iff in H. tauto. Qed.

Theorem write_dec_ideal_json_number : forall sig exp, 1 <= sig ->
  -1000 < ideal_len sig + exp - 1 < 1000 -> unsigned_number (write_dec_ideal sig exp).
Proof.
  intros sig exp Hsig Hsci. set (sci := ideal_len sig + exp - 1) in *.
  destruct (stripped_facts sig Hsig) as (z & d1 & rest & Hds & Hst & Hd1 & Arest & Hval & Hlen). cbv zeta in *.
  set (ds := canon_dec sig) in *. set (st := strip_trailing_zeros ds) in *.
  assert (Ad1 : is_digit d1 = true) by (apply digit19_digit; exact Hd1).
  assert (Ast : all_digits st = true) by (rewrite Hst; cbn; rewrite Ad1; exact Arest).
  unfold write_dec_ideal, write_dec. fold (ideal_len sig).
  replace (ideal_len sig + exp - 1) with sci by reflexivity.
  destruct ((sci <? -6) || (20 <? sci)) eqn:Efmt.
  - unfold format_exponent. fold ds. fold st.
    replace (exp + ideal_len sig - 1) with sci by (unfold sci; lia).
    set (ae := if sci <? 0 then - sci else sci).
    assert (Hae : 0 <= ae < 1000) by (unfold ae; destruct (sci <? 0) eqn:E; [apply Z.ltb_lt in E|apply Z.ltb_ge in E]; lia).
    destruct (exp_digits_spec ae Hae) as (Aed & Ned & Ved).
    set (sg := if sci <? 0 then EMinus else EPlus).
    assert (Etext : (match st with d :: (_ :: _) as rest0 => d :: c_dot :: rest0 | _ => st end) ++ [c_e] ++
                    (if sci <? 0 then c_minus :: exp_digits (- sci) else c_plus :: exp_digits sci) =
                    shape [d1] (match rest with [] => None | _ => Some rest end) (Some (sg, exp_digits ae))).
    { unfold shape, sg, ae. rewrite Hst. destruct rest as [|r1 rest']; destruct (sci <? 0); reflexivity. }
    rewrite Etext. apply shape_json_number.
    + apply ip_nz; [exact Hd1|reflexivity].
    + destruct rest as [|r1 rest']; [exact I|]. apply all_digits1; [exact Arest|discriminate].
    + apply all_digits1; assumption.
  - apply orb_false_iff in Efmt as [E1 E2]. apply Z.ltb_ge in E1. apply Z.ltb_ge in E2.
    destruct (ideal_len sig + exp <? ideal_len sig) eqn:Edot; [apply Z.ltb_lt in Edot|apply Z.ltb_ge in Edot].
    + unfold format_decimal. fold ds. fold st. set (point := ideal_len sig + exp) in *.
      destruct (point <=? 0) eqn:Ep; [apply Z.leb_le in Ep|apply Z.leb_gt in Ep].
      * assert (Etext : [c_0; c_dot] ++ repeat c_0 (Z.to_nat (- point)) ++ st =
                        shape [c_0] (Some (repeat c_0 (Z.to_nat (- point)) ++ st)) None).
        { unfold shape. rewrite app_nil_r. reflexivity. }
        rewrite Etext. apply shape_json_number; [constructor| |exact I].
        apply all_digits1; [rewrite all_digits_app, all_digits_repeat0; exact Ast|].
        rewrite Hst. destruct (repeat c_0 (Z.to_nat (- point))); discriminate.
      * destruct (point <? Z.of_nat (length st)) eqn:Ed; [apply Z.ltb_lt in Ed|apply Z.ltb_ge in Ed].
        -- set (p := Z.to_nat point). assert (Hp : (0 < p < length st)%nat) by (unfold p; lia).
           assert (Etext : firstn p st ++ [c_dot] ++ skipn p st = shape (firstn p st) (Some (skipn p st)) None).
           { unfold shape. rewrite app_nil_r. reflexivity. }
           rewrite Etext. apply shape_json_number; [| |exact I].
           ++ rewrite Hst. destruct p as [|p']; [lia|]. cbn [firstn]. apply ip_nz; [exact Hd1|apply all_digits_firstn; exact Arest].
           ++ apply all_digits1; [apply all_digits_skipn; exact Ast|].
              intros E. apply (f_equal (@length N)) in E. rewrite skipn_length in E. cbn [length] in E. lia.
        -- set (k := Z.to_nat (point - Z.of_nat (length st))).
           assert (Etext : st ++ repeat c_0 k = shape (st ++ repeat c_0 k) None None).
           { unfold shape. rewrite !app_nil_r. reflexivity. }
           rewrite Etext. apply shape_json_number; [|exact I|exact I].
           rewrite Hst. cbn [app]. apply ip_nz; [exact Hd1|rewrite all_digits_app, Arest, all_digits_repeat0; reflexivity].
    + set (k := Z.to_nat (ideal_len sig + exp - ideal_len sig)).
      assert (Etext : ds ++ repeat c_0 k = shape (ds ++ repeat c_0 k) None None).
      { unfold shape. rewrite !app_nil_r. reflexivity. }
      fold ds. rewrite Etext. apply shape_json_number; [|exact I|exact I].
      rewrite Hds, Hst. cbn [app]. apply ip_nz; [exact Hd1|].
      rewrite !all_digits_app, Arest, !all_digits_repeat0. reflexivity.
Qed.

Theorem write_dec_f64_json_number : forall sig exp, 1 <= sig < 10 ^ 17 ->
  -1000 < ctz10 sig + exp - 1 < 1000 -> unsigned_number (write_dec_f64 sig exp).
Proof.
  intros sig exp H Hs. rewrite (write_dec_f64_ideal sig exp H). rewrite (ctz10_digits sig H) in Hs.
  apply write_dec_ideal_json_number; [lia|exact Hs].
Qed.

Theorem write_dec_f32_json_number : forall sig exp, 1 <= sig < 10 ^ 9 ->
  -1000 < ctz10_u32 sig + exp - 1 < 1000 -> unsigned_number (write_dec_f32 sig exp).
Proof.
  intros sig exp H Hs. rewrite (write_dec_f32_ideal sig exp H). rewrite (ctz10_u32_digits sig H) in Hs.
  apply write_dec_ideal_json_number; [lia|exact Hs].
Qed.

(* with or without the sign that f64toa / f32toa put in front, the text is a JSON number, IsValidNumber accepts it
   and the number scanner skips exactly it (at any offset, before any byte that cannot continue a number) *)
From SV.Num Require Import NumGrammar NumGrammarProofs SkipNumberProofs.

Theorem float_text_accepted : forall (t : list N) (neg : bool) (pre rest : list N), unsigned_number t -> terminated rest ->
  let text := if neg then c_minus :: t else t in
  json_number text /\ is_valid_number text = true /\
  skip_number (pre ++ text ++ rest) (length pre) = (Z.of_nat (length pre), Z.of_nat (length pre) + Z.of_nat (length text)).
Proof.
  intros t neg pre rest Hu Ht text.
  assert (J : json_number text) by (unfold text; destruct neg; [apply jn_neg|apply jn_pos]; exact Hu).
  split; [exact J|]. split; [apply is_valid_number_spec; exact J|apply skip_number_complete; assumption].
Qed.
