(* C19 - the float32 variant (native/f32toa.c): format_integer_u32 / format_significand_f32 (4 + 2 digit groups),
   ctz10_u32, and write_dec_f32 = the layout over the canonical digits; hence write_dec_denotes for f32toa. *)
From Coq Require Import ZArith NArith Bool List Lia.
From SV.Num Require Import Dec DecLemmas IntPrint IntPrintProofs IntPrintExact FloatFmt FloatFmtProofs WriteDecDenotes.
Import ListNotations.
Open Scope Z_scope.

(* `while (sig >= 100) {...}` followed by the head, on values below 10^5 *)
Definition loop2_fmt (s : Z) (acc : list N) : list N :=
  let '(s2, acc2) := fmt_loop2 4 s acc in fmt_head s2 acc2.

Lemma fmt_loop2_acc : forall fuel s acc, fmt_loop2 fuel s acc = (fst (fmt_loop2 fuel s []), snd (fmt_loop2 fuel s []) ++ acc).
Proof.
  induction fuel as [|k IH]; intros s acc; [reflexivity|]. cbn [fmt_loop2].
  destruct (100 <=? s); [|reflexivity].
  rewrite (IH (s / 100) (two (s mod 100 * 2) ++ acc)), (IH (s / 100) (two (s mod 100 * 2) ++ [])).
  cbn [fst snd]. rewrite app_nil_r, <- app_assoc. reflexivity.
Qed.

Lemma loop2_fmt_acc : forall s acc, loop2_fmt s acc = loop2_fmt s [] ++ acc.
Proof.
  intros. unfold loop2_fmt. rewrite (fmt_loop2_acc 4 s acc). destruct (fmt_loop2 4 s []) as [s2 a2]. cbn [fst snd].
  rewrite fmt_head_acc, (fmt_head_acc s2 a2), <- app_assoc. reflexivity.
Qed.

Definition n100k : nat := Z.to_nat 100000.
Fixpoint zfrom (n : nat) (start : Z) : list Z := match n with O => [] | S k => start :: zfrom k (start + 1) end.
Lemma zfrom_in : forall n start v, start <= v < start + Z.of_nat n -> In v (zfrom n start).
Proof.
  induction n as [|k IH]; intros start v H; [lia|]. cbn [zfrom].
  destruct (Z.eq_dec v start) as [->|]; [left; reflexivity|right]. apply IH. lia.
Qed.
Definition loop2_ok (v : Z) : bool := list_eqb (loop2_fmt v []) (u64toa v).
Lemma loop2_all : forallb loop2_ok (zfrom n100k 0) = true.
Proof. vm_compute. reflexivity. Qed.

Lemma loop2_canonical : forall s acc, 0 <= s < 100000 -> exists h, loop2_fmt s acc = h ++ acc /\ canonical h s.
Proof.
  intros s acc H. exists (u64toa s). split.
  - rewrite loop2_fmt_acc. f_equal. pose proof loop2_all as A. rewrite forallb_forall in A.
    apply list_eqb_eq. apply (A s). apply zfrom_in. unfold n100k. rewrite Z2Nat.id; lia.
  - apply u64toa_canonical. change (2 ^ 64) with 18446744073709551616. lia.
Qed.

Lemma format_integer_u32_unfold : forall sig, format_integer_u32 sig =
  let '(sig1, acc1) := if 10000 <=? sig then (sig / 10000, four (sig - 10000 * (sig / 10000))) else (sig, []) in
  loop2_fmt sig1 acc1.
Proof. reflexivity. Qed.

Theorem format_integer_u32_exact : forall sig, 1 <= sig < 10 ^ 9 -> format_integer_u32 sig = canon_dec sig.
Proof.
  intros sig H. change (10 ^ 9) with 1000000000 in H.
  apply canonical_unique with sig; [|apply canon_dec_canonical; lia]. rewrite format_integer_u32_unfold.
  destruct (10000 <=? sig) eqn:E; [apply Z.leb_le in E|apply Z.leb_gt in E].
  - rewrite four_sub.
    assert (Hq : 1 <= sig / 10000 < 100000) by (split; [apply Z.div_le_lower_bound; lia|apply Z.div_lt_upper_bound; lia]).
    assert (Hr : 0 <= sig mod 10000 < 10000) by (apply Z.mod_pos_bound; lia).
    destruct (loop2_canonical (sig / 10000) (four (sig mod 10000)) ltac:(lia)) as (h & -> & C).
    destruct (four_spec _ Hr) as (A & V & L & _).
    set (q := sig / 10000) in *. set (r := sig mod 10000) in *.
    assert (Ev : q * 10 ^ Z.of_nat 4 + r = sig)
      by (change (10 ^ Z.of_nat 4) with 10000; unfold q, r; pose proof (Z.div_mod sig 10000); lia).
    rewrite <- Ev. apply canonical_app; [exact C|lia|exact A|exact L|exact V].
  - destruct (loop2_canonical sig [] ltac:(lia)) as (h & -> & C). rewrite app_nil_r. exact C.
Qed.

Lemma format_significand_f32_unfold : forall sig, format_significand_f32 sig =
  let '(sig1, acc1) :=
    if 10000 <=? sig then
      let c := sig - 10000 * (sig / 10000) in (sig / 10000, if c =? 0 then [] else four c)
    else (sig, []) in
  loop2_fmt sig1 acc1.
Proof. reflexivity. Qed.

Lemma canon_dec_shift4 : forall q, 1 <= q -> canon_dec (q * 10000) = canon_dec q ++ repeat c_0 4.
Proof.
  intros q Hq. apply canonical_unique with (q * 10000); [apply canon_dec_canonical; lia|].
  replace (q * 10000) with (q * 10 ^ Z.of_nat 4 + 0) by (change (10 ^ Z.of_nat 4) with 10000; lia).
  apply canonical_app; [apply canon_dec_canonical; lia|lia|reflexivity|reflexivity|reflexivity].
Qed.

Theorem format_significand_f32_strip : forall sig, 1 <= sig < 10 ^ 9 ->
  strip_trailing_zeros (format_significand_f32 sig) = strip_trailing_zeros (canon_dec sig).
Proof.
  intros sig H. rewrite format_significand_f32_unfold. change (10 ^ 9) with 1000000000 in H.
  destruct (10000 <=? sig) eqn:E.
  - cbv zeta. replace (sig - 10000 * (sig / 10000)) with (sig mod 10000) by (rewrite Z.mod_eq by lia; reflexivity).
    apply Z.leb_le in E.
    destruct (sig mod 10000 =? 0) eqn:Er; [apply Z.eqb_eq in Er|].
    + set (q := sig / 10000) in *.
      assert (Hq : 1 <= q < 100000) by (unfold q; split; [apply Z.div_le_lower_bound; lia|apply Z.div_lt_upper_bound; lia]).
      destruct (loop2_canonical q [] ltac:(lia)) as (h & -> & C). rewrite app_nil_r.
      assert (Eh : h = canon_dec q) by (apply canonical_unique with q; [exact C|apply canon_dec_canonical; lia]).
      assert (Es : sig = q * 10000) by (unfold q; pose proof (Z.div_mod sig 10000); lia).
      rewrite Eh, Es, canon_dec_shift4 by lia. rewrite strip_app_zeros. reflexivity.
    + rewrite <- (format_integer_u32_exact sig) by (change (10 ^ 9) with 1000000000; lia).
      rewrite format_integer_u32_unfold. rewrite (proj2 (Z.leb_le _ _) E).
      replace (sig - 10000 * (sig / 10000)) with (sig mod 10000) by (rewrite Z.mod_eq by lia; reflexivity). reflexivity.
  - rewrite <- (format_integer_u32_exact sig) by (change (10 ^ 9) with 1000000000; lia).
    rewrite format_integer_u32_unfold, E. reflexivity.
Qed.

Lemma ctz10_u32_digits : forall v, 1 <= v < 10 ^ 9 -> ctz10_u32 v = Z.of_nat (length (canon_dec v)).
Proof.
  intros v H. change (10 ^ 9) with 1000000000 in H. unfold ctz10_u32.
  repeat match goal with
         | |- context [?a <=? ?b] => destruct (Z.leb_spec a b)
         | |- context [?a <? ?b] => destruct (Z.ltb_spec a b)
         end; symmetry; apply digits_of_range; try lia;
    match goal with |- 10 ^ ?a <= _ < 10 ^ ?b => let x := eval vm_compute in (10 ^ a) in let y := eval vm_compute in (10 ^ b) in
      change (10 ^ a) with x; change (10 ^ b) with y end; lia.
Qed.

Theorem write_dec_f32_ideal : forall sig exp, 1 <= sig < 10 ^ 9 -> write_dec_f32 sig exp = write_dec_ideal sig exp.
Proof.
  intros sig exp H. unfold write_dec_f32, write_dec_ideal, write_dec, format_exponent, format_decimal, ideal_len.
  rewrite (ctz10_u32_digits sig H), (format_significand_f32_strip sig H), (format_integer_u32_exact sig H). reflexivity.
Qed.

Theorem write_dec_f32_denotes : forall sig exp, 1 <= sig < 10 ^ 9 ->
  let sci := ctz10_u32 sig + exp - 1 in
  -1000 < sci < 1000 ->
  denotes (write_dec_f32 sig exp) sig exp /\
  uses_exponent (write_dec_f32 sig exp) = ((sci <? -6) || (20 <? sci)).
Proof.
  intros sig exp H sci Hsci. rewrite (write_dec_f32_ideal sig exp H).
  unfold sci in *. rewrite (ctz10_u32_digits sig H) in *. apply write_dec_denotes; [lia|exact Hsci].
Qed.

Theorem format_u32_exact : forall sig, 1 <= sig < 10 ^ 9 ->
  format_integer_u32 sig = canon_dec sig /\
  strip_trailing_zeros (format_significand_f32 sig) = strip_trailing_zeros (canon_dec sig) /\
  ctz10_u32 sig = Z.of_nat (length (canon_dec sig)).
Proof.
  intros sig H. split; [apply format_integer_u32_exact; exact H|].
  split; [apply format_significand_f32_strip; exact H|apply ctz10_u32_digits; exact H].
Qed.
