(* C19 - vsigned_exact / vunsigned_exact: the model of `vinteger` returns the exact value of the integer
   literal iff it fits the 64-bit type, an overflow error if it does not, a number-format error if a
   fraction or exponent follows; it never wraps and never truncates.  All inputs, any start offset. *)
From Coq Require Import ZArith NArith Bool List Lia.
From SV.Num Require Import Dec DecLemmas IntParse.
Import ListNotations.
Open Scope Z_scope.

(* magnitude bound of the accumulator for a given sign *)
Definition mag_bound (lo hi sgn : Z) : Z := if sgn =? 1 then hi else - lo.

Lemma in_rng_mag : forall lo hi sgn m, lo <= 0 <= hi -> (sgn = 1 \/ sgn = -1) -> 0 <= m ->
  in_rng lo hi (sgn * m) = (m <=? mag_bound lo hi sgn).
Proof.
  intros lo hi sgn m H [-> | ->] Hm; unfold in_rng, mag_bound; cbn [Z.eqb Pos.eqb].
  - destruct (m <=? hi) eqn:E; [apply Z.leb_le in E|apply Z.leb_gt in E].
    + apply andb_true_iff; split; apply Z.leb_le; lia.
    + apply andb_false_iff; right; apply Z.leb_gt; lia.
  - destruct (m <=? - lo) eqn:E; [apply Z.leb_le in E|apply Z.leb_gt in E].
    + apply andb_true_iff; split; apply Z.leb_le; lia.
    + apply andb_false_iff; left; apply Z.leb_gt; lia.
Qed.

Lemma sgn_sq : forall sgn x, (sgn = 1 \/ sgn = -1) -> sgn * (sgn * x) = x.
Proof. intros sgn x [-> | ->]; lia. Qed.

(* parse_integer_digits: exact value when the final magnitude fits, overflow flag otherwise *)
Lemma pid_spec : forall lo hi sgn, lo <= 0 <= hi -> (sgn = 1 \/ sgn = -1) ->
  forall l val i d r, take_digits l = (d, r) -> 0 <= sgn * val <= mag_bound lo hi sgn ->
  (dec_acc (sgn * val) d <= mag_bound lo hi sgn ->
     parse_integer_digits lo hi sgn val i l = (false, sgn * dec_acc (sgn * val) d, (i + length d)%nat)) /\
  (mag_bound lo hi sgn < dec_acc (sgn * val) d -> fst (fst (parse_integer_digits lo hi sgn val i l)) = true).
Proof.
  intros lo hi sgn Hr Hs. induction l as [|c t IH]; intros val i d r T Hv; cbn in T.
  - inversion T; subst. cbn [dec_acc parse_integer_digits length]. split; intros.
    + rewrite sgn_sq by assumption. f_equal. lia.
    + lia.
  - destruct (is_digit c) eqn:E.
    + destruct (take_digits t) as [d' r'] eqn:T'. inversion T; subst d r'. clear T.
      cbn [parse_integer_digits dec_acc length]. rewrite E.
      pose proof (dval_range c E) as Hd.
      pose proof (take_digits_spec _ _ _ T') as (_ & Hall & _).
      set (M := sgn * val) in *.
      assert (E10 : val * 10 = sgn * (M * 10)) by (unfold M; destruct Hs as [-> | ->]; lia).
      rewrite E10, in_rng_mag by (try assumption; lia).
      destruct (M * 10 <=? mag_bound lo hi sgn) eqn:B1; [apply Z.leb_le in B1|apply Z.leb_gt in B1].
      * assert (Ev : sgn * (M * 10) + sgn * dval c = sgn * (M * 10 + dval c)) by lia.
        rewrite Ev, in_rng_mag by (try assumption; lia).
        destruct (M * 10 + dval c <=? mag_bound lo hi sgn) eqn:B2; [apply Z.leb_le in B2|apply Z.leb_gt in B2].
        -- specialize (IH (sgn * (M * 10 + dval c)) (S i) d' r eq_refl).
           rewrite sgn_sq in IH by assumption.
           destruct IH as [I1 I2]; [lia|]. split; intros H.
           ++ rewrite I1 by exact H. f_equal. lia.
           ++ apply I2. exact H.
        -- split; intros H; [|reflexivity].
           pose proof (dec_acc_mono d' (M * 10 + dval c) Hall). lia.
      * split; intros H; [|reflexivity].
        pose proof (dec_acc_mono d' (M * 10 + dval c) Hall). lia.
    + inversion T; subst. cbn [parse_integer_digits dec_acc length]. rewrite E. split; intros.
      * rewrite sgn_sq by assumption. f_equal. lia.
      * lia.
Qed.

(* ---- the body of vinteger on  pre ++ ip ++ rest  entered at i = |pre| -------------------------- *)
Definition starts_dot_or_exp (l : list N) : bool := match l with c :: _ => is_dot_or_exp c | [] => false end.
Definition starts_digit (l : list N) : bool := match l with c :: _ => is_digit c | [] => false end.

Lemma nth_pre : forall (pre x : list N) d, nth (length pre) (pre ++ x) d = hd d x.
Proof. intros. apply nth_app_len. Qed.

Lemma skipn_pre : forall (pre x : list N), skipn (length pre) (pre ++ x) = x.
Proof. intros. apply skipn_app_len. Qed.

Lemma int_part_digits : forall ip, int_part ip -> all_digits ip = true /\ ip <> [] .
Proof.
  intros ip H. destruct H.
  - split; [reflexivity|discriminate].
  - split; [cbn; rewrite (digit19_digit _ H); exact H0|discriminate].
Qed.

Lemma c0_not_19 : is_digit19 c_0 = false.
Proof. reflexivity. Qed.

Section Body.
  Variables lo hi sgn : Z.
  Hypothesis Hr : lo <= 0 <= hi.
  Hypothesis Hs : sgn = 1 \/ sgn = -1.
  Let B := mag_bound lo hi sgn.

  (* completeness: every integer literal, followed by something that is not a digit *)
  Lemma body_complete : forall pre ip rest oob,
    int_part ip -> starts_digit rest = false ->
    let s := pre ++ ip ++ rest in
    let i := length pre in
    let r := vinteger_body lo hi sgn s oob i in
    (starts_dot_or_exp rest = true -> v_vt r < 0) /\
    (starts_dot_or_exp rest = false -> dec_val ip <= B ->
       r = mkV V_INTEGER (i + length ip)%nat (sgn * dec_val ip)) /\
    (starts_dot_or_exp rest = false -> B < dec_val ip -> v_vt r = - ERR_OVERFLOW).
  Proof.
    intros pre ip rest oob Hip Hrest s i r.
    assert (Hn : length s = (i + length ip + length rest)%nat).
    { unfold s, i. rewrite !app_length. lia. }
    assert (Hnth : forall k, nth (i + k) s 0%N = nth k (ip ++ rest) 0%N).
    { intros k. unfold s, i. rewrite app_nth2 by lia. f_equal. lia. }
    assert (Hskip : skipn i s = ip ++ rest) by (unfold s, i; apply skipn_pre).
    assert (Htd : take_digits (ip ++ rest) = (ip, rest)).
    { apply take_digits_app; [apply int_part_digits; exact Hip|].
      destruct rest; [exact I|]. cbn in Hrest. exact Hrest. }
    (* what the parse loop yields *)
    pose proof (pid_spec lo hi sgn Hr Hs (ip ++ rest) 0 i ip rest Htd) as P.
    rewrite Z.mul_0_r in P. fold (dec_val ip) in P. fold B in P.
    assert (HB : 0 <= B) by (unfold B, mag_bound; destruct Hs as [-> | ->]; cbn; lia).
    specialize (P (conj (Z.le_refl 0) HB)). destruct P as [P1 P2].
    assert (Hnext : forall j, j = (i + length ip)%nat ->
              ((j <? length s)%nat && is_dot_or_exp (nth j s 0%N)) = starts_dot_or_exp rest).
    { intros j ->. replace (i + length ip)%nat with (i + length ip)%nat by lia. rewrite Hnth.
      rewrite nth_app_len. destruct rest as [|c1 rest']; cbn [hd starts_dot_or_exp].
      - rewrite Hn. cbn [length]. replace (i + length ip + 0)%nat with (i + length ip)%nat by lia.
        rewrite Nat.ltb_irrefl. reflexivity.
      - rewrite Hn. cbn [length]. rewrite (proj2 (Nat.ltb_lt _ _)) by lia. reflexivity. }
    assert (Hnth0 : nth i s 0%N = hd 0%N ip).
    { pose proof (Hnth 0%nat) as H0. rewrite Nat.add_0_r in H0. rewrite H0.
      destruct ip; [destruct (proj2 (int_part_digits _ Hip)); reflexivity|reflexivity]. }
    unfold r, vinteger_body. fold s. rewrite Hskip, Hnth0.
    set (PP := parse_integer_digits lo hi sgn 0 i (ip ++ rest)) in *.
    clearbody PP.
    destruct Hip as [|c l Hc Hl].
    - (* ip = "0" *)
      cbn [hd]. change (is_digit c_0) with true. cbn [negb].
      change ((c_0 =? c_0)%N) with true. cbn [andb].
      assert (Hba : byte_at s oob (S i) = match rest with [] => oob | c1 :: _ => c1 end).
      { unfold byte_at. rewrite Hn. cbn [length]. destruct rest as [|c1 rest'].
        - cbn [length]. replace (i + 1 + 0)%nat with (S i) by lia. rewrite Nat.eqb_refl. reflexivity.
        - cbn [length]. rewrite (proj2 (Nat.eqb_neq _ _)) by lia.
          replace (S i) with (i + 1)%nat by lia. rewrite Hnth. reflexivity. }
      rewrite Hba.
      change (dec_val [c_0]) with 0 in *. cbn [length] in *.
      rewrite Z.mul_0_r in *.
      rewrite (P1 HB).
      destruct rest as [|c1 rest'].
      + (* nothing follows inside the buffer: the out-of-bounds byte decides the path, not the result *)
        cbn [starts_dot_or_exp]. split; [discriminate|]. split; [|intros; lia]. intros _ _.
        destruct (is_dot_or_exp oob); cbn [negb].
        * rewrite (Hnext (i + 1)%nat eq_refl). cbn [starts_dot_or_exp]. reflexivity.
        * f_equal. lia.
      + cbn [starts_dot_or_exp]. destruct (is_dot_or_exp c1) eqn:E1; cbn [negb].
        * rewrite (Hnext (i + 1)%nat eq_refl). cbn [starts_dot_or_exp]. rewrite E1.
          split; [intros _; cbn; lia|]. split; intros; discriminate.
        * split; [discriminate|]. split; [|intros; lia]. intros _ _. f_equal. lia.
    - (* ip = c :: l, c in 1..9 *)
      cbn [hd]. rewrite (digit19_digit _ Hc). cbn [negb].
      assert (Hc0 : (c =? c_0)%N = false).
      { apply N.eqb_neq. intros ->. rewrite c0_not_19 in Hc. discriminate. }
      rewrite Hc0. cbn [andb].
      destruct (Z_le_gt_dec (dec_val (c :: l)) B) as [Hle | Hgt].
      + rewrite (P1 Hle). rewrite (Hnext _ eq_refl).
        destruct (starts_dot_or_exp rest).
        * split; [intros _; cbn; lia|]. split; intros; discriminate.
        * split; [discriminate|]. split; [reflexivity|intros; lia].
      + assert (Hgt' : B < dec_val (c :: l)) by lia. specialize (P2 Hgt').
        destruct PP as [[ovf val] j]. cbn in P2. subst ovf.
        split; [intros _; cbn; lia|]. split; [intros; lia|reflexivity].
  Qed.

  (* soundness: whatever the input, V_INTEGER means an integer literal was read and iv is its exact value *)
  Lemma body_sound : forall s oob i r, (i < length s)%nat -> vinteger_body lo hi sgn s oob i = r -> v_vt r = V_INTEGER ->
    exists ip rest, skipn i s = ip ++ rest /\ int_part ip /\ v_p r = (i + length ip)%nat /\
                    v_iv r = sgn * dec_val ip /\ dec_val ip <= B /\
                    starts_dot_or_exp rest = false /\
                    (starts_digit rest = true -> ip = [c_0]).
  Proof.
    intros s oob i r Hi Hbody Hvt.
    destruct (skipn i s) as [|c t] eqn:Hsk.
    { exfalso. apply (f_equal (@length N)) in Hsk. rewrite skipn_length in Hsk. cbn in Hsk. lia. }
    assert (Hs' : s = firstn i s ++ c :: t) by (rewrite <- Hsk; symmetry; apply firstn_skipn).
    assert (Hlen : length (firstn i s) = i) by (apply firstn_length_le; lia).
    set (pre := firstn i s) in *.
    assert (Hc : nth i s 0%N = c).
    { rewrite Hs'. rewrite <- Hlen at 1. rewrite nth_app_len. reflexivity. }
    unfold vinteger_body in Hbody. rewrite Hc, Hsk in Hbody. clear Hc.
    destruct (is_digit c) eqn:Ed; cbn [negb] in Hbody; [|subst r; cbn in Hvt; discriminate].
    destruct (take_digits (c :: t)) as [d rest] eqn:Htd.
    pose proof (take_digits_spec _ _ _ Htd) as (Hsplit & Hall & Hrest).
    assert (Hd : exists d', d = c :: d').
    { cbn in Htd. rewrite Ed in Htd. destruct (take_digits t). inversion Htd. eauto. }
    destruct Hd as [d' ->].
    assert (HB : 0 <= B) by (unfold B, mag_bound; destruct Hs as [-> | ->]; cbn; lia).
    pose proof (pid_spec lo hi sgn Hr Hs (c :: t) 0 i (c :: d') rest Htd) as P.
    rewrite Z.mul_0_r in P. fold (dec_val (c :: d')) in P. fold B in P.
    specialize (P (conj (Z.le_refl 0) HB)). destruct P as [P1 P2].
    assert (Hlen_s : length s = (i + S (length t))%nat).
    { rewrite Hs'. rewrite app_length, Hlen. reflexivity. }
    assert (Hby : byte_at s oob (S i) = match t with [] => oob | c1 :: _ => c1 end).
    { unfold byte_at. rewrite Hlen_s.
      destruct t as [|c1 t'].
      - cbn [length]. replace (i + 1)%nat with (S i) by lia. rewrite Nat.eqb_refl. reflexivity.
      - cbn [length]. rewrite (proj2 (Nat.eqb_neq _ _)) by lia.
        rewrite Hs'. replace (S i) with (length pre + 1)%nat by lia. rewrite app_nth2 by lia.
        replace (length pre + 1 - length pre)%nat with 1%nat by lia. reflexivity. }
    rewrite Hby in Hbody.
    destruct ((c =? c_0)%N && negb (is_dot_or_exp match t with [] => oob | c1 :: _ => c1 end)) eqn:Ez.
    - (* leading zero, early return *)
      apply andb_true_iff in Ez as [Ez1 Ez2]. apply N.eqb_eq in Ez1. subst c.
      subst r. cbn in *. exists [c_0], t. split; [reflexivity|]. split; [constructor|].
      split; [cbn; lia|]. split; [change (dec_val [c_0]) with 0; lia|]. split; [change (dec_val [c_0]) with 0; lia|].
      split; [|auto]. destruct t as [|c1 t']; [reflexivity|]. cbn. apply negb_true_iff in Ez2. exact Ez2.
    - destruct (Z_le_gt_dec (dec_val (c :: d')) B) as [Hle | Hgt].
      + rewrite (P1 Hle) in Hbody.
        (* the byte after the digits *)
        assert (Hnext : ((i + length (c :: d') <? length s)%nat && is_dot_or_exp (nth (i + length (c :: d')) s 0%N)) = starts_dot_or_exp rest).
        { assert (Ls : length s = (i + length (c :: d') + length rest)%nat).
          { rewrite Hlen_s. apply (f_equal (@length N)) in Hsplit. rewrite app_length in Hsplit.
            cbn [length] in *. lia. }
          assert (Hn2 : nth (i + length (c :: d')) s 0%N = hd 0%N rest).
          { rewrite Hs', Hsplit. rewrite app_nth2 by lia. rewrite Hlen.
            replace (i + length (c :: d') - i)%nat with (length (c :: d')) by lia. apply nth_app_len. }
          rewrite Hn2, Ls. destruct rest as [|c1 rest']; cbn [hd starts_dot_or_exp length].
          - rewrite Nat.add_0_r, Nat.ltb_irrefl. reflexivity.
          - rewrite (proj2 (Nat.ltb_lt _ _)) by lia. reflexivity. }
        rewrite Hnext in Hbody.
        destruct (starts_dot_or_exp rest) eqn:Esr; [subst r; cbn in Hvt; discriminate|].
        subst r. cbn [v_vt v_p v_iv].
        destruct (is_digit19 c) eqn:E19.
        * exists (c :: d'), rest. split; [exact Hsplit|]. split; [constructor; [exact E19|cbn in Hall; rewrite Ed in Hall; exact Hall]|].
          split; [reflexivity|]. split; [reflexivity|]. split; [exact Hle|]. split; [exact Esr|].
          intros Hdg. exfalso. destruct rest as [|c1 ?]; [discriminate|]. cbn in Hdg. rewrite Hdg in Hrest. discriminate.
        * (* c = '0' and the following byte is '.', 'e' or 'E' *)
          assert (c = c_0).
          { apply is_digit_range in Ed. unfold is_digit19 in E19. apply andb_false_iff in E19.
            unfold c_0. destruct E19 as [E|E]; [apply N.leb_gt in E|apply N.leb_gt in E]; lia. }
          subst c. cbn [andb N.eqb] in Ez. change ((c_0 =? c_0)%N) with true in Ez. cbn [andb] in Ez.
          apply negb_false_iff in Ez.
          (* the digits after the 0 must be empty: the next byte is not a digit *)
          assert (d' = []).
          { destruct d' as [|c2 d'']; [reflexivity|]. exfalso.
            cbn in Hall. apply andb_true_iff in Hall as [Hc2 _].
            assert (t = c2 :: (d'' ++ rest)) by (cbn in Hsplit; inversion Hsplit; reflexivity).
            subst t. unfold is_dot_or_exp in Ez. destruct (digit_not_special c2 Hc2) as (A1 & A2 & _).
            rewrite A1, A2 in Ez. discriminate. }
          subst d'. exists [c_0], rest. split; [exact Hsplit|]. split; [constructor|].
          split; [reflexivity|]. split; [reflexivity|]. split; [exact Hle|]. split; [exact Esr|]. auto.
      + assert (Hgt' : B < dec_val (c :: d')) by lia. specialize (P2 Hgt').
        destruct (parse_integer_digits lo hi sgn 0 i (c :: t)) as [[ovf val] j]. cbn in P2. subst ovf.
        subst r. cbn in Hvt. discriminate.
  Qed.
End Body.

(* ---- vsigned / vunsigned ----------------------------------------------------------------------- *)
Lemma skipn_nth_cons : forall (s : list N) p, (p < length s)%nat -> skipn p s = nth p s 0%N :: skipn (S p) s.
Proof.
  induction s as [|a s IH]; intros p H; cbn in H; [lia|].
  destruct p; [reflexivity|]. cbn [skipn nth]. apply IH. lia.
Qed.

Lemma int_lit_val_pos : forall ip, int_part ip -> int_lit_val ip = dec_val ip.
Proof.
  intros ip H. destruct H; cbn; [reflexivity|].
  destruct (digit_not_special c (digit19_digit _ H)) as (_ & _ & _ & E). rewrite E. reflexivity.
Qed.

Lemma hd_int_part_not_minus : forall ip, int_part ip -> (hd 0%N ip =? c_minus)%N = false /\ ip <> [].
Proof.
  intros ip H. destruct H; cbn; [split; [reflexivity|discriminate]|].
  destruct (digit_not_special c (digit19_digit _ H)) as (_ & _ & _ & E). split; [exact E|discriminate].
Qed.

Definition in_i64 (v : Z) : Prop := I64_MIN <= v <= I64_MAX.
Definition in_u64 (v : Z) : Prop := 0 <= v <= U64_MAX.

Theorem vsigned_exact : forall pre lit rest oob,
  json_int lit -> starts_digit rest = false ->
  let r := vsigned (pre ++ lit ++ rest) oob (length pre) in
  let v := int_lit_val lit in
  (starts_dot_or_exp rest = true -> v_vt r < 0) /\
  (starts_dot_or_exp rest = false -> in_i64 v -> r = mkV V_INTEGER (length pre + length lit)%nat v) /\
  (starts_dot_or_exp rest = false -> ~ in_i64 v -> v_vt r = - ERR_OVERFLOW).
Proof.
  intros pre lit rest oob Hlit Hrest. cbv zeta. unfold vsigned, in_i64.
  assert (R : I64_MIN <= 0 <= I64_MAX) by (unfold I64_MIN, I64_MAX; lia).
  destruct Hlit as [ip Hip | ip Hip].
  - destruct (hd_int_part_not_minus ip Hip) as [Hm Hne].
    assert (Lip : (0 < length ip)%nat) by (destruct ip; [congruence|cbn; lia]).
    rewrite !app_length. rewrite (proj2 (Nat.leb_gt _ _)) by lia.
    rewrite nth_pre. replace (hd 0%N (ip ++ rest)) with (hd 0%N ip) by (destruct ip; [congruence|reflexivity]).
    rewrite Hm. rewrite int_lit_val_pos by assumption.
    pose proof (body_complete I64_MIN I64_MAX 1 R (or_introl eq_refl) pre ip rest oob Hip Hrest) as (A & B & C).
    cbv zeta in A, B, C. unfold mag_bound in B, C. cbn [Z.eqb Pos.eqb] in B, C.
    pose proof (dec_val_nonneg ip (proj1 (int_part_digits ip Hip))) as Hnn.
    split; [exact A|]. split.
    + intros H1 H2. rewrite (B H1) by lia. f_equal. lia.
    + intros H1 H2. apply C; [exact H1|]. unfold I64_MIN in *. lia.
  - destruct (hd_int_part_not_minus ip Hip) as [Hm Hne].
    assert (Lip : (0 < length ip)%nat) by (destruct ip; [congruence|cbn; lia]).
    rewrite !app_length. cbn [length app].
    rewrite (proj2 (Nat.leb_gt _ _)) by lia.
    rewrite nth_pre. cbn [hd]. change ((c_minus =? c_minus)%N) with true. cbn iota.
    rewrite (proj2 (Nat.leb_gt _ _)) by lia.
    replace (pre ++ c_minus :: ip ++ rest) with ((pre ++ [c_minus]) ++ ip ++ rest) by (rewrite <- app_assoc; reflexivity).
    replace (S (length pre)) with (length (pre ++ [c_minus])) by (rewrite app_length; cbn; lia).
    pose proof (body_complete I64_MIN I64_MAX (-1) R (or_intror eq_refl) (pre ++ [c_minus]) ip rest oob Hip Hrest) as (A & B & C).
    cbv zeta in A, B, C. unfold mag_bound in B, C. cbn [Z.eqb] in B, C.
    pose proof (dec_val_nonneg ip (proj1 (int_part_digits ip Hip))) as Hnn.
    assert (Ev : int_lit_val (c_minus :: ip) = - dec_val ip) by reflexivity. rewrite Ev.
    split; [exact A|]. split.
    + intros H1 H2. rewrite (B H1) by (unfold I64_MIN in *; lia). f_equal; try (rewrite app_length; cbn [length]); lia.
    + intros H1 H2. apply C; [exact H1|]. unfold I64_MIN, I64_MAX in *. lia.
Qed.

Theorem vunsigned_exact : forall pre ip rest oob,
  int_part ip -> starts_digit rest = false ->
  let r := vunsigned (pre ++ ip ++ rest) oob (length pre) in
  let v := dec_val ip in
  (starts_dot_or_exp rest = true -> v_vt r < 0) /\
  (starts_dot_or_exp rest = false -> in_u64 v -> r = mkV V_INTEGER (length pre + length ip)%nat v) /\
  (starts_dot_or_exp rest = false -> ~ in_u64 v -> v_vt r = - ERR_OVERFLOW).
Proof.
  intros pre ip rest oob Hip Hrest. cbv zeta. unfold vunsigned, in_u64.
  assert (R : 0 <= 0 <= U64_MAX) by (unfold U64_MAX; lia).
  destruct (hd_int_part_not_minus ip Hip) as [Hm Hne].
  assert (Lip : (0 < length ip)%nat) by (destruct ip; [congruence|cbn; lia]).
  rewrite !app_length. rewrite (proj2 (Nat.leb_gt _ _)) by lia.
  rewrite nth_pre. replace (hd 0%N (ip ++ rest)) with (hd 0%N ip) by (destruct ip; [congruence|reflexivity]).
  rewrite Hm.
  pose proof (body_complete 0 U64_MAX 1 R (or_introl eq_refl) pre ip rest oob Hip Hrest) as (A & B & C).
  cbv zeta in A, B, C. unfold mag_bound in B, C. cbn [Z.eqb Pos.eqb] in B, C.
  pose proof (dec_val_nonneg ip (proj1 (int_part_digits ip Hip))) as Hnn.
  split; [exact A|]. split.
  - intros H1 H2. rewrite (B H1) by lia. f_equal. lia.
  - intros H1 H2. apply C; [exact H1|]. lia.
Qed.

(* a minus sign is a number-format error for unsigned destinations *)
Theorem vunsigned_rejects_minus : forall pre rest oob,
  v_vt (vunsigned (pre ++ c_minus :: rest) oob (length pre)) = - ERR_NUMBER_FMT.
Proof.
  intros. unfold vunsigned. rewrite app_length. cbn [length].
  rewrite (proj2 (Nat.leb_gt _ _)) by lia. rewrite nth_pre. cbn [hd].
  change ((c_minus =? c_minus)%N) with true. reflexivity.
Qed.

(* soundness, any input and offset: V_INTEGER is only ever reported for an integer literal, with its exact value *)
Theorem vsigned_sound : forall s oob p r, vsigned s oob p = r -> v_vt r = V_INTEGER ->
  exists lit rest, skipn p s = lit ++ rest /\ json_int lit /\ v_p r = (p + length lit)%nat /\
                   v_iv r = int_lit_val lit /\ in_i64 (v_iv r) /\ starts_dot_or_exp rest = false /\
                   (starts_digit rest = true -> lit = [c_0] \/ lit = [c_minus; c_0]).
Proof.
  intros s oob p r H Hvt. unfold vsigned in H.
  assert (R : I64_MIN <= 0 <= I64_MAX) by (unfold I64_MIN, I64_MAX; lia).
  destruct (length s <=? p)%nat eqn:E1; [subst r; cbn in Hvt; discriminate|]. apply Nat.leb_gt in E1.
  destruct ((nth p s 0 =? c_minus)%N) eqn:Em.
  - destruct (length s <=? S p)%nat eqn:E2; [subst r; cbn in Hvt; discriminate|]. apply Nat.leb_gt in E2.
    destruct (body_sound I64_MIN I64_MAX (-1) R (or_intror eq_refl) s oob (S p) r E2 H Hvt)
      as (ip & rest & Hsk & Hip & Hp & Hiv & Hb & Hd & Hz).
    unfold mag_bound in Hb. cbn [Z.eqb] in Hb.
    exists (c_minus :: ip), rest. apply N.eqb_eq in Em.
    pose proof (dec_val_nonneg ip (proj1 (int_part_digits ip Hip))) as Hnn.
    split; [rewrite skipn_nth_cons by lia; rewrite Em, Hsk; reflexivity|].
    split; [apply ji_neg; exact Hip|]. split; [rewrite Hp; cbn; lia|].
    split; [rewrite Hiv; change (int_lit_val (c_minus :: ip)) with (- dec_val ip); lia|].
    split; [rewrite Hiv; unfold in_i64, I64_MIN, I64_MAX in *; lia|].
    split; [exact Hd|]. intros Hdg. right. rewrite (Hz Hdg). reflexivity.
  - destruct (body_sound I64_MIN I64_MAX 1 R (or_introl eq_refl) s oob p r E1 H Hvt)
      as (ip & rest & Hsk & Hip & Hp & Hiv & Hb & Hd & Hz).
    unfold mag_bound in Hb. cbn [Z.eqb Pos.eqb] in Hb.
    pose proof (dec_val_nonneg ip (proj1 (int_part_digits ip Hip))) as Hnn.
    exists ip, rest. split; [exact Hsk|]. split; [apply ji_pos; exact Hip|]. split; [exact Hp|].
    split; [rewrite Hiv, int_lit_val_pos by assumption; lia|].
    split; [rewrite Hiv; unfold in_i64, I64_MIN in *; lia|]. split; [exact Hd|]. intros Hdg. left. exact (Hz Hdg).
Qed.

Theorem vunsigned_sound : forall s oob p r, vunsigned s oob p = r -> v_vt r = V_INTEGER ->
  exists ip rest, skipn p s = ip ++ rest /\ int_part ip /\ v_p r = (p + length ip)%nat /\
                  v_iv r = dec_val ip /\ in_u64 (v_iv r) /\ starts_dot_or_exp rest = false /\
                  (starts_digit rest = true -> ip = [c_0]).
Proof.
  intros s oob p r H Hvt. unfold vunsigned in H.
  assert (R : 0 <= 0 <= U64_MAX) by (unfold U64_MAX; lia).
  destruct (length s <=? p)%nat eqn:E1; [subst r; cbn in Hvt; discriminate|]. apply Nat.leb_gt in E1.
  destruct ((nth p s 0 =? c_minus)%N) eqn:Em; [subst r; cbn in Hvt; discriminate|].
  destruct (body_sound 0 U64_MAX 1 R (or_introl eq_refl) s oob p r E1 H Hvt)
    as (ip & rest & Hsk & Hip & Hp & Hiv & Hb & Hd & Hz).
  unfold mag_bound in Hb. cbn [Z.eqb Pos.eqb] in Hb.
  pose proof (dec_val_nonneg ip (proj1 (int_part_digits ip Hip))) as Hnn.
  exists ip, rest. split; [exact Hsk|]. split; [exact Hip|]. split; [exact Hp|].
  split; [rewrite Hiv; lia|]. split; [rewrite Hiv; unfold in_u64; lia|]. split; [exact Hd|exact Hz].
Qed.

(* hypotheses are satisfiable: concrete runs *)
Example vsigned_examples :
  vsigned [45;49;50;56]%N 0%N 0 = mkV V_INTEGER 4 (-128) /\
  v_vt (vsigned [57;50;50;51;51;55;50;48;51;54;56;53;52;55;55;53;56;48;56]%N 0%N 0) = - ERR_OVERFLOW /\
  v_vt (vsigned [49;46;53]%N 0%N 0) = - ERR_NUMBER_FMT /\
  json_int [45;49;50;56]%N.
Proof.
  repeat split; try reflexivity. apply ji_neg. apply ip_nz; reflexivity.
Qed.
