(* C19 - u64toa_exact / i64toa_exact: the digit-pair / SSE2 algorithm of native/fastint.h prints the canonical
   (shortest) decimal text of every value in [0, 2^64) resp. [-2^63, 2^63), and the text parses back. *)
From Coq Require Import ZArith NArith Bool List Lia.
From SV.Num Require Import Dec DecLemmas IntParse IntParseProofs IntPrint FloatFmt.
Import ListNotations.
Open Scope Z_scope.

(* ---- canonical texts: characterisation and uniqueness ----------------------------------------- *)
Definition no_lead_zero (l : list N) : Prop := match l with c :: _ :: _ => c <> c_0 | _ => True end.
Definition canonical (l : list N) (v : Z) : Prop :=
  all_digits l = true /\ l <> [] /\ dec_val l = v /\ no_lead_zero l.

Lemma dec_val_app : forall a b, dec_val (a ++ b) = dec_val a * 10 ^ Z.of_nat (length b) + dec_val b.
Proof. intros. unfold dec_val. rewrite dec_acc_app. rewrite dec_acc_lin. reflexivity. Qed.

Lemma dec_val_cons : forall c t, dec_val (c :: t) = dval c * 10 ^ Z.of_nat (length t) + dec_val t.
Proof. intros. unfold dec_val. cbn [dec_acc]. rewrite (dec_acc_lin t (0 * 10 + dval c)). unfold dec_val. lia. Qed.

Lemma dec_val_snoc : forall l c, dec_val (l ++ [c]) = dec_val l * 10 + dval c.
Proof. intros. unfold dec_val. rewrite dec_acc_app. reflexivity. Qed.

(* same length, same value => same digits *)
Lemma digits_unique_len : forall l1 l2, length l1 = length l2 -> all_digits l1 = true -> all_digits l2 = true ->
  dec_val l1 = dec_val l2 -> l1 = l2.
Proof.
  induction l1 as [|c1 t1 IH] using rev_ind; intros l2 Hlen H1 H2 Hv.
  - destruct l2; [reflexivity|discriminate].
  - destruct l2 as [|c2 t2] using rev_ind; [rewrite app_length in Hlen; cbn in Hlen; lia|]. clear IHt2.
    rewrite !app_length in Hlen. cbn in Hlen.
    rewrite all_digits_app in H1, H2. apply andb_true_iff in H1 as [H1 Hc1]. apply andb_true_iff in H2 as [H2 Hc2].
    cbn in Hc1, Hc2. rewrite andb_true_r in Hc1, Hc2.
    rewrite !dec_val_snoc in Hv. pose proof (dval_range c1 Hc1). pose proof (dval_range c2 Hc2).
    pose proof (dec_val_nonneg t1 H1). pose proof (dec_val_nonneg t2 H2).
    assert (dval c1 = dval c2 /\ dec_val t1 = dec_val t2) as [Ec Et] by lia.
    f_equal.
    + apply IH; try assumption. lia.
    + f_equal. apply is_digit_range in Hc1, Hc2. unfold dval in Ec. lia.
Qed.

Lemma dec_val_lower : forall c t, is_digit c = true -> c <> c_0 -> all_digits t = true ->
  10 ^ Z.of_nat (length t) <= dec_val (c :: t).
Proof.
  intros c t Hc Hn Ht. rewrite dec_val_cons. pose proof (dec_val_nonneg t Ht).
  apply is_digit_range in Hc. unfold dval, c_0 in *.
  assert (0 < 10 ^ Z.of_nat (length t)) by (apply Z.pow_pos_nonneg; lia). nia.
Qed.

Lemma canonical_length : forall l1 l2 v, canonical l1 v -> canonical l2 v -> length l1 = length l2.
Proof.
  assert (G : forall l1 l2 v, canonical l1 v -> canonical l2 v -> (length l1 <= length l2)%nat).
  { intros l1 l2 v (A1 & N1 & V1 & Z1) (A2 & N2 & V2 & Z2).
    destruct (le_lt_dec (length l1) (length l2)) as [|Hlt]; [assumption|exfalso].
    (* l1 longer: its value is >= 10^(|l1|-1) >= 10^|l2| > value of l2 *)
    destruct l1 as [|c1 [|c1' t1]]; [congruence|cbn in Hlt; destruct l2; [congruence|cbn in Hlt; lia]|].
    cbn in Z1. cbn in A1. apply andb_true_iff in A1 as [Hc1 At1].
    pose proof (dec_val_lower c1 (c1' :: t1) Hc1 Z1 At1) as Lo.
    pose proof (dec_val_bound l2 A2) as Hi.
    assert (10 ^ Z.of_nat (length l2) <= 10 ^ Z.of_nat (length (c1' :: t1))).
    { apply Z.pow_le_mono_r; [lia|]. cbn [length] in *. lia. }
    lia. }
  intros. apply Nat.le_antisymm; eapply G; eauto.
Qed.

Lemma canonical_unique : forall l1 l2 v, canonical l1 v -> canonical l2 v -> l1 = l2.
Proof.
  intros l1 l2 v H1 H2. pose proof (canonical_length l1 l2 v H1 H2) as Hl.
  destruct H1 as (A1 & _ & V1 & _), H2 as (A2 & _ & V2 & _). apply digits_unique_len; congruence.
Qed.

(* canon_dec is canonical *)
Lemma canon_fuel_spec : forall fuel v acc, 0 <= v < 2 ^ Z.of_nat fuel -> (0 < fuel)%nat -> all_digits acc = true ->
  let l := canon_fuel fuel v acc in
  all_digits l = true /\ dec_val l = v * 10 ^ Z.of_nat (length acc) + dec_val acc /\
  (exists c t, l = c :: t ++ acc /\ (1 <= v -> c <> c_0) /\ (v = 0 -> t = [])).
Proof.
  induction fuel as [|k IH]; intros v acc Hv Hf Hacc; [lia|]. cbn [canon_fuel].
  destruct (v <? 10) eqn:E; [apply Z.ltb_lt in E|apply Z.ltb_ge in E].
  - cbv zeta. split; [cbn; rewrite is_digit_dchr by lia; exact Hacc|].
    split; [rewrite dec_val_cons, dval_dchr by lia; reflexivity|].
    exists (dchr v), []. split; [reflexivity|]. split; [|reflexivity].
    intros H1. unfold dchr, c_0. lia.
  - assert (Hk : (0 < k)%nat).
    { destruct k; [|lia]. cbn in Hv. lia. }
    assert (Hd : 0 <= v mod 10 < 10) by (apply Z.mod_pos_bound; lia).
    assert (Hq : 0 <= v / 10 < 2 ^ Z.of_nat k).
    { split; [apply Z.div_pos; lia|]. apply Z.div_lt_upper_bound; [lia|].
      rewrite Nat2Z.inj_succ, Z.pow_succ_r in Hv by lia. lia. }
    assert (Hacc' : all_digits (dchr (v mod 10) :: acc) = true) by (cbn; rewrite is_digit_dchr by lia; exact Hacc).
    destruct (IH (v / 10) (dchr (v mod 10) :: acc) Hq Hk Hacc') as (A & B & (c & t & C & D & _)).
    cbv zeta. split; [exact A|]. split.
    + rewrite B. cbn [length]. rewrite Nat2Z.inj_succ, Z.pow_succ_r by lia.
      rewrite dec_val_cons, dval_dchr by lia. pose proof (Z.div_mod v 10). lia.
    + exists c, (t ++ [dchr (v mod 10)]). split; [rewrite C, <- app_assoc; reflexivity|].
      split; [intros _; apply D; pose proof (Z.div_le_lower_bound v 10 1); lia|lia].
Qed.

Lemma canon_dec_canonical : forall v, 0 <= v -> canonical (canon_dec v) v.
Proof.
  intros v Hv. unfold canon_dec.
  assert (Hb : 0 <= v < 2 ^ Z.of_nat (S (Z.to_nat (Z.log2 v)))).
  { split; [exact Hv|]. rewrite Nat2Z.inj_succ, Z2Nat.id by apply Z.log2_nonneg.
    destruct (Z.eq_dec v 0) as [->|]; [cbn; lia|]. apply Z.log2_spec. lia. }
  destruct (canon_fuel_spec _ v [] Hb ltac:(lia) eq_refl) as (A & B & (c & t & C & D & E)).
  cbv zeta in *. unfold canonical. split; [exact A|]. split; [rewrite C; discriminate|].
  split; [rewrite B; cbn; unfold dec_val; cbn; lia|].
  rewrite C. rewrite app_nil_r. destruct t as [|c' t']; [exact I|]. cbn.
  destruct (Z.eq_dec v 0) as [->|]; [specialize (E eq_refl); discriminate|]. apply D. lia.
Qed.

(* ---- building blocks -------------------------------------------------------------------------- *)
Definition list_eqb (a b : list N) : bool :=
  Nat.eqb (length a) (length b) && forallb (fun p => (fst p =? snd p)%N) (combine a b).

Lemma list_eqb_eq : forall a b, list_eqb a b = true -> a = b.
Proof.
  induction a as [|x a IH]; intros [|y b] H; try reflexivity; try (cbn in H; discriminate).
  unfold list_eqb in *. cbn in H. apply andb_true_iff in H as [Hl H]. apply andb_true_iff in H as [Hx H].
  apply N.eqb_eq in Hx. subst y. f_equal. apply IH. rewrite Hl, H. reflexivity.
Qed.

Fixpoint zrange (n : nat) : list Z := match n with O => [] | S k => zrange k ++ [Z.of_nat k] end.

Lemma zrange_in : forall n v, 0 <= v < Z.of_nat n -> In v (zrange n).
Proof.
  induction n as [|k IH]; intros v H; [lia|]. cbn. apply in_or_app.
  destruct (Z.eq_dec v (Z.of_nat k)) as [->|]; [right; left; reflexivity|left; apply IH; lia].
Qed.

(* exhaustive facts over [0, 10^4) *)
Definition n10k : nat := Z.to_nat 10000.
Lemma n10k_val : Z.of_nat n10k = 10000.
Proof. unfold n10k. rewrite Z2Nat.id; lia. Qed.

Definition small_ok (v : Z) : bool :=
  let l := u32toa_small v in
  all_digits l && (dec_val l =? v) && negb (Nat.eqb (length l) 0) &&
  match l with c :: _ :: _ => negb (c =? c_0)%N | _ => true end.

Definition four_ok (v : Z) : bool :=
  let l := four v in all_digits l && (dec_val l =? v) && Nat.eqb (length l) 4 &&
  list_eqb (map pack_digit (lanes4 v)) l.

Lemma small_all : forallb small_ok (zrange n10k) = true.
Proof. vm_compute. reflexivity. Qed.

Lemma four_all : forallb four_ok (zrange n10k) = true.
Proof. vm_compute. reflexivity. Qed.

Lemma small_canonical : forall v, 0 <= v < 10000 -> canonical (u32toa_small v) v.
Proof.
  intros v H. pose proof small_all as A. rewrite forallb_forall in A.
  specialize (A v (zrange_in n10k v ltac:(rewrite n10k_val; lia))). unfold small_ok in A. cbv zeta in A.
  apply andb_true_iff in A as [A Z0]. apply andb_true_iff in A as [A L]. apply andb_true_iff in A as [A V].
  unfold canonical. split; [exact A|]. split.
  - intros E. rewrite E in L. discriminate.
  - split; [apply Z.eqb_eq; exact V|]. destruct (u32toa_small v) as [|c [|c' t]]; try exact I.
    cbn. apply negb_true_iff, N.eqb_neq in Z0. exact Z0.
Qed.

Lemma four_spec : forall v, 0 <= v < 10000 ->
  all_digits (four v) = true /\ dec_val (four v) = v /\ length (four v) = 4%nat /\ map pack_digit (lanes4 v) = four v.
Proof.
  intros v H. pose proof four_all as A. rewrite forallb_forall in A.
  specialize (A v (zrange_in n10k v ltac:(rewrite n10k_val; lia))). unfold four_ok in A. cbv zeta in A.
  apply andb_true_iff in A as [A E]. apply andb_true_iff in A as [A L]. apply andb_true_iff in A as [A V].
  split; [exact A|]. split; [apply Z.eqb_eq; exact V|]. split; [apply Nat.eqb_eq; exact L|apply list_eqb_eq; exact E].
Qed.

(* eight digits of x < 10^8 *)
Definition eight (x : Z) : list N := four (x / 10000) ++ four (x mod 10000).

Lemma eight_spec : forall x, 0 <= x < 100000000 ->
  all_digits (eight x) = true /\ dec_val (eight x) = x /\ length (eight x) = 8%nat.
Proof.
  intros x H. unfold eight.
  assert (H1 : 0 <= x / 10000 < 10000) by (split; [apply Z.div_pos; lia|apply Z.div_lt_upper_bound; lia]).
  assert (H2 : 0 <= x mod 10000 < 10000) by (apply Z.mod_pos_bound; lia).
  destruct (four_spec _ H1) as (A1 & V1 & L1 & _). destruct (four_spec _ H2) as (A2 & V2 & L2 & _).
  split; [rewrite all_digits_app, A1, A2; reflexivity|]. split.
  - rewrite dec_val_app, V1, V2, L2. change (10 ^ Z.of_nat 4) with 10000. pose proof (Z.div_mod x 10000). lia.
  - rewrite app_length, L1, L2. reflexivity.
Qed.

(* the reciprocal multiplication of itoa8_sse2 *)
Lemma div10k_trick : forall x, 0 <= x < 100000000 -> ((x * 3518437209) / 2 ^ 45) mod 2 ^ 32 = x / 10000.
Proof.
  intros x H.
  assert (E : (x * 3518437209) / 2 ^ 45 = x / 10000).
  { symmetry. apply Z.div_unique with (x * 3518437209 - (x / 10000) * 2 ^ 45); [|lia].
    pose proof (Z.div_mod x 10000 ltac:(lia)) as D. pose proof (Z.mod_pos_bound x 10000 ltac:(lia)) as M.
    assert (Q : 0 <= x / 10000 < 10000) by (split; [apply Z.div_pos; lia|apply Z.div_lt_upper_bound; lia]).
    set (q := x / 10000) in *. set (r := x mod 10000) in *.
    change (2 ^ 45) with 35184372088832. left. lia. }
  rewrite E. apply Z.mod_small. split; [apply Z.div_pos; lia|].
  apply Z.lt_trans with 10000; [apply Z.div_lt_upper_bound; lia|reflexivity].
Qed.

Lemma itoa8_eight : forall x, 0 <= x < 100000000 -> map pack_digit (itoa8_sse2 x) = eight x.
Proof.
  intros x H. unfold itoa8_sse2. cbv zeta. rewrite div10k_trick by exact H.
  assert (H1 : 0 <= x / 10000 < 10000) by (split; [apply Z.div_pos; lia|apply Z.div_lt_upper_bound; lia]).
  assert (H2 : 0 <= x mod 10000 < 10000) by (apply Z.mod_pos_bound; lia).
  assert (E : (x - x / 10000 * 10000) mod 2 ^ 32 = x mod 10000).
  { replace (x - x / 10000 * 10000) with (x mod 10000) by (rewrite Z.mod_eq by lia; lia).
    apply Z.mod_small. change (2 ^ 32) with 4294967296. lia. }
  rewrite E, map_app. destruct (four_spec _ H1) as (_ & _ & _ & ->). destruct (four_spec _ H2) as (_ & _ & _ & ->).
  reflexivity.
Qed.
