(* C19 - the range checks emitted by internal/decoder/jitdec/assembler_regabi_amd64.go before a parsed 64-bit
   integer is stored into a narrower Go integer (range_signed_CX, range_unsigned_CX, range_uint32_CX), as
   predicates on the register value, and the store of the low bytes that follows (MOVB/MOVW/MOVL CX, (VP)). *)
From Coq Require Import ZArith Bool Lia.
Open Scope Z_scope.

(* CX holds st.Iv.  For vsigned it is the two's complement image of a value in [-2^63, 2^63); for vunsigned
   the unsigned value in [0, 2^64).  [as_signed] is what CMPQ ... JL/JG and TESTQ ... JS look at. *)
Definition as_signed64 (u : Z) : Z := if u <? 2 ^ 63 then u else u - 2 ^ 64.

(* CMPQ CX, a; JL err; CMPQ CX, b; JG err *)
Definition range_signed_CX (a b iv : Z) : bool := negb (iv <? a) && negb (b <? iv).

(* TESTQ CX, CX; JS err; CMPQ CX, v; JA err      (u is the unsigned register content) *)
Definition range_unsigned_CX (v u : Z) : bool := negb (as_signed64 u <? 0) && negb (v <? u).

(* TESTQ CX, CX; JS err; MOVL CX, DX; CMPQ CX, DX; JNE err *)
Definition range_uint32_CX (u : Z) : bool := negb (as_signed64 u <? 0) && (u =? u mod 2 ^ 32).

(* what the narrow store keeps, read back as a Go value of that type *)
Definition store_signed (w : Z) (iv : Z) : Z :=
  let r := iv mod 2 ^ w in if r <? 2 ^ (w - 1) then r else r - 2 ^ w.
Definition store_unsigned (w : Z) (u : Z) : Z := u mod 2 ^ w.

(* the constants passed by _asm_OP_i8/i16/i32/u8/u16 (math.MinInt8 ...) *)
Definition int_lo (w : Z) : Z := - 2 ^ (w - 1).
Definition int_hi (w : Z) : Z := 2 ^ (w - 1) - 1.
Definition uint_hi (w : Z) : Z := 2 ^ w - 1.

(* kind codes used by the drivers: 8,16,32,64 signed; 108,116,132,164 unsigned *)
Definition signed_ok (w iv : Z) : bool :=
  if w =? 64 then true else range_signed_CX (int_lo w) (int_hi w) iv.
Definition unsigned_ok (w u : Z) : bool :=
  if w =? 64 then true else if w =? 32 then range_uint32_CX u else range_unsigned_CX (uint_hi w) u.
