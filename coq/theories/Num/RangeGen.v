(* C19 - the generated facts (Gen/NumTables.v, regenerated from /repo on every run) tied to the models:
   - every integer opcode of the jitdec assembler emits the range check of its width with exactly the bounds of
     that width (so editing a constant such as math.MaxInt16 in _asm_OP_i16 breaks this file);
   - the three range-check emitters consist of exactly the compare / jump sequence that Range.v models;
   - unsigned bounds passed to CMPQ as immediates fit a sign-extended imm32;
   - native/tab.h Digits is the two-digit table used by the model of the printers. *)
From Coq Require Import ZArith NArith Bool List String Lia.
From SV.Gen Require Import NumTables.
From SV.Num Require Import Dec Range RangeProofs IntPrint.
Import ListNotations.
Open Scope Z_scope.

Definition check_of (c : rchk) (x : Z) : bool :=
  match c with
  | RSigned a b => range_signed_CX a b x
  | RUnsigned v => range_unsigned_CX v x
  | RUint32 => range_uint32_CX x
  | RNone => true
  end.

Definition rchk_eqb (a b : rchk) : bool :=
  match a, b with
  | RSigned x y, RSigned x' y' => (x =? x') && (y =? y')
  | RUnsigned v, RUnsigned v' => v =? v'
  | RUint32, RUint32 => true
  | RNone, RNone => true
  | _, _ => false
  end.

Lemma rchk_eqb_eq : forall a b, rchk_eqb a b = true -> a = b.
Proof.
  intros [x y|v| |] [x' y'|v'| |] H; cbn in H; try discriminate; try reflexivity.
  - apply andb_true_iff in H as [A B]. apply Z.eqb_eq in A, B. subst. reflexivity.
  - apply Z.eqb_eq in H. subst. reflexivity.
Qed.

Definition expected_signed (w : Z) : rchk := if w =? 64 then RNone else RSigned (int_lo w) (int_hi w).
Definition expected_unsigned (w : Z) : rchk :=
  if w =? 64 then RNone else if w =? 32 then RUint32 else RUnsigned (uint_hi w).

Definition signed_ops : list (Z * rchk) :=
  [(8, op_i8); (16, op_i16); (32, op_i32); (64, op_i64);
   (8, op_map_key_i8); (16, op_map_key_i16); (32, op_map_key_i32); (64, op_map_key_i64)].
Definition unsigned_ops : list (Z * rchk) :=
  [(8, op_u8); (16, op_u16); (32, op_u32); (64, op_u64);
   (8, op_map_key_u8); (16, op_map_key_u16); (32, op_map_key_u32); (64, op_map_key_u64)].

Lemma signed_ops_expected : forallb (fun p => rchk_eqb (snd p) (expected_signed (fst p))) signed_ops = true.
Proof. vm_compute. reflexivity. Qed.

Lemma unsigned_ops_expected : forallb (fun p => rchk_eqb (snd p) (expected_unsigned (fst p))) unsigned_ops = true.
Proof. vm_compute. reflexivity. Qed.

(* an unsigned bound handed to `CMPQ CX, $imm` must survive the sign extension of the 32-bit immediate *)
Definition imm_fits (c : rchk) : bool :=
  match c with RUnsigned v => (0 <=? v) && (v <? 2 ^ 31) | RSigned a b => (- 2 ^ 31 <=? a) && (b <? 2 ^ 31) | _ => true end.
Lemma immediates_fit : forallb (fun p => imm_fits (snd p)) (signed_ops ++ unsigned_ops) = true.
Proof. vm_compute. reflexivity. Qed.

Lemma width_of_ops : forall w c, In (w, c) (signed_ops ++ unsigned_ops) -> width_ok w.
Proof.
  intros w c H. unfold width_ok. cbn in H.
  repeat (destruct H as [H|H]; [inversion H; subst; tauto|]). contradiction.
Qed.

(* the generated opcodes compute exactly the width predicates of Range.v ... *)
Theorem gen_signed_ok : forall w c iv, In (w, c) signed_ops -> check_of c iv = signed_ok w iv.
Proof.
  intros w c iv H. pose proof signed_ops_expected as E. rewrite forallb_forall in E.
  specialize (E (w, c) H). cbn [fst snd] in E. apply rchk_eqb_eq in E. subst c.
  unfold expected_signed, signed_ok. destruct (w =? 64); reflexivity.
Qed.

Theorem gen_unsigned_ok : forall w c u, In (w, c) unsigned_ops -> check_of c u = unsigned_ok w u.
Proof.
  intros w c u H. pose proof unsigned_ops_expected as E. rewrite forallb_forall in E.
  specialize (E (w, c) H). cbn [fst snd] in E. apply rchk_eqb_eq in E. subst c.
  unfold expected_unsigned, unsigned_ok. destruct (w =? 64); [reflexivity|]. destruct (w =? 32); reflexivity.
Qed.

(* ... hence accept exactly the values of the destination type, and the narrow store keeps them *)
Theorem gen_narrow_signed_exact : forall w c iv, In (w, c) signed_ops -> - 2 ^ 63 <= iv < 2 ^ 63 ->
  (check_of c iv = true <-> - 2 ^ (w - 1) <= iv <= 2 ^ (w - 1) - 1) /\
  (check_of c iv = true -> store_signed w iv = iv).
Proof.
  intros w c iv H Hiv. rewrite (gen_signed_ok w c iv H). apply narrow_signed_exact; [|exact Hiv].
  apply (width_of_ops w c). apply in_or_app. left. exact H.
Qed.

Theorem gen_narrow_unsigned_exact : forall w c u, In (w, c) unsigned_ops -> 0 <= u < 2 ^ 64 ->
  (check_of c u = true <-> u <= 2 ^ w - 1) /\
  (check_of c u = true -> store_unsigned w u = u).
Proof.
  intros w c u H Hu. rewrite (gen_unsigned_ok w c u H). apply narrow_unsigned_exact; [|exact Hu].
  apply (width_of_ops w c). apply in_or_app. right. exact H.
Qed.

(* the emitters are the compare / jump sequences that Range.v models *)
Open Scope string_scope.
Theorem gen_range_code :
  code_range_signed_CX =
    ["MOVQ _VAR_st_Iv,_CX"; "MOVQ jit.Gitab(i),_ET"; "MOVQ jit.Gtype(t),_EP";
     "CMPQ _CX,jit.Imm(a)"; "JL _LB_range_error"; "CMPQ _CX,jit.Imm(b)"; "JG _LB_range_error"] /\
  code_range_unsigned_CX =
    ["MOVQ _VAR_st_Iv,_CX"; "MOVQ jit.Gitab(i),_ET"; "MOVQ jit.Gtype(t),_EP";
     "TESTQ _CX,_CX"; "JS _LB_range_error"; "CMPQ _CX,jit.Imm(int64(v))"; "JA _LB_range_error"] /\
  code_range_uint32_CX =
    ["MOVQ _VAR_st_Iv,_CX"; "MOVQ jit.Gitab(i),_ET"; "MOVQ jit.Gtype(t),_EP";
     "TESTQ _CX,_CX"; "JS _LB_range_error"; "MOVL _CX,_DX"; "CMPQ _CX,_DX"; "JNE _LB_range_error"].
Proof. repeat split; reflexivity. Qed.
Close Scope string_scope.

(* native/tab.h Digits = the table of the printer model *)
Fixpoint nrange (n : nat) : list nat := match n with O => [] | S k => nrange k ++ [k] end.
Theorem gen_digits_table : List.length Digits_tab = 200%nat /\
  forallb (fun i => (nth i Digits_tab 0%N =? Digits (Z.of_nat i))%N) (nrange 200) = true.
Proof. split; vm_compute; reflexivity. Qed.
