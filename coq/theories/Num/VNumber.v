(* C19 - model of native/scanning.h `vnumber_1`: the scanning part statement by statement (sign, leading zero,
   19-digit mantissa, exp10, trunc, exponent capped at 10000, is_overflow), the integer result, and - for the
   floating point result, which the C code computes with is_atof_exact / Eisel-Lemire / the 800-digit fallback -
   the *specification* value nearest_bits (round to nearest even of the exact rational), so that the comparison
   with the implementation is the per-input check of `eisel_lemire_correct`. *)
From Coq Require Import ZArith NArith Bool List Lia.
From SV.Num Require Import Dec IntParse FloatCheck.
Import ListNotations.
Open Scope Z_scope.

Record nres := mkN { n_vt : Z; n_p : nat; n_iv : Z; n_dv : Z (* bit pattern *) }.

(* integer part: add_integer_to_mantissa *)
Fixpoint int_digits (l : list N) (i : nat) (man man_nd exp10 : Z) : nat * Z * Z * Z * list N :=
  match l with
  | c :: t => if is_digit c then
                if man_nd <? 19 then int_digits t (S i) (man * 10 + dval c) (man_nd + 1) exp10
                else int_digits t (S i) man man_nd (exp10 + 1)
              else (i, man, man_nd, exp10, l)
  | [] => (i, man, man_nd, exp10, l)
  end.

Fixpoint skip_zeros (l : list N) (i : nat) (exp10 : Z) : nat * Z * list N :=
  match l with
  | c :: t => if (c =? c_0)%N then skip_zeros t (S i) (exp10 - 1) else (i, exp10, l)
  | [] => (i, exp10, l)
  end.

(* add_float_to_mantissa while man_nd < 19 *)
Fixpoint frac_digits (l : list N) (i : nat) (man man_nd exp10 : Z) : nat * Z * Z * Z * list N :=
  match l with
  | c :: t => if is_digit c && (man_nd <? 19) then frac_digits t (S i) (man * 10 + dval c) (man_nd + 1) (exp10 - 1)
              else (i, man, man_nd, exp10, l)
  | [] => (i, man, man_nd, exp10, l)
  end.

Fixpoint rest_digits (l : list N) (i : nat) (trunc : bool) : nat * bool * list N :=
  match l with
  | c :: t => if is_digit c then rest_digits t (S i) true else (i, trunc, l)
  | [] => (i, trunc, l)
  end.

Fixpoint exp_digits_acc (l : list N) (i : nat) (exp : Z) : nat * Z * list N :=
  match l with
  | c :: t => if is_digit c then exp_digits_acc t (S i) (if exp <? 10000 then exp * 10 + dval c else exp)
              else (i, exp, l)
  | [] => (i, exp, l)
  end.

Definition is_overflow (man sgn exp10 : Z) : bool :=
  negb (exp10 =? 0) || ((2 ^ 63 <=? man) && negb ((sgn =? -1) && (man =? 2 ^ 63))).

(* the double of the parsed literal s[p0, i): spec value; vt becomes -ERR_FLOAT_INF on overflow *)
Definition float_result (s : list N) (p0 i : nat) : nres :=
  let lit := firstn (i - p0) (skipn p0 s) in
  match nearest_bits f64 lit with
  | BInf => mkN (- ERR_FLOAT_INF) i 0 (inf_bits f64 + (if lv_neg (lit_decode lit) then sign_bit f64 else 0))
  | BBits b => mkN V_DOUBLE i 0 b
  | BBad => mkN (-99) i 0 0
  end.

(* the scanning part of vnumber_1, from the first digit on: either an early error result, or
   (saw '.', saw exponent, end index, man, exp10, trunc) - the input contract of atof_fast / Eisel-Lemire *)
Record scanned := mkScan { sc_dbl : bool; sc_exp : bool; sc_end : nat; sc_man : Z; sc_exp10 : Z; sc_trunc : bool }.

(* `if (i < n && s[i] == '.') { i++; set_vt(V_DOUBLE); check_eof(); check_digit(); }` *)
Definition dot_stage (l1 : list N) (i1 n : nat) : nres + (bool * nat * list N) :=
  match l1 with
  | d :: t => if is_dot d then
                match t with
                | [] => inl (mkN (- ERR_EOF) n 0 0)
                | c1 :: _ => if is_digit c1 then inr (true, S i1, t) else inl (mkN (- ERR_INVAL) (S i1) 0 0)
                end
              else inr (false, i1, l1)
  | [] => inr (false, i1, l1)
  end.

(* the exponent: i++, V_DOUBLE, check_eof, parse_sign, check_digit, digits with the 10000 cap *)
Definition exp_stage (l5 : list N) (i5 n : nat) (e4 : Z) : nres + (bool * nat * Z) :=
  match l5 with
  | e :: t => if is_exp e then
                match t with
                | [] => inl (mkN (- ERR_EOF) n 0 0)
                | c1 :: t1 =>
                    let '(esm, i6, l6) := if is_sign c1 then ((if (c1 =? c_plus)%N then 1 else -1), S (S i5), t1)
                                          else (1, S i5, t) in
                    match l6 with
                    | [] => inl (mkN (- ERR_EOF) n 0 0)
                    | c2 :: _ => if is_digit c2 then
                                   let '(i7, ex, _) := exp_digits_acc l6 i6 0 in
                                   inr (true, i7, e4 + ex * esm)
                                 else inl (mkN (- ERR_INVAL) i6 0 0)
                    end
                end
              else inr (false, i5, e4)
  | [] => inr (false, i5, e4)
  end.

Definition vnumber_scan (l : list N) (i0 n : nat) : nres + scanned :=
  let '(i1, man1, nd1, e1, l1) := int_digits l i0 0 0 0 in
  let trunc1 := 0 <? e1 in
  match dot_stage l1 i1 n with
  | inl r => inl r
  | inr (isdbl, i2, l2) =>
      (* skip the leading zeros of 0.000xxxx *)
      let '(i3, man3, nd3, e3, l3) :=
        if (man1 =? 0) && (e1 =? 0) then let '(iz, ez, lz) := skip_zeros l2 i2 e1 in (iz, 0, 0, ez, lz)
        else (i2, man1, nd1, e1, l2) in
      let '(i4, man4, nd4, e4, l4) := frac_digits l3 i3 man3 nd3 e3 in
      let '(i5, trunc5, l5) := rest_digits l4 i4 trunc1 in
      match exp_stage l5 i5 n e4 with
      | inl r => inl r
      | inr (hasexp, i8, e8) => inr (mkScan isdbl hasexp i8 man4 e8 trunc5)
      end
  end.

Definition vnumber (s : list N) (oob : N) (p0 : nat) : nres :=
  let n := length s in
  if (n <=? p0)%nat then mkN (- ERR_EOF) n 0 0 else
  let neg := (nth p0 s 0%N =? c_minus)%N in
  let sgn := if neg then -1 else 1 in
  let i0 := if neg then S p0 else p0 in
  if (n <=? i0)%nat then mkN (- ERR_EOF) n 0 0 else
  let c := nth i0 s 0%N in
  if negb (is_digit c) then mkN (- ERR_INVAL) i0 0 0 else
  if (c =? c_0)%N && negb (is_dot_or_exp (byte_at s oob (S i0))) then mkN V_INTEGER (S i0) 0 0 else
  match vnumber_scan (skipn i0 s) i0 n with
  | inl r => r
  | inr sc =>
      if negb (sc_dbl sc) && negb (sc_exp sc) && negb (is_overflow (sc_man sc) sgn (sc_exp10 sc)) then
        (* V_INTEGER: iv = (int64)man * sgn, dv = (double)man with the sign bit *)
        let iv := if neg then - sc_man sc else sc_man sc in
        let dv := match rne_frac f64 (sc_man sc) 1 with
                  | RFin k => match bits_checked f64 k with
                              | Some b => b + (if neg then sign_bit f64 else 0)
                              | None => -1 end
                  | _ => -1 end in
        mkN V_INTEGER (sc_end sc) iv dv
      else float_result s p0 (sc_end sc)
  end.
