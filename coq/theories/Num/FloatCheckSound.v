(* C19 - checker_sound: soundness of the per-output checkers nearest_check / nearest_bits (parsing direction)
   and of the round-trip clause of shortest_check (printing direction), for float64 and float32. *)
From Coq Require Import ZArith NArith Bool List Lia.
From SV.Num Require Import Dec DecLemmas FloatCheck FloatSpec FloatCheckProofs.
Import ListNotations.
Open Scope Z_scope.

Definition wf_fmt (f : bfmt) : Prop := 2 <= prec f /\ emin f <= 0 /\ 0 <= jmax f.
Lemma wf_f64 : wf_fmt f64. Proof. unfold wf_fmt, f64; cbn; lia. Qed.
Lemma wf_f32 : wf_fmt f32. Proof. unfold wf_fmt, f32; cbn; lia. Qed.

(* the literal is expanded exactly (no shortcut for astronomically large or small exponents) *)
Definition in_window (m e : Z) : Prop := m = 0 \/ -400 <= e + ndig m <= 400.

Lemma frac_scaled : forall f m e num den, frac_dec m e = (num, den) ->
  scaled_dec f m e = (num * 2 ^ (- emin f), den) /\ 0 < den.
Proof.
  intros f m e num den H. unfold frac_dec in H. unfold scaled_dec.
  destruct (0 <=? e) eqn:E; inversion H; subst; (split; [reflexivity|]); [lia|].
  apply Z.pow_pos_nonneg; lia.
Qed.

Theorem rne_dec_sound : forall f m e res, wf_fmt f -> 0 <= m -> in_window m e ->
  rne_dec f m e = res -> res <> RBad ->
  let '(N, D) := scaled_dec f m e in rounds_to_spec f N D res.
Proof.
  intros f m e res (W1 & W2 & W3) Hm Hw H Hnb. unfold rne_dec in H.
  destruct (frac_dec m e) as [num den] eqn:Efd. destruct (frac_scaled f m e num den Efd) as [-> Hden].
  destruct (m =? 0) eqn:E0.
  - apply Z.eqb_eq in E0. subst m res.
    assert (num = 0) by (unfold frac_dec in Efd; destruct (0 <=? e); inversion Efd; lia). subst num.
    right. exists 0. rewrite Z.mul_0_l. split; [apply rne_zero; assumption|].
    pose proof (bound_pos f W1 W3). rewrite (proj2 (Z.ltb_lt _ _)) by lia. reflexivity.
  - apply Z.eqb_neq in E0. destruct Hw as [Hw|Hw]; [congruence|]. cbv zeta in H.
    rewrite (proj2 (Z.ltb_ge _ _)) in H by lia. rewrite (proj2 (Z.ltb_ge _ _)) in H by lia.
    apply rne_frac_sound; try assumption.
    unfold frac_dec in Efd. destruct (0 <=? e) eqn:E; inversion Efd; subst; [|lia].
    apply Z.mul_nonneg_nonneg; [lia|]. apply Z.pow_nonneg. lia.
Qed.

Lemma bits_checked_sound : forall f k b, bits_checked f k = Some b -> 0 <= b /\ k_of_bits f b = Some k.
Proof.
  intros f k b H. unfold bits_checked in H. cbv zeta in H.
  destruct (k_of_bits f (bits_of_k f k)) as [k'|] eqn:E; [|discriminate].
  destruct ((k' =? k) && (0 <=? bits_of_k f k)) eqn:E2; [|discriminate].
  apply andb_true_iff in E2 as [E2 E3]. apply Z.eqb_eq in E2. apply Z.leb_le in E3. inversion H; subst. auto.
Qed.

Lemma lit_man_nonneg : forall lit, 0 <= lv_man (lit_decode lit).
Proof.
  intros lit. unfold lit_decode.
  destruct (match lit with [] => (false, lit) | c :: t => if (c =? c_minus)%N then (true, t) else (false, lit) end) as [neg l1].
  destruct (take_digits l1) as [ip l2] eqn:T1.
  destruct (match l2 with [] => ([], l2) | c :: t => if is_dot c then take_digits t else ([], l2) end) as [fp l3] eqn:T2.
  cbn [lv_man]. apply dec_val_nonneg. rewrite all_digits_app.
  pose proof (take_digits_spec _ _ _ T1) as (_ & A1 & _). rewrite A1. cbn [andb].
  destruct l2 as [|c t]; [inversion T2; reflexivity|].
  destruct (is_dot c); [|inversion T2; reflexivity].
  pose proof (take_digits_spec _ _ _ T2) as (_ & A2 & _). exact A2.
Qed.

(* what nearest_bits returns is the correctly rounded value of the literal *)
Theorem nearest_bits_sound : forall f lit, wf_fmt f ->
  let v := lit_decode lit in
  in_window (lv_man v) (lv_exp v) ->
  let '(N, D) := scaled_dec f (lv_man v) (lv_exp v) in
  match nearest_bits f lit with
  | BBits bb => exists k b, bb = b + (if lv_neg v then sign_bit f else 0) /\ 0 <= b /\
                            k_of_bits f b = Some k /\ rounds_to_spec f N D (RFin k)
  | BInf => rounds_to_spec f N D RInf
  | BBad => True
  end.
Proof.
  intros f lit W v Hw. unfold nearest_bits. fold v.
  pose proof (rne_dec_sound f (lv_man v) (lv_exp v) _ W (lit_man_nonneg lit) Hw eq_refl) as S.
  destruct (scaled_dec f (lv_man v) (lv_exp v)) as [N D].
  destruct (rne_dec f (lv_man v) (lv_exp v)) as [k| |] eqn:E; [| apply S; discriminate | exact I].
  destruct (bits_checked f k) as [b|] eqn:Eb; [|exact I].
  destruct (bits_checked_sound f k b Eb) as [Hb Hk].
  exists k, b. split; [reflexivity|]. split; [exact Hb|]. split; [exact Hk|]. apply S. discriminate.
Qed.

(* the checker applied to an implementation output *)
Theorem nearest_check_sound : forall f lit inf bits, wf_fmt f ->
  let v := lit_decode lit in
  in_window (lv_man v) (lv_exp v) ->
  nearest_check f lit inf bits = true ->
  let '(N, D) := scaled_dec f (lv_man v) (lv_exp v) in
  if inf then rounds_to_spec f N D RInf
  else exists k b, bits = b + (if lv_neg v then sign_bit f else 0) /\ 0 <= b /\
                   k_of_bits f b = Some k /\ rounds_to_spec f N D (RFin k).
Proof.
  intros f lit inf bits W v Hw H. unfold nearest_check in H.
  pose proof (nearest_bits_sound f lit W Hw) as S. fold v in S.
  destruct (scaled_dec f (lv_man v) (lv_exp v)) as [N D].
  destruct (nearest_bits f lit) as [bb| |]; [| |discriminate].
  - apply andb_true_iff in H as [H1 H2]. apply negb_true_iff in H1. apply Z.eqb_eq in H2. subst inf bits. exact S.
  - subst inf. exact S.
Qed.

Example nearest_check_example :
  nearest_double_check [48;46;49]%N false 4591870180066957722 = true /\
  nearest_double_check [49;101;52;48;48]%N true 0 = true /\
  nearest_double_check [48;46;49]%N false 4591870180066957723 = false /\
  in_window 1 (-1).
Proof. repeat split; try (vm_compute; reflexivity). right. vm_compute. split; discriminate. Qed.
