(* C19 - common definitions: ASCII digits, decimal values, the JSON number grammar (RFC 8259 section 6)
   as an inductive predicate, and the exact value denoted by a literal.  Bytes are N. *)
From Coq Require Import ZArith NArith Bool List Lia.
Import ListNotations.
Open Scope Z_scope.

Definition byte := N.

Definition c_minus : N := 45%N.
Definition c_plus  : N := 43%N.
Definition c_dot   : N := 46%N.
Definition c_e     : N := 101%N.
Definition c_E     : N := 69%N.
Definition c_0     : N := 48%N.

Definition is_digit (c : N) : bool := (48 <=? c)%N && (c <=? 57)%N.
Definition is_digit19 (c : N) : bool := (49 <=? c)%N && (c <=? 57)%N.
Definition dval (c : N) : Z := Z.of_N c - 48.
Definition dchr (d : Z) : N := Z.to_N (d + 48).

Definition is_dot (c : N) : bool := (c =? c_dot)%N.
Definition is_exp (c : N) : bool := (c =? c_e)%N || (c =? c_E)%N.
Definition is_sign (c : N) : bool := (c =? c_plus)%N || (c =? c_minus)%N.
(* the character class the vectorised scanners treat as "part of a number" *)
Definition is_numchar (c : N) : bool := is_digit c || is_dot c || is_exp c || is_sign c.

(* value of a digit string, most significant first *)
Fixpoint dec_acc (acc : Z) (l : list N) : Z :=
  match l with
  | [] => acc
  | c :: t => dec_acc (acc * 10 + dval c) t
  end.
Definition dec_val (l : list N) : Z := dec_acc 0 l.

Definition all_digits (l : list N) : bool := forallb is_digit l.

(* ---- the grammar, inductively ------------------------------------------------------------- *)
(* digits1: one or more digits *)
Inductive digits1 : list N -> Prop :=
| d1_one  : forall c, is_digit c = true -> digits1 [c]
| d1_cons : forall c l, is_digit c = true -> digits1 l -> digits1 (c :: l).

(* int = "0" / digit1-9 *DIGIT *)
Inductive int_part : list N -> Prop :=
| ip_zero : int_part [c_0]
| ip_nz   : forall c l, is_digit19 c = true -> all_digits l = true -> int_part (c :: l).

(* frac = [ "." 1*DIGIT ] *)
Inductive frac_part : list N -> Prop :=
| fp_none : frac_part []
| fp_some : forall l, digits1 l -> frac_part (c_dot :: l).

(* exp = [ ("e"/"E") ["-"/"+"] 1*DIGIT ] *)
Inductive exp_part : list N -> Prop :=
| ep_none : exp_part []
| ep_nosign : forall e l, is_exp e = true -> digits1 l -> exp_part (e :: l)
| ep_sign : forall e s l, is_exp e = true -> is_sign s = true -> digits1 l -> exp_part (e :: s :: l).

(* number without the leading minus *)
Inductive unsigned_number : list N -> Prop :=
| un_intro : forall i f e, int_part i -> frac_part f -> exp_part e -> unsigned_number (i ++ f ++ e).

(* number = [ minus ] int [ frac ] [ exp ] *)
Inductive json_number : list N -> Prop :=
| jn_pos : forall l, unsigned_number l -> json_number l
| jn_neg : forall l, unsigned_number l -> json_number (c_minus :: l).

(* integer literals: [ minus ] int *)
Inductive json_int : list N -> Prop :=
| ji_pos : forall l, int_part l -> json_int l
| ji_neg : forall l, int_part l -> json_int (c_minus :: l).

Definition int_lit_val (l : list N) : Z :=
  match l with
  | c :: t => if (c =? c_minus)%N then - dec_val t else dec_val l
  | [] => 0
  end.

(* ---- exact value of a literal: (negative?, mantissa m >= 0, exponent e), value = (-1)^neg * m * 10^e.
   Defined for any byte string by a simple left-to-right reading; meaningful on json_number. *)
Fixpoint take_digits (l : list N) : list N * list N :=
  match l with
  | c :: t => if is_digit c then let '(d, r) := take_digits t in (c :: d, r) else ([], l)
  | [] => ([], [])
  end.

Record litval := mkLit { lv_neg : bool; lv_man : Z; lv_exp : Z }.

Definition lit_decode (l : list N) : litval :=
  let '(neg, l1) := match l with
                    | c :: t => if (c =? c_minus)%N then (true, t) else (false, l)
                    | [] => (false, l) end in
  let '(ip, l2) := take_digits l1 in
  let '(fp, l3) := match l2 with
                   | c :: t => if is_dot c then take_digits t else ([], l2)
                   | [] => ([], l2) end in
  let ex := match l3 with
            | c :: t => if is_exp c then
                          match t with
                          | s :: u => if (s =? c_minus)%N then - dec_val (fst (take_digits u))
                                      else if (s =? c_plus)%N then dec_val (fst (take_digits u))
                                      else dec_val (fst (take_digits t))
                          | [] => 0
                          end
                        else 0
            | [] => 0 end in
  mkLit neg (dec_val (ip ++ fp)) (ex - Z.of_nat (length fp)).

(* number of decimal digits of a non-negative integer (0 has 1 digit): fuel-free via Z.log2 bound *)
Fixpoint ndig_fuel (fuel : nat) (v : Z) : Z :=
  match fuel with
  | O => 1
  | S k => if v <? 10 then 1 else 1 + ndig_fuel k (v / 10)
  end.
Definition ndig (v : Z) : Z := ndig_fuel (S (Z.to_nat (Z.log2 v))) v.

(* canonical (shortest) decimal text of a non-negative integer *)
Fixpoint canon_fuel (fuel : nat) (v : Z) (acc : list N) : list N :=
  match fuel with
  | O => acc
  | S k => if v <? 10 then dchr v :: acc else canon_fuel k (v / 10) (dchr (v mod 10) :: acc)
  end.
Definition canon_dec (v : Z) : list N := canon_fuel (S (Z.to_nat (Z.log2 v))) v [].
Definition canon_int (v : Z) : list N := if v <? 0 then c_minus :: canon_dec (- v) else canon_dec v.
