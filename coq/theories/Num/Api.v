(* C19 - composition of the native models into what the decoder back ends compute for a document that consists
   of exactly one number literal (no white space): parse, require the whole input, range check, store.
   Result: Some value | None (any error: the call fails).  Also the text checks applied to printed floats. *)
From Coq Require Import ZArith NArith Bool List Lia.
From SV.Num Require Import Dec IntParse NumGrammar Range IntPrint FloatFmt FloatCheck VNumber.
Import ListNotations.
Open Scope Z_scope.

Definition unmarshal_signed (w : Z) (s : list N) : option Z :=
  let r := vsigned s 0%N 0 in
  if (v_vt r =? V_INTEGER) && Nat.eqb (v_p r) (length s) && signed_ok w (v_iv r)
  then Some (store_signed w (v_iv r)) else None.

Definition unmarshal_unsigned (w : Z) (s : list N) : option Z :=
  let r := vunsigned s 0%N 0 in
  if (v_vt r =? V_INTEGER) && Nat.eqb (v_p r) (length s) && unsigned_ok w (v_iv r)
  then Some (store_unsigned w (v_iv r)) else None.

(* float64 destination: OP_f64 stores st.Dv whatever vt (V_INTEGER or V_DOUBLE) *)
Definition unmarshal_f64 (s : list N) : option Z :=
  let r := vnumber s 0%N 0 in
  if (0 <=? n_vt r) && Nat.eqb (n_p r) (length s) then Some (n_dv r) else None.

(* float32 destination: CVTSD2SS of st.Dv, then the range check against +-MaxFloat32 *)
Definition single_of_double_bits (b : Z) : option Z :=
  let neg := 2 ^ 63 <=? b in
  match k_of_bits f64 (b mod 2 ^ 63) with
  | None => None
  | Some k64 => match rne_frac f32 k64 (2 ^ 1074) with
                | RFin k32 => match bits_checked f32 k32 with
                              | Some b => Some (b + (if neg then sign_bit f32 else 0))
                              | None => Some (-1)
                              end
                | RInf => None
                | RBad => Some (-1)
                end
  end.

Definition unmarshal_f32 (s : list N) : option Z :=
  match unmarshal_f64 s with
  | None => None
  | Some b => single_of_double_bits b
  end.

(* ---- printed floats ---------------------------------------------------------------------------- *)
Definition list_eqb (a b : list N) : bool :=
  Nat.eqb (length a) (length b) && forallb (fun p => (fst p =? snd p)%N) (combine a b).

(* 0 = fine; otherwise the number of the first failing clause *)
Definition float_text_check (f : bfmt) (wd : Z -> Z -> list N) (bits : Z) (text : list N) : Z :=
  let sb := sign_bit f in
  let neg := sb <=? bits in
  let abits := bits mod sb in
  let body := match text with c :: t => if (c =? c_minus)%N then t else text | [] => text end in
  let has_minus := match text with c :: _ => (c =? c_minus)%N | [] => false end in
  if negb (Bool.eqb neg has_minus) then 1
  else if negb (is_valid_number text) then 2
  else if abits =? 0 then (if list_eqb body [c_0] then 0 else 3)
  else
    let v := lit_decode body in
    let '(m, e) := normalize (lv_man v) (lv_exp v) in
    if negb (shortest_check f abits m e) then 4
    else if negb (list_eqb (wd m e) body) then 5
    else 0.

Definition f64_text_check := float_text_check f64 write_dec_f64.
Definition f32_text_check := float_text_check f32 write_dec_f32.

(* classification helper for the float32 double-rounding finding *)
Definition single_double_rounding_differs (lit : list N) : bool :=
  match nearest_bits f32 lit, double_rounded_single lit with
  | BBits a, BBits b => negb (a =? b)
  | BInf, BInf => false
  | _, _ => true
  end.
