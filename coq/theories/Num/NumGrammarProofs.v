(* C19 - is_valid_number_spec: alg.IsValidNumber accepts exactly the JSON number grammar. *)
From Coq Require Import ZArith NArith Bool List Lia.
From SV.Num Require Import Dec DecLemmas NumGrammar.
Import ListNotations.
Open Scope Z_scope.

Lemma drop_digits_nil : forall l, drop_digits l = [] -> all_digits l = true.
Proof.
  induction l as [|c t IH]; intros H; [reflexivity|]. cbn in *. destruct (is_digit c); [auto|discriminate].
Qed.

Lemma drop_digits_all : forall l, all_digits l = true -> drop_digits l = [].
Proof.
  induction l as [|c t IH]; intros H; [reflexivity|]. cbn in *. apply andb_true_iff in H as [Hc Ht]. rewrite Hc. auto.
Qed.

Lemma drop_digits_app : forall d r, all_digits d = true -> drop_digits (d ++ r) = drop_digits r.
Proof.
  induction d as [|c t IH]; intros r H; [reflexivity|]. cbn in *. apply andb_true_iff in H as [Hc Ht]. rewrite Hc. auto.
Qed.

Definition starts_nondigit (r : list N) : Prop := match r with c :: _ => is_digit c = false | [] => True end.

Lemma drop_digits_id : forall r, starts_nondigit r -> drop_digits r = r.
Proof. intros [|c t] H; [reflexivity|]. cbn in *. rewrite H. reflexivity. Qed.

Lemma drop_digits_split : forall l, exists d, l = d ++ drop_digits l /\ all_digits d = true /\ starts_nondigit (drop_digits l).
Proof.
  induction l as [|c t IH]; [exists []; cbn; auto|].
  cbn. destruct (is_digit c) eqn:E.
  - destruct IH as (d & A & B & C). exists (c :: d). cbn. rewrite E. split; [f_equal; exact A|auto].
  - exists []. cbn. rewrite E. auto.
Qed.

Lemma exp_not_digit : forall c, is_exp c = true -> is_digit c = false /\ is_dot c = false /\ is_sign c = false.
Proof.
  intros c H. unfold is_exp in H. apply orb_true_iff in H. unfold c_e, c_E in H.
  destruct H as [H|H]; apply N.eqb_eq in H; subst c; repeat split; reflexivity.
Qed.

Lemma sign_not_digit : forall c, is_sign c = true -> is_digit c = false.
Proof.
  intros c H. unfold is_sign in H. apply orb_true_iff in H. unfold c_plus, c_minus in H.
  destruct H as [H|H]; apply N.eqb_eq in H; subst c; reflexivity.
Qed.

Lemma dot_not_digit : forall c, is_dot c = true -> is_digit c = false /\ is_exp c = false.
Proof. intros c H. unfold is_dot, c_dot in H. apply N.eqb_eq in H. subst c. split; reflexivity. Qed.

(* ---- exponent part *)
Lemma ivn_exp_sound : forall x, ivn_exp x = true -> exp_part x.
Proof.
  intros x H. destruct x as [|e [|c1 rest]]; cbn [ivn_exp] in H; [constructor|discriminate|].
  destruct (is_exp e) eqn:Ee; [|discriminate].
  destruct (is_sign c1) eqn:Es.
  - cbn [tl] in H. destruct rest as [|c2 rest']; [discriminate|].
    destruct (drop_digits (c2 :: rest')) eqn:Ed; [|discriminate].
    apply ep_sign; [exact Ee|exact Es|]. apply all_digits1; [apply drop_digits_nil; exact Ed|discriminate].
  - destruct (drop_digits (c1 :: rest)) eqn:Ed; [|discriminate].
    apply ep_nosign; [exact Ee|]. apply all_digits1; [apply drop_digits_nil; exact Ed|discriminate].
Qed.

Lemma ivn_exp_complete : forall x, exp_part x -> ivn_exp x = true.
Proof.
  intros x H. destruct H as [|e l He Hl|e s l He Hs Hl]; [reflexivity| |].
  - destruct (digits1_all l Hl) as [Hall Hne]. destruct l as [|c1 rest]; [congruence|].
    cbn [ivn_exp]. rewrite He.
    assert (is_digit c1 = true) by (cbn in Hall; apply andb_true_iff in Hall; tauto).
    assert (Es : is_sign c1 = false).
    { destruct (is_sign c1) eqn:E; [|reflexivity]. apply sign_not_digit in E. congruence. }
    rewrite Es. rewrite (drop_digits_all _ Hall). reflexivity.
  - destruct (digits1_all l Hl) as [Hall Hne]. destruct l as [|c1 rest]; [congruence|].
    cbn [ivn_exp tl]. rewrite He, Hs. rewrite (drop_digits_all _ Hall). reflexivity.
Qed.

Lemma exp_part_starts : forall e, exp_part e -> starts_nondigit e /\ match e with c :: _ => is_dot c = false | [] => True end.
Proof.
  intros e H. destruct H as [|e l He Hl|e s l He Hs Hl]; cbn; auto; destruct (exp_not_digit e He) as (A & B & _); auto.
Qed.

(* ---- fraction followed by exponent *)
Lemma ivn_frac_sound : forall x, ivn_frac x = true -> exists f e, x = f ++ e /\ frac_part f /\ exp_part e.
Proof.
  intros x H.
  assert (Dflt : ivn_exp x = true -> exists f e, x = f ++ e /\ frac_part f /\ exp_part e).
  { intros He. exists [], x. split; [reflexivity|]. split; [constructor|apply ivn_exp_sound; exact He]. }
  destruct x as [|d [|c1 t]]; [apply Dflt; exact H|apply Dflt; exact H|].
  cbn [ivn_frac] in H. destruct (is_dot d && is_digit c1) eqn:E; [|apply Dflt; exact H].
  apply andb_true_iff in E as [Ed Ec].
  destruct (drop_digits_split t) as (ds & A & B & C).
  exists (d :: c1 :: ds), (drop_digits t). split; [cbn; f_equal; f_equal; exact A|].
  unfold is_dot in Ed. apply N.eqb_eq in Ed. subst d.
  split; [apply fp_some; apply all_digits1; [cbn; rewrite Ec; exact B|discriminate]|].
  apply ivn_exp_sound. exact H.
Qed.

Lemma ivn_frac_complete : forall f e, frac_part f -> exp_part e -> ivn_frac (f ++ e) = true.
Proof.
  intros f e Hf He. destruct (exp_part_starts e He) as [Hnd Hndot].
  destruct Hf as [|l Hl].
  - cbn [app]. destruct e as [|d [|c1 t]]; try (apply ivn_exp_complete; exact He).
    cbn [ivn_frac]. cbn in Hndot. rewrite Hndot. cbn [andb]. apply ivn_exp_complete. exact He.
  - destruct (digits1_all l Hl) as [Hall Hne]. destruct l as [|c1 rest]; [congruence|].
    cbn [app ivn_frac]. change (is_dot c_dot) with true.
    cbn in Hall. apply andb_true_iff in Hall as [Hc Hr]. rewrite Hc. cbn [andb].
    rewrite drop_digits_app by exact Hr. rewrite drop_digits_id by exact Hnd. apply ivn_exp_complete. exact He.
Qed.

Lemma frac_exp_starts_nondigit : forall f e, frac_part f -> exp_part e -> starts_nondigit (f ++ e).
Proof.
  intros f e Hf He. destruct Hf; [apply exp_part_starts; exact He|]. cbn. reflexivity.
Qed.

(* ---- the whole number *)
Lemma ivn_unsigned_sound : forall d t1,
  (if (d =? c_0)%N then ivn_frac t1 else if is_digit19 d then ivn_frac (drop_digits t1) else false) = true ->
  unsigned_number (d :: t1).
Proof.
  intros d t1 H. destruct ((d =? c_0)%N) eqn:E0.
  - apply N.eqb_eq in E0. subst d. destruct (ivn_frac_sound _ H) as (f & e & A & B & C). subst t1.
    change (c_0 :: f ++ e) with ([c_0] ++ f ++ e). constructor; [constructor|exact B|exact C].
  - destruct (is_digit19 d) eqn:E19; [|discriminate].
    destruct (ivn_frac_sound _ H) as (f & e & A & B & C).
    destruct (drop_digits_split t1) as (ds & A' & B' & C').
    rewrite A in A'. rewrite A'. change (d :: ds ++ f ++ e) with ((d :: ds) ++ f ++ e).
    constructor; [constructor; assumption|exact B|exact C].
Qed.

Lemma ivn_unsigned_complete : forall l, unsigned_number l ->
  exists d t1, l = d :: t1 /\ (d =? c_minus)%N = false /\
    (if (d =? c_0)%N then ivn_frac t1 else if is_digit19 d then ivn_frac (drop_digits t1) else false) = true.
Proof.
  intros l H. destruct H as [i f e Hi Hf He]. destruct Hi as [|c ds Hc Hds].
  - exists c_0, (f ++ e). split; [reflexivity|]. split; [reflexivity|].
    change ((c_0 =? c_0)%N) with true. cbn iota. apply ivn_frac_complete; assumption.
  - exists c, (ds ++ f ++ e). split; [reflexivity|].
    destruct (digit_not_special c (digit19_digit _ Hc)) as (_ & _ & _ & Em). split; [exact Em|].
    assert (E0 : (c =? c_0)%N = false).
    { apply N.eqb_neq. intros ->. discriminate. }
    rewrite E0, Hc. rewrite drop_digits_app by exact Hds.
    rewrite drop_digits_id by (apply frac_exp_starts_nondigit; assumption).
    apply ivn_frac_complete; assumption.
Qed.

Theorem is_valid_number_spec : forall s, is_valid_number s = true <-> json_number s.
Proof.
  intros s. split.
  - intros H. destruct s as [|c t]; [discriminate|]. cbn [is_valid_number] in H.
    destruct ((c =? c_minus)%N) eqn:Em.
    + apply N.eqb_eq in Em. subst c. destruct t as [|d t1]; [discriminate|].
      apply jn_neg. apply ivn_unsigned_sound. exact H.
    + apply jn_pos. apply ivn_unsigned_sound. exact H.
  - intros H. destruct H as [l Hl | l Hl].
    + destruct (ivn_unsigned_complete l Hl) as (d & t1 & -> & Em & Hv).
      cbn [is_valid_number]. rewrite Em. exact Hv.
    + destruct (ivn_unsigned_complete l Hl) as (d & t1 & -> & Em & Hv).
      cbn [is_valid_number]. change ((c_minus =? c_minus)%N) with true. cbn iota. exact Hv.
Qed.

Example is_valid_number_examples :
  is_valid_number [45;49;46;53;101;43;51]%N = true /\ json_number [45;49;46;53;101;43;51]%N /\
  is_valid_number [48;49]%N = false /\ is_valid_number [49;101]%N = false /\ is_valid_number [49;46]%N = false.
Proof.
  repeat split; try reflexivity. apply is_valid_number_spec. reflexivity.
Qed.
