(* C19 - write_dec_denotes: the text laid out by write_dec (over the canonical digits, see write_dec_f64_ideal)
   is a JSON number whose exact value, read back by lit_decode, is sig * 10^exp. *)
From Coq Require Import ZArith NArith Bool List Lia.
From SV.Num Require Import Dec DecLemmas IntPrint IntPrintProofs IntPrintExact FloatFmt FloatFmtProofs.
Import ListNotations.
Open Scope Z_scope.

(* ---- reading back a text of the shape  ip [. fp] [e [+-] ed] ------------------------------------------ *)
Inductive esign := ENone | EPlus | EMinus.
Definition esign_chars (s : esign) : list N := match s with ENone => [] | EPlus => [c_plus] | EMinus => [c_minus] end.
Definition esign_val (s : esign) (v : Z) : Z := match s with EMinus => - v | _ => v end.

Definition shape (ip : list N) (dot : option (list N)) (ex : option (esign * list N)) : list N :=
  ip ++ (match dot with Some fp => c_dot :: fp | None => [] end)
     ++ (match ex with Some (s, ed) => c_e :: esign_chars s ++ ed | None => [] end).

Lemma hd_digit_not_minus : forall l, all_digits l = true -> l <> [] ->
  exists c t, l = c :: t /\ is_digit c = true /\ (c =? c_minus)%N = false /\ (c =? c_plus)%N = false.
Proof.
  intros [|c t] A Nn; [congruence|]. cbn in A. apply andb_true_iff in A as [Hc _].
  exists c, t. split; [reflexivity|]. split; [exact Hc|].
  apply is_digit_range in Hc. unfold c_minus, c_plus. split; apply N.eqb_neq; lia.
Qed.

Lemma lit_decode_shape : forall ip dot ex,
  all_digits ip = true -> ip <> [] ->
  match dot with Some fp => all_digits fp = true | None => True end ->
  match ex with Some (_, ed) => all_digits ed = true /\ ed <> [] | None => True end ->
  lit_decode (shape ip dot ex) =
    mkLit false (dec_val (ip ++ match dot with Some fp => fp | None => [] end))
          ((match ex with Some (s, ed) => esign_val s (dec_val ed) | None => 0 end)
           - Z.of_nat (length (match dot with Some fp => fp | None => [] end))).
Proof.
  intros ip dot ex Aip Nip Adot Aex.
  destruct (hd_digit_not_minus ip Aip Nip) as (c & t & -> & Hc & Hm & _).
  set (E := match ex with Some (s, ed) => c_e :: esign_chars s ++ ed | None => [] end).
  assert (HE : match E with c :: _ => is_digit c = false | [] => True end) by (unfold E; destruct ex as [[s ed]|]; [reflexivity|exact I]).
  assert (HEdot : match E with c :: _ => is_dot c = false | [] => True end) by (unfold E; destruct ex as [[s ed]|]; [reflexivity|exact I]).
  (* the exponent value read from E *)
  assert (Hex : match E with
                | c :: t => if is_exp c then
                              match t with
                              | s :: u => if (s =? c_minus)%N then - dec_val (fst (take_digits u))
                                          else if (s =? c_plus)%N then dec_val (fst (take_digits u))
                                          else dec_val (fst (take_digits t))
                              | [] => 0
                              end
                            else 0
                | [] => 0 end = match ex with Some (s, ed) => esign_val s (dec_val ed) | None => 0 end).
  { unfold E. destruct ex as [[s ed]|]; [|reflexivity]. destruct Aex as [Aed Ned].
    change (is_exp c_e) with true. cbn iota.
    assert (Td : take_digits ed = (ed, [])) by (rewrite <- (app_nil_r ed) at 1; apply take_digits_app; [exact Aed|exact I]).
    destruct s; cbn [esign_chars app esign_val].
    - destruct (hd_digit_not_minus ed Aed Ned) as (c1 & t1 & -> & _ & Hm1 & Hp1). rewrite Hm1, Hp1, Td. reflexivity.
    - change ((c_plus =? c_minus)%N) with false. change ((c_plus =? c_plus)%N) with true. cbn iota. rewrite Td. reflexivity.
    - change ((c_minus =? c_minus)%N) with true. cbn iota. rewrite Td. reflexivity. }
  unfold shape. fold E.
  set (X := match dot with Some fp => c_dot :: fp | None => [] end ++ E).
  assert (Hl : lit_decode ((c :: t) ++ X) =
               let '(ip, l2) := take_digits ((c :: t) ++ X) in
               let '(fp, l3) := match l2 with
                                | c0 :: t0 => if is_dot c0 then take_digits t0 else ([], l2)
                                | [] => ([], l2) end in
               let ex := match l3 with
                         | c0 :: t0 => if is_exp c0 then
                                         match t0 with
                                         | s :: u => if (s =? c_minus)%N then - dec_val (fst (take_digits u))
                                                     else if (s =? c_plus)%N then dec_val (fst (take_digits u))
                                                     else dec_val (fst (take_digits t0))
                                         | [] => 0
                                         end
                                       else 0
                         | [] => 0 end in
               mkLit false (dec_val (ip ++ fp)) (ex - Z.of_nat (length fp))).
  { change ((c :: t) ++ X) with (c :: (t ++ X)). unfold lit_decode. rewrite Hm. reflexivity. }
  rewrite Hl. clear Hl. unfold X. clear X.
  destruct dot as [fp|].
  - rewrite (take_digits_app (c :: t) ((c_dot :: fp) ++ E) Aip eq_refl).
    cbn [app]. change (is_dot c_dot) with true. cbn iota.
    rewrite (take_digits_app fp E Adot HE). rewrite Hex. reflexivity.
  - change ([] ++ E) with E. rewrite (take_digits_app (c :: t) E Aip HE).
    destruct E as [|e0 E']; [cbn [length]; rewrite <- Hex; reflexivity|].
    cbn in HEdot. rewrite HEdot. rewrite Hex. reflexivity.
Qed.

(* ---- trailing zeros ------------------------------------------------------------------------------------ *)
Lemma strip0_rev_decomp : forall r, exists z, r = repeat c_0 z ++ strip0_rev r /\
  match strip0_rev r with c :: _ => c <> c_0 | [] => True end.
Proof.
  induction r as [|c t IH]; [exists 0%nat; split; [reflexivity|exact I]|].
  cbn [strip0_rev]. destruct ((c =? c_0)%N) eqn:E.
  - apply N.eqb_eq in E. subst c. destruct IH as (z & A & B). exists (S z). split; [cbn; f_equal; exact A|exact B].
  - exists 0%nat. split; [reflexivity|]. apply N.eqb_neq in E. exact E.
Qed.

Lemma strip_decomp : forall l, exists z, l = strip_trailing_zeros l ++ repeat c_0 z.
Proof.
  intros l. destruct (strip0_rev_decomp (rev l)) as (z & A & _). exists z. unfold strip_trailing_zeros.
  rewrite <- (rev_involutive l) at 1. rewrite A at 1. rewrite rev_app_distr, rev_repeat. reflexivity.
Qed.

Lemma all_digits_repeat0 : forall z, all_digits (repeat c_0 z) = true.
Proof. induction z; [reflexivity|exact IHz]. Qed.

Lemma dec_val_repeat0 : forall z, dec_val (repeat c_0 z) = 0.
Proof.
  induction z; [reflexivity|]. cbn [repeat]. rewrite dec_val_cons. change (dval c_0) with 0. lia.
Qed.

Lemma dec_val_app_zeros : forall x z, dec_val (x ++ repeat c_0 z) = dec_val x * 10 ^ Z.of_nat z.
Proof. intros. rewrite dec_val_app, dec_val_repeat0, repeat_length. lia. Qed.

Lemma dec_val_zeros_app : forall z x, dec_val (repeat c_0 z ++ x) = dec_val x.
Proof. intros. rewrite dec_val_app, dec_val_repeat0. lia. Qed.

(* the stripped canonical digits of sig >= 1 *)
Lemma stripped_facts : forall sig, 1 <= sig ->
  let ds := canon_dec sig in let st := strip_trailing_zeros ds in
  exists z d1 rest, ds = st ++ repeat c_0 z /\ st = d1 :: rest /\ is_digit19 d1 = true /\ all_digits rest = true /\
                    sig = dec_val st * 10 ^ Z.of_nat z /\ length ds = (length st + z)%nat.
Proof.
  intros sig H ds st. destruct (strip_decomp ds) as (z & Hz). fold st in Hz.
  destruct (canon_dec_canonical sig ltac:(lia)) as (A & Nn & V & Z0). fold ds in A, Nn, V, Z0.
  assert (Ast : all_digits st = true) by (rewrite Hz, all_digits_app in A; apply andb_true_iff in A; tauto).
  assert (Vst : sig = dec_val st * 10 ^ Z.of_nat z) by (rewrite <- V, Hz at 1; apply dec_val_app_zeros).
  destruct st as [|d1 rest] eqn:Est.
  - exfalso. unfold dec_val in Vst. cbn in Vst. lia.
  - exists z, d1, rest. split; [exact Hz|]. split; [reflexivity|].
    cbn in Ast. apply andb_true_iff in Ast as [Hd1 Ar].
    assert (d1 <> c_0).
    { intros ->. (* then ds starts with '0': only possible for ds = "0", i.e. sig = 0 *)
      rewrite Hz in Z0, V. destruct rest as [|r1 rest'].
      - destruct z as [|z']; cbn in V, Z0.
        + unfold dec_val in V. cbn in V. lia.
        + congruence.
      - cbn in Z0. congruence. }
    split; [|split; [exact Ar|split; [exact Vst|rewrite Hz at 1; rewrite app_length, repeat_length; reflexivity]]].
    apply is_digit_range in Hd1. unfold is_digit19, c_0 in *. apply andb_true_iff. split; apply N.leb_le; lia.
Qed.

Lemma exp_digits_spec : forall e, 0 <= e < 1000 ->
  all_digits (exp_digits e) = true /\ exp_digits e <> [] /\ dec_val (exp_digits e) = e.
Proof.
  intros e H.
  assert (A : forallb (fun v => all_digits (exp_digits v) && negb (Nat.eqb (length (exp_digits v)) 0) && (dec_val (exp_digits v) =? v))
                (zrange (Z.to_nat 1000)) = true) by (vm_compute; reflexivity).
  rewrite forallb_forall in A. specialize (A e (zrange_in (Z.to_nat 1000) e ltac:(rewrite Z2Nat.id; lia))).
  apply andb_true_iff in A as [A V]. apply andb_true_iff in A as [A L].
  split; [exact A|]. split; [intros E; rewrite E in L; discriminate|apply Z.eqb_eq; exact V].
Qed.

(* ---- write_dec_denotes ----------------------------------------------------------------------------------- *)
Definition denotes (t : list N) (sig exp : Z) : Prop :=
  lv_neg (lit_decode t) = false /\
  exists a b, 0 <= a /\ 0 <= b /\ lv_man (lit_decode t) * 10 ^ a = sig * 10 ^ b /\ lv_exp (lit_decode t) - a = exp - b.

Definition uses_exponent (t : list N) : bool := existsb is_exp t.

Lemma no_exp_digits : forall l, all_digits l = true -> existsb is_exp l = false.
Proof.
  induction l as [|c t IH]; intros H; [reflexivity|]. cbn in *. apply andb_true_iff in H as [Hc Ht].
  destruct (digit_not_special c Hc) as (_ & E & _). rewrite E. auto.
Qed.

Lemma uses_exponent_noexp : forall ip dot, all_digits ip = true ->
  match dot with Some fp => all_digits fp = true | None => True end ->
  uses_exponent (shape ip dot None) = false.
Proof.
  intros ip dot A B. unfold uses_exponent, shape. rewrite !existsb_app, (no_exp_digits ip A). cbn [orb existsb].
  destruct dot as [fp|]; [|reflexivity]. cbn [existsb]. rewrite (no_exp_digits fp B). reflexivity.
Qed.

Lemma uses_exponent_exp : forall ip dot e, uses_exponent (shape ip dot (Some e)) = true.
Proof.
  intros ip dot [s ed]. unfold uses_exponent, shape. rewrite !existsb_app. cbn [existsb].
  change (is_exp c_e) with true. rewrite !orb_true_r. reflexivity.
Qed.

Theorem write_dec_denotes : forall sig exp, 1 <= sig ->
  let sci := ideal_len sig + exp - 1 in
  -1000 < sci < 1000 ->
  let t := write_dec_ideal sig exp in
  denotes t sig exp /\ uses_exponent t = ((sci <? -6) || (20 <? sci)).
Proof.
  intros sig exp Hsig sci Hsci t.
  destruct (stripped_facts sig Hsig) as (z & d1 & rest & Hds & Hst & Hd1 & Arest & Hval & Hlen). cbv zeta in *.
  set (ds := canon_dec sig) in *. set (st := strip_trailing_zeros ds) in *.
  assert (Hn : ideal_len sig = Z.of_nat (length st) + Z.of_nat z) by (unfold ideal_len; fold ds; rewrite Hlen; lia).
  assert (Ad1 : is_digit d1 = true) by (apply digit19_digit; exact Hd1).
  assert (Ast : all_digits st = true) by (rewrite Hst; cbn; rewrite Ad1; exact Arest).
  assert (Ads : all_digits ds = true) by (rewrite Hds, all_digits_app, Ast, all_digits_repeat0; reflexivity).
  unfold t, write_dec_ideal, write_dec. fold (ideal_len sig). fold sci.
  replace (ideal_len sig + exp - 1) with sci by reflexivity.
  destruct ((sci <? -6) || (20 <? sci)) eqn:Efmt.
  - (* exponent form *)
    unfold format_exponent. fold ds. fold st.
    replace (exp + ideal_len sig - 1) with sci by (unfold sci; lia).
    set (ae := if sci <? 0 then - sci else sci).
    assert (Hae : 0 <= ae < 1000) by (unfold ae; destruct (sci <? 0) eqn:E; [apply Z.ltb_lt in E|apply Z.ltb_ge in E]; lia).
    destruct (exp_digits_spec ae Hae) as (Aed & Ned & Ved).
    set (sg := if sci <? 0 then EMinus else EPlus).
    assert (Etext : (match st with d :: (_ :: _) as rest0 => d :: c_dot :: rest0 | _ => st end) ++ [c_e] ++
                    (if sci <? 0 then c_minus :: exp_digits (- sci) else c_plus :: exp_digits sci) =
                    shape [d1] (match rest with [] => None | _ => Some rest end) (Some (sg, exp_digits ae))).
    { unfold shape, sg, ae. rewrite Hst. destruct rest as [|r1 rest']; destruct (sci <? 0); reflexivity. }
    rewrite Etext. split.
    + unfold denotes. rewrite lit_decode_shape; [|cbn; rewrite Ad1; reflexivity|discriminate|destruct rest; [exact I|exact Arest]|split; assumption].
      cbn [lv_neg lv_man lv_exp]. split; [reflexivity|].
      exists (Z.of_nat z), 0. split; [lia|]. split; [lia|].
      assert (Eman : dec_val ([d1] ++ match (match rest with [] => None | _ :: _ => Some rest end) with Some fp => fp | None => [] end) = dec_val st).
      { rewrite Hst. destruct rest; reflexivity. }
      assert (Elen : Z.of_nat (length (match (match rest with [] => None | _ :: _ => Some rest end) with Some fp => fp | None => [] end)) = Z.of_nat (length st) - 1).
      { rewrite Hst. destruct rest; cbn [length]; lia. }
      rewrite Eman, Elen, Ved. split; [rewrite Hval; lia|].
      unfold sg, ae, esign_val. destruct (sci <? 0) eqn:E; unfold sci in *; lia.
    + apply uses_exponent_exp.
  - apply orb_false_iff in Efmt as [E1 E2]. apply Z.ltb_ge in E1. apply Z.ltb_ge in E2.
    destruct (ideal_len sig + exp <? ideal_len sig) eqn:Edot; [apply Z.ltb_lt in Edot|apply Z.ltb_ge in Edot].
    + (* decimal form, exp < 0 *)
      unfold format_decimal. fold ds. fold st.
      set (point := ideal_len sig + exp) in *.
      destruct (point <=? 0) eqn:Ep; [apply Z.leb_le in Ep|apply Z.leb_gt in Ep].
      * (* 0.000ddd *)
        assert (Etext : [c_0; c_dot] ++ repeat c_0 (Z.to_nat (- point)) ++ st =
                        shape [c_0] (Some (repeat c_0 (Z.to_nat (- point)) ++ st)) None).
        { unfold shape. rewrite app_nil_r. reflexivity. }
        rewrite Etext. split.
        -- unfold denotes. rewrite lit_decode_shape; [|reflexivity|discriminate|rewrite all_digits_app, all_digits_repeat0; exact Ast|exact I].
           cbn [lv_neg lv_man lv_exp]. split; [reflexivity|]. exists (Z.of_nat z), 0. split; [lia|]. split; [lia|].
           change ([c_0] ++ repeat c_0 (Z.to_nat (- point)) ++ st) with (repeat c_0 (S (Z.to_nat (- point))) ++ st).
           rewrite dec_val_zeros_app. split; [rewrite Hval; lia|].
           rewrite app_length, repeat_length. unfold point in *. lia.
        -- apply uses_exponent_noexp; [reflexivity|rewrite all_digits_app, all_digits_repeat0; exact Ast].
      * destruct (point <? Z.of_nat (length st)) eqn:Ed; [apply Z.ltb_lt in Ed|apply Z.ltb_ge in Ed].
        -- (* dd.ddd *)
           set (p := Z.to_nat point).
           assert (Hp : (0 < p < length st)%nat) by (unfold p; lia).
           assert (Etext : firstn p st ++ [c_dot] ++ skipn p st = shape (firstn p st) (Some (skipn p st)) None).
           { unfold shape. rewrite app_nil_r. reflexivity. }
           rewrite Etext.
           assert (Afn : all_digits (firstn p st) = true /\ all_digits (skipn p st) = true).
           { rewrite <- (firstn_skipn p st) in Ast. rewrite all_digits_app in Ast. apply andb_true_iff in Ast. exact Ast. }
           split.
           ++ unfold denotes. rewrite lit_decode_shape; [|apply Afn| |apply Afn|exact I].
              ** cbn [lv_neg lv_man lv_exp]. split; [reflexivity|]. exists (Z.of_nat z), 0. split; [lia|]. split; [lia|].
                 rewrite firstn_skipn. split; [rewrite Hval; lia|]. rewrite skipn_length. unfold p, point in *. lia.
              ** intros E. apply (f_equal (@length N)) in E. rewrite firstn_length_le in E by lia. cbn [length] in E. lia.
           ++ apply uses_exponent_noexp; apply Afn.
        -- (* ddd000 : all fractional digits were zeros *)
           set (k := Z.to_nat (point - Z.of_nat (length st))).
           assert (Etext : st ++ repeat c_0 k = shape (st ++ repeat c_0 k) None None).
           { unfold shape. rewrite !app_nil_r. reflexivity. }
           rewrite Etext. split.
           ++ unfold denotes. rewrite lit_decode_shape; [|rewrite all_digits_app, Ast, all_digits_repeat0; reflexivity|rewrite Hst; discriminate|exact I|exact I].
              cbn [lv_neg lv_man lv_exp]. split; [reflexivity|]. exists (- exp), 0. split; [unfold point in *; lia|]. split; [lia|].
              rewrite app_nil_r, dec_val_app_zeros. cbn [length]. split; [|lia].
              rewrite Hval. rewrite <- Z.mul_assoc, <- Z.pow_add_r by (unfold point in *; lia).
              rewrite Z.pow_0_r, Z.mul_1_r. f_equal. f_equal. unfold k, point in *. lia.
           ++ apply uses_exponent_noexp; [rewrite all_digits_app, Ast, all_digits_repeat0; reflexivity|exact I].
    + (* integer with exp >= 0 *)
      set (k := Z.to_nat (ideal_len sig + exp - ideal_len sig)).
      assert (Etext : ds ++ repeat c_0 k = shape (ds ++ repeat c_0 k) None None).
      { unfold shape. rewrite !app_nil_r. reflexivity. }
      fold ds. rewrite Etext. split.
      * unfold denotes. rewrite lit_decode_shape; [|rewrite all_digits_app, Ads, all_digits_repeat0; reflexivity| |exact I|exact I].
        -- cbn [lv_neg lv_man lv_exp]. split; [reflexivity|]. exists 0, exp. split; [lia|]. split; [lia|].
           rewrite app_nil_r, dec_val_app_zeros. cbn [length].
           destruct (canon_dec_canonical sig ltac:(lia)) as (_ & _ & V & _). fold ds in V. rewrite V.
           split; [|lia]. rewrite Z.pow_0_r, Z.mul_1_r. f_equal. f_equal. unfold k. lia.
        -- rewrite Hds, Hst. discriminate.
      * apply uses_exponent_noexp; [rewrite all_digits_app, Ads, all_digits_repeat0; reflexivity|exact I].
Qed.

(* the model of write_dec of f64toa.c itself *)
Theorem write_dec_f64_denotes : forall sig exp, 1 <= sig < 10 ^ 17 ->
  let sci := ctz10 sig + exp - 1 in
  -1000 < sci < 1000 ->
  denotes (write_dec_f64 sig exp) sig exp /\
  uses_exponent (write_dec_f64 sig exp) = ((sci <? -6) || (20 <? sci)).
Proof.
  intros sig exp H sci Hsci. rewrite (write_dec_f64_ideal sig exp H).
  unfold sci in *. rewrite (ctz10_digits sig H) in *. apply write_dec_denotes; [lia|exact Hsci].
Qed.
