(* C19 - clauses of the property that are FALSE of the faithful models (the pinned code violates them);
   concrete witnesses by computation.  Both are replayed on the real code by the correspondence run
   (corpus/C19/witnesses.hex) and recorded as known findings. *)
From Coq Require Import ZArith NArith Bool List Lia.
From SV.Num Require Import Dec IntParse FloatCheck VNumber Api.
Import ListNotations.
Open Scope Z_scope.

(* "-0": vnumber's check_leading_zero returns +0.0, the correctly rounded value is -0.0 (sign bit set) *)
Definition lit_negzero : list N := [45; 48]%N.
Theorem vnumber_negzero_refuted :
  exists lit, nearest_bits f64 lit = BBits (2 ^ 63) /\ n_vt (vnumber lit 0%N 0) = V_INTEGER /\ n_dv (vnumber lit 0%N 0) = 0.
Proof. exists lit_negzero. vm_compute. auto. Qed.

(* 1.000000059604644775390625000000000000000001 : float32 via float64 rounds twice *)
Definition lit_dr : list N :=
  [49;46;48;48;48;48;48;48;48;53;57;54;48;52;54;52;52;55;55;53;51;57;48;54;50;53;48;48;48;48;48;48;48;48;48;48;48;48;48;48;48;48;48;49]%N.
Theorem unmarshal_f32_double_rounding_refuted :
  exists lit, nearest_bits f32 lit = BBits 1065353217 /\ unmarshal_f32 lit = Some 1065353216.
Proof. exists lit_dr. vm_compute. auto. Qed.
