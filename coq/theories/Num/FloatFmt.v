(* C19 - model of the notation logic of native/f64toa.c and native/f32toa.c: given the decimal (sig, exp)
   chosen by the shortest-digits search (f64todec / f32todec), the text that write_dec emits.
   The two files differ only in the digit-chunking of format_significand / format_integer (8+4+2 digits
   for 64 bit, 4+2 for 32 bit); both variants are modelled.  Buffers are modelled as the digit lists the
   code writes right-aligned into [out, out+cnt); the bytes it leaves unwritten (the low 8 resp. 4 digits
   when they are all zero) are never read back by the callers. *)
From Coq Require Import ZArith NArith Bool List Lia.
From SV.Num Require Import Dec IntPrint.
Import ListNotations.
Open Scope Z_scope.

Definition ctz10 (v : Z) : Z :=
  if 10000000000 <=? v then
    if v <? 100000000000 then 11 else if v <? 1000000000000 then 12 else if v <? 10000000000000 then 13
    else if v <? 100000000000000 then 14 else if v <? 1000000000000000 then 15
    else if v <? 10000000000000000 then 16 else 17
  else
    if v <? 10 then 1 else if v <? 100 then 2 else if v <? 1000 then 3 else if v <? 10000 then 4
    else if v <? 100000 then 5 else if v <? 1000000 then 6 else if v <? 10000000 then 7
    else if v <? 100000000 then 8 else if v <? 1000000000 then 9 else 10.

Definition ctz10_u32 (v : Z) : Z :=
  if 100000 <=? v then
    if v <? 1000000 then 6 else if v <? 10000000 then 7 else if v <? 100000000 then 8 else 9
  else if v <? 10 then 1 else if v <? 100 then 2 else if v <? 1000 then 3 else if v <? 10000 then 4 else 5.

Definition two (c : Z) : list N := [Digits c; Digits (c + 1)].          (* copy_two_digs(_, Digits + c) *)
Definition four (c : Z) : list N := two ((c / 100) * 2) ++ two ((c mod 100) * 2).

(* the tail shared by both widths: `if (sig2 >= 100) {...} if (sig2 >= 10) {...} else {...}` resp. the
   `while (sig >= 100)` loop of the 32-bit variant; [fuel] bounds the loops *)
Fixpoint fmt_loop4 (fuel : nat) (sig2 : Z) (acc : list N) : Z * list N :=     (* while (sig2 >= 10000) *)
  match fuel with
  | O => (sig2, acc)
  | S k => if 10000 <=? sig2 then fmt_loop4 k (sig2 / 10000) (four (sig2 - 10000 * (sig2 / 10000)) ++ acc)
           else (sig2, acc)
  end.

Fixpoint fmt_loop2 (fuel : nat) (sig : Z) (acc : list N) : Z * list N :=      (* while (sig >= 100) *)
  match fuel with
  | O => (sig, acc)
  | S k => if 100 <=? sig then fmt_loop2 k (sig / 100) (two ((sig mod 100) * 2) ++ acc) else (sig, acc)
  end.

Definition fmt_head (sig : Z) (acc : list N) : list N :=
  if 10 <=? sig then two (sig * 2) ++ acc else dchr sig :: acc.

(* 64-bit: digits written by format_integer(sig, out, cnt) *)
Definition format_integer (sig : Z) : list N :=
  let '(sig1, acc1) :=
    if (sig / 2 ^ 32 =? 0) then (sig, [])
    else let q := sig / 100000000 in
         let r := (sig mod 2 ^ 32 - 100000000 * (q mod 2 ^ 32)) mod 2 ^ 32 in
         (q, four ((r / 10000) mod 10000) ++ four (r mod 10000)) in
  let '(sig2, acc2) := fmt_loop4 3 (sig1 mod 2 ^ 32) acc1 in
  let '(sig3, acc3) := if 100 <=? sig2 then (sig2 / 100, two ((sig2 mod 100) * 2) ++ acc2) else (sig2, acc2) in
  fmt_head sig3 acc3.

(* 64-bit: format_significand: same, but the low 8 digits are skipped (ctz += 8) when r == 0;
   returns the digits up to `out + cnt - ctz` *)
Definition format_significand (sig : Z) : list N :=
  let '(sig1, acc1) :=
    if (sig / 2 ^ 32 =? 0) then (sig, [])
    else let q := sig / 100000000 in
         let r := (sig mod 2 ^ 32 - 100000000 * (q mod 2 ^ 32)) mod 2 ^ 32 in
         (q, if r =? 0 then [] else four ((r / 10000) mod 10000) ++ four (r mod 10000)) in
  let '(sig2, acc2) := fmt_loop4 3 (sig1 mod 2 ^ 32) acc1 in
  let '(sig3, acc3) := if 100 <=? sig2 then (sig2 / 100, two ((sig2 mod 100) * 2) ++ acc2) else (sig2, acc2) in
  fmt_head sig3 acc3.

(* 32-bit variants *)
Definition format_integer_u32 (sig : Z) : list N :=
  let '(sig1, acc1) :=
    if 10000 <=? sig then (sig / 10000, four (sig - 10000 * (sig / 10000))) else (sig, []) in
  let '(sig2, acc2) := fmt_loop2 4 sig1 acc1 in
  fmt_head sig2 acc2.

Definition format_significand_f32 (sig : Z) : list N :=
  let '(sig1, acc1) :=
    if 10000 <=? sig then
      let c := sig - 10000 * (sig / 10000) in (sig / 10000, if c =? 0 then [] else four c)
    else (sig, []) in
  let '(sig2, acc2) := fmt_loop2 4 sig1 acc1 in
  fmt_head sig2 acc2.

(* the loop that moves `end` left over trailing '0' bytes *)
Fixpoint strip0_rev (r : list N) : list N :=
  match r with
  | c :: t => if (c =? c_0)%N then strip0_rev t else r
  | [] => []
  end.
Definition strip_trailing_zeros (l : list N) : list N := rev (strip0_rev (rev l)).

Definition exp_digits (e : Z) : list N :=
  if 100 <=? e then two (2 * (e / 10)) ++ [dchr (e mod 10)]
  else if 10 <=? e then two (2 * e)
  else [dchr e].

Section Width.
  Variable fsig : Z -> list N.      (* format_significand of the width *)
  Variable fint : Z -> list N.      (* format_integer of the width *)
  Variable fctz : Z -> Z.           (* ctz10 of the width *)

  Definition format_exponent (sig exp cnt : Z) : list N :=
    let ds := strip_trailing_zeros (fsig sig) in
    let mant := match ds with
                | d :: (_ :: _) as rest => d :: c_dot :: rest
                | _ => ds
                end in
    let e := exp + cnt - 1 in
    mant ++ [c_e] ++ (if e <? 0 then c_minus :: exp_digits (- e) else c_plus :: exp_digits e).

  Definition format_decimal (sig exp cnt : Z) : list N :=
    let point := cnt + exp in
    let ds := strip_trailing_zeros (fsig sig) in
    if point <=? 0 then [c_0; c_dot] ++ repeat c_0 (Z.to_nat (- point)) ++ ds
    else
      let digs := Z.of_nat (length ds) in
      if point <? digs then firstn (Z.to_nat point) ds ++ [c_dot] ++ skipn (Z.to_nat point) ds
      else ds ++ repeat c_0 (Z.to_nat (point - digs)).

  Definition write_dec (sig exp : Z) : list N :=
    let cnt := fctz sig in
    let dot := cnt + exp in
    let sci_exp := dot - 1 in
    let exp_fmt := (sci_exp <? -6) || (20 <? sci_exp) in
    let has_dot := dot <? cnt in
    if exp_fmt then format_exponent sig exp cnt
    else if has_dot then format_decimal sig exp cnt
    else fint sig ++ repeat c_0 (Z.to_nat (dot - cnt)).
End Width.

Definition write_dec_f64 := write_dec format_significand format_integer ctz10.
Definition write_dec_f32 := write_dec format_significand_f32 format_integer_u32 ctz10_u32.
