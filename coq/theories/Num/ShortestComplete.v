(* C19 - completeness of shortest_check: every decimal that satisfies the specification (converts back, nothing
   shorter converts back, nothing of the same length is nearer) is accepted, inside the exponent window. *)
From Coq Require Import ZArith NArith Bool List Lia.
From SV.Num Require Import Dec DecLemmas FloatCheck FloatSpec FloatCheckProofs FloatCheckSound FloatInterval
  ShortestSound FloatComplete.
Import ListNotations.
Open Scope Z_scope.

Lemma ndig_lower : forall m a, 1 <= a -> 10 ^ (a - 1) <= m -> a <= ndig m.
Proof.
  intros m a Ha H. assert (1 <= m) by (pose proof (Z.pow_pos_nonneg 10 (a - 1)); lia).
  destruct (ndig_spec m H0) as (A & B & C). destruct (Z_le_gt_dec a (ndig m)); [assumption|exfalso].
  assert (10 ^ ndig m <= 10 ^ (a - 1)) by (apply Z.pow_le_mono_r; lia). lia.
Qed.

Lemma ndig_upper : forall m b, 1 <= m -> 0 <= b -> m < 10 ^ b -> ndig m <= b.
Proof.
  intros m b Hm Hb H. destruct (ndig_spec m Hm) as (A & B & C). destruct (Z_le_gt_dec (ndig m) b); [assumption|exfalso].
  assert (10 ^ b <= 10 ^ (ndig m - 1)) by (apply Z.pow_le_mono_r; lia). lia.
Qed.

Lemma rne_dec_not_bad : forall f m e, wf_fmt f -> 0 <= m -> rne_dec f m e <> RBad.
Proof.
  intros f m e W Hm. unfold rne_dec. destruct (m =? 0) eqn:E0; [discriminate|]. apply Z.eqb_neq in E0. cbv zeta.
  destruct (400 <? e + ndig m); [discriminate|]. destruct (e + ndig m <? -400); [discriminate|].
  destruct (frac_dec m e) as [num den] eqn:Fd. apply rne_frac_complete; [exact W| |].
  - unfold frac_dec in Fd. destruct (0 <=? e) eqn:E; inversion Fd; subst; [|lia].
    apply Z.leb_le in E. apply Z.mul_pos_pos; [lia|apply Z.pow_pos_nonneg; lia].
  - destruct (frac_scaled f m e num den Fd) as [_ H]. exact H.
Qed.

(* the three-valued test decides RTd inside the window *)
Lemma rt3_total : forall f k m e, wf_fmt f -> 1 <= m -> win m e = true ->
  (RTd f k m e -> rt3 f k m e = Some true) /\ (~ RTd f k m e -> rt3 f k m e = Some false).
Proof.
  intros f k m e W Hm Hw. unfold rt3. rewrite (proj2 (Z.leb_le _ _) Hm), Hw. cbn [andb].
  pose proof (rne_dec_not_bad f m e W ltac:(lia)) as Hnb.
  pose proof (rne_dec_sound f m e _ W ltac:(lia) (win_window f 0 m e Hw) eq_refl Hnb) as Sd.
  unfold RTd. destruct (scaled_dec f m e) as [N D] eqn:Es.
  assert (HD : 0 < D).
  { destruct (frac_dec m e) as [num den] eqn:Fd. destruct (frac_scaled f m e num den Fd) as [E H]. rewrite Es in E. inversion E; subst. exact H. }
  destruct (rne_dec f m e) as [k'| |]; [| |congruence].
  - destruct (k' =? k) eqn:E; [apply Z.eqb_eq in E; subst k'|apply Z.eqb_neq in E].
    + split; [reflexivity|]. intros Hn. contradiction.
    + split; [|reflexivity]. intros HR. pose proof (rounds_to_spec_unique f N D _ _ W HD Sd HR) as U. inversion U. congruence.
  - split; [|reflexivity]. intros HR. pose proof (rounds_to_spec_unique f N D _ _ W HD Sd HR) as U. discriminate.
Qed.

(* decimals with the same value are interchangeable *)
Lemma RTd_same : forall f B k m e m' e', wf_fmt f -> B <= 0 -> B <= e -> B <= e' -> Iv B m e = Iv B m' e' ->
  RTd f k m e -> RTd f k m' e'.
Proof.
  intros f B k m e m' e' W HB He He' E H. apply (RTd_J f W B HB k m e He) in H. apply (RTd_J f W B HB k m' e' He').
  unfold Jv in *. rewrite <- E. exact H.
Qed.

Lemma closer_same : forall f B k m e m1 e1 m2 e2, wf_fmt f -> B <= 0 -> B <= e -> B <= e1 -> B <= e2 ->
  Iv B m1 e1 = Iv B m2 e2 -> closer f k m e m1 e1 -> closer f k m e m2 e2.
Proof.
  intros f B k m e m1 e1 m2 e2 W HB He H1 H2 E H. apply (closer_J f B k m e m1 e1 W HB He H1) in H.
  apply (closer_J f B k m e m2 e2 W HB He H2). unfold Jv in *. rewrite <- E. exact H.
Qed.

Lemma Iv_pow : forall B a e, B <= e -> 0 <= a -> Iv B (10 ^ a) e = Iv B 1 (e + a).
Proof.
  intros B a e He Ha. rewrite (Iv_multiple B 1 (e + a) e) by lia. f_equal. replace (e + a - e) with a by lia. lia.
Qed.

Theorem shortest_check_complete : forall f abits sig exp k, wf_fmt f ->
  k_of_bits f abits = Some k -> 0 < k -> 1 <= sig -> sig mod 10 <> 0 ->
  -398 <= exp + ndig sig <= 398 ->
  RTd f k sig exp ->
  (forall sig' exp', 0 < sig' -> RTd f k sig' exp' -> ndig sig <= ndig sig') ->
  (forall sig' exp', 0 < sig' -> ndig sig' = ndig sig -> RTd f k sig' exp' -> closer f k sig exp sig' exp') ->
  shortest_check f abits sig exp = true.
Proof.
  intros f abits sig exp k W Ek Hk Hs Hm Hwin HR Sh Cl.
  destruct (ndig_spec sig Hs) as (Hn1 & Hlo & Hhi). set (n := ndig sig) in *.
  set (B := Z.min (exp - 1) 0). assert (HB0 : B <= 0) by (unfold B; lia). assert (HB1 : B <= exp - 1) by (unfold B; lia).
  (* sig is not a power of ten unless it is 1 *)
  assert (Hs1 : sig = 1 \/ 10 ^ (n - 1) < sig).
  { destruct (Z.eq_dec sig (10 ^ (n - 1))) as [E|]; [|right; lia].
    destruct (Z.eq_dec n 1) as [En|]; [left; rewrite E, En; reflexivity|exfalso].
    apply Hm. rewrite E. replace (n - 1) with (Z.succ (n - 2)) by lia. rewrite Z.pow_succ_r by lia.
    rewrite Z.mul_comm. apply Z.mod_mul. lia. }
  assert (Wn : forall m e a b, 1 <= m -> 1 <= a -> 10 ^ (a - 1) <= m < 10 ^ b -> 0 <= b ->
                -400 <= e + a -> e + b <= 400 -> win m e = true).
  { intros m e a b H1 Ha [Hl Hu] Hb0 H2 H3. unfold win. pose proof (ndig_lower m a Ha Hl). pose proof (ndig_upper m b H1 Hb0 Hu).
    apply andb_true_iff. split; apply Z.leb_le; lia. }
  assert (P10 : forall a, 0 <= a -> 10 ^ (Z.succ a) = 10 * 10 ^ a) by (intros; apply Z.pow_succ_r; assumption).
  unfold shortest_check. rewrite Ek.
  rewrite (proj2 (Z.ltb_lt _ _) Hk), (proj2 (Z.ltb_lt _ _)) by lia. rewrite (proj2 (Z.eqb_neq _ _) Hm). cbn [negb andb].
  (* the decimal itself *)
  assert (Wsig : win sig exp = true) by (apply (Wn sig exp n n); try lia).
  unfold rounds_to. rewrite (proj1 (rt3_total f k sig exp W Hs Wsig) HR). cbn [andb].
  apply andb_true_iff. split; [apply andb_true_iff; split|].
  - (* nothing shorter *)
    destruct (sig <? 10) eqn:E10; [reflexivity|]. apply Z.ltb_ge in E10.
    assert (Hn2 : 2 <= n).
    { destruct (Z_le_gt_dec 2 n); [assumption|exfalso]. assert (n = 1) by lia. rewrite H in Hhi. change (10 ^ 1) with 10 in Hhi. lia. }
    set (c := sig / 10).
    assert (Hc : 10 ^ (n - 2) <= c < 10 ^ (n - 1)).
    { unfold c. replace (n - 1) with (Z.succ (n - 2)) in Hlo by lia. rewrite P10 in Hlo by lia.
      replace n with (Z.succ (n - 1)) in Hhi at 1 by lia. rewrite P10 in Hhi by lia.
      split; [apply Z.div_le_lower_bound; lia|apply Z.div_lt_upper_bound; lia]. }
    assert (Hc1 : 1 <= c) by (pose proof (Z.pow_pos_nonneg 10 (n - 2)); lia).
    apply andb_true_iff. split.
    + unfold rounds_not.
      assert (Wc : win c (exp + 1) = true) by (apply (Wn c (exp + 1) (n - 1) (n - 1)); try lia; replace (n - 1 - 1) with (n - 2) by lia; lia).
      rewrite (proj2 (rt3_total f k c (exp + 1) W Hc1 Wc)); [reflexivity|].
      intros HRc. pose proof (Sh c (exp + 1) ltac:(lia) HRc). pose proof (ndig_upper c (n - 1) Hc1 ltac:(lia) (proj2 Hc)). lia.
    + unfold rounds_not.
      assert (Wc : win (c + 1) (exp + 1) = true).
      { apply (Wn (c + 1) (exp + 1) (n - 1) n); try lia. replace (n - 1 - 1) with (n - 2) by lia.
        replace n with (Z.succ (n - 1)) at 2 by lia. rewrite P10 by lia. pose proof (Z.pow_pos_nonneg 10 (n - 1)). lia. }
      rewrite (proj2 (rt3_total f k (c + 1) (exp + 1) W ltac:(lia) Wc)); [reflexivity|].
      intros HRc. destruct (Z.eq_dec (c + 1) (10 ^ (n - 1))) as [E|Hne].
      * (* (c+1) * 10^(exp+1) = 1 * 10^(exp+n) : a one-digit decimal *)
        assert (HR1 : RTd f k 1 (exp + 1 + (n - 1))).
        { apply (RTd_same f B k (c + 1) (exp + 1) 1 (exp + 1 + (n - 1)) W HB0); try lia; [|exact HRc].
          rewrite E. apply Iv_pow; lia. }
        pose proof (Sh 1 _ ltac:(lia) HR1) as S1. change (ndig 1) with 1 in S1. lia.
      * pose proof (Sh (c + 1) (exp + 1) ltac:(lia) HRc). pose proof (ndig_upper (c + 1) (n - 1) ltac:(lia) ltac:(lia) ltac:(lia)). lia.
  - (* lower neighbour *)
    fold (lower_nb sig exp). unfold lower_nb, neighbour_ok.
    destruct (sig =? 1) eqn:E1; [apply Z.eqb_eq in E1|apply Z.eqb_neq in E1].
    + subst sig. assert (n = 1) by (unfold n; reflexivity).
      assert (W9 : win 9 (exp - 1) = true) by (apply (Wn 9 (exp - 1) 1 1); cbn; lia).
      destruct (rt3 f k 9 (exp - 1)) as [[|]|] eqn:Ert.
      * apply closer_eq_spec. apply Cl; [lia|reflexivity|].
        destruct (rt3_yes f W 0 k 9 (exp - 1) Ert) as [R _]. exact R.
      * reflexivity.
      * exfalso. unfold rt3 in Ert. rewrite W9 in Ert. cbn [Z.leb andb] in Ert. change (1 <=? 9) with true in Ert. cbn [andb] in Ert.
        pose proof (rne_dec_not_bad f 9 (exp - 1) W ltac:(lia)). destruct (rne_dec f 9 (exp - 1)); try discriminate. congruence.
    + destruct Hs1 as [->|Hs1]; [congruence|].
      assert (Wl : win (sig - 1) exp = true) by (apply (Wn (sig - 1) exp n n); lia).
      destruct (rt3 f k (sig - 1) exp) as [[|]|] eqn:Ert.
      * apply closer_eq_spec. destruct (rt3_yes f W 0 k (sig - 1) exp Ert) as [R _]. apply Cl; [lia| |exact R].
        apply ndig_unique; lia.
      * reflexivity.
      * exfalso. destruct (rt3_total f k (sig - 1) exp W ltac:(lia) Wl) as [Ty Tn].
        unfold rt3 in Ert. rewrite (proj2 (Z.leb_le _ _)) in Ert by lia. rewrite Wl in Ert. cbn [andb] in Ert.
        pose proof (rne_dec_not_bad f (sig - 1) exp W ltac:(lia)). destruct (rne_dec f (sig - 1) exp); try discriminate. congruence.
  - (* upper neighbour *)
    unfold neighbour_ok.
    assert (Wu : win (sig + 1) exp = true).
    { apply (Wn (sig + 1) exp n (n + 1)); try lia. replace (n + 1) with (Z.succ n) by lia. rewrite P10 by lia. lia. }
    destruct (rt3 f k (sig + 1) exp) as [[|]|] eqn:Ert.
    + apply closer_eq_spec. destruct (rt3_yes f W 0 k (sig + 1) exp Ert) as [R _].
      destruct (Z.eq_dec (sig + 1) (10 ^ n)) as [E|Hne].
      * assert (HR1 : RTd f k 1 (exp + n)).
        { apply (RTd_same f B k (sig + 1) exp 1 (exp + n) W HB0); try lia; [|exact R]. rewrite E. apply Iv_pow; lia. }
        pose proof (Sh 1 _ ltac:(lia) HR1) as S1. change (ndig 1) with 1 in S1. assert (n = 1) by lia.
        apply (closer_same f B k sig exp 1 (exp + n) (sig + 1) exp W HB0); try lia.
        -- rewrite E. symmetry. apply Iv_pow; lia.
        -- apply Cl; [lia| |exact HR1]. fold n. rewrite H. reflexivity.
      * apply Cl; [lia| |exact R]. apply ndig_unique; lia.
    + reflexivity.
    + exfalso. unfold rt3 in Ert. rewrite (proj2 (Z.leb_le _ _)) in Ert by lia. rewrite Wu in Ert. cbn [andb] in Ert.
      pose proof (rne_dec_not_bad f (sig + 1) exp W ltac:(lia)). destruct (rne_dec f (sig + 1) exp); try discriminate. congruence.
Qed.
