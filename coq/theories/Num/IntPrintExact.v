(* C19 - u64toa_exact / i64toa_exact (second part): the four size classes of u64toa_1 and the final theorems. *)
From Coq Require Import ZArith NArith Bool List Lia.
From SV.Num Require Import Dec DecLemmas IntParse IntParseProofs IntPrint FloatFmt IntPrintProofs.
Import ListNotations.
Open Scope Z_scope.

(* head ++ fixed-width tail *)
Lemma canonical_app : forall h t a b k, canonical h a -> 1 <= a ->
  all_digits t = true -> length t = k -> dec_val t = b ->
  canonical (h ++ t) (a * 10 ^ Z.of_nat k + b).
Proof.
  intros h t a b k (A & N & V & Z0) Ha At Lt Vt. unfold canonical.
  split; [rewrite all_digits_app, A, At; reflexivity|].
  split; [destruct h; [congruence|discriminate]|].
  split; [rewrite dec_val_app, V, Vt, Lt; reflexivity|].
  destruct h as [|c [|c' h']]; [congruence| |exact Z0].
  (* single-digit head: it is not '0' because a >= 1 *)
  destruct t as [|c2 t']; [exact I|]. cbn. intros ->.
  unfold dec_val in V. cbn in V. lia.
Qed.

(* u32toa_medium = u32toa_small of the high part ++ four digits *)
Lemma medium_split : forall val, 10000 <= val < 100000000 ->
  u32toa_medium val = u32toa_small (val / 10000) ++ four (val mod 10000).
Proof.
  intros val H. unfold u32toa_medium, u32toa_small, four, two. cbv zeta.
  set (b := val / 10000). set (c := val mod 10000).
  assert (Hb : 1 <= b < 10000) by (unfold b; split; [apply Z.div_le_lower_bound; lia|apply Z.div_lt_upper_bound; lia]).
  assert (E7 : (10000000 <=? val) = (1000 <=? b)).
  { unfold b. destruct (1000 <=? val / 10000) eqn:E; [apply Z.leb_le in E|apply Z.leb_gt in E].
    - apply Z.leb_le. pose proof (Z.mul_div_le val 10000). lia.
    - apply Z.leb_gt. pose proof (Z.div_mod val 10000). pose proof (Z.mod_pos_bound val 10000). lia. }
  assert (E6 : (1000000 <=? val) = (100 <=? b)).
  { unfold b. destruct (100 <=? val / 10000) eqn:E; [apply Z.leb_le in E|apply Z.leb_gt in E].
    - apply Z.leb_le. pose proof (Z.mul_div_le val 10000). lia.
    - apply Z.leb_gt. pose proof (Z.div_mod val 10000). pose proof (Z.mod_pos_bound val 10000). lia. }
  assert (E5 : (100000 <=? val) = (10 <=? b)).
  { unfold b. destruct (10 <=? val / 10000) eqn:E; [apply Z.leb_le in E|apply Z.leb_gt in E].
    - apply Z.leb_le. pose proof (Z.mul_div_le val 10000). lia.
    - apply Z.leb_gt. pose proof (Z.div_mod val 10000). pose proof (Z.mod_pos_bound val 10000). lia. }
  rewrite E7, E6, E5. rewrite <- !app_assoc. reflexivity.
Qed.

(* stripping leading zeros *)
Lemma strip_spec : forall l fuel, all_digits l = true -> 0 < dec_val l -> (length l <= S fuel)%nat ->
  let r := skipn (count_lead_zero l fuel) l in
  all_digits r = true /\ dec_val r = dec_val l /\ (exists c t, r = c :: t /\ c <> c_0).
Proof.
  induction l as [|c t IH]; intros fuel A V L; [unfold dec_val in V; cbn in V; lia|].
  cbn in A. apply andb_true_iff in A as [Hc At].
  destruct fuel as [|k].
  - (* single byte left, not zero because the value is positive *)
    cbn [count_lead_zero skipn]. cbn in L. destruct t; [|cbn in L; lia].
    split; [cbn; rewrite Hc; reflexivity|]. split; [reflexivity|]. exists c, []. split; [reflexivity|].
    intros ->. unfold dec_val in V. cbn in V. lia.
  - cbn [count_lead_zero]. destruct ((c =? c_0)%N) eqn:E.
    + apply N.eqb_eq in E. subst c. cbn [skipn].
      assert (V' : dec_val (c_0 :: t) = dec_val t).
      { rewrite dec_val_cons. change (dval c_0) with 0. lia. }
      rewrite V' in *. apply IH; [exact At|exact V|cbn in L; lia].
    + cbn [skipn]. split; [cbn; rewrite Hc; exact At|]. split; [reflexivity|].
      exists c, t. split; [reflexivity|]. apply N.eqb_neq in E. exact E.
Qed.

Lemma canonical_of_strip : forall r v, all_digits r = true -> dec_val r = v -> (exists c t, r = c :: t /\ c <> c_0) ->
  canonical r v.
Proof.
  intros r v A V (c & t & -> & N). unfold canonical. split; [exact A|]. split; [discriminate|]. split; [exact V|].
  destruct t; [exact I|exact N].
Qed.

Lemma large_canonical : forall val, 100000000 <= val < 10000000000000000 -> canonical (u64toa_large_sse2 val) val.
Proof.
  intros val H. unfold u64toa_large_sse2. cbv zeta.
  set (a := val / 100000000). set (b := val mod 100000000).
  assert (Ha : 1 <= a < 100000000) by (unfold a; split; [apply Z.div_le_lower_bound; lia|apply Z.div_lt_upper_bound; lia]).
  assert (Hb : 0 <= b < 100000000) by (apply Z.mod_pos_bound; lia).
  rewrite map_app, !itoa8_eight by lia.
  destruct (eight_spec a ltac:(lia)) as (A1 & V1 & L1). destruct (eight_spec b Hb) as (A2 & V2 & L2).
  assert (A : all_digits (eight a ++ eight b) = true) by (rewrite all_digits_app, A1, A2; reflexivity).
  assert (V : dec_val (eight a ++ eight b) = val).
  { rewrite dec_val_app, V1, V2, L2. change (10 ^ Z.of_nat 8) with 100000000.
    unfold a, b. pose proof (Z.div_mod val 100000000). lia. }
  destruct (strip_spec (eight a ++ eight b) 15 A ltac:(lia) ltac:(rewrite app_length, L1, L2; cbn; lia)) as (RA & RV & RC).
  apply canonical_of_strip; [exact RA|rewrite RV; exact V|exact RC].
Qed.

(* the 1..4 leading digits of the xlarge class *)
Definition xl_head (a : Z) : list N :=
  if a <? 10 then itoa1 a
  else if a <? 100 then itoa2 (a * 2)
  else if a <? 1000 then itoa1 (a / 100) ++ itoa2 ((a mod 100) * 2)
  else itoa2 ((a / 100) * 2) ++ itoa2 ((a mod 100) * 2).

Definition head_ok (v : Z) : bool := list_eqb (xl_head v) (u32toa_small v).

Lemma head_all : forallb head_ok (zrange n10k) = true.
Proof. vm_compute. reflexivity. Qed.

Lemma xl_head_small : forall a, 0 <= a < 10000 -> xl_head a = u32toa_small a.
Proof.
  intros a H. pose proof head_all as A. rewrite forallb_forall in A.
  apply list_eqb_eq. apply (A a). apply zrange_in. rewrite n10k_val. lia.
Qed.

Lemma xlarge_canonical : forall val, 10000000000000000 <= val < 2 ^ 64 -> canonical (u64toa_xlarge_sse2 val) val.
Proof.
  intros val H. unfold u64toa_xlarge_sse2. cbv zeta.
  set (b := val mod 10000000000000000). set (a := val / 10000000000000000).
  assert (Ha : 1 <= a < 10000).
  { unfold a. split; [apply Z.div_le_lower_bound; lia|apply Z.div_lt_upper_bound; [lia|]].
    change (2 ^ 64) with 18446744073709551616 in H. lia. }
  assert (Hb : 0 <= b < 10000000000000000) by (apply Z.mod_pos_bound; lia).
  fold (xl_head a). rewrite xl_head_small by lia.
  assert (Hb1 : 0 <= b / 100000000 < 100000000) by (split; [apply Z.div_pos; lia|apply Z.div_lt_upper_bound; lia]).
  assert (Hb2 : 0 <= b mod 100000000 < 100000000) by (apply Z.mod_pos_bound; lia).
  rewrite map_app, !itoa8_eight by lia.
  destruct (eight_spec _ Hb1) as (A1 & V1 & L1). destruct (eight_spec _ Hb2) as (A2 & V2 & L2).
  assert (Ev : a * 10 ^ Z.of_nat 16 + b = val)
    by (change (10 ^ Z.of_nat 16) with 10000000000000000; unfold a, b; pose proof (Z.div_mod val 10000000000000000); lia).
  rewrite <- Ev.
  apply canonical_app; [apply small_canonical; lia|lia| | |].
  - rewrite all_digits_app, A1, A2. reflexivity.
  - rewrite app_length, L1, L2. reflexivity.
  - rewrite dec_val_app, V1, V2, L2. change (10 ^ Z.of_nat 8) with 100000000. pose proof (Z.div_mod b 100000000). lia.
Qed.

Lemma u64toa_canonical : forall v, 0 <= v < 2 ^ 64 -> canonical (u64toa v) v.
Proof.
  intros v H. unfold u64toa.
  destruct (v <? 10000) eqn:E1; [apply Z.ltb_lt in E1; apply small_canonical; lia|apply Z.ltb_ge in E1].
  destruct (v <? 100000000) eqn:E2; [apply Z.ltb_lt in E2|apply Z.ltb_ge in E2].
  - rewrite medium_split by lia.
    assert (Hq : 1 <= v / 10000 < 10000) by (split; [apply Z.div_le_lower_bound; lia|apply Z.div_lt_upper_bound; lia]).
    assert (Hr : 0 <= v mod 10000 < 10000) by (apply Z.mod_pos_bound; lia).
    destruct (four_spec _ Hr) as (A & V & L & _).
    set (q := v / 10000) in *. set (r := v mod 10000) in *.
    assert (Ev : q * 10 ^ Z.of_nat 4 + r = v)
      by (change (10 ^ Z.of_nat 4) with 10000; unfold q, r; pose proof (Z.div_mod v 10000); lia).
    rewrite <- Ev.
    apply canonical_app; [apply small_canonical; lia|lia|exact A|exact L|exact V].
  - destruct (v <? 10000000000000000) eqn:E3; [apply Z.ltb_lt in E3; apply large_canonical; lia|apply Z.ltb_ge in E3].
    apply xlarge_canonical. lia.
Qed.

(* ---- the theorems -------------------------------------------------------------------------------- *)
Theorem u64toa_exact : forall v, 0 <= v < 2 ^ 64 -> u64toa v = canon_dec v.
Proof.
  intros v H. apply canonical_unique with v; [apply u64toa_canonical; exact H|apply canon_dec_canonical; lia].
Qed.

Theorem i64toa_exact : forall v, - 2 ^ 63 <= v < 2 ^ 63 -> i64toa v = canon_int v.
Proof.
  intros v H. unfold i64toa, canon_int.
  destruct (0 <=? v) eqn:E; [apply Z.leb_le in E|apply Z.leb_gt in E].
  - rewrite (proj2 (Z.ltb_ge _ _)) by lia. apply u64toa_exact.
    change (2 ^ 64) with 18446744073709551616. change (2 ^ 63) with 9223372036854775808 in H. lia.
  - rewrite (proj2 (Z.ltb_lt _ _)) by lia. f_equal.
    change (2 ^ 63) with 9223372036854775808 in H.
    rewrite Z.mod_small by (change (2 ^ 64) with 18446744073709551616; lia).
    apply u64toa_exact. change (2 ^ 64) with 18446744073709551616. lia.
Qed.

(* the canonical text is "digits, no sign, no leading zero": shortest possible, and an integer literal *)
Theorem canon_dec_digits : forall v, 0 <= v -> canonical (canon_dec v) v.
Proof. exact canon_dec_canonical. Qed.

Lemma canonical_int_part : forall l v, canonical l v -> int_part l.
Proof.
  intros l v (A & N & V & Z0). destruct l as [|c t]; [congruence|]. cbn in A. apply andb_true_iff in A as [Hc At].
  destruct ((c =? c_0)%N) eqn:E.
  - apply N.eqb_eq in E. subst c. destruct t; [constructor|]. cbn in Z0. congruence.
  - apply ip_nz; [|exact At]. apply N.eqb_neq in E. apply is_digit_range in Hc. unfold is_digit19, c_0 in *.
    apply andb_true_iff. split; apply N.leb_le; lia.
Qed.

(* every other digit string with the same value is longer (has leading zeros) *)
Theorem canon_dec_shortest : forall v l, 0 <= v -> all_digits l = true -> l <> [] -> dec_val l = v ->
  (length (canon_dec v) <= length l)%nat.
Proof.
  intros v l Hv A N V. destruct (canon_dec_canonical v Hv) as (A1 & N1 & V1 & Z1).
  destruct (le_lt_dec (length (canon_dec v)) (length l)) as [|Hlt]; [assumption|exfalso].
  destruct (canon_dec v) as [|c1 [|c1' t1]]; [congruence|cbn in Hlt; destruct l; [congruence|cbn in Hlt; lia]|].
  cbn in Z1. cbn in A1. apply andb_true_iff in A1 as [Hc1 At1].
  pose proof (dec_val_lower c1 (c1' :: t1) Hc1 Z1 At1) as Lo.
  pose proof (dec_val_bound l A) as Hi.
  assert (10 ^ Z.of_nat (length l) <= 10 ^ Z.of_nat (length (c1' :: t1))).
  { apply Z.pow_le_mono_r; [lia|]. cbn [length] in *. lia. }
  lia.
Qed.

(* and it parses back: vsigned / vunsigned of the printed text return the value *)
Theorem u64toa_parses_back : forall v oob, 0 <= v < 2 ^ 64 ->
  vunsigned (u64toa v) oob 0 = mkV V_INTEGER (length (u64toa v)) v.
Proof.
  intros v oob H. pose proof (u64toa_canonical v H) as C.
  pose proof (vunsigned_exact [] (u64toa v) [] oob (canonical_int_part _ _ C) eq_refl) as (_ & B & _).
  cbv zeta in B. rewrite app_nil_r in B. cbn [app length] in B.
  destruct C as (_ & _ & V & _). rewrite V in B. apply B; [reflexivity|].
  unfold in_u64, U64_MAX. lia.
Qed.

Theorem i64toa_parses_back : forall v oob, - 2 ^ 63 <= v < 2 ^ 63 ->
  vsigned (i64toa v) oob 0 = mkV V_INTEGER (length (i64toa v)) v.
Proof.
  intros v oob H. rewrite i64toa_exact by exact H. unfold canon_int.
  change (2 ^ 63) with 9223372036854775808 in H.
  destruct (v <? 0) eqn:E; [apply Z.ltb_lt in E|apply Z.ltb_ge in E].
  - pose proof (canon_dec_canonical (- v) ltac:(lia)) as C.
    pose proof (vsigned_exact [] (c_minus :: canon_dec (- v)) [] oob (ji_neg _ (canonical_int_part _ _ C)) eq_refl) as (_ & B & _).
    cbv zeta in B. rewrite app_nil_r in B. cbn [app length] in B.
    destruct C as (_ & _ & V & _).
    assert (EV : int_lit_val (c_minus :: canon_dec (- v)) = v) by (change (int_lit_val (c_minus :: canon_dec (- v))) with (- dec_val (canon_dec (- v))); lia).
    rewrite EV in B. apply B; [reflexivity|]. unfold in_i64, I64_MIN, I64_MAX. lia.
  - pose proof (canon_dec_canonical v ltac:(lia)) as C.
    pose proof (vsigned_exact [] (canon_dec v) [] oob (ji_pos _ (canonical_int_part _ _ C)) eq_refl) as (_ & B & _).
    cbv zeta in B. rewrite app_nil_r in B. cbn [app length] in B.
    rewrite (int_lit_val_pos _ (canonical_int_part _ _ C)) in B.
    destruct C as (_ & _ & V & _). rewrite V in B. apply B; [reflexivity|]. unfold in_i64, I64_MIN, I64_MAX. lia.
Qed.

Example u64toa_examples :
  u64toa 18446744073709551615 = [49;56;52;52;54;55;52;52;48;55;51;55;48;57;53;53;49;54;49;53]%N /\
  i64toa (-9223372036854775808) = [45;57;50;50;51;51;55;50;48;51;54;56;53;52;55;55;53;56;48;56]%N /\
  u64toa 0 = [48]%N /\ u64toa 100000000 = [49;48;48;48;48;48;48;48;48]%N.
Proof. repeat split; reflexivity. Qed.
