(* C19 - specification of correctly rounded binary floating point conversion, in integer arithmetic.
   A format f = (prec, emin, jmax).  Reals are represented scaled by 2^-emin as fractions N/D (N >= 0, D > 0),
   so the non-negative floats with *unbounded* exponent range are the integers  m * 2^j, 0 <= m < 2^prec, j >= 0.
   "k is the round-to-nearest, ties-to-even image of N/D": k is a float, no float is nearer, and if another float is
   equally near then k's canonical significand is even (IEEE 754 roundTiesToEven).  Overflow follows the IEEE
   definition: the result is +infinity iff the rounded value *with unbounded exponent range* reaches 2^prec * 2^jmax. *)
From Coq Require Import ZArith Bool Lia.
From SV.Num Require Import FloatCheck.
Open Scope Z_scope.

Section Spec.
  Variable f : bfmt.

  Definition Fint (k : Z) : Prop := exists m j, 0 <= m < 2 ^ prec f /\ 0 <= j /\ k = m * 2 ^ j.

  Definition nearest (N D k : Z) : Prop :=
    Fint k /\ forall k', Fint k' -> Z.abs (N - k * D) <= Z.abs (N - k' * D).

  Definition canon_even (k : Z) : Prop :=
    exists m j, k = m * 2 ^ j /\ 0 <= j /\ Z.even m = true /\ m < 2 ^ prec f /\ (j = 0 \/ 2 ^ (prec f - 1) <= m).

  Definition is_rne (N D k : Z) : Prop :=
    nearest N D k /\
    forall k', Fint k' -> k' <> k -> Z.abs (N - k * D) = Z.abs (N - k' * D) -> canon_even k.

  (* what a correct conversion of N/D returns *)
  Definition rounds_to_spec (N D : Z) (res : rres) : Prop :=
    (2 ^ prec f * 2 ^ jmax f * D <= N /\ res = RInf) \/        (* at or beyond 2^(emax+1): certainly infinite *)
    exists k, is_rne N D k /\ res = if k <? 2 ^ prec f * 2 ^ jmax f then RFin k else RInf.
End Spec.

(* the exact value of a decimal m * 10^e, scaled by 2^-emin, as a fraction *)
Definition scaled_dec (f : bfmt) (m e : Z) : Z * Z :=
  if 0 <=? e then (m * 10 ^ e * 2 ^ (- emin f), 1) else (m * 2 ^ (- emin f), 10 ^ (- e)).
