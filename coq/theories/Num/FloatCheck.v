(* C19 - per-output checkers for decimal <-> binary floating point conversion, over Z.
   A binary format is (prec, emin, jmax): finite non-negative values are  k * 2^emin  with
   k = m * 2^j, 0 <= m < 2^prec, 0 <= j <= jmax.   float64 = (53, -1074, 2045), float32 = (24, -149, 253).
   All reals are handled *scaled by 2^-emin* as fractions N/D of integers, so that a finite float is the
   integer k.  Executable definitions only; specification and proofs are in FloatSpec.v / FloatCheckProofs.v. *)
From Coq Require Import ZArith NArith Bool List Lia.
From SV.Num Require Import Dec.
Import ListNotations.
Open Scope Z_scope.

Record bfmt := mkFmt { prec : Z; emin : Z; jmax : Z }.
Definition f64 : bfmt := mkFmt 53 (-1074) 2045.
Definition f32 : bfmt := mkFmt 24 (-149) 253.

Definition hid (f : bfmt) : Z := 2 ^ (prec f - 1).
Definition inf_bits (f : bfmt) : Z := (jmax f + 2) * hid f.        (* exponent field all ones, fraction 0 *)
Definition sign_bit (f : bfmt) : Z := (jmax f + 3) * hid f.          (* 2^(width-1) *)

(* magnitude bits -> scaled integer k (None for inf/nan) *)
Definition k_of_bits (f : bfmt) (b : Z) : option Z :=
  let bexp := b / hid f in
  let frac := b mod hid f in
  if jmax f + 2 <=? bexp then None
  else if bexp =? 0 then Some frac
  else Some ((hid f + frac) * 2 ^ (bexp - 1)).

(* canonical exponent j of a scaled value k > 0 *)
Definition canon_j (f : bfmt) (k : Z) : Z := Z.max 0 (Z.log2 k - (prec f - 1)).

Definition bits_of_k (f : bfmt) (k : Z) : Z :=
  if k <? hid f then k
  else let j := canon_j f k in (j + 1) * hid f + (k / 2 ^ j - hid f).

(* result of a rounding: finite scaled integer, +infinity, or "the self-check failed" (never observed;
   makes soundness independent of how the exponent was guessed) *)
Inductive rres := RFin (k : Z) | RInf | RBad.

(* round to nearest, ties to even, of the non-negative rational num/den (num >= 0, den > 0).
   With N = num * 2^(-emin) the scaled numerator, j is the canonical exponent of the result
   (j = max 0 (floor(log2 (N/den)) - (prec-1))), a/b = N / (den * 2^j), m = a/b rounded half-even.
   j is guessed from the bit lengths and then *checked* (0 <= j, m0 < 2^prec, j = 0 or m0 >= 2^(prec-1)). *)
Definition frac_at (f : bfmt) (num den j : Z) : Z * Z :=
  let s := j + emin f in if 0 <=? s then (num, den * 2 ^ s) else (num * 2 ^ (- s), den).

Definition rne_frac (f : bfmt) (num den : Z) : rres :=
  if num =? 0 then RFin 0 else
  let j0 := Z.log2 num - Z.log2 den - emin f - (prec f - 1) in
  let j := if j0 <=? 0 then 0
           else let '(a, b) := frac_at f num den j0 in if a <? hid f * b then j0 - 1 else j0 in
  let '(a, b) := frac_at f num den j in
  let '(m0, r) := Z.div_eucl a b in
  if negb ((0 <=? j) && (m0 <? 2 ^ prec f) && ((j =? 0) || (hid f <=? m0))) then RBad else
  let m := if (b <? 2 * r) || ((2 * r =? b) && Z.odd m0) then m0 + 1 else m0 in
  if 2 ^ prec f * 2 ^ jmax f <=? m * 2 ^ j then RInf else RFin (m * 2 ^ j).

(* the decimal m * 10^e (m >= 0) as a fraction *)
Definition frac_dec (m e : Z) : Z * Z :=
  if 0 <=? e then (m * 10 ^ e, 1) else (m, 10 ^ (- e)).

(* shortcut for astronomically large / small exponents (the literal is not expanded):
   m * 10^e with m having nd digits lies in [10^(e+nd-1), 10^(e+nd)) *)
Definition rne_dec (f : bfmt) (m e : Z) : rres :=
  if m =? 0 then RFin 0
  else let nd := ndig m in
       if 400 <? e + nd then RInf
       else if e + nd <? -400 then RFin 0
       else let '(N, D) := frac_dec m e in rne_frac f N D.

(* expected bit pattern of the magnitude, re-decoded as a self-check *)
Definition bits_checked (f : bfmt) (k : Z) : option Z :=
  let b := bits_of_k f k in
  match k_of_bits f b with
  | Some k' => if (k' =? k) && (0 <=? b) then Some b else None
  | None => None
  end.

Inductive bres := BBits (b : Z) | BInf | BBad.

(* expected bit pattern (with sign) of a literal converted to the format *)
Definition nearest_bits (f : bfmt) (lit : list N) : bres :=
  let v := lit_decode lit in
  match rne_dec f (lv_man v) (lv_exp v) with
  | RInf => BInf
  | RBad => BBad
  | RFin k => match bits_checked f k with
              | Some b => BBits (b + (if lv_neg v then sign_bit f else 0))
              | None => BBad
              end
  end.

(* checker: [bits] is the correctly rounded value of the literal; [inf] tells that the implementation
   reported overflow instead of a value *)
Definition nearest_check (f : bfmt) (lit : list N) (inf : bool) (bits : Z) : bool :=
  match nearest_bits f lit with
  | BInf => inf
  | BBits b => negb inf && (b =? bits)
  | BBad => false
  end.

Definition nearest_double_check := nearest_check f64.
Definition nearest_single_check := nearest_check f32.

(* float32 obtained by rounding twice (decimal -> double -> single), what CVTSD2SS after vnumber computes *)
Definition double_rounded_single (lit : list N) : bres :=
  let v := lit_decode lit in
  match rne_dec f64 (lv_man v) (lv_exp v) with
  | RInf => BInf
  | RBad => BBad
  | RFin k64 =>
      match rne_frac f32 k64 (2 ^ 1074) with
      | RInf => BInf
      | RBad => BBad
      | RFin k32 => match bits_checked f32 k32 with
                    | Some b => BBits (b + (if lv_neg v then sign_bit f32 else 0))
                    | None => BBad
                    end
      end
  end.

(* ---- shortest round trip --------------------------------------------------------------------- *)
(* the exponent window in which rne_dec expands the decimal exactly (outside it answers by the shortcut) *)
Definition win (m e : Z) : bool := (-400 <=? e + ndig m) && (e + ndig m <=? 400).

(* does m*10^e (m >= 1) round to the float k ?  Some true / Some false are verified answers, None = no answer
   (self-check failed or outside the window) *)
Definition rt3 (f : bfmt) (k m e : Z) : option bool :=
  if (1 <=? m) && win m e then
    match rne_dec f m e with RFin k' => Some (k' =? k) | RInf => Some false | RBad => None end
  else None.

Definition rounds_to (f : bfmt) (k m e : Z) : bool :=
  match rt3 f k m e with Some true => true | _ => false end.
Definition rounds_not (f : bfmt) (k m e : Z) : bool :=
  match rt3 f k m e with Some false => true | _ => false end.

(* |m*10^e - k*2^emin| as a fraction *)
Definition dist_num (f : bfmt) (k m e : Z) : Z * Z :=
  let '(N, D) := frac_dec m e in (Z.abs (N * 2 ^ (- emin f) - k * D), D).

Definition closer_eq (f : bfmt) (k m e m' e' : Z) : bool :=
  let '(a, d1) := dist_num f k m e in
  let '(b, d2) := dist_num f k m' e' in
  a * d2 <=? b * d1.

(* a neighbour either provably does not round to k, or it does and is not nearer to k than (m, e) *)
Definition neighbour_ok (f : bfmt) (k m e m' e' : Z) : bool :=
  match rt3 f k m' e' with
  | Some false => true
  | Some true => closer_eq f k m e m' e'
  | None => false
  end.

(* [abits]: magnitude bits of a finite non-zero float; (sig, exp): the printed decimal, sig without trailing zero.
   The decimals with at most n = ndig sig digits form a discrete set; the neighbours of sig*10^exp in it are
   (sig-1)*10^exp (or 9*10^(exp-1) when sig = 1) and (sig+1)*10^exp; the decimals with fewer digits that enclose
   it are (sig/10)*10^(exp+1) and (sig/10+1)*10^(exp+1). *)
Definition shortest_check (f : bfmt) (abits sig exp : Z) : bool :=
  match k_of_bits f abits with
  | None => false
  | Some k =>
      (0 <? k) && (0 <? sig) && negb (sig mod 10 =? 0) &&
      rounds_to f k sig exp &&
      (if sig <? 10 then true
       else rounds_not f k (sig / 10) (exp + 1) && rounds_not f k (sig / 10 + 1) (exp + 1)) &&
      (let '(ml, el) := if sig =? 1 then (9, exp - 1) else (sig - 1, exp) in neighbour_ok f k sig exp ml el) &&
      neighbour_ok f k sig exp (sig + 1) exp
  end.

Definition shortest_roundtrip_check := shortest_check f64.
Definition shortest_roundtrip_check32 := shortest_check f32.

(* ---- reading a float text back: value and notation -------------------------------------------- *)
(* strip trailing zeros of the mantissa, adjusting the exponent *)
Fixpoint norm_fuel (fuel : nat) (m e : Z) : Z * Z :=
  match fuel with
  | O => (m, e)
  | S k => if (m =? 0) then (0, 0) else if m mod 10 =? 0 then norm_fuel k (m / 10) (e + 1) else (m, e)
  end.
Definition normalize (m e : Z) : Z * Z := norm_fuel (S (Z.to_nat (Z.log2 m))) m e.
