(* C19 - the shortcut of rne_dec for astronomically large / small decimal exponents is sound: a decimal with
   e + ndigits > 400 is beyond 2^(emax+1) (infinite), one with e + ndigits < -400 is below half the smallest
   subnormal (rounds to zero).  Hence the checkers' theorems hold without the window hypothesis. *)
From Coq Require Import ZArith NArith Bool List Lia.
From SV.Num Require Import Dec DecLemmas FloatCheck FloatSpec FloatCheckProofs FloatCheckSound FloatInterval
  ShortestSound FloatComplete ShortestComplete.
Import ListNotations.
Open Scope Z_scope.

(* formats whose exponent range is small compared with 10^400: float64 and float32 *)
Definition std_fmt (f : bfmt) : Prop := wf_fmt f /\ 0 <= prec f + jmax f + emin f <= 1320 /\ - emin f <= 1320.
Lemma std_f64 : std_fmt f64. Proof. unfold std_fmt, wf_fmt; cbn [prec emin jmax f64]; lia. Qed.
Lemma std_f32 : std_fmt f32. Proof. unfold std_fmt, wf_fmt; cbn [prec emin jmax f32]; lia. Qed.

Lemma pow2_1320 : 2 ^ 1320 <= 10 ^ 400. Proof. vm_compute. discriminate. Qed.
Lemma pow2_1321 : 2 * 2 ^ 1321 <= 10 ^ 401. Proof. vm_compute. discriminate. Qed.

Lemma rne_tiny : forall f N D, 2 <= prec f -> 0 <= N -> 0 < D -> 2 * N < D -> is_rne f N D 0.
Proof.
  intros f N D Hp HN HD H. split; [split|].
  - exists 0, 0. split; [split; [lia|apply Z.pow_pos_nonneg; lia]|]. split; lia.
  - intros k' Hk'. pose proof (Fint_nonneg f k' Hk'). rewrite Z.mul_0_l, Z.sub_0_r.
    destruct (Z.eq_dec k' 0) as [->|]; [rewrite Z.mul_0_l, Z.sub_0_r; lia|].
    assert (D <= k' * D) by nia. lia.
  - intros k' Hk' Hne Heq. exfalso. pose proof (Fint_nonneg f k' Hk'). rewrite Z.mul_0_l, Z.sub_0_r in Heq.
    assert (D <= k' * D) by nia. lia.
Qed.

Theorem rne_dec_sound_all : forall f m e, std_fmt f -> 0 <= m ->
  let '(N, D) := scaled_dec f m e in rounds_to_spec f N D (rne_dec f m e).
Proof.
  intros f m e (W & Hc & HE) Hm. pose proof W as (W1 & W2 & W3).
  destruct (Z.eq_dec m 0) as [->|Hm0].
  { apply (rne_dec_sound f 0 e _ W ltac:(lia) (or_introl eq_refl) eq_refl). apply rne_dec_not_bad; [exact W|lia]. }
  destruct (ndig_spec m ltac:(lia)) as (Hn1 & Hlo & Hhi). set (nd := ndig m) in *.
  destruct (Z_lt_le_dec 400 (e + nd)) as [Hbig | Hnb].
  - (* infinite *)
    unfold rne_dec. rewrite (proj2 (Z.eqb_neq _ _) Hm0). cbv zeta. fold nd. rewrite (proj2 (Z.ltb_lt _ _) Hbig).
    unfold scaled_dec. set (S := 2 ^ (- emin f)). set (c := prec f + jmax f + emin f) in *.
    assert (HS : 0 < S) by (apply Z.pow_pos_nonneg; lia).
    assert (Hbound : 2 ^ prec f * 2 ^ jmax f = 2 ^ c * S).
    { unfold S, c. rewrite <- !Z.pow_add_r by lia. f_equal. lia. }
    assert (Hc400 : 2 ^ c <= 10 ^ 400) by (apply Z.le_trans with (2 ^ 1320); [apply Z.pow_le_mono_r; lia|exact pow2_1320]).
    assert (Hm400 : 10 ^ 400 <= 10 ^ (nd - 1 + e)) by (apply Z.pow_le_mono_r; lia).
    destruct (0 <=? e) eqn:Ee; [apply Z.leb_le in Ee|apply Z.leb_gt in Ee]; (left; split; [|reflexivity]); rewrite Hbound.
    + rewrite Z.mul_1_r. apply Z.mul_le_mono_nonneg_r; [lia|].
      apply Z.le_trans with (10 ^ (nd - 1 + e)); [lia|]. rewrite Z.pow_add_r by lia.
      apply Z.mul_le_mono_nonneg_r; [apply Z.pow_nonneg; lia|lia].
    + replace (2 ^ c * S * 10 ^ (- e)) with ((2 ^ c * 10 ^ (- e)) * S) by ring. apply Z.mul_le_mono_nonneg_r; [lia|].
      apply Z.le_trans with (10 ^ (nd - 1)); [|lia].
      replace (nd - 1) with ((nd - 1 + e) + - e) by lia. rewrite Z.pow_add_r by lia.
      apply Z.mul_le_mono_nonneg_r; [apply Z.pow_nonneg; lia|lia].
  - destruct (Z_lt_le_dec (e + nd) (-400)) as [Hsmall | Hns].
    + (* zero *)
      unfold rne_dec. rewrite (proj2 (Z.eqb_neq _ _) Hm0). cbv zeta. fold nd. rewrite (proj2 (Z.ltb_ge _ _)) by lia.
      rewrite (proj2 (Z.ltb_lt _ _) Hsmall). unfold scaled_dec. rewrite (proj2 (Z.leb_gt _ _)) by lia.
      set (S := 2 ^ (- emin f)). assert (HS : 0 < S) by (apply Z.pow_pos_nonneg; lia).
      right. exists 0. split.
      * apply rne_tiny; [exact W1|apply Z.mul_nonneg_nonneg; lia|apply Z.pow_pos_nonneg; lia|].
        assert (HS2 : 2 * S <= 10 ^ 401).
        { apply Z.le_trans with (2 * 2 ^ 1321); [|exact pow2_1321]. apply Z.mul_le_mono_nonneg_l; [lia|].
          unfold S. apply Z.pow_le_mono_r; lia. }
        assert (Hp : 10 ^ 401 <= 10 ^ (- e - nd)) by (apply Z.pow_le_mono_r; lia).
        replace (- e) with (nd + (- e - nd)) by lia. rewrite Z.pow_add_r by lia.
        apply Z.lt_le_trans with (10 ^ nd * (2 * S)); [nia|]. apply Z.mul_le_mono_nonneg_l; [apply Z.pow_nonneg; lia|lia].
      * pose proof (bound_pos f W1 W3). rewrite (proj2 (Z.ltb_lt _ _)) by lia. reflexivity.
    + apply (rne_dec_sound f m e _ W Hm (or_intror (conj Hns Hnb)) eq_refl). apply rne_dec_not_bad; [exact W|lia].
Qed.

Lemma scaled_D_pos : forall f m e N D, scaled_dec f m e = (N, D) -> 0 < D.
Proof.
  intros f m e N D H. destruct (frac_dec m e) as [num den] eqn:Fd. destruct (frac_scaled f m e num den Fd) as [E Hd].
  rewrite H in E. inversion E; subst. exact Hd.
Qed.

Theorem rne_dec_complete_all : forall f m e res, std_fmt f -> 0 <= m ->
  (let '(N, D) := scaled_dec f m e in rounds_to_spec f N D res) -> rne_dec f m e = res.
Proof.
  intros f m e res Sf Hm Hs. pose proof (rne_dec_sound_all f m e Sf Hm) as Sd.
  destruct (scaled_dec f m e) as [N D] eqn:Es. destruct Sf as (W & _).
  apply (rounds_to_spec_unique f N D _ _ W (scaled_D_pos f m e N D Es) Sd Hs).
Qed.

(* the parsing-direction checker, for every literal *)
Theorem nearest_check_sound_all : forall f lit inf bits, std_fmt f ->
  let v := lit_decode lit in
  nearest_check f lit inf bits = true ->
  let '(N, D) := scaled_dec f (lv_man v) (lv_exp v) in
  if inf then rounds_to_spec f N D RInf
  else exists k b, bits = b + (if lv_neg v then sign_bit f else 0) /\ 0 <= b /\
                   k_of_bits f b = Some k /\ rounds_to_spec f N D (RFin k).
Proof.
  intros f lit inf bits Sf v H. unfold nearest_check, nearest_bits in H. fold v in H.
  pose proof (rne_dec_sound_all f (lv_man v) (lv_exp v) Sf (lit_man_nonneg lit)) as Sd.
  destruct (scaled_dec f (lv_man v) (lv_exp v)) as [N D].
  destruct (rne_dec f (lv_man v) (lv_exp v)) as [k| |]; [| |discriminate].
  - destruct (bits_checked f k) as [b|] eqn:Eb; [|discriminate].
    apply andb_true_iff in H as [H1 H2]. apply negb_true_iff in H1. apply Z.eqb_eq in H2. subst inf bits.
    destruct (bits_checked_sound f k b Eb) as [Hb Hk]. exists k, b. auto.
  - subst inf. exact Sd.
Qed.

Theorem nearest_check_complete_all : forall f lit inf bits, std_fmt f ->
  let v := lit_decode lit in
  (let '(N, D) := scaled_dec f (lv_man v) (lv_exp v) in
   match inf return Prop with
   | true => rounds_to_spec f N D RInf
   | false => exists k b, bits = b + (if lv_neg v then sign_bit f else 0) /\ 0 <= b /\
                          k_of_bits f b = Some k /\ rounds_to_spec f N D (RFin k)
   end) ->
  nearest_check f lit inf bits = true.
Proof.
  intros f lit inf bits Sf v H. unfold nearest_check, nearest_bits. fold v. pose proof Sf as (W & _).
  destruct (scaled_dec f (lv_man v) (lv_exp v)) as [N D] eqn:Es.
  destruct inf.
  - rewrite (rne_dec_complete_all f (lv_man v) (lv_exp v) RInf Sf (lit_man_nonneg lit)) by (rewrite Es; exact H). reflexivity.
  - destruct H as (k & b & Eb & Hb & Hk & Hr).
    rewrite (rne_dec_complete_all f (lv_man v) (lv_exp v) (RFin k) Sf (lit_man_nonneg lit)) by (rewrite Es; exact Hr).
    rewrite (bits_checked_complete f b k W Hb Hk). cbn [negb andb]. apply Z.eqb_eq. symmetry. exact Eb.
Qed.
