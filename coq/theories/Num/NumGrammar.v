(* C19 - models of the number scanners:
     do_skip_number / skip_number_1   (native/scanning.h; the scalar loop - the SSE/AVX2 blocks compute the same
                                       di/ei/si indices 16/32 bytes at a time)
     alg.IsValidNumber                (internal/encoder/alg/mapiter.go, guards json.Number on the encoding side)
   Indices are Z with -1 = "not seen", exactly as in the C text. *)
From Coq Require Import ZArith NArith Bool List Lia.
From SV.Num Require Import Dec.
Import ListNotations.
Open Scope Z_scope.

Inductive scan_res :=
| ScanErr (r : Z)                     (* early return value (negative) *)
| ScanEnd (len di ei si : Z).         (* reached check_index with sp - ss = len *)

(* check_sidx *)
Definition check_sidx (iv k : Z) : option Z := if iv =? -1 then Some k else None.

Fixpoint scan_loop (l : list N) (k di ei si : Z) : scan_res :=
  match l with
  | [] => ScanEnd k di ei si
  | c :: t =>
      if is_digit c then scan_loop t (k + 1) di ei si
      else if is_dot c then
        match check_sidx di k with Some d => scan_loop t (k + 1) d ei si | None => ScanErr (- (k + 1)) end
      else if is_exp c then
        match check_sidx ei k with Some e => scan_loop t (k + 1) di e si | None => ScanErr (- (k + 1)) end
      else if is_sign c then
        match check_sidx si k with Some s => scan_loop t (k + 1) di ei s | None => ScanErr (- (k + 1)) end
      else ScanEnd k di ei si
  end.

Definition check_index (len di ei si : Z) : Z :=
  if (di =? 0) || (si =? 0) || (ei =? 0) then -1
  else if (di =? len - 1) || (si =? len - 1) || (ei =? len - 1) then - len
  else if (0 <? si) && negb (ei =? si - 1) then - si - 1
  else if (0 <=? di) && (0 <=? ei) && (ei - 1 <? di) then - di - 1
  else if (0 <=? di) && (0 <=? ei) && (di =? ei - 1) then - ei - 1
  else len.

Definition do_skip_number (l : list N) : Z :=
  match l with
  | [] => -1
  | c :: t =>
      if (c =? c_0)%N && match t with [] => true | c1 :: _ => negb (is_dot c1 || is_exp c1) end then 1
      else match scan_loop l 0 (-1) (-1) (-1) with
           | ScanErr r => r
           | ScanEnd len di ei si => check_index len di ei si
           end
  end.

(* skip_number_1, for 0 <= p < len.  Result: (return value, new *p). *)
Definition skip_number (s : list N) (p : nat) : Z * Z :=
  let rest := skipn p s in
  match rest with
  | [] => (- 1, Z.of_nat p)
  | c :: t =>
      let neg := (c =? c_minus)%N in
      let body := if neg then t else rest in
      let sp := Z.of_nat p + (if neg then 1 else 0) in
      match body with
      | [] => (- 1, sp)                                         (* -ERR_EOF *)
      | d :: _ =>
          if negb (is_digit d) then (- 2, sp)                   (* -ERR_INVAL *)
          else let r := do_skip_number body in
               if r <? 0 then (- 2, sp - (r + 1)) else (Z.of_nat p, sp + r)
      end
  end.

(* ---- alg.IsValidNumber, statement by statement ---------------------------------------------- *)
Fixpoint drop_digits (l : list N) : list N :=
  match l with
  | c :: t => if is_digit c then drop_digits t else l
  | [] => []
  end.

Definition ivn_exp (s : list N) : bool :=
  (* e or E followed by an optional - or + and 1 or more digits *)
  match s with
  | e :: (c1 :: _) as s1 =>          (* len(s) >= 2 *)
      if is_exp e then
        if is_sign c1 then
          match tl s1 with
          | [] => false
          | s2 => match drop_digits s2 with [] => true | _ => false end
          end
        else match drop_digits s1 with [] => true | _ => false end
      else false                     (* not at the end *)
  | [] => true
  | _ => false
  end.

Definition ivn_frac (s : list N) : bool :=
  match s with
  | d :: c1 :: t => if is_dot d && is_digit c1 then ivn_exp (drop_digits t) else ivn_exp s
  | _ => ivn_exp s
  end.

Definition is_valid_number (s : list N) : bool :=
  match s with
  | [] => false
  | c :: t =>
      let s1 := if (c =? c_minus)%N then t else s in
      match s1 with
      | [] => false
      | d :: t1 =>
          if (d =? c_0)%N then ivn_frac t1
          else if is_digit19 d then ivn_frac (drop_digits t1)
          else false
      end
  end.
