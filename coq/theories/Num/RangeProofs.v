(* C19 - narrow_range_exact: the range checks of the jitdec assembler accept exactly the values of the
   destination type, and the narrow store then keeps the value unchanged (never wraps, never truncates). *)
From Coq Require Import ZArith Bool Lia.
From SV.Num Require Import Range.
Open Scope Z_scope.

Lemma range_signed_CX_spec : forall a b iv, range_signed_CX a b iv = true <-> a <= iv <= b.
Proof.
  intros. unfold range_signed_CX. rewrite andb_true_iff, !negb_true_iff, !Z.ltb_ge. lia.
Qed.

Lemma as_signed64_neg : forall u, 0 <= u < 2 ^ 64 -> (as_signed64 u <? 0) = (2 ^ 63 <=? u).
Proof.
  intros u H. unfold as_signed64. destruct (u <? 2 ^ 63) eqn:E.
  - apply Z.ltb_lt in E. rewrite (proj2 (Z.ltb_ge _ _)) by lia. symmetry. apply Z.leb_gt. lia.
  - apply Z.ltb_ge in E. rewrite (proj2 (Z.ltb_lt _ _)) by lia. symmetry. apply Z.leb_le. lia.
Qed.

Lemma range_unsigned_CX_spec : forall v u, 0 <= u < 2 ^ 64 -> 0 <= v < 2 ^ 63 ->
  (range_unsigned_CX v u = true <-> u <= v).
Proof.
  intros v u Hu Hv. unfold range_unsigned_CX. rewrite as_signed64_neg by assumption.
  rewrite andb_true_iff, !negb_true_iff, Z.leb_gt, Z.ltb_ge. lia.
Qed.

Lemma range_uint32_CX_spec : forall u, 0 <= u < 2 ^ 64 -> (range_uint32_CX u = true <-> u <= 2 ^ 32 - 1).
Proof.
  intros u Hu. unfold range_uint32_CX. rewrite as_signed64_neg by assumption.
  rewrite andb_true_iff, negb_true_iff, Z.leb_gt, Z.eqb_eq. split.
  - intros [_ H]. assert (0 <= u mod 2 ^ 32 < 2 ^ 32) by (apply Z.mod_pos_bound; lia). lia.
  - intros H. split; [lia|]. symmetry. apply Z.mod_small. lia.
Qed.

Definition width_ok (w : Z) : Prop := w = 8 \/ w = 16 \/ w = 32 \/ w = 64.

(* signed destinations: iv is any int64 value produced by vsigned *)
Theorem narrow_signed_exact : forall w iv, width_ok w -> - 2 ^ 63 <= iv < 2 ^ 63 ->
  (signed_ok w iv = true <-> - 2 ^ (w - 1) <= iv <= 2 ^ (w - 1) - 1) /\
  (signed_ok w iv = true -> store_signed w iv = iv).
Proof.
  intros w iv Hw Hiv.
  assert (Hspec : signed_ok w iv = true <-> - 2 ^ (w - 1) <= iv <= 2 ^ (w - 1) - 1).
  { unfold signed_ok. destruct Hw as [-> | [-> | [-> | -> ]]]; cbn [Z.eqb Pos.eqb];
      try (rewrite range_signed_CX_spec; unfold int_lo, int_hi; reflexivity).
    split; [intros _; cbn; lia | reflexivity]. }
  split; [exact Hspec|]. intros H. apply Hspec in H. unfold store_signed.
  assert (Hw' : 0 < w) by (destruct Hw as [-> | [-> | [-> | -> ]]]; lia).
  assert (E : 2 ^ w = 2 * 2 ^ (w - 1)) by (rewrite <- Z.pow_succ_r by lia; f_equal; lia).
  assert (P : 0 < 2 ^ (w - 1)) by (apply Z.pow_pos_nonneg; lia).
  destruct (Z_lt_le_dec iv 0).
  - assert (M : iv mod 2 ^ w = iv + 2 ^ w).
    { symmetry. apply Z.mod_unique with (-1); lia. }
    rewrite M. rewrite (proj2 (Z.ltb_ge _ _)) by lia. lia.
  - rewrite Z.mod_small by lia. rewrite (proj2 (Z.ltb_lt _ _)) by lia. reflexivity.
Qed.

(* unsigned destinations: u is any uint64 value produced by vunsigned *)
Theorem narrow_unsigned_exact : forall w u, width_ok w -> 0 <= u < 2 ^ 64 ->
  (unsigned_ok w u = true <-> u <= 2 ^ w - 1) /\
  (unsigned_ok w u = true -> store_unsigned w u = u).
Proof.
  intros w u Hw Hu.
  assert (Hspec : unsigned_ok w u = true <-> u <= 2 ^ w - 1).
  { unfold unsigned_ok. destruct Hw as [-> | [-> | [-> | -> ]]]; cbn [Z.eqb Pos.eqb].
    - rewrite range_unsigned_CX_spec; unfold uint_hi; [reflexivity|lia|cbn; lia].
    - rewrite range_unsigned_CX_spec; unfold uint_hi; [reflexivity|lia|cbn; lia].
    - apply range_uint32_CX_spec; lia.
    - split; [intros _; lia | reflexivity]. }
  split; [exact Hspec|]. intros H. apply Hspec in H. unfold store_unsigned.
  apply Z.mod_small. lia.
Qed.

(* non-vacuity *)
Example narrow_signed_example : signed_ok 8 (-128) = true /\ signed_ok 8 128 = false /\ store_signed 8 (-128) = -128.
Proof. vm_compute. auto. Qed.
Example narrow_unsigned_example : unsigned_ok 32 4294967295 = true /\ unsigned_ok 32 4294967296 = false /\
  unsigned_ok 16 (2 ^ 64 - 1) = false.
Proof. vm_compute. auto. Qed.
