(* C19 - model of native/scanning.h `vinteger` (vsigned.c / vunsigned.c).
   Follows the macro text: init_ret, check_eof, check_sign, check_digit, check_leading_zero,
   parse_integer_digits with __builtin_mul_overflow / __builtin_add_overflow, the '.'/'e'/'E' check.
   The input is the byte list [s] (src->buf[0..len)), [oob] is the byte that happens to follow the buffer
   (check_leading_zero reads s[i+1] without a bound check), [p] the start offset. *)
From Coq Require Import ZArith NArith Bool List Lia.
From SV.Num Require Import Dec.
Import ListNotations.
Open Scope Z_scope.

Definition V_INTEGER : Z := 9.
Definition V_DOUBLE : Z := 8.
Definition ERR_EOF : Z := 1.
Definition ERR_INVAL : Z := 2.
Definition ERR_OVERFLOW : Z := 5.
Definition ERR_NUMBER_FMT : Z := 6.
Definition ERR_FLOAT_INF : Z := 8.

Record vres := mkV { v_vt : Z; v_p : nat; v_iv : Z }.

(* s[i] with the out-of-bounds convention described above *)
Definition byte_at (s : list N) (oob : N) (i : nat) : N :=
  if Nat.eqb i (length s) then oob else nth i s 0%N.

Definition in_rng (lo hi v : Z) : bool := (lo <=? v) && (v <=? hi).

(* parse_integer_digits: returns (ovf, val, i).  On a multiplication overflow `i` is not advanced
   (short-circuit ||), on an addition overflow it already is. *)
Fixpoint parse_integer_digits (lo hi sgn val : Z) (i : nat) (l : list N) : bool * Z * nat :=
  match l with
  | c :: t =>
      if is_digit c then
        let v10 := val * 10 in
        if in_rng lo hi v10 then
          let v := v10 + sgn * dval c in
          if in_rng lo hi v then parse_integer_digits lo hi sgn v (S i) t
          else (true, val, S i)
        else (true, val, i)
      else (false, val, i)
  | [] => (false, val, i)
  end.

Definition is_dot_or_exp (c : N) : bool := is_dot c || is_exp c.

(* the body after check_sign: i is the index of the first digit candidate *)
Definition vinteger_body (lo hi sgn : Z) (s : list N) (oob : N) (i : nat) : vres :=
  let n := length s in
  let c := nth i s 0%N in
  if negb (is_digit c) then mkV (- ERR_INVAL) i 0                     (* check_digit *)
  else if (c =? c_0)%N && negb (is_dot_or_exp (byte_at s oob (S i)))  (* check_leading_zero *)
  then mkV V_INTEGER (S i) 0
  else
    let '(ovf, val, j) := parse_integer_digits lo hi sgn 0 i (skipn i s) in
    if ovf then mkV (- ERR_OVERFLOW) (j - 1) 0
    else if (j <? n)%nat && is_dot_or_exp (nth j s 0%N) then mkV (- ERR_NUMBER_FMT) j 0
    else mkV V_INTEGER j val.

Definition I64_MIN : Z := - 2 ^ 63.
Definition I64_MAX : Z := 2 ^ 63 - 1.
Definition U64_MAX : Z := 2 ^ 64 - 1.

Definition vsigned (s : list N) (oob : N) (p : nat) : vres :=
  let n := length s in
  if (n <=? p)%nat then mkV (- ERR_EOF) n 0
  else if (nth p s 0%N =? c_minus)%N then
    if (n <=? S p)%nat then mkV (- ERR_EOF) n 0
    else vinteger_body I64_MIN I64_MAX (-1) s oob (S p)
  else vinteger_body I64_MIN I64_MAX 1 s oob p.

(* iv is reported as the unsigned 64-bit value *)
Definition vunsigned (s : list N) (oob : N) (p : nat) : vres :=
  let n := length s in
  if (n <=? p)%nat then mkV (- ERR_EOF) n 0
  else if (nth p s 0%N =? c_minus)%N then mkV (- ERR_NUMBER_FMT) p 0   (* on_neg: *p = i - 1 *)
  else vinteger_body 0 U64_MAX 1 s oob p.
