(* C19 - soundness of shortest_check, full statement: an accepted (bits, sig, exp) is a decimal that converts
   back to the float, no decimal with fewer digits does, and none with the same number of digits is nearer. *)
From Coq Require Import ZArith NArith Bool List Lia.
From SV.Num Require Import Dec DecLemmas FloatCheck FloatSpec FloatCheckProofs FloatCheckSound FloatInterval.
Import ListNotations.
Open Scope Z_scope.

(* ---- number of decimal digits --------------------------------------------------------------------- *)
Lemma ndig_fuel_spec : forall fuel v, 1 <= v < 2 ^ Z.of_nat fuel ->
  1 <= ndig_fuel fuel v /\ 10 ^ (ndig_fuel fuel v - 1) <= v < 10 ^ ndig_fuel fuel v.
Proof.
  induction fuel as [|k IH]; intros v H; [cbn in H; lia|]. cbn [ndig_fuel].
  destruct (v <? 10) eqn:E; [apply Z.ltb_lt in E|apply Z.ltb_ge in E].
  - cbn. lia.
  - assert (Hq : 1 <= v / 10 < 2 ^ Z.of_nat k).
    { split; [apply Z.div_le_lower_bound; lia|]. apply Z.div_lt_upper_bound; [lia|].
      rewrite Nat2Z.inj_succ, Z.pow_succ_r in H by lia. lia. }
    destruct (IH _ Hq) as (A & B & C). set (d := ndig_fuel k (v / 10)) in *.
    split; [lia|]. replace (1 + d - 1) with (Z.succ (d - 1)) by lia. replace (1 + d) with (Z.succ d) by lia.
    rewrite !Z.pow_succ_r by lia. pose proof (Z.div_mod v 10). pose proof (Z.mod_pos_bound v 10). lia.
Qed.

Lemma ndig_spec : forall v, 1 <= v -> 1 <= ndig v /\ 10 ^ (ndig v - 1) <= v < 10 ^ ndig v.
Proof.
  intros v H. unfold ndig. apply ndig_fuel_spec. split; [exact H|].
  rewrite Nat2Z.inj_succ, Z2Nat.id by apply Z.log2_nonneg. apply Z.log2_spec. lia.
Qed.

Lemma ndig_unique : forall v n, 1 <= n -> 10 ^ (n - 1) <= v < 10 ^ n -> ndig v = n.
Proof.
  intros v n Hn Hv. assert (1 <= v) by (pose proof (Z.pow_pos_nonneg 10 (n - 1)); lia).
  destruct (ndig_spec v H) as (A & B & C). set (L := ndig v) in *.
  destruct (Z.lt_trichotomy L n) as [Hlt | [Heq | Hgt]]; [exfalso|exact Heq|exfalso].
  - assert (10 ^ L <= 10 ^ (n - 1)) by (apply Z.pow_le_mono_r; lia). lia.
  - assert (10 ^ n <= 10 ^ (L - 1)) by (apply Z.pow_le_mono_r; lia). lia.
Qed.

Lemma ndig_lt_pow : forall v n, 1 <= v -> ndig v <= n -> v < 10 ^ n.
Proof.
  intros v n H Hn. destruct (ndig_spec v H) as (A & B & C).
  assert (10 ^ ndig v <= 10 ^ n) by (apply Z.pow_le_mono_r; lia). lia.
Qed.

(* ---- "m * 10^e rounds to the float k" ---------------------------------------------------------------- *)
Definition RTd (f : bfmt) (k m e : Z) : Prop :=
  let '(N, D) := scaled_dec f m e in rounds_to_spec f N D (RFin k).

Definition closer (f : bfmt) (k m e m' e' : Z) : Prop :=
  let '(a, d1) := dist_num f k m e in let '(b, d2) := dist_num f k m' e' in a * d2 <= b * d1.

Section Common.
  Variable f : bfmt.
  Hypothesis W : wf_fmt f.
  Variable B : Z.            (* common decimal exponent, at most every exponent in sight and at most 0 *)
  Hypothesis HB : B <= 0.

  Let S := 2 ^ (- emin f).
  Let T := 10 ^ (- B).
  Definition Iv (m e : Z) : Z := m * 10 ^ (e - B).
  Definition Jv (m e : Z) : Z := Iv m e * S.
  Let bound := 2 ^ prec f * 2 ^ jmax f.

  Lemma S_pos : 0 < S. Proof. destruct W as (_ & ? & _). apply Z.pow_pos_nonneg; lia. Qed.
  Lemma T_pos : 0 < T. Proof. apply Z.pow_pos_nonneg; lia. Qed.

  Lemma scaled_common : forall m e N D, B <= e -> scaled_dec f m e = (N, D) -> N * T = Jv m e * D /\ 0 < D.
  Proof.
    intros m e N D He H. unfold scaled_dec in H. fold S in H. unfold Jv, Iv, T.
    destruct (0 <=? e) eqn:E; [apply Z.leb_le in E|apply Z.leb_gt in E]; inversion H; subst N D; clear H.
    - split; [|lia]. replace (e - B) with (e + - B) by lia. rewrite Z.pow_add_r by lia. ring.
    - split; [|apply Z.pow_pos_nonneg; lia].
      replace (- B) with ((e - B) + - e) by lia. rewrite Z.pow_add_r by lia. ring.
  Qed.

  Lemma bound_Fint : Fint f bound.
  Proof.
    destruct W as (W1 & _ & W3). exists (2 ^ (prec f - 1)), (jmax f + 1).
    pose proof (P_2H f W1) as PH. cbv zeta in PH. pose proof (Hh_pos f W1).
    split; [lia|]. split; [lia|]. unfold bound. rewrite PH, Z.pow_add_r by lia. ring.
  Qed.

  Lemma RTd_J : forall k m e, B <= e -> (RTd f k m e <-> is_rne f (Jv m e) T k /\ k < bound).
  Proof.
    intros k m e He. unfold RTd. destruct (scaled_dec f m e) as [N D] eqn:Es.
    destruct (scaled_common m e N D He Es) as [Hrel HD]. pose proof T_pos as HT. destruct W as (W1 & _ & _).
    unfold rounds_to_spec. fold bound. split.
    - intros [[_ Hc] | (k0 & Hk0 & Hc)]; [discriminate|].
      destruct (k0 <? bound) eqn:E; [|discriminate]. inversion Hc; subst k0. apply Z.ltb_lt in E.
      split; [|exact E]. apply (is_rne_scale f N D (Jv m e) T k HD HT Hrel Hk0).
    - intros [Hr Hlt]. right. exists k. split; [apply (is_rne_scale f (Jv m e) T N D k HT HD (eq_sym Hrel) Hr)|].
      rewrite (proj2 (Z.ltb_lt _ _)) by exact Hlt. reflexivity.
  Qed.

  (* the verified answers of rt3 *)
  Lemma win_window : forall m e, win m e = true -> in_window m e.
  Proof. intros m e H. unfold win in H. apply andb_true_iff in H as [A C]. apply Z.leb_le in A, C. right. lia. Qed.

  Lemma rt3_yes : forall k m e, rt3 f k m e = Some true -> RTd f k m e /\ 1 <= m.
  Proof.
    intros k m e H. unfold rt3 in H. destruct ((1 <=? m) && win m e) eqn:E; [|discriminate].
    apply andb_true_iff in E as [E1 E2]. apply Z.leb_le in E1. split; [|exact E1].
    pose proof (rne_dec_sound f m e _ W ltac:(lia) (win_window _ _ E2) eq_refl) as Sd.
    unfold RTd. destruct (scaled_dec f m e) as [N D].
    destruct (rne_dec f m e) as [k'| |]; try discriminate.
    inversion H as [E]. apply Z.eqb_eq in E. subst k'. apply Sd. discriminate.
  Qed.

  Lemma rt3_no : forall k m e, B <= e -> rt3 f k m e = Some false -> ~ RTd f k m e.
  Proof.
    intros k m e He H HR. unfold rt3 in H. destruct ((1 <=? m) && win m e) eqn:E; [|discriminate].
    apply andb_true_iff in E as [E1 E2]. apply Z.leb_le in E1.
    pose proof (rne_dec_sound f m e _ W ltac:(lia) (win_window _ _ E2) eq_refl) as Sd.
    destruct (proj1 (RTd_J k m e He) HR) as [Hk Hkb].
    destruct (scaled_dec f m e) as [N D] eqn:Es.
    destruct (scaled_common m e N D He Es) as [Hrel HD]. pose proof T_pos as HT. destruct W as (W1 & _ & _).
    assert (HkN : is_rne f N D k) by (apply (is_rne_scale f (Jv m e) T N D k HT HD (eq_sym Hrel) Hk)).
    destruct (rne_dec f m e) as [k'| |]; try discriminate.
    - inversion H as [E]. apply Z.eqb_neq in E. specialize (Sd ltac:(discriminate)).
      destruct Sd as [[_ Hc] | (k0 & Hk0 & Hc)]; [discriminate|]. fold bound in Hc.
      destruct (k0 <? bound); [|discriminate]. inversion Hc; subst k0.
      apply E. apply (is_rne_unique f W1 N D k' k HD Hk0 HkN).
    - specialize (Sd ltac:(discriminate)). destruct Sd as [[Hbig _] | (k0 & Hk0 & Hc)].
      + fold bound in Hbig. destruct HkN as [[_ Hn] _]. specialize (Hn bound bound_Fint).
        assert (k * D < bound * D) by (apply Z.mul_lt_mono_pos_r; lia). lia.
      + fold bound in Hc. destruct (k0 <? bound) eqn:E; [discriminate|]. apply Z.ltb_ge in E.
        pose proof (is_rne_unique f W1 N D k0 k HD Hk0 HkN). lia.
  Qed.
End Common.

(* ---- decimals on the common scale --------------------------------------------------------------------- *)
Lemma p10_pos : forall a, 0 <= a -> 0 < 10 ^ a.
Proof. intros. apply Z.pow_pos_nonneg; lia. Qed.

Lemma Iv_shift : forall B m e, B <= e -> Iv B m (e + 1) = Iv B (10 * m) e.
Proof. intros. unfold Iv. replace (e + 1 - B) with (Z.succ (e - B)) by lia. rewrite Z.pow_succ_r by lia. ring. Qed.

Lemma Iv_le : forall B m m' e, B <= e -> m <= m' -> Iv B m e <= Iv B m' e.
Proof. intros. unfold Iv. apply Z.mul_le_mono_nonneg_r; [apply Z.pow_nonneg; lia|assumption]. Qed.

Lemma Iv_lt : forall B m m' e, B <= e -> m < m' -> Iv B m e < Iv B m' e.
Proof. intros. unfold Iv. apply Z.mul_lt_mono_pos_r; [apply p10_pos; lia|assumption]. Qed.

Lemma Iv_multiple : forall B t k e, B <= e <= k -> Iv B t k = Iv B (t * 10 ^ (k - e)) e.
Proof. intros. unfold Iv. replace (k - B) with ((k - e) + (e - B)) by lia. rewrite Z.pow_add_r by lia. ring. Qed.

Lemma Iv_below : forall B t k e X, B <= k <= e -> 0 <= t < X -> Iv B t k < X * 10 ^ (e - B).
Proof.
  intros B t k e X H Ht. unfold Iv.
  assert (10 ^ (k - B) <= 10 ^ (e - B)) by (apply Z.pow_le_mono_r; lia).
  pose proof (p10_pos (k - B) ltac:(lia)). pose proof (p10_pos (e - B) ltac:(lia)).
  apply Z.le_lt_trans with (t * 10 ^ (e - B)); [apply Z.mul_le_mono_nonneg_l; lia|apply Z.mul_lt_mono_pos_r; lia].
Qed.

(* every decimal with fewer digits lies outside ( (sig/10) * 10^(exp+1), (sig/10 + 1) * 10^(exp+1) ) *)
Lemma fewer_digits_outside : forall B sig exp n t k, B <= k -> B <= exp -> 2 <= n ->
  10 ^ (n - 1) <= sig < 10 ^ n -> 1 <= t < 10 ^ (n - 1) ->
  Iv B t k <= Iv B (sig / 10) (exp + 1) \/ Iv B (sig / 10 + 1) (exp + 1) <= Iv B t k.
Proof.
  intros B sig exp n t k Hk He Hn Hs Ht.
  assert (Ha : 10 ^ (n - 2) <= sig / 10).
  { apply Z.div_le_lower_bound; [lia|]. replace (n - 1) with (Z.succ (n - 2)) in Hs by lia.
    rewrite Z.pow_succ_r in Hs by lia. lia. }
  destruct (Z_le_gt_dec (exp + 1) k) as [Hge | Hlt].
  - rewrite (Iv_multiple B t k (exp + 1)) by lia. set (u := t * 10 ^ (k - (exp + 1))).
    destruct (Z_le_gt_dec u (sig / 10)); [left|right]; apply Iv_le; lia.
  - left. apply Z.lt_le_incl. apply Z.lt_le_trans with (10 ^ (n - 1) * 10 ^ (exp - B)).
    + apply Iv_below; lia.
    + rewrite Iv_shift by lia. unfold Iv. apply Z.mul_le_mono_nonneg_r; [apply Z.pow_nonneg; lia|].
      replace (n - 1) with (Z.succ (n - 2)) by lia. rewrite Z.pow_succ_r by lia. lia.
Qed.

Definition lower_nb (sig exp : Z) : Z * Z := if sig =? 1 then (9, exp - 1) else (sig - 1, exp).

(* every decimal with at most n digits is below the lower neighbour, equal, or above the upper neighbour *)
Lemma same_digits_outside : forall B sig exp n t k, B <= k -> B <= exp - 1 -> 1 <= n ->
  10 ^ (n - 1) <= sig < 10 ^ n -> sig mod 10 <> 0 -> 1 <= t < 10 ^ n ->
  let '(ml, el) := lower_nb sig exp in
  Iv B t k <= Iv B ml el \/ Iv B t k = Iv B sig exp \/ Iv B (sig + 1) exp <= Iv B t k.
Proof.
  intros B sig exp n t k Hk He Hn Hs Hm Ht. unfold lower_nb.
  destruct (Z_le_gt_dec exp k) as [Hge | Hlt].
  - rewrite (Iv_multiple B t k exp) by lia. set (u := t * 10 ^ (k - exp)).
    assert (1 <= u) by (unfold u; pose proof (p10_pos (k - exp) ltac:(lia)); nia).
    destruct (Z.lt_trichotomy u sig) as [L | [E | G]].
    + destruct (sig =? 1) eqn:E1; [apply Z.eqb_eq in E1; lia|]. left. apply Iv_le; lia.
    + destruct (sig =? 1); right; left; rewrite E; reflexivity.
    + destruct (sig =? 1); right; right; apply Iv_le; lia.
  - (* a finer grid below: the value is below 10^n * 10^(exp-1), hence at most the lower neighbour *)
    assert (Hb : Iv B t k < 10 ^ n * 10 ^ (exp - 1 - B)) by (apply Iv_below; lia).
    pose proof (p10_pos (exp - 1 - B) ltac:(lia)) as PY.
    destruct (sig =? 1) eqn:E1.
    + apply Z.eqb_eq in E1. subst sig. left.
      assert (n = 1).
      { destruct (Z.eq_dec n 1); [assumption|exfalso]. assert (10 ^ 1 <= 10 ^ (n - 1)) by (apply Z.pow_le_mono_r; lia). lia. }
      subst n. assert (t <= 9) by (change (10 ^ 1) with 10 in Ht; lia).
      unfold Iv in *. assert (10 ^ (k - B) <= 10 ^ (exp - 1 - B)) by (apply Z.pow_le_mono_r; lia).
      pose proof (p10_pos (k - B) ltac:(lia)).
      apply Z.le_trans with (t * 10 ^ (exp - 1 - B)); [apply Z.mul_le_mono_nonneg_l; lia|apply Z.mul_le_mono_nonneg_r; lia].
    + apply Z.eqb_neq in E1. left.
      assert (Hs1 : 10 ^ (n - 1) < sig).
      { destruct (Z.eq_dec sig (10 ^ (n - 1))) as [E|]; [exfalso|lia].
        destruct (Z.eq_dec n 1) as [->|]; [cbn in E; lia|].
        apply Hm. rewrite E. replace (n - 1) with (Z.succ (n - 2)) by lia. rewrite Z.pow_succ_r by lia.
        rewrite Z.mul_comm. apply Z.mod_mul. lia. }
      apply Z.lt_le_incl. apply Z.lt_le_trans with (10 ^ n * 10 ^ (exp - 1 - B)); [exact Hb|].
      replace exp with (exp - 1 + 1) at 2 by lia. rewrite Iv_shift by lia. unfold Iv.
      apply Z.mul_le_mono_nonneg_r; [lia|]. replace n with (Z.succ (n - 1)) at 1 by lia. rewrite Z.pow_succ_r by lia. lia.
Qed.

(* distances on the common scale *)
Lemma closer_J : forall f B k m e m' e', wf_fmt f -> B <= 0 -> B <= e -> B <= e' ->
  (closer f k m e m' e' <->
   Z.abs (Jv f B m e - k * 10 ^ (- B)) <= Z.abs (Jv f B m' e' - k * 10 ^ (- B))).
Proof.
  intros f B k m e m' e' W HB He He'. unfold closer, dist_num.
  destruct (frac_dec m e) as [n1 d1] eqn:F1. destruct (frac_dec m' e') as [n2 d2] eqn:F2.
  destruct (frac_scaled f m e n1 d1 F1) as [S1 D1]. destruct (frac_scaled f m' e' n2 d2 F2) as [S2 D2].
  destruct (scaled_common f B HB m e _ _ He S1) as [R1 _]. destruct (scaled_common f B HB m' e' _ _ He' S2) as [R2 _].
  set (T := 10 ^ (- B)) in *. assert (HT : 0 < T) by (apply p10_pos; lia).
  set (a := Z.abs (n1 * 2 ^ (- emin f) - k * d1)). set (b := Z.abs (n2 * 2 ^ (- emin f) - k * d2)).
  assert (Ea : a * T = d1 * Z.abs (Jv f B m e - k * T)).
  { unfold a. rewrite <- (Z.abs_eq T) at 1 by lia. rewrite <- (Z.abs_eq d1) at 2 by lia. rewrite <- !Z.abs_mul. f_equal.
    ring_simplify. rewrite R1. ring. }
  assert (Eb : b * T = d2 * Z.abs (Jv f B m' e' - k * T)).
  { unfold b. rewrite <- (Z.abs_eq T) at 1 by lia. rewrite <- (Z.abs_eq d2) at 2 by lia. rewrite <- !Z.abs_mul. f_equal.
    ring_simplify. rewrite R2. ring. }
  set (x := Z.abs (Jv f B m e - k * T)) in *. set (y := Z.abs (Jv f B m' e' - k * T)) in *.
  assert (Hd : 0 < d1 * d2) by (apply Z.mul_pos_pos; lia).
  split; intros H.
  - apply (mul_le_cancel_r _ _ (d1 * d2) Hd).
    replace (x * (d1 * d2)) with ((d1 * x) * d2) by ring. replace (y * (d1 * d2)) with ((d2 * y) * d1) by ring.
    rewrite <- Ea, <- Eb. replace (a * T * d2) with ((a * d2) * T) by ring. replace (b * T * d1) with ((b * d1) * T) by ring.
    apply Z.mul_le_mono_nonneg_r; lia.
  - apply (mul_le_cancel_r _ _ T HT).
    replace (a * d2 * T) with ((a * T) * d2) by ring. replace (b * d1 * T) with ((b * T) * d1) by ring.
    rewrite Ea, Eb. replace (d1 * x * d2) with (x * (d1 * d2)) by ring. replace (d2 * y * d1) with (y * (d1 * d2)) by ring.
    apply Z.mul_le_mono_nonneg_r; lia.
Qed.

Lemma closer_eq_spec : forall f k m e m' e', closer_eq f k m e m' e' = true <-> closer f k m e m' e'.
Proof.
  intros. unfold closer_eq, closer. destruct (dist_num f k m e) as [a d1]. destruct (dist_num f k m' e') as [b d2].
  apply Z.leb_le.
Qed.

Lemma Jv_le : forall f B m e m' e', wf_fmt f -> Iv B m e <= Iv B m' e' -> Jv f B m e <= Jv f B m' e'.
Proof.
  intros f B m e m' e' (_ & W2 & _) H. unfold Jv. apply Z.mul_le_mono_nonneg_r; [apply Z.pow_nonneg; lia|exact H].
Qed.

Lemma Jv_lt : forall f B m e m' e', wf_fmt f -> Iv B m e < Iv B m' e' -> Jv f B m e < Jv f B m' e'.
Proof.
  intros f B m e m' e' (_ & W2 & _) H. unfold Jv. apply Z.mul_lt_mono_pos_r; [apply Z.pow_pos_nonneg; lia|exact H].
Qed.

(* a decimal between two decimals that round to k rounds to k *)
Lemma RTd_between : forall f B k m1 e1 m2 e2 m3 e3, wf_fmt f -> B <= 0 -> B <= e1 -> B <= e2 -> B <= e3 ->
  Iv B m1 e1 <= Iv B m2 e2 -> Iv B m2 e2 <= Iv B m3 e3 ->
  RTd f k m1 e1 -> RTd f k m3 e3 -> RTd f k m2 e2.
Proof.
  intros f B k m1 e1 m2 e2 m3 e3 W HB H1 H2 H3 L12 L23 R1 R3.
  apply (RTd_J f W B HB k m1 e1 H1) in R1. apply (RTd_J f W B HB k m3 e3 H3) in R3.
  apply (RTd_J f W B HB k m2 e2 H2). destruct R1 as [R1 Hb], R3 as [R3 _]. split; [|exact Hb].
  destruct W as (W1 & W2 & W3).
  apply (is_rne_convex f (Jv f B m1 e1) (Jv f B m2 e2) (Jv f B m3 e3) (10 ^ (- B)) k);
    [apply p10_pos; lia| |exact R1|exact R3].
  split; apply Jv_le; try assumption; repeat split; assumption.
Qed.

Theorem shortest_check_sound : forall f abits sig exp, wf_fmt f ->
  shortest_check f abits sig exp = true ->
  exists k, k_of_bits f abits = Some k /\ 0 < k /\ 0 < sig /\ sig mod 10 <> 0 /\
    RTd f k sig exp /\
    (forall sig' exp', 0 < sig' -> RTd f k sig' exp' -> ndig sig <= ndig sig') /\
    (forall sig' exp', 0 < sig' -> ndig sig' = ndig sig -> RTd f k sig' exp' -> closer f k sig exp sig' exp').
Proof.
  intros f abits sig exp W H. unfold shortest_check in H.
  destruct (k_of_bits f abits) as [k|] eqn:Ek; [|discriminate].
  apply andb_true_iff in H as [H H7]. apply andb_true_iff in H as [H H6]. apply andb_true_iff in H as [H H5].
  apply andb_true_iff in H as [H H4]. apply andb_true_iff in H as [H H3]. apply andb_true_iff in H as [H1 H2].
  apply Z.ltb_lt in H1, H2. apply negb_true_iff, Z.eqb_neq in H3.
  fold (lower_nb sig exp) in H6.
  assert (Hyes : rt3 f k sig exp = Some true).
  { unfold rounds_to in H4. destruct (rt3 f k sig exp) as [[|]|]; try discriminate. reflexivity. }
  destruct (rt3_yes f W 0 k sig exp Hyes) as [HR Hs1].
  destruct (ndig_spec sig Hs1) as (Hn1 & Hlo & Hhi). set (n := ndig sig) in *.
  exists k. split; [reflexivity|]. split; [exact H1|]. split; [exact H2|]. split; [exact H3|]. split; [exact HR|].
  assert (Hdiv : 10 * (sig / 10) < sig < 10 * (sig / 10 + 1)).
  { pose proof (Z.div_mod sig 10 ltac:(lia)). pose proof (Z.mod_pos_bound sig 10 ltac:(lia)). lia. }
  split.
  - (* nothing shorter *)
    intros sig' exp' Hs' HR'. destruct (Z_le_gt_dec n (ndig sig')) as [|Hgt]; [assumption|exfalso].
    destruct (ndig_spec sig' ltac:(lia)) as (Hn' & _ & _).
    assert (Hn2 : 2 <= n) by lia.
    assert (Hs10 : 10 <= sig).
    { assert (Hp : 10 ^ 1 <= 10 ^ (n - 1)) by (apply Z.pow_le_mono_r; lia). change (10 ^ 1) with 10 in Hp. lia. }
    rewrite (proj2 (Z.ltb_ge _ _)) in H5 by lia. apply andb_true_iff in H5 as [Hb1 Hb2].
    assert (Hno1 : rt3 f k (sig / 10) (exp + 1) = Some false).
    { unfold rounds_not in Hb1. destruct (rt3 f k (sig / 10) (exp + 1)) as [[|]|]; try discriminate. reflexivity. }
    assert (Hno2 : rt3 f k (sig / 10 + 1) (exp + 1) = Some false).
    { unfold rounds_not in Hb2. destruct (rt3 f k (sig / 10 + 1) (exp + 1)) as [[|]|]; try discriminate. reflexivity. }
    set (B := Z.min (Z.min exp' (exp - 1)) 0).
    assert (HB : B <= 0 /\ B <= exp' /\ B <= exp - 1) by (unfold B; lia). destruct HB as (HB0 & HB1 & HB2).
    assert (Ht : 1 <= sig' < 10 ^ (n - 1)) by (split; [lia|apply ndig_lt_pow; lia]).
    destruct (fewer_digits_outside B sig exp n sig' exp' HB1 ltac:(lia) Hn2 (conj Hlo Hhi) Ht) as [L | G].
    + apply (rt3_no f W B HB0 k (sig / 10) (exp + 1) ltac:(lia) Hno1).
      apply (RTd_between f B k sig' exp' (sig / 10) (exp + 1) sig exp W HB0); try lia; try assumption.
      rewrite Iv_shift by lia. apply Z.lt_le_incl. apply Iv_lt; lia.
    + apply (rt3_no f W B HB0 k (sig / 10 + 1) (exp + 1) ltac:(lia) Hno2).
      apply (RTd_between f B k sig exp (sig / 10 + 1) (exp + 1) sig' exp' W HB0); try lia; try assumption.
      rewrite Iv_shift by lia. apply Z.lt_le_incl. apply Iv_lt; lia.
  - (* closest of its length *)
    intros sig' exp' Hs' Hnd HR'.
    set (B := Z.min (Z.min exp' (exp - 1)) 0).
    assert (HB : B <= 0 /\ B <= exp' /\ B <= exp - 1) by (unfold B; lia). destruct HB as (HB0 & HB1 & HB2).
    destruct (ndig_spec sig' ltac:(lia)) as (_ & _ & Hhi'). rewrite Hnd in Hhi'. fold n in Hhi'.
    pose proof (same_digits_outside B sig exp n sig' exp' HB1 HB2 Hn1 (conj Hlo Hhi) H3 ltac:(lia)) as Out.
    destruct (lower_nb sig exp) as [ml el] eqn:Elo.
    assert (Hel : B <= el /\ Iv B ml el < Iv B sig exp).
    { unfold lower_nb in Elo. destruct (sig =? 1) eqn:E1; inversion Elo; subst ml el.
      - apply Z.eqb_eq in E1. subst sig. split; [lia|].
        replace exp with (exp - 1 + 1) at 2 by lia. rewrite Iv_shift by lia. apply Iv_lt; lia.
      - split; [lia|apply Iv_lt; lia]. }
    destruct Hel as [Hel Hlt].
    apply (closer_J f B k sig exp sig' exp' W HB0 ltac:(lia) HB1).
    set (K := k * 10 ^ (- B)).
    destruct Out as [L | [E | G]].
    + (* below the lower neighbour *)
      unfold neighbour_ok in H6. destruct (rt3 f k ml el) as [[|]|] eqn:Ert; [| |discriminate].
      * apply closer_eq_spec in H6. apply (closer_J f B k sig exp ml el W HB0 ltac:(lia) Hel) in H6. fold K in H6.
        pose proof (Jv_le f B sig' exp' ml el W L). pose proof (Jv_lt f B ml el sig exp W Hlt). lia.
      * exfalso. apply (rt3_no f W B HB0 k ml el Hel Ert).
        apply (RTd_between f B k sig' exp' ml el sig exp W HB0); try lia; try assumption.
    + unfold Jv. rewrite E. lia.
    + unfold neighbour_ok in H7. destruct (rt3 f k (sig + 1) exp) as [[|]|] eqn:Ert; [| |discriminate].
      * apply closer_eq_spec in H7. apply (closer_J f B k sig exp (sig + 1) exp W HB0 ltac:(lia) ltac:(lia)) in H7. fold K in H7.
        pose proof (Jv_le f B (sig + 1) exp sig' exp' W G).
        pose proof (Jv_lt f B sig exp (sig + 1) exp W ltac:(apply Iv_lt; lia)). lia.
      * exfalso. apply (rt3_no f W B HB0 k (sig + 1) exp ltac:(lia) Ert).
        apply (RTd_between f B k sig exp (sig + 1) exp sig' exp' W HB0); try lia; try assumption.
        apply Z.lt_le_incl. apply Iv_lt; lia.
Qed.
