(* C17 - facts about the skip_one_fast model: bounds, and prefix stability of the framing of self-delimiting
   values (objects, arrays, strings, literals): the frame found in a buffer is the frame found in every longer
   buffer, and no frame is found in a shorter one.  This is what makes chunk-independence provable for them,
   and it is false for numbers (Witness.number_split_witness). *)
From Coq Require Import NArith List Bool Arith Lia.
From SV.Stream Require Import Skip.
Import ListNotations.

Definition all_space (l : bytes) : Prop := Forall (fun c => is_space c = true) l.

Lemma first_ns_some : forall l i j c rest,
  first_ns l i = Some (j, c, rest) ->
  exists sp, l = sp ++ c :: rest /\ all_space sp /\ j = i + length sp /\ is_space c = false.
Proof.
  induction l as [|a l IH]; intros i j c rest H; simpl in H; [discriminate|].
  destruct (is_space a) eqn:E.
  - apply IH in H. destruct H as (sp & -> & Hs & -> & Hc).
    exists (a :: sp). simpl. split; [reflexivity|]. split; [constructor; auto|]. split; [lia|auto].
  - inversion H; subst. exists []. simpl. split; [reflexivity|]. split; [constructor|]. split; [lia|auto].
Qed.

Lemma first_ns_none : forall l i, first_ns l i = None -> all_space l.
Proof.
  induction l as [|a l IH]; intros i H; simpl in H; [constructor|].
  destruct (is_space a) eqn:E; [|discriminate]. constructor; [exact E|eapply IH; eauto].
Qed.

Lemma first_ns_app_space : forall sp l i, all_space sp -> first_ns (sp ++ l) i = first_ns l (i + length sp).
Proof.
  induction sp as [|a sp IH]; intros l i H; simpl.
  - f_equal. lia.
  - inversion H; subst. rewrite H2. rewrite IH by auto. f_equal. lia.
Qed.

Lemma first_ns_all_space : forall l i, all_space l -> first_ns l i = None.
Proof. induction l; intros i H; simpl; auto. inversion H; subst. rewrite H2. auto. Qed.

Lemma first_ns_cons_ns : forall c l i, is_space c = false -> first_ns (c :: l) i = Some (i, c, l).
Proof. intros. simpl. rewrite H. reflexivity. Qed.

(* ---- container scan *)
Lemma cscan_bounds : forall lc rc l inq esc d i k,
  cscan lc rc inq esc d l i = Some k -> i < k <= i + length l.
Proof.
  induction l as [|c l IH]; intros inq esc d i k H; simpl in H; [discriminate|].
  simpl length.
  destruct (N.eqb c 34 && negb esc)%bool. { apply IH in H. lia. }
  destruct inq. { apply IH in H. lia. }
  destruct (N.eqb c lc). { apply IH in H. lia. }
  destruct (N.eqb c rc).
  - destruct d. { inversion H. lia. } apply IH in H. lia.
  - apply IH in H. lia.
Qed.

Lemma cscan_app : forall lc rc l1 l2 inq esc d i k,
  cscan lc rc inq esc d l1 i = Some k -> cscan lc rc inq esc d (l1 ++ l2) i = Some k.
Proof.
  induction l1 as [|c l IH]; intros l2 inq esc d i k H; simpl in H; [discriminate|].
  simpl.
  destruct (N.eqb c 34 && negb esc)%bool; auto.
  destruct inq; auto.
  destruct (N.eqb c lc); auto.
  destruct (N.eqb c rc); auto.
  destruct d; auto.
Qed.

Lemma cscan_app_none : forall lc rc l1 l2 inq esc d i k,
  cscan lc rc inq esc d l1 i = None -> cscan lc rc inq esc d (l1 ++ l2) i = Some k -> i + length l1 < k.
Proof.
  induction l1 as [|c l IH]; intros l2 inq esc d i k H1 H2.
  - simpl in *. apply cscan_bounds in H2. lia.
  - simpl in H1, H2. simpl length.
    destruct (N.eqb c 34 && negb esc)%bool. { specialize (IH _ _ _ _ _ _ H1 H2). lia. }
    destruct inq. { specialize (IH _ _ _ _ _ _ H1 H2). lia. }
    destruct (N.eqb c lc). { specialize (IH _ _ _ _ _ _ H1 H2). lia. }
    destruct (N.eqb c rc).
    + destruct d; [discriminate|]. specialize (IH _ _ _ _ _ _ H1 H2). lia.
    + specialize (IH _ _ _ _ _ _ H1 H2). lia.
Qed.

(* ---- string scan *)
Lemma sscan_bounds : forall l esc i k, sscan esc l i = Some k -> i < k <= i + length l.
Proof.
  induction l as [|c l IH]; intros esc i k H; simpl in H; [discriminate|]. simpl length.
  destruct esc. { apply IH in H. lia. }
  destruct (N.eqb c 92). { apply IH in H. lia. }
  destruct (N.eqb c 34). { inversion H. lia. }
  apply IH in H. lia.
Qed.

Lemma sscan_app : forall l1 l2 esc i k, sscan esc l1 i = Some k -> sscan esc (l1 ++ l2) i = Some k.
Proof.
  induction l1 as [|c l IH]; intros l2 esc i k H; simpl in H; [discriminate|]. simpl.
  destruct esc; auto. destruct (N.eqb c 92); auto. destruct (N.eqb c 34); auto.
Qed.

Lemma sscan_app_none : forall l1 l2 esc i k,
  sscan esc l1 i = None -> sscan esc (l1 ++ l2) i = Some k -> i + length l1 < k.
Proof.
  induction l1 as [|c l IH]; intros l2 esc i k H1 H2.
  - simpl in *. apply sscan_bounds in H2. lia.
  - simpl in H1, H2. simpl length.
    destruct esc. { specialize (IH _ _ _ _ H1 H2). lia. }
    destruct (N.eqb c 92). { specialize (IH _ _ _ _ H1 H2). lia. }
    destruct (N.eqb c 34); [discriminate|]. specialize (IH _ _ _ _ H1 H2). lia.
Qed.

(* ---- framing *)

(* first byte of a value whose end the skipper recognises from its own bytes *)
Definition selfdelim (c : N) : bool :=
  (N.eqb c 91 || N.eqb c 123 || N.eqb c 34 || N.eqb c 116 || N.eqb c 110 || N.eqb c 102)%bool.

Lemma selfdelim_cases : forall c, selfdelim c = true ->
  (c = 91 \/ c = 123 \/ c = 34 \/ c = 116 \/ c = 110 \/ c = 102)%N.
Proof. intros c H. unfold selfdelim in H. rewrite !orb_true_iff, !N.eqb_eq in H. tauto. Qed.

(* skip frames the first n bytes of r, in every buffer that holds a prefix of r *)
Definition framed_at (skip : bytes -> skipres) (r : bytes) (n : nat) : Prop :=
  forall P Q, r = P ++ Q ->
    (length P < n -> skip P = SkEof) /\
    (n <= length P -> skip P = SkOk 0 n).

(* generic: a scanner with the app / app_none / bounds properties frames stably *)
Section Framed.
Variable scanf : bytes -> nat -> option nat.
Hypothesis scan_bounds : forall l i k, scanf l i = Some k -> i < k <= i + length l.
Hypothesis scan_app : forall l1 l2 i k, scanf l1 i = Some k -> scanf (l1 ++ l2) i = Some k.
Hypothesis scan_app_none : forall l1 l2 i k, scanf l1 i = None -> scanf (l1 ++ l2) i = Some k -> i + length l1 < k.

Lemma scan_prefix : forall rest k P Q,
  scanf rest 0 = Some k -> rest = P ++ Q ->
  (length P < k -> scanf P 0 = None) /\ (k <= length P -> scanf P 0 = Some k).
Proof.
  intros rest k P Q H ->. split; intros L.
  - destruct (scanf P 0) as [k'|] eqn:E; auto.
    pose proof (scan_app _ Q _ _ E) as E2. rewrite H in E2. inversion E2; subst.
    apply scan_bounds in E. lia.
  - destruct (scanf P 0) as [k'|] eqn:E.
    + pose proof (scan_app _ Q _ _ E) as E2. rewrite H in E2. inversion E2; subst. reflexivity.
    + pose proof (scan_app_none _ _ _ _ E H). lia.
Qed.
End Framed.

Lemma skip_nil : forall avx2, skip_one_fast avx2 [] = SkEof.
Proof. reflexivity. Qed.

Lemma prefix_cons : forall (c : N) rest P Q, c :: rest = P ++ Q -> P <> [] -> exists P', P = c :: P' /\ rest = P' ++ Q.
Proof. intros c rest [|a P] Q H HP; [congruence|]. simpl in H. inversion H; subst. eauto. Qed.

(* a frame is never empty *)
Lemma nblocks_ge : forall w fuel l off, match nblocks w fuel l off with inl p => off <= p | inr (_, off') => off <= off' end.
Proof.
  induction fuel; intros l off; simpl; [lia|].
  destruct (w <=? length l); [|lia].
  destruct (find_struct (firstn w l) 0); [lia|].
  specialize (IHfuel (skipn w l) (off + w)).
  destruct (nblocks w fuel (skipn w l) (off + w)) as [p|[l' o']]; lia.
Qed.

Lemma ntail_ge : forall l i, i <= ntail l i.
Proof. induction l; intros i; simpl; [lia|]. destruct (is_struct a || is_space a)%bool; [lia|]. specialize (IHl (S i)). lia. Qed.

Lemma lead_spaces_le : forall l, lead_spaces l <= length l.
Proof. induction l; simpl; [lia|]. destruct (is_space a); simpl; lia. Qed.

Lemma lead_spaces_app_ns : forall l1 c l2, is_space c = false -> lead_spaces (l1 ++ c :: l2) <= length l1.
Proof.
  induction l1; intros c l2 H; simpl.
  - rewrite H. lia.
  - destruct (is_space a); [|lia]. specialize (IHl1 c l2 H). lia.
Qed.

Lemma trail_spaces_bound : forall sp c l p,
  is_space c = false -> length sp < p ->
  length sp < p - trail_spaces (firstn p (sp ++ c :: l)).
Proof.
  intros sp c l p Hc Hp. unfold trail_spaces.
  assert (firstn p (sp ++ c :: l) = sp ++ c :: firstn (p - S (length sp)) l) as ->.
  { rewrite firstn_app. replace (p - length sp) with (S (p - S (length sp))) by lia.
    rewrite firstn_all2 by lia. reflexivity. }
  rewrite rev_app_distr. simpl. rewrite <- app_assoc. simpl.
  pose proof (lead_spaces_app_ns (rev (firstn (p - S (length sp)) l)) c (rev sp) Hc) as B.
  rewrite rev_length in B. rewrite firstn_length in B. lia.
Qed.

Theorem skip_one_fast_pos : forall avx2 w y x, skip_one_fast avx2 w = SkOk y x -> y < x.
Proof.
  intros avx2 w y x H. unfold skip_one_fast in H.
  destruct (first_ns w 0) as [[[vi c] rest]|] eqn:F; [|discriminate].
  apply first_ns_some in F. destruct F as (sp & -> & Hsp & -> & Hc). change (0 + length sp) with (length sp) in *.
  assert (R : forall r : option nat, match r with Some n => SkOk (length sp) (S (length sp) + n) | None => SkEof end = SkOk y x -> y < x).
  { intros [k|] E; inversion E; subst. lia. }
  destruct (N.eqb c 91); [eapply R; eauto|].
  destruct (N.eqb c 123); [eapply R; eauto|].
  destruct (N.eqb c 34); [eapply R; eauto|].
  destruct (N.eqb c 45 || is_digit c)%bool.
  { inversion H; subst. clear H R. unfold nscan.
    set (l := skipn (S (length sp)) (sp ++ c :: rest)).
    assert (BK : forall p, length sp < p -> length sp < p - trail_spaces (firstn p (sp ++ c :: rest))).
    { intros. apply trail_spaces_bound; auto. }
    destruct avx2.
    - pose proof (nblocks_ge 32 (S (length l)) l (S (length sp))) as B1.
      destruct (nblocks 32 (S (length l)) l (S (length sp))) as [p|[l1 o1]]. { apply BK. lia. }
      pose proof (nblocks_ge 16 (S (length l1)) l1 o1) as B2.
      destruct (nblocks 16 (S (length l1)) l1 o1) as [p|[l2 o2]]. { apply BK. lia. }
      pose proof (ntail_ge l2 o2). lia.
    - pose proof (nblocks_ge 16 (S (length l)) l (S (length sp))) as B2.
      destruct (nblocks 16 (S (length l)) l (S (length sp))) as [p|[l2 o2]]. { apply BK. lia. }
      pose proof (ntail_ge l2 o2). lia. }
  destruct (N.eqb c 116 || N.eqb c 110)%bool.
  { destruct (3 <=? length rest); inversion H; subst; lia. }
  destruct (N.eqb c 102).
  { destruct (4 <=? length rest); inversion H; subst; lia. }
  destruct (N.eqb c 0); discriminate.
Qed.

Theorem selfdelim_framed : forall avx2 r n c rest,
  r = c :: rest -> selfdelim c = true ->
  skip_one_fast avx2 r = SkOk 0 n ->
  framed_at (skip_one_fast avx2) r n.
Proof.
  intros avx2 r n c rest -> Hc Hs P Q HPQ.
  assert (Hns : is_space c = false).
  { apply selfdelim_cases in Hc. destruct Hc as [H|[H|[H|[H|[H|H]]]]]; subst; reflexivity. }
  destruct P as [|a P].
  { simpl. split; intros L.
    - reflexivity.
    - assert (n = 0) by lia. subst. exfalso.
      apply skip_one_fast_pos in Hs. lia. }
  simpl in HPQ. inversion HPQ; subst a rest. clear HPQ.
  unfold skip_one_fast in *. rewrite first_ns_cons_ns in * by auto.
  simpl length.
  (* containers and strings: scanners with the three properties *)
  assert (GEN : forall scanf,
      (forall l i k, scanf l i = Some k -> i < k <= i + length l) ->
      (forall l1 l2 i k, scanf l1 i = Some k -> scanf (l1 ++ l2) i = Some k) ->
      (forall l1 l2 i k, scanf l1 i = None -> scanf (l1 ++ l2) i = Some k -> i + length l1 < k) ->
      match scanf (P ++ Q) 0 with Some k => SkOk 0 (1 + k) | None => SkEof end = SkOk 0 n ->
      (S (length P) < n -> match scanf P 0 with Some k => SkOk 0 (1 + k) | None => SkEof end = SkEof) /\
      (n <= S (length P) -> match scanf P 0 with Some k => SkOk 0 (1 + k) | None => SkEof end = SkOk 0 n)).
  { intros scanf B A AN H.
    destruct (scanf (P ++ Q) 0) as [k|] eqn:E; [|discriminate]. inversion H; subst n.
    destruct (scan_prefix scanf B A AN _ _ P Q E eq_refl) as [L1 L2].
    split; intros L.
    - rewrite L1 by lia. reflexivity.
    - rewrite L2 by lia. reflexivity. }
  destruct (N.eqb c 91) eqn:E1.
  { apply (GEN (cscan 91 93 false false 0)); auto.
    - intros; eapply cscan_bounds; eauto.
    - intros; eapply cscan_app; eauto.
    - intros; eapply cscan_app_none; eauto. }
  destruct (N.eqb c 123) eqn:E2.
  { apply (GEN (cscan 123 125 false false 0)); auto.
    - intros; eapply cscan_bounds; eauto.
    - intros; eapply cscan_app; eauto.
    - intros; eapply cscan_app_none; eauto. }
  destruct (N.eqb c 34) eqn:E3.
  { apply (GEN (sscan false)); auto.
    - intros; eapply sscan_bounds; eauto.
    - intros; eapply sscan_app; eauto.
    - intros; eapply sscan_app_none; eauto. }
  assert (Hnum : (N.eqb c 45 || is_digit c)%bool = false).
  { apply selfdelim_cases in Hc. destruct Hc as [H|[H|[H|[H|[H|H]]]]]; subst; reflexivity. }
  rewrite Hnum in *.
  rewrite app_length in Hs.
  destruct (N.eqb c 116 || N.eqb c 110)%bool.
  { destruct (3 <=? length P + length Q) eqn:E; [|discriminate]. inversion Hs; subst n. apply Nat.leb_le in E.
    split; intros L.
    - destruct (3 <=? length P) eqn:E'; [apply Nat.leb_le in E'; lia|]. reflexivity.
    - destruct (3 <=? length P) eqn:E'; [reflexivity|]. apply Nat.leb_gt in E'. lia. }
  destruct (N.eqb c 102).
  { destruct (4 <=? length P + length Q) eqn:E; [|discriminate]. inversion Hs; subst n. apply Nat.leb_le in E.
    split; intros L.
    - destruct (4 <=? length P) eqn:E'; [apply Nat.leb_le in E'; lia|]. reflexivity.
    - destruct (4 <=? length P) eqn:E'; [reflexivity|]. apply Nat.leb_gt in E'. lia. }
  destruct (N.eqb c 0); discriminate.
Qed.

