(* C17 - reference scanner for ONE JSON value at the start of a byte string (RFC 8259 grammar, any byte
   allowed inside strings, \uXXXX not paired).  It serves two purposes:
     - the specification `values_of` (Spec.v): decoding a byte stream value by value;
     - the inner decoder of the stream model (Decoder.Decode into interface{} on the framed copy), which
       decodes the first value of the span and ignores what follows.
   A push-down scanner fed one byte at a time, so that "complete / incomplete / invalid" are distinguished. *)
From Coq Require Import NArith List Bool Arith Lia.
From SV.Stream Require Import Skip.
Import ListNotations.

Inductive mode :=
| MVal | MValOrClose | MKeyOrClose | MKey | MColon | MAfter
| MStr (key : bool) | MStrEsc (key : bool) | MStrU (key : bool) (k : nat)
| MLit (rest : list N)
| MNumMinus | MNumZero | MNumInt | MNumDot | MNumFrac | MNumE | MNumESign | MNumExp.

Inductive sres :=
| Cont (m : mode) (stk : list bool)   (* stk: true = object, false = array *)
| DoneIncl                            (* the value ended with this byte *)
| DoneExcl                            (* the value (a number) ended before this byte *)
| Bad.

Definition end_value (stk : list bool) : sres :=
  match stk with [] => DoneIncl | _ => Cont MAfter stk end.

Definition is_hex (c : N) : bool :=
  (is_digit c || (N.leb 65 c && N.leb c 70) || (N.leb 97 c && N.leb c 102))%bool.

Definition is_e (c : N) : bool := (N.eqb c 101 || N.eqb c 69)%bool.

Definition begin_value (stk : list bool) (c : N) : sres :=
  if N.eqb c 34 then Cont (MStr false) stk
  else if N.eqb c 123 then Cont MKeyOrClose (true :: stk)
  else if N.eqb c 91 then Cont MValOrClose (false :: stk)
  else if N.eqb c 116 then Cont (MLit [114; 117; 101]%N) stk
  else if N.eqb c 102 then Cont (MLit [97; 108; 115; 101]%N) stk
  else if N.eqb c 110 then Cont (MLit [117; 108; 108]%N) stk
  else if N.eqb c 45 then Cont MNumMinus stk
  else if N.eqb c 48 then Cont MNumZero stk
  else if is_digit c then Cont MNumInt stk
  else Bad.

Definition after_step (stk : list bool) (c : N) : sres :=
  if is_space c then Cont MAfter stk
  else match stk with
       | [] => Bad
       | true :: stk' =>
         if N.eqb c 44 then Cont MKey stk
         else if N.eqb c 125 then end_value stk' else Bad
       | false :: stk' =>
         if N.eqb c 44 then Cont MVal stk
         else if N.eqb c 93 then end_value stk' else Bad
       end.

(* a number ended before byte c *)
Definition num_end (stk : list bool) (c : N) : sres :=
  match stk with [] => DoneExcl | _ => after_step stk c end.

(* strict: RFC 8259 / encoding/json reject control characters inside strings; sonic's decoder (default
   options) accepts them *)
Definition step (strict : bool) (m : mode) (stk : list bool) (c : N) : sres :=
  match m with
  | MVal => if is_space c then Cont MVal stk else begin_value stk c
  | MValOrClose =>
    if is_space c then Cont MValOrClose stk
    else if N.eqb c 93 then match stk with _ :: stk' => end_value stk' | [] => Bad end
    else begin_value stk c
  | MKeyOrClose =>
    if is_space c then Cont MKeyOrClose stk
    else if N.eqb c 34 then Cont (MStr true) stk
    else if N.eqb c 125 then match stk with _ :: stk' => end_value stk' | [] => Bad end
    else Bad
  | MKey =>
    if is_space c then Cont MKey stk
    else if N.eqb c 34 then Cont (MStr true) stk else Bad
  | MColon =>
    if is_space c then Cont MColon stk
    else if N.eqb c 58 then Cont MVal stk else Bad
  | MAfter => after_step stk c
  | MStr k =>
    if N.eqb c 34 then (if k then Cont MColon stk else end_value stk)
    else if N.eqb c 92 then Cont (MStrEsc k) stk
    else if (strict && N.ltb c 32)%bool then Bad
    else Cont (MStr k) stk
  | MStrEsc k =>
    if (N.eqb c 34 || N.eqb c 92 || N.eqb c 47 || N.eqb c 98 || N.eqb c 102 || N.eqb c 110
        || N.eqb c 114 || N.eqb c 116)%bool then Cont (MStr k) stk
    else if N.eqb c 117 then Cont (MStrU k 4) stk
    else Bad
  | MStrU k n =>
    if is_hex c then match n with
                     | S (S n') => Cont (MStrU k (S n')) stk
                     | _ => Cont (MStr k) stk
                     end
    else Bad
  | MLit r =>
    match r with
    | x :: r' => if N.eqb c x then match r' with [] => end_value stk | _ => Cont (MLit r') stk end else Bad
    | [] => Bad
    end
  | MNumMinus =>
    if N.eqb c 48 then Cont MNumZero stk
    else if is_digit c then Cont MNumInt stk else Bad
  | MNumZero =>
    if N.eqb c 46 then Cont MNumDot stk
    else if is_e c then Cont MNumE stk
    else num_end stk c
  | MNumInt =>
    if is_digit c then Cont MNumInt stk
    else if N.eqb c 46 then Cont MNumDot stk
    else if is_e c then Cont MNumE stk
    else num_end stk c
  | MNumDot => if is_digit c then Cont MNumFrac stk else Bad
  | MNumFrac =>
    if is_digit c then Cont MNumFrac stk
    else if is_e c then Cont MNumE stk
    else num_end stk c
  | MNumE =>
    if (N.eqb c 43 || N.eqb c 45)%bool then Cont MNumESign stk
    else if is_digit c then Cont MNumExp stk else Bad
  | MNumESign => if is_digit c then Cont MNumExp stk else Bad
  | MNumExp => if is_digit c then Cont MNumExp stk else num_end stk c
  end.

Inductive vres :=
| Complete (n : nat)     (* the first value ends at offset n (leading white space included) *)
| AtEnd (n : nat)        (* a number that runs up to the end of the input (n = its length): complete only if
                            nothing follows *)
| Incomplete             (* the input ended inside the value (or before it began) *)
| Invalid.

Definition num_final (m : mode) : bool :=
  match m with MNumZero | MNumInt | MNumFrac | MNumExp => true | _ => false end.

Fixpoint vscan (strict : bool) (m : mode) (stk : list bool) (l : bytes) (i : nat) : vres :=
  match l with
  | [] => match stk with
          | [] => if num_final m then AtEnd i else Incomplete
          | _ => Incomplete
          end
  | c :: l' =>
    match step strict m stk c with
    | Cont m' stk' => vscan strict m' stk' l' (S i)
    | DoneIncl => Complete (S i)
    | DoneExcl => Complete i
    | Bad => Invalid
    end
  end.

Definition scan_value (strict : bool) (l : bytes) : vres := vscan strict MVal [] l 0.

Fixpoint drop_ws (l : bytes) : bytes :=
  match l with
  | c :: l' => if is_space c then drop_ws l' else l
  | [] => []
  end.

(* Decoder.Decode(&interface{}) on the framed copy: the text of the first value, or a syntax error *)
Definition inner_decode (span : bytes) : option bytes :=
  match scan_value false span with
  | Complete n | AtEnd n => Some (drop_ws (firstn n span))
  | _ => None
  end.
