(* C17 - model of native skip_one_fast (native/scanning.h: skip_one_fast_1 and its helpers), the
   framing routine used by StreamDecoder.Decode (internal/decoder/api/stream.go).
   Bytes are N < 256, positions are nat.  The SIMD loops are modelled by their scalar meaning; the
   only place where the block structure is observable - skip_number_fast stops at white space only in
   its scalar tail - is modelled block by block. *)
From Coq Require Import NArith List Bool Arith Lia.
Import ListNotations.

Definition bytes := list N.

Definition is_space (c : N) : bool :=
  (N.eqb c 32 || N.eqb c 9 || N.eqb c 10 || N.eqb c 13)%bool.

(* '}' ']' ',' : get_structural_maskx16/32 *)
Definition is_struct (c : N) : bool :=
  (N.eqb c 125 || N.eqb c 93 || N.eqb c 44)%bool.

Definition is_digit (c : N) : bool := (N.leb 48 c && N.leb c 57)%bool.

Inductive skipres :=
| SkOk (y x : nat)      (* y = index of the first byte of the value (return value), x = *p after the value *)
| SkEof                 (* -ERR_EOF *)
| SkInval.              (* -ERR_INVAL *)

(* advance_ns: index of the first non-space byte *)
Fixpoint first_ns (l : bytes) (i : nat) : option (nat * N * bytes) :=
  match l with
  | [] => None
  | c :: l' => if is_space c then first_ns l' (S i) else Some (i, c, l')
  end.

(* skip_container_fast: l = bytes after the opening brace, i = bytes consumed so far.
   inq: inside a string; esc: previous byte was an un-escaped backslash (only quotes are masked by
   `escaped`, braces are masked by `inquote` only); depth = lnum - rnum. *)
Fixpoint cscan (lc rc : N) (inq esc : bool) (depth : nat) (l : bytes) (i : nat) : option nat :=
  match l with
  | [] => None
  | c :: l' =>
    let esc' := (N.eqb c 92 && negb esc)%bool in
    if (N.eqb c 34 && negb esc)%bool then cscan lc rc (negb inq) false depth l' (S i)
    else if inq then cscan lc rc inq esc' depth l' (S i)
    else if N.eqb c lc then cscan lc rc inq esc' (S depth) l' (S i)
    else if N.eqb c rc then
      match depth with
      | O => Some (S i)
      | S d => cscan lc rc inq esc' d l' (S i)
      end
    else cscan lc rc inq esc' depth l' (S i)
  end.

(* skip_string_fast: l = bytes after the opening quote *)
Fixpoint sscan (esc : bool) (l : bytes) (i : nat) : option nat :=
  match l with
  | [] => None
  | c :: l' =>
    if esc then sscan false l' (S i)
    else if N.eqb c 92 then sscan true l' (S i)
    else if N.eqb c 34 then Some (S i)
    else sscan false l' (S i)
  end.

(* skip_number_fast *)
Fixpoint find_struct (l : bytes) (i : nat) : option nat :=
  match l with
  | [] => None
  | c :: l' => if is_struct c then Some i else find_struct l' (S i)
  end.

(* the `while (nb >= w)` loop: inl p = a structural byte was found at offset p,
   inr (rest, off) = fewer than w bytes are left *)
Fixpoint nblocks (w fuel : nat) (l : bytes) (off : nat) : nat + (bytes * nat) :=
  match fuel with
  | O => inr (l, off)
  | S f =>
    if w <=? length l then
      match find_struct (firstn w l) 0 with
      | Some i => inl (off + i)
      | None => nblocks w f (skipn w l) (off + w)
      end
    else inr (l, off)
  end.

(* the scalar tail: stops at '}' ']' ',' or white space, or at the end *)
Fixpoint ntail (l : bytes) (i : nat) : nat :=
  match l with
  | [] => i
  | c :: l' => if (is_struct c || is_space c)%bool then i else ntail l' (S i)
  end.

(* number of white-space bytes at the end of l (backward_space_chars) *)
Fixpoint lead_spaces (l : bytes) : nat :=
  match l with
  | c :: l' => if is_space c then S (lead_spaces l') else 0
  | [] => 0
  end.
Definition trail_spaces (l : bytes) : nat := lead_spaces (rev l).

(* src = whole string, p0 = *p on entry (one past the first byte of the number); returns *p on exit *)
Definition nscan (avx2 : bool) (src : bytes) (p0 : nat) : nat :=
  let l := skipn p0 src in
  let back (p : nat) := p - trail_spaces (firstn p src) in
  let r32 := if avx2 then nblocks 32 (S (length l)) l p0 else inr (l, p0) in
  match r32 with
  | inl p => back p
  | inr (l1, off1) =>
    match nblocks 16 (S (length l1)) l1 off1 with
    | inl p => back p
    | inr (l2, off2) => ntail l2 off2
    end
  end.

Definition skip_one_fast (avx2 : bool) (src : bytes) : skipres :=
  match first_ns src 0 with
  | None => SkEof                                    (* advance_ns returned 0 *)
  | Some (vi, c, rest) =>
    let ret (r : option nat) := match r with Some n => SkOk vi (S vi + n) | None => SkEof end in
    if N.eqb c 91 then ret (cscan 91 93 false false 0 rest 0)
    else if N.eqb c 123 then ret (cscan 123 125 false false 0 rest 0)
    else if N.eqb c 34 then ret (sscan false rest 0)
    else if (N.eqb c 45 || is_digit c)%bool then SkOk vi (nscan avx2 src (S vi))
    else if (N.eqb c 116 || N.eqb c 110)%bool then (if 3 <=? length rest then SkOk vi (S vi + 3) else SkEof)
    else if N.eqb c 102 then (if 4 <=? length rest then SkOk vi (S vi + 4) else SkEof)
    else if N.eqb c 0 then SkEof
    else SkInval
  end.
