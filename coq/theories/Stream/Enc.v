(* C17 - executable model of StreamEncoder.Encode (/repo/internal/encoder/stream.go).
   The Writer is an oracle: per Write call (k, e) = "accept at most k bytes, return error e";
   after the list every Write accepts everything. *)
From Coq Require Import NArith List Bool Arith Lia.
From SV.Stream Require Import Skip.
Import ListNotations.

Inductive werr := WErr (k : nat) | ErrShortWrite.

Record writer := {
  wresp : list (nat * option werr);
  wgot : bytes                       (* every byte delivered so far *)
}.

(* w.Write(p) = (n, err) *)
Definition w_write (w : writer) (p : bytes) : nat * option werr * writer :=
  match wresp w with
  | [] => (length p, None, {| wresp := []; wgot := wgot w ++ p |})
  | (k, e) :: tl =>
    let n := Nat.min k (length p) in
    (n, e, {| wresp := tl; wgot := wgot w ++ firstn n p |})
  end.

(* `for len(buf) > 0 { n, err = enc.w.Write(buf); buf = buf[n:]; if err != nil { goto free_bytes } }` *)
Fixpoint write_loop (fuel : nat) (b : bytes) (w : writer) : option (option werr) * writer :=
  match b with
  | [] => (Some None, w)
  | _ =>
    match fuel with
    | O => (None, w)
    | S f =>
      let '(n, e, w1) := w_write w b in
      match e with
      | Some e' => (Some (Some e'), w1)
      | None => write_loop f (skipn n b) w1
      end
    end
  end.

(* what is handed to the write loop: Marshal's bytes, with the newline appended unless NoEncoderNewline *)
Definition payload (body : bytes) (newline : bool) : bytes := if newline then body ++ [10%N] else body.

(* SetIndent path: json.Indent's output, with the newline appended unless NoEncoderNewline *)
Definition indent_payload (ind : bytes) (newline : bool) : bytes := if newline then ind ++ [10%N] else ind.

Inductive eres := ENil | EErr (e : werr) | EMarshalErr | EFuel.

(* Encode: out = result of EncodeInto (None = encoding error);
   indent = enc.indent != "" || enc.prefix != "" (then `indented` = json.Indent output);
   newline = enc.Opts&NoEncoderNewline == 0 *)
Definition Encode (out : option bytes) (indent : option bytes) (newline : bool) (w : writer) : eres * writer :=
  match out with
  | None => (EMarshalErr, w)
  | Some body =>
    match indent with
    | Some ind =>
      (* buf.WriteByte('\n'); io.Copy(enc.w, buf) = buf.WriteTo(w): one Write, short write = io.ErrShortWrite *)
      let p := indent_payload ind newline in
      match p with
      | [] => (ENil, w)
      | _ =>
        let '(n, e, w1) := w_write w p in
        match e with
        | Some e' => (EErr e', w1)
        | None => if n =? length p then (ENil, w1) else (EErr ErrShortWrite, w1)
        end
      end
    | None =>
      (* the newline is appended to the buffer first (unless NoEncoderNewline), then the write loop runs over the whole buffer *)
      match write_loop (S (length (wresp w))) (payload body newline) w with
      | (None, w1) => (EFuel, w1)
      | (Some (Some e), w1) => (EErr e, w1)
      | (Some None, w1) => (ENil, w1)
      end
    end
  end.
