(* C17 - executable model of StreamDecoder (/repo/internal/decoder/api/stream.go).
   Names follow the Go source.  The Reader is an oracle: a list of Read results
   (chunk, optional error) followed by (0, rfin) for ever; a chunk larger than the space offered is
   delivered piecewise (the error travels with its last piece).  The framing routine `skip`
   (native.SkipOneFast) and the inner decoder `inner` (Decoder.Decode on the copied span) are
   parameters of the model; Props/C17.v instantiates them with Skip.skip_one_fast / Json1.inner_decode. *)
From Coq Require Import NArith List Bool Arith Lia.
From SV.Stream Require Import Skip.
Import ListNotations.

Inductive ioerr := EOF | ErrR (k : nat).          (* io.EOF, or the reader's own error number k *)
Inductive derr := DIo (e : ioerr) | DSyntax | DUnexpEOF.   (* what StreamDecoder.err can hold: the reader's error, a
                                                            SyntaxError, io.ErrUnexpectedEOF *)

Definition ioerr_eqb (a b : ioerr) : bool :=
  match a, b with EOF, EOF => true | ErrR x, ErrR y => Nat.eqb x y | _, _ => false end.

Record reader := {
  rchunks : list (bytes * option ioerr);
  rfin : ioerr;
  rlog : list nat                     (* len(p) of every Read call so far, most recent first *)
}.

(* r.Read(p) with len(p) = space *)
Definition rd_read (r : reader) (space : nat) : bytes * option ioerr * reader :=
  match rchunks r with
  | [] => ([], Some (rfin r), {| rchunks := []; rfin := rfin r; rlog := space :: rlog r |})
  | (c, e) :: tl =>
    if length c <=? space
    then (c, e, {| rchunks := tl; rfin := rfin r; rlog := space :: rlog r |})
    else (firstn space c, None,
          {| rchunks := (skipn space c, e) :: tl; rfin := rfin r; rlog := space :: rlog r |})
  end.

Record sd := {
  buf : bytes;          (* self.buf[:len] *)
  cap : nat;            (* cap(self.buf); 0 = nil *)
  scanp : nat;
  scanned : nat;
  err : option derr;
  rd : reader;
  pcap : nat            (* capacity of the buffers handed out by bufPool *)
}.

Definition new_decoder (r : reader) (pc : nat) : sd :=
  {| buf := []; cap := 0; scanp := 0; scanned := 0; err := None; rd := r; pcap := pc |}.

Definition set_buf (st : sd) (b : bytes) (c : nat) : sd :=
  {| buf := b; cap := c; scanp := scanp st; scanned := scanned st; err := err st; rd := rd st; pcap := pcap st |}.
Definition set_scanp (st : sd) (p : nat) : sd :=
  {| buf := buf st; cap := cap st; scanp := p; scanned := scanned st; err := err st; rd := rd st; pcap := pcap st |}.
Definition set_scanned (st : sd) (n : nat) : sd :=
  {| buf := buf st; cap := cap st; scanp := scanp st; scanned := n; err := err st; rd := rd st; pcap := pcap st |}.
Definition set_rd (st : sd) (r : reader) : sd :=
  {| buf := buf st; cap := cap st; scanp := scanp st; scanned := scanned st; err := err st; rd := r; pcap := pcap st |}.

Definition set_err (st : sd) (e : option derr) : sd :=
  {| buf := buf st; cap := cap st; scanp := scanp st; scanned := scanned st; err := e; rd := rd st; pcap := pcap st |}.

(* func (self *StreamDecoder) setErr(err error): the buffer is released and what was scanned is folded into `scanned` *)
Definition setErr (e : derr) (st : sd) : sd :=
  {| buf := []; cap := 0; scanp := 0; scanned := scanned st + scanp st; err := Some e; rd := rd st; pcap := pcap st |}.

(* func realloc(buf *[]byte) bool : only the capacity changes (the first len bytes are copied) *)
Definition realloc_cap (l c pc : nat) : nat :=
  if c =? 0 then pc
  else if c - l <=? Nat.div2 c then
         let e := l + Nat.div2 l in
         if e <=? c then c * 2 else e
       else c.
Definition realloc (st : sd) : sd := set_buf st (buf st) (realloc_cap (length (buf st)) (cap st) (pcap st)).

(* func (self *StreamDecoder) scan() (byte, bool) : Some c = (c, false) with scanp moved onto c; None = (0, true) *)
Definition scan (st : sd) : option N * sd :=
  match first_ns (skipn (scanp st) (buf st)) 0 with
  | Some (i, c, _) => (Some c, set_scanp st (scanp st + i))
  | None => (None, st)
  end.

(* func (self *StreamDecoder) refill() error *)
Definition refill (st : sd) : option ioerr * sd :=
  let st1 := if 0 <? scanp st
             then set_scanp (set_buf (set_scanned st (scanned st + scanp st)) (skipn (scanp st) (buf st)) (cap st)) 0
             else st in
  let st2 := realloc st1 in
  let '(data, e, r') := rd_read (rd st2) (cap st2 - length (buf st2)) in
  (e, set_rd (set_buf st2 (buf st2 ++ data) (cap st2)) r').

Inductive peekres := PChar (c : N) | PErr (e : ioerr) | PFuel.

(* func (self *StreamDecoder) peek() (byte, error) *)
Fixpoint peek (fuel : nat) (e0 : option ioerr) (st : sd) : peekres * sd :=
  match fuel with
  | O => (PFuel, st)
  | S f =>
    match scan st with
    | (Some c, st1) => (PChar c, st1)
    | (None, st1) =>
      match e0 with
      | Some e => (PErr e, setErr (DIo e) st1)
      | None => let (e, st2) := refill st1 in peek f e st2
      end
    end
  end.

(* number of Read calls after which the oracle only answers (0, rfin) *)
Definition rd_fuel (r : reader) : nat :=
  fold_right (fun ce n => S (length (fst ce)) + n) 2 (rchunks r).

Inductive moreres := MTrue | MFalse | MFuel.

(* func (self *StreamDecoder) More() bool *)
Definition More (st : sd) : moreres * sd :=
  match err st with
  | Some _ => (MFalse, st)
  | None =>
    match peek (S (rd_fuel (rd st))) None st with
    | (PChar c, st1) => (if (N.eqb c 93 || N.eqb c 125)%bool then MFalse else MTrue, st1)
    | (PErr _, st1) => (MFalse, st1)
    | (PFuel, st1) => (MFuel, st1)
    end
  end.

(* func (self *StreamDecoder) readMore() bool, after the initial `if self.err != nil` test *)
Fixpoint readMore_loop (fuel : nat) (st : sd) : option bool * sd :=
  match fuel with
  | O => (None, st)
  | S f =>
    let l := length (buf st) in
    let st1 := realloc st in
    let '(data, e, r') := rd_read (rd st1) (cap st1 - l) in
    let st2 := set_scanp (set_rd (set_buf st1 (buf st1 ++ data) (cap st1)) r') l in
    match scan st2 with
    | (Some _, st3) => (Some true, st3)
    | (None, st3) =>
      match e with
      | Some e' => (Some false, setErr (DIo e') st3)
      | None => readMore_loop f st3
      end
    end
  end.

Definition readMore (st : sd) : option bool * sd :=
  match err st with
  | Some _ => (Some false, st)
  | None => readMore_loop (S (rd_fuel (rd st))) st
  end.

Inductive dres :=
| RVal (v : bytes)      (* err == nil and a value was decoded; v = text of the decoded value *)
| RNil                  (* err == nil and nothing decoded (not reachable since the fix of Decode; kept for the tie) *)
| RErr (e : derr)
| RPanic                (* slice bounds out of range *)
| RFuel.                (* the model ran out of fuel (never happens, see DecProofs.decode_fuel_ok) *)

Definition sub (b : bytes) (s e : nat) : bytes := firstn (e - s) (skipn s b).

(* func (self *StreamDecoder) consume(): drops the bytes before scanp (and the white space after them);
   when only white space is left the whole buffer counts as consumed (self.scanp = len(self.buf)) and is recycled *)
Definition consume (st : sd) : sd :=
  let (c, st1) := scan st in
  let st2 := match c with
             | None => set_buf (set_scanp st1 (length (buf st1))) [] 0
             | Some _ => set_buf st1 (skipn (scanp st1) (buf st1)) (cap st1)
             end in
  set_scanp (set_scanned st2 (scanned st2 + scanp st2)) 0.

(* func isNumberByte(c byte) bool *)
Definition is_number_byte (c : N) : bool :=
  (is_digit c || N.eqb c 46 || N.eqb c 101 || N.eqb c 69 || N.eqb c 43 || N.eqb c 45)%bool.

Fixpoint num_run (l : bytes) : nat :=
  match l with
  | c :: l' => if is_number_byte c then S (num_run l') else 0
  | [] => 0
  end.

Inductive numres := NBreak (i : nat) | NErr | NFuel.

(* the `for { ... }` loop of decodeNumber: i is the local variable *)
Fixpoint decodeNumber_loop (fuel : nat) (i : nat) (st : sd) : numres * sd :=
  match fuel with
  | O => (NFuel, st)
  | S f =>
    let i1 := i + num_run (skipn i (buf st)) in
    if i1 <? length (buf st) then (NBreak i1, st)
    else
      let l := length (buf st) in
      let st1 := realloc st in
      let '(data, e, r') := rd_read (rd st1) (cap st1 - l) in
      let st2 := set_rd (set_buf st1 (buf st1 ++ data) (cap st1)) r' in
      match e, data with
      | Some EOF, [] => (NBreak i1, st2)                      (* the number ends with the stream *)
      | Some e', [] => (NErr, setErr (DIo e') st2)            (* self.setErr(rerr); return rerr *)
      | _, _ => decodeNumber_loop f i1 st2
      end
  end.

Section WithSkip.
Variable skip : bytes -> skipres.
Variable inner : bytes -> option bytes.

(* func (self *StreamDecoder) decodeNumber(s int, val interface{}) error, followed by consume() in Decode.
   Decoder.Pos() after a successful decode = length of the decoded text (the span starts with the number) *)
Definition decodeNumber (s : nat) (st : sd) : dres * sd :=
  match decodeNumber_loop (S (rd_fuel (rd st))) (S s) st with
  | (NBreak i, st1) =>
    match inner (sub (buf st1) s i) with
    | None => (RErr DSyntax, setErr DSyntax st1)
    | Some v => (RVal v, consume (set_scanp st1 (s + length v)))
    end
  | (NErr, st1) => (match err st1 with Some e => RErr e | None => RNil end, st1)
  | (NFuel, st1) => (RFuel, st1)
  end.

(* the body of `if _, perr := self.peek(); perr == nil { ... }` from the label try_skip on; s is the local variable *)
Fixpoint try_skip (fuel : nat) (s : nat) (st : sd) : dres * sd :=
  match fuel with
  | O => (RFuel, st)
  | S f =>
    let e := length (buf st) in
    match skip (sub (buf st) s e) with
    | SkOk y x =>
      let s' := y + s in
      let e' := x + s' in
      if length (buf st) <? e' then (RPanic, st)
      else match inner (sub (buf st) s' e') with
           | None => (RErr DSyntax, setErr DSyntax st)
           | Some v => (RVal v, consume (set_scanp st e'))
           end
    | SkInval =>
      (* not ERR_EOF: self.setErr(SyntaxError{...}); return self.err *)
      (RErr DSyntax, setErr DSyntax st)
    | SkEof =>
      match readMore st with
      | (Some true, st1) => try_skip f s st1
      | (Some false, st1) =>
        (* if self.err == io.EOF { self.err = io.ErrUnexpectedEOF }; return self.err *)
        match err st1 with
        | Some (DIo EOF) => (RErr DUnexpEOF, set_err st1 (Some DUnexpEOF))
        | Some e1 => (RErr e1, st1)
        | None => (RNil, st1)
        end
      | (None, st1) => (RFuel, st1)
      end
    end
  end.

(* func (self *StreamDecoder) Decode(val interface{}) (err error) *)
Definition Decode (st : sd) : dres * sd :=
  match err st with
  | Some e => (RErr e, st)                                     (* if self.err != nil { return self.err } *)
  | None =>
    match peek (S (rd_fuel (rd st))) None st with              (* if _, perr := self.peek(); perr == nil { ... } *)
    | (PChar c, st1) =>
      if (N.eqb c 45 || is_digit c)%bool
      then decodeNumber (scanp st1) st1                        (* a number is not self-delimiting and is framed separately *)
      else try_skip (S (rd_fuel (rd st1))) (scanp st1) st1
    | (PErr _, st1) => (match err st1 with None => RNil | Some e => RErr e end, st1)   (* return self.err *)
    | (PFuel, st1) => (RFuel, st1)
    end
  end.

(* k successive Decode calls; after each one InputOffset() is recorded *)
Fixpoint decodes (k : nat) (st : sd) : list (dres * nat) * sd :=
  match k with
  | O => ([], st)
  | S k' =>
    let (r, st1) := Decode st in
    let (rs, st2) := decodes k' st1 in
    ((r, scanned st1 + scanp st1) :: rs, st2)
  end.

End WithSkip.

(* func (self *StreamDecoder) InputOffset() int64 *)
Definition InputOffset (st : sd) : nat := scanned st + scanp st.

(* func (self *StreamDecoder) Buffered() io.Reader : None = panic (slice bounds out of range) *)
Definition Buffered (st : sd) : option bytes :=
  if scanp st <=? length (buf st) then Some (skipn (scanp st) (buf st)) else None.
