(* C17 - readMore, the try_skip loop, Decode and the run of successive Decodes over any reader oracle *)
From Coq Require Import NArith List Bool Arith Lia.
From SV.Stream Require Import Skip SkipProofs Json1 Dec Spec DecProofs1.
Import ListNotations.

Lemma sub_to_end : forall (b : bytes) s, sub b s (length b) = skipn s b.
Proof. intros. unfold sub. rewrite <- skipn_length. apply firstn_all. Qed.

Lemma skipn_app_le : forall (a b : bytes) s, s <= length a -> skipn s (a ++ b) = skipn s a ++ b.
Proof. intros. rewrite skipn_app. replace (s - length a) with 0 by lia. reflexivity. Qed.

(* ---- readMore *)
Lemma readMore_loop_spec : forall fuel st res st',
  Inv st -> rd_fuel (rd st) < fuel -> readMore_loop fuel st = (res, st') ->
  match drop_ws (rd_bytes (rd st)) with
  | [] => res = Some false /\ err st' = Some (DIo (rfin (rd st)))
  | _ :: _ => res = Some true /\ Inv st' /\
              (exists D1, buf st' = buf st ++ D1 /\ rd_bytes (rd st) = D1 ++ rd_bytes (rd st')) /\
              rfin (rd st') = rfin (rd st) /\ pcap st' = pcap st /\
              rd_fuel (rd st') < rd_fuel (rd st) /\ scanned st' = scanned st
  end.
Proof.
  induction fuel as [|f IH]; intros st res st' I F H; [lia|].
  simpl in H. destruct I as [Ie Iw Ip Ic].
  unfold realloc in H. simpl in H.
  destruct (rd_read (rd st) (realloc_cap (length (buf st)) (cap st) (pcap st) - length (buf st))) as [[data e] r'] eqn:RR.
  pose proof (realloc_cap_space (length (buf st)) (cap st) (pcap st) Ip Ic) as SP.
  apply rd_read_spec in RR; [|lia|auto].
  destruct RR as (RB & RW & RF & RL & RD & RE & RS).
  match type of H with (let (_, _) := scan ?s in _) = _ => set (st2 := s) in * end.
  assert (B2 : skipn (scanp st2) (buf st2) = data).
  { unfold st2. simpl. rewrite skipn_app, Nat.sub_diag, skipn_all. reflexivity. }
  assert (I2 : Inv st2).
  { unfold st2. constructor; simpl; [exact Ie|exact RW|exact Ip|rewrite app_length; lia]. }
  destruct (scan st2) as [[c|] st3] eqn:S.
  - inversion H; subst res st'. clear H.
    apply scan_some in S. destruct S as (sp & tl & E & Hsp & Hc & -> & E2).
    rewrite B2 in E. rewrite RB, E. rewrite <- app_assoc. rewrite drop_ws_app_space by exact Hsp.
    simpl app. rewrite drop_ws_ns by exact Hc.
    split; auto. split. { destruct I2. constructor; auto. }
    simpl. split. { exists data. rewrite ?E. split; [reflexivity|rewrite <- app_assoc; reflexivity]. }
    split; auto. split; auto. split; auto.
    destruct (rchunks (rd st)) eqn:RC.
    + exfalso. unfold rd_bytes in RB. rewrite RC in RB. simpl in RB.
      symmetry in RB. apply app_eq_nil in RB. destruct RB as [RB _]. rewrite E in RB.
      destruct sp; discriminate.
    + apply RD. congruence.
  - apply scan_none in S. destruct S as [-> Hsp]. rewrite B2 in Hsp.
    destruct e as [e'|].
    + inversion H; subst res st'. clear H.
      destruct (RS e' eq_refl) as [-> RN].
      assert (RN' : rd_bytes r' = []) by (unfold rd_bytes; rewrite RN; reflexivity).
      rewrite RB, RN', app_nil_r.
      rewrite drop_ws_all_space by exact Hsp. split; reflexivity.
    + assert (RC : rchunks (rd st) <> []). { intros C. specialize (RE C). discriminate. }
      specialize (RD RC).
      assert (F2 : rd_fuel (rd st2) < f). { unfold st2; simpl. lia. }
      specialize (IH st2 res st' I2 F2 H).
      replace (rd_bytes (rd st2)) with (rd_bytes r') in IH by reflexivity.
      rewrite RB. rewrite drop_ws_app_space by exact Hsp.
      destruct (drop_ws (rd_bytes r')).
      * replace (rfin (rd st2)) with (rfin (rd st)) in IH by (unfold st2; simpl; auto). exact IH.
      * destruct IH as (A & B & (D1 & C1 & C2) & D & E & G & K).
        split; [exact A|]. split; [exact B|].
        split. { exists (data ++ D1). unfold st2 in C1; simpl in C1. rewrite C1, app_assoc.
                 split; auto. replace (rd_bytes (rd st2)) with (rd_bytes r') in C2 by reflexivity.
                 rewrite C2, app_assoc. reflexivity. }
        unfold st2 in *; simpl in *. split; [congruence|]. split; [exact E|]. split; [lia|exact K].
Qed.

(* ---- consume *)
Lemma consume_spec : forall st,
  Inv st -> scanp st <= length (buf st) ->
  Inv (consume st) /\
  drop_ws (pending (consume st)) = drop_ws (skipn (scanp st) (buf st) ++ rd_bytes (rd st)) /\
  rd (consume st) = rd st /\ pcap (consume st) = pcap st /\
  scanned st + scanp st <= scanned (consume st) + scanp (consume st) /\
  length (pending (consume st)) <= length (skipn (scanp st) (buf st) ++ rd_bytes (rd st)) /\
  scanp (consume st) = 0.
Proof.
  intros st [Ie Iw Ip Ic] Hs. unfold consume.
  destruct (scan st) as [[c|] st1] eqn:S.
  - apply scan_some in S. destruct S as (sp & tl & E & Hsp & Hc & -> & E4). simpl in E4. simpl.
    split. { constructor; simpl; auto. rewrite skipn_length. lia. }
    split. { unfold pending. simpl. rewrite E4, E. rewrite <- app_assoc. symmetry.
             rewrite drop_ws_app_space by exact Hsp. reflexivity. }
    split; auto. split; auto. split; [lia|]. split; [|reflexivity].
    unfold pending. simpl. rewrite E4, E. repeat (rewrite app_length; simpl). lia.
  - apply scan_none in S. destruct S as [-> Hsp]. simpl.
    split. { constructor; simpl; auto. }
    split. { unfold pending. simpl. rewrite drop_ws_app_space by exact Hsp. reflexivity. }
    split; [reflexivity|]. split; [reflexivity|]. split; [lia|]. split; [|reflexivity].
    unfold pending. simpl. rewrite app_length. lia.
Qed.

Section WithSkip.
Variable skip : bytes -> skipres.
Variable inner : bytes -> option bytes.

(* ---- the try_skip loop: R = everything from the value's first byte on, framed at n *)
Lemma try_skip_spec : forall fuel s st R n v,
  Inv st -> rd_fuel (rd st) < fuel -> s <= length (buf st) ->
  skipn s (buf st) ++ rd_bytes (rd st) = R ->
  framed_at skip R n -> 1 <= n <= length R -> is_space (nth (n - 1) R 0%N) = false ->
  inner (firstn n R) = Some v ->
  exists st', try_skip skip inner fuel s st = (RVal v, st') /\ Inv st' /\
              drop_ws (pending st') = drop_ws (skipn n R) /\
              rfin (rd st') = rfin (rd st) /\ pcap st' = pcap st /\
              scanned st + s + n <= scanned st' + scanp st' /\
              length (pending st') <= length (skipn n R).
Proof.
  induction fuel as [|f IH]; intros s st R n v I F Hs HR HF Hn Hns Hv; [lia|].
  simpl. rewrite sub_to_end.
  set (W := skipn s (buf st)) in *.
  assert (LW : length W = length (buf st) - s) by (unfold W; apply skipn_length).
  destruct (HF W (rd_bytes (rd st)) (eq_sym HR)) as [F1 F2].
  destruct (le_lt_dec n (length W)) as [L|L].
  - (* the buffer holds the whole value *)
    rewrite (F2 L). simpl.
    assert (E1 : length (buf st) <? n + s = false) by (apply Nat.ltb_ge; lia). rewrite E1.
    assert (E2 : sub (buf st) s (n + s) = firstn n R).
    { unfold sub. replace (n + s - s) with n by lia. fold W. rewrite <- HR. rewrite firstn_app.
      replace (n - length W) with 0 by lia. simpl. rewrite app_nil_r. reflexivity. }
    rewrite E2, Hv.
    assert (E3 : skipn n R = skipn (n + s) (buf st) ++ rd_bytes (rd st)).
    { rewrite <- HR. rewrite skipn_app_le by lia. unfold W. rewrite Nat.add_comm, skipn_add. reflexivity. }
    assert (I0 : Inv (set_scanp st (n + s))) by (destruct I; constructor; auto).
    destruct (consume_spec (set_scanp st (n + s)) I0 ltac:(simpl; lia)) as (I' & P' & R' & PC' & O' & PL' & _).
    simpl in P', R', PC', O', PL'.
    eexists. split; [reflexivity|]. split; [exact I'|]. split; [rewrite P', E3; reflexivity|].
    split; [rewrite R'; reflexivity|]. split; [exact PC'|]. split; [lia|]. rewrite E3. exact PL'.
  - (* not yet: read more *)
    specialize (F1 L).
    assert (NS : drop_ws (rd_bytes (rd st)) <> []).
    { intros C. apply drop_ws_nil_all_space in C.
      assert (nth (n - 1) R 0%N = nth (n - 1 - length W) (rd_bytes (rd st)) 0%N).
      { rewrite <- HR. apply app_nth2. lia. }
      rewrite H in Hns. rewrite all_space_nth in Hns; [discriminate|auto|].
      rewrite <- HR, app_length in Hn. lia. }
    assert (RM : exists st1, readMore st = (Some true, st1) /\ Inv st1 /\
                 (exists D1, buf st1 = buf st ++ D1 /\ rd_bytes (rd st) = D1 ++ rd_bytes (rd st1)) /\
                 rfin (rd st1) = rfin (rd st) /\ pcap st1 = pcap st /\
                 rd_fuel (rd st1) < rd_fuel (rd st) /\ scanned st1 = scanned st).
    { unfold readMore. rewrite (inv_err _ I).
      destruct (readMore_loop (S (rd_fuel (rd st))) st) as [res st1] eqn:RL.
      pose proof (readMore_loop_spec _ _ _ _ I (Nat.lt_succ_diag_r _) RL) as SP.
      destruct (drop_ws (rd_bytes (rd st))); [congruence|].
      destruct SP as (-> & SP). exists st1. split; auto. }
    destruct RM as (st1 & RM & I1 & (D1 & B1 & B2) & RF1 & PC1 & FU1 & SC1).
    rewrite F1. rewrite RM.
    assert (Hs1 : s <= length (buf st1)) by (rewrite B1, app_length; lia).
    assert (HR1 : skipn s (buf st1) ++ rd_bytes (rd st1) = R).
    { rewrite B1. rewrite skipn_app_le by lia. rewrite <- app_assoc, <- B2. exact HR. }
    destruct (IH s st1 R n v I1 ltac:(lia) Hs1 HR1 HF Hn Hns Hv) as (st' & T & I' & P' & RF' & PC' & O' & PL').
    exists st'. split; [exact T|]. split; [exact I'|]. split; [exact P'|].
    split; [congruence|]. split; [congruence|]. split; [lia|exact PL'].
Qed.

(* ---- numbers: decodeNumber *)
Definition is_num_start (c : N) : bool := (N.eqb c 45 || is_digit c)%bool.

Lemma num_run_le : forall l, num_run l <= length l.
Proof. induction l; simpl; [lia|]. destruct (is_number_byte a); simpl; lia. Qed.

Lemma num_run_app : forall a b,
  num_run (a ++ b) = if num_run a =? length a then length a + num_run b else num_run a.
Proof.
  induction a as [|x a IH]; intros b; simpl; [reflexivity|].
  destruct (is_number_byte x); [|reflexivity].
  rewrite IH. destruct (num_run a =? length a) eqn:E.
  - apply Nat.eqb_eq in E. rewrite E, Nat.eqb_refl. reflexivity.
  - apply Nat.eqb_neq in E. replace (S (num_run a) =? S (length a)) with false; [reflexivity|].
    symmetry. apply Nat.eqb_neq. lia.
Qed.

Lemma num_run_skipn : forall l k, k <= num_run l -> k + num_run (skipn k l) = num_run l.
Proof.
  induction l as [|x l IH]; intros k H; simpl in *.
  - assert (k = 0) by lia. subst. reflexivity.
  - destruct k; [reflexivity|]. destruct (is_number_byte x); [|lia].
    simpl. rewrite IH by lia. reflexivity.
Qed.

(* R = c :: rest is everything from the first byte of the number on; m = length of the run of number bytes *)
Lemma decodeNumber_loop_spec : forall fuel st s k c W' rest,
  Inv st -> rd_fuel (rd st) < fuel ->
  skipn s (buf st) = c :: W' -> rest = W' ++ rd_bytes (rd st) -> k <= num_run W' ->
  let m := S (num_run rest) in
  let R := c :: rest in
  exists res st', decodeNumber_loop fuel (S s + k) st = (res, st') /\
    scanned st' + scanp st' = scanned st + scanp st /\ pcap st' = pcap st /\ rfin (rd st') = rfin (rd st) /\
    ((m < length R /\ res = NBreak (s + m) /\ Inv st' /\ s + m < length (buf st') /\
      skipn s (buf st') ++ rd_bytes (rd st') = R) \/
     (m = length R /\
      match rfin (rd st) with
      | EOF => res = NBreak (s + m) /\ Inv st' /\ skipn s (buf st') = R /\ rd_bytes (rd st') = [] /\
               s + m = length (buf st')
      | ErrR k' => res = NErr /\ err st' = Some (DIo (ErrR k'))
      end)).
Proof.
  induction fuel as [|f IH]; intros st s k c W' rest I F HW HR Hk m R; [lia|].
  assert (Ls : s < length (buf st)).
  { destruct (le_lt_dec (length (buf st)) s); auto. rewrite skipn_all2 in HW by lia. discriminate. }
  assert (LW : length (buf st) = s + S (length W')).
  { pose proof (skipn_length s (buf st)) as L. rewrite HW in L. simpl in L. lia. }
  cbn [decodeNumber_loop].
  assert (E1 : skipn (S s + k) (buf st) = skipn k W').
  { replace (S s + k) with (s + S k) by lia. rewrite skipn_add, HW. reflexivity. }
  rewrite E1.
  assert (E2 : S s + k + num_run (skipn k W') = S s + num_run W').
  { pose proof (num_run_skipn W' k Hk). lia. }
  rewrite E2.
  pose proof (num_run_le W') as Q.
  destruct (S s + num_run W' <? length (buf st)) eqn:C.
  - (* a delimiter is in the buffer *)
    apply Nat.ltb_lt in C.
    assert (NE : num_run W' <> length W') by lia.
    assert (M : num_run rest = num_run W').
    { rewrite HR, num_run_app. apply Nat.eqb_neq in NE. rewrite NE. reflexivity. }
    exists (NBreak (S s + num_run W')), st. split; [reflexivity|].
    split; [reflexivity|]. split; [reflexivity|]. split; [reflexivity|].
    left. unfold m, R. rewrite M. simpl length. rewrite HR, app_length.
    split; [lia|]. split; [f_equal; lia|]. split; [exact I|]. split; [lia|].
    rewrite HW. subst rest. reflexivity.
  - apply Nat.ltb_ge in C.
    assert (QE : num_run W' = length W') by lia.
    destruct I as [Ie Iw Ip Ic].
    unfold realloc. simpl.
    destruct (rd_read (rd st) (realloc_cap (length (buf st)) (cap st) (pcap st) - length (buf st))) as [[data e] r'] eqn:RR.
    pose proof (realloc_cap_space (length (buf st)) (cap st) (pcap st) Ip Ic) as SP.
    apply rd_read_spec in RR; [|lia|auto].
    destruct RR as (RB & RW & RF & RL & RD & RE & RS).
    assert (M : num_run rest = length W' + num_run (rd_bytes (rd st))).
    { rewrite HR, num_run_app, QE, Nat.eqb_refl. reflexivity. }
    set (st2 := set_rd (set_buf (set_buf st (buf st) (realloc_cap (length (buf st)) (cap st) (pcap st)))
                                (buf st ++ data) (realloc_cap (length (buf st)) (cap st) (pcap st))) r').
    assert (I2 : Inv st2).
    { unfold st2. constructor; simpl; [exact Ie|exact RW|exact Ip|rewrite app_length; lia]. }
    assert (LAST : forall e', e = Some e' -> data = [] ->
                   rd_bytes (rd st) = [] /\ e' = rfin (rd st) /\ m = length R).
    { intros e' -> ->. destruct (RS e' eq_refl) as [-> RN].
      assert (rd_bytes r' = []) by (unfold rd_bytes; rewrite RN; reflexivity).
      assert (rd_bytes (rd st) = []) by (rewrite RB, H; reflexivity).
      split; auto. split; auto. unfold m, R. rewrite M, H0. simpl. rewrite HR, H0, app_nil_r. lia. }
    assert (LOOP : (e = None \/ data <> []) ->
      exists res st', decodeNumber_loop f (S s + num_run W') st2 = (res, st') /\
        scanned st' + scanp st' = scanned st + scanp st /\ pcap st' = pcap st /\ rfin (rd st') = rfin (rd st) /\
        ((m < length R /\ res = NBreak (s + m) /\ Inv st' /\ s + m < length (buf st') /\
          skipn s (buf st') ++ rd_bytes (rd st') = R) \/
         (m = length R /\
          match rfin (rd st) with
          | EOF => res = NBreak (s + m) /\ Inv st' /\ skipn s (buf st') = R /\ rd_bytes (rd st') = [] /\
                   s + m = length (buf st')
          | ErrR k' => res = NErr /\ err st' = Some (DIo (ErrR k'))
          end))).
    { intros NL.
      assert (RC : rchunks (rd st) <> []).
      { intros C0. specialize (RE C0). destruct NL as [NL|NL]; [congruence|].
        apply NL. unfold rd_bytes in RB. rewrite C0 in RB. simpl in RB.
        symmetry in RB. apply app_eq_nil in RB. tauto. }
      specialize (RD RC).
      assert (HW2 : skipn s (buf st2) = c :: (W' ++ data)).
      { unfold st2. simpl. rewrite skipn_app_le by lia. rewrite HW. reflexivity. }
      assert (HR2 : rest = (W' ++ data) ++ rd_bytes (rd st2)).
      { unfold st2. simpl. rewrite <- app_assoc, <- RB. exact HR. }
      assert (Hk2 : num_run W' <= num_run (W' ++ data)).
      { rewrite num_run_app, QE, Nat.eqb_refl. lia. }
      destruct (IH st2 s (num_run W') c (W' ++ data) rest I2 ltac:(unfold st2; simpl; lia) HW2 HR2 Hk2)
        as (res & st' & A & B1 & B2 & B3 & B4).
      exists res, st'. split; [exact A|].
      unfold st2 in B1, B2, B3, B4. simpl in B1, B2, B3, B4. rewrite RF in B3, B4.
      split; [exact B1|]. split; [exact B2|]. split; [exact B3|]. exact B4. }
    fold st2.
    destruct e as [e'|].
    + destruct data as [|d0 data'].
      * destruct (LAST e' eq_refl eq_refl) as (DN & -> & MR).
        destruct (rfin (rd st)) as [|k'] eqn:FIN.
        -- exists (NBreak (S s + num_run W')), st2. split; [reflexivity|].
           unfold st2. simpl. split; [reflexivity|]. split; [reflexivity|]. split; [exact RF|].
           right. split; [exact MR|].
           split. { f_equal. unfold m. rewrite M, DN, QE. simpl. lia. }
           split. { exact I2. }
           rewrite app_nil_r. split. { rewrite HW. unfold R. rewrite HR, DN, app_nil_r. reflexivity. }
           split. { rewrite RB in DN. apply app_eq_nil in DN. tauto. }
           unfold m. rewrite M, DN. simpl. lia.
        -- exists NErr, (setErr (DIo (ErrR k')) st2). split; [reflexivity|].
           simpl. split; [lia|]. split; [reflexivity|]. split; [exact RF|].
           right. split; [exact MR|]. split; reflexivity.
      * destruct e'; apply LOOP; right; discriminate.
    + destruct data as [|d0 data']; apply LOOP; left; reflexivity.
Qed.

(* ---- Decode *)
Lemma peek_first : forall st c rest,
  Inv st -> drop_ws (pending st) = c :: rest ->
  exists st1, peek (S (rd_fuel (rd st))) None st = (PChar c, st1) /\ Inv st1 /\ pending st1 = c :: rest /\
              rfin (rd st1) = rfin (rd st) /\ pcap st1 = pcap st /\
              (exists tl, skipn (scanp st1) (buf st1) = c :: tl) /\ scanp st1 < length (buf st1) /\
              scanned st + scanp st <= scanned st1 + scanp st1.
Proof.
  intros st c rest I HP.
  destruct (peek (S (rd_fuel (rd st))) None st) as [res st1] eqn:PK.
  pose proof (peek_spec _ _ _ _ _ I PK (Nat.lt_succ_diag_r _)) as SP.
  rewrite HP in SP. destruct SP as (-> & I1 & P1 & RF1 & PC1 & (tl & T1) & O1).
  exists st1. split; [reflexivity|]. split; [exact I1|]. split; [exact P1|]. split; [exact RF1|].
  split; [exact PC1|]. split; [eauto|]. split; [|exact O1].
  destruct (le_lt_dec (length (buf st1)) (scanp st1)); auto. rewrite skipn_all2 in T1 by lia. discriminate.
Qed.

Lemma Decode_val : forall st c rest n v,
  Inv st -> drop_ws (pending st) = c :: rest -> is_num_start c = false ->
  framed_at skip (c :: rest) n -> 1 <= n <= length (c :: rest) ->
  is_space (nth (n - 1) (c :: rest) 0%N) = false ->
  inner (firstn n (c :: rest)) = Some v ->
  exists st', Decode skip inner st = (RVal v, st') /\ Inv st' /\
              drop_ws (pending st') = drop_ws (skipn n (c :: rest)) /\
              rfin (rd st') = rfin (rd st) /\ pcap st' = pcap st /\
              length (pending st') <= length (skipn n (c :: rest)).
Proof.
  intros st c rest n v I HP Hc HF Hn Hns Hv.
  unfold Decode. rewrite (inv_err _ I).
  destruct (peek_first st c rest I HP) as (st1 & PK & I1 & P1 & RF1 & PC1 & (tl & T1) & Hs & O1).
  rewrite PK. unfold is_num_start in Hc. rewrite Hc.
  destruct (try_skip_spec (S (rd_fuel (rd st1))) (scanp st1) st1 (c :: rest) n v I1
              (Nat.lt_succ_diag_r _) ltac:(lia) P1 HF Hn Hns Hv) as (st' & T & I' & P' & RF' & PC' & O' & PL').
  exists st'. split; [exact T|]. split; [exact I'|]. split; [exact P'|].
  split; [congruence|]. split; [congruence|exact PL'].
Qed.

Lemma Decode_end : forall st,
  Inv st -> drop_ws (pending st) = [] ->
  exists st', Decode skip inner st = (RErr (DIo (rfin (rd st))), st').
Proof.
  intros st I HP. unfold Decode. rewrite (inv_err _ I).
  destruct (peek (S (rd_fuel (rd st))) None st) as [res st1] eqn:PK.
  pose proof (peek_spec _ _ _ _ _ I PK (Nat.lt_succ_diag_r _)) as SP.
  rewrite HP in SP. destruct SP as (-> & E). rewrite E. eauto.
Qed.

(* a number: the run of number bytes is followed by another byte of the stream *)
Lemma Decode_num : forall st c rest v,
  Inv st -> drop_ws (pending st) = c :: rest -> is_num_start c = true ->
  let m := S (num_run rest) in
  m < length (c :: rest) ->
  inner (firstn m (c :: rest)) = Some v -> length v <= m ->
  exists st', Decode skip inner st = (RVal v, st') /\ Inv st' /\
              drop_ws (pending st') = drop_ws (skipn (length v) (c :: rest)) /\
              rfin (rd st') = rfin (rd st) /\ pcap st' = pcap st /\
              length (pending st') <= length (skipn (length v) (c :: rest)).
Proof.
  intros st c rest v I HP Hc m Hm Hv Hl. subst m. set (m := S (num_run rest)) in *.
  unfold Decode. rewrite (inv_err _ I).
  destruct (peek_first st c rest I HP) as (st1 & PK & I1 & P1 & RF1 & PC1 & (tl & T1) & Hs & O1).
  rewrite PK. unfold is_num_start in Hc. rewrite Hc. unfold decodeNumber.
  assert (HR : rest = tl ++ rd_bytes (rd st1)).
  { unfold pending in P1. rewrite T1 in P1. simpl in P1. inversion P1. reflexivity. }
  destruct (decodeNumber_loop_spec (S (rd_fuel (rd st1))) st1 (scanp st1) 0 c tl rest I1
              (Nat.lt_succ_diag_r _) T1 HR ltac:(lia)) as (res & st2 & DL & S2 & PC2 & RF2 & CASES).
  rewrite Nat.add_0_r in DL. rewrite DL.
  fold m in CASES, DL. destruct CASES as [(_ & -> & I2 & L2 & R2)|(ME & _)]; [|lia].
  assert (E2 : sub (buf st2) (scanp st1) (scanp st1 + m) = firstn m (c :: rest)).
  { unfold sub. replace (scanp st1 + m - scanp st1) with m by lia. rewrite <- R2.
    rewrite firstn_app. rewrite skipn_length. replace (m - (length (buf st2) - scanp st1)) with 0 by lia.
    simpl. rewrite app_nil_r. reflexivity. }
  rewrite E2, Hv.
  assert (I0 : Inv (set_scanp st2 (scanp st1 + length v))) by (destruct I2; constructor; auto).
  destruct (consume_spec _ I0 ltac:(simpl; lia)) as (I' & P' & R' & PC' & O' & PL' & _).
  simpl in P', R', PC', O', PL'.
  assert (EQ : skipn (scanp st1 + length v) (buf st2) ++ rd_bytes (rd st2) = skipn (length v) (c :: rest)).
  { rewrite <- R2. rewrite skipn_app_le by (rewrite skipn_length; lia). rewrite skipn_add. reflexivity. }
  eexists. split; [reflexivity|]. split; [exact I'|].
  split. { rewrite P', EQ. reflexivity. }
  split; [rewrite R'; congruence|]. split; [congruence|]. rewrite <- EQ. exact PL'.
Qed.

(* a number that runs up to the end of the stream *)
Lemma Decode_num_end : forall st c rest,
  Inv st -> drop_ws (pending st) = c :: rest -> is_num_start c = true ->
  S (num_run rest) = length (c :: rest) ->
  match rfin (rd st) with
  | EOF => forall v, inner (c :: rest) = Some v -> length v <= length (c :: rest) ->
           exists st', Decode skip inner st = (RVal v, st') /\ Inv st' /\
                       drop_ws (pending st') = drop_ws (skipn (length v) (c :: rest)) /\
                       rfin (rd st') = rfin (rd st) /\ pcap st' = pcap st /\
                       length (pending st') <= length (skipn (length v) (c :: rest))
  | ErrR k => exists st', Decode skip inner st = (RErr (DIo (ErrR k)), st')
  end.
Proof.
  intros st c rest I HP Hc Hm.
  assert (PRE : exists st1 tl, peek (S (rd_fuel (rd st))) None st = (PChar c, st1) /\ Inv st1 /\
                  skipn (scanp st1) (buf st1) = c :: tl /\ rest = tl ++ rd_bytes (rd st1) /\
                  rfin (rd st1) = rfin (rd st) /\ pcap st1 = pcap st /\ scanp st1 < length (buf st1)).
  { destruct (peek_first st c rest I HP) as (st1 & PK & I1 & P1 & RF1 & PC1 & (tl & T1) & Hs & O1).
    exists st1, tl. split; [exact PK|]. split; [exact I1|]. split; [exact T1|].
    split. { unfold pending in P1. rewrite T1 in P1. simpl in P1. inversion P1. reflexivity. }
    split; [exact RF1|]. split; [exact PC1|exact Hs]. }
  destruct PRE as (st1 & tl & PK & I1 & T1 & HR & RF1 & PC1 & Hs).
  destruct (decodeNumber_loop_spec (S (rd_fuel (rd st1))) st1 (scanp st1) 0 c tl rest I1
              (Nat.lt_succ_diag_r _) T1 HR ltac:(lia)) as (res & st2 & DL & S2 & PC2 & RF2 & CASES).
  rewrite Nat.add_0_r in DL.
  destruct CASES as [(ML & _)|(_ & CASE)]; [lia|].
  rewrite RF1 in CASE.
  destruct (rfin (rd st)) as [|k] eqn:FIN.
  - intros v Hv Hl. destruct CASE as (-> & I2 & R2 & D2 & L2).
    unfold Decode. rewrite (inv_err _ I), PK. unfold is_num_start in Hc. rewrite Hc. unfold decodeNumber. rewrite DL.
    assert (E2 : sub (buf st2) (scanp st1) (scanp st1 + S (num_run rest)) = c :: rest).
    { unfold sub. replace (scanp st1 + S (num_run rest) - scanp st1) with (S (num_run rest)) by lia.
      rewrite R2, Hm. apply firstn_all. }
    rewrite E2, Hv.
    assert (I0 : Inv (set_scanp st2 (scanp st1 + length v))) by (destruct I2; constructor; auto).
    destruct (consume_spec _ I0 ltac:(simpl; lia)) as (I' & P' & R' & PC' & O' & PL' & _).
    simpl in P', R', PC', O', PL'.
    assert (EQ : skipn (scanp st1 + length v) (buf st2) ++ rd_bytes (rd st2) = skipn (length v) (c :: rest)).
    { rewrite D2, app_nil_r. rewrite skipn_add, R2. reflexivity. }
    eexists. split; [reflexivity|]. split; [exact I'|].
    split. { rewrite P', EQ. reflexivity. }
    split; [rewrite R'; congruence|]. split; [congruence|]. rewrite <- EQ. exact PL'.
  - destruct CASE as (-> & E).
    unfold Decode. rewrite (inv_err _ I), PK. unfold is_num_start in Hc. rewrite Hc. unfold decodeNumber. rewrite DL, E.
    eauto.
Qed.

(* a byte that cannot start a value: syntax error at once, whatever follows and whatever the reader does *)
Lemma Decode_inval : forall st c rest,
  Inv st -> drop_ws (pending st) = c :: rest -> is_num_start c = false ->
  (forall tl, skip (c :: tl) = SkInval) ->
  exists st', Decode skip inner st = (RErr DSyntax, st').
Proof.
  intros st c rest I HP Hc HS.
  unfold Decode. rewrite (inv_err _ I).
  destruct (peek_first st c rest I HP) as (st1 & PK & I1 & P1 & RF1 & PC1 & (tl & T1) & Hs & O1).
  rewrite PK. unfold is_num_start in Hc. rewrite Hc. simpl. rewrite sub_to_end, T1, HS. eauto.
Qed.

(* a value cut off by the end of the stream: every buffer holding a prefix of R gets "EOF inside the value" *)
Lemma try_skip_trunc : forall fuel s st R,
  Inv st -> rd_fuel (rd st) < fuel -> s <= length (buf st) ->
  skipn s (buf st) ++ rd_bytes (rd st) = R ->
  (forall P Q, R = P ++ Q -> skip P = SkEof) ->
  exists st', try_skip skip inner fuel s st =
              (match rfin (rd st) with EOF => RErr DUnexpEOF | ErrR k => RErr (DIo (ErrR k)) end, st').
Proof.
  induction fuel as [|f IH]; intros s st R I F Hs HR HT; [lia|].
  simpl. rewrite sub_to_end. rewrite (HT _ _ (eq_sym HR)).
  unfold readMore. rewrite (inv_err _ I).
  destruct (readMore_loop (S (rd_fuel (rd st))) st) as [res st1] eqn:RL.
  pose proof (readMore_loop_spec _ _ _ _ I (Nat.lt_succ_diag_r _) RL) as SP.
  destruct (drop_ws (rd_bytes (rd st))).
  - destruct SP as (-> & E). rewrite E. destruct (rfin (rd st)); eauto.
  - destruct SP as (-> & I1 & (D1 & B1 & B2) & RF1 & PC1 & FU1 & SC1).
    assert (Hs1 : s <= length (buf st1)) by (rewrite B1, app_length; lia).
    assert (HR1 : skipn s (buf st1) ++ rd_bytes (rd st1) = R).
    { rewrite B1. rewrite skipn_app_le by lia. rewrite <- app_assoc, <- B2. exact HR. }
    destruct (IH s st1 R I1 ltac:(lia) Hs1 HR1 HT) as (st' & T). rewrite T, RF1. eauto.
Qed.

Lemma Decode_trunc : forall st c rest,
  Inv st -> drop_ws (pending st) = c :: rest -> is_num_start c = false ->
  (forall P Q, c :: rest = P ++ Q -> skip P = SkEof) ->
  exists st', Decode skip inner st =
              (match rfin (rd st) with EOF => RErr DUnexpEOF | ErrR k => RErr (DIo (ErrR k)) end, st').
Proof.
  intros st c rest I HP Hc HT.
  unfold Decode. rewrite (inv_err _ I).
  destruct (peek_first st c rest I HP) as (st1 & PK & I1 & P1 & RF1 & PC1 & (tl & T1) & Hs & O1).
  rewrite PK. unfold is_num_start in Hc. rewrite Hc.
  destruct (try_skip_trunc (S (rd_fuel (rd st1))) (scanp st1) st1 (c :: rest) I1 (Nat.lt_succ_diag_r _)
              ltac:(lia) P1 HT) as (st' & T).
  rewrite T, RF1. eauto.
Qed.

(* a framed value that the inner decoder rejects *)
Lemma try_skip_bad : forall fuel s st R n,
  Inv st -> rd_fuel (rd st) < fuel -> s <= length (buf st) ->
  skipn s (buf st) ++ rd_bytes (rd st) = R ->
  framed_at skip R n -> 1 <= n <= length R -> is_space (nth (n - 1) R 0%N) = false ->
  inner (firstn n R) = None ->
  exists st', try_skip skip inner fuel s st = (RErr DSyntax, st').
Proof.
  induction fuel as [|f IH]; intros s st R n I F Hs HR HF Hn Hns Hv; [lia|].
  simpl. rewrite sub_to_end.
  set (W := skipn s (buf st)) in *.
  assert (LW : length W = length (buf st) - s) by (unfold W; apply skipn_length).
  destruct (HF W (rd_bytes (rd st)) (eq_sym HR)) as [F1 F2].
  destruct (le_lt_dec n (length W)) as [L|L].
  - rewrite (F2 L). simpl.
    assert (E1 : length (buf st) <? n + s = false) by (apply Nat.ltb_ge; lia). rewrite E1.
    assert (E2 : sub (buf st) s (n + s) = firstn n R).
    { unfold sub. replace (n + s - s) with n by lia. fold W. rewrite <- HR. rewrite firstn_app.
      replace (n - length W) with 0 by lia. simpl. rewrite app_nil_r. reflexivity. }
    rewrite E2, Hv. eauto.
  - specialize (F1 L).
    assert (NS : drop_ws (rd_bytes (rd st)) <> []).
    { intros C. apply drop_ws_nil_all_space in C.
      assert (nth (n - 1) R 0%N = nth (n - 1 - length W) (rd_bytes (rd st)) 0%N).
      { rewrite <- HR. apply app_nth2. lia. }
      rewrite H in Hns. rewrite all_space_nth in Hns; [discriminate|auto|].
      rewrite <- HR, app_length in Hn. lia. }
    rewrite F1. unfold readMore. rewrite (inv_err _ I).
    destruct (readMore_loop (S (rd_fuel (rd st))) st) as [res st1] eqn:RL.
    pose proof (readMore_loop_spec _ _ _ _ I (Nat.lt_succ_diag_r _) RL) as SP.
    destruct (drop_ws (rd_bytes (rd st))); [congruence|].
    destruct SP as (-> & I1 & (D1 & B1 & B2) & RF1 & PC1 & FU1 & SC1).
    assert (Hs1 : s <= length (buf st1)) by (rewrite B1, app_length; lia).
    assert (HR1 : skipn s (buf st1) ++ rd_bytes (rd st1) = R).
    { rewrite B1. rewrite skipn_app_le by lia. rewrite <- app_assoc, <- B2. exact HR. }
    exact (IH s st1 R n I1 ltac:(lia) Hs1 HR1 HF Hn Hns Hv).
Qed.

Lemma Decode_bad : forall st c rest n,
  Inv st -> drop_ws (pending st) = c :: rest -> is_num_start c = false ->
  framed_at skip (c :: rest) n -> 1 <= n <= length (c :: rest) ->
  is_space (nth (n - 1) (c :: rest) 0%N) = false ->
  inner (firstn n (c :: rest)) = None ->
  exists st', Decode skip inner st = (RErr DSyntax, st').
Proof.
  intros st c rest n I HP Hc HF Hn Hns Hv.
  unfold Decode. rewrite (inv_err _ I).
  destruct (peek_first st c rest I HP) as (st1 & PK & I1 & P1 & RF1 & PC1 & (tl & T1) & Hs & O1).
  rewrite PK. unfold is_num_start in Hc. rewrite Hc.
  exact (try_skip_bad (S (rd_fuel (rd st1))) (scanp st1) st1 (c :: rest) n I1 (Nat.lt_succ_diag_r _)
           ltac:(lia) P1 HF Hn Hns Hv).
Qed.

(* ---- streams on which the framing is right: the guard of the chunk-independence theorem.
   good_stream fin s vs t: read from a reader whose final condition is fin, the stream s yields vs and then t *)
Inductive good_stream (fin : ioerr) : bytes -> list bytes -> term -> Prop :=
| gs_end : forall s, drop_ws s = [] -> good_stream fin s [] (TIo fin)
| gs_val : forall s c rest n v vs t,
    drop_ws s = c :: rest -> is_num_start c = false ->
    framed_at skip (c :: rest) n -> 1 <= n <= length (c :: rest) ->
    is_space (nth (n - 1) (c :: rest) 0%N) = false ->
    inner (firstn n (c :: rest)) = Some v ->
    good_stream fin (skipn n (c :: rest)) vs t ->
    good_stream fin s (v :: vs) t
| gs_num : forall s c rest v vs t,
    drop_ws s = c :: rest -> is_num_start c = true ->
    S (num_run rest) < length (c :: rest) ->
    inner (firstn (S (num_run rest)) (c :: rest)) = Some v -> length v <= S (num_run rest) ->
    good_stream fin (skipn (length v) (c :: rest)) vs t ->
    good_stream fin s (v :: vs) t
| gs_num_eof : forall s c rest v vs t,
    fin = EOF ->
    drop_ws s = c :: rest -> is_num_start c = true ->
    S (num_run rest) = length (c :: rest) ->
    inner (c :: rest) = Some v -> length v <= length (c :: rest) ->
    good_stream fin (skipn (length v) (c :: rest)) vs t ->
    good_stream fin s (v :: vs) t
| gs_num_err : forall s c rest k,
    fin = ErrR k ->
    drop_ws s = c :: rest -> is_num_start c = true ->
    S (num_run rest) = length (c :: rest) ->
    good_stream fin s [] (TIo fin)
| gs_inval : forall s c rest,
    drop_ws s = c :: rest -> is_num_start c = false ->
    (forall tl, skip (c :: tl) = SkInval) ->
    good_stream fin s [] TSyntax
| gs_bad : forall s c rest n,
    drop_ws s = c :: rest -> is_num_start c = false ->
    framed_at skip (c :: rest) n -> 1 <= n <= length (c :: rest) ->
    is_space (nth (n - 1) (c :: rest) 0%N) = false ->
    inner (firstn n (c :: rest)) = None ->
    good_stream fin s [] TSyntax
| gs_trunc : forall s c rest,
    drop_ws s = c :: rest -> is_num_start c = false ->
    (forall P Q, c :: rest = P ++ Q -> skip P = SkEof) ->
    good_stream fin s [] (match fin with EOF => TSyntax | _ => TIo fin end).

Theorem decode_all_good : forall fin s vs t,
  good_stream fin s vs t ->
  forall st fuel, Inv st -> rfin (rd st) = fin -> drop_ws (pending st) = drop_ws s -> length vs < fuel ->
  exists st', decode_all skip inner fuel st = (vs, t, st').
Proof.
  induction 1 as [s E
                 |s c rest n v vs t E Hc HF Hn Hns Hv G IH
                 |s c rest v vs t E Hc Hm Hv Hl G IH
                 |s c rest v vs t FE E Hc Hm Hv Hl G IH
                 |s c rest k FE E Hc Hm
                 |s c rest E Hc HS
                 |s c rest n E Hc HF Hn Hns Hv
                 |s c rest E Hc HT]; intros st fuel I HFin HP L;
    (destruct fuel; [simpl in L; lia|]); simpl; rewrite E in HP.
  - destruct (Decode_end st I HP) as (st' & D). rewrite D, HFin. simpl. eauto.
  - destruct (Decode_val st c rest n v I HP Hc HF Hn Hns Hv) as (st1 & D & I1 & P1 & RF1 & PC1 & _).
    rewrite D.
    destruct (IH st1 fuel I1 ltac:(congruence) P1 ltac:(simpl in L; lia)) as (st' & DA). rewrite DA. eauto.
  - destruct (Decode_num st c rest v I HP Hc Hm Hv Hl) as (st1 & D & I1 & P1 & RF1 & PC1 & _).
    rewrite D.
    destruct (IH st1 fuel I1 ltac:(congruence) P1 ltac:(simpl in L; lia)) as (st' & DA). rewrite DA. eauto.
  - pose proof (Decode_num_end st c rest I HP Hc Hm) as DN. rewrite HFin, FE in DN.
    destruct (DN v Hv Hl) as (st1 & D & I1 & P1 & RF1 & PC1 & _).
    rewrite D.
    destruct (IH st1 fuel I1 ltac:(congruence) P1 ltac:(simpl in L; lia)) as (st' & DA). rewrite DA. eauto.
  - pose proof (Decode_num_end st c rest I HP Hc Hm) as DN. rewrite HFin, FE in DN.
    destruct DN as (st' & D). rewrite D. rewrite FE. simpl. eauto.
  - destruct (Decode_inval st c rest I HP Hc HS) as (st' & D). rewrite D. simpl. eauto.
  - destruct (Decode_bad st c rest n I HP Hc HF Hn Hns Hv) as (st' & D). rewrite D. simpl. eauto.
  - destruct (Decode_trunc st c rest I HP Hc HT) as (st' & D). rewrite D, HFin. destruct fin; simpl; eauto.
Qed.

(* a successful Decode consumes at least one byte - whatever the state, the reader and the stream *)
Hypothesis skip_pos : forall w y x, skip w = SkOk y x -> y < x.

Lemma scan_offset : forall st c st1, scan st = (c, st1) ->
  scanned st1 = scanned st /\ scanp st <= scanp st1 /\ buf st1 = buf st /\ rd st1 = rd st.
Proof.
  intros st c st1 H. unfold scan in H.
  destruct (first_ns (skipn (scanp st) (buf st)) 0) as [[[i c'] tl]|]; inversion H; subst; simpl; repeat split; lia.
Qed.

Lemma readMore_loop_scanned : forall n st st1,
  readMore_loop n st = (Some true, st1) -> scanned st1 = scanned st.
Proof.
  induction n; intros st st1 RM; simpl in RM; [discriminate|].
  destruct (rd_read _ _) as [[data e] r'] in RM.
  destruct (scan _) as [c st3] eqn:S in RM.
  apply scan_offset in S. simpl in S. destruct S as (S1 & _).
  destruct c.
  - inversion RM; subst. exact S1.
  - destruct e; [discriminate|]. apply IHn in RM. rewrite RM. exact S1.
Qed.

Lemma readMore_scanned : forall st st1, readMore st = (Some true, st1) -> scanned st1 = scanned st.
Proof.
  intros st st1 RM. unfold readMore in RM. destruct (err st); [discriminate|].
  eapply readMore_loop_scanned; eauto.
Qed.

(* errors are sticky: whatever error Decode returns is recorded, and every later Decode returns it again without
   touching the reader or the state *)
Lemma try_skip_err_recorded : forall fuel s st e st',
  try_skip skip inner fuel s st = (RErr e, st') -> err st' = Some e.
Proof.
  induction fuel as [|f IH]; intros s st e st' H; simpl in H; [discriminate|].
  destruct (skip (sub (buf st) s (length (buf st)))) as [y x| |].
  - destruct (length (buf st) <? x + (y + s)); [discriminate|].
    destruct (inner (sub (buf st) (y + s) (x + (y + s)))).
    + discriminate.
    + inversion H; subst. reflexivity.
  - destruct (readMore st) as [[[|]|] st1].
    + eapply IH; eauto.
    + destruct (err st1) as [[[|k]| |]|] eqn:E1; inversion H; subst; auto.
    + discriminate.
  - inversion H; subst. reflexivity.
Qed.

Lemma decodeNumber_err_recorded : forall s st e st',
  decodeNumber inner s st = (RErr e, st') -> err st' = Some e.
Proof.
  intros s st e st' H. unfold decodeNumber in H.
  destruct (decodeNumber_loop (S (rd_fuel (rd st))) (S s) st) as [[i| |] st1].
  - destruct (inner (sub (buf st1) s i)); [discriminate|]. inversion H; subst. reflexivity.
  - destruct (err st1) eqn:E1; inversion H; subst; auto.
  - discriminate.
Qed.

Theorem decode_error_recorded : forall st e st', Decode skip inner st = (RErr e, st') -> err st' = Some e.
Proof.
  intros st e st' H. unfold Decode in H.
  destruct (err st) eqn:E0. { inversion H; subst. exact E0. }
  destruct (peek (S (rd_fuel (rd st))) None st) as [[c|e1|] st1].
  - destruct (N.eqb c 45 || is_digit c)%bool.
    + eapply decodeNumber_err_recorded; eauto.
    + eapply try_skip_err_recorded; eauto.
  - destruct (err st1) eqn:E1; inversion H; subst; auto.
  - discriminate.
Qed.

Theorem decode_error_sticky : forall st e, err st = Some e -> Decode skip inner st = (RErr e, st).
Proof. intros st e H. unfold Decode. rewrite H. reflexivity. Qed.

(* ---- Buffered() is total: scanp never exceeds the length of the buffer, in any state reached from a fresh decoder
   by Decode / More, for every reader, framing routine and inner decoder *)
Definition BInv (st : sd) : Prop := scanp st <= length (buf st).

Lemma first_ns_index : forall l i j c rest, first_ns l i = Some (j, c, rest) -> j < i + length l.
Proof.
  induction l as [|a l IH]; intros i j c rest H; simpl in H; [discriminate|].
  destruct (is_space a).
  - apply IH in H. simpl. lia.
  - inversion H; subst. simpl. lia.
Qed.

Lemma scan_binv : forall st c st1, BInv st -> scan st = (c, st1) -> BInv st1.
Proof.
  intros st c st1 B H. unfold scan in H.
  destruct (first_ns (skipn (scanp st) (buf st)) 0) as [[[i c'] tl]|] eqn:F; inversion H; subst; auto.
  apply first_ns_index in F. rewrite skipn_length in F. unfold BInv in *. simpl. lia.
Qed.

Lemma setErr_binv : forall e st, BInv (setErr e st).
Proof. intros. unfold BInv. simpl. lia. Qed.

Lemma refill_binv : forall st e st', BInv st -> refill st = (e, st') -> BInv st'.
Proof.
  intros st e st' B H. unfold refill in H.
  destruct (rd_read _ _) as [[data e2] r'] in H. inversion H; subst. unfold BInv in *. simpl.
  destruct (0 <? scanp st); simpl; rewrite app_length; lia.
Qed.

Lemma peek_binv : forall fuel e0 st r st', BInv st -> peek fuel e0 st = (r, st') -> BInv st'.
Proof.
  induction fuel; intros e0 st r st' B H; simpl in H; [inversion H; subst; auto|].
  destruct (scan st) as [[c|] st1] eqn:S.
  - inversion H; subst. eapply scan_binv; eauto.
  - pose proof (scan_binv _ _ _ B S) as B1. destruct e0.
    + inversion H; subst. apply setErr_binv.
    + destruct (refill st1) as [e st2] eqn:R. eapply IHfuel; [|exact H]. eapply refill_binv; eauto.
Qed.

Lemma readMore_loop_binv : forall fuel st r st', readMore_loop fuel st = (r, st') -> BInv st -> BInv st'.
Proof.
  induction fuel; intros st r st' H B; simpl in H; [inversion H; subst; auto|].
  destruct (rd_read _ _) as [[data e] r'] in H.
  destruct (scan _) as [[c|] st3] eqn:S in H.
  - inversion H; subst. eapply scan_binv; [|exact S]. unfold BInv. simpl. rewrite app_length. lia.
  - assert (B3 : BInv st3). { eapply scan_binv; [|exact S]. unfold BInv. simpl. rewrite app_length. lia. }
    destruct e; [inversion H; subst; apply setErr_binv|]. eapply IHfuel; eauto.
Qed.

Lemma readMore_binv : forall st r st', readMore st = (r, st') -> BInv st -> BInv st'.
Proof.
  intros st r st' H B. unfold readMore in H. destruct (err st); [inversion H; subst; auto|].
  eapply readMore_loop_binv; eauto.
Qed.

Lemma consume_binv : forall st, BInv (consume st).
Proof. intros st. unfold consume. destruct (scan st) as [c st1]. unfold BInv. simpl. lia. Qed.

Lemma try_skip_binv : forall fuel s st r st', try_skip skip inner fuel s st = (r, st') -> BInv st -> BInv st'.
Proof.
  induction fuel; intros s st r st' H B; simpl in H; [inversion H; subst; auto|].
  destruct (skip _) as [y x| |].
  - destruct (_ <? _); [inversion H; subst; auto|].
    destruct (inner _); inversion H; subst; [apply consume_binv|apply setErr_binv].
  - destruct (readMore st) as [[[|]|] st1] eqn:RM; pose proof (readMore_binv _ _ _ RM B) as B1.
    + eapply IHfuel; eauto.
    + destruct (err st1) as [[[|k]| |]|]; inversion H; subst; auto.
    + inversion H; subst; auto.
  - inversion H; subst. apply setErr_binv.
Qed.

Lemma decodeNumber_loop_binv : forall fuel i st r st', decodeNumber_loop fuel i st = (r, st') -> BInv st -> BInv st'.
Proof.
  induction fuel; intros i st r st' H B; simpl in H; [inversion H; subst; auto|].
  destruct (_ <? _) in H; [inversion H; subst; auto|].
  destruct (rd_read _ _) as [[data e] r'] in H.
  assert (B2 : forall d, BInv (set_rd (set_buf (realloc st) (buf (realloc st) ++ d) (cap (realloc st))) r')).
  { intros d. unfold BInv in *. simpl. rewrite app_length. lia. }
  destruct e as [[|k]|]; destruct data; try (eapply IHfuel; [exact H|apply B2]); inversion H; subst;
    first [apply setErr_binv|apply B2].
Qed.

Theorem decode_binv : forall st, BInv st -> BInv (snd (Decode skip inner st)).
Proof.
  intros st B. unfold Decode. destruct (err st); [exact B|].
  destruct (peek (S (rd_fuel (rd st))) None st) as [[c|e|] st1] eqn:PK; pose proof (peek_binv _ _ _ _ _ B PK) as B1.
  - destruct (N.eqb c 45 || is_digit c)%bool.
    + unfold decodeNumber.
      destruct (decodeNumber_loop (S (rd_fuel (rd st1))) (S (scanp st1)) st1) as [[i| |] st2] eqn:DL;
        pose proof (decodeNumber_loop_binv _ _ _ _ _ DL B1) as B2.
      * destruct (inner _); simpl; [apply consume_binv|apply setErr_binv].
      * simpl. exact B2.
      * simpl. exact B2.
    + destruct (try_skip skip inner (S (rd_fuel (rd st1))) (scanp st1) st1) as [r st2] eqn:TS. simpl.
      eapply try_skip_binv; eauto.
  - simpl. exact B1.
  - simpl. exact B1.
Qed.

Theorem more_binv : forall st, BInv st -> BInv (snd (More st)).
Proof.
  intros st B. unfold More. destruct (err st); [exact B|].
  destruct (peek (S (rd_fuel (rd st))) None st) as [[c|e|] st1] eqn:PK; pose proof (peek_binv _ _ _ _ _ B PK) as B1;
    simpl; try exact B1.
  all: try (destruct (_ || _)%bool; exact B1).
Qed.

(* ---- progress and exact accounting of consumed bytes, in every state reached from a fresh decoder (BInv) *)
Lemma refill_offset : forall st e st', refill st = (e, st') -> scanned st' + scanp st' = scanned st + scanp st.
Proof.
  intros st e st' H. unfold refill in H.
  destruct (rd_read _ _) as [[data e2] r'] in H.
  inversion H; subst. simpl. destruct (0 <? scanp st) eqn:E; simpl; [lia|].
  reflexivity.
Qed.

Lemma peek_offset : forall fuel e0 st c st', peek fuel e0 st = (PChar c, st') ->
  scanned st + scanp st <= scanned st' + scanp st'.
Proof.
  induction fuel; intros e0 st c st' H; simpl in H; [discriminate|].
  destruct (scan st) as [[c1|] st1] eqn:S.
  - inversion H; subst. apply scan_offset in S. lia.
  - apply scan_offset in S. destruct S as (S1 & S2 & S3 & S4).
    destruct e0; [discriminate|].
    destruct (refill st1) as [e st2] eqn:R. apply refill_offset in R.
    apply IHfuel in H. lia.
Qed.

Hypothesis inner_pos : forall w v, inner w = Some v -> 1 <= length v.
Hypothesis inner_len : forall w v, inner w = Some v -> length v <= length w.

(* bytes dropped from the front of the buffer + bytes buffered + bytes the reader has not delivered yet *)
Definition acct (st : sd) : nat := scanned st + length (buf st) + length (rd_bytes (rd st)).

Lemma rd_read_bytes : forall r sp data e r', rd_read r sp = (data, e, r') -> rd_bytes r = data ++ rd_bytes r'.
Proof.
  intros [ch fin lg] sp data e r' H. unfold rd_read in H. simpl in H. unfold rd_bytes. simpl.
  destruct ch as [|[c ce] tl].
  - inversion H; subst. reflexivity.
  - destruct (length c <=? sp); inversion H; subst; simpl; [reflexivity|].
    rewrite app_assoc, firstn_skipn. reflexivity.
Qed.

Lemma consume_acct : forall st, BInv st ->
  acct (consume st) = acct st /\ scanned st + scanp st <= scanned (consume st) + scanp (consume st) /\
  scanp (consume st) = 0.
Proof.
  intros st B. unfold consume. destruct (scan st) as [c st1] eqn:S.
  pose proof (scan_binv _ _ _ B S) as B1. apply scan_offset in S. destruct S as (S1 & S2 & S3 & S4).
  unfold BInv, acct in *. rewrite S3 in B1. destruct c; simpl; rewrite ?skipn_length, ?S4, ?S3, ?S1; repeat split; lia.
Qed.

Lemma refill_acct : forall st e st', BInv st -> refill st = (e, st') -> acct st' = acct st.
Proof.
  intros st e st' B H. unfold refill in H.
  destruct (rd_read _ _) as [[data e2] r'] eqn:RR in H. inversion H; subst. clear H.
  unfold BInv, acct in *. simpl.
  destruct (0 <? scanp st) eqn:E; simpl in *; apply rd_read_bytes in RR; simpl in RR; rewrite RR, !app_length;
    rewrite ?skipn_length; lia.
Qed.

Lemma peek_acct : forall fuel e0 st c st', BInv st -> peek fuel e0 st = (PChar c, st') -> acct st' = acct st.
Proof.
  induction fuel; intros e0 st c st' B H; simpl in H; [discriminate|].
  destruct (scan st) as [[c1|] st1] eqn:S.
  - inversion H; subst. apply scan_offset in S. destruct S as (S1 & S2 & S3 & S4). unfold acct. rewrite S1, S3, S4. reflexivity.
  - pose proof (scan_binv _ _ _ B S) as B1. apply scan_offset in S. destruct S as (S1 & S2 & S3 & S4).
    destruct e0; [discriminate|].
    destruct (refill st1) as [e st2] eqn:R.
    pose proof (refill_binv _ _ _ B1 R) as B2. pose proof (refill_acct _ _ _ B1 R) as A2.
    apply IHfuel in H; auto. rewrite H, A2. unfold acct. rewrite S1, S3, S4. reflexivity.
Qed.

Lemma readMore_loop_acct : forall n st st1, readMore_loop n st = (Some true, st1) -> acct st1 = acct st.
Proof.
  induction n; intros st st1 RM; simpl in RM; [discriminate|].
  destruct (rd_read _ _) as [[data e] r'] eqn:RR in RM.
  destruct (scan _) as [c st3] eqn:S in RM.
  apply scan_offset in S. simpl in S. destruct S as (S1 & _ & S3 & S4).
  apply rd_read_bytes in RR. simpl in RR.
  assert (A3 : acct st3 = acct st).
  { unfold acct. rewrite S1, S3, S4, RR, !app_length. lia. }
  destruct c.
  - inversion RM; subst. exact A3.
  - destruct e; [discriminate|]. apply IHn in RM. rewrite RM. exact A3.
Qed.

Lemma decodeNumber_loop_acct : forall fuel i st j st',
  decodeNumber_loop fuel i st = (NBreak j, st') ->
  acct st' = acct st /\ scanp st' = scanp st /\ scanned st' = scanned st /\ length (buf st) <= length (buf st').
Proof.
  induction fuel as [|f IH]; intros i st j st' H; simpl in H; [discriminate|].
  destruct (_ <? _) in H; [inversion H; subst; repeat split; lia|].
  destruct (rd_read _ _) as [[data e] r'] eqn:RR in H.
  apply rd_read_bytes in RR. simpl in RR.
  assert (STEP : forall st2, st2 = set_rd (set_buf (realloc st) (buf (realloc st) ++ data) (cap (realloc st))) r' ->
            acct st2 = acct st /\ scanp st2 = scanp st /\ scanned st2 = scanned st /\ length (buf st) <= length (buf st2)).
  { intros st2 ->. unfold acct. simpl. rewrite RR, !app_length. repeat split; lia. }
  assert (REC : forall i1, decodeNumber_loop f i1 (set_rd (set_buf (realloc st) (buf (realloc st) ++ data) (cap (realloc st))) r') = (NBreak j, st') ->
            acct st' = acct st /\ scanp st' = scanp st /\ scanned st' = scanned st /\ length (buf st) <= length (buf st')).
  { intros i1 R. apply IH in R. destruct (STEP _ eq_refl) as (A1 & A2 & A3 & A4). destruct R as (H1 & H2 & H3 & H4).
    split; [congruence|]. split; [congruence|]. split; [congruence|lia]. }
  destruct e as [[|k]|]; destruct data as [|d0 data'].
  - inversion H; subst. apply STEP. reflexivity.
  - eapply REC; exact H.
  - discriminate.
  - eapply REC; exact H.
  - eapply REC; exact H.
  - eapply REC; exact H.
Qed.

Lemma try_skip_acct : forall fuel s st v st',
  try_skip skip inner fuel s st = (RVal v, st') ->
  acct st' = acct st /\ scanned st + s < scanned st' + scanp st' /\ scanp st' = 0.
Proof.
  induction fuel as [|f IH]; intros s st v st' H; simpl in H; [discriminate|].
  destruct (skip (sub (buf st) s (length (buf st)))) as [y x| |] eqn:SK.
  - apply skip_pos in SK.
    destruct (length (buf st) <? x + (y + s)) eqn:L; [discriminate|]. apply Nat.ltb_ge in L.
    destruct (inner (sub (buf st) (y + s) (x + (y + s)))); [|discriminate].
    inversion H; subst.
    destruct (consume_acct (set_scanp st (x + (y + s))) ltac:(unfold BInv; simpl; lia)) as (A & O & Z).
    unfold acct in *. simpl in *. repeat split; lia.
  - destruct (readMore st) as [[[|]|] st1] eqn:RM.
    + apply IH in H. destruct H as (A & O & Z).
      unfold readMore in RM. destruct (err st); [discriminate|].
      pose proof (readMore_loop_acct _ _ _ RM) as A1. pose proof (readMore_loop_scanned _ _ _ RM) as S1.
      repeat split; [congruence|lia|exact Z].
    + destruct (err st1) as [[[|]| |]|]; discriminate.
    + discriminate.
  - discriminate.
Qed.

Lemma decodeNumber_acct : forall s st v st',
  s <= length (buf st) -> decodeNumber inner s st = (RVal v, st') ->
  acct st' = acct st /\ scanned st + s < scanned st' + scanp st' /\ scanp st' = 0.
Proof.
  intros s st v st' Hs H. unfold decodeNumber in H.
  destruct (decodeNumber_loop (S (rd_fuel (rd st))) (S s) st) as [[i| |] st1] eqn:DL.
  - apply decodeNumber_loop_acct in DL. destruct DL as (A1 & P1 & S1 & L1).
    destruct (inner (sub (buf st1) s i)) as [v'|] eqn:IV; [|discriminate].
    inversion H; subst. pose proof (inner_pos _ _ IV) as IP. apply inner_len in IV.
    assert (LS : length (sub (buf st1) s i) <= length (buf st1) - s).
    { unfold sub. rewrite firstn_length, skipn_length. lia. }
    destruct (consume_acct (set_scanp st1 (s + length v)) ltac:(unfold BInv; simpl; lia)) as (A & O & Z).
    unfold acct in *. simpl in *. repeat split; lia.
  - destruct (err st1); discriminate.
  - discriminate.
Qed.

(* Every successful Decode leaves `scanned + len(buf) + undelivered bytes` unchanged, advances InputOffset by at least
   one byte and ends with scanp = 0: InputOffset() is exactly the number of bytes that are no longer pending *)
Theorem decode_acct : forall st v st',
  BInv st -> Decode skip inner st = (RVal v, st') ->
  acct st' = acct st /\ InputOffset st < InputOffset st' /\ scanp st' = 0.
Proof.
  intros st v st' B H. unfold Decode in H. unfold InputOffset.
  destruct (err st); [discriminate|].
  destruct (peek (S (rd_fuel (rd st))) None st) as [[c|e|] st2] eqn:P.
  - pose proof (peek_binv _ _ _ _ _ B P) as B2. pose proof (peek_acct _ _ _ _ _ B P) as A2. apply peek_offset in P.
    destruct (N.eqb c 45 || is_digit c)%bool.
    + apply decodeNumber_acct in H; [|exact B2]. destruct H as (A & O & Z). repeat split; [congruence|lia|exact Z].
    + apply try_skip_acct in H. destruct H as (A & O & Z). repeat split; [congruence|lia|exact Z].
  - destruct (err st2); discriminate.
  - discriminate.
Qed.

Theorem decode_progress : forall st v st',
  BInv st -> Decode skip inner st = (RVal v, st') -> InputOffset st < InputOffset st'.
Proof. intros st v st' B H. exact (proj1 (proj2 (decode_acct st v st' B H))). Qed.

End WithSkip.
