(* C17 - StreamEncoder.Encode over every writer oracle *)
From Coq Require Import NArith List Bool Arith Lia.
From SV.Stream Require Import Skip Enc.
Import ListNotations.

Definition noerr (r : nat * option werr) : Prop := snd r = None.
Definition progress (r : nat * option werr) : Prop := snd r = None /\ 1 <= fst r.

(* the short-write loop delivers the whole body, in order, whatever the pieces - as long as no Write fails *)
Lemma write_loop_noerr : forall fuel b w,
  Forall noerr (wresp w) -> length (wresp w) < fuel ->
  exists w1, write_loop fuel b w = (Some None, w1) /\ wgot w1 = wgot w ++ b /\
             (exists used, wresp w = used ++ wresp w1).
Proof.
  induction fuel as [|f IH]; intros b w HF HL; [lia|].
  destruct b as [|c b'].
  { simpl. exists w. rewrite app_nil_r. split; auto. split; auto. exists []. reflexivity. }
  cbn [write_loop]. unfold w_write.
  destruct (wresp w) as [|[k e] tl] eqn:R.
  - set (w' := {| wresp := []; wgot := wgot w ++ c :: b' |}).
    rewrite skipn_all.
    exists w'. split; [destruct f; reflexivity|]. split; [reflexivity|]. exists []. reflexivity.
  - inversion HF as [|x y H1 H2]; subst. unfold noerr in H1. simpl in H1. subst e.
    set (n := Nat.min k (length (c :: b'))).
    set (w' := {| wresp := tl; wgot := wgot w ++ firstn n (c :: b') |}).
    destruct (IH (skipn n (c :: b')) w' H2 ltac:(simpl in *; lia)) as (w1 & A & B & (used & C)).
    exists w1. split; [exact A|]. split.
    + rewrite B. unfold w'. simpl wgot. rewrite <- app_assoc, firstn_skipn. reflexivity.
    + exists ((k, None) :: used). simpl. unfold w' in C. simpl in C. rewrite C. reflexivity.
Qed.

(* Marshal's bytes plus the newline (unless disabled), and nothing else, reach the Writer for EVERY short-write
   pattern, zero-length writes included - as long as no Write fails *)
Theorem enc_delivers_marshal : forall body newline w,
  Forall noerr (wresp w) ->
  exists w1, Encode (Some body) None newline w = (ENil, w1) /\
             wgot w1 = wgot w ++ body ++ (if newline then [10%N] else []).
Proof.
  intros body newline w HF. unfold Encode.
  destruct (write_loop_noerr (S (length (wresp w))) (payload body newline) w HF ltac:(lia))
    as (w1 & A & B & _).
  rewrite A. exists w1. split; [reflexivity|]. rewrite B. unfold payload.
  destruct newline; [reflexivity|rewrite app_nil_r; reflexivity].
Qed.

(* an error returned by Encode is an error of the Writer, and what was delivered is a prefix of Marshal's bytes *)
Lemma write_loop_err : forall fuel b w e w1,
  write_loop fuel b w = (Some (Some e), w1) ->
  In (Some e) (map snd (wresp w)) /\ exists pre suf, b = pre ++ suf /\ wgot w1 = wgot w ++ pre.
Proof.
  induction fuel as [|f IH]; intros b w e w1 H.
  { destruct b; simpl in H; discriminate. }
  destruct b as [|c b']; [simpl in H; discriminate|].
  cbn [write_loop] in H. unfold w_write in H.
  destruct (wresp w) as [|[k e0] tl] eqn:R.
  - rewrite skipn_all in H. destruct f; simpl in H; discriminate.
  - destruct e0 as [e0|].
    + inversion H; subst. split; [simpl; auto|].
      exists (firstn (Nat.min k (length (c :: b'))) (c :: b')), (skipn (Nat.min k (length (c :: b'))) (c :: b')).
      rewrite firstn_skipn. split; reflexivity.
    + apply IH in H. simpl in H. destruct H as (A & pre & suf & B & C).
      split; [simpl; auto|].
      exists (firstn (Nat.min k (length (c :: b'))) (c :: b') ++ pre), suf.
      rewrite <- app_assoc, <- B, firstn_skipn. split; [reflexivity|]. rewrite C, app_assoc. reflexivity.
Qed.

Theorem enc_error_is_writers : forall body newline w e w1,
  Encode (Some body) None newline w = (EErr e, w1) ->
  In (Some e) (map snd (wresp w)) /\
  exists pre suf, payload body newline = pre ++ suf /\ wgot w1 = wgot w ++ pre.
Proof.
  intros body newline w e w1 H. unfold Encode in H.
  destruct (write_loop (S (length (wresp w))) (payload body newline) w) as [[[e'|]|] w'] eqn:WL.
  - inversion H; subst. eapply write_loop_err; eauto.
  - discriminate.
  - discriminate.
Qed.

(* nil is returned only if no body Write failed (newline disabled: the statement at full strength) *)
Lemma write_loop_nil_noerr : forall fuel b w w1,
  write_loop fuel b w = (Some None, w1) ->
  exists used, wresp w = used ++ wresp w1 /\ Forall noerr used.
Proof.
  induction fuel as [|f IH]; intros b w w1 H.
  { destruct b; simpl in H; inversion H; subst. exists []. split; auto. }
  destruct b as [|c b'].
  { simpl in H. inversion H; subst. exists []. split; auto. }
  cbn [write_loop] in H. unfold w_write in H.
  destruct (wresp w) as [|[k e0] tl] eqn:R.
  - rewrite skipn_all in H.
    assert (E : w1 = {| wresp := []; wgot := wgot w ++ c :: b' |}) by (destruct f; simpl in H; inversion H; reflexivity).
    subst w1. exists []. split; auto.
  - destruct e0 as [e0|]; [discriminate|].
    apply IH in H. simpl in H. destruct H as (used & A & B).
    exists ((k, None) :: used). split; [simpl; rewrite A; reflexivity|]. constructor; auto. reflexivity.
Qed.

(* every byte was delivered when nil is returned - whatever the writer did *)
Lemma write_loop_nil_delivered : forall fuel b w w1,
  write_loop fuel b w = (Some None, w1) -> wgot w1 = wgot w ++ b.
Proof.
  induction fuel as [|f IH]; intros b w w1 H.
  { destruct b; simpl in H; inversion H; subst. rewrite app_nil_r. reflexivity. }
  destruct b as [|c b'].
  { simpl in H. inversion H; subst. rewrite app_nil_r. reflexivity. }
  cbn [write_loop] in H. unfold w_write in H.
  destruct (wresp w) as [|[k e0] tl] eqn:R.
  - rewrite skipn_all in H.
    assert (E : w1 = {| wresp := []; wgot := wgot w ++ c :: b' |}) by (destruct f; simpl in H; inversion H; reflexivity).
    subst w1. reflexivity.
  - destruct e0 as [e0|]; [discriminate|].
    apply IH in H. simpl in H. rewrite H. rewrite <- app_assoc, firstn_skipn. reflexivity.
Qed.

Theorem enc_nil_means_all_delivered : forall body newline w w1,
  Encode (Some body) None newline w = (ENil, w1) ->
  wgot w1 = wgot w ++ body ++ (if newline then [10%N] else []) /\
  exists used, wresp w = used ++ wresp w1 /\ Forall noerr used.
Proof.
  intros body newline w w1 H. unfold Encode in H.
  destruct (write_loop (S (length (wresp w))) (payload body newline) w) as [[[e'|]|] w'] eqn:WL; try discriminate.
  inversion H; subst. split.
  - apply write_loop_nil_delivered in WL. rewrite WL. unfold payload.
    destruct newline; [reflexivity|rewrite app_nil_r; reflexivity].
  - eapply write_loop_nil_noerr; eauto.
Qed.

(* a failing Write is never swallowed: the first error met by the loop is returned *)
Lemma write_loop_first_error : forall fuel b w used k e rest,
  wresp w = used ++ (k, Some e) :: rest -> Forall noerr used -> length (wresp w) < fuel ->
  (exists w1, write_loop fuel b w = (Some (Some e), w1)) \/
  (exists w1, write_loop fuel b w = (Some None, w1) /\ wgot w1 = wgot w ++ b /\
              exists used', wresp w1 = used' ++ (k, Some e) :: rest).
Proof.
  induction fuel as [|f IH]; intros b w used k e rest HR HU HL; [lia|].
  destruct b as [|c b'].
  { right. exists w. simpl. rewrite app_nil_r. split; auto. split; auto. eauto. }
  cbn [write_loop]. unfold w_write. rewrite HR.
  destruct used as [|[k0 e0] used'].
  - simpl. left. eauto.
  - inversion HU as [|x y H1 H2]; subst. unfold noerr in H1. simpl in H1. subst e0. simpl.
    set (w' := {| wresp := used' ++ (k, Some e) :: rest; wgot := wgot w ++ firstn (Nat.min k0 (S (length b'))) (c :: b') |}).
    destruct (IH (skipn (Nat.min k0 (S (length b'))) (c :: b')) w' used' k e rest eq_refl H2) as [(w1 & A)|(w1 & A & B & C)].
    + unfold w'. simpl. rewrite HR in HL. simpl in HL. lia.
    + left. eauto.
    + right. exists w1. split; [exact A|]. split; [|exact C].
      rewrite B. unfold w'. simpl wgot. rewrite <- app_assoc, firstn_skipn. reflexivity.
Qed.

Theorem enc_write_error_returned : forall body newline w used k e rest,
  wresp w = used ++ (k, Some e) :: rest -> Forall noerr used ->
  (exists w1, Encode (Some body) None newline w = (EErr e, w1)) \/
  (* ... unless everything had been delivered before that Write was ever issued *)
  (exists w1, Encode (Some body) None newline w = (ENil, w1) /\
              wgot w1 = wgot w ++ body ++ (if newline then [10%N] else [])).
Proof.
  intros body newline w used k e rest HR HU. unfold Encode.
  destruct (write_loop_first_error (S (length (wresp w))) (payload body newline) w used k e rest HR HU ltac:(lia))
    as [(w1 & A)|(w1 & A & B & _)]; rewrite A.
  - left. eauto.
  - right. exists w1. split; [reflexivity|]. rewrite B. unfold payload.
    destruct newline; [reflexivity|rewrite app_nil_r; reflexivity].
Qed.

(* the loop never runs out of fuel *)
Lemma write_loop_fuel : forall fuel b w, length (wresp w) < fuel -> fst (write_loop fuel b w) <> None.
Proof.
  induction fuel as [|f IH]; intros b w HL; [lia|].
  destruct b as [|c b']; [simpl; discriminate|].
  cbn [write_loop]. unfold w_write.
  destruct (wresp w) as [|[k e0] tl] eqn:R.
  - rewrite skipn_all. destruct f; simpl; discriminate.
  - destruct e0; [simpl; discriminate|]. apply IH. simpl in *. lia.
Qed.

(* indent path: one Write of json.Indent's output (+ newline); a short Write is io.ErrShortWrite *)
Theorem enc_indent_path : forall body ind newline w res w1,
  Encode (Some body) (Some ind) newline w = (res, w1) ->
  let p := if newline then ind ++ [10%N] else ind in
  (res = ENil -> wgot w1 = wgot w ++ p) /\
  (forall e, res = EErr e -> e = ErrShortWrite \/ In (Some e) (map snd (wresp w))) /\
  (exists pre suf, p = pre ++ suf /\ wgot w1 = wgot w ++ pre).
Proof.
  intros body ind newline w res w1 H p. unfold Encode in H. change (indent_payload ind newline) with p in H. cbv zeta in H.
  destruct p as [|c p'] eqn:P.
  { inversion H; subst. rewrite app_nil_r. split; auto. split; [intros; discriminate|]. exists [], []. split; [reflexivity|rewrite app_nil_r; reflexivity]. }
  rewrite <- P in *. unfold w_write in H.
  destruct (wresp w) as [|[k e0] tl] eqn:R.
  - rewrite Nat.eqb_refl in H. inversion H; subst. simpl.
    split; auto. split; [intros; discriminate|]. exists p, []. split; [rewrite app_nil_r; reflexivity|reflexivity].
  - set (n := Nat.min k (length p)) in *.
    assert (PF : exists pre suf, p = pre ++ suf /\ wgot w ++ firstn n p = wgot w ++ pre).
    { exists (firstn n p), (skipn n p). rewrite firstn_skipn. auto. }
    destruct e0 as [e0|].
    + inversion H; subst. simpl. split; [intros; discriminate|]. split; [|exact PF].
      intros e E. inversion E; subst. right. simpl. auto.
    + destruct (n =? length p) eqn:E; inversion H; subst; simpl.
      * apply Nat.eqb_eq in E. split; [|split; [intros; discriminate|exact PF]].
        intros _. rewrite E, firstn_all. reflexivity.
      * split; [intros; discriminate|]. split; [|exact PF]. intros e E'. inversion E'; auto.
Qed.

(* SetIndent path at full strength (io.Copy = bytes.Buffer.WriteTo: ONE Write of the indented text + newline):
   the outcome is decided by the writer's first answer, case by case *)
Theorem enc_indent_cases : forall body ind newline w,
  let p := indent_payload ind newline in
  p <> [] ->
  match wresp w with
  | [] =>                      (* a writer that accepts everything *)
    Encode (Some body) (Some ind) newline w = (ENil, {| wresp := []; wgot := wgot w ++ p |})
  | (k, Some e) :: tl =>       (* the Write fails: its error is returned, whatever was accepted is delivered *)
    Encode (Some body) (Some ind) newline w = (EErr e, {| wresp := tl; wgot := wgot w ++ firstn (Nat.min k (length p)) p |})
  | (k, None) :: tl =>
    if length p <=? k
    then Encode (Some body) (Some ind) newline w = (ENil, {| wresp := tl; wgot := wgot w ++ p |})
    else                       (* a short write without error: io.ErrShortWrite, no retry *)
      Encode (Some body) (Some ind) newline w = (EErr ErrShortWrite, {| wresp := tl; wgot := wgot w ++ firstn k p |})
  end.
Proof.
  intros body ind newline w p NE. unfold Encode. fold p. cbv zeta.
  destruct p as [|c p'] eqn:P; [congruence|]. rewrite <- P in *. unfold w_write.
  destruct (wresp w) as [|[k [e|]] tl].
  - rewrite Nat.eqb_refl. reflexivity.
  - reflexivity.
  - destruct (length p <=? k) eqn:L.
    + apply Nat.leb_le in L. rewrite Nat.min_r by lia. rewrite Nat.eqb_refl, firstn_all. reflexivity.
    + apply Nat.leb_gt in L. rewrite Nat.min_l by lia.
      assert (k =? length p = false) as -> by (apply Nat.eqb_neq; lia). reflexivity.
Qed.
